(* MaildirFS/LegalProofs.v — the decision procedure of Legal.v is sound. *)
From PV Require Import Base.Prelude Base.Decimal MaildirFS.FS MaildirFS.UidList MaildirFS.Ops
  MaildirFS.Spec MaildirFS.FSProofs MaildirFS.Legal.
Local Open Scope N_scope.

Lemma bytes_eqb_refl b : bytes_eqb b b = true.
Proof. apply bytes_eqb_eq. reflexivity. Qed.
Lemma fname_eqb_refl f : fname_eqb f f = true.
Proof. apply fname_eqb_eq. reflexivity. Qed.

Lemma key_unused_b_sound m k : key_unused_b m k = true -> key_unused m k.
Proof.
  intros H f s i Hs. destruct (lookup m (PMsg f s k i)) eqn:E; [|reflexivity].
  apply lookup_In in E. unfold key_unused_b in H. rewrite forallb_forall in H.
  specialize (H _ E). cbn [fst] in H. rewrite Hs, bytes_eqb_refl in H. discriminate.
Qed.

Lemma has_file_b_complete m f k : has_file m f k -> has_file_b m f k = true.
Proof.
  intros [i [c [s [Hs Hl]]]]. apply lookup_In in Hl. unfold has_file_b.
  apply existsb_exists. exists (PMsg f s k i, File (Opaque c)). split; [exact Hl|].
  rewrite fname_eqb_refl, Hs, bytes_eqb_refl. reflexivity.
Qed.

Lemma recorded_b_sound u uid k : recorded_b u uid k = true -> recorded u uid k.
Proof.
  unfold recorded_b. intro H. apply existsb_exists in H as [r [Hin H]].
  apply andb_true_iff in H as [H1 H2]. apply N.eqb_eq in H1. apply bytes_eqb_eq in H2.
  exists r. repeat split; assumption.
Qed.

Lemma recorded_in r u : In r (u_recs u) -> recorded u (r_uid r) (r_key r).
Proof. intro H. exists r. repeat split. exact H. Qed.

Lemma nodup_uids_sound l : nodup_uids l = true -> NoDup (map r_uid l).
Proof.
  induction l as [|r l IH]; cbn [nodup_uids map]; intro H; [constructor|].
  apply andb_true_iff in H as [H1 H2]. constructor; [|exact (IH H2)].
  intro Hin. apply in_map_iff in Hin as [x [Hx Hin]].
  apply negb_true_iff in H1. assert (E : existsb (fun x => r_uid x =? r_uid r) l = true).
  { apply existsb_exists. exists x. split; [exact Hin|]. apply N.eqb_eq. exact Hx. }
  congruence.
Qed.

Lemma uids_ok_b_sound u : uids_ok_b u = true -> uids_ok u.
Proof.
  unfold uids_ok_b. intro H. apply andb_true_iff in H as [H1 H2]. split.
  - exact (nodup_uids_sound _ H1).
  - intros r Hr. rewrite forallb_forall in H2. apply N.ltb_lt. exact (H2 r Hr).
Qed.

Lemma extends_b_sound m f u u' : extends_b m f u u' = true -> extends (has_file m f) u u'.
Proof.
  unfold extends_b. intro H.
  apply andb_true_iff in H as [H H4]. apply andb_true_iff in H as [H H3].
  apply andb_true_iff in H as [H1 H2].
  apply N.eqb_eq in H1. apply N.leb_le in H2.
  rewrite forallb_forall in H3, H4.
  split; [exact H1|]. split; [exact H2|]. split.
  - intros uid k [r [Hin [<- <-]]] Hlt. specialize (H3 r Hin).
    apply N.ltb_lt in Hlt. rewrite Hlt in H3. exact (recorded_b_sound _ _ _ H3).
  - intros uid k [r [Hin [<- <-]]] Hf. specialize (H4 r Hin).
    rewrite (has_file_b_complete _ _ _ Hf) in H4. exact (recorded_b_sound _ _ _ H4).
Qed.

Lemma install_ok_sound m f n : install_ok m f n = true ->
  exists u', lookup m (PTmp f n) = Some (File (Text (print_uidl u')))
    /\ wf_uidl u' = true /\ uids_ok u'
    /\ (forall u, uidl_at m f u -> extends (has_file m f) u u').
Proof.
  unfold install_ok.
  destruct (lookup m (PTmp f n)) as [[|[id|t]]|] eqn:E; try discriminate.
  destruct (parse_uidl t) as [u'| | |] eqn:P; try discriminate.
  intro H. apply andb_true_iff in H as [H H2]. apply andb_true_iff in H as [H H1].
  apply andb_true_iff in H as [Hp Hw]. apply bytes_eqb_eq in Hp.
  exists u'. split; [rewrite Hp; reflexivity|]. split; [exact Hw|].
  split; [exact (uids_ok_b_sound _ H1)|].
  intros u [t0 [Hl0 Hp0]]. rewrite Hl0, Hp0 in H2. exact (extends_b_sound _ _ _ _ H2).
Qed.

Lemma rename_ok_b_sound lay m a b : rename_ok_b lay m a b = true -> rename_ok lay m a b.
Proof.
  unfold rename_ok_b, rename_clear. intros H p q Hp Hq E.
  apply in_map_iff in Hp as [[p' x] [<- Hp]]. apply in_map_iff in Hq as [[q' y] [<- Hq]].
  cbn [fst] in *. rewrite forallb_forall in H. specialize (H _ Hp). rewrite forallb_forall in H.
  specialize (H _ Hq). cbn [fst] in H. rewrite E, path_eqb_refl in H. cbn [implb] in H.
  apply path_eqb_eq. exact H.
Qed.

Theorem legal_b_sound lay m o : legal_b lay m o = true -> legal lay m o.
Proof.
  destruct o as [p|p|p|p c|p q|a b|p q|p|p]; cbn [legal_b]; intro H; try discriminate.
  - apply L_mkdir.
  - apply orb_true_iff in H as [H|H]; [apply L_creat; exact H|].
    destruct p as [| | |f c|]; try discriminate. destruct c; try discriminate. apply L_mdf.
  - apply L_write. exact H.
  - destruct p as [| |f s k i|f c|f n]; try discriminate.
    + destruct q as [| |g s' k' i'| |]; try discriminate.
      apply andb_true_iff in H as [H H4]. apply andb_true_iff in H as [H H3].
      apply andb_true_iff in H as [H1 H2]. apply bytes_eqb_eq in H3. subst k'.
      apply orb_true_iff in H4 as [H4|H4].
      * apply andb_true_iff in H4 as [H4 H5]. apply fname_eqb_eq in H4. subst g.
        apply L_flags; assumption.
      * apply bytes_eqb_eq in H4. subst i'. apply L_move; assumption.
    + destruct q as [| | |g c|]; try (destruct f; discriminate).
      destruct c; try (destruct f, g; discriminate).
      * assert (H' : fname_eqb f g && install_ok m f n = true) by (destruct f, g; exact H).
        clear H. apply andb_true_iff in H' as [H1 H2]. apply fname_eqb_eq in H1. subst g.
        destruct (install_ok_sound _ _ _ H2) as [u' [Hl [Hw [Hu He]]]].
        eapply L_install; eassumption.
      * destruct f; [|discriminate]. destruct g; [|discriminate]. apply L_subs.
  - apply L_renamedir. exact (rename_ok_b_sound _ _ _ _ H).
  - destruct p as [| |f s k i| |]; try discriminate.
    destruct s; try discriminate. destruct i; try discriminate.
    destruct q as [| |g s' k' i'| |]; try discriminate.
    apply andb_true_iff in H as [H H7]. apply andb_true_iff in H as [H H6].
    apply andb_true_iff in H as [H H5]. apply andb_true_iff in H as [H H4].
    apply andb_true_iff in H as [H H3]. apply andb_true_iff in H as [H1 H2].
    apply fname_eqb_eq in H1. apply bytes_eqb_eq in H2. subst g k'.
    destruct (lookup m (PMsg f STmp k [])) as [[|[c|]]|] eqn:El; try discriminate.
    eapply L_link; [exact H3|exact (key_unused_b_sound _ _ H4)|exact H5|exact H6|exact El].
  - apply orb_true_iff in H as [H|H]; [apply L_unlink_junk; exact H|].
    destruct p as [| |f s k i|f c|]; try discriminate.
    + apply L_expunge. exact H.
    + destruct f; [|discriminate]. destruct c; try discriminate. apply L_unsubs.
  - apply L_utime.
Qed.

Theorem legal_ops_b_run lay m l m' :
  legal_ops_b lay m l = true -> apply_ops lay m l = (m', true) -> legal_run lay m l m'.
Proof.
  revert m. induction l as [|o l IH]; intros m H A; cbn [legal_ops_b apply_ops] in *.
  - injection A as <-. constructor.
  - apply andb_true_iff in H as [H1 H2].
    destruct (apply_op lay m o) as [m1|] eqn:E; [|discriminate].
    econstructor; [exact (legal_b_sound _ _ _ H1)|exact E|exact (IH _ H2 A)].
Qed.

(* the part of an operation list that is executed (up to the first failing
   operation) is a legal run, for every crash point *)
Lemma legal_ops_b_applied lay m l :
  legal_ops_b lay m l = true ->
  legal_run lay m (applied lay m l) (fst (apply_ops lay m l)).
Proof.
  revert m. induction l as [|o l IH]; intros m H; cbn [applied apply_ops]; [constructor|].
  cbn [legal_ops_b] in H. apply andb_true_iff in H as [H1 H2].
  destruct (apply_op lay m o) as [m1|] eqn:E; [|constructor].
  econstructor; [exact (legal_b_sound _ _ _ H1)|exact E|exact (IH _ H2)].
Qed.

Lemma applied_prefix lay m l : exists rest, l = applied lay m l ++ rest.
Proof.
  revert m. induction l as [|o l IH]; intro m; cbn [applied]; [exists []; reflexivity|].
  destruct (apply_op lay m o) as [m1|]; [|exists (o :: l); reflexivity].
  destruct (IH m1) as [rest E]. exists rest. cbn [app]. rewrite <- E. reflexivity.
Qed.

Lemma legal_ops_b_prefix lay m l1 l2 :
  legal_ops_b lay m (l1 ++ l2) = true -> legal_ops_b lay m l1 = true.
Proof.
  revert m. induction l1 as [|o l1 IH]; intros m H; [reflexivity|].
  cbn [app legal_ops_b] in *. apply andb_true_iff in H as [H1 H2].
  rewrite H1. cbn [andb]. destruct (apply_op lay m o); [exact (IH _ H2)|reflexivity].
Qed.

Lemma legal_ops_b_crash lay m l k :
  legal_ops_b lay m l = true -> legal_ops_b lay m (crash k l) = true.
Proof. intro H. apply (legal_ops_b_prefix lay m (crash k l) (skipn k l)).
  unfold crash. rewrite firstn_skipn. exact H. Qed.

(* ---------------------------------------------- the invariant, decided *)
Lemma nodup_paths_sound l : nodup_paths l = true -> NoDup l.
Proof.
  induction l as [|p l IH]; cbn [nodup_paths]; intro H; [constructor|].
  apply andb_true_iff in H as [H1 H2]. constructor; [|exact (IH H2)].
  intro Hin. apply negb_true_iff in H1.
  assert (existsb (path_eqb p) l = true)
    by (apply existsb_exists; exists p; split; [exact Hin|apply path_eqb_refl]).
  congruence.
Qed.

Theorem inv_b_sound m : inv_b m = true -> Inv m.
Proof.
  unfold inv_b. intro H. apply andb_true_iff in H as [H H3]. apply andb_true_iff in H as [H1 H2].
  pose proof (nodup_paths_sound _ H1) as Hnd. rewrite forallb_forall in H2. split.
  - intros f n Hl. pose proof (H2 _ (lookup_In _ _ _ Hl)) as He. cbn [entry_ok] in He.
    destruct n as [|[c|t]]; try discriminate.
    destruct (parse_uidl t) as [u| | |] eqn:P; try discriminate.
    apply andb_true_iff in He as [He Hu]. apply andb_true_iff in He as [Hp Hw].
    apply bytes_eqb_eq in Hp. exists u. split; [rewrite Hp; reflexivity|].
    split; [exact Hw|exact (uids_ok_b_sound _ Hu)].
  - intros f s i n f' s' i' n' k Hs Hs' Hl Hl'.
    unfold keys_unique_b in H3. rewrite forallb_forall in H3.
    pose proof (H3 _ (lookup_In _ _ _ Hl)) as Ha. rewrite forallb_forall in Ha.
    specialize (Ha _ (lookup_In _ _ _ Hl')). cbn [fst] in Ha.
    rewrite Hs, Hs', bytes_eqb_refl in Ha. cbn [andb implb] in Ha.
    apply path_eqb_eq in Ha. inversion Ha. repeat split; reflexivity.
  - intros f s k i n Hs Hl. pose proof (H2 _ (lookup_In _ _ _ Hl)) as He. cbn [entry_ok] in He.
    rewrite Hs in He. apply andb_true_iff in He as [He Hn]. apply andb_true_iff in He as [Hk Hi].
    split; [exact Hk|]. split; [exact Hi|]. destruct n as [|[c|t]]; try discriminate.
    exists c. reflexivity.
  - exact Hnd.
Qed.
