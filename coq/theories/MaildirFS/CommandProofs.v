(* MaildirFS/CommandProofs.v — the operation lists of the model's commands are
   legal: proved here for APPEND with any number of messages (the command at
   the centre of C14/C15), for every filesystem state. *)
From PV Require Import Base.Prelude Base.Decimal MaildirFS.FS MaildirFS.UidList MaildirFS.Ops
  MaildirFS.Spec MaildirFS.FSProofs MaildirFS.UidListProofs MaildirFS.DurabilityProofs
  MaildirFS.Legal MaildirFS.LegalProofs MaildirFS.CrashProofs.
Local Open Scope N_scope.

(* ---- what a legal step does to the two facts the proof tracks *)
Lemma step_key_unused lay m o m' K :
  legal m o -> apply_op lay m o = Some m' -> key_unused m K ->
  (forall src f s i, o <> OLink src (PMsg f s K i)) -> key_unused m' K.
Proof.
  intros L A HK Hno f s i Hs.
  assert (LP : live_path (PMsg f s K i)) by (exists f, s, K, i; split; [reflexivity|exact Hs]).
  destruct (legal_live _ _ _ _ L A) as [F|[HL|[HR|HU]]].
  - rewrite (F _ LP). exact (HK _ _ _ Hs).
  - destruct HL as (src & dst & c & -> & (g & t & k0 & j & -> & Ht0) & Hk & Hl).
    rewrite Hl. destruct (path_eqb (PMsg g t k0 j) (PMsg f s K i)) eqn:E; [|exact (HK _ _ _ Hs)].
    apply path_eqb_eq in E. inversion E; subst. exfalso. exact (Hno _ _ _ _ eq_refl).
  - destruct HR as (src & dst & c & -> & (g & t & k0 & j & -> & Ht0)
                    & (g' & t' & k1 & j' & -> & Ht1) & Hkk & Hc & Hl).
    cbn [key_of] in Hkk. subst k1. rewrite Hl.
    destruct (path_eqb (PMsg g' t' k0 j') (PMsg f s K i)) eqn:E.
    + apply path_eqb_eq in E. inversion E; subst. rewrite (HK _ _ _ Ht0) in Hc. discriminate.
    + destruct (path_eqb (PMsg g t k0 j) (PMsg f s K i)); [reflexivity|exact (HK _ _ _ Hs)].
  - destruct HU as (p & -> & (g & t & k0 & j & -> & Ht0) & Hl).
    rewrite Hl. destruct (path_eqb (PMsg g t k0 j) (PMsg f s K i)); [reflexivity|exact (HK _ _ _ Hs)].
Qed.

Lemma step_uidl_same lay m o m' f :
  legal m o -> apply_op lay m o = Some m' ->
  (forall n, o <> ORename (PTmp f n) (PCtl f CUidl)) ->
  lookup m' (PCtl f CUidl) = lookup m (PCtl f CUidl).
Proof.
  intros L A Hno. destruct (legal_uidl_path _ _ _ _ f L A) as [E|[n [t [u' [E _]]]]].
  - exact E.
  - exfalso. exact (Hno n E).
Qed.

Lemma key_unused_b_complete m k : key_unused m k -> key_unused_b m k = true.
Proof.
  intro H. unfold key_unused_b. apply forallb_forall. intros [p n] Hin. cbn [fst].
  destruct p as [| |f s k' i| |]; try reflexivity.
  destruct (live s) eqn:Hs; [|reflexivity]. cbn [andb].
  destruct (bytes_eqb k' k) eqn:Ek; [|reflexivity]. apply bytes_eqb_eq in Ek. subst k'.
  exfalso. specialize (H f s i Hs).
  clear - H Hin. induction m as [|[q x] m IH]; [destruct Hin|].
  cbn [lookup] in H. destruct (path_eqb q (PMsg f s k i)) eqn:E; [discriminate|].
  destruct Hin as [Hin|Hin]; [|exact (IH H Hin)].
  injection Hin as -> _. rewrite path_eqb_refl in E. discriminate.
Qed.

(* ---- pure facts about the uid list after adding a record *)
Lemma recorded_b_complete u uid k : recorded u uid k -> recorded_b u uid k = true.
Proof.
  intros [r [Hin [<- <-]]]. unfold recorded_b. apply existsb_exists. exists r.
  split; [exact Hin|]. rewrite N.eqb_refl, bytes_eqb_refl. reflexivity.
Qed.

Lemma set_rec_new r l :
  (forall x, In x l -> r_uid x <> r_uid r) -> set_rec r l = l ++ [r].
Proof.
  induction l as [|x l IH]; intro H; [reflexivity|]. cbn [set_rec app].
  destruct (N.eqb_spec (r_uid x) (r_uid r)) as [E|_].
  - exfalso. exact (H x (or_introl eq_refl) E).
  - rewrite IH; [reflexivity|]. intros y Hy. apply H. right. exact Hy.
Qed.

Lemma with_rec_recs u fields fn : uids_ok u ->
  u_recs (with_rec u fields fn)
  = u_recs u ++ [{| r_uid := u_next u; r_fields := fields; r_fname := fn |}].
Proof.
  intros [_ Hlt]. unfold with_rec. cbn [u_recs]. apply set_rec_new.
  intros x Hx. cbn [r_uid]. specialize (Hlt x Hx). lia.
Qed.

Lemma with_rec_uids_ok u fields fn : uids_ok u -> uids_ok (with_rec u fields fn).
Proof.
  intros H. pose proof (with_rec_recs u fields fn H) as E. destruct H as [Hnd Hlt].
  split.
  - rewrite E, map_app. cbn [map r_uid].
    assert (Hx : ~ In (u_next u) (map r_uid (u_recs u))).
    { intro Hin. apply in_map_iff in Hin as [x [Hx Hin]]. specialize (Hlt x Hin). lia. }
    clear - Hnd Hx. induction (map r_uid (u_recs u)) as [|a l IH]; cbn [app].
    + constructor; [intros []|constructor].
    + inversion Hnd as [|? ? Ha Hl]; subst. constructor.
      * intro Hin. apply in_app_or in Hin as [Hin|[<-|[]]]; [contradiction|].
        apply Hx. left. reflexivity.
      * apply IH; [exact Hl|]. intro Hin. apply Hx. right. exact Hin.
  - intros r Hr. rewrite E in Hr. unfold with_rec. cbn [u_next].
    apply in_app_or in Hr as [Hr|[<-|[]]]; [specialize (Hlt r Hr); lia|cbn [r_uid]; lia].
Qed.

Lemma with_rec_extends_b m f u fields fn :
  uids_ok u -> extends_b m f u (with_rec u fields fn) = true.
Proof.
  intros H. pose proof (with_rec_recs u fields fn H) as E. destruct H as [Hnd Hlt].
  unfold extends_b. rewrite E. unfold with_rec at 1 2. cbn [u_val u_next].
  rewrite N.eqb_refl. cbn [andb].
  assert (Hle : (u_next u <=? u_next u + 1) = true) by (apply N.leb_le; lia).
  rewrite Hle. cbn [andb]. apply andb_true_iff. split.
  - apply forallb_forall. intros r Hr. apply in_app_or in Hr as [Hr|[<-|[]]].
    + specialize (Hlt r Hr). apply N.ltb_lt in Hlt. rewrite Hlt.
      apply recorded_b_complete. exists r. repeat split. exact Hr.
    + cbn [r_uid]. rewrite N.ltb_irrefl. reflexivity.
  - apply forallb_forall. intros r Hr.
    destruct (has_file_b m f (r_key r)); [|reflexivity].
    apply recorded_b_complete. exists r. split; [|split; reflexivity].
    rewrite E. apply in_or_app. left. exact Hr.
Qed.

(* ---- one step of the walk through an operation list, continuation style *)

Lemma scratch_step lay m o rest f :
  legal_b m o = true -> no_install o f -> no_link o ->
  (forall m1, apply_op lay m o = Some m1 ->
     lookup m1 (PCtl f CUidl) = lookup m (PCtl f CUidl) ->
     (forall K, key_unused m K -> key_unused m1 K) ->
     legal_ops_b lay m1 rest = true) ->
  legal_ops_b lay m (o :: rest) = true.
Proof.
  intros Hb Hi Hl K. cbn [legal_ops_b]. rewrite Hb. cbn [andb].
  destruct (apply_op lay m o) as [m1|] eqn:A; [|reflexivity].
  pose proof (legal_b_sound _ _ Hb) as L. apply (K m1 eq_refl).
  - exact (step_uidl_same _ _ _ _ _ L A Hi).
  - intros K0 HK. apply (step_key_unused _ _ _ _ _ L A HK). intros src g s i E.
    exact (Hl _ _ E).
Qed.

Lemma write_step lay m p c rest f :
  junk p = true -> 
  (forall m1, apply_op lay m (OWrite p c) = Some m1 ->
     lookup m1 (PCtl f CUidl) = lookup m (PCtl f CUidl) ->
     (forall K, key_unused m K -> key_unused m1 K) ->
     lookup m1 p = Some (File c) ->
     legal_ops_b lay m1 rest = true) ->
  legal_ops_b lay m (OWrite p c :: rest) = true.
Proof.
  intros Hj K. apply (scratch_step lay m (OWrite p c) rest f).
  - exact Hj.
  - intros n E. discriminate E.
  - intros src dst E. discriminate E.
  - intros m1 A Hu Hk. apply (K m1 A Hu Hk).
    cbn [apply_op] in A. destruct (lookup m p) as [[|c0]|] eqn:E; try discriminate.
    injection A as <-. rewrite (lookup_replace _ _ _ _ _ E), path_eqb_refl. reflexivity.
Qed.

Lemma link_step lay m f s K i rest g :
  live s = true -> key_unused m K ->
  (forall m1, apply_op lay m (OLink (PMsg f STmp K []) (PMsg f s K i)) = Some m1 ->
     lookup m1 (PCtl g CUidl) = lookup m (PCtl g CUidl) ->
     (forall K', K' <> K -> key_unused m K' -> key_unused m1 K') ->
     legal_ops_b lay m1 rest = true) ->
  legal_ops_b lay m (OLink (PMsg f STmp K []) (PMsg f s K i) :: rest) = true.
Proof.
  intros Hs HK Kn. cbn [legal_ops_b].
  assert (Hb : legal_b m (OLink (PMsg f STmp K []) (PMsg f s K i)) = true).
  { cbn [legal_b]. rewrite fname_eqb_refl, bytes_eqb_refl, Hs, (key_unused_b_complete _ _ HK).
    reflexivity. }
  rewrite Hb. cbn [andb].
  destruct (apply_op lay m (OLink (PMsg f STmp K []) (PMsg f s K i))) as [m1|] eqn:A; [|reflexivity].
  pose proof (legal_b_sound _ _ Hb) as L. apply (Kn m1 eq_refl).
  - apply (step_uidl_same _ _ _ _ _ L A). intros n E. discriminate E.
  - intros K' Hne HK'. apply (step_key_unused _ _ _ _ _ L A HK').
    intros src g0 s0 i0 E. injection E as _ _ _ E _. congruence.
Qed.

Lemma install_step lay m f n u u' rest :
  lookup m (PTmp f n) = Some (File (Text (print_uidl u'))) ->
  lookup m (PCtl f CUidl) = Some (File (Text (print_uidl u))) ->
  wf_uidl u = true -> wf_uidl u' = true -> uids_ok u' -> extends_b m f u u' = true ->
  (forall m1, apply_op lay m (ORename (PTmp f n) (PCtl f CUidl)) = Some m1 ->
     lookup m1 (PCtl f CUidl) = Some (File (Text (print_uidl u'))) ->
     (forall K, key_unused m K -> key_unused m1 K) ->
     legal_ops_b lay m1 rest = true) ->
  legal_ops_b lay m (ORename (PTmp f n) (PCtl f CUidl) :: rest) = true.
Proof.
  intros Ht Hu Hw Hw' Hok He Kn. cbn [legal_ops_b].
  assert (Hb : legal_b m (ORename (PTmp f n) (PCtl f CUidl)) = true).
  { assert (Hi : install_ok m f n = true).
    { unfold install_ok. rewrite Ht, (uidl_roundtrip _ Hw'), Hu, (uidl_roundtrip _ Hw), He.
      rewrite andb_true_r. unfold uids_ok_b. destruct Hok as [Hnd Hlt].
      apply andb_true_iff. split.
      - unfold wf_uidl in Hw'. apply andb_true_iff in Hw' as [_ H]. exact H.
      - apply forallb_forall. intros r Hr. apply N.ltb_lt. exact (Hlt r Hr). }
    cbn [legal_b]. destruct f; rewrite ?fname_eqb_refl, Hi; reflexivity. }
  rewrite Hb. cbn [andb].
  destruct (apply_op lay m (ORename (PTmp f n) (PCtl f CUidl))) as [m1|] eqn:A; [|reflexivity].
  pose proof (legal_b_sound _ _ Hb) as L. apply (Kn m1 eq_refl).
  - destruct (apply_rename _ _ _ _ _ A) as [c [Hc Hl]]. rewrite Ht in Hc. injection Hc as <-.
    rewrite Hl, path_eqb_refl. reflexivity.
  - intros K HK. apply (step_key_unused _ _ _ _ _ L A HK). intros src g s i E. discriminate E.
Qed.

(* ---- well-formed names supplied with an APPEND *)

Lemma value_chars_name l : forallb value_char l = true -> forallb name_char l = true.
Proof. intro H. apply forallb_forall. intros c Hc.
  exact (proj2 (proj2 (value_char_props c (forallb_In _ _ H c Hc)))). Qed.

Lemma info_of_letters_chars l : forallb name_char (info_of_letters l) = true.
Proof.
  unfold info_of_letters. cbn [forallb]. apply forallb_forall. intros c Hc.
  apply filter_In in Hc as [Hc _]. unfold sys_letters in Hc.
  repeat (destruct Hc as [<-|Hc]; [reflexivity|]). destruct Hc.
Qed.

Lemma nodup_uids_snoc l r :
  nodup_uids l = true -> (forall x, In x l -> r_uid x <> r_uid r) -> nodup_uids (l ++ [r]) = true.
Proof.
  induction l as [|x l IH]; intros H Hn; [reflexivity|].
  cbn [nodup_uids app] in *. apply andb_true_iff in H as [H1 H2]. apply andb_true_iff. split.
  - rewrite existsb_app. apply negb_true_iff in H1. rewrite H1. cbn [existsb orb].
    apply negb_true_iff. rewrite orb_false_r. apply N.eqb_neq. intro E.
    exact (Hn x (or_introl eq_refl) (eq_sym E)).
  - apply IH; [exact H2|]. intros y Hy. apply Hn. right. exact Hy.
Qed.

Lemma with_rec_wf u a :
  wf_uidl u = true -> uids_ok u -> wf_amsg a = true ->
  wf_uidl (with_rec u [(69, a_e a); (84, a_t a)]
                    (a_key a ++ 58 :: info_of_letters (a_flags a))) = true.
Proof.
  intros Hw Hok Ha. pose proof (with_rec_recs u [(69, a_e a); (84, a_t a)]
      (a_key a ++ 58 :: info_of_letters (a_flags a)) Hok) as E.
  unfold wf_uidl in *. rewrite E. unfold with_rec at 1 2. cbn [u_guid].
  apply andb_true_iff in Hw as [Hw Hnd]. apply andb_true_iff in Hw as [Hw Hrecs].
  rewrite Hw. cbn [andb]. unfold wf_amsg in Ha.
  apply andb_true_iff in Ha as [Ha Ht]. apply andb_true_iff in Ha as [Hk He].
  apply value_chars_name in Hk.
  apply andb_true_iff. split.
  - rewrite forallb_app, Hrecs. cbn [forallb andb]. rewrite andb_true_r.
    unfold wf_rec. cbn [r_fields r_fname forallb keys_sorted fst snd].
    unfold wf_field. cbn [fst snd]. rewrite He, Ht.
    change (value_char 69) with true. change (value_char 84) with true.
    change (69 <? 84) with true. cbn [andb]. unfold wf_fname. rewrite forallb_app, Hk. cbn [forallb andb].
    rewrite (info_of_letters_chars (a_flags a)). reflexivity.
  - apply nodup_uids_snoc; [exact Hnd|]. intros x Hx. cbn [r_uid].
    destruct Hok as [_ Hlt]. specialize (Hlt x Hx). lia.
Qed.

(* ---- APPEND of any number of messages emits only legal operations *)
Theorem append_ops_legal lay f s msgs : live s = true -> forall m u,
  lookup m (PCtl f CUidl) = Some (File (Text (print_uidl u))) ->
  wf_uidl u = true -> uids_ok u ->
  (forall a, In a msgs -> key_unused m (a_key a) /\ wf_amsg a = true) ->
  NoDup (map a_key msgs) ->
  legal_ops_b lay m (append_ops f s u msgs) = true.
Proof.
  intro Hs. induction msgs as [|a r IH]; intros m u Hu Hw Hok Hm Hnd; [reflexivity|].
  cbn [append_ops]. unfold add_ops, locked_rewrite, rewrite_ops, lock_op, unlock_op.
  cbn [app].
  destruct (Hm a (or_introl eq_refl)) as [HKa Hwa].
  inversion Hnd as [|? ? Hnot Hnd']; subst.
  set (info := info_of_letters (a_flags a)).
  set (u' := with_rec u [(69, a_e a); (84, a_t a)] (a_key a ++ 58 :: info)).
  (* keys of the remaining messages, tracked through the steps *)
  assert (Hrest : forall b, In b r -> key_unused m (a_key b) /\ a_key b <> a_key a).
  { intros b Hb. split; [exact (proj1 (Hm b (or_intror Hb)))|].
    intro E. apply Hnot. rewrite <- E. apply in_map. exact Hb. }
  apply (scratch_step lay m _ _ f); [reflexivity|intros n E; discriminate E|intros x y E; discriminate E|].
  intros m1 _ U1 K1.
  apply (write_step lay m1 _ _ _ f); [reflexivity|]. intros m2 _ U2 K2 _.
  apply (scratch_step lay m2 _ _ f); [reflexivity|intros n E; discriminate E|intros x y E; discriminate E|].
  intros m3 _ U3 K3.
  apply (link_step lay m3 f s (a_key a) info _ f Hs (K3 _ (K2 _ (K1 _ HKa)))).
  intros m4 _ U4 K4.
  apply (scratch_step lay m4 _ _ f); [reflexivity|intros n E; discriminate E|intros x y E; discriminate E|].
  intros m5 _ U5 K5.
  apply (scratch_step lay m5 _ _ f); [reflexivity|intros n E; discriminate E|intros x y E; discriminate E|].
  intros m6 _ U6 K6.
  apply (scratch_step lay m6 _ _ f); [reflexivity|intros n E; discriminate E|intros x y E; discriminate E|].
  intros m7 _ U7 K7.
  apply (write_step lay m7 _ _ _ f); [reflexivity|]. intros m8 _ U8 K8 T8.
  assert (Hu8 : lookup m8 (PCtl f CUidl) = Some (File (Text (print_uidl u)))).
  { rewrite U8, U7, U6, U5, U4, U3, U2, U1. exact Hu. }
  apply (install_step lay m8 f (a_tmp a) u u' _ T8 Hu8 Hw (with_rec_wf u a Hw Hok Hwa)
           (with_rec_uids_ok _ _ _ Hok) (with_rec_extends_b _ _ _ _ _ Hok)).
  intros m9 _ U9 K9.
  apply (scratch_step lay m9 _ _ f); [reflexivity|intros n E; discriminate E|intros x y E; discriminate E|].
  intros m10 _ U10 K10.
  apply IH.
  - rewrite U10. exact U9.
  - exact (with_rec_wf u a Hw Hok Hwa).
  - exact (with_rec_uids_ok _ _ _ Hok).
  - intros b Hb. destruct (Hrest b Hb) as [HKb Hne]. split; [|exact (proj2 (Hm b (or_intror Hb)))].
    apply K10, K9, K8, K7, K6, K5, (K4 _ Hne), K3, K2, K1. exact HKb.
  - exact Hnd'.
Qed.

(* the only keys the operations of an APPEND touch are its own *)
Lemma append_ops_touches f s u msgs o key :
  In o (append_ops f s u msgs) -> touches o key -> In key (map a_key msgs).
Proof.
  revert u. induction msgs as [|a r IH]; intros u Hin Ht; [destruct Hin|].
  cbn [append_ops] in Hin. unfold add_ops, locked_rewrite, rewrite_ops, lock_op, unlock_op in Hin.
  cbn [app In] in Hin.
  repeat (destruct Hin as [<-|Hin]; [cbn [touches] in Ht; try contradiction; try (left; exact Ht)|]).
  right. exact (IH _ Hin Ht).
Qed.

(* APPEND of any number of messages, killed after any number k of its
   operations: the invariant holds and every message served before — in any
   folder — is still served with the same validity, uid, flags and content *)
Theorem append_crash_safe lay f s msgs m u k :
  live s = true -> Inv m ->
  lookup m (PCtl f CUidl) = Some (File (Text (print_uidl u))) ->
  wf_uidl u = true -> uids_ok u ->
  (forall a, In a msgs -> key_unused m (a_key a) /\ wf_amsg a = true) ->
  NoDup (map a_key msgs) ->
  let mk := after_crash lay m (append_ops f s u msgs) k in
  Inv mk /\ (forall g v uid key fl c, serves m g v uid key fl c -> serves mk g v uid key fl c).
Proof.
  intros Hs I Hu Hw Hok Hm Hnd mk.
  pose proof (append_ops_legal lay f s msgs Hs m u Hu Hw Hok Hm Hnd) as HL.
  split; [exact (crash_inv _ _ _ _ I HL)|].
  intros g v uid key fl c S. apply (crash_serves _ _ _ _ _ _ _ _ _ _ HL S).
  intro T. apply Exists_exists in T as [o [Ho Ht]].
  assert (Hin : In o (append_ops f s u msgs)).
  { unfold crash in Ho. rewrite <- (firstn_skipn k (append_ops f s u msgs)).
    apply in_or_app. left. exact Ho. }
  pose proof (append_ops_touches _ _ _ _ _ _ Hin Ht) as Hk.
  apply in_map_iff in Hk as [a [Ea Ha]]. destruct (Hm a Ha) as [HK _].
  destruct S as [u0 [i [_ [_ [_ [[s0 [Hs0 Hl0]] _]]]]]].
  rewrite Ea in HK. rewrite (HK _ _ _ Hs0) in Hl0. discriminate.
Qed.

(* ---- what a completed APPEND leaves: every message recorded under the next
   uids, its file delivered with the requested flags and content *)

Lemma live_not_tmp s : live s = true -> s <> STmp.
Proof. intros H E. subst. discriminate H. Qed.

Lemma append_ops_apply lay f s : live s = true -> forall msgs m u m',
  apply_ops lay m (append_ops f s u msgs) = (m', true) ->
  NoDup (map a_key msgs) ->
  lookup m (PCtl f CUidl) = Some (File (Text (print_uidl u))) ->
  lookup m' (PCtl f CUidl) = Some (File (Text (print_uidl (fold_left add_rec msgs u))))
  /\ (forall a, In a msgs ->
        lookup m' (PMsg f s (a_key a) (info_of_letters (a_flags a)))
        = Some (File (Opaque (a_cid a))))
  /\ (forall q, live_path q -> ~ In (key_of q) (map a_key msgs) -> lookup m' q = lookup m q).
Proof.
  intro Hs. pose proof (live_not_tmp _ Hs) as Hns.
  induction msgs as [|a r IH]; intros m u m' A Hnd Hu.
  - cbn in A. injection A as <-. cbn [fold_left]. repeat split; try assumption.
    intros a [].
  - inversion Hnd as [|? ? Hnot Hnd']; subst.
    cbn [append_ops] in A. unfold add_ops, locked_rewrite, rewrite_ops, lock_op, unlock_op in A.
    cbn [app] in A. fold (add_rec u a) in A.
    set (K := a_key a) in *. set (info := info_of_letters (a_flags a)) in *.
    (* run the twelve operations *)
    cbn [apply_ops] in A.
    destruct (apply_op lay m (OCreat (PMsg f STmp K []))) as [m1|] eqn:A1; [|discriminate].
    destruct (apply_op lay m1 (OWrite (PMsg f STmp K []) (Opaque (a_cid a)))) as [m2|] eqn:A2; [|discriminate].
    destruct (apply_op lay m2 (OUtime (PMsg f STmp K []))) as [m3|] eqn:A3; [|discriminate].
    destruct (apply_op lay m3 (OLink (PMsg f STmp K []) (PMsg f s K info))) as [m4|] eqn:A4; [|discriminate].
    destruct (apply_op lay m4 (OUnlink (PMsg f STmp K []))) as [m5|] eqn:A5; [|discriminate].
    destruct (apply_op lay m5 (OCreat (PCtl f CUidlLock))) as [m6|] eqn:A6; [|discriminate].
    destruct (apply_op lay m6 (OCreat (PTmp f (a_tmp a)))) as [m7|] eqn:A7; [|discriminate].
    destruct (apply_op lay m7 (OWrite (PTmp f (a_tmp a)) (Text (print_uidl (add_rec u a))))) as [m8|] eqn:A8; [|discriminate].
    destruct (apply_op lay m8 (ORename (PTmp f (a_tmp a)) (PCtl f CUidl))) as [m9|] eqn:A9; [|discriminate].
    destruct (apply_op lay m9 (OUnlink (PCtl f CUidlLock))) as [m10|] eqn:A10; [|discriminate].
    (* the uid list after the install *)
    assert (T8 : lookup m8 (PTmp f (a_tmp a)) = Some (File (Text (print_uidl (add_rec u a))))).
    { cbn [apply_op] in A8. destruct (lookup m7 (PTmp f (a_tmp a))) as [[|c0]|] eqn:E; try discriminate.
      injection A8 as <-. rewrite (lookup_replace _ _ _ _ _ E), path_eqb_refl. reflexivity. }
    assert (U10 : lookup m10 (PCtl f CUidl) = Some (File (Text (print_uidl (add_rec u a))))).
    { rewrite (apply_op_frame _ _ _ _ (PCtl f CUidl) A10) by (cbn; intro E; discriminate E).
      destruct (apply_rename _ _ _ _ _ A9) as [c [Hc Hl]]. rewrite T8 in Hc. injection Hc as <-.
      rewrite Hl, path_eqb_refl. reflexivity. }
    (* the delivered file *)
    assert (F2 : lookup m2 (PMsg f STmp K []) = Some (File (Opaque (a_cid a)))).
    { cbn [apply_op] in A2. destruct (lookup m1 (PMsg f STmp K [])) as [[|c0]|] eqn:E; try discriminate.
      injection A2 as <-. rewrite (lookup_replace _ _ _ _ _ E), path_eqb_refl. reflexivity. }
    assert (F3 : lookup m3 (PMsg f STmp K []) = Some (File (Opaque (a_cid a)))).
    { cbn [apply_op] in A3. destruct (exists_ m2 (PMsg f STmp K [])); [|discriminate].
      injection A3 as <-. exact F2. }
    assert (F4 : lookup m4 (PMsg f s K info) = Some (File (Opaque (a_cid a)))).
    { destruct (apply_link _ _ _ _ _ A4) as [c [Hc [_ Hl]]]. rewrite F3 in Hc. injection Hc as <-.
      rewrite Hl, path_eqb_refl. reflexivity. }
    assert (Fr : forall q, live_path q ->
                 lookup m10 q = if path_eqb (PMsg f s K info) q
                                then Some (File (Opaque (a_cid a))) else lookup m q).
    { intros q [g [t [k0 [j [-> Ht]]]]].
      pose proof (live_not_tmp _ Ht) as Hnt.
      rewrite (apply_op_frame _ _ _ _ (PMsg g t k0 j) A10) by (cbn; intro E; discriminate E).
      rewrite (apply_op_frame _ _ _ _ (PMsg g t k0 j) A9) by (cbn; intros [E|E]; discriminate E).
      rewrite (apply_op_frame _ _ _ _ (PMsg g t k0 j) A8) by (cbn; intro E; discriminate E).
      rewrite (apply_op_frame _ _ _ _ (PMsg g t k0 j) A7) by (cbn; intro E; discriminate E).
      rewrite (apply_op_frame _ _ _ _ (PMsg g t k0 j) A6) by (cbn; intro E; discriminate E).
      rewrite (apply_op_frame _ _ _ _ (PMsg g t k0 j) A5)
        by (cbn; intro E; inversion E; subst; contradiction).
      destruct (apply_link _ _ _ _ _ A4) as [c [Hc [_ Hl]]]. rewrite F3 in Hc. injection Hc as <-.
      rewrite Hl. destruct (path_eqb (PMsg f s K info) (PMsg g t k0 j)); [reflexivity|].
      cbn [apply_op] in A3. destruct (exists_ m2 (PMsg f STmp K [])); [|discriminate].
      injection A3 as <-.
      rewrite (apply_op_frame _ _ _ _ (PMsg g t k0 j) A2)
        by (cbn; intro E; inversion E; subst; contradiction).
      rewrite (apply_op_frame _ _ _ _ (PMsg g t k0 j) A1)
        by (cbn; intro E; inversion E; subst; contradiction).
      reflexivity. }
    destruct (IH m10 (add_rec u a) m' A Hnd' U10) as [HU [HF HR]].
    cbn [fold_left]. split; [exact HU|]. split.
    + intros b [<-|Hb]; [|exact (HF b Hb)].
      rewrite HR.
      * rewrite Fr, path_eqb_refl; [reflexivity|].
        exists f, s, K, info. split; [reflexivity|exact Hs].
      * exists f, s, K, info. split; [reflexivity|exact Hs].
      * cbn [key_of]. exact Hnot.
    + intros q Hq Hk. cbn [map In] in Hk.
      rewrite HR; [|exact Hq|intro Hin; apply Hk; right; exact Hin].
      rewrite (Fr q Hq).
      destruct (path_eqb (PMsg f s K info) q) eqn:E; [|reflexivity].
      apply path_eqb_eq in E. subst q. exfalso. apply Hk. left. reflexivity.
Qed.

Lemma before_colon_key k x : forallb value_char k = true -> before_colon (k ++ 58 :: x) = k.
Proof.
  induction k as [|c k IH]; intro H; [reflexivity|]. cbn [forallb] in H.
  apply andb_true_iff in H as [Hc Hk]. cbn [app before_colon].
  destruct (N.eqb_spec c 58) as [E|_]; [apply value_char_props in Hc; lia|].
  rewrite (IH Hk). reflexivity.
Qed.

Lemma fold_add_rec msgs : forall u, wf_uidl u = true -> uids_ok u ->
  (forall a, In a msgs -> wf_amsg a = true) ->
  wf_uidl (fold_left add_rec msgs u) = true /\ uids_ok (fold_left add_rec msgs u)
  /\ u_val (fold_left add_rec msgs u) = u_val u
  /\ (forall uid k, recorded u uid k -> recorded (fold_left add_rec msgs u) uid k)
  /\ (forall j a, nth_error msgs j = Some a ->
        recorded (fold_left add_rec msgs u) (u_next u + N.of_nat j) (a_key a)).
Proof.
  induction msgs as [|a r IH]; intros u Hw Hok Hm; cbn [fold_left].
  - split; [exact Hw|]. split; [exact Hok|]. split; [reflexivity|]. split; [intros; assumption|].
    intros j a H. destruct j; discriminate H.
  - assert (Hwa : wf_amsg a = true) by (apply Hm; left; reflexivity).
    pose proof (with_rec_wf u a Hw Hok Hwa) as Hw1.
    pose proof (with_rec_uids_ok u [(69, a_e a); (84, a_t a)]
                  (a_key a ++ 58 :: info_of_letters (a_flags a)) Hok) as Hok1.
    fold (add_rec u a) in Hw1, Hok1.
    destruct (IH (add_rec u a) Hw1 Hok1 (fun b Hb => Hm b (or_intror Hb)))
      as [Hwf [Hokf [Hv [Hkeep Hnew]]]].
    pose proof (with_rec_recs u [(69, a_e a); (84, a_t a)]
                  (a_key a ++ 58 :: info_of_letters (a_flags a)) Hok) as E.
    fold (add_rec u a) in E.
    split; [exact Hwf|]. split; [exact Hokf|]. split; [rewrite Hv; reflexivity|]. split.
    + intros uid k [x [Hx [Hu Hk]]]. apply Hkeep. exists x. split; [|split; assumption].
      rewrite E. apply in_or_app. left. exact Hx.
    + intros [|j] b Hb; cbn [nth_error] in Hb.
      * injection Hb as <-. apply Hkeep. eexists. split; [rewrite E; apply in_or_app; right; left; reflexivity|].
        cbn [r_uid]. split; [cbn; lia|]. unfold r_key. cbn [r_fname].
        unfold wf_amsg in Hwa. apply andb_true_iff in Hwa as [Hwa _].
        apply andb_true_iff in Hwa as [Hk _]. exact (before_colon_key _ _ Hk).
      * specialize (Hnew j b Hb).
        assert (En : u_next (add_rec u a) = u_next u + 1) by reflexivity.
        rewrite En in Hnew.
        replace (u_next u + N.of_nat (S j)) with (u_next u + 1 + N.of_nat j) by lia. exact Hnew.
Qed.

(* every message of a completed APPEND is served under the uid announced for
   it (next, next+1, ...), with the requested system flags and its content *)
Theorem append_acked_served lay f s msgs m u m' :
  live s = true ->
  apply_ops lay m (append_ops f s u msgs) = (m', true) ->
  NoDup (map a_key msgs) ->
  lookup m (PCtl f CUidl) = Some (File (Text (print_uidl u))) ->
  wf_uidl u = true -> uids_ok u -> (forall a, In a msgs -> wf_amsg a = true) ->
  forall j a, nth_error msgs j = Some a ->
  serves m' f (u_val u) (u_next u + N.of_nat j) (a_key a)
         (flags_of_info (info_of_letters (a_flags a))) (a_cid a).
Proof.
  intros Hs A Hnd Hu Hw Hok Hm j a Hj.
  destruct (append_ops_apply lay f s Hs msgs m u m' A Hnd Hu) as [HU [HF _]].
  destruct (fold_add_rec msgs u Hw Hok Hm) as [Hwf [_ [Hv [_ Hnew]]]].
  exists (fold_left add_rec msgs u), (info_of_letters (a_flags a)).
  split; [exists (print_uidl (fold_left add_rec msgs u)); split;
          [exact HU|exact (uidl_roundtrip _ Hwf)]|].
  split; [exact Hv|]. split; [exact (Hnew j a Hj)|]. split; [|reflexivity].
  exists s. split; [exact Hs|]. apply HF. exact (nth_error_In _ _ Hj).
Qed.
