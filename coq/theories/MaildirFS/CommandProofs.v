(* MaildirFS/CommandProofs.v — every command of Ops.run_cmd emits, in every
   state satisfying Inv, only operations that are legal where they are applied;
   hence so does every history.  The proofs walk through the operation list in
   continuation style: a step lemma shows the next operation(s) legal and hands
   the facts about the state they lead to on to the rest of the list. *)
From PV Require Import Base.Prelude Base.Decimal MaildirFS.FS MaildirFS.UidList MaildirFS.Ops
  MaildirFS.Spec MaildirFS.FSProofs MaildirFS.UidListProofs MaildirFS.DurabilityProofs
  MaildirFS.Legal MaildirFS.LegalProofs MaildirFS.CrashProofs.
Local Open Scope N_scope.

(* ------------------------------------------- Prop -> bool (completeness) *)
Lemma key_unused_b_complete m k : key_unused m k -> key_unused_b m k = true.
Proof.
  intro H. unfold key_unused_b. apply forallb_forall. intros [p n] Hin. cbn [fst].
  destruct p as [| |f s k' i| |]; try reflexivity.
  destruct (live s) eqn:Hs; [|reflexivity]. cbn [andb].
  destruct (bytes_eqb k' k) eqn:Ek; [|reflexivity]. apply bytes_eqb_eq in Ek. subst k'.
  exfalso. specialize (H f s i Hs).
  apply (lookup_None_notin _ _ H). apply in_map_iff. exists (PMsg f s k i, n).
  split; [reflexivity|exact Hin].
Qed.

Lemma recorded_b_complete u uid k : recorded u uid k -> recorded_b u uid k = true.
Proof.
  intros [r [Hin [<- <-]]]. unfold recorded_b. apply existsb_exists. exists r.
  split; [exact Hin|]. rewrite N.eqb_refl, bytes_eqb_refl. reflexivity.
Qed.

Lemma has_file_b_sound m f k : Inv m -> has_file_b m f k = true -> has_file m f k.
Proof.
  intros [_ _ _ Hnd] H. unfold has_file_b in H. apply existsb_exists in H as [[p n] [Hin H]].
  destruct p as [| |g s k' i| |]; try discriminate. destruct n as [|[c|]]; try discriminate.
  apply andb_true_iff in H as [H H3]. apply andb_true_iff in H as [H1 H2].
  apply fname_eqb_eq in H1. apply bytes_eqb_eq in H3. subst g k'.
  exists i, c, s. split; [exact H2|exact (In_lookup _ _ _ Hnd Hin)].
Qed.

Lemma nodup_uids_complete l : NoDup (map r_uid l) -> nodup_uids l = true.
Proof.
  induction l as [|r l IH]; cbn [map nodup_uids]; intro H; [reflexivity|].
  inversion H as [|? ? Hr Hl]; subst. rewrite (IH Hl), andb_true_r. apply negb_true_iff.
  destruct (existsb (fun x => r_uid x =? r_uid r) l) eqn:E; [|reflexivity].
  apply existsb_exists in E as [x [Hx Ex]]. apply N.eqb_eq in Ex. exfalso. apply Hr.
  apply in_map_iff. exists x. split; assumption.
Qed.

Lemma uids_ok_b_complete u : uids_ok u -> uids_ok_b u = true.
Proof.
  intros [Hnd Hlt]. unfold uids_ok_b. rewrite (nodup_uids_complete _ Hnd). cbn [andb].
  apply forallb_forall. intros r Hr. apply N.ltb_lt. exact (Hlt r Hr).
Qed.

Lemma extends_b_complete m f u u' :
  Inv m -> extends (has_file m f) u u' -> extends_b m f u u' = true.
Proof.
  intros I [Hv [Hn [Ho Hk]]]. unfold extends_b.
  rewrite Hv, N.eqb_refl. cbn [andb]. apply N.leb_le in Hn. rewrite Hn. cbn [andb].
  apply andb_true_iff. split; apply forallb_forall; intros r Hr.
  - destruct (r_uid r <? u_next u) eqn:E; [|reflexivity]. apply N.ltb_lt in E.
    apply recorded_b_complete. apply Ho; [|exact E]. exists r. repeat split. exact Hr.
  - destruct (has_file_b m f (r_key r)) eqn:E; [|reflexivity].
    apply recorded_b_complete. apply Hk; [exists r; repeat split; exact Hr|].
    exact (has_file_b_sound _ _ _ I E).
Qed.

(* ------------------------------------------------------ generic step *)
Lemma step_k lay m o rest :
  Inv m -> legal_b lay m o = true ->
  (forall m1, apply_op lay m o = Some m1 -> legal lay m o -> Inv m1 ->
              legal_ops_b lay m1 rest = true) ->
  legal_ops_b lay m (o :: rest) = true.
Proof.
  intros I Hb K. cbn [legal_ops_b]. rewrite Hb. cbn [andb].
  destruct (apply_op lay m o) as [m1|] eqn:A; [|reflexivity].
  pose proof (legal_b_sound _ _ _ Hb) as L.
  exact (K m1 eq_refl L (legal_step_inv _ _ _ _ I L A)).
Qed.

(* the part of the state a restarted server looks at *)
Definition same_view (m m1 : fs) : Prop :=
  forall q, junk q = false -> lookup m1 q = lookup m q.

Lemma same_view_refl m : same_view m m.
Proof. intros q _. reflexivity. Qed.
Lemma same_view_trans m1 m2 m3 : same_view m1 m2 -> same_view m2 m3 -> same_view m1 m3.
Proof. intros H1 H2 q Hq. rewrite (H2 q Hq). exact (H1 q Hq). Qed.

(* operations on scratch paths *)
Definition scratch (o : fsop) : bool :=
  match o with
  | OCreat p | OWrite p _ | OUnlink p => junk p
  | OUtime _ => true
  | _ => false
  end.

Lemma scratch_legal_b lay m o : scratch o = true -> legal_b lay m o = true.
Proof.
  destruct o; cbn [scratch legal_b]; intro H; try discriminate; try reflexivity.
  - rewrite H. reflexivity.
  - exact H.
  - rewrite H. reflexivity.
Qed.

Lemma scratch_view lay m o m1 :
  apply_op lay m o = Some m1 -> scratch o = true -> same_view m m1.
Proof.
  intros A Hs q Hq. destruct o; cbn [scratch] in Hs; try discriminate.
  - apply (apply_op_frame _ _ _ _ _ A). cbn. intros ->. congruence.
  - apply (apply_op_frame _ _ _ _ _ A). cbn. intros ->. congruence.
  - apply (apply_op_frame _ _ _ _ _ A). cbn. intros ->. congruence.
  - cbn [apply_op] in A. destruct (exists_ m p); [|discriminate]. injection A as <-. reflexivity.
Qed.

Lemma scratch_ops_k lay l : forallb scratch l = true -> forall m rest,
  Inv m ->
  (forall m1, Inv m1 -> same_view m m1 -> legal_ops_b lay m1 rest = true) ->
  legal_ops_b lay m (l ++ rest) = true.
Proof.
  induction l as [|o l IH]; intros Hs m rest I K; cbn [app].
  - exact (K m I (same_view_refl m)).
  - cbn [forallb] in Hs. apply andb_true_iff in Hs as [Ho Hl].
    apply (step_k lay m o _ I (scratch_legal_b lay m o Ho)). intros m1 A _ I1.
    apply (IH Hl m1 rest I1). intros m2 I2 V.
    apply (K m2 I2). exact (same_view_trans _ _ _ (scratch_view _ _ _ _ A Ho) V).
Qed.

(* facts that only depend on the view *)
Lemma view_uidl_at m m1 f u : same_view m m1 -> uidl_at m1 f u <-> uidl_at m f u.
Proof. intro V. unfold uidl_at. rewrite (V (PCtl f CUidl) eq_refl). reflexivity. Qed.

Lemma view_file_at m m1 f k i c : same_view m m1 -> file_at m1 f k i c <-> file_at m f k i c.
Proof.
  intro V. unfold file_at. split; intros [s [Hs Hl]]; exists s; split; try exact Hs.
  - rewrite <- (V _ (live_not_junk f s k i Hs)). exact Hl.
  - rewrite (V _ (live_not_junk f s k i Hs)). exact Hl.
Qed.

Lemma view_has_file m m1 f k : same_view m m1 -> has_file m1 f k <-> has_file m f k.
Proof. intro V. unfold has_file. split; intros [i [c H]]; exists i, c;
  apply (view_file_at _ _ f k i c V); exact H. Qed.

Lemma view_key_unused m m1 k : same_view m m1 -> key_unused m k -> key_unused m1 k.
Proof. intros V H f s i Hs. rewrite (V _ (live_not_junk f s k i Hs)). exact (H f s i Hs). Qed.

(* ------------------------------------------------- rewriting a uid list *)
(* m1 is m with the uid list of f replaced (everything else a restarted
   server looks at unchanged) *)
Definition view_uidl (m m1 : fs) (f : fname) (u' : uidl) : Prop :=
  forall q, junk q = false ->
  lookup m1 q = if path_eqb (PCtl f CUidl) q then Some (File (Text (print_uidl u')))
                else lookup m q.

Lemma rewrite_k lay m f tmp u' rest :
  Inv m -> wf_uidl u' = true -> uids_ok u' ->
  (forall u, uidl_at m f u -> extends (has_file m f) u u') ->
  (forall m1, Inv m1 -> view_uidl m m1 f u' -> legal_ops_b lay m1 rest = true) ->
  legal_ops_b lay m (locked_rewrite f tmp u' ++ rest) = true.
Proof.
  intros I Hw Hok He K. unfold locked_rewrite, rewrite_ops, lock_op, unlock_op. cbn [app].
  apply step_k; [exact I|reflexivity|]. intros m1 A1 _ I1.
  apply step_k; [exact I1|reflexivity|]. intros m2 A2 _ I2.
  apply step_k; [exact I2|reflexivity|]. intros m3 A3 _ I3.
  assert (V3 : same_view m m3).
  { apply (same_view_trans _ m1); [exact (scratch_view _ _ _ _ A1 eq_refl)|].
    apply (same_view_trans _ m2); [exact (scratch_view _ _ _ _ A2 eq_refl)|].
    exact (scratch_view _ _ _ _ A3 eq_refl). }
  assert (T3 : lookup m3 (PTmp f tmp) = Some (File (Text (print_uidl u')))).
  { cbn [apply_op] in A3. destruct (lookup m2 (PTmp f tmp)) as [[|c0]|] eqn:E; try discriminate.
    injection A3 as <-. rewrite (lookup_replace _ _ _ _ _ E), path_eqb_refl. reflexivity. }
  assert (Hb : legal_b lay m3 (ORename (PTmp f tmp) (PCtl f CUidl)) = true).
  { assert (Hi : install_ok m3 f tmp = true).
    { unfold install_ok. rewrite T3, (uidl_roundtrip _ Hw), bytes_eqb_refl, Hw,
        (uids_ok_b_complete _ Hok). cbn [andb].
      destruct (lookup m3 (PCtl f CUidl)) as [[|[c|t0]]|] eqn:E0; try reflexivity.
      destruct (parse_uidl t0) as [u| | |] eqn:P0; try reflexivity.
      apply (extends_b_complete _ _ _ _ I3).
      assert (Hu : uidl_at m f u).
      { apply (view_uidl_at _ _ f u V3). exists t0. split; assumption. }
      destruct (He u Hu) as [Hv [Hn [Ho Hk]]]. split; [exact Hv|]. split; [exact Hn|].
      split; [exact Ho|]. intros uid k Hr Hf. apply Hk; [exact Hr|].
      apply (view_has_file _ _ f k V3). exact Hf. }
    cbn [legal_b]. destruct f; rewrite ?fname_eqb_refl, Hi; reflexivity. }
  apply step_k; [exact I3|exact Hb|]. intros m4 A4 _ I4.
  apply step_k; [exact I4|reflexivity|]. intros m5 A5 _ I5.
  apply (K m5 I5). intros q Hq.
  rewrite (scratch_view _ _ _ _ A5 eq_refl q Hq).
  destruct (apply_rename _ _ _ _ _ A4) as [c [Hc Hl]]. rewrite T3 in Hc. injection Hc as <-.
  rewrite Hl. destruct (path_eqb (PCtl f CUidl) q); [reflexivity|].
  destruct (path_eqb (PTmp f tmp) q) eqn:E.
  - apply path_eqb_eq in E. subst q. discriminate Hq.
  - exact (V3 q Hq).
Qed.

(* ------------------------------------------------- delivering a file *)
Definition view_add (m m1 : fs) (p : path) (n : node) : Prop :=
  forall q, junk q = false -> lookup m1 q = if path_eqb p q then Some n else lookup m q.

Lemma add_k lay m f s key info cid rest :
  Inv m -> live s = true -> key_unused m key -> wf_key key = true -> wf_info info = true ->
  (forall m1, Inv m1 -> view_add m m1 (PMsg f s key info) (File (Opaque cid)) ->
              legal_ops_b lay m1 rest = true) ->
  legal_ops_b lay m (add_ops f s key info cid ++ rest) = true.
Proof.
  intros I Hs HK Hwk Hwi K. unfold add_ops. cbn [app].
  apply step_k; [exact I|reflexivity|]. intros m1 A1 _ I1.
  apply step_k; [exact I1|reflexivity|]. intros m2 A2 _ I2.
  apply step_k; [exact I2|reflexivity|]. intros m3 A3 _ I3.
  assert (V3 : same_view m m3).
  { apply (same_view_trans _ m1); [exact (scratch_view _ _ _ _ A1 eq_refl)|].
    apply (same_view_trans _ m2); [exact (scratch_view _ _ _ _ A2 eq_refl)|].
    exact (scratch_view _ _ _ _ A3 eq_refl). }
  assert (F3 : lookup m3 (PMsg f STmp key []) = Some (File (Opaque cid))).
  { cbn [apply_op] in A3. destruct (exists_ m2 (PMsg f STmp key [])); [|discriminate].
    injection A3 as <-.
    cbn [apply_op] in A2. destruct (lookup m1 (PMsg f STmp key [])) as [[|c0]|] eqn:E; try discriminate.
    injection A2 as <-. rewrite (lookup_replace _ _ _ _ _ E), path_eqb_refl. reflexivity. }
  assert (Hb : legal_b lay m3 (OLink (PMsg f STmp key []) (PMsg f s key info)) = true).
  { cbn [legal_b]. rewrite fname_eqb_refl, bytes_eqb_refl, Hs,
      (key_unused_b_complete _ _ (view_key_unused _ _ _ V3 HK)), Hwk, Hwi, F3. reflexivity. }
  apply step_k; [exact I3|exact Hb|]. intros m4 A4 _ I4.
  apply step_k; [exact I4|reflexivity|]. intros m5 A5 _ I5.
  apply (K m5 I5). intros q Hq.
  rewrite (scratch_view _ _ _ _ A5 eq_refl q Hq).
  destruct (apply_link _ _ _ _ _ A4) as [c [Hc [_ Hl]]]. rewrite F3 in Hc. injection Hc as <-.
  rewrite Hl. destruct (path_eqb (PMsg f s key info) q); [reflexivity|exact (V3 q Hq)].
Qed.

(* ---------------------------------------- directory scans and lookups *)
Lemma files_of_In m f x :
  In x (files_of m f) <->
  In (PMsg f (m_sub x) (m_key x) (m_info x), File (Opaque (m_cid x))) m /\ live (m_sub x) = true.
Proof.
  unfold files_of. rewrite in_flat_map. split.
  - intros [[p n] [Hin Hx]]. destruct p as [| |g s k i| |]; try destruct Hx.
    destruct n as [|[c|]]; try destruct Hx.
    destruct (fname_eqb f g && negb (sub_eqb s STmp)) eqn:E; [|destruct Hx].
    destruct Hx as [<-|[]]. cbn [m_sub m_key m_info m_cid].
    apply andb_true_iff in E as [E1 E2]. apply fname_eqb_eq in E1. subst g.
    split; [exact Hin|exact E2].
  - intros [Hin Hl]. exists (PMsg f (m_sub x) (m_key x) (m_info x), File (Opaque (m_cid x))).
    split; [exact Hin|]. rewrite fname_eqb_refl. unfold live in Hl. rewrite Hl. cbn [andb].
    left. destruct x; reflexivity.
Qed.

Lemma files_of_lookup m f x : Inv m -> In x (files_of m f) ->
  lookup m (PMsg f (m_sub x) (m_key x) (m_info x)) = Some (File (Opaque (m_cid x)))
  /\ live (m_sub x) = true /\ wf_key (m_key x) = true /\ wf_info (m_info x) = true.
Proof.
  intros I Hx. apply files_of_In in Hx as [Hin Hl].
  destruct I as [_ _ I3 I4]. pose proof (In_lookup _ _ _ I4 Hin) as Hlk.
  destruct (I3 _ _ _ _ _ Hl Hlk) as [Hk [Hi _]]. repeat split; assumption.
Qed.

Lemma find_file_some fl k x : find_file fl k = Some x -> In x fl /\ m_key x = k.
Proof.
  unfold find_file. intro H. apply find_some in H as [Hin Hk]. apply bytes_eqb_eq in Hk.
  split; assumption.
Qed.

Lemma find_file_none fl k : find_file fl k = None -> forall x, In x fl -> m_key x <> k.
Proof.
  unfold find_file. intros H x Hx E. pose proof (find_none _ _ H x Hx) as Hn. cbn in Hn.
  rewrite E, bytes_eqb_refl in Hn. discriminate.
Qed.

Lemma has_file_find m f k : Inv m -> has_file m f k -> find_file (files_of m f) k <> None.
Proof.
  intros I [i [c [s [Hs Hl]]]] Hn.
  apply (find_file_none _ _ Hn {| m_sub := s; m_key := k; m_info := i; m_cid := c |});
    [|reflexivity].
  apply files_of_In. cbn [m_sub m_key m_info m_cid]. split; [exact (lookup_In _ _ _ Hl)|exact Hs].
Qed.

Lemma locate_spec u fl uid rec x : locate u fl uid = Some (rec, x) ->
  In rec (u_recs u) /\ r_uid rec = uid /\ In x fl /\ m_key x = r_key rec.
Proof.
  unfold locate, find_rec. destruct (find _ (u_recs u)) as [r|] eqn:Er; [|discriminate].
  destruct (find_file fl (r_key r)) as [y|] eqn:Ey; [|discriminate].
  intro H. injection H as <- <-. apply find_some in Er as [Hr Hu]. apply N.eqb_eq in Hu.
  apply find_file_some in Ey as [Hy Hk]. repeat split; assumption.
Qed.

(* ---------------------------------------------- uid lists (pure facts) *)
Lemma uidl_at_fun m f u u' : uidl_at m f u -> uidl_at m f u' -> u = u'.
Proof. intros [t [H1 H2]] [t' [H1' H2']]. congruence. Qed.

Lemma inv_uidl_text m f u : Inv m -> uidl_at m f u ->
  lookup m (PCtl f CUidl) = Some (File (Text (print_uidl u))) /\ wf_uidl u = true /\ uids_ok u.
Proof.
  intros I Hu. destruct (inv_uidl_at _ _ _ I Hu) as [Hok Hw].
  destruct I as [I1 _ _ _]. destruct Hu as [t [Hl Hp]].
  destruct (I1 f _ Hl) as [u0 [Et [Hw0 _]]]. injection Et as ->.
  rewrite (uidl_roundtrip _ Hw0) in Hp. injection Hp as ->.
  split; [exact Hl|]. split; [exact Hw|exact Hok].
Qed.

Lemma set_rec_new r l :
  (forall x, In x l -> r_uid x <> r_uid r) -> set_rec r l = l ++ [r].
Proof.
  induction l as [|x l IH]; intro H; [reflexivity|]. cbn [set_rec app].
  destruct (N.eqb_spec (r_uid x) (r_uid r)) as [E|_].
  - exfalso. exact (H x (or_introl eq_refl) E).
  - rewrite IH; [reflexivity|]. intros y Hy. apply H. right. exact Hy.
Qed.

Lemma with_rec_recs u fields fn : uids_ok u ->
  u_recs (with_rec u fields fn)
  = u_recs u ++ [{| r_uid := u_next u; r_fields := fields; r_fname := fn |}].
Proof.
  intros [_ Hlt]. unfold with_rec. cbn [u_recs]. apply set_rec_new.
  intros x Hx. cbn [r_uid]. specialize (Hlt x Hx). lia.
Qed.

Lemma with_rec_uids_ok u fields fn : uids_ok u -> uids_ok (with_rec u fields fn).
Proof.
  intros H. pose proof (with_rec_recs u fields fn H) as E. destruct H as [Hnd Hlt].
  split.
  - rewrite E, map_app. cbn [map r_uid]. apply nodup_snoc; [exact Hnd|].
    intro Hin. apply in_map_iff in Hin as [x [Hx Hin]]. specialize (Hlt x Hin). lia.
  - intros r Hr. rewrite E in Hr. unfold with_rec. cbn [u_next].
    apply in_app_or in Hr as [Hr|[<-|[]]]; [specialize (Hlt r Hr); lia|cbn [r_uid]; lia].
Qed.

Lemma with_rec_extends P u fields fn : uids_ok u -> extends P u (with_rec u fields fn).
Proof.
  intros H. pose proof (with_rec_recs u fields fn H) as E. destruct H as [Hnd Hlt].
  split; [reflexivity|]. split; [unfold with_rec; cbn [u_next]; lia|]. split.
  - intros uid k [r [Hr [Hu Hk]]] Hl. rewrite E in Hr.
    apply in_app_or in Hr as [Hr|[<-|[]]]; [exists r; repeat split; assumption|].
    cbn [r_uid] in Hu. lia.
  - intros uid k [r [Hr [Hu Hk]]] _. exists r. split; [rewrite E; apply in_or_app; left; exact Hr|].
    split; assumption.
Qed.

Lemma nodup_uids_snoc l r :
  nodup_uids l = true -> (forall x, In x l -> r_uid x <> r_uid r) -> nodup_uids (l ++ [r]) = true.
Proof.
  induction l as [|x l IH]; intros H Hn; [reflexivity|].
  cbn [nodup_uids app] in *. apply andb_true_iff in H as [H1 H2]. apply andb_true_iff. split.
  - rewrite existsb_app. apply negb_true_iff in H1. rewrite H1. cbn [existsb orb].
    apply negb_true_iff. rewrite orb_false_r. apply N.eqb_neq. intro E.
    exact (Hn x (or_introl eq_refl) (eq_sym E)).
  - apply IH; [exact H2|]. intros y Hy. apply Hn. right. exact Hy.
Qed.

Lemma value_chars_name l : forallb value_char l = true -> forallb name_char l = true.
Proof. intro H. apply forallb_forall. intros c Hc.
  exact (proj2 (proj2 (value_char_props c (forallb_In _ _ H c Hc)))). Qed.

(* adding a record with well-formed fields and a file name key:info *)
Lemma with_rec_wf u fields key info :
  wf_uidl u = true -> uids_ok u ->
  forallb wf_field fields = true -> keys_sorted fields = true ->
  wf_key key = true -> wf_info info = true ->
  wf_uidl (with_rec u fields (key ++ 58 :: info)) = true.
Proof.
  intros Hw Hok Hf Hs Hk Hi. pose proof (with_rec_recs u fields (key ++ 58 :: info) Hok) as E.
  unfold wf_uidl in *. rewrite E. unfold with_rec at 1 2. cbn [u_guid].
  apply andb_true_iff in Hw as [Hw Hnd]. apply andb_true_iff in Hw as [Hw Hrecs].
  rewrite Hw. cbn [andb]. apply andb_true_iff. split.
  - rewrite forallb_app, Hrecs. cbn [forallb andb]. rewrite andb_true_r.
    unfold wf_rec. cbn [r_fields r_fname]. rewrite Hf, Hs. cbn [andb].
    unfold wf_fname. rewrite forallb_app, (value_chars_name _ Hk). cbn [forallb andb].
    exact Hi.
  - apply nodup_uids_snoc; [exact Hnd|]. intros x Hx. cbn [r_uid].
    destruct Hok as [_ Hlt]. specialize (Hlt x Hx). lia.
Qed.

Lemma wf_uidl_rec u r : wf_uidl u = true -> In r (u_recs u) -> wf_rec r = true.
Proof.
  unfold wf_uidl. intros H Hr. apply andb_true_iff in H as [H _]. apply andb_true_iff in H as [_ H].
  exact (forallb_In _ _ H r Hr).
Qed.

Lemma info_of_letters_chars l : wf_info (info_of_letters l) = true.
Proof.
  unfold wf_info, info_of_letters. cbn [forallb]. apply forallb_forall. intros c Hc.
  apply filter_In in Hc as [Hc _]. unfold sys_letters in Hc.
  repeat (destruct Hc as [<-|Hc]; [reflexivity|]). destruct Hc.
Qed.

(* ------------------------------------------- tracking facts through blocks *)
Lemma view_add_key_unused m m1 f s K i n K' :
  view_add m m1 (PMsg f s K i) n -> K' <> K -> key_unused m K' -> key_unused m1 K'.
Proof.
  intros V Hne H g t j Ht. rewrite (V _ (live_not_junk g t K' j Ht)).
  destruct (path_eqb (PMsg f s K i) (PMsg g t K' j)) eqn:E; [|exact (H g t j Ht)].
  apply path_eqb_eq in E. inversion E; subst. contradiction.
Qed.

Lemma view_add_uidl m m1 f s K i n g :
  view_add m m1 (PMsg f s K i) n -> lookup m1 (PCtl g CUidl) = lookup m (PCtl g CUidl).
Proof. intro V. rewrite (V (PCtl g CUidl) eq_refl). reflexivity. Qed.

Lemma view_uidl_key_unused m m1 f u K : view_uidl m m1 f u -> key_unused m K -> key_unused m1 K.
Proof. intros V H g t j Ht. rewrite (V _ (live_not_junk g t K j Ht)). exact (H g t j Ht). Qed.

Lemma view_uidl_other m m1 f u g : g <> f ->
  view_uidl m m1 f u -> lookup m1 (PCtl g CUidl) = lookup m (PCtl g CUidl).
Proof.
  intros Hne V. rewrite (V (PCtl g CUidl) eq_refl).
  destruct (path_eqb (PCtl f CUidl) (PCtl g CUidl)) eqn:E; [|reflexivity].
  apply path_eqb_eq in E. inversion E; subst. contradiction.
Qed.

Lemma view_uidl_at_new m m1 f u : view_uidl m m1 f u -> wf_uidl u = true -> uidl_at m1 f u.
Proof. intros V Hw. apply uidl_at_text; [|exact Hw]. rewrite (V (PCtl f CUidl) eq_refl),
  path_eqb_refl. reflexivity. Qed.

Lemma uidl_at_lookup_eq m m1 f u :
  lookup m1 (PCtl f CUidl) = lookup m (PCtl f CUidl) -> uidl_at m f u -> uidl_at m1 f u.
Proof. intros E [t [H1 H2]]. exists t. rewrite E. split; assumption. Qed.

(* --------------------------------- operations legal whatever the state *)
Definition static (lay : layout) (o : fsop) : bool :=
  match o with
  | OLink _ _ | ORenameDir _ _ => false
  | ORename (PTmp _ _) (PCtl _ CUidl) => false
  | _ => legal_b lay [] o
  end.

Lemma static_legal_b lay m o : static lay o = true -> legal_b lay m o = true.
Proof.
  destruct o as [p|p|p|p c|p q|a b|p q|p|p]; cbn [static]; intro H; try discriminate;
    try exact H.
  destruct p as [| |f s k i|f c|f n]; try exact H.
  destruct q as [| | |g c|]; try exact H.
  destruct c; try exact H; discriminate.
Qed.

Lemma static_ops_k lay l : forallb (static lay) l = true -> forall m rest,
  Inv m -> (forall m1, Inv m1 -> legal_ops_b lay m1 rest = true) ->
  legal_ops_b lay m (l ++ rest) = true.
Proof.
  induction l as [|o l IH]; intros Hs m rest I K; cbn [app]; [exact (K m I)|].
  cbn [forallb] in Hs. apply andb_true_iff in Hs as [Ho Hl].
  apply step_k; [exact I|exact (static_legal_b lay m o Ho)|]. intros m1 _ _ I1.
  exact (IH Hl m1 rest I1 K).
Qed.

Lemma static_ops_legal lay l m :
  forallb (static lay) l = true -> Inv m -> legal_ops_b lay m l = true.
Proof. intros H I. rewrite <- (app_nil_r l). apply static_ops_k; [exact H|exact I|reflexivity]. Qed.

Lemma scratch_static lay o : scratch o = true -> static lay o = true.
Proof.
  destruct o; cbn [scratch static]; intro H; try discriminate; cbn [legal_b]; try reflexivity.
  - rewrite H. reflexivity.
  - exact H.
  - rewrite H. reflexivity.
Qed.

Lemma reset_ops_scratch f : forallb scratch (reset_ops f) = true.
Proof. reflexivity. Qed.

Lemma tail_ops_static lay sel used : forallb (static lay) (tail_ops sel used) = true.
Proof.
  unfold tail_ops. destruct sel as [[s ro]|]; [|reflexivity].
  destruct used as [f|]; [destruct (fname_eqb f s)|]; reflexivity.
Qed.

(* ---------------------------------------------------------------- APPEND *)
Lemma append_core lay f s rest : live s = true -> forall msgs m u,
  Inv m -> uidl_at m f u ->
  (forall a, In a msgs -> key_unused m (a_key a) /\ wf_amsg a = true) ->
  NoDup (map a_key msgs) ->
  (forall m1, Inv m1 -> legal_ops_b lay m1 rest = true) ->
  legal_ops_b lay m (append_ops f s u msgs ++ rest) = true.
Proof.
  intro Hs. induction msgs as [|a r IH]; intros m u I Hu Hm Hnd K; cbn [append_ops app].
  - exact (K m I).
  - destruct (inv_uidl_text _ _ _ I Hu) as [_ [Hw Hok]].
    destruct (Hm a (or_introl eq_refl)) as [HKa Hwa].
    inversion Hnd as [|? ? Hnot Hnd']; subst.
    unfold wf_amsg in Hwa. apply andb_true_iff in Hwa as [Hwa Hwt].
    apply andb_true_iff in Hwa as [Hwk Hwe].
    set (info := info_of_letters (a_flags a)).
    set (u' := with_rec u [(69, a_e a); (84, a_t a)] (a_key a ++ 58 :: info)).
    rewrite <- !app_assoc.
    apply add_k; [exact I|exact Hs|exact HKa|exact Hwk|exact (info_of_letters_chars _)|].
    intros m1 I1 V1.
    assert (Hu1 : uidl_at m1 f u)
      by exact (uidl_at_lookup_eq _ _ _ _ (view_add_uidl _ _ _ _ _ _ _ f V1) Hu).
    assert (Hw' : wf_uidl u' = true).
    { apply with_rec_wf; try assumption; [|reflexivity|exact (info_of_letters_chars _)].
      cbn [forallb]. unfold wf_field. cbn [fst snd]. rewrite Hwe, Hwt. reflexivity. }
    apply rewrite_k; [exact I1|exact Hw'|exact (with_rec_uids_ok _ _ _ Hok)| |].
    { intros u0 Hu0. rewrite <- (uidl_at_fun _ _ _ _ Hu1 Hu0). exact (with_rec_extends _ _ _ _ Hok). }
    intros m2 I2 V2.
    apply (IH m2 u' I2 (view_uidl_at_new _ _ _ _ V2 Hw')); [|exact Hnd'|exact K].
    intros b Hb. destruct (Hm b (or_intror Hb)) as [HKb Hwb]. split; [|exact Hwb].
    apply (view_uidl_key_unused _ _ _ _ _ V2).
    apply (view_add_key_unused _ _ _ _ _ _ _ _ V1); [|exact HKb].
    intro E. apply Hnot. rewrite <- E. apply in_map. exact Hb.
Qed.

(* ------------------------------------------------- more uid-list facts *)
Lemma with_rec_wf_fn u fields fn :
  wf_uidl u = true -> uids_ok u ->
  forallb wf_field fields = true -> keys_sorted fields = true -> wf_fname fn = true ->
  wf_uidl (with_rec u fields fn) = true.
Proof.
  intros Hw Hok Hf Hs Hn. pose proof (with_rec_recs u fields fn Hok) as E.
  unfold wf_uidl in *. rewrite E. unfold with_rec at 1 2. cbn [u_guid].
  apply andb_true_iff in Hw as [Hw Hnd]. apply andb_true_iff in Hw as [Hw Hrecs].
  rewrite Hw. cbn [andb]. apply andb_true_iff. split.
  - rewrite forallb_app, Hrecs. cbn [forallb andb]. rewrite andb_true_r.
    unfold wf_rec. cbn [r_fields r_fname]. rewrite Hf, Hs, Hn. reflexivity.
  - apply nodup_uids_snoc; [exact Hnd|]. intros x Hx. cbn [r_uid].
    destruct Hok as [_ Hlt]. specialize (Hlt x Hx). lia.
Qed.

Lemma wf_fname_key_info key info :
  wf_key key = true -> wf_info info = true -> wf_fname (key ++ 58 :: info) = true.
Proof. intros Hk Hi. unfold wf_fname. rewrite forallb_app, (value_chars_name _ Hk).
  cbn [forallb andb]. exact Hi. Qed.

Lemma wf_fname_of_file x :
  wf_key (m_key x) = true -> wf_info (m_info x) = true -> wf_fname (fname_of_file x) = true.
Proof.
  intros Hk Hi. unfold fname_of_file. destruct (m_info x) as [|c i] eqn:E.
  - exact (value_chars_name _ Hk).
  - exact (wf_fname_key_info _ _ Hk Hi).
Qed.

Lemma wf_rec_fields r : wf_rec r = true ->
  forallb wf_field (r_fields r) = true /\ keys_sorted (r_fields r) = true
  /\ wf_fname (r_fname r) = true.
Proof. unfold wf_rec. intro H. apply andb_true_iff in H as [H H3].
  apply andb_true_iff in H as [H1 H2]. repeat split; assumption. Qed.

Lemma nodup_uids_filter p l : nodup_uids l = true -> nodup_uids (filter p l) = true.
Proof.
  induction l as [|r l IH]; cbn [nodup_uids filter]; intro H; [reflexivity|].
  apply andb_true_iff in H as [H1 H2]. destruct (p r); [|exact (IH H2)].
  cbn [nodup_uids]. rewrite (IH H2), andb_true_r. apply negb_true_iff. apply negb_true_iff in H1.
  destruct (existsb (fun x => r_uid x =? r_uid r) (filter p l)) eqn:E; [|reflexivity].
  apply existsb_exists in E as [x [Hx Ex]]. apply filter_In in Hx as [Hx _].
  assert (existsb (fun x => r_uid x =? r_uid r) l = true)
    by (apply existsb_exists; exists x; split; assumption).
  congruence.
Qed.

Lemma without_rec_wf u uid : wf_uidl u = true -> wf_uidl (without_rec u uid) = true.
Proof.
  unfold wf_uidl, without_rec. cbn [u_guid u_recs]. intro H.
  apply andb_true_iff in H as [H Hnd]. apply andb_true_iff in H as [H Hrecs].
  rewrite H. cbn [andb]. apply andb_true_iff. split.
  - apply forallb_forall. intros r Hr. apply filter_In in Hr as [Hr _].
    exact (forallb_In _ _ Hrecs r Hr).
  - exact (nodup_uids_filter _ _ Hnd).
Qed.

Lemma nodup_map_filter {A B} (g : A -> B) p (l : list A) :
  NoDup (map g l) -> NoDup (map g (filter p l)).
Proof.
  induction l as [|x l IH]; cbn [map filter]; intro H; [constructor|].
  inversion H as [|? ? Hx Hl]; subst. destruct (p x); [|exact (IH Hl)].
  cbn [map]. constructor; [|exact (IH Hl)]. intro Hin. apply Hx.
  apply in_map_iff in Hin as [y [Hy Hin]]. apply filter_In in Hin as [Hin _].
  apply in_map_iff. exists y. split; assumption.
Qed.

Lemma without_rec_uids_ok u uid : uids_ok u -> uids_ok (without_rec u uid).
Proof.
  intros [Hnd Hlt]. split; unfold without_rec; cbn [u_recs u_next].
  - exact (nodup_map_filter _ _ _ Hnd).
  - intros r Hr. apply filter_In in Hr as [Hr _]. exact (Hlt r Hr).
Qed.

Lemma recorded_fun u uid k k' : uids_ok u -> recorded u uid k -> recorded u uid k' -> k = k'.
Proof. intros [Hnd _]. exact (recorded_same_uid _ _ _ _ Hnd). Qed.

Lemma without_rec_extends (P : bytes -> Prop) u uid :
  uids_ok u -> (forall k, recorded u uid k -> ~ P k) -> extends P u (without_rec u uid).
Proof.
  intros Hok Hno. split; [reflexivity|]. split; [apply N.le_refl|]. split.
  - intros uid0 k [r [Hr [Hu Hk]]] _. unfold without_rec in Hr. cbn [u_recs] in Hr.
    apply filter_In in Hr as [Hr _]. exists r. repeat split; assumption.
  - intros uid0 k Hrec HP. destruct (N.eqb_spec uid0 uid) as [->|Hne].
    + exfalso. exact (Hno k Hrec HP).
    + destruct Hrec as [r [Hr [Hu Hk]]]. exists r. split; [|split; assumption].
      unfold without_rec. cbn [u_recs]. apply filter_In. split; [exact Hr|].
      rewrite Hu. apply negb_true_iff. apply N.eqb_neq. exact Hne.
Qed.

(* the key of a record: the file name up to its first colon *)
Lemma before_colon_nocolon b c : In c (before_colon b) -> c <> 58.
Proof.
  induction b as [|d b IH]; cbn [before_colon]; [intros []|].
  destruct (N.eqb_spec d 58) as [->|Hn]; [intros []|]. intros [<-|H]; [exact Hn|exact (IH H)].
Qed.

Lemma before_colon_app k x : (forall c, In c k -> c <> 58) -> before_colon (k ++ 58 :: x) = k.
Proof.
  induction k as [|c k IH]; intro H; [reflexivity|]. cbn [app before_colon].
  destruct (N.eqb_spec c 58) as [E|_]; [exfalso; exact (H c (or_introl eq_refl) E)|].
  rewrite IH; [reflexivity|]. intros d Hd. apply H. right. exact Hd.
Qed.

Lemma before_colon_incl b c : In c (before_colon b) -> In c b.
Proof.
  induction b as [|d b IH]; cbn [before_colon]; [intros []|].
  destruct (d =? 58); [intros []|]. intros [<-|H]; [left; reflexivity|right; exact (IH H)].
Qed.

Lemma wf_key_before_colon k x : wf_key k = true -> before_colon (k ++ 58 :: x) = k.
Proof. intro H. apply before_colon_app. intros c Hc.
  exact (proj1 (proj2 (value_char_props c (forallb_In _ _ H c Hc)))). Qed.

(* CHECK: the cleaned list *)
Lemma cleanup_recs_in u fl r' : In r' (u_recs (cleanup_uidl u fl)) ->
  exists r x, In r (u_recs u) /\ find_file fl (r_key r) = Some x
              /\ r' = {| r_uid := r_uid r; r_fields := r_fields r;
                         r_fname := r_key r ++ 58 :: m_info x |}.
Proof.
  unfold cleanup_uidl. cbn [u_recs]. intro H. apply in_flat_map in H as [r [Hr H]].
  destruct (find_file fl (r_key r)) as [x|] eqn:E; [|destruct H].
  destruct H as [<-|[]]. exists r, x. repeat split; assumption.
Qed.

Lemma cleanup_key r x : r_key {| r_uid := r_uid r; r_fields := r_fields r;
                                 r_fname := r_key r ++ 58 :: m_info x |} = r_key r.
Proof. unfold r_key at 1. cbn [r_fname]. apply before_colon_app.
  intros c Hc. exact (before_colon_nocolon _ _ Hc). Qed.

Lemma cleanup_uids_ok u fl : uids_ok u -> uids_ok (cleanup_uidl u fl).
Proof.
  intros [Hnd Hlt]. split.
  - unfold cleanup_uidl. cbn [u_recs]. clear Hlt.
    induction (u_recs u) as [|r l IH]; cbn [flat_map map]; [constructor|].
    inversion Hnd as [|? ? Hr Hl]; subst.
    destruct (find_file fl (r_key r)); cbn [app map]; [|exact (IH Hl)].
    constructor; [|exact (IH Hl)]. cbn [r_uid]. intro Hin. apply Hr.
    apply in_map_iff in Hin as [y [Hy Hin]]. apply in_flat_map in Hin as [z [Hz Hin]].
    destruct (find_file fl (r_key z)); [|destruct Hin]. destruct Hin as [<-|[]].
    cbn [r_uid] in Hy. apply in_map_iff. exists z. split; assumption.
  - intros r' Hr'. destruct (cleanup_recs_in _ _ _ Hr') as [r [x [Hr [_ ->]]]].
    cbn [r_uid]. exact (Hlt r Hr).
Qed.

Lemma cleanup_wf u fl :
  wf_uidl u = true -> (forall x, In x fl -> wf_info (m_info x) = true) ->
  wf_uidl (cleanup_uidl u fl) = true.
Proof.
  intros Hw Hfl. unfold wf_uidl in *.
  apply andb_true_iff in Hw as [Hw Hnd]. apply andb_true_iff in Hw as [Hg Hrecs].
  unfold cleanup_uidl at 1 2. cbn [u_guid]. rewrite Hg. cbn [andb]. apply andb_true_iff. split.
  - apply forallb_forall. intros r' Hr'.
    destruct (cleanup_recs_in _ _ _ Hr') as [r [x [Hr [Hx ->]]]].
    destruct (wf_rec_fields _ (forallb_In _ _ Hrecs r Hr)) as [Hf [Hs Hn]].
    unfold wf_rec. cbn [r_fields r_fname]. rewrite Hf, Hs. cbn [andb].
    unfold wf_fname in *. rewrite forallb_app. apply andb_true_iff. split.
    + apply forallb_forall. intros c Hc. apply (forallb_In _ _ Hn).
      exact (before_colon_incl _ _ Hc).
    + cbn [forallb andb]. apply Hfl. exact (proj1 (find_file_some _ _ _ Hx)).
  - unfold cleanup_uidl. cbn [u_recs]. clear Hrecs Hg.
    induction (u_recs u) as [|r l IH]; cbn [flat_map nodup_uids]; [reflexivity|].
    cbn [nodup_uids] in Hnd. apply andb_true_iff in Hnd as [H1 H2].
    destruct (find_file fl (r_key r)); cbn [app]; [|exact (IH H2)].
    cbn [nodup_uids r_uid]. rewrite (IH H2), andb_true_r. apply negb_true_iff.
    apply negb_true_iff in H1.
    destruct (existsb _ (flat_map _ l)) eqn:E; [|reflexivity].
    apply existsb_exists in E as [y [Hy Ey]]. apply in_flat_map in Hy as [z [Hz Hy]].
    destruct (find_file fl (r_key z)); [|destruct Hy]. destruct Hy as [<-|[]]. cbn [r_uid] in Ey.
    assert (existsb (fun x => r_uid x =? r_uid r) l = true)
      by (apply existsb_exists; exists z; split; assumption).
    congruence.
Qed.

Lemma cleanup_extends m f u :
  Inv m -> uids_ok u -> extends (has_file m f) u (cleanup_uidl u (files_of m f)).
Proof.
  intros I Hok. split; [reflexivity|]. split; [apply N.le_refl|]. split.
  - intros uid k [r' [Hr' [Hu Hk]]] _.
    destruct (cleanup_recs_in _ _ _ Hr') as [r [x [Hr [_ ->]]]].
    rewrite cleanup_key in Hk. cbn [r_uid] in Hu. exists r. repeat split; assumption.
  - intros uid k [r [Hr [Hu Hk]]] Hf.
    destruct (find_file (files_of m f) (r_key r)) as [x|] eqn:E.
    + exists {| r_uid := r_uid r; r_fields := r_fields r; r_fname := r_key r ++ 58 :: m_info x |}.
      split; [|split; [exact Hu|rewrite cleanup_key; exact Hk]].
      unfold cleanup_uidl. cbn [u_recs]. apply in_flat_map. exists r. split; [exact Hr|].
      rewrite E. left. reflexivity.
    + exfalso. rewrite <- Hk in Hf. exact (has_file_find _ _ _ I Hf E).
Qed.

(* the files found at the start of a command *)
Definition files_ok (fls : list mfile) : Prop :=
  forall x, In x fls -> live (m_sub x) = true /\ wf_key (m_key x) = true
                        /\ wf_info (m_info x) = true.

Lemma files_of_ok m f : Inv m -> files_ok (files_of m f).
Proof. intros I x Hx. destruct (files_of_lookup _ _ _ I Hx) as [_ [H1 [H2 H3]]].
  repeat split; assumption. Qed.

(* ------------------------------------------------------------------ COPY *)
Lemma copy_core lay g s us fls rest : live s = true -> wf_uidl us = true -> files_ok fls ->
  forall uids names m ug,
  Inv m -> uidl_at m g ug ->
  (forall kn, In kn names -> key_unused m (fst kn) /\ wf_key (fst kn) = true) ->
  NoDup (map fst names) ->
  (forall m1, Inv m1 -> legal_ops_b lay m1 rest = true) ->
  legal_ops_b lay m (copy_ops g s us fls ug uids names ++ rest) = true.
Proof.
  intros Hs Hwus Hfls. induction uids as [|uid r IH]; intros names m ug I Hu Hn Hnd K;
    cbn [copy_ops app]; [exact (K m I)|].
  destruct (locate us fls uid) as [[rec x]|] eqn:El; [|exact (IH names m ug I Hu Hn Hnd K)].
  destruct names as [|[key tmp] names']; [exact (K m I)|].
  destruct (locate_spec _ _ _ _ _ El) as [Hrec [_ [Hx _]]].
  destruct (Hfls x Hx) as [_ [_ Hwi]].
  destruct (wf_rec_fields _ (wf_uidl_rec _ _ Hwus Hrec)) as [Hf [Hsf _]].
  destruct (inv_uidl_text _ _ _ I Hu) as [_ [Hw Hok]].
  destruct (Hn (key, tmp) (or_introl eq_refl)) as [HK Hwk]. cbn [fst] in HK, Hwk.
  inversion Hnd as [|? ? Hnot Hnd']; subst.
  set (ug' := with_rec ug (r_fields rec) (key ++ 58 :: m_info x)).
  rewrite <- !app_assoc.
  apply add_k; [exact I|exact Hs|exact HK|exact Hwk|exact Hwi|]. intros m1 I1 V1.
  assert (Hu1 : uidl_at m1 g ug)
    by exact (uidl_at_lookup_eq _ _ _ _ (view_add_uidl _ _ _ _ _ _ _ g V1) Hu).
  assert (Hw' : wf_uidl ug' = true) by (apply with_rec_wf; assumption).
  apply rewrite_k; [exact I1|exact Hw'|exact (with_rec_uids_ok _ _ _ Hok)| |].
  { intros u0 Hu0. rewrite <- (uidl_at_fun _ _ _ _ Hu1 Hu0). exact (with_rec_extends _ _ _ _ Hok). }
  intros m2 I2 V2.
  apply (IH names' m2 ug' I2 (view_uidl_at_new _ _ _ _ V2 Hw')); [|exact Hnd'|exact K].
  intros kn Hkn. destruct (Hn kn (or_intror Hkn)) as [HKb Hwb]. split; [|exact Hwb].
  apply (view_uidl_key_unused _ _ _ _ _ V2).
  apply (view_add_key_unused _ _ _ _ _ _ _ _ V1); [|exact HKb].
  intro E. apply Hnot. cbn [fst]. rewrite <- E. apply in_map. exact Hkn.
Qed.

(* -------------------------------------- MOVE into the mailbox itself *)
Lemma unlink_live_static lay f s k i : live s = true ->
  static lay (OUnlink (PMsg f s k i)) = true.
Proof. intro H. cbn [static legal_b junk]. rewrite H. reflexivity. Qed.

Lemma self_move_core lay f s fls rest : live s = true -> files_ok fls ->
  forall uids names m u,
  Inv m -> uidl_at m f u ->
  (forall k, In k (evens names) -> key_unused m k /\ wf_key k = true) ->
  NoDup (evens names) ->
  (forall m1, Inv m1 -> legal_ops_b lay m1 rest = true) ->
  legal_ops_b lay m (self_move_ops f s u fls uids names ++ rest) = true.
Proof.
  intros Hs Hfls. induction uids as [|uid r IH]; intros names m u I Hu Hn Hnd K;
    cbn [self_move_ops app]; [exact (K m I)|].
  destruct (locate u fls uid) as [[rec x]|] eqn:El; [|exact (IH names m u I Hu Hn Hnd K)].
  destruct names as [|key [|tmp names']]; [exact (K m I)|exact (K m I)|].
  destruct (locate_spec _ _ _ _ _ El) as [Hrec [_ [Hx _]]].
  destruct (Hfls x Hx) as [Hlx [_ Hwi]].
  destruct (inv_uidl_text _ _ _ I Hu) as [_ [Hw Hok]].
  destruct (wf_rec_fields _ (wf_uidl_rec _ _ Hw Hrec)) as [Hf [Hsf _]].
  cbn [evens] in Hn, Hnd.
  destruct (Hn key (or_introl eq_refl)) as [HK Hwk].
  inversion Hnd as [|? ? Hnot Hnd']; subst.
  set (u' := with_rec u (r_fields rec) (key ++ 58 :: m_info x)).
  rewrite <- !app_assoc.
  apply add_k; [exact I|exact Hs|exact HK|exact Hwk|exact Hwi|]. intros m1 I1 V1.
  assert (Hu1 : uidl_at m1 f u)
    by exact (uidl_at_lookup_eq _ _ _ _ (view_add_uidl _ _ _ _ _ _ _ f V1) Hu).
  assert (Hw' : wf_uidl u' = true) by (apply with_rec_wf; assumption).
  apply rewrite_k; [exact I1|exact Hw'|exact (with_rec_uids_ok _ _ _ Hok)| |].
  { intros u0 Hu0. rewrite <- (uidl_at_fun _ _ _ _ Hu1 Hu0). exact (with_rec_extends _ _ _ _ Hok). }
  intros m2 I2 V2. cbn [app].
  apply step_k; [exact I2|exact (static_legal_b _ _ _ (unlink_live_static lay f _ _ _ Hlx))|].
  intros m3 A3 _ I3.
  assert (Hu3 : uidl_at m3 f u').
  { apply (uidl_at_lookup_eq m2 m3); [|exact (view_uidl_at_new _ _ _ _ V2 Hw')].
    apply (apply_op_frame _ _ _ _ _ A3). cbn. intro E. discriminate E. }
  apply (IH names' m3 u' I3 Hu3); [|exact Hnd'|exact K].
  intros k Hk. destruct (Hn k (or_intror Hk)) as [HKb Hwb]. split; [|exact Hwb].
  intros g t j Ht. rewrite (apply_unlink _ _ _ _ A3).
  destruct (path_eqb (PMsg f (m_sub x) (m_key x) (m_info x)) (PMsg g t k j)); [reflexivity|].
  apply (view_uidl_key_unused _ _ _ _ _ V2); [|exact Ht].
  apply (view_add_key_unused _ _ _ _ _ _ _ _ V1); [|exact HKb].
  intro E. apply Hnot. rewrite <- E. exact Hk.
Qed.

(* ------------------------------------------------------------------ MOVE *)
Lemma move_rename_legal lay m f g s s' k i : live s = true -> live s' = true ->
  legal_b lay m (ORename (PMsg f s k i) (PMsg g s' k i)) = true.
Proof. intros H1 H2. cbn [legal_b]. rewrite H1, H2, !bytes_eqb_refl, orb_true_r. reflexivity. Qed.

Lemma move_core lay f g s fls rest : live s = true -> f <> g -> files_ok fls ->
  forall uids tmps m us ug,
  Inv m -> uidl_at m f us -> uidl_at m g ug ->
  (forall m1, Inv m1 -> legal_ops_b lay m1 rest = true) ->
  legal_ops_b lay m (move_ops f g s us fls ug uids tmps ++ rest) = true.
Proof.
  intros Hs Hfg Hfls. induction uids as [|uid r IH]; intros tmps m us ug I Hus Hug K;
    cbn [move_ops app]; [exact (K m I)|].
  destruct (locate us fls uid) as [[rec x]|] eqn:El; [|exact (IH tmps m us ug I Hus Hug K)].
  destruct tmps as [|tmp1 [|tmp2 tmps']]; [exact (K m I)|exact (K m I)|].
  destruct (locate_spec _ _ _ _ _ El) as [Hrec [Huid [Hx Hkx]]].
  destruct (Hfls x Hx) as [Hlx [Hwk Hwi]].
  destruct (inv_uidl_text _ _ _ I Hus) as [_ [Hws Hoks]].
  destruct (inv_uidl_text _ _ _ I Hug) as [_ [Hwg Hokg]].
  destruct (wf_rec_fields _ (wf_uidl_rec _ _ Hws Hrec)) as [Hf [Hsf _]].
  cbn [app]. rewrite <- !app_assoc.
  apply step_k; [exact I|exact (move_rename_legal lay m f g _ s _ _ Hlx Hs)|].
  intros m1 A1 _ I1.
  destruct (apply_rename _ _ _ _ _ A1) as [c [Hsrc Hl1]].
  assert (U1 : forall h, lookup m1 (PCtl h CUidl) = lookup m (PCtl h CUidl)).
  { intro h. rewrite Hl1. reflexivity. }
  (* the moved file is no longer in the source folder *)
  assert (Hgone : ~ has_file m1 f (m_key x)).
  { intros [i [c0 [t [Ht Hl]]]]. rewrite Hl1 in Hl.
    destruct (path_eqb (PMsg g s (m_key x) (m_info x)) (PMsg f t (m_key x) i)) eqn:E1.
    { apply path_eqb_eq in E1. inversion E1; subst. exact (Hfg eq_refl). }
    destruct (path_eqb (PMsg f (m_sub x) (m_key x) (m_info x)) (PMsg f t (m_key x) i)) eqn:E2;
      [discriminate|].
    destruct I as [_ I2 _ _].
    destruct (I2 _ _ _ _ _ _ _ _ _ Hlx Ht Hsrc Hl) as [_ [E3 E4]].
    rewrite E3, E4, path_eqb_refl in E2. discriminate. }
  set (us' := without_rec us uid).
  set (ug' := with_rec ug (r_fields rec) (fname_of_file x)).
  apply rewrite_k; [exact I1|exact (without_rec_wf _ _ Hws)|exact (without_rec_uids_ok _ _ Hoks)| |].
  { intros u0 Hu0.
    rewrite <- (uidl_at_fun _ _ _ _ (uidl_at_lookup_eq _ _ _ _ (U1 f) Hus) Hu0).
    apply without_rec_extends; [exact Hoks|]. intros k Hk Hf'.
    assert (k = m_key x).
    { rewrite Hkx. apply (recorded_fun _ _ _ _ Hoks Hk). exists rec. repeat split; assumption. }
    subst k. exact (Hgone Hf'). }
  intros m2 I2 V2.
  assert (Hug2 : uidl_at m2 g ug).
  { apply (uidl_at_lookup_eq m1 m2); [exact (view_uidl_other _ _ _ _ _ (not_eq_sym Hfg) V2)|].
    exact (uidl_at_lookup_eq _ _ _ _ (U1 g) Hug). }
  assert (Hwg' : wf_uidl ug' = true).
  { apply with_rec_wf_fn; try assumption. exact (wf_fname_of_file _ Hwk Hwi). }
  apply rewrite_k; [exact I2|exact Hwg'|exact (with_rec_uids_ok _ _ _ Hokg)| |].
  { intros u0 Hu0. rewrite <- (uidl_at_fun _ _ _ _ Hug2 Hu0).
    exact (with_rec_extends _ _ _ _ Hokg). }
  intros m3 I3 V3.
  apply (IH tmps' m3 us' ug' I3); [|exact (view_uidl_at_new _ _ _ _ V3 Hwg')|exact K].
  apply (uidl_at_lookup_eq m2 m3); [exact (view_uidl_other _ _ _ _ _ Hfg V3)|].
  exact (view_uidl_at_new _ _ _ _ V2 (without_rec_wf _ _ Hws)).
Qed.

(* ------------------------------------------------------- static lists *)
Lemma flags_rename_static lay f s s' k i i' : live s = true -> live s' = true ->
  wf_info i' = true -> static lay (ORename (PMsg f s k i) (PMsg f s' k i')) = true.
Proof. intros H1 H2 H3. cbn [static legal_b]. rewrite H1, H2, bytes_eqb_refl, fname_eqb_refl, H3.
  reflexivity. Qed.

Lemma wf_info_new_info mode fl info : wf_info (new_info mode fl info) = true.
Proof. unfold new_info. apply info_of_letters_chars. Qed.

Lemma store_ops_static lay f u fl mode letters uids : files_ok fl ->
  forallb (static lay) (store_ops f u fl mode letters uids) = true.
Proof.
  intro Hfl. unfold store_ops. apply forallb_forall. intros o Ho.
  apply in_flat_map in Ho as [uid [_ Ho]].
  destruct (locate u fl uid) as [[rec x]|] eqn:El; [|destruct Ho].
  destruct (bytes_eqb (new_info mode letters (m_info x)) (m_info x)); [destruct Ho|].
  destruct Ho as [<-|[]]. destruct (locate_spec _ _ _ _ _ El) as [_ [_ [Hx _]]].
  destruct (Hfl x Hx) as [Hl _].
  exact (flags_rename_static lay f _ _ _ _ _ Hl Hl (wf_info_new_info _ _ _)).
Qed.

Lemma expunge_ops_static lay f u fl : files_ok fl ->
  forallb (static lay) (expunge_ops f u fl) = true.
Proof.
  intro Hfl. unfold expunge_ops. apply forallb_forall. intros o Ho.
  apply in_flat_map in Ho as [r [_ Ho]].
  destruct (find_file fl (r_key r)) as [x|] eqn:Ex; [|destruct Ho].
  destruct (mem_n 84 (flags_of_info (m_info x))); [|destruct Ho].
  destruct Ho as [<-|[]]. destruct (Hfl x (proj1 (find_file_some _ _ _ Ex))) as [Hl _].
  exact (unlink_live_static lay f _ _ _ Hl).
Qed.

Lemma claim_ops_static lay f news order :
  (forall x, In x news -> wf_info (m_info x) = true) ->
  forallb (static lay)
    (flat_map (fun k => match find_file news k with
                        | Some x => [ORename (PMsg f SNew k (m_info x)) (PMsg f SCur k (m_info x))]
                        | None => []
                        end) order) = true.
Proof.
  intro Hn. apply forallb_forall. intros o Ho. apply in_flat_map in Ho as [k [_ Ho]].
  destruct (find_file news k) as [x|] eqn:Ex; [|destruct Ho]. destruct Ho as [<-|[]].
  apply flags_rename_static; try reflexivity. apply Hn. exact (proj1 (find_file_some _ _ _ Ex)).
Qed.

Lemma forallb_app_true {A} (p : A -> bool) l1 l2 :
  forallb p l1 = true -> forallb p l2 = true -> forallb p (l1 ++ l2) = true.
Proof. intros H1 H2. rewrite forallb_app, H1, H2. reflexivity. Qed.

Lemma scratch_list_static lay l : forallb scratch l = true -> forallb (static lay) l = true.
Proof. intro H. apply forallb_forall. intros o Ho. apply scratch_static.
  exact (forallb_In _ _ H o Ho). Qed.

(* ----------------------------------------------------------------- CHECK *)
Lemma check_core lay m0 m f tmp u rest :
  Inv m0 -> Inv m -> same_view m0 m -> uidl_at m f u ->
  (forall m1, Inv m1 -> legal_ops_b lay m1 rest = true) ->
  legal_ops_b lay m (locked_rewrite f tmp (cleanup_uidl u (files_of m0 f)) ++ rest) = true.
Proof.
  intros I0 I V Hu K. destruct (inv_uidl_text _ _ _ I Hu) as [_ [Hw Hok]].
  apply rewrite_k; [exact I| |exact (cleanup_uids_ok _ _ Hok)| |].
  - apply cleanup_wf; [exact Hw|]. intros x Hx. exact (proj2 (proj2 (files_of_ok _ _ I0 x Hx))).
  - intros u0 Hu0. rewrite <- (uidl_at_fun _ _ _ _ Hu Hu0).
    destruct (cleanup_extends m0 f u I0 Hok) as [H1 [H2 [H3 H4]]].
    split; [exact H1|]. split; [exact H2|]. split; [exact H3|].
    intros uid k Hr Hf. apply H4; [exact Hr|]. apply (view_has_file _ _ f k V). exact Hf.
  - intros m1 I1 _. exact (K m1 I1).
Qed.

(* ---------------------------------------------------------------- CREATE *)
Lemma create_core lay m f val guid tmp rest :
  Inv m -> lookup m (PCtl f CUidl) = None -> wf_guid guid = true ->
  (forall m1, Inv m1 -> legal_ops_b lay m1 rest = true) ->
  legal_ops_b lay m
    ([OMkdir (PDir f); OMkdir (PSub f STmp); OMkdir (PSub f SNew); OMkdir (PSub f SCur);
      OCreat (PCtl f CMdf)]
     ++ locked_rewrite f tmp {| u_val := val; u_next := 1; u_guid := guid; u_recs := [] |}
     ++ rest) = true.
Proof.
  intros I Hn Hg K. cbn [app].
  apply step_k; [exact I|reflexivity|]. intros m1 A1 _ I1.
  apply step_k; [exact I1|reflexivity|]. intros m2 A2 _ I2.
  apply step_k; [exact I2|reflexivity|]. intros m3 A3 _ I3.
  apply step_k; [exact I3|reflexivity|]. intros m4 A4 _ I4.
  apply step_k; [exact I4|reflexivity|]. intros m5 A5 _ I5.
  assert (Hn5 : lookup m5 (PCtl f CUidl) = None).
  { rewrite (apply_op_frame _ _ _ _ (PCtl f CUidl) A5) by (cbn; intro E; discriminate E).
    rewrite (apply_op_frame _ _ _ _ (PCtl f CUidl) A4) by (cbn; intro E; discriminate E).
    rewrite (apply_op_frame _ _ _ _ (PCtl f CUidl) A3) by (cbn; intro E; discriminate E).
    rewrite (apply_op_frame _ _ _ _ (PCtl f CUidl) A2) by (cbn; intro E; discriminate E).
    rewrite (apply_op_frame _ _ _ _ (PCtl f CUidl) A1) by (cbn; intro E; discriminate E).
    exact Hn. }
  apply rewrite_k; [exact I5| | | |].
  - unfold wf_uidl. cbn [u_guid u_recs forallb nodup_uids]. unfold wf_guid in Hg.
    destruct guid; [discriminate|]. rewrite Hg. reflexivity.
  - split; cbn [u_recs map]; [constructor|intros r []].
  - intros u [t [Hl _]]. rewrite Hn5 in Hl. discriminate.
  - intros m6 I6 _. exact (K m6 I6).
Qed.

(* --------------------------------------------------------- subscriptions *)
Lemma subs_ops_static lay names tmp : forallb (static lay) (subs_ops names tmp) = true.
Proof. reflexivity. Qed.

(* ------------------------------------------- the guards of Ops.run_cmd *)
Lemma ready_uidl_at m f u : ready m f = Some u -> uidl_at m f u.
Proof.
  unfold ready, read_uidl. destruct (folder_ok m f); [|discriminate].
  destruct (lookup m (PCtl f CUidl)) as [[|[c|t]]|] eqn:E; try discriminate.
  destruct (parse_uidl t) as [u0| | |] eqn:P; try discriminate.
  destruct (unknown_files u0 (files_of m f)); [|discriminate].
  intro H. injection H as <-. exists t. split; [exact E|exact P].
Qed.

Lemma key_fresh_unused m k : key_fresh m k = true -> key_unused m k.
Proof.
  unfold key_fresh. intros H f s i _. destruct (lookup m (PMsg f s k i)) eqn:E; [|reflexivity].
  apply lookup_In in E. apply negb_true_iff in H.
  assert (existsb (fun e => match fst e with PMsg _ _ k0 _ => bytes_eqb k0 k | _ => false end) m
          = true).
  { apply existsb_exists. eexists. split; [exact E|]. cbn [fst]. apply bytes_eqb_refl. }
  congruence.
Qed.

Lemma nodup_keys_sound l : nodup_keys l = true -> NoDup l.
Proof.
  induction l as [|k l IH]; cbn [nodup_keys]; intro H; [constructor|].
  apply andb_true_iff in H as [H1 H2]. constructor; [|exact (IH H2)].
  intro Hin. apply negb_true_iff in H1.
  assert (existsb (bytes_eqb k) l = true)
    by (apply existsb_exists; exists k; split; [exact Hin|apply bytes_eqb_refl]).
  congruence.
Qed.

Lemma keys_ok_sound m keys : keys_ok m keys = true ->
  (forall k, In k keys -> key_unused m k /\ wf_key k = true) /\ NoDup keys.
Proof.
  unfold keys_ok. intro H. apply andb_true_iff in H as [H1 H2]. split.
  - intros k Hk. pose proof (forallb_In _ _ H1 k Hk) as Hb. cbn in Hb.
    apply andb_true_iff in Hb as [Hf Hw]. split; [exact (key_fresh_unused _ _ Hf)|exact Hw].
  - exact (nodup_keys_sound _ H2).
Qed.

Lemma legal_ops_b_app_inv lay l1 : forall m l2,
  Inv m -> legal_ops_b lay m l1 = true ->
  (forall m1, Inv m1 -> legal_ops_b lay m1 l2 = true) ->
  legal_ops_b lay m (l1 ++ l2) = true.
Proof.
  induction l1 as [|o l1 IH]; intros m l2 I H K; cbn [app]; [exact (K m I)|].
  cbn [legal_ops_b] in H. apply andb_true_iff in H as [H1 H2].
  apply step_k; [exact I|exact H1|]. intros m1 A _ I1. rewrite A in H2.
  exact (IH m1 l2 I1 H2 K).
Qed.

Lemma renames_clear_legal lay l : forall m,
  renames_clear lay m l = true ->
  legal_ops_b lay m (map (fun fg => ORenameDir (fst fg) (snd fg)) l) = true.
Proof.
  induction l as [|[f g] l IH]; intros m H; [reflexivity|].
  cbn [renames_clear] in H. apply andb_true_iff in H as [H1 H2].
  cbn [map legal_ops_b fst snd legal_b]. unfold rename_ok_b. rewrite H1. cbn [andb].
  destruct (apply_op lay m (ORenameDir f g)); [exact (IH _ H2)|reflexivity].
Qed.

(* ============================ every command emits only legal operations *)
Theorem run_cmd_legal lay m sel c :
  Inv m -> legal_ops_b lay m (o_ops (run_cmd lay m sel c)) = true.
Proof.
  intro I. destruct c as [f ro order|f msgs|uids mode fl|uids g names|uids g tmps| |tmp| |
                          |f val guid tmp|a b order|n tmp|n tmp]; cbn [run_cmd].
  - (* SELECT / EXAMINE *)
    destruct (negb (exists_ m (PDir f))); [reflexivity|].
    destruct (ready m f) as [u|]; [|reflexivity].
    destruct ro; [exact (static_ops_legal _ _ _ (scratch_list_static lay _ (reset_ops_scratch f)) I)|].
    destruct (perm_of bytes_eqb order _); [|reflexivity]. cbn [o_ops].
    apply static_ops_legal; [|exact I]. apply forallb_app_true.
    + exact (scratch_list_static lay _ (reset_ops_scratch f)).
    + apply claim_ops_static. intros x Hx. apply filter_In in Hx as [Hx _].
      exact (proj2 (proj2 (files_of_ok _ _ I x Hx))).
  - (* APPEND *)
    destruct (negb (exists_ m (PDir f))); [reflexivity|].
    destruct (ready m f) as [u|] eqn:Er; [|reflexivity].
    destruct (keys_ok m (map a_key msgs) && forallb wf_amsg msgs) eqn:Eg; [|reflexivity].
    apply andb_true_iff in Eg as [Hk Hw]. destruct (keys_ok_sound _ _ Hk) as [Hku Hnd].
    cbn [o_ops].
    apply (scratch_ops_k lay _ (reset_ops_scratch f)); [exact I|]. intros m1 I1 V1.
    apply append_core.
    + unfold dest_sub. destruct sel as [[s0 [|]]|]; try reflexivity.
      destruct (fname_eqb s0 f); reflexivity.
    + exact I1.
    + apply (view_uidl_at _ _ f u V1). exact (ready_uidl_at _ _ _ Er).
    + intros a Ha. split; [|exact (forallb_In _ _ Hw a Ha)].
      apply (view_key_unused _ _ _ V1). apply Hku. apply in_map. exact Ha.
    + exact Hnd.
    + intros m2 I2. exact (static_ops_legal _ _ _ (tail_ops_static lay _ _) I2).
  - (* STORE *)
    destruct sel as [[f [|]]|]; try reflexivity.
    destruct (ready m f) as [u|]; [|reflexivity]. cbn [o_ops].
    apply static_ops_legal; [|exact I]. apply forallb_app_true.
    + exact (scratch_list_static lay _ (reset_ops_scratch f)).
    + apply store_ops_static. exact (files_of_ok _ _ I).
  - (* COPY *)
    destruct sel as [[f ro]|]; [|reflexivity].
    destruct (ready m f) as [us|] eqn:Ef; [|reflexivity].
    destruct (negb (exists_ m (PDir g)));
      [exact (static_ops_legal _ _ _ (scratch_list_static lay _ (reset_ops_scratch f)) I)|].
    destruct (ready m g) as [ug|] eqn:Eg; [|reflexivity].
    destruct (keys_ok m (map fst names)) eqn:Ek; [|reflexivity].
    destruct (keys_ok_sound _ _ Ek) as [Hku Hnd]. cbn [o_ops].
    apply (scratch_ops_k lay _ (reset_ops_scratch f)); [exact I|]. intros m1 I1 V1.
    apply (scratch_ops_k lay _ (reset_ops_scratch g)); [exact I1|]. intros m2 I2 V2.
    pose proof (same_view_trans _ _ _ V1 V2) as V.
    rewrite <- (app_nil_r (copy_ops _ _ _ _ _ _ _)). apply copy_core.
    + unfold dest_sub. destruct ro; try reflexivity. destruct (fname_eqb f g); reflexivity.
    + exact (proj1 (proj2 (inv_uidl_text _ _ _ I (ready_uidl_at _ _ _ Ef)))).
    + exact (files_of_ok _ _ I).
    + exact I2.
    + apply (view_uidl_at _ _ g ug V). exact (ready_uidl_at _ _ _ Eg).
    + intros kn Hkn. destruct (Hku (fst kn) (in_map fst _ _ Hkn)) as [H1 H2].
      split; [exact (view_key_unused _ _ _ V H1)|exact H2].
    + exact Hnd.
    + reflexivity.
  - (* MOVE *)
    destruct sel as [[f ro]|]; [|reflexivity].
    destruct (ready m f) as [us|] eqn:Ef; [|reflexivity].
    destruct (negb (exists_ m (PDir g)));
      [exact (static_ops_legal _ _ _ (scratch_list_static lay _ (reset_ops_scratch f)) I)|].
    destruct (fname_eqb f g) eqn:Efg.
    + (* into the selected mailbox itself *)
      destruct (negb (keys_ok m (evens tmps))) eqn:Ek; [reflexivity|].
      apply negb_false_iff in Ek. destruct (keys_ok_sound _ _ Ek) as [Hku Hnd]. cbn [o_ops].
      apply (scratch_ops_k lay _ (reset_ops_scratch f)); [exact I|]. intros m1 I1 V1.
      apply (scratch_ops_k lay _ (reset_ops_scratch f)); [exact I1|]. intros m2 I2 V2.
      pose proof (same_view_trans _ _ _ V1 V2) as V.
      rewrite <- (app_nil_r (self_move_ops _ _ _ _ _ _)). apply self_move_core.
      * unfold dest_sub. destruct ro; try reflexivity. destruct (fname_eqb f f); reflexivity.
      * exact (files_of_ok _ _ I).
      * exact I2.
      * apply (view_uidl_at _ _ f us V). exact (ready_uidl_at _ _ _ Ef).
      * intros k Hk. destruct (Hku k Hk) as [H1 H2].
        split; [exact (view_key_unused _ _ _ V H1)|exact H2].
      * exact Hnd.
      * reflexivity.
    + destruct (ready m g) as [ug|] eqn:Eg; [|reflexivity]. cbn [o_ops].
      assert (Hne : f <> g).
      { intro E. subst g. rewrite fname_eqb_refl in Efg. discriminate. }
      apply (scratch_ops_k lay _ (reset_ops_scratch f)); [exact I|]. intros m1 I1 V1.
      apply (scratch_ops_k lay _ (reset_ops_scratch g)); [exact I1|]. intros m2 I2 V2.
      pose proof (same_view_trans _ _ _ V1 V2) as V.
      rewrite <- (app_nil_r (move_ops _ _ _ _ _ _ _ _)). apply move_core.
      * unfold dest_sub. destruct ro; try reflexivity. destruct (fname_eqb f g); reflexivity.
      * exact Hne.
      * exact (files_of_ok _ _ I).
      * exact I2.
      * apply (view_uidl_at _ _ f us V). exact (ready_uidl_at _ _ _ Ef).
      * apply (view_uidl_at _ _ g ug V). exact (ready_uidl_at _ _ _ Eg).
      * reflexivity.
  - (* EXPUNGE *)
    destruct sel as [[f [|]]|]; try reflexivity.
    destruct (ready m f) as [u|]; [|reflexivity]. cbn [o_ops].
    apply static_ops_legal; [|exact I]. apply forallb_app_true.
    + exact (scratch_list_static lay _ (reset_ops_scratch f)).
    + apply expunge_ops_static. exact (files_of_ok _ _ I).
  - (* CHECK *)
    destruct sel as [[f ro]|]; [|reflexivity].
    destruct (ready m f) as [u|] eqn:Ef; [|reflexivity]. cbn [o_ops].
    destruct (u_recs u) eqn:Er.
    + apply static_ops_legal; [reflexivity|exact I].
    + apply (scratch_ops_k lay _ (reset_ops_scratch f)); [exact I|]. intros m1 I1 V1.
      rewrite <- (app_nil_r (locked_rewrite _ _ _)).
      apply (check_core lay m m1); [exact I|exact I1|exact V1| |reflexivity].
      apply (view_uidl_at _ _ f u V1). exact (ready_uidl_at _ _ _ Ef).
  - (* NOOP *)
    destruct sel as [[f ro]|]; [|reflexivity].
    destruct (ready m f); [|reflexivity].
    exact (static_ops_legal _ _ _ (scratch_list_static lay _ (reset_ops_scratch f)) I).
  - (* CLOSE *)
    destruct sel as [[f [|]]|]; try reflexivity.
    destruct (ready m f) as [u|]; [|reflexivity]. cbn [o_ops].
    apply static_ops_legal; [|exact I]. apply forallb_app_true.
    + exact (scratch_list_static lay _ (reset_ops_scratch f)).
    + apply expunge_ops_static. exact (files_of_ok _ _ I).
  - (* CREATE *)
    destruct f as [|f0 fr]; [reflexivity|].
    destruct (exists_ m (PDir (f0 :: fr)) || negb (parent_exists lay m (f0 :: fr))
              || exists_ m (PCtl (f0 :: fr) CUidl) || negb (wf_guid guid)) eqn:Eg; [reflexivity|].
    apply orb_false_iff in Eg as [Eg Hg]. apply orb_false_iff in Eg as [_ Hu].
    apply negb_false_iff in Hg. cbn [o_ops].
    apply create_core; [exact I| |exact Hg|].
    + unfold exists_ in Hu. destruct (lookup m (PCtl (f0 :: fr) CUidl)); [discriminate|reflexivity].
    + intros m1 I1. exact (static_ops_legal _ _ _ (tail_ops_static lay _ _) I1).
  - (* RENAME *)
    destruct a as [|a0 ar]; [reflexivity|]. destruct b as [|b0 br]; [reflexivity|].
    destruct (negb (exists_ m (PDir (a0 :: ar))) || exists_ m (PDir (b0 :: br))
              || negb (parent_exists lay m (b0 :: br)) || is_prefix (a0 :: ar) (b0 :: br));
      [reflexivity|].
    destruct (perm_of fname_eqb order _ && renames_clear lay m _) eqn:Eg; [|reflexivity].
    apply andb_true_iff in Eg as [_ Hc]. cbn [o_ops].
    apply legal_ops_b_app_inv; [exact I| |].
    + pose proof (renames_clear_legal lay _ m Hc) as H. rewrite map_map in H. cbn [fst snd] in H.
      exact H.
    + intros m1 I1. exact (static_ops_legal _ _ _ (tail_ops_static lay _ _) I1).
  - (* SUBSCRIBE *)
    cbn [o_ops]. apply static_ops_legal; [|exact I].
    apply forallb_app_true; [reflexivity|]. apply forallb_app_true; [reflexivity|].
    apply forallb_app_true; [reflexivity|exact (tail_ops_static lay _ _)].
  - (* UNSUBSCRIBE *)
    cbn [o_ops]. apply static_ops_legal; [|exact I].
    apply forallb_app_true; [reflexivity|]. apply forallb_app_true.
    + destruct (remove_name n (recover_subs m)); [|reflexivity].
      destruct (exists_ m (PCtl [] CSubs)); reflexivity.
    + apply forallb_app_true; [reflexivity|exact (tail_ops_static lay _ _)].
Qed.

(* ================================================= histories of commands *)
Lemma legal_ops_b_app lay l1 : forall m l2,
  legal_ops_b lay m l1 = true ->
  (snd (apply_ops lay m l1) = true -> legal_ops_b lay (fst (apply_ops lay m l1)) l2 = true) ->
  legal_ops_b lay m (l1 ++ l2) = true.
Proof.
  induction l1 as [|o l1 IH]; intros m l2 H K; cbn [app]; [exact (K eq_refl)|].
  cbn [legal_ops_b apply_ops] in *. apply andb_true_iff in H as [H1 H2]. rewrite H1. cbn [andb].
  destruct (apply_op lay m o) as [m1|]; [|reflexivity]. exact (IH m1 l2 H2 K).
Qed.

Lemma apply_ops_inv lay m l : Inv m -> legal_ops_b lay m l = true -> Inv (fst (apply_ops lay m l)).
Proof. intros I H. exact (run_inv _ _ _ _ I (legal_ops_b_applied _ _ _ H)). Qed.

(* every operation of every history is legal where it is applied *)
Theorem hist_ops_legal lay h : forall m sel,
  Inv m -> legal_ops_b lay m (hist_ops lay m sel h) = true.
Proof.
  induction h as [|c r IH]; intros m sel I; [reflexivity|]. cbn [hist_ops].
  pose proof (run_cmd_legal lay m sel c I) as Hc.
  apply legal_ops_b_app; [exact Hc|]. intros _. apply IH. exact (apply_ops_inv _ _ _ I Hc).
Qed.

(* ... hence, for every history and every kill point: *)
Theorem hist_crash_inv lay m sel h k :
  Inv m -> Inv (after_crash lay m (hist_ops lay m sel h) k).
Proof. intro I. exact (crash_inv _ _ _ _ I (hist_ops_legal lay h m sel I)). Qed.

Theorem hist_crash_serves lay m sel h k f v uid key fl c :
  Inv m -> serves m f v uid key fl c -> ~ touched (crash k (hist_ops lay m sel h)) key ->
  serves (after_crash lay m (hist_ops lay m sel h) k)
         (moved_names lay (executed lay m (hist_ops lay m sel h) k) f) v uid key fl c.
Proof. intros I S T. exact (crash_serves _ _ _ _ _ _ _ _ _ _ (hist_ops_legal lay h m sel I) S T). Qed.

(* ===================== completed commands: what an acknowledgement means *)
Lemma apply_ops_split lay l1 : forall m l2 m',
  apply_ops lay m (l1 ++ l2) = (m', true) ->
  exists m1, apply_ops lay m l1 = (m1, true) /\ apply_ops lay m1 l2 = (m', true).
Proof.
  induction l1 as [|o l1 IH]; intros m l2 m' H; cbn [app apply_ops] in *.
  - exists m. split; [reflexivity|exact H].
  - destruct (apply_op lay m o) as [m0|]; [|discriminate]. exact (IH m0 l2 m' H).
Qed.

Lemma scratch_ops_view lay l : forallb scratch l = true -> forall m m1,
  apply_ops lay m l = (m1, true) -> same_view m m1.
Proof.
  induction l as [|o l IH]; intros Hs m m1 A; cbn [apply_ops] in A.
  - injection A as <-. apply same_view_refl.
  - cbn [forallb] in Hs. apply andb_true_iff in Hs as [Ho Hl].
    destruct (apply_op lay m o) as [m0|] eqn:E; [|discriminate].
    exact (same_view_trans _ _ _ (scratch_view _ _ _ _ E Ho) (IH Hl _ _ A)).
Qed.

Lemma locked_rewrite_view lay m f tmp u' m1 :
  apply_ops lay m (locked_rewrite f tmp u') = (m1, true) -> view_uidl m m1 f u'.
Proof.
  unfold locked_rewrite, rewrite_ops, lock_op, unlock_op. cbn [app apply_ops].
  destruct (apply_op lay m (OCreat (PCtl f CUidlLock))) as [a1|] eqn:A1; [|discriminate].
  destruct (apply_op lay a1 (OCreat (PTmp f tmp))) as [a2|] eqn:A2; [|discriminate].
  destruct (apply_op lay a2 (OWrite (PTmp f tmp) (Text (print_uidl u')))) as [a3|] eqn:A3; [|discriminate].
  destruct (apply_op lay a3 (ORename (PTmp f tmp) (PCtl f CUidl))) as [a4|] eqn:A4; [|discriminate].
  destruct (apply_op lay a4 (OUnlink (PCtl f CUidlLock))) as [a5|] eqn:A5; [|discriminate].
  intro H. injection H as <-. intros q Hq.
  assert (V3 : same_view m a3).
  { apply (same_view_trans _ a1); [exact (scratch_view _ _ _ _ A1 eq_refl)|].
    apply (same_view_trans _ a2); [exact (scratch_view _ _ _ _ A2 eq_refl)|].
    exact (scratch_view _ _ _ _ A3 eq_refl). }
  assert (T3 : lookup a3 (PTmp f tmp) = Some (File (Text (print_uidl u')))).
  { cbn [apply_op] in A3. destruct (lookup a2 (PTmp f tmp)) as [[|c0]|] eqn:E; try discriminate.
    injection A3 as <-. rewrite (lookup_replace _ _ _ _ _ E), path_eqb_refl. reflexivity. }
  rewrite (scratch_view _ _ _ _ A5 eq_refl q Hq).
  destruct (apply_rename _ _ _ _ _ A4) as [c [Hc Hl]]. rewrite T3 in Hc. injection Hc as <-.
  rewrite Hl. destruct (path_eqb (PCtl f CUidl) q); [reflexivity|].
  destruct (path_eqb (PTmp f tmp) q) eqn:E.
  - apply path_eqb_eq in E. subst q. discriminate Hq.
  - exact (V3 q Hq).
Qed.

Lemma add_ops_view lay m f s key info cid m1 :
  apply_ops lay m (add_ops f s key info cid) = (m1, true) ->
  view_add m m1 (PMsg f s key info) (File (Opaque cid)).
Proof.
  unfold add_ops. cbn [apply_ops].
  destruct (apply_op lay m (OCreat (PMsg f STmp key []))) as [a1|] eqn:A1; [|discriminate].
  destruct (apply_op lay a1 (OWrite (PMsg f STmp key []) (Opaque cid))) as [a2|] eqn:A2; [|discriminate].
  destruct (apply_op lay a2 (OUtime (PMsg f STmp key []))) as [a3|] eqn:A3; [|discriminate].
  destruct (apply_op lay a3 (OLink (PMsg f STmp key []) (PMsg f s key info))) as [a4|] eqn:A4; [|discriminate].
  destruct (apply_op lay a4 (OUnlink (PMsg f STmp key []))) as [a5|] eqn:A5; [|discriminate].
  intro H. injection H as <-. intros q Hq.
  assert (V3 : same_view m a3).
  { apply (same_view_trans _ a1); [exact (scratch_view _ _ _ _ A1 eq_refl)|].
    apply (same_view_trans _ a2); [exact (scratch_view _ _ _ _ A2 eq_refl)|].
    exact (scratch_view _ _ _ _ A3 eq_refl). }
  assert (F3 : lookup a3 (PMsg f STmp key []) = Some (File (Opaque cid))).
  { cbn [apply_op] in A3. destruct (exists_ a2 (PMsg f STmp key [])); [|discriminate].
    injection A3 as <-.
    cbn [apply_op] in A2. destruct (lookup a1 (PMsg f STmp key [])) as [[|c0]|] eqn:E; try discriminate.
    injection A2 as <-. rewrite (lookup_replace _ _ _ _ _ E), path_eqb_refl. reflexivity. }
  rewrite (scratch_view _ _ _ _ A5 eq_refl q Hq).
  destruct (apply_link _ _ _ _ _ A4) as [c [Hc [_ Hl]]]. rewrite F3 in Hc. injection Hc as <-.
  rewrite Hl. destruct (path_eqb (PMsg f s key info) q); [reflexivity|exact (V3 q Hq)].
Qed.

(* delivered files other than the new one stay where they are *)
Lemma view_add_file_at m m1 p n g k i c :
  view_add m m1 p n -> file_at m g k i c -> (forall s, p <> PMsg g s k i) -> file_at m1 g k i c.
Proof.
  intros V [s [Hs Hl]] Hne. exists s. split; [exact Hs|].
  rewrite (V _ (live_not_junk g s k i Hs)).
  destruct (path_eqb p (PMsg g s k i)) eqn:E; [|exact Hl].
  apply path_eqb_eq in E. exfalso. exact (Hne s E).
Qed.

Lemma view_uidl_file_at m m1 f u g k i c :
  view_uidl m m1 f u -> file_at m g k i c -> file_at m1 g k i c.
Proof.
  intros V [s [Hs Hl]]. exists s. split; [exact Hs|].
  rewrite (V _ (live_not_junk g s k i Hs)). exact Hl.
Qed.

Lemma view_add_new_file m m1 f s k i c : live s = true ->
  view_add m m1 (PMsg f s k i) (File (Opaque c)) -> file_at m1 f k i c.
Proof. intros Hs V. exists s. split; [exact Hs|].
  rewrite (V _ (live_not_junk f s k i Hs)), path_eqb_refl. reflexivity. Qed.

Lemma with_rec_recorded_new u fields key info : uids_ok u -> wf_key key = true ->
  recorded (with_rec u fields (key ++ 58 :: info)) (u_next u) key.
Proof.
  intros Hok Hk. eexists. split; [rewrite (with_rec_recs _ _ _ Hok); apply in_or_app; right;
    left; reflexivity|]. split; [reflexivity|]. unfold r_key. cbn [r_fname].
  exact (wf_key_before_colon _ _ Hk).
Qed.

Lemma with_rec_recorded_old u fields fn uid k : uids_ok u ->
  recorded u uid k -> recorded (with_rec u fields fn) uid k.
Proof.
  intros Hok [r [Hr [Hu Hk]]]. exists r. split; [|split; assumption].
  rewrite (with_rec_recs _ _ _ Hok). apply in_or_app. left. exact Hr.
Qed.

(* what has been delivered so far: recorded, and the file is there *)
Definition delivered (m : fs) (f : fname) (u : uidl) (d : N * bytes * bytes * N) : Prop :=
  let '(uid, k, i, c) := d in recorded u uid k /\ file_at m f k i c.

Lemma delivered_serves m f u uid k i c :
  uidl_at m f u -> delivered m f u (uid, k, i, c) ->
  serves m f (u_val u) uid k (flags_of_info i) c.
Proof. intros Hu [Hr Hf]. exists u, i. repeat split; assumption. Qed.

(* ---- APPEND: every message is served under next, next+1, ... *)
Fixpoint append_delivers (u : uidl) (msgs : list amsg) : list (N * bytes * bytes * N) :=
  match msgs with
  | [] => []
  | a :: r => (u_next u, a_key a, info_of_letters (a_flags a), a_cid a)
              :: append_delivers (add_rec u a) r
  end.

Lemma append_done lay f s : live s = true -> forall msgs m u m' done,
  apply_ops lay m (append_ops f s u msgs) = (m', true) ->
  wf_uidl u = true -> uids_ok u -> uidl_at m f u ->
  (forall a, In a msgs -> wf_amsg a = true) -> NoDup (map a_key msgs) ->
  (forall d, In d done -> delivered m f u d) ->
  (forall d a, In d done -> In a msgs -> snd (fst (fst d)) <> a_key a) ->
  exists u', uidl_at m' f u' /\ u_val u' = u_val u
             /\ forall d, In d (done ++ append_delivers u msgs) -> delivered m' f u' d.
Proof.
  intro Hs. induction msgs as [|a r IH]; intros m u m' done A Hw Hok Hu Hm Hnd Hd Hdk.
  - cbn in A. injection A as <-. exists u. split; [exact Hu|]. split; [reflexivity|].
    intros d Hin. rewrite app_nil_r in Hin. exact (Hd d Hin).
  - cbn [append_ops] in A. inversion Hnd as [|? ? Hnot Hnd']; subst.
    destruct (apply_ops_split _ _ _ _ _ A) as [m1 [A1 A']].
    destruct (apply_ops_split _ _ _ _ _ A') as [m2 [A2 A3]].
    pose proof (add_ops_view _ _ _ _ _ _ _ _ A1) as V1.
    pose proof (locked_rewrite_view _ _ _ _ _ _ A2) as V2.
    assert (Hwa : wf_amsg a = true) by (apply Hm; left; reflexivity).
    unfold wf_amsg in Hwa. apply andb_true_iff in Hwa as [Hwa Hwt].
    apply andb_true_iff in Hwa as [Hwk Hwe].
    fold (add_rec u a) in A2, A3, V2.
    assert (Hw' : wf_uidl (add_rec u a) = true).
    { apply with_rec_wf; try assumption; [|reflexivity|exact (info_of_letters_chars _)].
      cbn [forallb]. unfold wf_field. cbn [fst snd]. rewrite Hwe, Hwt. reflexivity. }
    set (d0 := (u_next u, a_key a, info_of_letters (a_flags a), a_cid a)).
    destruct (IH m2 (add_rec u a) m' (done ++ [d0]) A3 Hw' (with_rec_uids_ok _ _ _ Hok)
                (view_uidl_at_new _ _ _ _ V2 Hw') (fun b Hb => Hm b (or_intror Hb)) Hnd')
      as [u' [Hu' [Hv Hall]]].
    + intros d Hin. apply in_app_or in Hin as [Hin|[<-|[]]].
      * destruct d as [[[uid k] i] c]. destruct (Hd _ Hin) as [Hr Hf]. split.
        -- exact (with_rec_recorded_old _ _ _ _ _ Hok Hr).
        -- apply (view_uidl_file_at _ _ _ _ _ _ _ _ V2).
           apply (view_add_file_at _ _ _ _ _ _ _ _ V1 Hf). intros s0 E. inversion E; subst.
           exact (Hdk _ a Hin (or_introl eq_refl) eq_refl).
      * split; [exact (with_rec_recorded_new _ _ _ _ Hok Hwk)|].
        apply (view_uidl_file_at _ _ _ _ _ _ _ _ V2). exact (view_add_new_file _ _ _ _ _ _ _ Hs V1).
    + intros d b Hin Hb. apply in_app_or in Hin as [Hin|[<-|[]]].
      * exact (Hdk d b Hin (or_intror Hb)).
      * unfold d0. cbn [fst snd]. intro E. apply Hnot. rewrite E. apply in_map. exact Hb.
    + exists u'. split; [exact Hu'|]. split; [rewrite Hv; reflexivity|].
      intros d Hin. apply Hall. cbn [append_delivers] in Hin. rewrite <- app_assoc. exact Hin.
Qed.

(* an acknowledged APPEND serves every one of its messages: the j-th under
   uid next+j, with the requested system flags and its content *)
Theorem append_acked_served lay f s msgs m u m' :
  live s = true -> Inv m -> uidl_at m f u ->
  apply_ops lay m (append_ops f s u msgs) = (m', true) ->
  (forall a, In a msgs -> wf_amsg a = true) -> NoDup (map a_key msgs) ->
  forall d, In d (append_delivers u msgs) ->
  let '(uid, k, i, c) := d in serves m' f (u_val u) uid k (flags_of_info i) c.
Proof.
  intros Hs I Hu A Hm Hnd d Hin. destruct (inv_uidl_text _ _ _ I Hu) as [_ [Hw Hok]].
  destruct (append_done lay f s Hs msgs m u m' [] A Hw Hok Hu Hm Hnd) as [u' [Hu' [Hv Hall]]];
    [intros ? []|intros ? ? []|].
  destruct d as [[[uid k] i] c]. rewrite <- Hv.
  exact (delivered_serves _ _ _ _ _ _ _ Hu' (Hall _ Hin)).
Qed.

Lemma append_delivers_nth msgs : forall u j a, nth_error msgs j = Some a ->
  nth_error (append_delivers u msgs) j
  = Some (u_next u + N.of_nat j, a_key a, info_of_letters (a_flags a), a_cid a).
Proof.
  induction msgs as [|b r IH]; intros u [|j] a H; try discriminate H; cbn [nth_error] in H.
  - injection H as ->. cbn. rewrite N.add_0_r. reflexivity.
  - cbn [append_delivers nth_error]. rewrite (IH (add_rec u b) j a H).
    assert (En : u_next (add_rec u b) = u_next u + 1) by reflexivity. rewrite En.
    rewrite Nat2N.inj_succ.
    replace (u_next u + 1 + N.of_nat j) with (u_next u + N.succ (N.of_nat j)) by lia. reflexivity.
Qed.

(* ---- COPY: every copied message is served in the destination *)
Fixpoint copy_delivers (us : uidl) (fls : list mfile) (ug : uidl) (uids : list N)
         (names : list (bytes * bytes)) : list (N * bytes * bytes * N) :=
  match uids with
  | [] => []
  | uid :: r =>
      match locate us fls uid, names with
      | Some (rec, x), (key, tmp) :: names' =>
          (u_next ug, key, m_info x, m_cid x)
          :: copy_delivers us fls (with_rec ug (r_fields rec) (key ++ 58 :: m_info x)) r names'
      | Some _, [] => []
      | None, _ => copy_delivers us fls ug r names
      end
  end.

Lemma copy_done lay g s us fls : live s = true -> wf_uidl us = true -> files_ok fls ->
  forall uids names m ug m' done,
  apply_ops lay m (copy_ops g s us fls ug uids names) = (m', true) ->
  wf_uidl ug = true -> uids_ok ug -> uidl_at m g ug ->
  (forall kn, In kn names -> wf_key (fst kn) = true) -> NoDup (map fst names) ->
  (forall d, In d done -> delivered m g ug d) ->
  (forall d kn, In d done -> In kn names -> snd (fst (fst d)) <> fst kn) ->
  exists ug', uidl_at m' g ug' /\ u_val ug' = u_val ug
              /\ forall d, In d (done ++ copy_delivers us fls ug uids names) -> delivered m' g ug' d.
Proof.
  intros Hs Hwus Hfls. induction uids as [|uid r IH]; intros names m ug m' done A Hw Hok Hu Hn Hnd Hd Hdk.
  - cbn in A. injection A as <-. exists ug. split; [exact Hu|]. split; [reflexivity|].
    intros d Hin. cbn [copy_delivers] in Hin. rewrite app_nil_r in Hin. exact (Hd d Hin).
  - cbn [copy_ops copy_delivers] in *.
    destruct (locate us fls uid) as [[rec x]|] eqn:El;
      [|exact (IH names m ug m' done A Hw Hok Hu Hn Hnd Hd Hdk)].
    destruct names as [|[key tmp] names'].
    { cbn in A. injection A as <-. exists ug. split; [exact Hu|]. split; [reflexivity|].
      intros d Hin. rewrite app_nil_r in Hin. exact (Hd d Hin). }
    destruct (locate_spec _ _ _ _ _ El) as [Hrec [_ [Hx _]]].
    destruct (Hfls x Hx) as [_ [_ Hwi]].
    destruct (wf_rec_fields _ (wf_uidl_rec _ _ Hwus Hrec)) as [Hf [Hsf _]].
    pose proof (Hn (key, tmp) (or_introl eq_refl)) as Hwk. cbn [fst] in Hwk.
    cbn [map fst] in Hnd. apply NoDup_cons_iff in Hnd as [Hnot Hnd'].
    destruct (apply_ops_split _ _ _ _ _ A) as [m1 [A1 A']].
    destruct (apply_ops_split _ _ _ _ _ A') as [m2 [A2 A3]].
    pose proof (add_ops_view _ _ _ _ _ _ _ _ A1) as V1.
    pose proof (locked_rewrite_view _ _ _ _ _ _ A2) as V2.
    set (ug1 := with_rec ug (r_fields rec) (key ++ 58 :: m_info x)) in *.
    assert (Hw' : wf_uidl ug1 = true) by (apply with_rec_wf; assumption).
    set (d0 := (u_next ug, key, m_info x, m_cid x)).
    destruct (IH names' m2 ug1 m' (done ++ [d0]) A3 Hw' (with_rec_uids_ok _ _ _ Hok)
                (view_uidl_at_new _ _ _ _ V2 Hw') (fun kn Hkn => Hn kn (or_intror Hkn)) Hnd')
      as [u' [Hu' [Hv Hall]]].
    + intros d Hin. apply in_app_or in Hin as [Hin|[<-|[]]].
      * destruct d as [[[uid0 k] i] c]. destruct (Hd _ Hin) as [Hr Hfa]. split.
        -- exact (with_rec_recorded_old _ _ _ _ _ Hok Hr).
        -- apply (view_uidl_file_at _ _ _ _ _ _ _ _ V2).
           apply (view_add_file_at _ _ _ _ _ _ _ _ V1 Hfa). intros s0 E. injection E as _ Ek _.
           apply (Hdk _ (key, tmp) Hin (or_introl eq_refl)). cbn [fst snd]. symmetry. exact Ek.
      * split; [exact (with_rec_recorded_new _ _ _ _ Hok Hwk)|].
        apply (view_uidl_file_at _ _ _ _ _ _ _ _ V2). exact (view_add_new_file _ _ _ _ _ _ _ Hs V1).
    + intros d kn Hin Hkn. apply in_app_or in Hin as [Hin|[<-|[]]].
      * exact (Hdk d kn Hin (or_intror Hkn)).
      * unfold d0. cbn [fst snd]. intro E. apply Hnot. rewrite E. apply in_map. exact Hkn.
    + exists u'. split; [exact Hu'|]. split; [rewrite Hv; reflexivity|].
      intros d Hin. apply Hall. rewrite <- app_assoc. exact Hin.
Qed.

(* ---- MOVE: every moved message is served in the destination *)
Fixpoint move_delivers (us : uidl) (fls : list mfile) (ug : uidl) (uids : list N)
         (tmps : list bytes) : list (N * bytes * bytes * N) :=
  match uids with
  | [] => []
  | uid :: r =>
      match locate us fls uid, tmps with
      | Some (rec, x), _ :: _ :: tmps' =>
          (u_next ug, m_key x, m_info x, m_cid x)
          :: move_delivers (without_rec us uid) fls
               (with_rec ug (r_fields rec) (fname_of_file x)) r tmps'
      | Some _, _ => []
      | None, _ => move_delivers us fls ug r tmps
      end
  end.

Lemma r_key_fname_of_file x : wf_key (m_key x) = true -> before_colon (fname_of_file x) = m_key x.
Proof.
  intro Hk. unfold fname_of_file. destruct (m_info x) as [|c i].
  - assert (H : forall c, In c (m_key x) -> c <> 58).
    { intros c Hc. exact (proj1 (proj2 (value_char_props c (forallb_In _ _ Hk c Hc)))). }
    clear Hk. induction (m_key x) as [|d k IH]; [reflexivity|]. cbn [before_colon].
    destruct (N.eqb_spec d 58) as [E|_]; [exfalso; exact (H d (or_introl eq_refl) E)|].
    rewrite IH; [reflexivity|]. intros c Hc. apply H. right. exact Hc.
  - exact (wf_key_before_colon _ _ Hk).
Qed.

Lemma locate_without us fls uid uid' rec x : uid' <> uid ->
  locate (without_rec us uid) fls uid' = Some (rec, x) -> locate us fls uid' = Some (rec, x).
Proof.
  intro Hne. unfold locate, find_rec, without_rec. cbn [u_recs].
  induction (u_recs us) as [|r l IH]; cbn [filter find]; [intro H; exact H|].
  destruct (N.eqb_spec (r_uid r) uid) as [E|E]; cbn [negb find].
  - destruct (N.eqb_spec (r_uid r) uid') as [E2|_]; [congruence|exact IH].
  - destruct (r_uid r =? uid'); [intro H; exact H|exact IH].
Qed.

Lemma move_done lay f g s fls : live s = true -> f <> g -> files_ok fls ->
  forall uids tmps m us ug m' done,
  apply_ops lay m (move_ops f g s us fls ug uids tmps) = (m', true) ->
  wf_uidl us = true -> uids_ok us -> NoDup (map r_key (u_recs us)) -> NoDup uids ->
  wf_uidl ug = true -> uids_ok ug -> uidl_at m g ug ->
  (forall uid rec x, In uid uids -> locate us fls uid = Some (rec, x) ->
     lookup m (PMsg f (m_sub x) (m_key x) (m_info x)) = Some (File (Opaque (m_cid x)))) ->
  (forall d, In d done -> delivered m g ug d) ->
  (forall d uid rec x, In d done -> In uid uids -> locate us fls uid = Some (rec, x) ->
     snd (fst (fst d)) <> m_key x) ->
  exists ug', uidl_at m' g ug' /\ u_val ug' = u_val ug
              /\ forall d, In d (done ++ move_delivers us fls ug uids tmps) -> delivered m' g ug' d.
Proof.
  intros Hs Hfg Hfls. induction uids as [|uid r IH];
    intros tmps m us ug m' done A Hws Hoks Hkeys Hndu Hwg Hokg Hu Hsrc Hd Hdk.
  - cbn in A. injection A as <-. exists ug. split; [exact Hu|]. split; [reflexivity|].
    intros d Hin. cbn [move_delivers] in Hin. rewrite app_nil_r in Hin. exact (Hd d Hin).
  - apply NoDup_cons_iff in Hndu as [Hnotu Hndu'].
    cbn [move_ops move_delivers] in *.
    destruct (locate us fls uid) as [[rec x]|] eqn:El.
    2:{ apply (IH tmps m us ug m' done A); try assumption.
        - intros uid0 rec0 x0 Hin. apply Hsrc. right. exact Hin.
        - intros d uid0 rec0 x0 Hin Hu0. apply (Hdk d uid0 rec0 x0 Hin). right. exact Hu0. }
    destruct tmps as [|tmp1 [|tmp2 tmps']];
      try (cbn in A; injection A as <-; exists ug; split; [exact Hu|]; split; [reflexivity|];
           intros d Hin; rewrite app_nil_r in Hin; exact (Hd d Hin)).
    destruct (locate_spec _ _ _ _ _ El) as [Hrec [Huid [Hx Hkx]]].
    destruct (Hfls x Hx) as [Hlx [Hwk Hwi]].
    destruct (wf_rec_fields _ (wf_uidl_rec _ _ Hws Hrec)) as [Hf [Hsf _]].
    cbn [app apply_ops] in A.
    destruct (apply_op lay m (ORename (PMsg f (m_sub x) (m_key x) (m_info x))
                                      (PMsg g s (m_key x) (m_info x)))) as [m1|] eqn:A1;
      [|discriminate].
    destruct (apply_rename _ _ _ _ _ A1) as [c0 [Hc0 Hl1]].
    rewrite (Hsrc uid rec x (or_introl eq_refl) El) in Hc0. injection Hc0 as <-.
    destruct (apply_ops_split _ _ _ _ _ A) as [m2 [A2 A']].
    destruct (apply_ops_split _ _ _ _ _ A') as [m3 [A3 A4]].
    pose proof (locked_rewrite_view _ _ _ _ _ _ A2) as V2.
    pose proof (locked_rewrite_view _ _ _ _ _ _ A3) as V3.
    set (us1 := without_rec us uid) in *.
    set (ug1 := with_rec ug (r_fields rec) (fname_of_file x)) in *.
    assert (Hwg1 : wf_uidl ug1 = true).
    { apply with_rec_wf_fn; try assumption. exact (wf_fname_of_file _ Hwk Hwi). }
    assert (Hkeys1 : NoDup (map r_key (u_recs us1))).
    { unfold us1, without_rec. cbn [u_recs]. exact (nodup_map_filter _ _ _ Hkeys). }
    (* files of the remaining uids are other files *)
    assert (Hother : forall uid0 rec0 x0, In uid0 r -> locate us fls uid0 = Some (rec0, x0) ->
                     m_key x0 <> m_key x).
    { intros uid0 rec0 x0 Hin El0 E.
      destruct (locate_spec _ _ _ _ _ El0) as [Hrec0 [Huid0 [_ Hkx0]]].
      assert (rec0 = rec).
      { assert (Ek : r_key rec0 = r_key rec) by congruence.
        clear - Hkeys Hrec Hrec0 Ek. revert Hkeys Hrec Hrec0. generalize (u_recs us).
        induction l as [|y l IH]; cbn [map In]; intros Hnd H1 H2; [contradiction|].
        inversion Hnd as [|? ? Hy Hl]; subst.
        destruct H1 as [->|H1], H2 as [->|H2].
        - reflexivity.
        - exfalso. apply Hy. rewrite <- Ek. apply in_map. exact H2.
        - exfalso. apply Hy. rewrite Ek. apply in_map. exact H1.
        - exact (IH Hl H1 H2). }
      subst rec0. apply Hnotu. rewrite <- Huid, Huid0. exact Hin. }
    set (d0 := (u_next ug, m_key x, m_info x, m_cid x)).
    destruct (IH tmps' m3 us1 ug1 m' (done ++ [d0]) A4 (without_rec_wf _ _ Hws)
                (without_rec_uids_ok _ _ Hoks) Hkeys1 Hndu' Hwg1 (with_rec_uids_ok _ _ _ Hokg))
      as [u' [Hu' [Hv Hall]]].
    + apply (view_uidl_at_new _ _ _ _ V3 Hwg1).
    + intros uid0 rec0 x0 Hin El0.
      assert (Hne : uid0 <> uid) by (intro E; subst; contradiction).
      pose proof (locate_without _ _ _ _ _ _ Hne El0) as El0'.
      pose proof (Hother _ _ _ Hin El0') as Hk0.
      destruct (Hfls x0 (proj1 (proj2 (proj2 (locate_spec _ _ _ _ _ El0'))))) as [Hl0 _].
      rewrite (V3 _ (live_not_junk f _ _ _ Hl0)), (V2 _ (live_not_junk f _ _ _ Hl0)).
      destruct (path_eqb (PCtl g CUidl) _) eqn:E1; [apply path_eqb_eq in E1; discriminate E1|].
      destruct (path_eqb (PCtl f CUidl) _) eqn:E2; [apply path_eqb_eq in E2; discriminate E2|].
      rewrite Hl1.
      destruct (path_eqb (PMsg g s (m_key x) (m_info x)) _) eqn:E3.
      { apply path_eqb_eq in E3. inversion E3; subst. exfalso. exact (Hfg eq_refl). }
      destruct (path_eqb (PMsg f (m_sub x) (m_key x) (m_info x)) _) eqn:E4.
      { apply path_eqb_eq in E4. inversion E4. congruence. }
      apply (Hsrc uid0 rec0 x0 (or_intror Hin) El0').
    + intros d Hin. apply in_app_or in Hin as [Hin|[<-|[]]].
      * destruct d as [[[uid0 k] i] c]. destruct (Hd _ Hin) as [Hr [s0 [Hs0 Hl0]]]. split.
        -- exact (with_rec_recorded_old _ _ _ _ _ Hokg Hr).
        -- exists s0. split; [exact Hs0|].
           rewrite (V3 _ (live_not_junk g _ _ _ Hs0)), (V2 _ (live_not_junk g _ _ _ Hs0)).
           destruct (path_eqb (PCtl g CUidl) _) eqn:E1; [apply path_eqb_eq in E1; discriminate E1|].
           destruct (path_eqb (PCtl f CUidl) _) eqn:E2; [apply path_eqb_eq in E2; discriminate E2|].
           rewrite Hl1.
           destruct (path_eqb (PMsg g s (m_key x) (m_info x)) _) eqn:E3.
           { apply path_eqb_eq in E3. injection E3 as _ Ek _. exfalso.
             apply (Hdk _ uid rec x Hin (or_introl eq_refl) El). cbn [fst snd]. symmetry. exact Ek. }
           destruct (path_eqb (PMsg f (m_sub x) (m_key x) (m_info x)) _) eqn:E4; [|exact Hl0].
           apply path_eqb_eq in E4. inversion E4; subst. exfalso. exact (Hfg eq_refl).
      * split.
        -- exists {| r_uid := u_next ug; r_fields := r_fields rec; r_fname := fname_of_file x |}.
           split; [unfold ug1; rewrite (with_rec_recs _ _ _ Hokg); apply in_or_app; right; left;
                   reflexivity|].
           split; [reflexivity|]. unfold r_key. cbn [r_fname]. exact (r_key_fname_of_file _ Hwk).
        -- exists s. split; [exact Hs|].
           rewrite (V3 _ (live_not_junk g _ _ _ Hs)), (V2 _ (live_not_junk g _ _ _ Hs)).
           destruct (path_eqb (PCtl g CUidl) _) eqn:E1; [apply path_eqb_eq in E1; discriminate E1|].
           destruct (path_eqb (PCtl f CUidl) _) eqn:E2; [apply path_eqb_eq in E2; discriminate E2|].
           rewrite Hl1, path_eqb_refl. reflexivity.
    + intros d uid0 rec0 x0 Hin Hu0 El0.
      assert (Hne : uid0 <> uid) by (intro E; subst; contradiction).
      pose proof (locate_without _ _ _ _ _ _ Hne El0) as El0'.
      apply in_app_or in Hin as [Hin|[<-|[]]].
      * exact (Hdk d uid0 rec0 x0 Hin (or_intror Hu0) El0').
      * unfold d0. cbn [fst snd]. intro E. exact (Hother _ _ _ Hu0 El0' (eq_sym E)).
    + exists u'. split; [exact Hu'|]. split; [rewrite Hv; reflexivity|].
      intros d Hin. apply Hall. rewrite <- app_assoc. exact Hin.
Qed.

(* ---- STORE: every addressed message carries the new flags *)
Lemma locate_keys_distinct u fls uid1 uid2 rec1 x1 rec2 x2 :
  NoDup (map r_key (u_recs u)) -> uid1 <> uid2 ->
  locate u fls uid1 = Some (rec1, x1) -> locate u fls uid2 = Some (rec2, x2) ->
  m_key x1 <> m_key x2.
Proof.
  intros Hk Hne E1 E2 E.
  destruct (locate_spec _ _ _ _ _ E1) as [Hr1 [Hu1 [_ Hk1]]].
  destruct (locate_spec _ _ _ _ _ E2) as [Hr2 [Hu2 [_ Hk2]]].
  assert (rec1 = rec2).
  { assert (Ek : r_key rec1 = r_key rec2) by congruence.
    clear - Hk Hr1 Hr2 Ek. revert Hk Hr1 Hr2. generalize (u_recs u).
    induction l as [|y l IH]; cbn [map In]; intros Hnd H1 H2; [contradiction|].
    inversion Hnd as [|? ? Hy Hl]; subst.
    destruct H1 as [->|H1], H2 as [->|H2].
    - reflexivity.
    - exfalso. apply Hy. rewrite Ek. apply in_map. exact H2.
    - exfalso. apply Hy. rewrite <- Ek. apply in_map. exact H1.
    - exact (IH Hl H1 H2). }
  subst. congruence.
Qed.

Lemma store_done lay f u fls mode letters : files_ok fls -> NoDup (map r_key (u_recs u)) ->
  forall uids m m', NoDup uids ->
  apply_ops lay m (store_ops f u fls mode letters uids) = (m', true) ->
  (forall uid rec x, In uid uids -> locate u fls uid = Some (rec, x) ->
     lookup m (PMsg f (m_sub x) (m_key x) (m_info x)) = Some (File (Opaque (m_cid x)))) ->
  lookup m' (PCtl f CUidl) = lookup m (PCtl f CUidl)
  /\ (forall uid rec x, In uid uids -> locate u fls uid = Some (rec, x) ->
        lookup m' (PMsg f (m_sub x) (m_key x) (new_info mode letters (m_info x)))
        = Some (File (Opaque (m_cid x))))
  /\ (forall g s k i, live s = true ->
        (forall uid rec x, In uid uids -> locate u fls uid = Some (rec, x) -> m_key x <> k) ->
        lookup m' (PMsg g s k i) = lookup m (PMsg g s k i)).
Proof.
  intros Hfls Hkeys. induction uids as [|uid r IH]; intros m m' Hnd A Hsrc.
  - cbn in A. injection A as <-. split; [reflexivity|]. split; [intros ? ? ? []|reflexivity].
  - apply NoDup_cons_iff in Hnd as [Hnot Hnd'].
    unfold store_ops in A. cbn [flat_map] in A. fold (store_ops f u fls mode letters r) in A.
    destruct (locate u fls uid) as [[rec x]|] eqn:El.
    2:{ cbn [app] in A. destruct (IH m m' Hnd' A (fun uid0 rec0 x0 Hin => Hsrc uid0 rec0 x0 (or_intror Hin)))
          as [H1 [H2 H3]].
        split; [exact H1|]. split.
        - intros uid0 rec0 x0 [<-|Hin] El0; [congruence|exact (H2 _ _ _ Hin El0)].
        - intros g s k i Hs Hk. apply H3; [exact Hs|]. intros uid0 rec0 x0 Hin. apply Hk. right. exact Hin. }
    destruct (bytes_eqb (new_info mode letters (m_info x)) (m_info x)) eqn:Eb.
    + (* flags unchanged: no operation *)
      apply bytes_eqb_eq in Eb. cbn [app] in A.
      destruct (IH m m' Hnd' A (fun uid0 rec0 x0 Hin => Hsrc uid0 rec0 x0 (or_intror Hin)))
        as [H1 [H2 H3]].
      split; [exact H1|]. split.
      * intros uid0 rec0 x0 [<-|Hin] El0; [|exact (H2 _ _ _ Hin El0)].
        rewrite El in El0. injection El0 as <- <-. rewrite Eb.
        destruct (Hfls x (proj1 (proj2 (proj2 (locate_spec _ _ _ _ _ El))))) as [Hlx _].
        rewrite H3; [exact (Hsrc uid rec x (or_introl eq_refl) El)|exact Hlx|].
        intros uid0 rec0 x0 Hin El0.
        eapply (locate_keys_distinct u fls uid0 uid); [exact Hkeys| |exact El0|exact El].
        intro E. subst. contradiction.
      * intros g s k i Hs Hk. apply H3; [exact Hs|]. intros uid0 rec0 x0 Hin. apply Hk. right. exact Hin.
    + cbn [app apply_ops] in A.
      set (i' := new_info mode letters (m_info x)) in *.
      destruct (apply_op lay m (ORename (PMsg f (m_sub x) (m_key x) (m_info x))
                                        (PMsg f (m_sub x) (m_key x) i'))) as [m1|] eqn:A1;
        [|discriminate].
      destruct (apply_rename _ _ _ _ _ A1) as [c0 [Hc0 Hl1]].
      rewrite (Hsrc uid rec x (or_introl eq_refl) El) in Hc0. injection Hc0 as <-.
      destruct (Hfls x (proj1 (proj2 (proj2 (locate_spec _ _ _ _ _ El))))) as [Hlx _].
      assert (Hother : forall uid0 rec0 x0, In uid0 r -> locate u fls uid0 = Some (rec0, x0) ->
                       m_key x0 <> m_key x).
      { intros uid0 rec0 x0 Hin El0.
        eapply (locate_keys_distinct u fls uid0 uid); [exact Hkeys| |exact El0|exact El].
        intro E. subst. contradiction. }
      destruct (IH m1 m' Hnd' A) as [H1 [H2 H3]].
      { intros uid0 rec0 x0 Hin El0. rewrite Hl1.
        destruct (path_eqb (PMsg f (m_sub x) (m_key x) i') _) eqn:E1.
        { apply path_eqb_eq in E1. injection E1 as _ Ek _. exfalso.
          exact (Hother _ _ _ Hin El0 (eq_sym Ek)). }
        destruct (path_eqb (PMsg f (m_sub x) (m_key x) (m_info x)) _) eqn:E2.
        { apply path_eqb_eq in E2. injection E2 as _ Ek _. exfalso.
          exact (Hother _ _ _ Hin El0 (eq_sym Ek)). }
        exact (Hsrc uid0 rec0 x0 (or_intror Hin) El0). }
      split; [rewrite H1, Hl1; reflexivity|]. split.
      * intros uid0 rec0 x0 [<-|Hin] El0; [|exact (H2 _ _ _ Hin El0)].
        rewrite El in El0. injection El0 as <- <-.
        rewrite H3; [rewrite Hl1, path_eqb_refl; reflexivity|exact Hlx|].
        intros uid0 rec0 x0 Hin El0. exact (Hother _ _ _ Hin El0).
      * intros g s k i Hs Hk. rewrite H3; [|exact Hs|].
        -- rewrite Hl1.
           destruct (path_eqb (PMsg f (m_sub x) (m_key x) i') (PMsg g s k i)) eqn:E1.
           { apply path_eqb_eq in E1. injection E1 as _ _ Ek _. exfalso.
             exact (Hk uid rec x (or_introl eq_refl) El Ek). }
           destruct (path_eqb (PMsg f (m_sub x) (m_key x) (m_info x)) (PMsg g s k i)) eqn:E2;
             [|reflexivity].
           apply path_eqb_eq in E2. injection E2 as _ _ Ek _. exfalso.
           exact (Hk uid rec x (or_introl eq_refl) El Ek).
        -- intros uid0 rec0 x0 Hin. apply Hk. right. exact Hin.
Qed.

(* ---- CREATE and SUBSCRIBE *)
Lemma create_done lay m f val guid tmp m' :
  apply_ops lay m ([OMkdir (PDir f); OMkdir (PSub f STmp); OMkdir (PSub f SNew);
                    OMkdir (PSub f SCur); OCreat (PCtl f CMdf)]
                   ++ locked_rewrite f tmp {| u_val := val; u_next := 1; u_guid := guid;
                                              u_recs := [] |}) = (m', true) ->
  wf_guid guid = true ->
  folder_ok m' f = true
  /\ uidl_at m' f {| u_val := val; u_next := 1; u_guid := guid; u_recs := [] |}.
Proof.
  intros A Hg. destruct (apply_ops_split _ _ _ _ _ A) as [m5 [A5 A6]].
  pose proof (locked_rewrite_view _ _ _ _ _ _ A6) as V.
  cbn [apply_ops] in A5.
  destruct (apply_op lay m (OMkdir (PDir f))) as [a1|] eqn:A1; [|discriminate].
  destruct (apply_op lay a1 (OMkdir (PSub f STmp))) as [a2|] eqn:A2; [|discriminate].
  destruct (apply_op lay a2 (OMkdir (PSub f SNew))) as [a3|] eqn:A3; [|discriminate].
  destruct (apply_op lay a3 (OMkdir (PSub f SCur))) as [a4|] eqn:A4; [|discriminate].
  destruct (apply_op lay a4 (OCreat (PCtl f CMdf))) as [a5|] eqn:A5'; [|discriminate].
  injection A5 as <-.
  assert (Hdir : forall a p a', apply_op lay a (OMkdir p) = Some a' -> lookup a' p = Some Dir).
  { intros a p a' H. cbn [apply_op] in H.
    destruct (is_dir_path p && negb (exists_ a p) && parent_ok a p); [|discriminate].
    injection H as <-. rewrite lookup_add, path_eqb_refl. reflexivity. }
  assert (E1 : lookup a5 (PDir f) = Some Dir).
  { rewrite (apply_op_frame _ _ _ _ (PDir f) A5') by (cbn; intro E; discriminate E).
    rewrite (apply_op_frame _ _ _ _ (PDir f) A4) by (cbn; intro E; discriminate E).
    rewrite (apply_op_frame _ _ _ _ (PDir f) A3) by (cbn; intro E; discriminate E).
    rewrite (apply_op_frame _ _ _ _ (PDir f) A2) by (cbn; intro E; discriminate E).
    exact (Hdir _ _ _ A1). }
  assert (E2 : lookup a5 (PSub f STmp) = Some Dir).
  { rewrite (apply_op_frame _ _ _ _ (PSub f STmp) A5') by (cbn; intro E; discriminate E).
    rewrite (apply_op_frame _ _ _ _ (PSub f STmp) A4) by (cbn; intro E; discriminate E).
    rewrite (apply_op_frame _ _ _ _ (PSub f STmp) A3) by (cbn; intro E; discriminate E).
    exact (Hdir _ _ _ A2). }
  assert (E3 : lookup a5 (PSub f SNew) = Some Dir).
  { rewrite (apply_op_frame _ _ _ _ (PSub f SNew) A5') by (cbn; intro E; discriminate E).
    rewrite (apply_op_frame _ _ _ _ (PSub f SNew) A4) by (cbn; intro E; discriminate E).
    exact (Hdir _ _ _ A3). }
  assert (E4 : lookup a5 (PSub f SCur) = Some Dir).
  { rewrite (apply_op_frame _ _ _ _ (PSub f SCur) A5') by (cbn; intro E; discriminate E).
    exact (Hdir _ _ _ A4). }
  split.
  - unfold folder_ok, exists_.
    rewrite (V (PDir f) eq_refl), (V (PSub f SNew) eq_refl), (V (PSub f SCur) eq_refl),
      (V (PSub f STmp) eq_refl). cbn [path_eqb]. rewrite E1, E2, E3, E4. reflexivity.
  - apply (view_uidl_at_new _ _ _ _ V). unfold wf_uidl. cbn [u_guid u_recs forallb nodup_uids].
    unfold wf_guid in Hg. destruct guid; [discriminate|]. rewrite Hg. reflexivity.
Qed.

Lemma subs_done lay m names tmp m' :
  apply_ops lay m ([OCreat (PCtl [] CSubsLock)] ++ subs_ops names tmp
                   ++ [OUnlink (PCtl [] CSubsLock)]) = (m', true) ->
  wf_subs names = true -> recover_subs m' = names.
Proof.
  unfold subs_ops. cbn [app apply_ops]. intros A Hw.
  destruct (apply_op lay m (OCreat (PCtl [] CSubsLock))) as [a1|] eqn:A1; [|discriminate].
  destruct (apply_op lay a1 (OCreat (PTmp [] tmp))) as [a2|] eqn:A2; [|discriminate].
  destruct (apply_op lay a2 (OWrite (PTmp [] tmp) (Text (print_subs names)))) as [a3|] eqn:A3;
    [|discriminate].
  destruct (apply_op lay a3 (ORename (PTmp [] tmp) (PCtl [] CSubs))) as [a4|] eqn:A4; [|discriminate].
  destruct (apply_op lay a4 (OUnlink (PCtl [] CSubsLock))) as [a5|] eqn:A5; [|discriminate].
  injection A as <-. unfold recover_subs.
  rewrite (apply_op_frame _ _ _ _ (PCtl [] CSubs) A5) by (cbn; intro E; discriminate E).
  destruct (apply_rename _ _ _ _ _ A4) as [c [Hc Hl]]. rewrite Hl, path_eqb_refl.
  cbn [apply_op] in A3. destruct (lookup a2 (PTmp [] tmp)) as [[|c0]|] eqn:E; try discriminate.
  injection A3 as <-. rewrite (lookup_replace _ _ _ _ _ E), path_eqb_refl in Hc.
  injection Hc as <-. exact (subs_roundtrip _ Hw).
Qed.

Lemma view_serves m m1 f v uid k fl c :
  same_view m m1 -> serves m f v uid k fl c -> serves m1 f v uid k fl c.
Proof.
  intros V [u [i [Hu [Hv [Hr [Hf Hfl]]]]]]. exists u, i.
  split; [apply (view_uidl_at _ _ f u V); exact Hu|]. split; [exact Hv|]. split; [exact Hr|].
  split; [apply (view_file_at _ _ f k i c V); exact Hf|exact Hfl].
Qed.

Lemma tail_ops_scratch sel used : forallb scratch (tail_ops sel used) = true.
Proof.
  unfold tail_ops. destruct sel as [[s ro]|]; [|reflexivity].
  destruct used as [f|]; [destruct (fname_eqb f s)|]; reflexivity.
Qed.

Lemma dest_sub_live sel g : live (dest_sub sel g) = true.
Proof. unfold dest_sub. destruct sel as [[s0 [|]]|]; try reflexivity.
  destruct (fname_eqb s0 g); reflexivity. Qed.

(* ================ acknowledged commands, as Ops.run_cmd issues them ===== *)
(* APPEND answered OK (all its operations done): each message is served under
   the announced uid with the requested flags and its content *)
Theorem cmd_append_acked lay m sel f msgs m' :
  Inv m -> let o := run_cmd lay m sel (CAppend f msgs) in
  o_ack o = AOk -> apply_ops lay m (o_ops o) = (m', true) ->
  exists u, uidl_at m f u /\
    forall d, In d (append_delivers u msgs) ->
    let '(uid, k, i, c) := d in serves m' f (u_val u) uid k (flags_of_info i) c.
Proof.
  intros I. cbn [run_cmd].
  destruct (negb (exists_ m (PDir f))); [cbn; discriminate|].
  destruct (ready m f) as [u|] eqn:Er; [|cbn; discriminate].
  destruct (keys_ok m (map a_key msgs) && forallb wf_amsg msgs) eqn:Eg; [|cbn; discriminate].
  apply andb_true_iff in Eg as [Hk Hw]. destruct (keys_ok_sound _ _ Hk) as [_ Hnd].
  cbn [o_ack o_ops]. intros _ A.
  destruct (apply_ops_split _ _ _ _ _ A) as [m1 [A1 A']].
  destruct (apply_ops_split _ _ _ _ _ A') as [m2 [A2 A3]].
  pose proof (scratch_ops_view lay _ (reset_ops_scratch f) _ _ A1) as V1.
  pose proof (scratch_ops_view lay _ (tail_ops_scratch _ _) _ _ A3) as V3.
  pose proof (ready_uidl_at _ _ _ Er) as Hu. exists u. split; [exact Hu|].
  intros d Hd.
  assert (I1 : Inv m1).
  { apply (run_inv lay m (reset_ops f) m1 I). apply legal_ops_b_run; [|exact A1].
    exact (static_ops_legal _ _ _ (scratch_list_static lay _ (reset_ops_scratch f)) I). }
  pose proof (append_acked_served lay f _ msgs m1 u m2 (dest_sub_live sel f) I1
                (proj2 (view_uidl_at _ _ f u V1) Hu) A2
                (fun a Ha => forallb_In _ _ Hw a Ha) Hnd d Hd) as S.
  destruct d as [[[uid k] i] c]. exact (view_serves _ _ _ _ _ _ _ _ V3 S).
Qed.

(* COPY answered OK: each copied message is served in the destination with
   the source's flags and content *)
Theorem cmd_copy_acked lay m f ro uids g names m' :
  Inv m -> let o := run_cmd lay m (Some (f, ro)) (CCopy uids g names) in
  o_ack o = AOk -> apply_ops lay m (o_ops o) = (m', true) ->
  exists us ug, uidl_at m f us /\ uidl_at m g ug /\
    forall d, In d (copy_delivers us (files_of m f) ug uids names) ->
    let '(uid, k, i, c) := d in
    u_next ug <= uid /\ serves m' g (u_val ug) uid k (flags_of_info i) c.
Proof.
  intros I. cbn [run_cmd].
  destruct (ready m f) as [us|] eqn:Ef; [|cbn; discriminate].
  destruct (negb (exists_ m (PDir g))); [cbn; discriminate|].
  destruct (ready m g) as [ug|] eqn:Eg; [|cbn; discriminate].
  destruct (keys_ok m (map fst names)) eqn:Ek; [|cbn; discriminate].
  destruct (keys_ok_sound _ _ Ek) as [Hku Hnd]. cbn [o_ack o_ops]. intros _ A.
  destruct (apply_ops_split _ _ _ _ _ A) as [m1 [A1 A']].
  destruct (apply_ops_split _ _ _ _ _ A') as [m2 [A2 A3]].
  pose proof (scratch_ops_view lay _ (reset_ops_scratch f) _ _ A1) as V1.
  pose proof (scratch_ops_view lay _ (reset_ops_scratch g) _ _ A2) as V2.
  pose proof (same_view_trans _ _ _ V1 V2) as V.
  pose proof (ready_uidl_at _ _ _ Ef) as Hus. pose proof (ready_uidl_at _ _ _ Eg) as Hug.
  exists us, ug. split; [exact Hus|]. split; [exact Hug|].
  destruct (inv_uidl_text _ _ _ I Hus) as [_ [Hws _]].
  destruct (inv_uidl_text _ _ _ I Hug) as [_ [Hwg Hokg]].
  destruct (copy_done lay g (dest_sub (Some (f, ro)) g) us (files_of m f) (dest_sub_live _ _) Hws
              (files_of_ok _ _ I) uids names m2 ug m' [] A3 Hwg Hokg
              (proj2 (view_uidl_at _ _ g ug V) Hug)
              (fun kn Hkn => proj2 (Hku (fst kn) (in_map fst _ _ Hkn))) Hnd)
    as [ug' [Hu' [Hv Hall]]]; [intros ? []|intros ? ? []|].
  intros d Hd. destruct d as [[[uid k] i] c]. split.
  - clear - Hd Hokg. revert ug Hokg Hd. generalize names.
    induction uids as [|u0 r IH]; intros nm ug Hokg Hd; cbn [copy_delivers] in Hd; [destruct Hd|].
    destruct (locate us (files_of m f) u0) as [[rec x]|]; [|exact (IH nm ug Hokg Hd)].
    destruct nm as [|[key tmp] nm']; [destruct Hd|].
    destruct Hd as [E|Hd]; [injection E as <- _ _ _; apply N.le_refl|].
    specialize (IH nm' _ (with_rec_uids_ok _ _ _ Hokg) Hd). unfold with_rec in IH at 1.
    cbn [u_next] in IH. lia.
  - rewrite <- Hv. exact (delivered_serves _ _ _ _ _ _ _ Hu' (Hall _ Hd)).
Qed.

Lemma located_file m f us uid rec x : Inv m -> locate us (files_of m f) uid = Some (rec, x) ->
  lookup m (PMsg f (m_sub x) (m_key x) (m_info x)) = Some (File (Opaque (m_cid x)))
  /\ live (m_sub x) = true.
Proof.
  intros I El. destruct (locate_spec _ _ _ _ _ El) as [_ [_ [Hx _]]].
  destruct (files_of_lookup _ _ _ I Hx) as [H1 [H2 _]]. split; assumption.
Qed.

(* MOVE (to another mailbox) answered OK: each moved message is served in the
   destination with its flags and content.  The source uid list is assumed to
   name each file once, and the uids of the command to be distinct. *)
Theorem cmd_move_acked lay m f uids g tmps m' :
  Inv m -> f <> g -> NoDup uids ->
  let o := run_cmd lay m (Some (f, false)) (CMove uids g tmps) in
  o_ack o = AOk -> apply_ops lay m (o_ops o) = (m', true) ->
  exists us ug, uidl_at m f us /\ uidl_at m g ug /\
    (NoDup (map r_key (u_recs us)) ->
     forall d, In d (move_delivers us (files_of m f) ug uids tmps) ->
     let '(uid, k, i, c) := d in serves m' g (u_val ug) uid k (flags_of_info i) c).
Proof.
  intros I Hfg Hndu. cbn [run_cmd].
  destruct (ready m f) as [us|] eqn:Ef; [|cbn; discriminate].
  destruct (negb (exists_ m (PDir g))); [cbn; discriminate|].
  destruct (fname_eqb f g) eqn:Efg.
  { apply fname_eqb_eq in Efg. contradiction. }
  destruct (ready m g) as [ug|] eqn:Eg; [|cbn; discriminate].
  cbn [o_ack o_ops]. intros _ A.
  destruct (apply_ops_split _ _ _ _ _ A) as [m1 [A1 A']].
  destruct (apply_ops_split _ _ _ _ _ A') as [m2 [A2 A3]].
  pose proof (scratch_ops_view lay _ (reset_ops_scratch f) _ _ A1) as V1.
  pose proof (scratch_ops_view lay _ (reset_ops_scratch g) _ _ A2) as V2.
  pose proof (same_view_trans _ _ _ V1 V2) as V.
  pose proof (ready_uidl_at _ _ _ Ef) as Hus. pose proof (ready_uidl_at _ _ _ Eg) as Hug.
  exists us, ug. split; [exact Hus|]. split; [exact Hug|]. intros Hkeys d Hd.
  destruct (inv_uidl_text _ _ _ I Hus) as [_ [Hws Hoks]].
  destruct (inv_uidl_text _ _ _ I Hug) as [_ [Hwg Hokg]].
  destruct (move_done lay f g (dest_sub (Some (f, false)) g) (files_of m f) (dest_sub_live _ _) Hfg
              (files_of_ok _ _ I) uids tmps m2 us ug m' [] A3 Hws Hoks Hkeys Hndu Hwg Hokg
              (proj2 (view_uidl_at _ _ g ug V) Hug))
    as [ug' [Hu' [Hv Hall]]].
  - intros uid rec x _ El. destruct (located_file _ _ _ _ _ _ I El) as [Hl Hs].
    rewrite (V _ (live_not_junk f _ _ _ Hs)). exact Hl.
  - intros ? [].
  - intros ? ? ? ? [].
  - destruct d as [[[uid k] i] c]. rewrite <- Hv.
    exact (delivered_serves _ _ _ _ _ _ _ Hu' (Hall _ Hd)).
Qed.

(* STORE answered OK: each addressed message that exists is served with the
   new flags, same uid and content *)
Theorem cmd_store_acked lay m f uids mode letters m' :
  Inv m -> NoDup uids ->
  let o := run_cmd lay m (Some (f, false)) (CStore uids mode letters) in
  o_ack o = AOk -> apply_ops lay m (o_ops o) = (m', true) ->
  exists u, uidl_at m f u /\
    (NoDup (map r_key (u_recs u)) ->
     forall uid rec x, In uid uids -> locate u (files_of m f) uid = Some (rec, x) ->
     serves m' f (u_val u) uid (m_key x)
            (flags_of_info (new_info mode letters (m_info x))) (m_cid x)).
Proof.
  intros I Hndu. cbn [run_cmd].
  destruct (ready m f) as [u|] eqn:Ef; [|cbn; discriminate].
  cbn [o_ack o_ops]. intros _ A.
  destruct (apply_ops_split _ _ _ _ _ A) as [m1 [A1 A2]].
  pose proof (scratch_ops_view lay _ (reset_ops_scratch f) _ _ A1) as V1.
  pose proof (ready_uidl_at _ _ _ Ef) as Hu. exists u. split; [exact Hu|].
  intros Hkeys uid rec x Hin El.
  destruct (store_done lay f u (files_of m f) mode letters (files_of_ok _ _ I) Hkeys uids m1 m'
              Hndu A2) as [HU [HF _]].
  - intros uid0 rec0 x0 _ El0. destruct (located_file _ _ _ _ _ _ I El0) as [Hl Hs].
    rewrite (V1 _ (live_not_junk f _ _ _ Hs)). exact Hl.
  - destruct (locate_spec _ _ _ _ _ El) as [Hrec [Huid [Hx Hkx]]].
    destruct (located_file _ _ _ _ _ _ I El) as [_ Hs].
    exists u, (new_info mode letters (m_info x)).
    split; [destruct Hu as [t [H1 H2]]; exists t; split;
            [rewrite HU, (V1 (PCtl f CUidl) eq_refl); exact H1|exact H2]|].
    split; [reflexivity|]. split; [exists rec; repeat split; [exact Hrec|exact Huid|symmetry; exact Hkx]|].
    split; [|reflexivity]. exists (m_sub x). split; [exact Hs|]. exact (HF uid rec x Hin El).
Qed.

(* CREATE answered OK: the mailbox exists with an empty uid list of the drawn
   UIDVALIDITY; SUBSCRIBE answered OK: the name is in the subscriptions file *)
Theorem cmd_create_acked lay m sel f val guid tmp m' :
  let o := run_cmd lay m sel (CCreate f val guid tmp) in
  o_ack o = AOk -> apply_ops lay m (o_ops o) = (m', true) ->
  folder_ok m' f = true
  /\ uidl_at m' f {| u_val := val; u_next := 1; u_guid := guid; u_recs := [] |}.
Proof.
  cbn [run_cmd]. destruct f as [|f0 fr]; [cbn; discriminate|].
  destruct (exists_ m (PDir (f0 :: fr)) || negb (parent_exists lay m (f0 :: fr))
            || exists_ m (PCtl (f0 :: fr) CUidl) || negb (wf_guid guid)) eqn:Eg; [cbn; discriminate|].
  apply orb_false_iff in Eg as [_ Hg]. apply negb_false_iff in Hg.
  cbn [o_ack o_ops]. intros _ A. rewrite app_assoc in A.
  destruct (apply_ops_split _ _ _ _ _ A) as [m1 [A1 A2]].
  pose proof (scratch_ops_view lay _ (tail_ops_scratch _ _) _ _ A2) as V.
  destruct (create_done _ _ _ _ _ _ _ A1 Hg) as [H1 H2]. split.
  - unfold folder_ok, exists_ in *.
    rewrite (V (PDir (f0 :: fr)) eq_refl), (V (PSub (f0 :: fr) SNew) eq_refl),
      (V (PSub (f0 :: fr) SCur) eq_refl), (V (PSub (f0 :: fr) STmp) eq_refl). exact H1.
  - apply (view_uidl_at _ _ _ _ V). exact H2.
Qed.

Theorem cmd_subscribe_acked lay m sel n tmp m' :
  let o := run_cmd lay m sel (CSubscribe n tmp) in
  apply_ops lay m (o_ops o) = (m', true) ->
  wf_subs (add_name n (recover_subs m)) = true ->
  recover_subs m' = add_name n (recover_subs m).
Proof.
  cbn [run_cmd o_ops]. intros A Hw. rewrite !app_assoc in A.
  destruct (apply_ops_split _ _ _ _ _ A) as [m1 [A1 A2]].
  pose proof (scratch_ops_view lay _ (tail_ops_scratch _ _) _ _ A2) as V.
  unfold recover_subs at 1. rewrite (V (PCtl [] CSubs) eq_refl).
  rewrite <- !app_assoc in A1. exact (subs_done _ _ _ _ _ A1 Hw).
Qed.

(* ---- APPEND killed at any point *)
(* the only keys the operations of an APPEND touch are its own *)
Lemma append_ops_touches f s u msgs o key :
  In o (append_ops f s u msgs) -> touches o key -> In key (map a_key msgs).
Proof.
  revert u. induction msgs as [|a r IH]; intros u Hin Ht; [destruct Hin|].
  cbn [append_ops] in Hin. unfold add_ops, locked_rewrite, rewrite_ops, lock_op, unlock_op in Hin.
  cbn [app In] in Hin.
  repeat (destruct Hin as [<-|Hin]; [cbn [touches] in Ht; try contradiction; try (left; exact Ht)|]).
  right. exact (IH _ Hin Ht).
Qed.

(* APPEND of any number of messages, killed after any number k of its
   operations: the invariant holds and every message served before — in any
   folder — is still served with the same validity, uid, flags and content *)
Theorem append_ops_legal lay f s msgs m u :
  live s = true -> Inv m -> uidl_at m f u ->
  (forall a, In a msgs -> key_unused m (a_key a) /\ wf_amsg a = true) ->
  NoDup (map a_key msgs) ->
  legal_ops_b lay m (append_ops f s u msgs) = true.
Proof.
  intros Hs I Hu Hm Hnd. rewrite <- (app_nil_r (append_ops f s u msgs)).
  apply append_core; try assumption. reflexivity.
Qed.

Lemma moved_names_static lay l f :
  (forall o, In o l -> forall a b, o <> ORenameDir a b) -> moved_names lay l f = f.
Proof.
  revert f. induction l as [|o l IH]; intros f H; [reflexivity|]. cbn [moved_names fold_left].
  assert (E : moved_name lay o f = f).
  { destruct o; try reflexivity. exfalso. exact (H _ (or_introl eq_refl) _ _ eq_refl). }
  rewrite E. apply IH. intros o' Ho'. apply H. right. exact Ho'.
Qed.

Lemma append_ops_no_renamedir f s u msgs o :
  In o (append_ops f s u msgs) -> forall a b, o <> ORenameDir a b.
Proof.
  revert u. induction msgs as [|a r IH]; intros u Hin; [destruct Hin|].
  cbn [append_ops] in Hin. unfold add_ops, locked_rewrite, rewrite_ops, lock_op, unlock_op in Hin.
  cbn [app In] in Hin.
  repeat (destruct Hin as [<-|Hin]; [intros ? ? E; discriminate E|]).
  exact (IH _ Hin).
Qed.

Theorem append_crash_safe lay f s msgs m u k :
  live s = true -> Inv m -> uidl_at m f u ->
  (forall a, In a msgs -> key_unused m (a_key a) /\ wf_amsg a = true) ->
  NoDup (map a_key msgs) ->
  let mk := after_crash lay m (append_ops f s u msgs) k in
  Inv mk /\ (forall g v uid key fl c, serves m g v uid key fl c -> serves mk g v uid key fl c).
Proof.
  intros Hs I Hu Hm Hnd mk.
  pose proof (append_ops_legal lay f s msgs m u Hs I Hu Hm Hnd) as HL.
  split; [exact (crash_inv _ _ _ _ I HL)|].
  intros g v uid key fl c S.
  rewrite <- (moved_names_static lay (executed lay m (append_ops f s u msgs) k) g).
  - apply (crash_serves _ _ _ _ _ _ _ _ _ _ HL S).
    intro T. apply Exists_exists in T as [o [Ho Ht]].
    assert (Hin : In o (append_ops f s u msgs)).
    { unfold crash in Ho. rewrite <- (firstn_skipn k (append_ops f s u msgs)).
      apply in_or_app. left. exact Ho. }
    pose proof (append_ops_touches _ _ _ _ _ _ Hin Ht) as Hk.
    apply in_map_iff in Hk as [a [Ea Ha]]. destruct (Hm a Ha) as [HK _].
    destruct S as [u0 [i [_ [_ [_ [[s0 [Hs0 Hl0]] _]]]]]].
    rewrite Ea in HK. rewrite (HK _ _ _ Hs0) in Hl0. discriminate.
  - intros o Ho. apply (append_ops_no_renamedir f s u msgs).
    pose proof (executed_sub _ _ _ _ _ Ho) as Hin. unfold crash in Hin.
    rewrite <- (firstn_skipn k (append_ops f s u msgs)). apply in_or_app. left. exact Hin.
Qed.


(* ---- the file of a message under any history and kill point *)
Theorem hist_move_file_conserved lay m sel h k key :
  Inv m ->
  (exists f i c, file_at m f key i c) ->
  (forall o, In o (hist_ops lay m sel h) ->
     forall s f i, o <> OUnlink (PMsg f s key i) \/ live s = false) ->
  exists f i c, file_at (after_crash lay m (hist_ops lay m sel h) k) f key i c.
Proof. intro I. exact (move_file_conserved lay m _ k key I (hist_ops_legal lay h m sel I)). Qed.

Theorem hist_move_file_once lay m sel h k key f i c f' i' c' :
  Inv m ->
  file_at (after_crash lay m (hist_ops lay m sel h) k) f key i c ->
  file_at (after_crash lay m (hist_ops lay m sel h) k) f' key i' c' ->
  f = f' /\ i = i' /\ c = c'.
Proof. intro I. exact (move_file_once lay m _ k key f i c f' i' c' I (hist_ops_legal lay h m sel I)). Qed.
