(* MaildirFS/Delete.v — DELETE, external delivery and the scan that adopts a
   delivered file, added to the command alphabet of Ops.v.

   * DELETE f (MailboxSet.delete_mailbox, _BaseLayout.remove_folder,
     FilesystemLayout._can_remove): os.walk(path, topdown=False) — the files
     of the three sub-directories, then the files of the folder directory
     (dovecot-uidlist, maildirfolder, whatever lock / temp file is there),
     then rmdir of the sub-directories, then rmdir of the folder directory.
     The order inside each group is the os.scandir order: it is an argument
     of the command value (read off the trace), the model checks that it is a
     permutation of the folder's entries and bottom-up.  The subscriptions
     file is not touched.  INBOX cannot be deleted; in the fs layout a folder
     with a child folder is refused before anything is removed.
   * a delivery agent drops a message into new/ (or cur/) between two server
     commands: tmp file, link, unlink of the tmp name (= Ops.add_ops).
   * EXAMINE of a folder in which files wait for adoption (MailboxData.reset):
     the uid list is rewritten with one new record per unknown file, uids
     next, next+1, ...

   Definitions only; proofs in DeleteProofs.v. *)
From PV Require Import Base.Prelude Base.Decimal MaildirFS.FS MaildirFS.UidList MaildirFS.Ops
  MaildirFS.Spec MaildirFS.Legal.
Local Open Scope N_scope.

Definition is_root (f : fname) : bool := match f with [] => true | _ => false end.

(* ---- DELETE *)
(* the entries of folder f other than its directory *)
Definition own_entry (f : fname) (p : path) : bool :=
  fname_eqb (folder_of p) f && negb (match p with PDir _ => true | _ => false end).

Definition entries_of (m : fs) (f : fname) : list path := filter (own_entry f) (map fst m).

(* os.walk bottom-up: message files, then files of the folder directory,
   then the sub-directories *)
Definition pclass (p : path) : nat :=
  match p with
  | PMsg _ _ _ _ => 0
  | PCtl _ _ | PTmp _ _ => 1
  | PSub _ _ => 2
  | PDir _ => 3
  end.

Fixpoint class_sorted (l : list path) : bool :=
  match l with
  | a :: r => match r with
              | b :: _ => Nat.leb (pclass a) (pclass b) && class_sorted r
              | [] => true
              end
  | [] => true
  end.

Definition remove_op (p : path) : fsop :=
  match p with
  | PSub _ _ | PDir _ => ORmdir p
  | _ => OUnlink p
  end.

Definition delete_ops (f : fname) (order : list path) : list fsop :=
  map remove_op order ++ [ORmdir (PDir f)].

(* FilesystemLayout._can_remove: a directory entry other than new/cur/tmp *)
Definition has_child (m : fs) (f : fname) : bool :=
  existsb (fun g => match strip_prefix f g with Some [_] => true | _ => false end)
          (folders_of m).

Definition selects (sel : selection) (f : fname) : bool :=
  match sel with Some (s, _) => fname_eqb s f | None => false end.

(* ---- adoption with the object ids the backend draws *)
Fixpoint adopt_with (u : uidl) (fl : list mfile) (ets : list (bytes * bytes)) : uidl :=
  match fl, ets with
  | x :: r, (e, t) :: ets' =>
      adopt_with (with_rec u [(69, e); (84, t)] (m_key x ++ 58 :: m_info x)) r ets'
  | _, _ => u
  end.

Definition wf_et (et : bytes * bytes) : bool :=
  forallb value_char (fst et) && forallb value_char (snd et).

(* ---- the extended alphabet *)
Inductive xcmd :=
| XC (c : cmd)
| XDelete (f : fname) (order : list path)
| XDeliver (f : fname) (s : sub) (key info : bytes) (cid : N)
| XScan (f : fname) (tmp : bytes) (ets : list (bytes * bytes)).

Definition run_xcmd (lay : layout) (m : fs) (sel : selection) (x : xcmd) : outcome :=
  match x with
  | XC c => run_cmd lay m sel c
  | XDelete f order =>
      if is_root f then {| o_ops := []; o_ack := ANo; o_sel := sel |}
      else if selects sel f then unmodelled sel
      else if negb (exists_ m (PDir f)) then
        (* Maildir++: os.walk of a missing directory yields nothing, the final
           rmdir fails; fs: _can_remove's listdir fails first *)
        {| o_ops := match lay with LPlus => [ORmdir (PDir f)] | LFs => [] end;
           o_ack := ANo; o_sel := sel |}
      else if (match lay with LFs => has_child m f | LPlus => false end) then
        {| o_ops := []; o_ack := ANo; o_sel := sel |}
      else if perm_of path_eqb order (entries_of m f) && forallb (own_entry f) order
              && class_sorted order then
        {| o_ops := delete_ops f order ++ tail_ops sel None; o_ack := AOk; o_sel := sel |}
      else unmodelled sel
  | XDeliver f s key info cid =>
      if live s && folder_ok m f && key_fresh m key && wf_key key && wf_info info then
        {| o_ops := add_ops f s key info cid; o_ack := AOk; o_sel := sel |}
      else unmodelled sel
  | XScan f tmp ets =>
      if negb (folder_ok m f) then unmodelled sel
      else match read_uidl m f with
      | Some (Ok u) =>
          let unk := unknown_files u (files_of m f) in
          match unk with
          | [] => unmodelled sel       (* a ready folder: Ops.CSelect *)
          | _ =>
            if Nat.eqb (length ets) (length unk) && forallb wf_et ets then
              {| o_ops := locked_rewrite f tmp (adopt_with u unk ets);
                 o_ack := AOk; o_sel := Some (f, true) |}
            else unmodelled sel
          end
      | _ => unmodelled sel
      end
  end.

Fixpoint xhist_ops (lay : layout) (m : fs) (sel : selection) (h : list xcmd) : list fsop :=
  match h with
  | [] => []
  | c :: r =>
      let o := run_xcmd lay m sel c in
      o_ops o ++ xhist_ops lay (fst (apply_ops lay m (o_ops o))) (o_sel o) r
  end.

(* ---- legality with the two kinds of operation only DELETE performs: rmdir
   and the unlink of a control file, never in the INBOX (whose directory also
   holds the subscriptions file) *)
Definition del_kind (o : fsop) : bool :=
  match o with
  | ORmdir p => negb (is_root (folder_of p))
  | OUnlink (PCtl f _) => negb (is_root f)
  | _ => false
  end.

Definition xlegal_b (lay : layout) (m : fs) (o : fsop) : bool :=
  legal_b lay m o || del_kind o.

Fixpoint xlegal_ops_b (lay : layout) (m : fs) (l : list fsop) : bool :=
  match l with
  | [] => true
  | o :: r => xlegal_b lay m o && match apply_op lay m o with
                                  | Some m' => xlegal_ops_b lay m' r
                                  | None => true
                                  end
  end.

Definition xlegal (lay : layout) (m : fs) (o : fsop) : Prop :=
  legal lay m o \/ del_kind o = true.

(* an operation that only removes an entry of folder f *)
Definition removes_in (f : fname) (o : fsop) : bool :=
  match o with
  | ORmdir p | OUnlink p => fname_eqb (folder_of p) f
  | _ => false
  end.
