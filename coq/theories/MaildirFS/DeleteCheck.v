(* MaildirFS/DeleteCheck.v — case checkers of the correspondence runs of
   harness/props/C15.py for histories over the extended alphabet of Delete.v
   (DELETE, external delivery, adopting scan). *)
From PV Require Import Base.Prelude Base.Decimal MaildirFS.FS MaildirFS.UidList MaildirFS.Ops
  MaildirFS.Spec MaildirFS.Legal MaildirFS.Check MaildirFS.Delete.
Local Open Scope N_scope.

(* one command: operation list, status, every operation applicable (a DELETE
   answered NO may end in the rmdir that failed), every operation of a legal
   kind, the invariant on the state reached *)
Definition xchk_one (lay : layout) (m : fs) (sel : selection)
           (c : xcmd) (ops : list fsop) (a : ack) : bool :=
  let o := run_xcmd lay m sel c in
  let '(m', ok) := apply_ops lay m (o_ops o) in
  eqb_list fsop_eqb (o_ops o) ops && ack_eqb (o_ack o) a
  && (ok || ack_eqb (o_ack o) ANo)
  && xlegal_ops_b lay m (o_ops o) && inv_b m'.

Fixpoint xchk_cmds (lay : layout) (m : fs) (sel : selection)
         (l : list (xcmd * list fsop * ack)) (final : fs) : bool :=
  match l with
  | [] => fs_same m final
  | (c, ops, a) :: r =>
      let o := run_xcmd lay m sel c in
      xchk_one lay m sel c ops a
      && xchk_cmds lay (fst (apply_ops lay m (o_ops o))) (o_sel o) r final
  end.

Definition xchk_history (c : layout * fs * list (xcmd * list fsop * ack) * fs) : bool :=
  let '(lay, m, l, final) := c in inv_b m && inv_b final && xchk_cmds lay m None l final.

Fixpoint xfirst_bad (lay : layout) (m : fs) (sel : selection)
         (l : list (xcmd * list fsop * ack)) (i : nat) : option (nat * list fsop * ack) :=
  match l with
  | [] => None
  | (c, ops, a) :: r =>
      let o := run_xcmd lay m sel c in
      if xchk_one lay m sel c ops a
      then xfirst_bad lay (fst (apply_ops lay m (o_ops o))) (o_sel o) r (S i)
      else Some (i, o_ops o, o_ack o)
  end.

(* kill-and-restart: as Check.chk_crash, over xhist_ops *)
Definition xchk_crash (c : layout * fs * list xcmd * list (nat * bool * odump)) : bool :=
  let '(lay, m0, h, l) := c in
  let ops := xhist_ops lay m0 None h in
  forallb (fun kd : (nat * bool * odump)%type =>
    let '(k, aged, d) := kd in
    let '(m, ok) := apply_ops lay m0 (crash k ops) in
    ok && inv_b m && chk_dump (if aged then expire_locks m else m) d) l.

Definition xfirst_bad_crash (c : layout * fs * list xcmd * list (nat * bool * odump))
  : list nat :=
  let '(lay, m0, h, l) := c in
  let ops := xhist_ops lay m0 None h in
  flat_map (fun kd : (nat * bool * odump)%type =>
    let '(k, aged, d) := kd in
    let '(m, ok) := apply_ops lay m0 (crash k ops) in
    if ok && inv_b m && chk_dump (if aged then expire_locks m else m) d then [] else [k]) l.
