(* MaildirFS/CrashProofs.v — the crash theorems in the form Props/C15.v and
   Props/C14.v state them: for an operation list every operation of which is
   legal where it is applied, and every number k of operations executed
   before the process is killed. *)
From PV Require Import Base.Prelude Base.Decimal MaildirFS.FS MaildirFS.UidList MaildirFS.Ops
  MaildirFS.Spec MaildirFS.FSProofs MaildirFS.UidListProofs MaildirFS.DurabilityProofs
  MaildirFS.Legal MaildirFS.LegalProofs MaildirFS.Examples.
Local Open Scope N_scope.

Definition after_crash (lay : layout) (m : fs) (l : list fsop) (k : nat) : fs :=
  fst (apply_ops lay m (crash k l)).

(* the operations executed before the kill (all of the first k unless one
   failed earlier) *)
Definition executed (lay : layout) (m : fs) (l : list fsop) (k : nat) : list fsop :=
  applied lay m (crash k l).

Lemma crash_run lay m l k :
  legal_ops_b lay m l = true ->
  legal_run lay m (executed lay m l k) (after_crash lay m l k).
Proof. intro H. apply legal_ops_b_applied. exact (legal_ops_b_crash _ _ _ _ H). Qed.

Lemma executed_sub lay m l k o : In o (executed lay m l k) -> In o (crash k l).
Proof. unfold executed. destruct (applied_prefix lay m (crash k l)) as [rest E].
  intro H. rewrite E. apply in_or_app. left. exact H. Qed.

(* 1. whatever the crash point, every uid list on disk is a completely
      written, well-formed one that respects its counter, maildir keys stay
      unique, delivered files keep recordable names *)
Theorem crash_inv lay m l k :
  Inv m -> legal_ops_b lay m l = true -> Inv (after_crash lay m l k).
Proof. intros I H. exact (run_inv _ _ _ _ I (crash_run lay m l k H)). Qed.

(* 2. a message served before the operations start is served after a kill at
      any point with the same uid, validity, flags and content (in its folder,
      under the name the folder has by then), unless one of the executed
      operations renames or removes its own file *)
Theorem crash_serves lay m l k f v uid key fl c :
  legal_ops_b lay m l = true ->
  serves m f v uid key fl c -> ~ touched (crash k l) key ->
  serves (after_crash lay m l k) (moved_names lay (executed lay m l k) f) v uid key fl c.
Proof.
  intros H S T. apply (run_serves _ _ _ _ _ _ _ _ _ _ (crash_run lay m l k H)); [|exact S].
  intro T'. apply T. apply Exists_exists in T' as [o [Ho Ht]]. apply Exists_exists.
  exists o. split; [exact (executed_sub _ _ _ _ _ Ho)|exact Ht].
Qed.

Lemma crash_crash (j k : nat) (l : list fsop) : (j <= k)%nat -> crash j (crash k l) = crash j l.
Proof. unfold crash. intro H. rewrite firstn_firstn. f_equal. lia. Qed.

Lemma apply_ops_app lay m l1 l2 :
  apply_ops lay m (l1 ++ l2) =
  let '(m1, ok) := apply_ops lay m l1 in if ok then apply_ops lay m1 l2 else (m1, false).
Proof.
  revert m. induction l1 as [|o l1 IH]; intro m; cbn [app apply_ops]; [reflexivity|].
  destruct (apply_op lay m o); [apply IH|reflexivity].
Qed.

Lemma legal_ops_b_suffix lay m l1 l2 m1 :
  legal_ops_b lay m (l1 ++ l2) = true -> apply_ops lay m l1 = (m1, true) ->
  legal_ops_b lay m1 l2 = true.
Proof.
  revert m. induction l1 as [|o l1 IH]; intros m H A; cbn [app legal_ops_b apply_ops] in *.
  - injection A as <-. exact H.
  - apply andb_true_iff in H as [_ H]. destruct (apply_op lay m o); [|discriminate].
    exact (IH _ H A).
Qed.

(* 3. uid discipline between any two crash points j <= k of the same run:
      the folder (under its later name) keeps its UIDVALIDITY, the next-uid
      counter never decreases, and a uid below the earlier counter names the
      key it named then *)
Theorem crash_uid_stable lay m l j k :
  legal_ops_b lay m l = true -> (j <= k)%nat ->
  exists phi, uid_stable_via phi (after_crash lay m l j) (after_crash lay m l k)
              /\ ((forall o, In o l -> forall a b, o <> ORenameDir a b) -> forall f, phi f = f).
Proof.
  intros H Hjk. unfold after_crash.
  assert (Es : crash k l = crash j l ++ skipn j (crash k l)).
  { rewrite <- (crash_crash j k l Hjk). unfold crash. rewrite firstn_skipn. reflexivity. }
  destruct (apply_ops lay m (crash j l)) as [mj okj] eqn:Ej.
  destruct okj.
  - pose proof (legal_ops_b_crash lay m l k H) as Hk. rewrite Es in Hk.
    pose proof (legal_ops_b_suffix _ _ _ _ _ Hk Ej) as Hs.
    rewrite Es, apply_ops_app, Ej. cbn [fst].
    exists (moved_names lay (applied lay mj (skipn j (crash k l)))).
    split; [exact (run_uid_stable _ _ _ _ (legal_ops_b_applied _ _ _ Hs))|].
    intros Hno f.
    assert (Hsub : forall o, In o (applied lay mj (skipn j (crash k l))) -> In o l).
    { intros o Ho. destruct (applied_prefix lay mj (skipn j (crash k l))) as [rest E].
      assert (In o (skipn j (crash k l))) by (rewrite E; apply in_or_app; left; exact Ho).
      assert (In o (crash k l)).
      { rewrite <- (firstn_skipn j (crash k l)). apply in_or_app. right. assumption. }
      unfold crash in *. rewrite <- (firstn_skipn k l). apply in_or_app. left. assumption. }
    revert f. induction (applied lay mj (skipn j (crash k l))) as [|o r IH]; intro f; [reflexivity|].
    cbn [moved_names fold_left].
    assert (E : moved_name lay o f = f).
    { destruct o; try reflexivity. exfalso.
      exact (Hno _ (Hsub _ (or_introl eq_refl)) _ _ eq_refl). }
    rewrite E. apply IH. intros o' Ho'. apply Hsub. right. exact Ho'.
  - exists (fun f => f). rewrite Es, apply_ops_app, Ej. cbn [fst].
    split; [apply uid_stable_refl|reflexivity].
Qed.

Lemma recorded_same_uid u uid k k' :
  NoDup (map r_uid (u_recs u)) -> recorded u uid k -> recorded u uid k' -> k = k'.
Proof.
  intros Hnd [r [Hin [Hu1 Hk1]]] [r' [Hin' [Hu1' Hk1']]].
  assert (r = r').
  { clear - Hnd Hin Hin' Hu1 Hu1'. revert Hnd Hin Hin'. generalize (u_recs u).
    induction l as [|x l IH]; cbn [map In]; intros Hnd Hin Hin'; [contradiction|].
    inversion Hnd as [|? ? Hx Hl]; subst.
    destruct Hin as [->|Hin], Hin' as [->|Hin'].
    - reflexivity.
    - exfalso. apply Hx. apply in_map_iff. exists r'. split; [congruence|exact Hin'].
    - exfalso. apply Hx. apply in_map_iff. exists r. split; [congruence|exact Hin].
    - exact (IH Hl Hin Hin'). }
  subst r'. congruence.
Qed.

Lemma inv_uidl_at m f u : Inv m -> uidl_at m f u -> uids_ok u /\ wf_uidl u = true.
Proof.
  intros [I1 _ _ _] [t [Hl Hp]]. destruct (I1 f _ Hl) as [u0 [Et [Hw Hok]]].
  injection Et as ->. rewrite (uidl_roundtrip _ Hw) in Hp. injection Hp as <-. split; assumption.
Qed.

(* 4. in particular a uid is never given to another message file *)
Theorem crash_uid_one_key lay m l j k :
  Inv m -> legal_ops_b lay m l = true -> (j <= k)%nat ->
  exists phi, ((forall o, In o l -> forall a b, o <> ORenameDir a b) -> forall f, phi f = f) /\
  forall f u u' uid key key',
  uidl_at (after_crash lay m l j) f u -> uidl_at (after_crash lay m l k) (phi f) u' ->
  recorded u uid key -> recorded u' uid key' ->
  key = key' /\ u_val u' = u_val u /\ u_next u <= u_next u' /\ uid < u_next u.
Proof.
  intros I H Hjk. destruct (crash_uid_stable lay m l j k H Hjk) as [phi [S Hid]].
  exists phi. split; [exact Hid|]. intros f u u' uid key key' Hu Hu' Hr Hr'.
  destruct (inv_uidl_at _ _ _ (crash_inv lay m l j I H) Hu) as [[Hnd Hlt] _].
  destruct (S f u Hu) as [u2 [Hu2 [Hv [Hn Ho]]]].
  assert (u2 = u').
  { destruct Hu2 as [t [H1 H2]]. destruct Hu' as [t' [H1' H2']]. congruence. }
  subst u2.
  assert (Hlt' : uid < u_next u).
  { destruct Hr as [r [Hin [<- _]]]. exact (Hlt r Hin). }
  split; [|repeat split; assumption].
  exact (recorded_same_uid _ _ _ _ Hnd Hr (Ho uid key' Hr' Hlt')).
Qed.

(* 5. a message being moved is, after a kill at any point, in the source or in
      the destination: the file of a message that no executed operation unlinks
      exists in some folder (its rename is one atomic operation) *)
Theorem move_file_conserved lay m l k key :
  Inv m -> legal_ops_b lay m l = true ->
  (exists f i c, file_at m f key i c) ->
  (forall o, In o l -> forall s f i, o <> OUnlink (PMsg f s key i) \/ live s = false) ->
  exists f i c, file_at (after_crash lay m l k) f key i c.
Proof.
  intros I H E Hno.
  pose proof (crash_run lay m l k H) as R.
  assert (Hno' : forall o, In o (executed lay m l k) ->
                 forall s f i, o <> OUnlink (PMsg f s key i) \/ live s = false).
  { intros o Ho. apply Hno. pose proof (executed_sub _ _ _ _ _ Ho) as Hin.
    unfold crash in Hin. rewrite <- (firstn_skipn k l). apply in_or_app. left. exact Hin. }
  clear Hno H. revert I E Hno'.
  induction R as [|m o m1 l' m2 L A R IH]; intros I E Hno'; [exact E|].
  apply IH.
  - exact (legal_step_inv _ _ _ _ I L A).
  - destruct E as [f [i [c [s [Hs Hl]]]]].
    assert (LP : live_path (PMsg f s key i)) by (exists f, s, key, i; split; [reflexivity|exact Hs]).
    destruct (legal_live _ _ _ _ L A) as [[_ F]|[HL|[HR|[HU|HD]]]].
    + exists f, i, c, s. split; [exact Hs|]. rewrite (F _ LP). exact Hl.
    + destruct HL as (src & dst & c0 & -> & (g & t & k0 & j & -> & Ht0) & Hk & _ & _ & Hl').
      exists f, i, c, s. split; [exact Hs|]. rewrite Hl'.
      destruct (path_eqb (PMsg g t k0 j) (PMsg f s key i)) eqn:E1; [|exact Hl].
      apply path_eqb_eq in E1. inversion E1; subst. cbn [key_of] in Hk.
      rewrite (Hk _ _ _ Hs) in Hl. discriminate.
    + destruct HR as (src & dst & c0 & -> & (g & t & k0 & j & -> & Ht0)
                      & (g' & t' & k1 & j' & -> & Ht1) & Hkk & Hc & _ & Hl').
      cbn [key_of] in Hkk. subst k1.
      destruct (path_eqb (PMsg g t k0 j) (PMsg f s key i)) eqn:E1.
      * apply path_eqb_eq in E1. inversion E1; subst.
        rewrite Hl in Hc. injection Hc as <-.
        exists g', j', c, t'. split; [exact Ht1|]. rewrite Hl', path_eqb_refl. reflexivity.
      * exists f, i, c, s. split; [exact Hs|]. rewrite Hl', E1.
        destruct (path_eqb (PMsg g' t' k0 j') (PMsg f s key i)) eqn:E2; [|exact Hl].
        apply path_eqb_eq in E2. inversion E2; subst.
        destruct I as [_ I2 _ _].
        destruct (I2 _ _ _ _ _ _ _ _ _ Ht0 Hs Hc Hl) as [-> [-> ->]].
        rewrite path_eqb_refl in E1. discriminate.
    + destruct HU as (p & -> & (g & t & k0 & j & -> & Ht0) & Hl').
      exists f, i, c, s. split; [exact Hs|]. rewrite Hl'.
      destruct (path_eqb (PMsg g t k0 j) (PMsg f s key i)) eqn:E1; [|exact Hl].
      apply path_eqb_eq in E1. inversion E1; subst.
      destruct (Hno' _ (or_introl eq_refl) s f i) as [Hx|Hx]; [contradiction|congruence].
    + destruct HD as (a & b & -> & Rk).
      exists (moved_name lay (ORenameDir a b) f), i, c, s. split; [exact Hs|].
      rewrite <- move_path_msg. exact (renamedir_forward _ _ _ _ _ _ _ Rk A Hl).
  - intros o0 Ho0. apply Hno'. right. exact Ho0.
Qed.

(* ... and never in two places: keys are unique in every crash state *)
Theorem move_file_once lay m l k key f i c f' i' c' :
  Inv m -> legal_ops_b lay m l = true ->
  file_at (after_crash lay m l k) f key i c -> file_at (after_crash lay m l k) f' key i' c' ->
  f = f' /\ i = i' /\ c = c'.
Proof.
  intros I H [s [Hs Hl]] [s' [Hs' Hl']].
  destruct (crash_inv lay m l k I H) as [_ I2 _ _].
  destruct (I2 _ _ _ _ _ _ _ _ _ Hs Hs' Hl Hl') as [-> [-> ->]].
  repeat split. congruence.
Qed.

(* ------------------------------------------------------------ witnesses *)
(* the example store satisfies the invariant, and its whole operation list is
   legal: the hypotheses of the theorems above are satisfiable *)
Example ex_inv : inv_b ex_fs0 = true /\ length ex_ops = 34%nat.
Proof. split; vm_compute; reflexivity. Qed.

Example ex_legal : legal_ops_b LPlus ex_fs0 ex_ops = true /\ length ex_ops = 34%nat.
Proof. split; vm_compute; reflexivity. Qed.

(* stale lock: the first APPEND is acknowledged after its 12 operations; a
   kill right after the next command has taken the lock leaves a directory on
   which a fresh server refuses the folder, although one message had been
   acknowledged (it is served once the lock file has expired) *)
Theorem stale_lock_witness :
  Nat.leb ex_first_len 13 = true
  /\ recover_folder (ex_state 13) [] = VLocked
  /\ served_cids (recover_folder (expire_locks (ex_state 13)) []) = [1].
Proof. repeat split; vm_compute; reflexivity. Qed.

(* maildir MULTIAPPEND under a kill: after 24 of the 34 operations (12 of the
   first command, 12 into the two-message APPEND, which is never
   acknowledged) the first of its two messages is served, the second is not *)
Theorem multiappend_kill_witness :
  Nat.ltb 24 (length ex_ops) = true
  /\ served_cids (recover_folder (ex_state 24) []) = [1; 2].
Proof. split; vm_compute; reflexivity. Qed.

(* the MOVE example: at every crash point the message is served from exactly
   one of the two folders *)
Definition move_conserved_at (k : nat) : bool :=
  match served_cids (recover_folder (expire_locks (ex_move_state k)) []),
        served_cids (recover_folder (expire_locks (ex_move_state k)) [[102]]) with
  | [1], [] | [], [1] => true
  | [], [] => Nat.ltb k 6      (* before the APPEND has linked the file *)
  | _, _ => false
  end.
Example move_example_conserved :
  legal_ops_b LPlus ex_fs1 ex_move_ops = true
  /\ forallb move_conserved_at (seq 0 (S (length ex_move_ops))) = true.
Proof. split; vm_compute; reflexivity. Qed.
