(* MaildirFS/Legal.v — a decision procedure for Spec.legal: the correspondence
   run evaluates it on every operation of every real trace, in the state the
   operation is applied to (LegalProofs.legal_b_sound: true implies legal). *)
From PV Require Import Base.Prelude Base.Decimal MaildirFS.FS MaildirFS.UidList MaildirFS.Ops
  MaildirFS.Spec.
Local Open Scope N_scope.

Definition key_unused_b (m : fs) (k : bytes) : bool :=
  forallb (fun e => match fst e with
                    | PMsg _ s k' _ => negb (live s && bytes_eqb k' k)
                    | _ => true
                    end) m.

Definition has_file_b (m : fs) (f : fname) (k : bytes) : bool :=
  existsb (fun e => match e with
                    | (PMsg g s k' _, File (Opaque _)) =>
                        fname_eqb g f && live s && bytes_eqb k' k
                    | _ => false
                    end) m.

Definition recorded_b (u : uidl) (uid : N) (k : bytes) : bool :=
  existsb (fun r => (r_uid r =? uid) && bytes_eqb (r_key r) k) (u_recs u).

Definition uids_ok_b (u : uidl) : bool :=
  nodup_uids (u_recs u) && forallb (fun r => r_uid r <? u_next u) (u_recs u).

Definition extends_b (m : fs) (f : fname) (u u' : uidl) : bool :=
  (u_val u' =? u_val u) && (u_next u <=? u_next u')
  && forallb (fun r' => if r_uid r' <? u_next u then recorded_b u (r_uid r') (r_key r')
                        else true) (u_recs u')
  && forallb (fun r => if has_file_b m f (r_key r) then recorded_b u' (r_uid r) (r_key r)
                       else true) (u_recs u).

Definition install_ok (m : fs) (f : fname) (n : bytes) : bool :=
  match lookup m (PTmp f n) with
  | Some (File (Text t)) =>
      match parse_uidl t with
      | Ok u' =>
          bytes_eqb (print_uidl u') t && wf_uidl u' && uids_ok_b u'
          && match lookup m (PCtl f CUidl) with
             | Some (File (Text t0)) =>
                 match parse_uidl t0 with
                 | Ok u => extends_b m f u u'
                 | _ => true
                 end
             | _ => true
             end
      | _ => false
      end
  | _ => false
  end.

Definition rename_ok_b := rename_clear.

Definition legal_b (lay : layout) (m : fs) (o : fsop) : bool :=
  match o with
  | OCreat p => junk p || match p with PCtl _ CMdf => true | _ => false end
  | OWrite p _ => junk p
  | OUnlink p => junk p
                 || match p with
                    | PMsg _ s _ _ => live s
                    | PCtl [] CSubs => true
                    | _ => false
                    end
  | OUtime _ | OMkdir _ => true
  | OLink (PMsg f STmp k []) (PMsg g s k' i) =>
      fname_eqb f g && bytes_eqb k k' && live s && key_unused_b m k
      && wf_key k && wf_info i
      && match lookup m (PMsg f STmp k []) with Some (File (Opaque _)) => true | _ => false end
  | ORename (PMsg f s k i) (PMsg g s' k' i') =>
      live s && live s' && bytes_eqb k k'
      && ((fname_eqb f g && wf_info i') || bytes_eqb i i')
  | ORename (PTmp f n) (PCtl g CUidl) => fname_eqb f g && install_ok m f n
  | ORename (PTmp [] _) (PCtl [] CSubs) => true
  | ORenameDir a b => rename_ok_b lay m a b
  | _ => false
  end.

(* every operation legal in the state it is applied to (a failing operation
   ends the list, as in FS.apply_ops) *)
Fixpoint legal_ops_b (lay : layout) (m : fs) (l : list fsop) : bool :=
  match l with
  | [] => true
  | o :: r => legal_b lay m o && match apply_op lay m o with
                             | Some m' => legal_ops_b lay m' r
                             | None => true
                             end
  end.

(* the operations of a list that are executed: up to the first failing one *)
Fixpoint applied (lay : layout) (m : fs) (l : list fsop) : list fsop :=
  match l with
  | [] => []
  | o :: r => match apply_op lay m o with
              | Some m' => o :: applied lay m' r
              | None => []
              end
  end.

(* a decision procedure for Spec.Inv (evaluated on the directory snapshots of
   the real backend; LegalProofs.inv_b_sound) *)
Fixpoint nodup_paths (l : list path) : bool :=
  match l with
  | [] => true
  | p :: r => negb (existsb (path_eqb p) r) && nodup_paths r
  end.

Definition entry_ok (e : path * node) : bool :=
  match e with
  | (PCtl _ CUidl, File (Text t)) =>
      match parse_uidl t with
      | Ok u => bytes_eqb (print_uidl u) t && wf_uidl u && uids_ok_b u
      | _ => false
      end
  | (PCtl _ CUidl, _) => false
  | (PMsg _ s k i, n) =>
      if live s then wf_key k && wf_info i
                     && match n with File (Opaque _) => true | _ => false end
      else true
  | _ => true
  end.

Definition keys_unique_b (m : fs) : bool :=
  forallb (fun e1 => forallb (fun e2 =>
    match fst e1, fst e2 with
    | PMsg _ s k _, PMsg _ s' k' _ =>
        implb (live s && live s' && bytes_eqb k k') (path_eqb (fst e1) (fst e2))
    | _, _ => true
    end) m) m.

Definition inv_b (m : fs) : bool :=
  nodup_paths (map fst m) && forallb entry_ok m && keys_unique_b m.
