(* MaildirFS/Legal.v — a decision procedure for Spec.legal: the correspondence
   run evaluates it on every operation of every real trace, in the state the
   operation is applied to (LegalProofs.legal_b_sound: true implies legal). *)
From PV Require Import Base.Prelude Base.Decimal MaildirFS.FS MaildirFS.UidList MaildirFS.Ops
  MaildirFS.Spec.
Local Open Scope N_scope.

Definition key_unused_b (m : fs) (k : bytes) : bool :=
  forallb (fun e => match fst e with
                    | PMsg _ s k' _ => negb (live s && bytes_eqb k' k)
                    | _ => true
                    end) m.

Definition has_file_b (m : fs) (f : fname) (k : bytes) : bool :=
  existsb (fun e => match e with
                    | (PMsg g s k' _, File (Opaque _)) =>
                        fname_eqb g f && live s && bytes_eqb k' k
                    | _ => false
                    end) m.

Definition recorded_b (u : uidl) (uid : N) (k : bytes) : bool :=
  existsb (fun r => (r_uid r =? uid) && bytes_eqb (r_key r) k) (u_recs u).

Definition uids_ok_b (u : uidl) : bool :=
  nodup_uids (u_recs u) && forallb (fun r => r_uid r <? u_next u) (u_recs u).

Definition extends_b (m : fs) (f : fname) (u u' : uidl) : bool :=
  (u_val u' =? u_val u) && (u_next u <=? u_next u')
  && forallb (fun r' => if r_uid r' <? u_next u then recorded_b u (r_uid r') (r_key r')
                        else true) (u_recs u')
  && forallb (fun r => if has_file_b m f (r_key r) then recorded_b u' (r_uid r) (r_key r)
                       else true) (u_recs u).

Definition install_ok (m : fs) (f : fname) (n : bytes) : bool :=
  match lookup m (PTmp f n) with
  | Some (File (Text t)) =>
      match parse_uidl t with
      | Ok u' =>
          uids_ok_b u'
          && match lookup m (PCtl f CUidl) with
             | Some (File (Text t0)) =>
                 match parse_uidl t0 with
                 | Ok u => extends_b m f u u'
                 | _ => true
                 end
             | _ => true
             end
      | _ => false
      end
  | _ => false
  end.

Definition legal_b (m : fs) (o : fsop) : bool :=
  match o with
  | OCreat p => junk p || match p with PCtl _ CMdf => true | _ => false end
  | OWrite p _ => junk p
  | OUnlink p => junk p
                 || match p with
                    | PMsg _ s _ _ => live s
                    | PCtl [] CSubs => true
                    | _ => false
                    end
  | OUtime _ | OMkdir _ => true
  | OLink (PMsg f STmp k []) (PMsg g s k' _) =>
      fname_eqb f g && bytes_eqb k k' && live s && key_unused_b m k
  | ORename (PMsg f s k i) (PMsg g s' k' i') =>
      live s && live s' && bytes_eqb k k' && (fname_eqb f g || bytes_eqb i i')
  | ORename (PTmp f n) (PCtl g CUidl) => fname_eqb f g && install_ok m f n
  | ORename (PTmp [] _) (PCtl [] CSubs) => true
  | _ => false
  end.

(* every operation legal in the state it is applied to (a failing operation
   ends the list, as in FS.apply_ops) *)
Fixpoint legal_ops_b (lay : layout) (m : fs) (l : list fsop) : bool :=
  match l with
  | [] => true
  | o :: r => legal_b m o && match apply_op lay m o with
                             | Some m' => legal_ops_b lay m' r
                             | None => true
                             end
  end.
