(* MaildirFS/UidList.v — the text formats of the maildir control files:
   dovecot-uidlist (pymap/backend/maildir/uidlist.py: _build_header,
   _build_line, write; open/_read_header, read/_read_line) and subscriptions
   (subscriptions.py).  Files are written through a text-mode file object
   ('\r\n' line ends are written as they are on Linux) and read back in
   universal-newlines mode ('\r\n' and '\r' become '\n').

   Domain: ASCII text; numerals are plain decimal digit strings (Python's
   int() also accepts signs, underscores and surrounding white space; those
   spellings are never written by the backend and are outside this model —
   the model answers Exc 1 for them).

   Definitions only. *)
From PV Require Import Base.Prelude Base.Decimal.
Local Open Scope N_scope.

Record urec := { r_uid : N; r_fields : list (N * bytes); r_fname : bytes }.
Record uidl := { u_val : N; u_next : N; u_guid : bytes; u_recs : list urec }.

(* Record.key = filename.split(':', 1)[0] *)
Fixpoint before_colon (b : bytes) : bytes :=
  match b with
  | [] => []
  | c :: r => if (c =? 58) then [] else c :: before_colon r
  end.
Definition r_key (r : urec) : bytes := before_colon (r_fname r).

(* ---------------------------------------------------------------- print *)
Fixpoint insert_field (f : N * bytes) (l : list (N * bytes)) : list (N * bytes) :=
  match l with
  | [] => [f]
  | g :: r => if (fst f <=? fst g) then f :: g :: r else g :: insert_field f r
  end.
(* sorted(rec.fields.items()) — keys are distinct, so only keys matter *)
Definition sort_fields (l : list (N * bytes)) : list (N * bytes) :=
  fold_right insert_field [] l.

Definition print_field (f : N * bytes) : bytes := 32 :: fst f :: snd f.

Definition print_rec (r : urec) : bytes :=
  dec_of_N (r_uid r) ++ flat_map print_field (sort_fields (r_fields r))
  ++ [32; 58] ++ r_fname r ++ [13; 10].

Definition print_header (u : uidl) : bytes :=
  [51; 32; 86] ++ dec_of_N (u_val u) ++ [32; 78] ++ dec_of_N (u_next u)
  ++ [32; 71] ++ u_guid u ++ [13; 10].

Definition print_uidl (u : uidl) : bytes :=
  print_header u ++ flat_map print_rec (u_recs u).

(* ---------------------------------------------------------------- parse *)
(* universal newlines: \r\n -> \n, lone \r -> \n *)
Fixpoint unl (b : bytes) : bytes :=
  match b with
  | [] => []
  | c :: r =>
      if (c =? 13) then
        match r with
        | d :: r' => if (d =? 10) then 10 :: unl r' else 10 :: unl r
        | [] => [10]
        end
      else c :: unl r
  end.

(* split after every \n, keeping the line ends (iteration over a text file) *)
Fixpoint lines_acc (cur : bytes) (b : bytes) : list bytes :=
  match b with
  | [] => match cur with [] => [] | _ => [rev cur] end
  | c :: r => if (c =? 10) then rev (c :: cur) :: lines_acc [] r
              else lines_acc (c :: cur) r
  end.
Definition lines (b : bytes) : list bytes := lines_acc [] b.

(* str.isspace on ASCII *)
Definition is_space (c : N) : bool :=
  ((9 <=? c) && (c <=? 13) || (28 <=? c) && (c <=? 32)).

(* str.split(): maximal runs of non-space characters *)
Fixpoint words_acc (cur : bytes) (b : bytes) : list bytes :=
  match b with
  | [] => match cur with [] => [] | _ => [rev cur] end
  | c :: r => if is_space c
              then match cur with [] => words_acc [] r | _ => rev cur :: words_acc [] r end
              else words_acc (c :: cur) r
  end.
Definition words (b : bytes) : list bytes := words_acc [] b.

(* str.split(' '): fields between single spaces (empty fields kept) *)
Fixpoint split_sp_acc (cur : bytes) (b : bytes) : list bytes :=
  match b with
  | [] => [rev cur]
  | c :: r => if (c =? 32) then rev cur :: split_sp_acc [] r
              else split_sp_acc (c :: cur) r
  end.
Definition split_sp (b : bytes) : list bytes := split_sp_acc [] b.

(* str.split(':', 1) *)
Fixpoint split_colon (b : bytes) : option (bytes * bytes) :=
  match b with
  | [] => None
  | c :: r => if (c =? 58) then Some ([], r)
              else match split_colon r with
                   | Some (x, y) => Some (c :: x, y)
                   | None => None
                   end
  end.

(* str.rstrip() *)
Definition rstrip (b : bytes) : bytes :=
  fold_right (fun c acc => match acc with
                           | [] => if is_space c then [] else [c]
                           | _ => c :: acc
                           end) [] b.

(* int(s) for a plain digit string; anything else: ValueError *)
Definition py_int (b : bytes) : option N :=
  match parse_number b with
  | Some (n, []) => Some n
  | _ => None
  end.

Definition exc_value : N := 1.    (* ValueError *)
Definition exc_index : N := 2.    (* IndexError *)

(* dict assignment fields[k] = v: overwrite in place, else append *)
Fixpoint set_field (k : N) (v : bytes) (l : list (N * bytes)) : list (N * bytes) :=
  match l with
  | [] => [(k, v)]
  | (k', v') :: r => if (k' =? k) then (k, v) :: r else (k', v') :: set_field k v r
  end.

Definition cols_fields (cols : list bytes) : list (N * bytes) :=
  fold_left (fun acc col => match col with
                            | [] => acc
                            | k :: v => set_field k v acc
                            end) cols [].

(* UidList._read_line *)
Definition parse_line (line : bytes) : result urec :=
  match split_colon line with
  | None => Exc exc_value
  | Some (before, fname) =>
      match split_sp before with
      | [] => Exc exc_index
      | d0 :: cols =>
          match py_int d0 with
          | None => Exc exc_value
          | Some n => Ok {| r_uid := n; r_fields := cols_fields cols;
                            r_fname := rstrip fname |}
          end
      end
  end.

(* UidList._read_header; the three values seen so far *)
Fixpoint header_fields (ws : list bytes) (v n : option N) (g : option bytes)
  : result (option N * option N * option bytes) :=
  match ws with
  | [] => Ok (v, n, g)
  | [] :: r => header_fields r v n g          (* cannot happen: words are non-empty *)
  | (c :: x) :: r =>
      if (c =? 86) then
        match py_int x with Some k => header_fields r (Some k) n g | None => Exc exc_value end
      else if (c =? 78) then
        match py_int x with Some k => header_fields r v (Some k) g | None => Exc exc_value end
      else if (c =? 71) then header_fields r v n (Some x)
      else header_fields r v n g
  end.

Definition parse_header (line : bytes) : result (N * N * bytes) :=
  match words line with
  | [] => Exc exc_index
  | w0 :: ws =>
      if bytes_eqb w0 [51] then
        match header_fields ws None None None with
        | Ok (Some v, Some n, Some g) =>
            (* an empty G value is accepted; the reader then draws a fresh
               random id, which the model writes as the empty id *)
            Ok (v, n, g)
        | Ok _ => Exc exc_value
        | Exc k => Exc k
        | NotParseable => NotParseable
        | OutOfFuel => OutOfFuel
        end
      else Exc exc_value
  end.

(* dict assignment records[uid] = rec *)
Fixpoint set_rec (r : urec) (l : list urec) : list urec :=
  match l with
  | [] => [r]
  | x :: t => if (r_uid x =? r_uid r) then r :: t else x :: set_rec r t
  end.

Fixpoint parse_recs (ls : list bytes) (acc : list urec) : result (list urec) :=
  match ls with
  | [] => Ok acc
  | l :: r => match parse_line l with
              | Ok rec => parse_recs r (set_rec rec acc)
              | Exc k => Exc k
              | NotParseable => NotParseable
              | OutOfFuel => OutOfFuel
              end
  end.

(* UidList.file_read on the bytes of the file *)
Definition parse_uidl (b : bytes) : result uidl :=
  match lines (unl b) with
  | [] => Exc exc_index                     (* readline() = '' -> data[0] *)
  | h :: ls =>
      match parse_header h with
      | Ok (v, n, g) =>
          match parse_recs ls [] with
          | Ok recs => Ok {| u_val := v; u_next := n; u_guid := g; u_recs := recs |}
          | Exc k => Exc k
          | NotParseable => NotParseable
          | OutOfFuel => OutOfFuel
          end
      | Exc k => Exc k
      | NotParseable => NotParseable
      | OutOfFuel => OutOfFuel
      end
  end.

(* -------------------------------------------------------- well-formedness *)
Definition name_char (c : N) : bool :=        (* printable ASCII, no space *)
  ((33 <=? c) && (c <=? 126)).
Definition value_char (c : N) : bool := name_char c && negb (c =? 58).

Fixpoint keys_sorted (l : list (N * bytes)) : bool :=
  match l with
  | [] => true
  | f :: r => match r with
              | [] => true
              | g :: _ => (fst f <? fst g)
              end && keys_sorted r
  end.

Definition wf_field (f : N * bytes) : bool :=
  value_char (fst f) && forallb value_char (snd f).

Definition wf_fname (b : bytes) : bool :=
  forallb name_char b.

Definition wf_rec (r : urec) : bool :=
  forallb wf_field (r_fields r) && keys_sorted (r_fields r) && wf_fname (r_fname r).

Fixpoint nodup_uids (l : list urec) : bool :=
  match l with
  | [] => true
  | r :: t => negb (existsb (fun x => (r_uid x =? r_uid r)) t) && nodup_uids t
  end.

Definition wf_uidl (u : uidl) : bool :=
  match u_guid u with [] => false | _ => true end
  && forallb name_char (u_guid u)
  && forallb wf_rec (u_recs u) && nodup_uids (u_recs u).

(* --------------------------------------------------------- subscriptions *)
Definition print_subs (names : list bytes) : bytes :=
  flat_map (fun n => n ++ [13; 10]) names.

Fixpoint add_name (n : bytes) (l : list bytes) : list bytes :=
  match l with
  | [] => [n]
  | x :: r => if bytes_eqb x n then x :: r else x :: add_name n r
  end.

(* str.rstrip('\r\n') *)
Definition rstrip_nl (b : bytes) : bytes :=
  fold_right (fun c acc => match acc with
                           | [] => if (c =? 13) || (c =? 10) then [] else [c]
                           | _ => c :: acc
                           end) [] b.

Definition parse_subs (b : bytes) : list bytes :=
  fold_left (fun acc l => add_name (rstrip_nl l) acc) (lines (unl b)) [].

Fixpoint nodup_names (l : list bytes) : bool :=
  match l with
  | [] => true
  | n :: r => negb (existsb (bytes_eqb n) r) && nodup_names r
  end.
Definition wf_subs (l : list bytes) : bool :=
  forallb (fun n => forallb name_char n) l && nodup_names l.

(* ---------------------------------------------------------- comparisons *)
Definition field_eqb (a b : N * bytes) : bool :=
  N.eqb (fst a) (fst b) && bytes_eqb (snd a) (snd b).
Definition urec_eqb (a b : urec) : bool :=
  N.eqb (r_uid a) (r_uid b) && eqb_list field_eqb (r_fields a) (r_fields b)
  && bytes_eqb (r_fname a) (r_fname b).
Definition uidl_eqb (a b : uidl) : bool :=
  N.eqb (u_val a) (u_val b) && N.eqb (u_next a) (u_next b)
  && bytes_eqb (u_guid a) (u_guid b) && eqb_list urec_eqb (u_recs a) (u_recs b).
