(* MaildirFS/Check.v — boolean case checkers of the correspondence runs of
   harness/props/C15.py and C14.py: the values observed on the real backend
   are inside each case, the model recomputes them under vm_compute. *)
From PV Require Import Base.Prelude Base.Decimal MaildirFS.FS MaildirFS.UidList MaildirFS.Ops
  MaildirFS.Spec MaildirFS.Legal.
Local Open Scope N_scope.

(* ---- uid list / subscriptions text *)
Definition chk_uidl_print (c : uidl * bytes) : bool :=
  bytes_eqb (print_uidl (fst c)) (snd c).

(* (file bytes, None = the real reader raised | Some value) *)
Definition chk_uidl_parse (c : bytes * option uidl) : bool :=
  match parse_uidl (fst c), snd c with
  | Ok u, Some u' => uidl_eqb u u'
  | Exc _, None => true
  | _, _ => false
  end.

Definition chk_subs_print (c : list bytes * bytes) : bool :=
  bytes_eqb (print_subs (fst c)) (snd c).
Definition chk_subs_parse (c : bytes * list bytes) : bool :=
  eqb_list bytes_eqb (parse_subs (fst c)) (snd c).

Definition is_rename (c : cmd) : bool :=
  match c with CRename _ _ _ => true | _ => false end.

(* ---- operation traces: (layout, initial fs, [(command, observed ops,
   observed status)], final directory snapshot) *)
Fixpoint chk_cmds (lay : layout) (m : fs) (sel : selection)
         (l : list (cmd * list fsop * ack)) (final : fs) : bool :=
  match l with
  | [] => fs_same m final
  | (c, ops, a) :: r =>
      let o := run_cmd lay m sel c in
      let '(m', ok) := apply_ops lay m (o_ops o) in
      eqb_list fsop_eqb (o_ops o) ops && ack_eqb (o_ack o) a && ok
      (* every operation is of a legal kind in the state it is applied to
         (proved for every command in CommandProofs.v; re-evaluated here) *)
      && legal_ops_b lay m (o_ops o)
      && chk_cmds lay m' (o_sel o) r final
  end.

(* the directory the real backend starts from (and ends with) satisfies the
   invariant the theorems assume (LegalProofs.inv_b_sound) *)
Definition chk_history (c : layout * fs * list (cmd * list fsop * ack) * fs) : bool :=
  let '(lay, m, l, final) := c in inv_b m && inv_b final && chk_cmds lay m None l final.

(* index of the first command on which model and trace differ (diagnosis) *)
Fixpoint first_bad (lay : layout) (m : fs) (sel : selection)
         (l : list (cmd * list fsop * ack)) (i : nat) : option (nat * list fsop * ack) :=
  match l with
  | [] => None
  | (c, ops, a) :: r =>
      let o := run_cmd lay m sel c in
      let '(m', ok) := apply_ops lay m (o_ops o) in
      if eqb_list fsop_eqb (o_ops o) ops && ack_eqb (o_ack o) a && ok
         && legal_ops_b lay m (o_ops o)
      then first_bad lay m' (o_sel o) r (S i)
      else Some (i, o_ops o, o_ack o)
  end.

(* ---- recovery: what a fresh server serves from a (crashed) directory *)
Inductive oview :=
| OServed (validity next : N) (msgs : list (N * bytes * N))   (* uid, flag letters, cid *)
| OBroken
| OLocked.

Definition msg_eqb (s : served) (o : N * bytes * N) : bool :=
  let '(uid, fl, cid) := o in
  (s_uid s =? uid) && bytes_eqb (s_flags s) fl && (s_cid s =? cid).

Fixpoint list_eqb2 {A B} (eqb : A -> B -> bool) (a : list A) (b : list B) : bool :=
  match a, b with
  | [], [] => true
  | x :: xs, y :: ys => eqb x y && list_eqb2 eqb xs ys
  | _, _ => false
  end.

Definition view_matches (v : fview) (o : oview) : bool :=
  match v, o with
  | VServed vo nx ms, OServed val n l =>
      match vo with Some x => x =? val | None => true end
      && (nx =? n) && list_eqb2 msg_eqb ms l
  | VBroken, OBroken => true
  | VLocked, OLocked => true
  | _, _ => false
  end.

Fixpoint join_name (f : fname) : bytes :=
  match f with
  | [] => []
  | [x] => x
  | x :: r => x ++ 47 :: join_name r
  end.

(* LSUB: INBOX and every subscribed name (whether or not a mailbox of that
   name exists), possibly with the superior names of subscribed names; None
   when subscriptions.lock is present (the command answers NO [TIMEOUT]) *)
Definition inbox_name : bytes := [73; 78; 66; 79; 88].

Fixpoint is_superior (a n : bytes) : bool :=     (* n = a ++ "/" ++ _ *)
  match a, n with
  | [], 47 :: _ => true
  | x :: a', y :: n' => (x =? y) && is_superior a' n'
  | _, _ => false
  end.

Definition lsub_ok (subs observed : list bytes) : bool :=
  forallb (fun n => existsb (bytes_eqb n) observed) (inbox_name :: subs)
  && forallb (fun o => bytes_eqb o inbox_name || existsb (bytes_eqb o) subs
                       || existsb (is_superior o) subs) observed.

Definition recover_lsub (m : fs) : option (list bytes) :=
  if exists_ m (PCtl [] CSubsLock) then None else Some (recover_subs m).

Record odump := { d_views : list (fname * oview)%type;   (* one per listed mailbox *)
                  d_lsub : option (list bytes) }.

(* the executable view (directory scans) and the [serves] predicate of the
   theorems (path lookups) agree on this state: every message the view serves
   is found by looking its path up, with the same content *)
Definition view_by_lookup (m : fs) (f : fname) : bool :=
  match recover_folder m f with
  | VServed _ _ ms =>
      forallb (fun s => match lookup m (PMsg f (if s_recent s then SNew else SCur)
                                             (s_key s) (s_info s)) with
                        | Some (File (Opaque c)) => c =? s_cid s
                        | _ => false
                        end) ms
  | _ => true
  end.

Definition chk_dump (m : fs) (d : odump) : bool :=
  perm_of fname_eqb (map fst (d_views d)) (folders_of m)
  && forallb (view_by_lookup m) (folders_of m)
  && forallb (fun fv => view_matches (recover_folder m (fst fv)) (snd fv)) (d_views d)
  && match recover_lsub m, d_lsub d with
     | Some l, Some l' => lsub_ok l l'
     | None, None => true
     | _, _ => false
     end.

(* (layout, initial fs, history, [(k, locks expired?, dump of a fresh server
   started on the directory left by a process killed after k operations)]) *)
Definition chk_crash (c : layout * fs * list cmd * list (nat * bool * odump)) : bool :=
  let '(lay, m0, h, l) := c in
  let ops := hist_ops lay m0 None h in
  forallb (fun kd : (nat * bool * odump)%type =>
    let '(k, aged, d) := kd in
    let '(m, ok) := apply_ops lay m0 (crash k ops) in
    ok && inv_b m && chk_dump (if aged then expire_locks m else m) d) l.

(* a plain snapshot against a dump *)
Definition chk_snapshot (c : fs * odump) : bool := chk_dump (fst c) (snd c).
