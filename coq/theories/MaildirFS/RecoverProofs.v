(* MaildirFS/RecoverProofs.v — the executable view of a restarted server
   ([Ops.recover_folder]: directory scans) and the [serves] predicate of the
   theorems (path lookups) agree in every state satisfying Inv. *)
From PV Require Import Base.Prelude Base.Decimal MaildirFS.FS MaildirFS.UidList MaildirFS.Ops
  MaildirFS.Spec MaildirFS.FSProofs MaildirFS.UidListProofs MaildirFS.DurabilityProofs
  MaildirFS.Legal MaildirFS.LegalProofs MaildirFS.CrashProofs MaildirFS.CommandProofs.
Local Open Scope N_scope.

Lemma adopt_val u l : u_val (adopt u l) = u_val u.
Proof. revert u. induction l as [|x l IH]; intro u; cbn [adopt]; [reflexivity|].
  rewrite IH. reflexivity. Qed.

Lemma adopt_recs u l : exists extra, u_recs (adopt u l) = u_recs u ++ extra.
Proof.
  revert u. induction l as [|x l IH]; intro u; cbn [adopt].
  - exists []. rewrite app_nil_r. reflexivity.
  - destruct (IH {| u_val := u_val u; u_next := u_next u + 1; u_guid := u_guid u;
                    u_recs := u_recs u ++ [{| r_uid := u_next u; r_fields := [];
                                              r_fname := m_key x ++ 58 :: m_info x |}] |})
      as [extra E].
    cbn [u_recs] in E. eexists. rewrite E, <- app_assoc. reflexivity.
Qed.

Lemma uidl_at_read m f u : uidl_at m f u -> read_uidl m f = Some (Ok u).
Proof. intros [t [Hl Hp]]. unfold read_uidl. rewrite Hl, Hp. reflexivity. Qed.

(* the file a scan finds for a key is the one a lookup finds *)
Lemma find_file_lookup m f k i c :
  Inv m -> file_at m f k i c ->
  exists x, find_file (files_of m f) k = Some x /\ m_key x = k /\ m_info x = i /\ m_cid x = c.
Proof.
  intros I [s [Hs Hl]].
  destruct (find_file (files_of m f) k) as [x|] eqn:E.
  - exists x. split; [reflexivity|]. destruct (find_file_some _ _ _ E) as [Hx Hk].
    destruct (files_of_lookup _ _ _ I Hx) as [Hlx [Hsx _]]. rewrite Hk in Hlx.
    destruct I as [_ I2 _ _]. destruct (I2 _ _ _ _ _ _ _ _ _ Hsx Hs Hlx Hl) as [_ [Es Ei]].
    rewrite Es, Ei in Hlx. rewrite Hl in Hlx. injection Hlx as Ec. repeat split; congruence.
  - exfalso. apply (has_file_find m f k I); [exists i, c, s; split; assumption|exact E].
Qed.

Definition view_has (v : fview) (val uid : N) (k fl : bytes) (c : N) : Prop :=
  exists nx ms, v = VServed (Some val) nx ms /\
    exists s, In s ms /\ s_uid s = uid /\ s_key s = k /\ s_flags s = fl /\ s_cid s = c.

(* what the theorems call served, a restarted server serves *)
Theorem serves_recover m f v uid k fl c :
  Inv m -> folder_ok m f = true -> exists_ m (PCtl f CUidlLock) = false ->
  serves m f v uid k fl c -> view_has (recover_folder m f) v uid k fl c.
Proof.
  intros I Hok Hlock [u [i [Hu [Hv [[r [Hr [Hru Hrk]]] [Hf Hfl]]]]]].
  unfold recover_folder. rewrite Hok, Hlock. cbn [negb]. rewrite (uidl_at_read _ _ _ Hu).
  destruct (find_file_lookup _ _ _ _ _ I Hf) as [x [Ex [Hk [Hi Hc]]]].
  eexists _, _. split; [rewrite adopt_val, Hv; reflexivity|].
  exists {| s_uid := r_uid r; s_key := m_key x; s_info := m_info x;
            s_flags := flags_of_info (m_info x); s_cid := m_cid x;
            s_recent := sub_eqb (m_sub x) SNew |}.
  split.
  - unfold serve. apply in_flat_map. exists r. split.
    + destruct (adopt_recs u (unknown_files u (files_of m f))) as [extra E]. rewrite E.
      apply in_or_app. left. exact Hr.
    + rewrite Hrk, Ex. left. reflexivity.
  - cbn [s_uid s_key s_flags s_cid]. split; [exact Hru|]. split; [exact Hk|].
    split; [rewrite Hi; exact Hfl|exact Hc].
Qed.

(* and conversely, when no file is waiting for adoption *)
Theorem recover_serves m f u nx ms s :
  Inv m -> ready m f = Some u -> recover_folder m f = VServed (Some (u_val u)) nx ms ->
  In s ms -> serves m f (u_val u) (s_uid s) (s_key s) (s_flags s) (s_cid s).
Proof.
  intros I Hr E Hs. pose proof (ready_uidl_at _ _ _ Hr) as Hu.
  unfold recover_folder in E. unfold ready in Hr.
  destruct (folder_ok m f); [|discriminate]. cbn [negb] in E.
  destruct (exists_ m (PCtl f CUidlLock)); [discriminate|].
  rewrite (uidl_at_read _ _ _ Hu) in E, Hr.
  destruct (unknown_files u (files_of m f)) eqn:Eu; [|discriminate].
  cbn [adopt] in E. injection E as _ <-.
  unfold serve in Hs. apply in_flat_map in Hs as [r [Hrec Hs]].
  destruct (find_file (files_of m f) (r_key r)) as [x|] eqn:Ex; [|destruct Hs].
  destruct Hs as [<-|[]]. cbn [s_uid s_key s_flags s_cid].
  destruct (find_file_some _ _ _ Ex) as [Hx Hk].
  destruct (files_of_lookup _ _ _ I Hx) as [Hl [Hlive _]].
  exists u, (m_info x). split; [exact Hu|]. split; [reflexivity|].
  split; [exists r; repeat split; [exact Hrec|symmetry; exact Hk]|].
  split; [exists (m_sub x); split; assumption|reflexivity].
Qed.
