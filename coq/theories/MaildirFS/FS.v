(* MaildirFS/FS.v — an abstract filesystem for the maildir backend.

   Paths are typed: every path the maildir backend touches inside one user's
   store is one of five shapes (the harness maps the strings seen by the real
   os.* calls onto them, layout-specifically).  A filesystem is an association
   list path -> node; the operations are the system calls the backend makes:
   mkdir, rmdir, O_EXCL create, truncate-write, rename (atomic, replaces the
   target), link, unlink, utime.  [apply_op] returns None when the call would
   fail (ENOENT / EEXIST / ENOTEMPTY); a command's operation list stops there.

   Definitions only; proofs are in FSProofs.v / Durability.v. *)
From PV Require Import Base.Prelude.

Definition fname := list bytes.        (* folder name parts; [] is INBOX *)

Inductive sub := SNew | SCur | STmp.
Inductive ctl := CUidl | CUidlLock | CMdf | CSubs | CSubsLock.

Inductive path :=
| PDir (f : fname)                               (* the folder's directory *)
| PSub (f : fname) (s : sub)                     (* F/new  F/cur  F/tmp *)
| PMsg (f : fname) (s : sub) (key info : bytes)  (* F/s/key[:info]; info=[] means no colon *)
| PCtl (f : fname) (c : ctl)                     (* dovecot-uidlist[.lock], maildirfolder, subscriptions[.lock] *)
| PTmp (f : fname) (n : bytes).                  (* temporary file of a control-file rewrite, in F *)

Inductive content :=
| Opaque (id : N)      (* message bytes, identified by a content id *)
| Text (b : bytes).    (* control-file text *)

Inductive node := Dir | File (c : content).

Definition fs := list (path * node).

Inductive layout := LPlus | LFs.      (* Maildir++ (flat .a.b) or fs (nested a/b) *)

(* ---- decidable equalities *)
Definition sub_eqb (a b : sub) : bool :=
  match a, b with SNew, SNew | SCur, SCur | STmp, STmp => true | _, _ => false end.
Definition ctl_eqb (a b : ctl) : bool :=
  match a, b with
  | CUidl, CUidl | CUidlLock, CUidlLock | CMdf, CMdf | CSubs, CSubs
  | CSubsLock, CSubsLock => true
  | _, _ => false
  end.
Definition fname_eqb : fname -> fname -> bool := eqb_list bytes_eqb.

Definition path_eqb (p q : path) : bool :=
  match p, q with
  | PDir f, PDir g => fname_eqb f g
  | PSub f s, PSub g t => fname_eqb f g && sub_eqb s t
  | PMsg f s k i, PMsg g t l j =>
      fname_eqb f g && sub_eqb s t && bytes_eqb k l && bytes_eqb i j
  | PCtl f c, PCtl g d => fname_eqb f g && ctl_eqb c d
  | PTmp f n, PTmp g m => fname_eqb f g && bytes_eqb n m
  | _, _ => false
  end.

Definition content_eqb (a b : content) : bool :=
  match a, b with
  | Opaque x, Opaque y => N.eqb x y
  | Text x, Text y => bytes_eqb x y
  | _, _ => false
  end.
Definition node_eqb (a b : node) : bool :=
  match a, b with
  | Dir, Dir => true
  | File x, File y => content_eqb x y
  | _, _ => false
  end.

(* ---- lookup / update *)
Fixpoint lookup (m : fs) (p : path) : option node :=
  match m with
  | [] => None
  | (q, n) :: r => if path_eqb q p then Some n else lookup r p
  end.

Definition exists_ (m : fs) (p : path) : bool :=
  match lookup m p with Some _ => true | None => false end.

Definition remove (m : fs) (p : path) : fs :=
  filter (fun e => negb (path_eqb (fst e) p)) m.

(* new entries go to the end: the list order plays the role of os.listdir order *)
Definition add (m : fs) (p : path) (n : node) : fs := remove m p ++ [(p, n)].

Fixpoint replace (m : fs) (p : path) (n : node) : fs :=
  match m with
  | [] => []
  | (q, x) :: r => if path_eqb q p then (q, n) :: r else (q, x) :: replace r p n
  end.

(* ---- which folder a path belongs to, and re-rooting for directory renames *)
Definition folder_of (p : path) : fname :=
  match p with
  | PDir f | PSub f _ | PMsg f _ _ _ | PCtl f _ | PTmp f _ => f
  end.

Definition with_folder (p : path) (g : fname) : path :=
  match p with
  | PDir _ => PDir g
  | PSub _ s => PSub g s
  | PMsg _ s k i => PMsg g s k i
  | PCtl _ c => PCtl g c
  | PTmp _ n => PTmp g n
  end.

Fixpoint strip_prefix (a f : fname) : option fname :=   (* f = a ++ r  ->  Some r *)
  match a, f with
  | [], r => Some r
  | x :: a', y :: f' => if bytes_eqb x y then strip_prefix a' f' else None
  | _ :: _, [] => None
  end.

(* Where an entry of folder f ends up when directory a is renamed to b.
   Maildir++: folders are sibling directories, only f = a moves.
   fs layout: folders are nested, every f = a ++ r moves to b ++ r. *)
Definition moved_folder (lay : layout) (a b f : fname) : option fname :=
  match lay with
  | LPlus => if fname_eqb a f then Some b else None
  | LFs => match a with
           | [] => None       (* INBOX is the root itself, never renamed *)
           | _ => match strip_prefix a f with Some r => Some (b ++ r) | None => None end
           end
  end.

(* where a path ends up when the directory of folder a is renamed to b *)
Definition move_path (lay : layout) (a b : fname) (p : path) : path :=
  match moved_folder lay a b (folder_of p) with
  | Some g => with_folder p g
  | None => p
  end.

Definition rename_dir (lay : layout) (m : fs) (a b : fname) : fs :=
  map (fun e => match moved_folder lay a b (folder_of (fst e)) with
                | Some g => (with_folder (fst e) g, snd e)
                | None => e
                end) m.

(* entries directly inside a directory path (for rmdir's ENOTEMPTY) *)
Definition is_child (d p : path) : bool :=
  match d, p with
  | PSub f s, PMsg g t _ _ => fname_eqb f g && sub_eqb s t
  | PDir f, PSub g _ | PDir f, PCtl g _ | PDir f, PTmp g _ => fname_eqb f g
  | _, _ => false
  end.

Definition parent_ok (m : fs) (p : path) : bool :=
  match p with
  | PDir _ => true          (* parents of folder directories: checked by the command model *)
  | PSub f _ | PCtl f _ | PTmp f _ => exists_ m (PDir f)
  | PMsg f s _ _ => exists_ m (PSub f s)
  end.

Definition is_dir_path (p : path) : bool :=
  match p with PDir _ | PSub _ _ => true | _ => false end.

(* ---- operations *)
Inductive fsop :=
| OMkdir (p : path)
| ORmdir (p : path)
| OCreat (p : path)                (* open(O_CREAT|O_EXCL) / open(p, 'x') *)
| OWrite (p : path) (c : content)  (* write the whole content of an existing file *)
| ORename (p q : path)             (* rename(2): atomic, replaces q *)
| ORenameDir (a b : fname)         (* rename(2) of a folder directory *)
| OLink (p q : path)               (* link(2): q must not exist *)
| OUnlink (p : path)
| OUtime (p : path).

Definition apply_op (lay : layout) (m : fs) (o : fsop) : option fs :=
  match o with
  | OMkdir p =>
      if is_dir_path p && negb (exists_ m p) && parent_ok m p
      then Some (add m p Dir) else None
  | ORmdir p =>
      match lookup m p with
      | Some Dir => if existsb (fun e => is_child p (fst e)) m then None
                    else Some (remove m p)
      | _ => None
      end
  | OCreat p =>
      if negb (is_dir_path p) && negb (exists_ m p) && parent_ok m p
      then Some (add m p (File (Text []))) else None
  | OWrite p c =>
      match lookup m p with
      | Some (File _) => Some (replace m p (File c))
      | _ => None
      end
  | ORename p q =>
      match lookup m p with
      | Some (File c) =>
          if negb (is_dir_path q) && parent_ok m q
          then if path_eqb p q then Some m
               else Some (add (remove m p) q (File c))
          else None
      | _ => None
      end
  | ORenameDir a b =>
      match lookup m (PDir a) with
      | Some Dir => if exists_ m (PDir b) then None else Some (rename_dir lay m a b)
      | _ => None
      end
  | OLink p q =>
      match lookup m p with
      | Some (File c) =>
          if negb (is_dir_path q) && negb (exists_ m q) && parent_ok m q
          then Some (add m q (File c)) else None
      | _ => None
      end
  | OUnlink p =>
      match lookup m p with
      | Some (File _) => Some (remove m p)
      | _ => None
      end
  | OUtime p => if exists_ m p then Some m else None
  end.

(* Run a list of operations; stop at the first one that fails (the Python
   call raises and the rest of the command is not executed).  The boolean
   says whether every operation succeeded. *)
Fixpoint apply_ops (lay : layout) (m : fs) (l : list fsop) : fs * bool :=
  match l with
  | [] => (m, true)
  | o :: r => match apply_op lay m o with
              | Some m' => apply_ops lay m' r
              | None => (m, false)
              end
  end.

(* the directory rename collides with nothing: no two entries end up under
   one path (what rename(2) of a directory onto a free name guarantees on a
   real filesystem; the association list could also hold entries below a
   directory that does not exist) *)
Definition rename_clear (lay : layout) (m : fs) (a b : fname) : bool :=
  forallb (fun e1 => forallb (fun e2 =>
    implb (path_eqb (move_path lay a b (fst e1)) (move_path lay a b (fst e2)))
          (path_eqb (fst e1) (fst e2))) m) m.

(* the process is killed after its first k operations *)
Definition crash (k : nat) (l : list fsop) : list fsop := firstn k l.

(* ---- equalities on operations (trace comparison) *)
Definition fsop_eqb (a b : fsop) : bool :=
  match a, b with
  | OMkdir p, OMkdir q | ORmdir p, ORmdir q | OCreat p, OCreat q
  | OUnlink p, OUnlink q | OUtime p, OUtime q => path_eqb p q
  | OWrite p c, OWrite q d => path_eqb p q && content_eqb c d
  | ORename p q, ORename p' q' | OLink p q, OLink p' q' =>
      path_eqb p p' && path_eqb q q'
  | ORenameDir a b, ORenameDir a' b' => fname_eqb a a' && fname_eqb b b'
  | _, _ => false
  end.

(* ---- canonical comparison of two filesystems (same entries, any order) *)
Definition fs_incl (a b : fs) : bool :=
  forallb (fun e => match lookup b (fst e) with
                    | Some n => node_eqb n (snd e)
                    | None => false
                    end) a.
Definition fs_same (a b : fs) : bool :=
  fs_incl a b && fs_incl b a && Nat.eqb (length a) (length b).
