(* MaildirFS/Ops.v — every maildir-backend command as a list of filesystem
   operations (pymap/backend/maildir/mailbox.py, io.py, layout.py,
   subscriptions.py, pymap/backend/session.py), and what a fresh server
   serves from a directory ([recover]).

   The names the backend draws (maildir keys, temp-file names, object ids,
   uid validity, the os.listdir order of new/ and of the folder directories)
   are part of the command value: the harness fills them in from the observed
   trace and the model checks that each is one it allows (fresh / a
   permutation).  The operation list of a command is a function of the
   filesystem state at its start and of the session's selection only — the
   backend re-reads the directory on every command.

   Definitions only. *)
From PV Require Import Base.Prelude Base.Decimal MaildirFS.FS MaildirFS.UidList.
Local Open Scope N_scope.

(* ------------------------------------------------------------ reading *)
Record mfile := { m_sub : sub; m_key : bytes; m_info : bytes; m_cid : N }.

(* message files of folder f in new/ and cur/, in directory order *)
Definition files_of (m : fs) (f : fname) : list mfile :=
  flat_map (fun e =>
    match e with
    | (PMsg g s k i, File (Opaque c)) =>
        if fname_eqb f g && negb (sub_eqb s STmp)
        then [{| m_sub := s; m_key := k; m_info := i; m_cid := c |}] else []
    | _ => []
    end) m.

Definition find_file (fl : list mfile) (key : bytes) : option mfile :=
  find (fun x => bytes_eqb (m_key x) key) fl.

(* the uid list of folder f: None = no file; Some (Exc _) = unreadable *)
Definition read_uidl (m : fs) (f : fname) : option (result uidl) :=
  match lookup m (PCtl f CUidl) with
  | Some (File (Text b)) => Some (parse_uidl b)
  | Some _ => Some (Exc 3)
  | None => None
  end.

Definition folder_ok (m : fs) (f : fname) : bool :=
  exists_ m (PDir f) && exists_ m (PSub f SNew) && exists_ m (PSub f SCur)
  && exists_ m (PSub f STmp).

Definition rec_known (recs : list urec) (key : bytes) : bool :=
  existsb (fun r => bytes_eqb (r_key r) key) recs.

Definition unknown_files (u : uidl) (fl : list mfile) : list mfile :=
  filter (fun x => negb (rec_known (u_recs u) (m_key x))) fl.

Definition fname_of_file (x : mfile) : bytes :=
  match m_info x with [] => m_key x | i => m_key x ++ 58 :: i end.

(* MailboxData.reset: adopt files without a record, in directory order. *)
Fixpoint adopt (u : uidl) (fl : list mfile) : uidl :=
  match fl with
  | [] => u
  | x :: r =>
      adopt {| u_val := u_val u; u_next := u_next u + 1; u_guid := u_guid u;
               u_recs := u_recs u ++ [{| r_uid := u_next u; r_fields := [];
                                         r_fname := m_key x ++ 58 :: m_info x |}] |} r
  end.
(* (the real records also carry two freshly drawn object ids E/T; they play
   no role in what is served and are left out) *)

(* ------------------------------------------------------------ the view *)
(* flag letters of a maildir info string: the part after "2," *)
Definition letters_of (info : bytes) : bytes :=
  match info with
  | 50 :: 44 :: r => r
  | _ => []
  end.

Definition sys_letters : bytes := [68; 70; 82; 83; 84].   (* D F R S T *)
Definition mem_n (c : N) (l : bytes) : bool := existsb (N.eqb c) l.
(* MaildirFlags.from_maildir: stop at ',', keep the system flags *)
Fixpoint upto_comma (l : bytes) : bytes :=
  match l with
  | [] => []
  | c :: r => if c =? 44 then [] else c :: upto_comma r
  end.
Definition flags_of_info (info : bytes) : bytes :=
  filter (fun c => mem_n c (upto_comma (letters_of info))) sys_letters.

Record served := { s_uid : N; s_key : bytes; s_info : bytes; s_flags : bytes; s_cid : N;
                   s_recent : bool }.

(* MailboxData.messages(): records in uid-list order whose file exists *)
Definition serve (u : uidl) (fl : list mfile) : list served :=
  flat_map (fun r =>
    match find_file fl (r_key r) with
    | Some x => [{| s_uid := r_uid r; s_key := m_key x; s_info := m_info x;
                    s_flags := flags_of_info (m_info x); s_cid := m_cid x;
                    s_recent := sub_eqb (m_sub x) SNew |}]
    | None => []
    end) (u_recs u).

Inductive fview :=
| VServed (validity : option N) (next : N) (msgs : list served)
          (* validity None: no uid list yet, a fresh one will be drawn *)
| VBroken        (* a sub-directory is missing or the uid list is unreadable:
                    selecting the folder fails *)
| VLocked.       (* dovecot-uidlist.lock is present: the folder answers
                    NO [TIMEOUT] until the lock file is 600 s old *)

(* what a fresh server serves for folder f (get_mailbox: with_init + reset,
   then messages()) *)
Definition recover_folder (m : fs) (f : fname) : fview :=
  if negb (folder_ok m f) then VBroken
  else if exists_ m (PCtl f CUidlLock) then VLocked
  else
    let fl := files_of m f in
    match read_uidl m f with
    | None => let u := adopt {| u_val := 0; u_next := 1; u_guid := []; u_recs := [] |} fl in
              VServed None (u_next u) (serve u fl)
    | Some (Ok u0) => let u := adopt u0 (unknown_files u0 fl) in
                      VServed (Some (u_val u)) (u_next u) (serve u fl)
    | Some _ => VBroken
    end.

(* FileLock._check_lock after the expiration time: lock files are removed *)
Definition expire_locks (m : fs) : fs :=
  filter (fun e => match fst e with
                   | PCtl _ CUidlLock | PCtl _ CSubsLock => false
                   | _ => true
                   end) m.

Definition folders_of (m : fs) : list fname :=
  flat_map (fun e => match e with (PDir f, Dir) => [f] | _ => [] end) m.

Definition recover_subs (m : fs) : list bytes :=
  match lookup m (PCtl [] CSubs) with
  | Some (File (Text b)) => parse_subs b
  | _ => []
  end.

(* ------------------------------------------------------------ commands *)
Inductive smode := MAdd | MDel | MSet.

Record amsg := { a_flags : bytes;   (* requested system-flag letters *)
                 a_cid : N; a_key : bytes; a_tmp : bytes;
                 a_e : bytes; a_t : bytes }.

Inductive cmd :=
| CSelect (f : fname) (ro : bool) (order : list bytes)  (* keys of new/ in listdir order *)
| CAppend (f : fname) (msgs : list amsg)
| CStore (uids : list N) (mode : smode) (fl : bytes)
| CCopy (uids : list N) (g : fname) (names : list (bytes * bytes))  (* key, tmp per copy *)
| CMove (uids : list N) (g : fname) (tmps : list bytes)
| CExpunge
| CCheck (tmp : bytes)
| CNoop
| CClose
| CCreate (f : fname) (val : N) (guid : bytes) (tmp : bytes)
| CRename (a b : fname) (order : list fname)            (* renamed directories in order *)
| CSubscribe (n : bytes) (tmp : bytes)
| CUnsubscribe (n : bytes) (tmp : bytes).

Inductive ack := AOk | ANo | AUnmodelled.
Definition ack_eqb (a b : ack) : bool :=
  match a, b with AOk, AOk | ANo, ANo | AUnmodelled, AUnmodelled => true | _, _ => false end.

Definition selection := option (fname * bool).     (* folder, read-only *)

Record outcome := { o_ops : list fsop; o_ack : ack; o_sel : selection }.

(* ---- building blocks *)
Definition lock_op (f : fname) := OCreat (PCtl f CUidlLock).
Definition unlock_op (f : fname) := OUnlink (PCtl f CUidlLock).

Definition rewrite_ops (f : fname) (tmp : bytes) (u : uidl) : list fsop :=
  [OCreat (PTmp f tmp); OWrite (PTmp f tmp) (Text (print_uidl u));
   ORename (PTmp f tmp) (PCtl f CUidl)].

Definition locked_rewrite (f : fname) (tmp : bytes) (u : uidl) : list fsop :=
  lock_op f :: rewrite_ops f tmp u ++ [unlock_op f].

(* a folder the backend can open: directory structure and a readable uid list
   with no file waiting for adoption (always the case between the commands of
   one sequential session) *)
Definition ready (m : fs) (f : fname) : option uidl :=
  if folder_ok m f then
    match read_uidl m f with
    | Some (Ok u) => match unknown_files u (files_of m f) with
                     | [] => Some u
                     | _ => None
                     end
    | _ => None
    end
  else None.

(* MailboxSet.get_mailbox on a ready folder: reset takes and drops the lock *)
Definition reset_ops (f : fname) : list fsop := [lock_op f; unlock_op f].

(* BaseSession._load_updates(selected, mbx) at the end of a command: the
   selected folder is re-opened unless it is the folder just used *)
Definition tail_ops (sel : selection) (used : option fname) : list fsop :=
  match sel with
  | None => []
  | Some (s, _) =>
      match used with
      | Some f => if fname_eqb f s then [] else reset_ops s
      | None => reset_ops s
      end
  end.

Definition key_fresh (m : fs) (key : bytes) : bool :=
  negb (existsb (fun e => match fst e with
                          | PMsg _ _ k _ => bytes_eqb k key
                          | _ => false
                          end) m).

(* Maildir.add: tmp file, link into new/ or cur/, remove the tmp name *)
Definition add_ops (f : fname) (s : sub) (key info : bytes) (cid : N) : list fsop :=
  [OCreat (PMsg f STmp key []); OWrite (PMsg f STmp key []) (Opaque cid);
   OUtime (PMsg f STmp key []); OLink (PMsg f STmp key []) (PMsg f s key info);
   OUnlink (PMsg f STmp key [])].

Definition with_rec (u : uidl) (fields : list (N * bytes)) (fname_ : bytes) : uidl :=
  {| u_val := u_val u; u_next := u_next u + 1; u_guid := u_guid u;
     u_recs := set_rec {| r_uid := u_next u; r_fields := fields; r_fname := fname_ |}
                       (u_recs u) |}.

(* the sub-directory a delivery goes to: cur/ when the session has the
   destination selected read-write, new/ (recent) otherwise *)
Definition dest_sub (sel : selection) (g : fname) : sub :=
  match sel with
  | Some (s, false) => if fname_eqb s g then SCur else SNew
  | _ => SNew
  end.

Definition info_of_letters (l : bytes) : bytes :=
  50 :: 44 :: filter (fun c => mem_n c l) sys_letters.

(* FlagOp.apply on system-flag letters, then MaildirMessage.set_flags *)
Definition new_info (mode : smode) (fl : bytes) (info : bytes) : bytes :=
  let cur := flags_of_info info in
  info_of_letters
    match mode with
    | MAdd => cur ++ fl
    | MDel => filter (fun c => negb (mem_n c fl)) cur
    | MSet => fl
    end.

Definition find_rec (u : uidl) (uid : N) : option urec :=
  find (fun r => r_uid r =? uid) (u_recs u).

(* the record and file of a uid the session knows and that still exists *)
Definition locate (u : uidl) (fl : list mfile) (uid : N) : option (urec * mfile) :=
  match find_rec u uid with
  | Some r => match find_file fl (r_key r) with
              | Some x => Some (r, x)
              | None => None
              end
  | None => None
  end.

(* ---- APPEND: message by message (BaseSession.append_messages) *)
Fixpoint append_ops (f : fname) (s : sub) (u : uidl) (msgs : list amsg) : list fsop :=
  match msgs with
  | [] => []
  | a :: r =>
      let info := info_of_letters (a_flags a) in
      let u' := with_rec u [(69, a_e a); (84, a_t a)] (a_key a ++ 58 :: info) in
      add_ops f s (a_key a) info (a_cid a)
      ++ locked_rewrite f (a_tmp a) u'
      ++ append_ops f s u' r
  end.

(* ---- COPY / MOVE: uid by uid *)
Fixpoint copy_ops (g : fname) (s : sub) (us : uidl) (fls : list mfile) (ug : uidl)
         (uids : list N) (names : list (bytes * bytes)) : list fsop :=
  match uids with
  | [] => []
  | uid :: r =>
      match locate us fls uid, names with
      | Some (rec, x), (key, tmp) :: names' =>
          let ug' := with_rec ug (r_fields rec) (key ++ 58 :: m_info x) in
          add_ops g s key (m_info x) (m_cid x)
          ++ locked_rewrite g tmp ug' ++ copy_ops g s us fls ug' r names'
      | Some _, [] => []
      | None, _ => copy_ops g s us fls ug r names
      end
  end.

Definition without_rec (u : uidl) (uid : N) : uidl :=
  {| u_val := u_val u; u_next := u_next u; u_guid := u_guid u;
     u_recs := filter (fun r => negb (r_uid r =? uid)) (u_recs u) |}.

(* MailboxData.move (source <> destination): rename the file, drop the
   source record, add the destination record; two temp names per message *)
Fixpoint move_ops (f g : fname) (s : sub) (us : uidl) (fls : list mfile) (ug : uidl)
         (uids : list N) (tmps : list bytes) : list fsop :=
  match uids with
  | [] => []
  | uid :: r =>
      match locate us fls uid, tmps with
      | Some (rec, x), tmp1 :: tmp2 :: tmps' =>
          let us' := without_rec us uid in
          let ug' := with_rec ug (r_fields rec) (fname_of_file x) in
          ORename (PMsg f (m_sub x) (m_key x) (m_info x)) (PMsg g s (m_key x) (m_info x))
          :: locked_rewrite f tmp1 us' ++ locked_rewrite g tmp2 ug'
          ++ move_ops f g s us' fls ug' r tmps'
      | Some _, _ => []
      | None, _ => move_ops f g s us fls ug r tmps
      end
  end.

(* MailboxData.move with destination = source (the selected mailbox itself):
   copy(), then delete([uid]) — the file is copied under a new key and uid, the
   record added, the original file removed (its record stays until CHECK).
   [names] alternates the new key and the temp name of each message. *)
Fixpoint self_move_ops (f : fname) (s : sub) (u : uidl) (fls : list mfile)
         (uids : list N) (names : list bytes) : list fsop :=
  match uids with
  | [] => []
  | uid :: r =>
      match locate u fls uid, names with
      | Some (rec, x), key :: tmp :: names' =>
          let u' := with_rec u (r_fields rec) (key ++ 58 :: m_info x) in
          add_ops f s key (m_info x) (m_cid x) ++ locked_rewrite f tmp u'
          ++ [OUnlink (PMsg f (m_sub x) (m_key x) (m_info x))]
          ++ self_move_ops f s u' fls r names'
      | Some _, _ => []
      | None, _ => self_move_ops f s u fls r names
      end
  end.

Definition store_ops (f : fname) (u : uidl) (fl : list mfile) (mode : smode)
           (letters : bytes) (uids : list N) : list fsop :=
  flat_map (fun uid =>
    match locate u fl uid with
    | Some (_, x) =>
        let i' := new_info mode letters (m_info x) in
        if bytes_eqb i' (m_info x) then []
        else [ORename (PMsg f (m_sub x) (m_key x) (m_info x))
                      (PMsg f (m_sub x) (m_key x) i')]
    | None => []
    end) uids.

Definition expunge_ops (f : fname) (u : uidl) (fl : list mfile) : list fsop :=
  flat_map (fun r =>
    match find_file fl (r_key r) with
    | Some x => if mem_n 84 (flags_of_info (m_info x))
                then [OUnlink (PMsg f (m_sub x) (m_key x) (m_info x))] else []
    | None => []
    end) (u_recs u).

(* MailboxData.cleanup: drop records without a file, refresh the file names *)
Definition cleanup_uidl (u : uidl) (fl : list mfile) : uidl :=
  {| u_val := u_val u; u_next := u_next u; u_guid := u_guid u;
     u_recs := flat_map (fun r =>
       match find_file fl (r_key r) with
       | Some x => [{| r_uid := r_uid r; r_fields := r_fields r;
                       r_fname := r_key r ++ 58 :: m_info x |}]
       | None => []
       end) (u_recs u) |}.

(* is [l] a permutation of the duplicate-free [l']: same length, each member *)
Definition perm_of {A} (eqb : A -> A -> bool) (l l' : list A) : bool :=
  Nat.eqb (length l) (length l')
  && forallb (fun x => existsb (eqb x) l') l
  && forallb (fun x => existsb (eqb x) l) l'.

(* folders whose directory RENAME a b moves with one rename each: a itself
   and, in the ++ layout, every folder below it (in the fs layout they move
   with a) *)
Definition is_prefix (a f : fname) : bool :=
  match strip_prefix a f with Some _ => true | None => false end.
Definition rename_set (lay : layout) (m : fs) (a : fname) : list fname :=
  match lay with
  | LFs => [a]
  | LPlus => filter (is_prefix a) (folders_of m)
  end.
Definition retarget (a b f : fname) : fname :=
  match strip_prefix a f with Some r => b ++ r | None => f end.

Definition subs_ops (names : list bytes) (tmp : bytes) : list fsop :=
  [OCreat (PTmp [] tmp); OWrite (PTmp [] tmp) (Text (print_subs names));
   ORename (PTmp [] tmp) (PCtl [] CSubs)].

Definition remove_name (n : bytes) (l : list bytes) : list bytes :=
  filter (fun x => negb (bytes_eqb x n)) l.

Definition parent_exists (lay : layout) (m : fs) (f : fname) : bool :=
  match lay with
  | LPlus => true
  | LFs => match rev f with
           | [] => false
           | _ :: rp => exists_ m (PDir (rev rp))
           end
  end.

(* ---- the names a command supplies must be usable: printable, keys without
   colon, pairwise distinct and not yet the name of any message file *)
Definition wf_amsg (a : amsg) : bool :=
  forallb value_char (a_key a) && forallb value_char (a_e a) && forallb value_char (a_t a).

Fixpoint nodup_keys (l : list bytes) : bool :=
  match l with
  | [] => true
  | k :: r => negb (existsb (bytes_eqb k) r) && nodup_keys r
  end.

Definition keys_ok (m : fs) (keys : list bytes) : bool :=
  forallb (fun k => key_fresh m k && forallb value_char k) keys && nodup_keys keys.

Fixpoint evens (l : list bytes) : list bytes :=       (* elements 0, 2, 4, ... *)
  match l with
  | x :: _ :: r => x :: evens r
  | [x] => [x]
  | [] => []
  end.

Definition wf_guid (g : bytes) : bool :=
  match g with [] => false | _ => forallb name_char g end.

(* the directory renames of a RENAME collide with nothing, each in the state
   it is applied to *)
Fixpoint renames_clear (lay : layout) (m : fs) (l : list (fname * fname)) : bool :=
  match l with
  | [] => true
  | (f, g) :: r =>
      rename_clear lay m f g
      && match apply_op lay m (ORenameDir f g) with
         | Some m' => renames_clear lay m' r
         | None => true
         end
  end.

(* ---- one command *)
Definition unmodelled (sel : selection) : outcome :=
  {| o_ops := []; o_ack := AUnmodelled; o_sel := sel |}.

Definition run_cmd (lay : layout) (m : fs) (sel : selection) (c : cmd) : outcome :=
  match c with
  | CSelect f ro order =>
      if negb (exists_ m (PDir f)) then {| o_ops := []; o_ack := ANo; o_sel := None |}
      else match ready m f with
      | None => unmodelled None
      | Some u =>
          let news := filter (fun x => sub_eqb (m_sub x) SNew) (files_of m f) in
          if ro then {| o_ops := reset_ops f; o_ack := AOk; o_sel := Some (f, true) |}
          else if perm_of bytes_eqb order (map m_key news) then
            {| o_ops := reset_ops f ++
                 flat_map (fun k => match find_file news k with
                                    | Some x => [ORename (PMsg f SNew k (m_info x))
                                                         (PMsg f SCur k (m_info x))]
                                    | None => []
                                    end) order;
               o_ack := AOk; o_sel := Some (f, false) |}
          else unmodelled None
      end
  | CAppend f msgs =>
      if negb (exists_ m (PDir f)) then {| o_ops := []; o_ack := ANo; o_sel := sel |}
      else match ready m f with
      | None => unmodelled sel
      | Some u =>
          if keys_ok m (map a_key msgs) && forallb wf_amsg msgs then
            {| o_ops := reset_ops f ++ append_ops f (dest_sub sel f) u msgs
                        ++ tail_ops sel (Some f);
               o_ack := AOk; o_sel := sel |}
          else unmodelled sel
      end
  | CStore uids mode fl =>
      match sel with
      | Some (f, false) =>
          match ready m f with
          | Some u => {| o_ops := reset_ops f ++ store_ops f u (files_of m f) mode fl uids;
                         o_ack := AOk; o_sel := sel |}
          | None => unmodelled sel
          end
      | Some (f, true) => {| o_ops := []; o_ack := ANo; o_sel := sel |}
      | None => unmodelled sel
      end
  | CCopy uids g names =>
      match sel with
      | Some (f, _) =>
          match ready m f with
          | None => unmodelled sel
          | Some us =>
              if negb (exists_ m (PDir g)) then
                {| o_ops := reset_ops f; o_ack := ANo; o_sel := sel |}
              else match ready m g with
              | None => unmodelled sel
              | Some ug =>
                  if keys_ok m (map fst names) then
                    {| o_ops := reset_ops f ++ reset_ops g
                         ++ copy_ops g (dest_sub sel g) us (files_of m f) ug uids names;
                       o_ack := AOk; o_sel := sel |}
                  else unmodelled sel
              end
          end
      | None => unmodelled sel
      end
  | CMove uids g tmps =>
      match sel with
      | Some (f, _) =>
          match ready m f with
          | None => unmodelled sel
          | Some us =>
              if negb (exists_ m (PDir g)) then
                {| o_ops := reset_ops f; o_ack := ANo; o_sel := sel |}
              else if fname_eqb f g then
                if negb (keys_ok m (evens tmps)) then unmodelled sel else
                {| o_ops := reset_ops f ++ reset_ops f
                     ++ self_move_ops f (dest_sub sel f) us (files_of m f) uids tmps;
                   o_ack := AOk; o_sel := sel |}
              else match ready m g with
              | None => unmodelled sel
              | Some ug =>
                  {| o_ops := reset_ops f ++ reset_ops g
                       ++ move_ops f g (dest_sub sel g) us (files_of m f) ug uids tmps;
                     o_ack := AOk; o_sel := sel |}
              end
          end
      | None => unmodelled sel
      end
  | CExpunge =>
      match sel with
      | Some (f, false) =>
          match ready m f with
          | Some u => {| o_ops := reset_ops f ++ expunge_ops f u (files_of m f);
                         o_ack := AOk; o_sel := sel |}
          | None => unmodelled sel
          end
      | Some (f, true) => {| o_ops := []; o_ack := ANo; o_sel := sel |}
      | None => unmodelled sel
      end
  | CCheck tmp =>
      match sel with
      | Some (f, _) =>
          match ready m f with
          | Some u =>
              {| o_ops := reset_ops f ++
                   match u_recs u with
                   | [] => [lock_op f; unlock_op f]
                   | _ => locked_rewrite f tmp (cleanup_uidl u (files_of m f))
                   end;
                 o_ack := AOk; o_sel := sel |}
          | None => unmodelled sel
          end
      | None => unmodelled sel
      end
  | CNoop =>
      match sel with
      | Some (f, _) =>
          match ready m f with
          | Some _ => {| o_ops := reset_ops f; o_ack := AOk; o_sel := sel |}
          | None => unmodelled sel
          end
      | None => {| o_ops := []; o_ack := AOk; o_sel := sel |}
      end
  | CClose =>
      match sel with
      | Some (f, false) =>
          match ready m f with
          | Some u => {| o_ops := reset_ops f ++ expunge_ops f u (files_of m f);
                         o_ack := AOk; o_sel := None |}
          | None => unmodelled sel
          end
      | Some (f, true) => {| o_ops := []; o_ack := AOk; o_sel := None |}
      | None => unmodelled sel
      end
  | CCreate f val guid tmp =>
      match f with
      | [] => unmodelled sel
      | _ =>
        if exists_ m (PDir f) || negb (parent_exists lay m f)
           || exists_ m (PCtl f CUidl) || negb (wf_guid guid) then unmodelled sel
        else
          {| o_ops := [OMkdir (PDir f); OMkdir (PSub f STmp); OMkdir (PSub f SNew);
                       OMkdir (PSub f SCur); OCreat (PCtl f CMdf)]
                      ++ locked_rewrite f tmp {| u_val := val; u_next := 1;
                                                 u_guid := guid; u_recs := [] |}
                      ++ tail_ops sel None;
             o_ack := AOk; o_sel := sel |}
      end
  | CRename a b order =>
      match a, b with
      | [], _ | _, [] => unmodelled sel
      | _, _ =>
        if negb (exists_ m (PDir a)) || exists_ m (PDir b)
           || negb (parent_exists lay m b) || is_prefix a b then unmodelled sel
        else if perm_of fname_eqb order (rename_set lay m a)
                && renames_clear lay m (map (fun f => (f, retarget a b f)) order) then
          {| o_ops := map (fun f => ORenameDir f (retarget a b f)) order
                      ++ tail_ops sel None;
             o_ack := AOk; o_sel := sel |}
        else unmodelled sel
      end
  | CSubscribe n tmp =>
      {| o_ops := [OCreat (PCtl [] CSubsLock)]
                  ++ subs_ops (add_name n (recover_subs m)) tmp
                  ++ [OUnlink (PCtl [] CSubsLock)] ++ tail_ops sel None;
         o_ack := AOk; o_sel := sel |}
  | CUnsubscribe n tmp =>
      let rest := remove_name n (recover_subs m) in
      {| o_ops := [OCreat (PCtl [] CSubsLock)]
                  ++ match rest with
                     | [] => if exists_ m (PCtl [] CSubs) then [OUnlink (PCtl [] CSubs)] else []
                     | _ => subs_ops rest tmp
                     end
                  ++ [OUnlink (PCtl [] CSubsLock)] ++ tail_ops sel None;
         o_ack := AOk; o_sel := sel |}
  end.

(* ---- a history: commands run one after the other on the evolving state *)
Fixpoint hist_ops (lay : layout) (m : fs) (sel : selection) (h : list cmd) : list fsop :=
  match h with
  | [] => []
  | c :: r =>
      let o := run_cmd lay m sel c in
      o_ops o ++ hist_ops lay (fst (apply_ops lay m (o_ops o))) (o_sel o) r
  end.
