(* MaildirFS/Spec.v — the vocabulary of the durability theorems.

   * [serves m f v uid k fl c]: a server started on filesystem m serves, in
     folder f, under UIDVALIDITY v, the message uid whose file has the maildir
     key k, flag letters fl and content c.
   * [legal m o]: o is one of the kinds of filesystem operation the maildir
     backend performs, applicable in state m: operations on scratch paths
     (temporary files, tmp/ entries, lock files), directory creation, the
     link that delivers a message, the renames that change flags or move a
     message, the unlink that expunges it, and the rename that installs a
     completely written control file.
   * [Inv]: what holds in every state reached by legal operations, whatever
     prefix of them has been executed.
   Definitions only; proofs in DurabilityProofs.v. *)
From PV Require Import Base.Prelude Base.Decimal MaildirFS.FS MaildirFS.UidList MaildirFS.Ops.
Local Open Scope N_scope.

Definition live (s : sub) : bool := negb (sub_eqb s STmp).

(* scratch paths: nothing a restarted server looks at *)
Definition junk (p : path) : bool :=
  match p with
  | PTmp _ _ => true
  | PMsg _ s _ _ => negb (live s)
  | PCtl _ CUidlLock | PCtl _ CSubsLock => true
  | _ => false
  end.

Definition uidl_at (m : fs) (f : fname) (u : uidl) : Prop :=
  exists t, lookup m (PCtl f CUidl) = Some (File (Text t)) /\ parse_uidl t = Ok u.

Definition file_at (m : fs) (f : fname) (k i : bytes) (c : N) : Prop :=
  exists s, live s = true /\ lookup m (PMsg f s k i) = Some (File (Opaque c)).

Definition has_file (m : fs) (f : fname) (k : bytes) : Prop :=
  exists i c, file_at m f k i c.

Definition recorded (u : uidl) (uid : N) (k : bytes) : Prop :=
  exists r, In r (u_recs u) /\ r_uid r = uid /\ r_key r = k.

Definition serves (m : fs) (f : fname) (v uid : N) (k fl : bytes) (c : N) : Prop :=
  exists u i, uidl_at m f u /\ u_val u = v /\ recorded u uid k
              /\ file_at m f k i c /\ flags_of_info i = fl.

(* a uid list respects its own counter *)
Definition uids_ok (u : uidl) : Prop :=
  NoDup (map r_uid (u_recs u)) /\ forall r, In r (u_recs u) -> r_uid r < u_next u.

(* new list u' may replace u in a folder whose live keys are [present] *)
Definition extends (present : bytes -> Prop) (u u' : uidl) : Prop :=
  u_val u' = u_val u /\ u_next u <= u_next u'
  /\ (forall uid k, recorded u' uid k -> uid < u_next u -> recorded u uid k)
  /\ (forall uid k, recorded u uid k -> present k -> recorded u' uid k).

(* no delivered message file carries key k (maildir keys are unique names) *)
Definition key_unused (m : fs) (k : bytes) : Prop :=
  forall f s i, live s = true -> lookup m (PMsg f s k i) = None.

(* file names the uid list can record: a key without colon, printable info *)
Definition wf_key (k : bytes) : bool := forallb value_char k.
Definition wf_info (i : bytes) : bool := forallb name_char i.

(* the rename collides with nothing: no two entries end up under one path
   (on a real filesystem: the destination name and everything below it is
   free, which rename(2) itself guarantees for a directory) *)
Definition rename_ok (lay : layout) (m : fs) (a b : fname) : Prop :=
  forall p q, In p (map fst m) -> In q (map fst m) ->
              move_path lay a b p = move_path lay a b q -> p = q.

Inductive legal (lay : layout) (m : fs) : fsop -> Prop :=
| L_creat p : junk p = true -> legal lay m (OCreat p)
| L_write p c : junk p = true -> legal lay m (OWrite p c)
| L_unlink_junk p : junk p = true -> legal lay m (OUnlink p)
| L_utime p : legal lay m (OUtime p)
| L_mkdir p : legal lay m (OMkdir p)
| L_mdf f : legal lay m (OCreat (PCtl f CMdf))
| L_link f s k i c :
    live s = true -> key_unused m k -> wf_key k = true -> wf_info i = true ->
    lookup m (PMsg f STmp k []) = Some (File (Opaque c)) ->
    legal lay m (OLink (PMsg f STmp k []) (PMsg f s k i))
| L_flags f s s' k i i' :
    live s = true -> live s' = true -> wf_info i' = true ->
    legal lay m (ORename (PMsg f s k i) (PMsg f s' k i'))
| L_move f g s s' k i :
    live s = true -> live s' = true ->
    legal lay m (ORename (PMsg f s k i) (PMsg g s' k i))
| L_expunge f s k i :
    live s = true -> legal lay m (OUnlink (PMsg f s k i))
| L_install f n u' :
    lookup m (PTmp f n) = Some (File (Text (print_uidl u'))) ->
    wf_uidl u' = true -> uids_ok u' ->
    (forall u, uidl_at m f u -> extends (has_file m f) u u') ->
    legal lay m (ORename (PTmp f n) (PCtl f CUidl))
| L_subs n : legal lay m (ORename (PTmp [] n) (PCtl [] CSubs))
| L_unsubs : legal lay m (OUnlink (PCtl [] CSubs))
| L_renamedir a b : rename_ok lay m a b -> legal lay m (ORenameDir a b).

(* the keys an operation may affect: flags changed, moved away or expunged *)
Definition touches (o : fsop) (k : bytes) : Prop :=
  match o with
  | ORename (PMsg _ _ k' _) _ => k' = k
  | OUnlink (PMsg _ _ k' _) => k' = k
  | _ => False
  end.

(* the name of folder f after the operation *)
Definition moved_name (lay : layout) (o : fsop) (f : fname) : fname :=
  match o with
  | ORenameDir a b => match moved_folder lay a b f with Some g => g | None => f end
  | _ => f
  end.
Definition moved_names (lay : layout) (l : list fsop) (f : fname) : fname :=
  fold_left (fun f o => moved_name lay o f) l f.

Record Inv (m : fs) : Prop := {
  (* every uid list on disk is a completely written one: the text of a
     well-formed list that respects its counter *)
  inv_uidl : forall f n, lookup m (PCtl f CUidl) = Some n ->
             exists u, n = File (Text (print_uidl u)) /\ wf_uidl u = true /\ uids_ok u;
  (* a maildir key names at most one delivered file in the whole store *)
  inv_keys : forall f s i n f' s' i' n' k,
             live s = true -> live s' = true ->
             lookup m (PMsg f s k i) = Some n -> lookup m (PMsg f' s' k i') = Some n' ->
             f = f' /\ s = s' /\ i = i';
  (* delivered files are message files with recordable names *)
  inv_names : forall f s k i n, live s = true -> lookup m (PMsg f s k i) = Some n ->
              wf_key k = true /\ wf_info i = true /\ exists c, n = File (Opaque c);
  (* the association list has one entry per path *)
  inv_nodup : NoDup (map fst m)
}.

(* a run: every operation legal in the state it is applied to, and applicable *)
Inductive legal_run (lay : layout) : fs -> list fsop -> fs -> Prop :=
| LR_nil m : legal_run lay m [] m
| LR_cons m o m' l m'' :
    legal lay m o -> apply_op lay m o = Some m' -> legal_run lay m' l m'' ->
    legal_run lay m (o :: l) m''.

Definition touched (l : list fsop) (k : bytes) : Prop := Exists (fun o => touches o k) l.

(* uid discipline between an earlier and a later state; [g] is the later name
   of the folder called f earlier *)
Definition uid_stable_via (phi : fname -> fname) (m1 m2 : fs) : Prop :=
  forall f u1, uidl_at m1 f u1 ->
  exists u2, uidl_at m2 (phi f) u2 /\ u_val u2 = u_val u1 /\ u_next u1 <= u_next u2
             /\ (forall uid k, recorded u2 uid k -> uid < u_next u1 -> recorded u1 uid k).

(* ---- vocabulary of CommandProofs.v *)
Definition no_install (o : fsop) (f : fname) : Prop :=
  forall n, o <> ORename (PTmp f n) (PCtl f CUidl).
Definition no_link (o : fsop) : Prop := forall src dst, o <> OLink src dst.

(* the uid list after one more message of an APPEND has been recorded *)
Definition add_rec (u : uidl) (a : amsg) : uidl :=
  with_rec u [(69, a_e a); (84, a_t a)] (a_key a ++ 58 :: info_of_letters (a_flags a)).
