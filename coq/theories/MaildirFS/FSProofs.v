(* MaildirFS/FSProofs.v — how each filesystem operation changes [lookup]. *)
From PV Require Import Base.Prelude MaildirFS.FS.

Lemma sub_eqb_eq a b : sub_eqb a b = true <-> a = b.
Proof. destruct a, b; cbn; split; intro H; congruence. Qed.
Lemma ctl_eqb_eq a b : ctl_eqb a b = true <-> a = b.
Proof. destruct a, b; cbn; split; intro H; congruence. Qed.
Lemma fname_eqb_eq a b : fname_eqb a b = true <-> a = b.
Proof. apply eqb_list_true_iff. intros; apply bytes_eqb_eq. Qed.

Lemma path_eqb_eq p q : path_eqb p q = true <-> p = q.
Proof.
  destruct p, q; cbn [path_eqb]; split; intro H; try discriminate;
    repeat match goal with
    | H : _ && _ = true |- _ => apply andb_true_iff in H as [? ?]
    | H : fname_eqb _ _ = true |- _ => apply fname_eqb_eq in H
    | H : sub_eqb _ _ = true |- _ => apply sub_eqb_eq in H
    | H : ctl_eqb _ _ = true |- _ => apply ctl_eqb_eq in H
    | H : bytes_eqb _ _ = true |- _ => apply bytes_eqb_eq in H
    end; subst; try reflexivity;
    inversion H; subst;
    repeat (apply andb_true_iff; split);
    try (apply fname_eqb_eq; reflexivity); try (apply sub_eqb_eq; reflexivity);
    try (apply ctl_eqb_eq; reflexivity); try (apply bytes_eqb_eq; reflexivity).
Qed.

Lemma path_eqb_refl p : path_eqb p p = true.
Proof. apply path_eqb_eq. reflexivity. Qed.

Lemma path_eqb_neq p q : p <> q -> path_eqb p q = false.
Proof. intro H. destruct (path_eqb p q) eqn:E; [|reflexivity].
  apply path_eqb_eq in E. contradiction. Qed.

Lemma path_eq_dec (p q : path) : {p = q} + {p <> q}.
Proof. destruct (path_eqb p q) eqn:E; [left; apply path_eqb_eq; exact E|].
  right. intro H. apply path_eqb_eq in H. congruence. Qed.

Lemma lookup_remove m p q :
  lookup (remove m p) q = if path_eqb p q then None else lookup m q.
Proof.
  induction m as [|[r n] m IH]; cbn [remove filter lookup fst].
  - destruct (path_eqb p q); reflexivity.
  - fold (remove m p). destruct (path_eqb r p) eqn:E1; cbn [negb].
    + apply path_eqb_eq in E1. subst r. rewrite IH.
      destruct (path_eqb p q) eqn:E2; reflexivity.
    + cbn [lookup]. rewrite IH. destruct (path_eqb r q) eqn:E3; [|reflexivity].
      apply path_eqb_eq in E3. subst r.
      destruct (path_eqb p q) eqn:E4; [|reflexivity].
      apply path_eqb_eq in E4. subst. rewrite path_eqb_refl in E1. discriminate.
Qed.

Lemma lookup_app m m' q :
  lookup (m ++ m') q = match lookup m q with Some n => Some n | None => lookup m' q end.
Proof.
  induction m as [|[r n] m IH]; cbn [app lookup]; [reflexivity|].
  destruct (path_eqb r q); [reflexivity|exact IH].
Qed.

Lemma lookup_add m p n q :
  lookup (add m p n) q = if path_eqb p q then Some n else lookup m q.
Proof.
  unfold add. rewrite lookup_app, lookup_remove. cbn [lookup].
  destruct (path_eqb p q); [reflexivity|]. destruct (lookup m q); reflexivity.
Qed.

Lemma lookup_replace m p n q x :
  lookup m p = Some x ->
  lookup (replace m p n) q = if path_eqb p q then Some n else lookup m q.
Proof.
  induction m as [|[r y] m IH]; cbn [replace lookup]; intro H; [discriminate|].
  destruct (path_eqb r p) eqn:E1.
  - apply path_eqb_eq in E1. subst r. cbn [lookup].
    destruct (path_eqb p q); reflexivity.
  - cbn [lookup]. rewrite (IH H).
    destruct (path_eqb r q) eqn:E2; [|reflexivity].
    apply path_eqb_eq in E2. subst r.
    destruct (path_eqb p q) eqn:E4; [|reflexivity].
    apply path_eqb_eq in E4. subst. rewrite path_eqb_refl in E1. discriminate.
Qed.

(* the effect of one operation on the paths it does not mention *)
Definition mentions (o : fsop) (q : path) : Prop :=
  match o with
  | OMkdir p | ORmdir p | OCreat p | OWrite p _ | OUnlink p | OUtime p => p = q
  | ORename p r | OLink p r => p = q \/ r = q
  | ORenameDir _ _ => True
  end.

Lemma apply_op_frame lay m o m' q :
  apply_op lay m o = Some m' -> ~ mentions o q -> lookup m' q = lookup m q.
Proof.
  destruct o; cbn [apply_op mentions]; intros H Hq.
  - destruct (is_dir_path p && negb (exists_ m p) && parent_ok m p); [|discriminate].
    injection H as <-. rewrite lookup_add, path_eqb_neq by exact Hq. reflexivity.
  - destruct (lookup m p) as [[|c]|]; try discriminate.
    destruct (existsb _ m); [discriminate|]. injection H as <-.
    rewrite lookup_remove, path_eqb_neq by exact Hq. reflexivity.
  - destruct (negb (is_dir_path p) && negb (exists_ m p) && parent_ok m p); [|discriminate].
    injection H as <-. rewrite lookup_add, path_eqb_neq by exact Hq. reflexivity.
  - destruct (lookup m p) as [[|c']|] eqn:E; try discriminate. injection H as <-.
    rewrite (lookup_replace _ _ _ _ _ E), path_eqb_neq by exact Hq. reflexivity.
  - destruct (lookup m p) as [[|c]|]; try discriminate.
    destruct (negb (is_dir_path q0) && parent_ok m q0); [|discriminate].
    destruct (path_eqb p q0); injection H as <-; [reflexivity|].
    rewrite lookup_add, lookup_remove.
    rewrite !path_eqb_neq by (intro; apply Hq; auto). reflexivity.
  - exfalso. apply Hq. exact I.
  - destruct (lookup m p) as [[|c]|]; try discriminate.
    destruct (negb (is_dir_path q0) && negb (exists_ m q0) && parent_ok m q0); [|discriminate].
    injection H as <-. rewrite lookup_add, path_eqb_neq by (intro; apply Hq; auto). reflexivity.
  - destruct (lookup m p) as [[|c]|]; try discriminate. injection H as <-.
    rewrite lookup_remove, path_eqb_neq by exact Hq. reflexivity.
  - destruct (exists_ m p); [|discriminate]. injection H as <-. reflexivity.
Qed.

(* renaming a file: the source disappears, the target holds its content *)
Lemma apply_rename lay m p q m' :
  apply_op lay m (ORename p q) = Some m' ->
  exists c, lookup m p = Some (File c) /\
            (forall r, lookup m' r = if path_eqb q r then Some (File c)
                                     else if path_eqb p r then None else lookup m r).
Proof.
  cbn [apply_op]. destruct (lookup m p) as [[|c]|] eqn:E; try discriminate.
  destruct (negb (is_dir_path q) && parent_ok m q); [|discriminate].
  destruct (path_eqb p q) eqn:Epq; intro H; injection H as <-; exists c; split; try reflexivity.
  - apply path_eqb_eq in Epq. subst q. intro r.
    destruct (path_eqb p r) eqn:Er; [|reflexivity]. apply path_eqb_eq in Er. subst. exact E.
  - intro r. rewrite lookup_add, lookup_remove. reflexivity.
Qed.

Lemma apply_link lay m p q m' :
  apply_op lay m (OLink p q) = Some m' ->
  exists c, lookup m p = Some (File c) /\ lookup m q = None /\
            (forall r, lookup m' r = if path_eqb q r then Some (File c) else lookup m r).
Proof.
  cbn [apply_op]. destruct (lookup m p) as [[|c]|] eqn:E; try discriminate.
  destruct (negb (is_dir_path q)); [|discriminate]. cbn [andb].
  unfold exists_. destruct (lookup m q) eqn:Eq; [discriminate|]. cbn [negb andb].
  destruct (parent_ok m q); [|discriminate].
  intro H. injection H as <-. exists c. repeat split; try reflexivity.
  intro r. apply lookup_add.
Qed.

Lemma apply_unlink lay m p m' :
  apply_op lay m (OUnlink p) = Some m' ->
  forall r, lookup m' r = if path_eqb p r then None else lookup m r.
Proof.
  cbn [apply_op]. destruct (lookup m p) as [[|c]|]; try discriminate.
  intro H. injection H as <-. intro r. apply lookup_remove.
Qed.
