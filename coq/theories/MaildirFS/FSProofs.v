(* MaildirFS/FSProofs.v — how each filesystem operation changes [lookup]. *)
From PV Require Import Base.Prelude MaildirFS.FS.

Lemma sub_eqb_eq a b : sub_eqb a b = true <-> a = b.
Proof. destruct a, b; cbn; split; intro H; congruence. Qed.
Lemma ctl_eqb_eq a b : ctl_eqb a b = true <-> a = b.
Proof. destruct a, b; cbn; split; intro H; congruence. Qed.
Lemma fname_eqb_eq a b : fname_eqb a b = true <-> a = b.
Proof. apply eqb_list_true_iff. intros; apply bytes_eqb_eq. Qed.

Lemma path_eqb_eq p q : path_eqb p q = true <-> p = q.
Proof.
  destruct p, q; cbn [path_eqb]; split; intro H; try discriminate;
    repeat match goal with
    | H : _ && _ = true |- _ => apply andb_true_iff in H as [? ?]
    | H : fname_eqb _ _ = true |- _ => apply fname_eqb_eq in H
    | H : sub_eqb _ _ = true |- _ => apply sub_eqb_eq in H
    | H : ctl_eqb _ _ = true |- _ => apply ctl_eqb_eq in H
    | H : bytes_eqb _ _ = true |- _ => apply bytes_eqb_eq in H
    end; subst; try reflexivity;
    inversion H; subst;
    repeat (apply andb_true_iff; split);
    try (apply fname_eqb_eq; reflexivity); try (apply sub_eqb_eq; reflexivity);
    try (apply ctl_eqb_eq; reflexivity); try (apply bytes_eqb_eq; reflexivity).
Qed.

Lemma path_eqb_refl p : path_eqb p p = true.
Proof. apply path_eqb_eq. reflexivity. Qed.

Lemma path_eqb_neq p q : p <> q -> path_eqb p q = false.
Proof. intro H. destruct (path_eqb p q) eqn:E; [|reflexivity].
  apply path_eqb_eq in E. contradiction. Qed.

Lemma path_eq_dec (p q : path) : {p = q} + {p <> q}.
Proof. destruct (path_eqb p q) eqn:E; [left; apply path_eqb_eq; exact E|].
  right. intro H. apply path_eqb_eq in H. congruence. Qed.

Lemma lookup_remove m p q :
  lookup (remove m p) q = if path_eqb p q then None else lookup m q.
Proof.
  induction m as [|[r n] m IH]; cbn [remove filter lookup fst].
  - destruct (path_eqb p q); reflexivity.
  - fold (remove m p). destruct (path_eqb r p) eqn:E1; cbn [negb].
    + apply path_eqb_eq in E1. subst r. rewrite IH.
      destruct (path_eqb p q) eqn:E2; reflexivity.
    + cbn [lookup]. rewrite IH. destruct (path_eqb r q) eqn:E3; [|reflexivity].
      apply path_eqb_eq in E3. subst r.
      destruct (path_eqb p q) eqn:E4; [|reflexivity].
      apply path_eqb_eq in E4. subst. rewrite path_eqb_refl in E1. discriminate.
Qed.

Lemma lookup_app m m' q :
  lookup (m ++ m') q = match lookup m q with Some n => Some n | None => lookup m' q end.
Proof.
  induction m as [|[r n] m IH]; cbn [app lookup]; [reflexivity|].
  destruct (path_eqb r q); [reflexivity|exact IH].
Qed.

Lemma lookup_add m p n q :
  lookup (add m p n) q = if path_eqb p q then Some n else lookup m q.
Proof.
  unfold add. rewrite lookup_app, lookup_remove. cbn [lookup].
  destruct (path_eqb p q); [reflexivity|]. destruct (lookup m q); reflexivity.
Qed.

Lemma lookup_replace m p n q x :
  lookup m p = Some x ->
  lookup (replace m p n) q = if path_eqb p q then Some n else lookup m q.
Proof.
  induction m as [|[r y] m IH]; cbn [replace lookup]; intro H; [discriminate|].
  destruct (path_eqb r p) eqn:E1.
  - apply path_eqb_eq in E1. subst r. cbn [lookup].
    destruct (path_eqb p q); reflexivity.
  - cbn [lookup]. rewrite (IH H).
    destruct (path_eqb r q) eqn:E2; [|reflexivity].
    apply path_eqb_eq in E2. subst r.
    destruct (path_eqb p q) eqn:E4; [|reflexivity].
    apply path_eqb_eq in E4. subst. rewrite path_eqb_refl in E1. discriminate.
Qed.

(* the effect of one operation on the paths it does not mention *)
Definition mentions (o : fsop) (q : path) : Prop :=
  match o with
  | OMkdir p | ORmdir p | OCreat p | OWrite p _ | OUnlink p | OUtime p => p = q
  | ORename p r | OLink p r => p = q \/ r = q
  | ORenameDir _ _ => True
  end.

Lemma apply_op_frame lay m o m' q :
  apply_op lay m o = Some m' -> ~ mentions o q -> lookup m' q = lookup m q.
Proof.
  destruct o; cbn [apply_op mentions]; intros H Hq.
  - destruct (is_dir_path p && negb (exists_ m p) && parent_ok m p); [|discriminate].
    injection H as <-. rewrite lookup_add, path_eqb_neq by exact Hq. reflexivity.
  - destruct (lookup m p) as [[|c]|]; try discriminate.
    destruct (existsb _ m); [discriminate|]. injection H as <-.
    rewrite lookup_remove, path_eqb_neq by exact Hq. reflexivity.
  - destruct (negb (is_dir_path p) && negb (exists_ m p) && parent_ok m p); [|discriminate].
    injection H as <-. rewrite lookup_add, path_eqb_neq by exact Hq. reflexivity.
  - destruct (lookup m p) as [[|c']|] eqn:E; try discriminate. injection H as <-.
    rewrite (lookup_replace _ _ _ _ _ E), path_eqb_neq by exact Hq. reflexivity.
  - destruct (lookup m p) as [[|c]|]; try discriminate.
    destruct (negb (is_dir_path q0) && parent_ok m q0); [|discriminate].
    destruct (path_eqb p q0); injection H as <-; [reflexivity|].
    rewrite lookup_add, lookup_remove.
    rewrite !path_eqb_neq by (intro; apply Hq; auto). reflexivity.
  - exfalso. apply Hq. exact I.
  - destruct (lookup m p) as [[|c]|]; try discriminate.
    destruct (negb (is_dir_path q0) && negb (exists_ m q0) && parent_ok m q0); [|discriminate].
    injection H as <-. rewrite lookup_add, path_eqb_neq by (intro; apply Hq; auto). reflexivity.
  - destruct (lookup m p) as [[|c]|]; try discriminate. injection H as <-.
    rewrite lookup_remove, path_eqb_neq by exact Hq. reflexivity.
  - destruct (exists_ m p); [|discriminate]. injection H as <-. reflexivity.
Qed.

(* renaming a file: the source disappears, the target holds its content *)
Lemma apply_rename lay m p q m' :
  apply_op lay m (ORename p q) = Some m' ->
  exists c, lookup m p = Some (File c) /\
            (forall r, lookup m' r = if path_eqb q r then Some (File c)
                                     else if path_eqb p r then None else lookup m r).
Proof.
  cbn [apply_op]. destruct (lookup m p) as [[|c]|] eqn:E; try discriminate.
  destruct (negb (is_dir_path q) && parent_ok m q); [|discriminate].
  destruct (path_eqb p q) eqn:Epq; intro H; injection H as <-; exists c; split; try reflexivity.
  - apply path_eqb_eq in Epq. subst q. intro r.
    destruct (path_eqb p r) eqn:Er; [|reflexivity]. apply path_eqb_eq in Er. subst. exact E.
  - intro r. rewrite lookup_add, lookup_remove. reflexivity.
Qed.

Lemma apply_link lay m p q m' :
  apply_op lay m (OLink p q) = Some m' ->
  exists c, lookup m p = Some (File c) /\ lookup m q = None /\
            (forall r, lookup m' r = if path_eqb q r then Some (File c) else lookup m r).
Proof.
  cbn [apply_op]. destruct (lookup m p) as [[|c]|] eqn:E; try discriminate.
  destruct (negb (is_dir_path q)); [|discriminate]. cbn [andb].
  unfold exists_. destruct (lookup m q) eqn:Eq; [discriminate|]. cbn [negb andb].
  destruct (parent_ok m q); [|discriminate].
  intro H. injection H as <-. exists c. repeat split; try reflexivity.
  intro r. apply lookup_add.
Qed.

Lemma apply_unlink lay m p m' :
  apply_op lay m (OUnlink p) = Some m' ->
  forall r, lookup m' r = if path_eqb p r then None else lookup m r.
Proof.
  cbn [apply_op]. destruct (lookup m p) as [[|c]|]; try discriminate.
  intro H. injection H as <-. intro r. apply lookup_remove.
Qed.

(* ------------------------------------------------ one entry per path *)
Lemma lookup_In m p n : lookup m p = Some n -> In (p, n) m.
Proof.
  induction m as [|[q x] m IH]; cbn [lookup]; intro H; [discriminate|].
  destruct (path_eqb q p) eqn:E.
  - apply path_eqb_eq in E. subst. injection H as <-. left. reflexivity.
  - right. exact (IH H).
Qed.

Lemma lookup_None_notin m p : lookup m p = None -> ~ In p (map fst m).
Proof.
  induction m as [|[q x] m IH]; cbn [lookup map fst In]; intros H Hin; [exact Hin|].
  destruct (path_eqb q p) eqn:E; [discriminate|].
  destruct Hin as [->|Hin]; [rewrite path_eqb_refl in E; discriminate|exact (IH H Hin)].
Qed.

Lemma In_lookup m p n : NoDup (map fst m) -> In (p, n) m -> lookup m p = Some n.
Proof.
  induction m as [|[q x] m IH]; cbn [map fst In lookup]; intros Hnd Hin; [destruct Hin|].
  inversion Hnd as [|? ? Hq Hm]; subst.
  destruct Hin as [E|Hin].
  - injection E as -> ->. rewrite path_eqb_refl. reflexivity.
  - destruct (path_eqb q p) eqn:E; [|exact (IH Hm Hin)].
    apply path_eqb_eq in E. subst q. exfalso. apply Hq. apply in_map_iff.
    exists (p, n). split; [reflexivity|exact Hin].
Qed.

Lemma In_keys_lookup m p : In p (map fst m) -> exists n, lookup m p = Some n.
Proof.
  induction m as [|[q x] m IH]; cbn [map fst In lookup]; intro H; [destruct H|].
  destruct (path_eqb q p) eqn:E; [exists x; reflexivity|].
  destruct H as [->|H]; [rewrite path_eqb_refl in E; discriminate|exact (IH H)].
Qed.

Lemma keys_remove m p q : In q (map fst (remove m p)) <-> In q (map fst m) /\ q <> p.
Proof.
  unfold remove. rewrite !in_map_iff. split.
  - intros [e [He Hin]]. apply filter_In in Hin as [Hin Hne]. split; [exists e; split; assumption|].
    intro E. subst. cbn in Hne. rewrite path_eqb_refl in Hne. discriminate.
  - intros [[e [He Hin]] Hne]. exists e. split; [exact He|]. apply filter_In. split; [exact Hin|].
    rewrite He. rewrite path_eqb_neq by exact Hne. reflexivity.
Qed.

Lemma nodup_remove m p : NoDup (map fst m) -> NoDup (map fst (remove m p)).
Proof.
  unfold remove. induction m as [|[q x] m IH]; cbn [filter map fst]; intro H; [constructor|].
  inversion H as [|? ? Hq Hm]; subst.
  destruct (negb (path_eqb q p)); cbn [map fst]; [|exact (IH Hm)].
  constructor; [|exact (IH Hm)]. intro Hin. apply Hq.
  apply in_map_iff in Hin as [e [He Hin]]. apply filter_In in Hin as [Hin _].
  apply in_map_iff. exists e. split; assumption.
Qed.

Lemma nodup_snoc {A} (l : list A) x : NoDup l -> ~ In x l -> NoDup (l ++ [x]).
Proof.
  induction l as [|y l IH]; cbn [app]; intros H Hx.
  - constructor; [intros []|constructor].
  - inversion H as [|? ? Hy Hl]; subst. constructor.
    + intro Hin. apply in_app_or in Hin as [Hin|[<-|[]]]; [contradiction|].
      apply Hx. left. reflexivity.
    + apply IH; [exact Hl|]. intro Hin. apply Hx. right. exact Hin.
Qed.

Lemma nodup_add m p n : NoDup (map fst m) -> NoDup (map fst (add m p n)).
Proof.
  intro H. unfold add. rewrite map_app. cbn [map fst]. apply nodup_snoc.
  - exact (nodup_remove m p H).
  - intro Hin. apply keys_remove in Hin as [_ Hne]. exact (Hne eq_refl).
Qed.

Lemma keys_replace m p n : map fst (replace m p n) = map fst m.
Proof.
  induction m as [|[q x] m IH]; cbn [replace map fst]; [reflexivity|].
  destruct (path_eqb q p); cbn [map fst]; [reflexivity|]. rewrite IH. reflexivity.
Qed.

(* ------------------------------------------- renaming a folder directory *)
Definition move_entry := move_path.

Lemma rename_dir_map lay m a b :
  rename_dir lay m a b = map (fun e => (move_entry lay a b (fst e), snd e)) m.
Proof.
  unfold rename_dir, move_entry, move_path. apply map_ext. intros [p n]. cbn [fst snd].
  destruct (moved_folder lay a b (folder_of p)); reflexivity.
Qed.

Lemma lookup_map_inj (phi : path -> path) (m : fs) p :
  (forall q, In q (map fst m) -> phi q = phi p -> q = p) ->
  lookup (map (fun e => (phi (fst e), snd e)) m) (phi p) = lookup m p.
Proof.
  induction m as [|[q x] m IH]; cbn [map fst snd lookup]; intro H; [reflexivity|].
  destruct (path_eqb q p) eqn:E.
  - apply path_eqb_eq in E. subst q. rewrite path_eqb_refl. reflexivity.
  - destruct (path_eqb (phi q) (phi p)) eqn:E2.
    + apply path_eqb_eq in E2. rewrite (H q (or_introl eq_refl) E2), path_eqb_refl in E.
      discriminate.
    + apply IH. intros q' Hq'. apply H. right. exact Hq'.
Qed.

Lemma lookup_map_some (phi : path -> path) (m : fs) q n :
  lookup (map (fun e => (phi (fst e), snd e)) m) q = Some n ->
  exists p, In (p, n) m /\ phi p = q.
Proof.
  induction m as [|[r x] m IH]; cbn [map fst snd lookup]; intro H; [discriminate|].
  destruct (path_eqb (phi r) q) eqn:E.
  - apply path_eqb_eq in E. injection H as <-. exists r. split; [left; reflexivity|exact E].
  - destruct (IH H) as [p [Hin Hp]]. exists p. split; [right; exact Hin|exact Hp].
Qed.

Lemma nodup_map_inj (phi : path -> path) (m : fs) :
  NoDup (map fst m) ->
  (forall p q, In p (map fst m) -> In q (map fst m) -> phi p = phi q -> p = q) ->
  NoDup (map fst (map (fun e => (phi (fst e), snd e)) m)).
Proof.
  induction m as [|[r x] m IH]; cbn [map fst snd]; intros Hnd Hinj; [constructor|].
  inversion Hnd as [|? ? Hr Hm]; subst. constructor.
  - intro Hin. rewrite map_map in Hin. cbn [fst] in Hin.
    apply in_map_iff in Hin as [e [He Hin]].
    assert (fst e = r).
    { apply Hinj; [right; apply in_map; exact Hin|left; reflexivity|exact He]. }
    apply Hr. subst r. apply in_map. exact Hin.
  - apply IH; [exact Hm|]. intros p q Hp Hq. apply Hinj; right; assumption.
Qed.
