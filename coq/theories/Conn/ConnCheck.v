(* Conn/ConnCheck.v — boolean case checkers for the C05 correspondence run
   (harness/props/C05.py).  A case is a configuration, what was observed at the
   greeting, and per command: the model command, the backend calls the
   implementation made while serving it (the script), and what was observed
   (tagged condition, reason class read off the response text, untagged BYE,
   continuation lines consumed, and the glass-box view of the ConnectionState
   afterwards).  The model is run with the script as backend and must make
   exactly these calls and reach exactly this view. *)
From Coq Require Import String.
From PV Require Import Base.Prelude Conn.CmdEntry Conn.CmdTable Conn.ConnFSM.

(* compact byte-string literals for generated case files: [nb len 0x616263]
   = [97;98;99] (big-endian digits of the numeral, [len] bytes) *)
Fixpoint nb_go (len : nat) (n : N) (acc : bytes) : bytes :=
  match len with
  | O => acc
  | S k => nb_go k (N.shiftr n 8) (N.land n 255 :: acc)
  end.
Definition nb (len n : N) : bytes := nb_go (N.to_nat len) n [].

Definition cond_idx (c : cond) : N :=
  match c with OK => 0 | NO => 1 | BAD => 2 | NOTAG => 3 end.
Definition cond_eqb a b := (cond_idx a =? cond_idx b)%N.

Definition why_idx (w : why) : N :=
  match w with
  | WDone => 0 | WInvalid => 1 | WAlreadyAuth => 2 | WMustAuth => 3 | WMustSelect => 4
  | WNotImpl => 5 | WBackendNo => 6 | WCannot => 7 | WInboxNo => 8 | WBadMech => 9
  | WAuthError => 10 | WAppendCancel => 11 | WExpectedDone => 12 | WTimeout => 13
  | WCrash => 14 | WLogout => 15 | WClosed => 16 | WStalled => 17 | WGreetBye => 18
  end.
Definition why_eqb a b := (why_idx a =? why_idx b)%N.

Definition phase_eqb (p q : phase) : bool :=
  match p, q with
  | NotAuth, NotAuth => true
  | Authd u, Authd v => bytes_eqb u v
  | Selected u m r, Selected v n s => bytes_eqb u v && bytes_eqb m n && Bool.eqb r s
  | Closed, Closed => true
  | _, _ => false
  end.

Record obs := mk_obs {
  ob_cond : cond; ob_why : why; ob_bye : bool; ob_lines : N;
  ob_phase : phase; ob_mechs : bool; ob_starttls : bool; ob_logincaps : N
}.

Definition obs_ok (c : conn) (o : out) (ob : obs) : bool :=
  cond_eqb (o_cond o) (ob_cond ob) && why_eqb (o_why o) (ob_why ob)
  && Bool.eqb (o_bye o) (ob_bye ob) && (o_lines o =? ob_lines ob)%N
  && phase_eqb (c_phase c) (ob_phase ob)
  && match c_phase c with
     | Closed => true     (* nothing more to see of a closed connection *)
     | _ => Bool.eqb (c_mechs c) (ob_mechs ob) && Bool.eqb (c_starttls c) (ob_starttls ob)
            && (c_logincaps c =? ob_logincaps ob)%N
     end.

Definition script_done (s : script) : bool := match s with [] => true | _ => false end.

Fixpoint chk_steps (cfg : config) (c : conn) (l : list (cmd * script * obs)) : bool :=
  match l with
  | [] => true
  | (k, s, ob) :: r =>
      let '(c', s', o) := conn_step script script_bk cmd_table cfg c s k in
      script_done s' && obs_ok c' o ob && chk_steps cfg c' r
  end.

(* (config, greeting script, greeting observation, steps) *)
Definition conn_case := (config * script * obs * list (cmd * script * obs))%type.

Definition mk_case (cfg : config) (s0 : script) (ob0 : obs) (steps : list (cmd * script * obs))
  : conn_case := (cfg, s0, ob0, steps).
Definition mk_step (k : cmd) (s : script) (ob : obs) : cmd * script * obs := (k, s, ob).
Definition no_calls : script := [].

Definition chk_conn (x : conn_case) : bool :=
  let '(cfg, s0, ob0, steps) := x in
  let '(c0, s0', o0) := conn_init script script_bk cfg s0 in
  script_done s0' && obs_ok c0 o0 ob0 && chk_steps cfg c0 steps.

(* the same, but returning the index of the first step that differs
   (0 = greeting, i+1 = step i) — used by the harness to explain a failure *)
Fixpoint first_bad (cfg : config) (c : conn) (l : list (cmd * script * obs)) (i : nat)
  : option nat :=
  match l with
  | [] => None
  | (k, s, ob) :: r =>
      let '(c', s', o) := conn_step script script_bk cmd_table cfg c s k in
      if script_done s' && obs_ok c' o ob then first_bad cfg c' r (S i) else Some i
  end.

Definition where_bad (x : conn_case) : option nat :=
  let '(cfg, s0, ob0, steps) := x in
  let '(c0, s0', o0) := conn_init script script_bk cfg s0 in
  if script_done s0' && obs_ok c0 o0 ob0 then first_bad cfg c0 steps 1 else Some 0%nat.

(* what the model computes for a case (for replays / explanations) *)
Fixpoint model_trace (cfg : config) (c : conn) (l : list (cmd * script * obs))
  : list (out * conn) :=
  match l with
  | [] => []
  | (k, s, _) :: r =>
      let '(c', _, o) := conn_step script script_bk cmd_table cfg c s k in
      (o, c') :: model_trace cfg c' r
  end.
