(* Conn/MultiConnProofs.v — what one connection is offered and answers depends
   only on its own history, the backend it meets and the immutable
   configuration: never on what other connections of the same server did. *)
From Coq Require Import String Lia PeanoNat.
From PV Require Import Base.Prelude Conn.CmdEntry Conn.CmdTable Conn.ConnFSM Conn.MultiConn.
Open Scope string_scope.

Lemma wlookup_wset i j s w :
  wlookup j (wset i s w) = if Nat.eqb i j then Some s else wlookup j w.
Proof. reflexivity. Qed.

Section Proofs.
  Variable B : Type.
  Variable bk : B -> bcall -> answer * B.
  Variable tbl : list cmd_entry.
  Variable scfg : config.

  Notation wstep := (world_step B bk tbl scfg).
  Notation wrun := (world_run B bk tbl scfg).

  (* frame: an event of connection i leaves every other slot alone *)
  Lemma world_frame w b e j :
    j <> ev_id e -> wlookup j (fst (fst (wstep w b e))) = wlookup j w.
  Proof.
    intros Hj. destruct e as [i loc|i k]; cbn [world_step ev_id] in *.
    - destruct (conn_init B bk (conn_cfg scfg loc) b) as [[c b'] o]. cbn [fst].
      rewrite wlookup_wset. destruct (Nat.eqb i j) eqn:E; [|reflexivity].
      apply Nat.eqb_eq in E. congruence.
    - destruct (wlookup i w) as [[loc c]|] eqn:L; [|reflexivity].
      destruct (conn_step B bk tbl (conn_cfg scfg loc) c b k) as [[c' b'] o]. cbn [fst].
      rewrite wlookup_wset. destruct (Nat.eqb i j) eqn:E; [|reflexivity].
      apply Nat.eqb_eq in E. congruence.
  Qed.

  (* independence: the slot of connection i after ANY interleaving with other
     connections' events, and everything written to it, are those of the
     single-connection model run alone on i's own commands (each against the
     backend state it met). *)
  Lemma world_conn_independent :
    forall (evs : list event) (w : world) (b : B) (i : nat) (loc : bool) (c0 : conn),
      wlookup i w = Some (loc, c0) ->
      forallb (fun e => negb (opens i e)) evs = true ->
      let '(w', _, os) := wrun w b evs in
      let '(c', outs) := replay B bk tbl (conn_cfg scfg loc) c0 (trace_of B bk tbl scfg i w b evs) in
      wlookup i w' = Some (loc, c') /\ outs_of i os = outs.
  Proof.
    induction evs as [|e r IH]; intros w b i loc c0 L Hno.
    - cbn. split; [exact L|reflexivity].
    - cbn [forallb] in Hno. apply andb_prop in Hno. destruct Hno as [He Hr].
      cbn [world_run trace_of].
      destruct e as [j l2|j k].
      + (* another connection opens *)
        cbn [opens] in He. apply Bool.negb_true_iff in He.
        cbn [world_step].
        destruct (conn_init B bk (conn_cfg scfg l2) b) as [[c b1] o].
        assert (L1 : wlookup i (wset j (l2, c) w) = Some (loc, c0)).
        { rewrite wlookup_wset, He. exact L. }
        specialize (IH (wset j (l2, c) w) b1 i loc c0 L1 Hr).
        destruct (wrun (wset j (l2, c) w) b1 r) as [[w2 b2] os].
        destruct (replay B bk tbl (conn_cfg scfg loc) c0
                    (trace_of B bk tbl scfg i (wset j (l2, c) w) b1 r)) as [c' outs].
        destruct IH as [IH1 IH2]. split; [exact IH1|].
        unfold outs_of in *. cbn [filter fst ev_id]. rewrite He. exact IH2.
      + destruct (Nat.eqb j i) eqn:E.
        * (* its own command *)
          apply Nat.eqb_eq in E. subst j.
          cbn [world_step]. rewrite L.
          destruct (conn_step B bk tbl (conn_cfg scfg loc) c0 b k) as [[c1 b1] o] eqn:S.
          assert (L1 : wlookup i (wset i (loc, c1) w) = Some (loc, c1)).
          { rewrite wlookup_wset, Nat.eqb_refl. reflexivity. }
          specialize (IH (wset i (loc, c1) w) b1 i loc c1 L1 Hr).
          destruct (wrun (wset i (loc, c1) w) b1 r) as [[w2 b2] os].
          cbn [replay]. rewrite S.
          destruct (replay B bk tbl (conn_cfg scfg loc) c1
                      (trace_of B bk tbl scfg i (wset i (loc, c1) w) b1 r)) as [c' outs].
          destruct IH as [IH1 IH2]. split; [exact IH1|].
          unfold outs_of in *. cbn [filter fst ev_id]. rewrite Nat.eqb_refl.
          cbn [map snd]. now rewrite IH2.
        * (* a command of another connection *)
          cbn [world_step].
          destruct (wlookup j w) as [[l2 c]|] eqn:Lj.
          -- destruct (conn_step B bk tbl (conn_cfg scfg l2) c b k) as [[c1 b1] o].
             assert (L1 : wlookup i (wset j (l2, c1) w) = Some (loc, c0)).
             { rewrite wlookup_wset, E. exact L. }
             specialize (IH (wset j (l2, c1) w) b1 i loc c0 L1 Hr).
             destruct (wrun (wset j (l2, c1) w) b1 r) as [[w2 b2] os].
             destruct (replay B bk tbl (conn_cfg scfg loc) c0
                         (trace_of B bk tbl scfg i (wset j (l2, c1) w) b1 r)) as [c' outs].
             destruct IH as [IH1 IH2]. split; [exact IH1|].
             unfold outs_of in *. cbn [filter fst ev_id]. rewrite E. exact IH2.
          -- specialize (IH w b i loc c0 L Hr).
             destruct (wrun w b r) as [[w2 b2] os].
             destruct (replay B bk tbl (conn_cfg scfg loc) c0
                         (trace_of B bk tbl scfg i w b r)) as [c' outs].
             exact IH.
  Qed.

  (* whatever happened on the server before, a client that connects now gets
     the connection a client of a server that has just started gets *)
  Lemma fresh_after_any_history :
    cf_preauth scfg = None ->
    forall (evs : list event) (w : world) (b : B) (i : nat) (loc : bool),
      let '(w1, b1, _) := wrun w b evs in
      let '(w2, b2, o) := wstep w1 b1 (EOpen i loc) in
      wlookup i w2 = Some (loc, fresh_conn scfg loc) /\ b2 = b1 /\
      o = Some (mk_out OK WDone false 0).
  Proof.
    intros Hp evs w b i loc.
    destruct (wrun w b evs) as [[w1 b1] os].
    cbn [world_step]. unfold conn_init. cbn [conn_cfg cf_preauth cf_tls cf_local].
    rewrite Hp. rewrite wlookup_wset, Nat.eqb_refl. unfold fresh_conn. auto.
  Qed.
End Proofs.

(* ... and on that connection STARTTLS is answered OK exactly when the
   configuration enables TLS (then the SASL mechanisms become available and
   STARTTLS is no longer offered — on this connection); with the generated
   table of built-in commands, for every backend. *)
Lemma fresh_starttls :
  forall (B : Type) (bk : B -> bcall -> answer * B) (scfg : config) (loc : bool) (b : B),
    let '(c', b', o) := conn_step B bk cmd_table (conn_cfg scfg loc) (fresh_conn scfg loc) b
                                  (CCmd "STARTTLS" ANone) in
    b' = b /\
    (cf_tls scfg = true ->
       o_cond o = OK /\ c_starttls c' = false /\ c_mechs c' = true /\ c_phase c' = NotAuth) /\
    (cf_tls scfg = false -> o_cond o = NO /\ o_why o = WCannot /\ c' = fresh_conn scfg loc).
Proof.
  intros B bk scfg loc b.
  destruct scfg as [tls l lim idle ma pre].
  unfold fresh_conn, conn_cfg. cbn [cf_tls cf_bad_limit cf_idle cf_multiappend cf_preauth].
  destruct tls; vm_compute; repeat split; intros; try discriminate; auto.
Qed.

(* LOGIN on a fresh connection of a non-local peer is refused (LOGINDISABLED)
   exactly when TLS is enabled, and after this connection's own STARTTLS it
   reaches the backend: a function of this connection's history only. *)
Lemma fresh_login_disabled :
  forall (B : Type) (bk : B -> bcall -> answer * B) (scfg : config) (b : B) (u p : bytes),
    cf_tls scfg = true ->
    let '(c', b', o) := conn_step B bk cmd_table (conn_cfg scfg false) (fresh_conn scfg false) b
                                  (CCmd "LOGIN" (ALogin u p)) in
    o_cond o = NO /\ o_why o = WCannot /\ b' = b /\ c' = fresh_conn scfg false.
Proof.
  intros B bk scfg b u p Ht.
  destruct scfg as [tls l lim idle ma pre]. cbn [cf_tls] in Ht. subst tls.
  unfold fresh_conn, conn_cfg. cbn [cf_tls cf_bad_limit cf_idle cf_multiappend cf_preauth].
  vm_compute. auto.
Qed.

(* Non-vacuity: in the aliased design (one capability list shared by the
   server and all its connections) the same history — connection 0 completes
   STARTTLS, then connection 1 connects and sends STARTTLS — gives connection 1
   NO, while the product model gives OK. *)
Definition tls_cfg : config := mk_config true false 5 true true None.
Definition starttls_twice : list event :=
  [EOpen 0 false; ECmd 0 (CCmd "STARTTLS" ANone); EOpen 1 false; ECmd 1 (CCmd "STARTTLS" ANone)].

Lemma aliased_design_refuted :
  map (fun x => (fst x, o_cond (snd x)))
      (snd (world_run script script_bk cmd_table tls_cfg [] [] starttls_twice))
    = [(0, OK); (0, OK); (1, OK); (1, OK)]%nat /\
  map (fun x => (fst x, o_cond (snd x)))
      (snd (aliased_run script script_bk cmd_table tls_cfg ([], true) [] starttls_twice))
    = [(0, OK); (0, OK); (1, OK); (1, NO)]%nat.
Proof. vm_compute. auto. Qed.
