(* Conn/MultiConn.v — several connections served by ONE server object
   (pymap/imap/__init__.py IMAPServer.__call__: every accepted connection gets
   its own IMAPConnection and its own ConnectionState(login, config); the login
   object / backend and the configuration object are shared).

   The world model is the product of single-connection models (Conn/ConnFSM.v):
   each connection owns a slot (its peer locality + its [conn]); the only things
   connections share are the backend state [B] and the immutable server
   configuration [scfg].  In particular the per-connection capability state
   (STARTTLS still offered, SASL mechanisms offered, login capabilities appended)
   and the bad-command counter live in the slot: nothing one connection does can
   change what another one is offered.  Definitions only. *)
From Coq Require Import String.
From PV Require Import Base.Prelude Conn.CmdEntry Conn.ConnFSM.
Open Scope string_scope.

Inductive event :=
| EOpen (i : nat) (loc : bool)     (* a client connects (from localhost or not): greeting *)
| ECmd (i : nat) (k : cmd).        (* connection i receives one command *)

Definition ev_id (e : event) : nat :=
  match e with EOpen i _ => i | ECmd i _ => i end.

Definition slot := (bool * conn)%type.
Definition world := list (nat * slot).

Fixpoint wlookup (i : nat) (w : world) : option slot :=
  match w with
  | [] => None
  | (j, s) :: r => if Nat.eqb j i then Some s else wlookup i r
  end.

(* the newest binding wins; re-opening an id replaces the old connection *)
Definition wset (i : nat) (s : slot) (w : world) : world := (i, s) :: w.

Section World.
  Variable B : Type.
  Variable bk : B -> bcall -> answer * B.
  Variable tbl : list cmd_entry.
  Variable scfg : config.       (* the server's IMAPConfig: the same object for every connection *)

  (* what one connection sees of it: everything but the peer address, which
     comes with the socket *)
  Definition conn_cfg (loc : bool) : config :=
    mk_config (cf_tls scfg) loc (cf_bad_limit scfg) (cf_idle scfg) (cf_multiappend scfg)
              (cf_preauth scfg).

  Definition world_step (w : world) (b : B) (e : event) : world * B * option out :=
    match e with
    | EOpen i loc =>
        let '(c, b', o) := conn_init B bk (conn_cfg loc) b in
        (wset i (loc, c) w, b', Some o)
    | ECmd i k =>
        match wlookup i w with
        | None => (w, b, None)                 (* no such connection: nothing happens *)
        | Some (loc, c) =>
            let '(c', b', o) := conn_step B bk tbl (conn_cfg loc) c b k in
            (wset i (loc, c') w, b', Some o)
        end
    end.

  (* outputs are tagged with the connection they were written to *)
  Fixpoint world_run (w : world) (b : B) (evs : list event)
    : world * B * list (nat * out) :=
    match evs with
    | [] => (w, b, [])
    | e :: r =>
        let '(w1, b1, o) := world_step w b e in
        let '(w2, b2, os) := world_run w1 b1 r in
        (w2, b2, match o with Some x => (ev_id e, x) :: os | None => os end)
    end.

  (* ---- the local view of connection i ---- *)

  (* its own commands, each with the backend state it met *)
  Fixpoint trace_of (i : nat) (w : world) (b : B) (evs : list event) : list (cmd * B) :=
    match evs with
    | [] => []
    | e :: r =>
        let '(w1, b1, _) := world_step w b e in
        match e with
        | ECmd j k => if Nat.eqb j i then (k, b) :: trace_of i w1 b1 r else trace_of i w1 b1 r
        | EOpen _ _ => trace_of i w1 b1 r
        end
    end.

  (* ... replayed on the single-connection model alone *)
  Fixpoint replay (cfg : config) (c : conn) (l : list (cmd * B)) : conn * list out :=
    match l with
    | [] => (c, [])
    | (k, b) :: r =>
        let '(c1, _, o) := conn_step B bk tbl cfg c b k in
        let '(c2, os) := replay cfg c1 r in
        (c2, o :: os)
    end.

  Definition outs_of (i : nat) (os : list (nat * out)) : list out :=
    map snd (filter (fun x => Nat.eqb (fst x) i) os).

  Definition opens (i : nat) (e : event) : bool :=
    match e with EOpen j _ => Nat.eqb j i | ECmd _ _ => false end.

  (* a connection as ConnectionState.__init__ + do_greeting leave it when no
     PREAUTH credentials are configured *)
  Definition fresh_conn (loc : bool) : conn :=
    mk_conn (mk_view NotAuth (negb (cf_tls scfg) || loc) (cf_tls scfg) 0) 0.

End World.

(* ------------------------------------------------------------------------
   The design the model excludes (for the non-vacuity theorem): the initial
   capability list is ONE list object kept by the server and aliased by every
   ConnectionState; do_starttls removes b'STARTTLS' from it in place.  The
   world then carries one more bit — is STARTTLS still in the shared list —
   which every connection reads and any connection clears. *)
Section Aliased.
  Variable B : Type.
  Variable bk : B -> bcall -> answer * B.
  Variable tbl : list cmd_entry.
  Variable scfg : config.

  Definition with_starttls (c : conn) (f : bool) : conn :=
    mk_conn (mk_view (c_phase c) (c_mechs c) f (c_logincaps c)) (c_bad c).

  Definition aliased_step (wf : world * bool) (b : B) (e : event)
    : (world * bool) * B * option out :=
    let '(w, f) := wf in
    match e with
    | EOpen i loc =>
        let '(c, b', o) := conn_init B bk (conn_cfg scfg loc) b in
        ((wset i (loc, with_starttls c f) w, f), b', Some o)
    | ECmd i k =>
        match wlookup i w with
        | None => (wf, b, None)
        | Some (loc, c) =>
            let '(c', b', o) := conn_step B bk tbl (conn_cfg scfg loc) (with_starttls c f) b k in
            ((wset i (loc, c') w, c_starttls c'), b', Some o)
        end
    end.

  Fixpoint aliased_run (wf : world * bool) (b : B) (evs : list event)
    : (world * bool) * B * list (nat * out) :=
    match evs with
    | [] => (wf, b, [])
    | e :: r =>
        let '(wf1, b1, o) := aliased_step wf b e in
        let '(wf2, b2, os) := aliased_run wf1 b1 r in
        (wf2, b2, match o with Some x => (ev_id e, x) :: os | None => os end)
    end.
End Aliased.
