(* Conn/MultiConnCheck.v — case checker for the multi-connection correspondence
   (harness/c05_multiconn.py).  A case is the server configuration and a list of
   events in the order the real server processed them — a client connecting
   (greeting) or one command on one of the open connections — each with the
   backend calls the implementation made while serving it and what was
   observed on that connection afterwards (same observation record as
   Conn/ConnCheck.v: condition, reason class, BYE, continuation lines, and the
   glass-box view of THAT connection's ConnectionState).  The world model
   (Conn/MultiConn.v) is run with the per-event call log as its backend. *)
From Coq Require Import String.
From PV Require Import Base.Prelude Conn.CmdEntry Conn.CmdTable Conn.ConnFSM Conn.ConnCheck
  Conn.MultiConn.

Definition wev := (event * script * obs)%type.
Definition mk_wev (e : event) (s : script) (ob : obs) : wev := (e, s, ob).

Definition wev_ok (scfg : config) (w : world) (x : wev) : option world :=
  let '(e, s, ob) := x in
  match world_step script script_bk cmd_table scfg w s e with
  | (w', s', Some o) =>
      match wlookup (ev_id e) w' with
      | Some (_, c') => if script_done s' && obs_ok c' o ob then Some w' else None
      | None => None
      end
  | (_, _, None) => None
  end.

Fixpoint chk_wevs (scfg : config) (w : world) (l : list wev) : bool :=
  match l with
  | [] => true
  | x :: r => match wev_ok scfg w x with Some w' => chk_wevs scfg w' r | None => false end
  end.

Definition world_case := (config * list wev)%type.
Definition mk_wcase (scfg : config) (l : list wev) : world_case := (scfg, l).

Definition chk_world (x : world_case) : bool := chk_wevs (fst x) [] (snd x).

(* index of the first event that differs, and what the model says there *)
Fixpoint first_bad_wev (scfg : config) (w : world) (l : list wev) (i : nat)
  : option (nat * option (out * conn)) :=
  match l with
  | [] => None
  | x :: r =>
      match wev_ok scfg w x with
      | Some w' => first_bad_wev scfg w' r (S i)
      | None =>
          let '(e, s, _) := x in
          match world_step script script_bk cmd_table scfg w s e with
          | (w', _, Some o) =>
              Some (i, match wlookup (ev_id e) w' with Some (_, c') => Some (o, c') | None => None end)
          | _ => Some (i, None)
          end
      end
  end.
Definition where_bad_world (x : world_case) := first_bad_wev (fst x) [] (snd x) 0.
