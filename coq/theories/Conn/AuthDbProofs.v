(* Conn/AuthDbProofs.v — C09 with the identity database as state: an attempt
   succeeds only against the secret stored AT THAT MOMENT; a removed password
   or a deleted user never authenticates; octets that are not UTF-8 never
   verify. *)
From Coq Require Import String Lia.
From PV Require Import Base.Prelude Conn.CmdEntry Conn.CmdTable Conn.ConnFSM Conn.Auth
  Conn.AuthProofs Conn.SieveAuth Conn.SieveAuthProofs Conn.AuthDb.
Open Scope string_scope.

(* ------------------------------------------------------ association lists *)
Section AssocLemmas.
  Variable V : Type.
  Implicit Types (l : list (bytes * V)).

  Lemma beq_refl k : bytes_eqb k k = true.
  Proof. now apply bytes_eqb_eq. Qed.

  Lemma beq_false k k' : k <> k' -> bytes_eqb k k' = false.
  Proof.
    intros H. destruct (bytes_eqb k k') eqn:E; [|reflexivity].
    apply bytes_eqb_eq in E. contradiction.
  Qed.

  Lemma beq_trans_false a b c : bytes_eqb a b = true -> b <> c -> bytes_eqb a c = false.
  Proof. intros H Hn. apply bytes_eqb_eq in H. subst. now apply beq_false. Qed.

  Lemma aget_aset_same k v l : aget k (aset k v l) = Some v.
  Proof.
    induction l as [|[k' v'] r IH]; cbn [aset aget].
    - now rewrite beq_refl.
    - destruct (bytes_eqb k' k) eqn:E; cbn [aget]; rewrite E; auto.
  Qed.

  Lemma aget_aset_other k k' v l : k <> k' -> aget k' (aset k v l) = aget k' l.
  Proof.
    intros Hn. induction l as [|[k2 v2] r IH]; cbn [aset aget].
    - now rewrite (beq_false _ _ Hn).
    - destruct (bytes_eqb k2 k) eqn:E; cbn [aget].
      + rewrite (beq_trans_false _ _ _ E Hn). reflexivity.
      + rewrite IH. reflexivity.
  Qed.

  Lemma aget_adel_same k l : aget k (adel k l) = None.
  Proof.
    induction l as [|[k' v'] r IH]; cbn [adel aget]; [reflexivity|].
    destruct (bytes_eqb k' k) eqn:E; cbn [aget]; [exact IH|]. rewrite E. exact IH.
  Qed.

  Lemma aget_adel_other k k' l : k <> k' -> aget k' (adel k l) = aget k' l.
  Proof.
    intros Hn. induction l as [|[k2 v2] r IH]; cbn [adel aget]; [reflexivity|].
    destruct (bytes_eqb k2 k) eqn:E; cbn [aget].
    - rewrite (beq_trans_false _ _ _ E Hn). exact IH.
    - rewrite IH. reflexivity.
  Qed.
End AssocLemmas.

(* ---------------------------------------------- the view and Identity.get *)
Lemma find_user_map {V} (f : bytes -> V -> user) (l : list (bytes * V)) n :
  (forall k v, us_name (f k v) = k) ->
  find_user n (map (fun e => f (fst e) (snd e)) l) =
  match aget n l with Some v => Some (f n v) | None => None end.
Proof.
  intros Hf. induction l as [|[k v] r IH]; cbn [map find_user aget fst snd]; [reflexivity|].
  rewrite Hf. destruct (bytes_eqb k n) eqn:E; [|exact IH].
  apply bytes_eqb_eq in E. now subst.
Qed.

Lemma find_user_view s n : find_user n (view_db s) = db_get s n.
Proof.
  destruct s as [d|f]; cbn [view_db db_get].
  - rewrite (find_user_map (fun k v => mk_user k (fst v) (snd v)) d n) by reflexivity.
    destruct (aget n d) as [[pw roles]|]; reflexivity.
  - rewrite (find_user_map (fun k v => md_user f k v) (md_passwd f) n) by reflexivity.
    reflexivity.
Qed.

(* the stored secret of n: None = no such user, Some None = none / disabled *)
Definition pw_of (s : dbstate) (n : bytes) : option (option bytes) :=
  option_map us_pw (db_get s n).

(* what Identity.get() reports after set(pw) *)
Definition effective_pw (s : dbstate) (pw : option bytes) : option bytes :=
  match s, pw with
  | MdDb _, Some h => if pw_disabled h then None else Some h
  | _, _ => pw
  end.

Lemma apply_failed s o s' r : db_apply s o = (s', r) -> r <> ROk -> s' = s.
Proof.
  destruct s as [d|f], o as [priv n pw roles|n]; cbn [db_apply]; intros H Hr.
  - destruct (negb priv && _); inversion H; subst; [reflexivity|congruence].
  - destruct (aget n d); inversion H; subst; [congruence|reflexivity].
  - destruct (negb priv && _); inversion H; subst; [reflexivity|congruence].
  - destruct (aget n (md_passwd f)); inversion H; subst; [congruence|reflexivity].
Qed.

Lemma kind_apply s o : kind_of (fst (db_apply s o)) = kind_of s.
Proof.
  destruct s as [d|f], o as [priv n pw roles|n]; cbn [db_apply].
  - destruct (negb priv && _); reflexivity.
  - destruct (aget n d); reflexivity.
  - destruct (negb priv && _); reflexivity.
  - destruct (aget n (md_passwd f)); reflexivity.
Qed.

(* Identity.set(name) followed by Identity.get(name): exactly what was set *)
Lemma pw_after_set s priv n pw roles s' :
  db_apply s (OSet priv n pw roles) = (s', ROk) -> pw_of s' n = Some (effective_pw s pw).
Proof.
  destruct s as [d|f]; cbn [db_apply]; destruct (negb priv && _); intros H; inversion H; subst.
  - unfold pw_of. cbn [db_get]. rewrite aget_aset_same. reflexivity.
  - unfold pw_of. cbn [db_get md_passwd]. rewrite aget_aset_same.
    cbn [option_map md_user us_pw]. unfold md_pw. cbn [md_shadow]. rewrite aget_aset_same.
    cbn [effective_pw]. destruct pw as [h|]; reflexivity.
Qed.

Lemma pw_after_delete s n s' r : db_apply s (ODelete n) = (s', r) -> pw_of s' n = None.
Proof.
  destruct s as [d|f]; cbn [db_apply].
  - destruct (aget n d) eqn:E; intros H; inversion H; subst; unfold pw_of; cbn [db_get].
    + now rewrite aget_adel_same.
    + now rewrite E.
  - destruct (aget n (md_passwd f)) eqn:E; intros H; inversion H; subst; unfold pw_of;
      cbn [db_get md_passwd].
    + now rewrite aget_adel_same.
    + now rewrite E.
Qed.

Definition op_name (o : dbop) : bytes :=
  match o with OSet _ n _ _ => n | ODelete n => n end.

(* an operation on one user never touches the existence or the stored secret
   of another *)
Lemma pw_other s o n : op_name o <> n -> pw_of (fst (db_apply s o)) n = pw_of s n.
Proof.
  intros Hn. destruct s as [d|f], o as [priv m pw roles|m]; cbn [op_name] in Hn; cbn [db_apply].
  - destruct (negb priv && _); cbn [fst]; [reflexivity|].
    unfold pw_of. cbn [db_get]. now rewrite aget_aset_other.
  - destruct (aget m d); cbn [fst]; [|reflexivity].
    unfold pw_of. cbn [db_get]. now rewrite aget_adel_other.
  - destruct (negb priv && _); cbn [fst]; [reflexivity|].
    unfold pw_of. cbn [db_get md_passwd]. rewrite aget_aset_other by exact Hn.
    destruct (aget n (md_passwd f)); [|reflexivity].
    cbn [option_map md_user us_pw]. unfold md_pw. cbn [md_shadow].
    now rewrite aget_aset_other.
  - destruct (aget m (md_passwd f)); cbn [fst]; [|reflexivity].
    unfold pw_of. cbn [db_get md_passwd]. rewrite aget_adel_other by exact Hn.
    destruct (aget n (md_passwd f)); [|reflexivity].
    cbn [option_map md_user us_pw]. unfold md_pw. cbn [md_shadow].
    now rewrite aget_adel_other.
Qed.

(* ------------------------------------------------------- no_pw / no_user *)
Lemma no_pw_iff s n : no_pw s n <-> (forall h, pw_of s n <> Some (Some h)).
Proof.
  unfold no_pw, pw_of. setoid_rewrite find_user_view. split.
  - intros H h E. destruct (db_get s n) as [u|]; [|discriminate].
    cbn in E. rewrite (H u eq_refl) in E. discriminate.
  - intros H u E. rewrite E in H. cbn in H. destruct (us_pw u) as [h|]; [|reflexivity].
    exfalso. now apply (H h).
Qed.

Lemma no_user_iff s n : no_user s n <-> pw_of s n = None.
Proof.
  unfold no_user, pw_of. rewrite find_user_view.
  destruct (db_get s n); cbn; split; congruence.
Qed.

Lemma no_user_no_pw s n : no_user s n -> no_pw s n.
Proof. rewrite no_user_iff, no_pw_iff. intros -> h. discriminate. Qed.

(* removing the password *)
Lemma removed_no_pw s priv n roles s' :
  db_apply s (OSet priv n None roles) = (s', ROk) -> no_pw s' n.
Proof.
  intros H. apply no_pw_iff. rewrite (pw_after_set _ _ _ _ _ _ H).
  destruct s; cbn; intros h; discriminate.
Qed.

Lemma deleted_no_user s n s' r : db_apply s (ODelete n) = (s', r) -> no_user s' n.
Proof. intros H. apply no_user_iff. exact (pw_after_delete _ _ _ _ H). Qed.

Lemma neq_of_beq_false a b : bytes_eqb a b = false -> a <> b.
Proof. intros E H. subst. rewrite beq_refl in E. discriminate. Qed.

(* ... and it stays removed until somebody sets one *)
Lemma no_pw_step s n o : no_pw s n -> gives_pw n o = false -> no_pw (fst (db_apply s o)) n.
Proof.
  intros Hs Hg. destruct (bytes_eqb (op_name o) n) eqn:En.
  - apply bytes_eqb_eq in En. destruct (db_apply s o) as [s' r] eqn:Ea. cbn [fst].
    destruct o as [priv m pw roles|m]; cbn [op_name] in En; subst m.
    + destruct r; try (rewrite (apply_failed _ _ _ _ Ea); [exact Hs|discriminate]).
      cbn [gives_pw] in Hg. destruct pw as [h|].
      * rewrite beq_refl in Hg. discriminate.
      * exact (removed_no_pw _ _ _ _ _ Ea).
    + apply no_user_no_pw. exact (deleted_no_user _ _ _ _ Ea).
  - apply no_pw_iff. rewrite pw_other by (now apply neq_of_beq_false). now apply no_pw_iff.
Qed.

Lemma no_user_step s n o : no_user s n -> creates n o = false -> no_user (fst (db_apply s o)) n.
Proof.
  intros Hs Hg. destruct (bytes_eqb (op_name o) n) eqn:En.
  - apply bytes_eqb_eq in En. destruct (db_apply s o) as [s' r] eqn:Ea. cbn [fst].
    destruct o as [priv m pw roles|m]; cbn [op_name] in En; subst m.
    + cbn [creates] in Hg. rewrite beq_refl in Hg. discriminate.
    + exact (deleted_no_user _ _ _ _ Ea).
  - apply no_user_iff. rewrite pw_other by (now apply neq_of_beq_false). now apply no_user_iff.
Qed.

Lemma no_pw_run ops : forall s n, no_pw s n -> forallb (fun o => negb (gives_pw n o)) ops = true ->
  no_pw (db_run s ops) n.
Proof.
  induction ops as [|o r IH]; intros s n Hs Hf; [exact Hs|].
  cbn [forallb] in Hf. apply andb_true_iff in Hf as [Ho Hr].
  unfold db_run. cbn [fold_left]. apply IH; [|exact Hr].
  apply no_pw_step; [exact Hs|]. now destruct (gives_pw n o).
Qed.

Lemma no_user_run ops : forall s n, no_user s n -> forallb (fun o => negb (creates n o)) ops = true ->
  no_user (db_run s ops) n.
Proof.
  induction ops as [|o r IH]; intros s n Hs Hf; [exact Hs|].
  cbn [forallb] in Hf. apply andb_true_iff in Hf as [Ho Hr].
  unfold db_run. cbn [fold_left]. apply IH; [|exact Hr].
  apply no_user_step; [exact Hs|]. now destruct (creates n o).
Qed.

(* --------------------------------------------------- consequences for login *)
Section Login.
  Variable verify_secret : bytes -> bytes -> bool.
  Variable prep_ok : bytes -> bool.
  Variable cfg : config.

  Notation valid_at := (valid_at verify_secret prep_ok).
  Notation bk_at := (bk_at verify_secret prep_ok).
  Notation hstep1 := (hist_step verify_secret prep_ok cmd_table cfg).
  Notation final := (hist_final verify_secret prep_ok cmd_table cfg).
  Notation before := (hist_before verify_secret prep_ok cmd_table cfg).

  Lemma no_pw_not_valid s n secret authz : no_pw s n -> ~ valid_at s n secret authz.
  Proof.
    intros Hn (ua & h & Hf & Hp & _). rewrite (Hn ua Hf) in Hp. discriminate.
  Qed.

  Lemma no_user_not_valid s n authc secret : no_user s n -> ~ valid_at s authc secret n.
  Proof.
    intros Hn (ua & h & _ & _ & _ & _ & _ & (uz & Hz)). unfold no_user in Hn. congruence.
  Qed.

  (* credential octets that are not UTF-8 never verify: no lossy decoding *)
  Lemma not_utf8_not_valid s authc secret authz :
    utf8_valid authc = false \/ utf8_valid secret = false -> ~ valid_at s authc secret authz.
  Proof.
    intros Hu (ua & h & _ & _ & Hv & Hp & _).
    unfold strict_verify in Hv. unfold strict_prep in Hp.
    apply andb_true_iff in Hv as [Hv _]. apply andb_true_iff in Hp as [Hp _].
    destruct Hu; congruence.
  Qed.

  (* one command against the database of the moment *)
  Lemma step_at_failed s c k :
    session_user (c_phase c) = None ->
    (forall authc secret authz, creds_of k = Some (authc, secret, authz) ->
                                ~ valid_at s authc secret authz) ->
    session_user (c_phase (fst (fst (conn_step unit (bk_at s) cmd_table cfg c tt k)))) = None.
  Proof. apply imap_failed_leaves_unauth. Qed.

  Lemma hist_closed p : forall c s, c_phase c = Closed -> c_phase (fst (final (c, s) p)) = Closed.
  Proof.
    induction p as [|h r IH]; intros c s Hc; [exact Hc|].
    unfold hist_final. cbn [fold_left]. destruct h as [o|k]; cbn [hist_step fst snd].
    - apply IH. exact Hc.
    - unfold AuthDb.bk_at. rewrite step_closed by exact Hc. apply IH. exact Hc.
  Qed.

  Lemma hist_stable p : forall c s u,
    session_user (c_phase c) = Some u ->
    forall u', session_user (c_phase (fst (final (c, s) p))) = Some u' -> u' = u.
  Proof.
    induction p as [|h r IH]; intros c s u Hu u' Hl.
    - cbn in Hl. congruence.
    - unfold hist_final in Hl. cbn [fold_left] in Hl. destruct h as [o|k]; cbn [hist_step fst snd] in Hl.
      + eapply IH; eauto.
      + pose proof (step_effect (strict_verify verify_secret) (strict_prep prep_ok) (kind_of s)
                      (view_db s) cmd_table cfg cmd_table_auth_ok c k) as He.
        unfold AuthDb.bk_at in Hl.
        destruct (conn_step unit _ cmd_table cfg c tt k) as [[c1 []] o]. cbn [fst] in Hl.
        destruct He as [[[Hcl|Hsame] _] | (Hna & _)].
        * pose proof (hist_closed r c1 s Hcl) as Hf. unfold hist_final in Hf.
          rewrite Hf in Hl. discriminate.
        * eapply IH; [|exact Hl]. congruence.
        * rewrite Hna in Hu. discriminate.
  Qed.

  (* THE theorem: over any history of database operations and commands, a
     connection that ends authenticated as u was authenticated by a command
     whose credentials were valid for the database AS IT WAS WHEN THE COMMAND
     RAN *)
  Lemma hist_sound p : forall c s u,
    session_user (c_phase c) = None ->
    session_user (c_phase (fst (final (c, s) p))) = Some u ->
    exists i k authc secret ci si,
      nth_error p i = Some (HCmd k) /\ nth_error (before (c, s) p) i = Some (ci, si) /\
      creds_of k = Some (authc, secret, u) /\ valid_at si authc secret u.
  Proof.
    induction p as [|h r IH]; intros c s u Hn Hl.
    - cbn in Hl. congruence.
    - unfold hist_final in Hl. cbn [fold_left] in Hl. destruct h as [o|k].
      + cbn [hist_step fst snd] in Hl.
        destruct (IH _ _ _ Hn Hl) as (i & k & authc & secret & ci & si & H1 & H2 & H3 & H4).
        exists (S i), k, authc, secret, ci, si. repeat split; auto.
      + pose proof (step_effect (strict_verify verify_secret) (strict_prep prep_ok) (kind_of s)
                      (view_db s) cmd_table cfg cmd_table_auth_ok c k) as He.
        cbn [hist_before]. cbn [hist_step fst snd] in *. unfold AuthDb.bk_at in *.
        destruct (conn_step unit _ cmd_table cfg c tt k) as [[c1 []] o]. cbn [fst] in *.
        destruct He as [[[Hcl|Hsame] _] | (Hna & _ & authc & secret & authz & Hk & Hv & Hs & _)].
        * pose proof (hist_closed r c1 s Hcl) as Hf. unfold hist_final in Hf.
          rewrite Hf in Hl. discriminate.
        * rewrite Hn in Hsame.
          destruct (IH _ _ _ Hsame Hl) as (i & k' & authc & secret & ci & si & H1 & H2 & H3 & H4).
          exists (S i), k', authc, secret, ci, si. repeat split; auto.
        * pose proof (hist_stable r c1 s authz Hs u Hl) as ->.
          exists 0%nat, k, authc, secret, c, s. repeat split; auto.
  Qed.

  (* an invariant of the database preserved by the operations of the history
     holds before every step *)
  Lemma before_inv (P : dbstate -> Prop) p : forall c s,
    P s ->
    (forall o s', In (HOp o) p -> P s' -> P (fst (db_apply s' o))) ->
    forall i ci si, nth_error (before (c, s) p) i = Some (ci, si) -> P si.
  Proof.
    induction p as [|h r IH]; intros c s Hs Hpres i ci si Hi.
    - destruct i; discriminate.
    - cbn [hist_before] in Hi. destruct i as [|i].
      + cbn in Hi. inversion Hi; subst. exact Hs.
      + cbn [nth_error] in Hi. destruct h as [o|k]; cbn [hist_step fst snd] in Hi.
        * eapply IH; [| |exact Hi].
          -- apply Hpres; [left; reflexivity|exact Hs].
          -- intros o' s' Hin. apply Hpres. right. exact Hin.
        * eapply IH; [exact Hs| |exact Hi].
          intros o' s' Hin. apply Hpres. right. exact Hin.
  Qed.

  (* a removed password never authenticates: from a moment where n has no
     stored secret, through any history that does not set one, whoever the
     connection ends up being did not get there with n's credentials *)
  Lemma removed_never_authenticates p c s n u :
    no_pw s n ->
    (forall o, In (HOp o) p -> gives_pw n o = false) ->
    session_user (c_phase c) = None ->
    session_user (c_phase (fst (final (c, s) p))) = Some u ->
    exists i k authc secret,
      nth_error p i = Some (HCmd k) /\ creds_of k = Some (authc, secret, u) /\ authc <> n.
  Proof.
    intros Hs Hops Hn Hl.
    destruct (hist_sound p c s u Hn Hl) as (i & k & authc & secret & ci & si & H1 & H2 & H3 & H4).
    exists i, k, authc, secret. repeat split; auto. intros ->.
    assert (Hinv : no_pw si n).
    { eapply (before_inv (fun st => no_pw st n)); [exact Hs| |exact H2].
      intros o s' Hin Hs'. apply no_pw_step; auto. }
    exact (no_pw_not_valid _ _ _ _ Hinv H4).
  Qed.

  (* a deleted (or never created) user never authenticates and nobody acts as it *)
  Lemma deleted_never_authenticates p c s n u :
    no_user s n ->
    (forall o, In (HOp o) p -> creates n o = false) ->
    session_user (c_phase c) = None ->
    session_user (c_phase (fst (final (c, s) p))) = Some u ->
    u <> n /\
    exists i k authc secret,
      nth_error p i = Some (HCmd k) /\ creds_of k = Some (authc, secret, u) /\ authc <> n.
  Proof.
    intros Hs Hops Hn Hl.
    destruct (hist_sound p c s u Hn Hl) as (i & k & authc & secret & ci & si & H1 & H2 & H3 & H4).
    assert (Hinv : no_user si n).
    { eapply (before_inv (fun st => no_user st n)); [exact Hs| |exact H2].
      intros o s' Hin Hs'. apply no_user_step; auto. }
    split.
    - intros ->. exact (no_user_not_valid _ _ _ _ Hinv H4).
    - exists i, k, authc, secret. repeat split; auto. intros ->.
      exact (no_pw_not_valid _ _ _ _ (no_user_no_pw _ _ Hinv) H4).
  Qed.

  Lemma deleted_then_never p c s0 s r n u :
    db_apply s0 (ODelete n) = (s, r) ->
    (forall o, In (HOp o) p -> creates n o = false) ->
    session_user (c_phase c) = None ->
    session_user (c_phase (fst (final (c, s) p))) = Some u ->
    u <> n /\
    exists i k authc secret,
      nth_error p i = Some (HCmd k) /\ creds_of k = Some (authc, secret, u) /\ authc <> n.
  Proof.
    intros Hd. apply deleted_never_authenticates. exact (deleted_no_user _ _ _ _ Hd).
  Qed.

  (* LOGIN with octets that are not UTF-8 never authenticates, whatever the
     database holds *)
  Lemma login_not_utf8 s c u p :
    session_user (c_phase c) = None ->
    utf8_valid u = false \/ utf8_valid p = false ->
    session_user (c_phase (fst (fst (conn_step unit (bk_at s) cmd_table cfg c tt
                                               (CCmd "LOGIN" (ALogin u p)))))) = None.
  Proof.
    intros Hn Hu. apply step_at_failed; [exact Hn|].
    intros authc secret authz Hc. cbn [creds_of] in Hc. inversion Hc; subst.
    now apply not_utf8_not_valid.
  Qed.

  (* ManageSieve: same database, same conclusion *)
  Lemma sieve_no_pw_step s c k n secret :
    sv_owner c = None -> sieve_creds_of k = Some (n, secret) ->
    no_pw s n \/ utf8_valid n = false \/ utf8_valid secret = false ->
    sv_owner (fst (fst (sieve_step unit (bk_at s) c tt k))) = None.
  Proof.
    intros Hn Hk Hbad. apply sieve_failed_step; [exact Hn|].
    intros authc secret' Hk'. rewrite Hk in Hk'. inversion Hk'; subst.
    intros (ua & h & Hf & Hp & Hv & Hpr).
    destruct Hbad as [Hnp | Hu].
    - rewrite (Hnp ua Hf) in Hp. discriminate.
    - unfold strict_verify in Hv. unfold strict_prep in Hpr.
      apply andb_true_iff in Hv as [Hv _]. apply andb_true_iff in Hpr as [Hpr _].
      destruct Hu; congruence.
  Qed.
End Login.
