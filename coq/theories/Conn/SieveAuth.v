(* Conn/SieveAuth.v — the authentication path of the ManageSieve listener,
   pymap/sieve/manage/__init__.py: ManageSieveConnection.run dispatch,
   _do_greeting, _do_authenticate, _do_unauthenticate, _do_starttls, _login.
   (The script commands themselves belong to C19; here they are one opaque
   command that cannot change who the connection is.)  Definitions only. *)
From Coq Require Import String.
From PV Require Import Base.Prelude Conn.CmdEntry Conn.ConnFSM Conn.Auth.
Open Scope string_scope.

Record sconn := mk_sconn {
  sv_owner : option bytes;   (* self._state is not None: FilterState.owner *)
  sv_mechs : bool;           (* self.auth offers PLAIN / LOGIN *)
  sv_offer_tls : bool;       (* self._offer_starttls *)
  sv_closed : bool
}.

Inductive scmd :=
| SAuthenticate (mech : bytes) (initial : option cline) (lines : list cline)
| SUnauthenticate
| SStartTls
| SLogout
| SNoop
| SCapability
| SOther          (* any other well-formed command (script commands) *)
| SBad.           (* NotParseable *)

Inductive scond := SOK | SNO | SBYE | SNONE.

Record sout := mk_sout { so_cond : scond; so_lines : N }.

(* answers of the client during the exchange: String.parse value *)
Definition sieve_line (l : cline) : lineres :=
  if bytes_eqb (cl_raw l) b_STAR then LCancel
  else match cl_dec l with None => LBad64 | Some d => LData d (cl_utf8 l) end.

(* the initial response on the command line is decoded without the '*' test *)
Definition sieve_init (l : cline) : lineres :=
  match cl_dec l with None => LBad64 | Some d => LData d (cl_utf8 l) end.

(* the exchange: (credentials | failure, client lines consumed).  Every
   failure (cancel, base64, invalid response, undecodable bytes) is answered
   NO by one or the other except clause. *)
Definition sieve_exchange (mechs : bool) (mech : bytes) (initial : option cline)
           (lines : list cline) : sasl :=
  let resps := match initial with
               | Some l => sieve_init l :: map sieve_line lines
               | None => map sieve_line lines
               end in
  let used (k : N) := match initial with Some _ => (k - 1)%N | None => k end in
  if negb mechs then SNoMech
  else if bytes_eqb (upper_bytes mech) b_PLAIN then
    match resps with
    | [] => SStalled 0%N%N
    | LData d utf8 :: _ =>
        match parse_plain d with
        | None => SAuthErr (used 1%N)
        | Some (zid, cid, secret) =>
            if negb utf8 then SAuthErr (used 1%N)
            else SCreds cid secret (match zid with [] => cid | _ => zid end) (used 1%N)
        end
    | _ :: _ => SAuthErr (used 1%N)
    end
  else if bytes_eqb (upper_bytes mech) b_LOGIN then
    match resps with
    | [] => SStalled 0%N%N
    | LData d1 u1 :: rest =>
        match rest with
        | [] => SStalled (used 1%N)
        | LData d2 u2 :: _ =>
            if negb (u1 && u2) then SAuthErr (used 2%N) else SCreds d1 d2 d1 (used 2%N)
        | _ :: _ => SAuthErr (used 2%N)
        end
    | _ :: _ => SAuthErr (used 1%N)
    end
  else SNoMech.

Definition sasl_lines (s : sasl) : N :=
  match s with
  | SNoMech => 0%N
  | SStalled n | SAuthErr n => n
  | SCreds _ _ _ n => n
  end.

Section SieveStep.
  Variable B : Type.
  Variable bk : B -> bcall -> answer * B.
  Variable cfg : config.

  (* ManageSieveConnection._login: authenticate, then new_session of the
     AUTHENTICATED identity — the authorization id is not consulted *)
  Definition sieve_login (b : B) (authc secret : bytes) : (bytes + answer) * B :=
    match bk b (call "authenticate" authc secret) with
    | (AnsIdent n _, b1) =>
        match bk b1 (call "new_session" n []) with
        | (AnsOk _ _, b2) => (inl n, b2)
        | (a, b2) => (inr a, b2)
        end
    | (a, b1) => (inr a, b1)
    end.

  Definition sieve_step (c : sconn) (b : B) (k : scmd) : sconn * B * sout :=
    if sv_closed c then (c, b, mk_sout SNONE 0)
    else
      match k with
      | SBad => (c, b, mk_sout SNO 0)
      | SNoop | SCapability => (c, b, mk_sout SOK 0)
      | SLogout => (mk_sconn (sv_owner c) (sv_mechs c) (sv_offer_tls c) true, b, mk_sout SBYE 0)
      | _ =>
          match sv_owner c with
          | None =>
              match k with
              | SAuthenticate mech initial lines =>
                  let x := sieve_exchange (sv_mechs c) mech initial lines in
                  match x with
                  | SCreds authc secret _ n =>
                      match sieve_login b authc secret with
                      | (inl u, b') =>
                          (mk_sconn (Some u) (sv_mechs c) (sv_offer_tls c) false, b', mk_sout SOK n)
                      | (inr _, b') => (c, b', mk_sout SNO n)
                      end
                  | SStalled n => (c, b, mk_sout SNONE n)
                  | _ => (c, b, mk_sout SNO (sasl_lines x))
                  end
              | SStartTls =>
                  if sv_offer_tls c
                  then (mk_sconn None true false false, b, mk_sout SOK 0)
                  else (c, b, mk_sout SNO 0)
              | _ => (c, b, mk_sout SNO 0)           (* 'Bad command.' *)
              end
          | Some _ =>
              match k with
              | SUnauthenticate =>
                  (mk_sconn None (sv_mechs c) (sv_offer_tls c) false, b, mk_sout SOK 0)
              | SOther => (c, b, mk_sout SOK 0)       (* FilterState.run: answer not modelled *)
              | _ => (c, b, mk_sout SNO 0)           (* FilterState.run: 'Bad command.' *)
              end
          end
      end.

  (* __init__ + _do_greeting (no from_localhost upgrade on this listener) *)
  Definition sieve_init_conn (b : B) : sconn * B * sout :=
    let c0 := mk_sconn None (negb (cf_tls cfg)) (cf_tls cfg) false in
    match cf_preauth cfg with
    | Some (authc, secret, _) =>
        match sieve_login b authc secret with
        | (inl u, b') => (mk_sconn (Some u) (sv_mechs c0) (sv_offer_tls c0) false, b', mk_sout SOK 0)
        | (inr _, b') => (mk_sconn None (sv_mechs c0) (sv_offer_tls c0) true, b', mk_sout SNONE 0)
        end
    | None => (c0, b, mk_sout SOK 0)
    end.

  Fixpoint sieve_states (c : sconn) (b : B) (p : list scmd) : list sconn :=
    match p with
    | [] => []
    | k :: r =>
        let '(c1, b1, _) := sieve_step c b k in
        c1 :: sieve_states c1 b1 r
    end.

  Fixpoint sieve_run (c : sconn) (b : B) (p : list scmd) : sconn * B * list sout :=
    match p with
    | [] => (c, b, [])
    | k :: r =>
        let '(c1, b1, o) := sieve_step c b k in
        let '(c2, b2, os) := sieve_run c1 b1 r in
        (c2, b2, o :: os)
    end.
End SieveStep.

(* credentials an AUTHENTICATE command presents *)
Definition sieve_creds_of (k : scmd) : option (bytes * bytes) :=
  match k with
  | SAuthenticate mech initial lines =>
      match sieve_exchange true mech initial lines with
      | SCreds authc secret _ _ => Some (authc, secret)
      | _ => None
      end
  | _ => None
  end.
