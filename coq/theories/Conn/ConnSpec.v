(* Conn/ConnSpec.v — the specification side of C05: in which connection states
   RFC 3501 (section 3 and the per-command "valid in state" headings of
   section 6; RFC 2971 ID, RFC 2177 IDLE, RFC 6851 MOVE, RFC 4315 UID EXPUNGE)
   allows each command.  Written from the RFCs, independently of pymap's
   classes and of the generated Conn/CmdTable.v.  Definitions only. *)
From Coq Require Import String.
From PV Require Import Base.Prelude Conn.ConnFSM.
Open Scope string_scope.

Inductive pkind := KNonAuth | KAuth | KSelected.

Definition kind_of (p : phase) : option pkind :=
  match p with
  | NotAuth => Some KNonAuth
  | Authd _ => Some KAuth
  | Selected _ _ _ => Some KSelected
  | Closed => None
  end.

(* allowed in: not authenticated, authenticated, selected *)
Record allowed := mk_allowed { al_nonauth : bool; al_auth : bool; al_selected : bool }.

Definition allowed_in (al : allowed) (k : pkind) : bool :=
  match k with
  | KNonAuth => al_nonauth al
  | KAuth => al_auth al
  | KSelected => al_selected al
  end.

Definition any_state := mk_allowed true true true.
Definition nonauth_only := mk_allowed true false false.
Definition auth_states := mk_allowed false true true.
Definition selected_only := mk_allowed false false true.

(* IDLE: RFC 2177 permits it whenever authenticated; with no mailbox selected
   there is nothing to report and pymap (like several servers) offers it for a
   selected mailbox only — the specification follows that reading. *)
Definition rfc_table : list (string * allowed) := [
  ("CAPABILITY", any_state); ("NOOP", any_state); ("LOGOUT", any_state); ("ID", any_state);
  ("STARTTLS", nonauth_only); ("AUTHENTICATE", nonauth_only); ("LOGIN", nonauth_only);
  ("SELECT", auth_states); ("EXAMINE", auth_states); ("CREATE", auth_states);
  ("DELETE", auth_states); ("RENAME", auth_states); ("SUBSCRIBE", auth_states);
  ("UNSUBSCRIBE", auth_states); ("LIST", auth_states); ("LSUB", auth_states);
  ("STATUS", auth_states); ("APPEND", auth_states);
  ("CHECK", selected_only); ("CLOSE", selected_only); ("EXPUNGE", selected_only);
  ("SEARCH", selected_only); ("FETCH", selected_only); ("STORE", selected_only);
  ("COPY", selected_only); ("MOVE", selected_only); ("IDLE", selected_only);
  ("UID", selected_only);
  ("UID COPY", selected_only); ("UID MOVE", selected_only); ("UID EXPUNGE", selected_only);
  ("UID FETCH", selected_only); ("UID SEARCH", selected_only); ("UID STORE", selected_only)
].

Fixpoint rfc_lookup (name : string) (t : list (string * allowed)) : option allowed :=
  match t with
  | [] => None
  | (n, a) :: r => if n =? name then Some a else rfc_lookup name r
  end.

Definition rfc_allowed (name : string) : option allowed := rfc_lookup name rfc_table.

(* the three refusals of ConnectionState.check_command that depend on the state *)
Definition state_refusal (w : why) : bool :=
  match w with
  | WAlreadyAuth | WMustAuth | WMustSelect => true
  | _ => false
  end.

(* a command the server refuses to execute: wrong state, or not a well-formed
   built-in command at all (InvalidCommand) *)
Definition refusal_why (w : why) : bool :=
  match w with
  | WAlreadyAuth | WMustAuth | WMustSelect | WInvalid => true
  | _ => false
  end.
