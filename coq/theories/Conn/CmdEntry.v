(* Conn/CmdEntry.v — one row of the built-in command table.  The table itself
   (Conn/CmdTable.v) is generated on every run from the real command classes
   of /repo by harness/conn_common.py. *)
From Coq Require Import String List Bool.
Import ListNotations.
Open Scope string_scope.

Record cmd_entry := mk_entry {
  ce_name : string;        (* Command.command, e.g. "UID FETCH" *)
  ce_nonauth : bool;       (* isinstance(cmd, CommandNonAuth) *)
  ce_auth : bool;          (* isinstance(cmd, CommandAuth) — CommandSelect is a subclass *)
  ce_select : bool;        (* isinstance(cmd, CommandSelect) *)
  ce_any : bool;           (* isinstance(cmd, CommandAny) — informational *)
  ce_compound : bool;      (* a prefix such as "UID": never instantiated by Commands.parse *)
  ce_handler : string;     (* root of the delegate chain: ConnectionState.do_<handler> *)
  ce_has_handler : bool;   (* that method exists *)
  ce_special : bool;       (* has its own isinstance-branch in IMAPConnection._run_state *)
  ce_gated : bool          (* the code that serves it reaches the state gate *)
}.

Fixpoint lookup_entry (name : string) (t : list cmd_entry) : option cmd_entry :=
  match t with
  | [] => None
  | e :: r => if String.eqb (ce_name e) name then Some e else lookup_entry name r
  end.

Lemma lookup_entry_In name t e : lookup_entry name t = Some e -> In e t /\ ce_name e = name.
Proof.
  induction t as [|x r IH]; cbn [lookup_entry]; [discriminate|].
  destruct (String.eqb (ce_name x) name) eqn:E.
  - intros H; inversion H; subst. split; [left; reflexivity|]. now apply String.eqb_eq.
  - intros H. destruct (IH H) as [H1 H2]. split; [right; exact H1|exact H2].
Qed.
