(* Conn/ConnFSMProofs.v — proofs about the connection model (C05). *)
From Coq Require Import String Lia.
From PV Require Import Base.Prelude Conn.CmdEntry Conn.CmdTable Conn.ConnFSM Conn.ConnSpec.
Open Scope string_scope.

(* destruct the scrutinee of an innermost match/if of the goal *)
Ltac break_match :=
  match goal with
  | |- context [match ?x with _ => _ end] =>
      lazymatch x with
      | context [match _ with _ => _ end] => fail
      | _ => destruct x eqn:?
      end
  end.

Ltac break_hyp H :=
  match type of H with
  | context [match ?x with _ => _ end] =>
      lazymatch x with
      | context [match _ with _ => _ end] => fail
      | _ => destruct x eqn:?
      end
  end.

Section Facts.
  Variable B : Type.
  Variable bk : B -> bcall -> answer * B.
  Variable tbl : list cmd_entry.
  Variable cfg : config.

  Notation res := (res B).
  Notation exec := (exec B bk cfg).
  Notation exec_auth := (exec_auth B bk).
  Notation exec_other := (exec_other B bk cfg).
  Notation dispatch := (dispatch B bk tbl cfg).
  Notation conn_step := (conn_step B bk tbl cfg).
  Notation run_from := (run_from B bk tbl cfg).

  (* ---------------------------------------------------------------- why *)
  (* no handler ever answers with one of the three state refusals *)
  Definition calm (r : res) : Prop := refusal_why (r_why r) = false.

  Lemma calm_state r : calm r -> state_refusal (r_why r) = false.
  Proof. unfold calm. destruct (r_why r); cbn; congruence. Qed.

  Lemma calm_on_raise v b a : calm (on_raise B v b a).
  Proof. destruct a; reflexivity. Qed.

  Lemma calm_with_lines r n : calm r -> calm (with_lines B r n).
  Proof. exact (fun H => H). Qed.

  Lemma calm_with_bye r x : calm r -> calm (with_bye B r x).
  Proof. exact (fun H => H). Qed.

  Lemma calm_do_authenticate v b x y z : calm (do_authenticate B bk v b x y z).
  Proof.
    unfold do_authenticate. destruct (do_login_calls B bk b x y z) as [[u|a] b'].
    - reflexivity.
    - apply calm_on_raise.
  Qed.

  Lemma calm_do_sasl v b m l : calm (do_sasl B bk v b m l).
  Proof.
    unfold do_sasl. destruct (sasl_exchange (v_mechs v) m l); try reflexivity.
    apply calm_with_lines, calm_do_authenticate.
  Qed.

  Lemma calm_session_call v b m x y : calm (session_call B bk v b m x y).
  Proof.
    unfold session_call. destruct (v_phase v); try reflexivity;
      destruct (bk b (call m x y)) as [a b']; destruct a;
      try reflexivity.
  Qed.

  Lemma calm_selected_call v b m x y : calm (selected_call B bk v b m x y).
  Proof.
    unfold selected_call. destruct (has_selected (v_phase v)); [apply calm_session_call|reflexivity].
  Qed.

  Lemma calm_exec_auth v b h a : calm (exec_auth v b h a).
  Proof.
    unfold exec_auth.
    destruct (h =? "LOGIN").
    { destruct a; try reflexivity. destruct (cap_logindisabled v); [reflexivity|].
      apply calm_do_authenticate. }
    destruct (h =? "AUTHENTICATE").
    { destruct a; try reflexivity. apply calm_do_sasl. }
    destruct (v_starttls v); reflexivity.
  Qed.

  Lemma calm_exec_other v b name h a : calm (exec_other v b name h a).
  Proof.
    unfold exec_other.
    repeat first
      [ apply calm_session_call | apply calm_selected_call | apply calm_on_raise
      | apply calm_with_lines | apply calm_with_bye | reflexivity | break_match ].
  Qed.

  Lemma calm_exec v b name e a : calm (exec v b name e a).
  Proof.
    unfold ConnFSM.exec. destruct (negb (ce_has_handler e)); [reflexivity|].
    destruct (is_auth_handler (ce_handler e)); [apply calm_exec_auth|apply calm_exec_other].
  Qed.


  (* ------------------------------------------------------------- finish *)
  Lemma finish_out bad r :
    let '(_, _, o) := finish B cfg bad r in
    o_cond o = r_cond r /\ o_why o = r_why r /\ o_lines o = r_lines r.
  Proof.
    unfold finish. destruct (r_path r); [destruct (r_cond r)|];
      repeat break_match; cbn; auto.
  Qed.

  Lemma finish_b bad r : snd (fst (finish B cfg bad r)) = r_b r.
  Proof.
    unfold finish. destruct (r_path r); [destruct (r_cond r)|];
      repeat break_match; reflexivity.
  Qed.

  (* ---------------------------------------------------------------- gate *)
  Definition gate_k (k : pkind) (e : cmd_entry) : option why :=
    match k with
    | KNonAuth => if ce_auth e then Some WMustAuth
                  else if ce_select e then Some WMustSelect else None
    | KAuth => if ce_nonauth e then Some WAlreadyAuth
               else if ce_select e then Some WMustSelect else None
    | KSelected => if ce_nonauth e then Some WAlreadyAuth else None
    end.

  Lemma gate_kind p k e : kind_of p = Some k -> gate p e = gate_k k e.
  Proof.
    destruct p; cbn; intros H; inversion H; subst; unfold gate; cbn;
      repeat break_match; reflexivity.
  Qed.

  Lemma gate_refusal p e w : gate p e = Some w -> state_refusal w = true.
  Proof.
    unfold gate. repeat break_match; intros H; inversion H; reflexivity.
  Qed.

  Definition opt_some {A} (o : option A) : bool := match o with Some _ => true | None => false end.

  (* one row of the table agrees with the RFC in every state *)
  Definition row_ok (e : cmd_entry) : bool :=
    ce_compound e ||
    (ce_gated e &&
     match rfc_allowed (ce_name e) with
     | Some al =>
         forallb (fun k => Bool.eqb (opt_some (gate_k k e)) (negb (allowed_in al k)))
                 [KNonAuth; KAuth; KSelected]
     | None => false
     end).

  Lemma gate_step_general name e al c b a k :
    lookup_entry name tbl = Some e -> ce_compound e = false -> row_ok e = true ->
    rfc_allowed (ce_name e) = Some al ->
    kind_of (c_phase c) = Some k ->
    let '(_, _, o) := conn_step c b (CCmd name a) in
    state_refusal (o_why o) = negb (allowed_in al k) /\
    (state_refusal (o_why o) = true -> o_cond o = BAD).
  Proof.
    intros Hl Hc Hrow Hal Hk.
    unfold row_ok in Hrow. rewrite Hc, Hal in Hrow. cbn [orb] in Hrow.
    apply andb_true_iff in Hrow as [Hg Hall].
    assert (Hk' : Bool.eqb (opt_some (gate_k k e)) (negb (allowed_in al k)) = true).
    { rewrite forallb_forall in Hall. apply Hall. destruct k; cbn; auto. }
    apply Bool.eqb_prop in Hk'.
    unfold ConnFSM.conn_step.
    assert (Hph : c_phase c <> Closed) by (intro E; rewrite E in Hk; discriminate).
    destruct (c_phase c) eqn:Eph; try congruence;
      (pose proof (finish_out (c_bad c) (dispatch (c_view c) b (CCmd name a))) as Hf;
       destruct (finish B cfg (c_bad c) (dispatch (c_view c) b (CCmd name a))) as [[c' b'] o];
       destruct Hf as (Hcond & Hwhy & _); rewrite Hcond, Hwhy;
       unfold ConnFSM.dispatch; rewrite Hl, Hc, Hg;
       unfold c_phase in Eph; rewrite (gate_kind (v_phase (c_view c)) k e) by (rewrite Eph; exact Hk);
       destruct (gate_k k e) as [w|] eqn:Eg;
       [ cbn [r_why r_cond ret];
         assert (Hw : state_refusal w = true)
           by (apply (gate_refusal (v_phase (c_view c)) e);
               rewrite (gate_kind _ k e) by (rewrite Eph; exact Hk); exact Eg);
         rewrite Hw; cbn in Hk'; split; [exact Hk'|reflexivity]
       | pose proof (calm_state _ (calm_exec (c_view c) b name e a)) as Hcalm;
         rewrite Hcalm; cbn in Hk'; split; [exact Hk'|discriminate] ]).
  Qed.


  (* ------------------------------------------------- refused: no effect *)
  Lemma dispatch_refusal v b k :
    refusal_why (r_why (dispatch v b k)) = true ->
    exists w, dispatch v b k = ret B v b BAD w.
  Proof.
    unfold ConnFSM.dispatch. destruct k as [|name a]; [eauto|].
    destruct (lookup_entry name tbl) as [e|]; [|eauto].
    destruct (ce_compound e); [eauto|].
    destruct (ce_gated e).
    - destruct (gate (v_phase v) e); [eauto|].
      intros H. rewrite (calm_exec v b name e a) in H. discriminate.
    - intros H. rewrite (calm_exec v b name e a) in H. discriminate.
  Qed.

  (* what a refusal does to the connection: only the bad-command counter
     moves; when it reaches the limit the connection is closed *)
  Definition after_refusal (c : conn) : conn :=
    let n := (c_bad c + 1)%N in
    if limit_reached cfg n then mk_conn (set_phase (c_view c) Closed) n
    else mk_conn (c_view c) n.

  Lemma refused_step c b k :
    c_phase c <> Closed ->
    let '(c', b', o) := conn_step c b k in
    refusal_why (o_why o) = true ->
    b' = b /\ c' = after_refusal c /\ o_cond o = BAD /\
    o_bye o = limit_reached cfg (c_bad c + 1).
  Proof.
    intros Hph. unfold ConnFSM.conn_step.
    destruct (c_phase c) eqn:E; try congruence;
      (pose proof (finish_out (c_bad c) (dispatch (c_view c) b k)) as Hf;
       destruct (finish B cfg (c_bad c) (dispatch (c_view c) b k)) as [[c' b'] o] eqn:Ef;
       destruct Hf as (_ & Hwhy & _); rewrite Hwhy; intros Hr;
       destruct (dispatch_refusal _ _ _ Hr) as [w Hd]; rewrite Hd in Ef;
       unfold finish, ret in Ef; cbn [r_path r_cond r_bye r_view r_b r_why r_lines] in Ef;
       rewrite Bool.orb_false_r in Ef; unfold after_refusal;
       destruct (limit_reached cfg (c_bad c + 1)); inversion Ef; subst; cbn; auto).
  Qed.

  (* ---------------------------------------------- erasure over programs *)
  Lemma run_from_app c b p q :
    run_from c b (p ++ q)%list =
    let '(c1, b1, o1) := run_from c b p in
    let '(c2, b2, o2) := run_from c1 b1 q in
    (c2, b2, (o1 ++ o2)%list).
  Proof.
    revert c b; induction p as [|k p IH]; intros c b; cbn [app ConnFSM.run_from].
    - destruct (run_from c b q) as [[c2 b2] o2]. reflexivity.
    - destruct (conn_step c b k) as [[c1 b1] o]. rewrite IH.
      destruct (run_from c1 b1 p) as [[c2 b2] o1].
      destruct (run_from c2 b2 q) as [[c3 b3] o2]. reflexivity.
  Qed.

  (* without a bad-command limit the counter is never read *)
  Lemma step_indep_bad c n b k :
    cf_bad_limit cfg = 0%N ->
    let '(c1, b1, o1) := conn_step c b k in
    let '(c2, b2, o2) := conn_step (mk_conn (c_view c) n) b k in
    c_view c2 = c_view c1 /\ b2 = b1 /\ o2 = o1.
  Proof.
    intros Hl. unfold ConnFSM.conn_step, c_phase. cbn [c_view c_bad].
    destruct (v_phase (c_view c)); try (cbn; auto);
      (unfold finish, limit_reached; rewrite Hl; cbn [N.eqb negb andb orb];
       destruct (dispatch (c_view c) b k) as [v' b' cd w bye pth ln]; cbn [r_view r_b r_cond r_why r_bye r_path r_lines];
       destruct pth; [destruct cd|]; destruct bye; cbn; auto).
  Qed.

  Lemma run_indep_bad p : forall c n b,
    cf_bad_limit cfg = 0%N ->
    let '(c1, b1, o1) := run_from c b p in
    let '(c2, b2, o2) := run_from (mk_conn (c_view c) n) b p in
    c_view c2 = c_view c1 /\ b2 = b1 /\ o2 = o1.
  Proof.
    induction p as [|k p IH]; intros c n b Hl; cbn [ConnFSM.run_from]; [auto|].
    pose proof (step_indep_bad c n b k Hl) as Hs.
    destruct (conn_step c b k) as [[c1 b1] o1].
    destruct (conn_step (mk_conn (c_view c) n) b k) as [[c2 b2] o2].
    destruct Hs as (Hv & -> & ->).
    specialize (IH c1 (c_bad c2) b1 Hl).
    destruct (run_from c1 b1 p) as [[c3 b3] o3].
    assert (E : c2 = mk_conn (c_view c1) (c_bad c2)) by (destruct c2; cbn in *; subst; reflexivity).
    rewrite <- E in IH.
    destruct (run_from c2 b1 p) as [[c4 b4] o4].
    destruct IH as (? & ? & ?). subst. auto.
  Qed.

  (* a refused command anywhere in a program can be erased: the backend ends
     in the same state, the connection too (up to the counter), and every
     other command gets the same answer *)
  Lemma erasure p1 k p2 c b :
    cf_bad_limit cfg = 0%N ->
    let '(c1, b1, o1) := run_from c b p1 in
    c_phase c1 <> Closed ->
    refusal_why (o_why (snd (conn_step c1 b1 k))) = true ->
    let '(ca, ba, oa) := run_from c b (p1 ++ k :: p2)%list in
    let '(cb, bb, ob) := run_from c b (p1 ++ p2)%list in
    c_view ca = c_view cb /\ ba = bb /\
    oa = (o1 ++ snd (conn_step c1 b1 k) :: skipn (length o1) ob)%list.
  Proof.
    intros Hl. rewrite !run_from_app.
    destruct (run_from c b p1) as [[c1 b1] o1]. intros Hph Hr.
    cbn [ConnFSM.run_from].
    pose proof (refused_step c1 b1 k Hph) as Hs.
    destruct (conn_step c1 b1 k) as [[c1' b1'] o]. cbn [snd] in Hr.
    destruct (Hs Hr) as (-> & Hc & _).
    assert (Hv : c1' = mk_conn (c_view c1) (c_bad c1 + 1)).
    { rewrite Hc. unfold after_refusal, limit_reached. rewrite Hl. reflexivity. }
    pose proof (run_indep_bad p2 c1 (c_bad c1 + 1) b1 Hl) as Hi.
    rewrite <- Hv in Hi.
    destruct (run_from c1 b1 p2) as [[c2 b2] o2].
    destruct (run_from c1' b1 p2) as [[c3 b3] o3].
    destruct Hi as (? & ? & ?). subst o3 b3.
    split; [assumption|]. split; [reflexivity|].
    cbn [snd]. f_equal. f_equal.
    rewrite skipn_app, skipn_all, Nat.sub_diag. reflexivity.
  Qed.

  (* --------------------------------------------- CLOSE / LOGOUT / SELECT *)
  Definition entry_plain (e : cmd_entry) : Prop :=
    ce_compound e = false /\ ce_gated e = true /\ ce_has_handler e = true.

  Lemma step_logout c b e :
    lookup_entry "LOGOUT" tbl = Some e -> entry_plain e ->
    ce_nonauth e = false -> ce_auth e = false -> ce_select e = false ->
    ce_handler e = "LOGOUT" ->
    c_phase c <> Closed ->
    conn_step c b (CCmd "LOGOUT" ANone) =
    (mk_conn (set_phase (c_view c) Closed) (c_bad c), b, mk_out OK WLogout true 0).
  Proof.
    intros Hl (Hc & Hg & Hh) Hna Ha Hs Hn Hph.
    unfold ConnFSM.conn_step. destruct (c_phase c) eqn:E; try congruence;
      unfold ConnFSM.dispatch; rewrite Hl, Hc, Hg; unfold gate; rewrite Hna, Ha, Hs;
      rewrite !Bool.andb_false_r; unfold ConnFSM.exec; rewrite Hh, Hn; reflexivity.
  Qed.

  Lemma step_close c b e u m ro :
    lookup_entry "CLOSE" tbl = Some e -> entry_plain e ->
    ce_nonauth e = false -> ce_handler e = "CLOSE" ->
    c_phase c = Selected u m ro ->
    let '(c', b', o) := conn_step c b (CCmd "CLOSE" ANone) in
    has_selected (c_phase c') = false /\
    (ro = true -> o_cond o = OK /\ b' = b /\ c_phase c' = Authd u) /\
    (ro = false -> forall x b1, bk b (call "expunge_mailbox" [] []) = (x, b1) ->
                   (exists r g, x = AnsOk r g) \/ x = AnsNotFound ->
                   o_cond o = OK /\ b' = b1 /\ c_phase c' = Authd u).
  Proof.
    intros Hl (Hc & Hg & Hh) Hna Hn Hph.
    unfold ConnFSM.conn_step. rewrite Hph.
    unfold ConnFSM.dispatch. rewrite Hl, Hc, Hg. unfold c_phase in Hph. unfold gate. rewrite Hph, Hna.
    cbn [has_session has_selected negb andb].
    rewrite ?Bool.andb_false_l; cbn [negb andb].
    unfold ConnFSM.exec. rewrite Hh, Hn.
    change (is_auth_handler "CLOSE") with false. cbn [negb].
    change (exec_other (c_view c) b "CLOSE" "CLOSE" ANone) with
      (match v_phase (c_view c) with
       | Selected u m ro =>
           let v0 := set_phase (c_view c) (Authd u) in
           if ro then ret B v0 b OK WDone
           else match bk b (call "expunge_mailbox" [] []) with
                | (AnsOk _ _, b') => ret B v0 b' OK WDone
                | (AnsNotFound, b') => ret B v0 b' OK WDone
                | (x, b') => on_raise B v0 b' x
                end
       | _ => crash B (c_view c) b
       end).
    rewrite Hph. destruct ro.
    - cbn. repeat split; try discriminate; auto.
    - destruct (bk b (call "expunge_mailbox" [] [])) as [x b1] eqn:Eb.
      destruct x; cbn; repeat split; try discriminate; intros;
        repeat match goal with
               | H : (_, _) = (_, _) |- _ => inversion H; subst; clear H
               | H : _ \/ _ |- _ => destruct H
               | H : exists _, _ |- _ => destruct H
               end; try discriminate; auto.
  Qed.

  Lemma step_select c b e name m u :
    name = "SELECT" \/ name = "EXAMINE" ->
    lookup_entry name tbl = Some e -> entry_plain e ->
    ce_nonauth e = false -> ce_select e = false -> ce_handler e = "SELECT" ->
    session_user (c_phase c) = Some u ->
    let '(c', b', o) := conn_step c b (CCmd name (AMailbox m)) in
    let q := mk_bcall "select_mailbox" m [] [] (name =? "EXAMINE") in
    (forall ro b1, bk b q = (AnsOk ro false, b1) ->
       o_cond o = OK /\ b' = b1 /\ c_phase c' = Selected u m ro /\ c_bad c' = 0%N) /\
    (forall x b1, bk b q = (x, b1) -> failure_answer x = true ->
       o_cond o = NO /\ b' = b1 /\ c_phase c' = Authd u).
  Proof.
    intros Hname Hl (Hc & Hg & Hh) Hna Hs Hn Hu.
    unfold ConnFSM.conn_step.
    destruct (c_phase c) eqn:Eph; cbn in Hu; try discriminate; inversion Hu; subst u0;
      (unfold ConnFSM.dispatch; rewrite Hl, Hc, Hg; unfold gate; unfold c_phase in Eph;
       rewrite Eph, Hna, Hs; cbn [has_session has_selected negb andb];
       rewrite ?Bool.andb_false_r; cbn [negb andb];
       unfold ConnFSM.exec; rewrite Hh, Hn;
       change (is_auth_handler "SELECT") with false; cbn [negb];
       unfold ConnFSM.exec_other;
       change ("SELECT" =? "CAPABILITY") with false; change ("SELECT" =? "ID") with false;
       change ("SELECT" =? "NOOP") with false; change ("SELECT" =? "LOGOUT") with false;
       change ("SELECT" =? "SELECT") with true; cbn [orb];
       rewrite Eph; cbn [mailbox_arg];
       destruct (bk b (mk_bcall "select_mailbox" m [] [] (name =? "EXAMINE"))) as [x b1] eqn:Eb;
       destruct x as [ro' gone| | | | | | |]; [destruct gone|..]; cbn;
       (split; intros; match goal with H : (_, _) = (_, _) |- _ => inversion H; subst end;
        try discriminate; auto)).
  Qed.

End Facts.

(* ================================================================== *)
(* The statements for the generated table of built-in commands.        *)
(* ================================================================== *)

(* every row of the generated table agrees with the RFC table in every state
   (finite: 34 rows x 3 states, recomputed whenever Conn/CmdTable.v changes) *)
Lemma table_rows_ok : forallb row_ok cmd_table = true.
Proof. vm_compute. reflexivity. Qed.

(* and no built-in command of the RFC table is missing from pymap's *)
Lemma table_complete :
  forallb (fun na => opt_some (lookup_entry (fst na) cmd_table)) rfc_table = true.
Proof. vm_compute. reflexivity. Qed.

Lemma row_ok_rfc e : ce_compound e = false -> row_ok e = true ->
  exists al, rfc_allowed (ce_name e) = Some al.
Proof.
  unfold row_ok. intros -> H. cbn [orb] in H. apply andb_true_iff in H as [_ H].
  destruct (rfc_allowed (ce_name e)) as [al|]; [eauto|discriminate].
Qed.

Lemma gate_all_builtin :
  forall name e, lookup_entry name cmd_table = Some e -> ce_compound e = false ->
  exists al, rfc_allowed name = Some al /\
  forall (B : Type) (bk : B -> bcall -> answer * B) (cfg : config)
         (c : conn) (b : B) (a : args) (k : pkind),
    kind_of (c_phase c) = Some k ->
    let '(_, _, o) := conn_step B bk cmd_table cfg c b (CCmd name a) in
    state_refusal (o_why o) = negb (allowed_in al k) /\
    (state_refusal (o_why o) = true -> o_cond o = BAD).
Proof.
  intros name e Hl Hc.
  destruct (lookup_entry_In _ _ _ Hl) as [Hin Hname].
  pose proof table_rows_ok as Hall. rewrite forallb_forall in Hall.
  pose proof (Hall e Hin) as Hrow.
  destruct (row_ok_rfc e Hc Hrow) as [al Hal].
  exists al. split; [rewrite <- Hname; exact Hal|].
  intros B bk cfg c b a k Hk.
  exact (gate_step_general B bk cmd_table cfg name e al c b a k Hl Hc Hrow Hal Hk).
Qed.

Lemma builtin_complete :
  forall name al, In (name, al) rfc_table -> exists e, lookup_entry name cmd_table = Some e.
Proof.
  intros name al Hin. pose proof table_complete as H. rewrite forallb_forall in H.
  specialize (H _ Hin). cbn [fst] in H.
  destruct (lookup_entry name cmd_table) as [e|]; [eauto|discriminate].
Qed.

Lemma select_ok_fail :
  forall (B : Type) (bk : B -> bcall -> answer * B) (cfg : config) (c : conn) (b : B)
         (name : string) (m u : bytes),
    name = "SELECT" \/ name = "EXAMINE" ->
    session_user (c_phase c) = Some u ->
    let '(c', b', o) := conn_step B bk cmd_table cfg c b (CCmd name (AMailbox m)) in
    let q := mk_bcall "select_mailbox" m [] [] (name =? "EXAMINE") in
    (forall ro b1, bk b q = (AnsOk ro false, b1) ->
       o_cond o = OK /\ b' = b1 /\ c_phase c' = Selected u m ro /\ c_bad c' = 0%N) /\
    (forall x b1, bk b q = (x, b1) -> failure_answer x = true ->
       o_cond o = NO /\ b' = b1 /\ c_phase c' = Authd u).
Proof.
  intros B bk cfg c b name m u Hname Hu.
  destruct Hname as [-> | ->].
  - eapply (step_select B bk cmd_table cfg c b _ "SELECT" m u); try reflexivity; auto.
    repeat split.
  - eapply (step_select B bk cmd_table cfg c b _ "EXAMINE" m u); try reflexivity; auto.
    repeat split.
Qed.

Lemma close_deselects_tbl :
  forall (B : Type) (bk : B -> bcall -> answer * B) (cfg : config) (c : conn) (b : B) u m ro,
    c_phase c = Selected u m ro ->
    let '(c', b', o) := conn_step B bk cmd_table cfg c b (CCmd "CLOSE" ANone) in
    has_selected (c_phase c') = false /\
    (ro = true -> o_cond o = OK /\ b' = b /\ c_phase c' = Authd u) /\
    (ro = false -> forall x b1, bk b (call "expunge_mailbox" [] []) = (x, b1) ->
                   (exists r g, x = AnsOk r g) \/ x = AnsNotFound ->
                   o_cond o = OK /\ b' = b1 /\ c_phase c' = Authd u).
Proof.
  intros B bk cfg c b u m ro Hph.
  eapply (step_close B bk cmd_table cfg c b _ u m ro); try reflexivity; auto.
  repeat split.
Qed.

Lemma logout_tbl :
  forall (B : Type) (bk : B -> bcall -> answer * B) (cfg : config) (c : conn) (b : B),
    c_phase c <> Closed ->
    conn_step B bk cmd_table cfg c b (CCmd "LOGOUT" ANone) =
    (mk_conn (set_phase (c_view c) Closed) (c_bad c), b, mk_out OK WLogout true 0).
Proof.
  intros B bk cfg c b Hph.
  eapply (step_logout B bk cmd_table cfg c b); try reflexivity; auto.
  repeat split.
Qed.

Lemma select_ok_tbl :
  forall (B : Type) (bk : B -> bcall -> answer * B) (cfg : config) (c : conn) (b : B)
         (name : string) (m u : bytes) (ro : bool) (b1 : B),
    name = "SELECT" \/ name = "EXAMINE" ->
    session_user (c_phase c) = Some u ->
    bk b (mk_bcall "select_mailbox" m [] [] (name =? "EXAMINE")) = (AnsOk ro false, b1) ->
    let '(c', b', o) := conn_step B bk cmd_table cfg c b (CCmd name (AMailbox m)) in
    o_cond o = OK /\ b' = b1 /\ c_phase c' = Selected u m ro /\ c_bad c' = 0%N.
Proof.
  intros B bk cfg c b name m u ro b1 Hn Hu Hb.
  pose proof (select_ok_fail B bk cfg c b name m u Hn Hu) as H.
  destruct (conn_step B bk cmd_table cfg c b (CCmd name (AMailbox m))) as [[c' b'] o].
  destruct H as [H _]. exact (H ro b1 Hb).
Qed.

Lemma select_fail_tbl :
  forall (B : Type) (bk : B -> bcall -> answer * B) (cfg : config) (c : conn) (b : B)
         (name : string) (m u : bytes) (x : answer) (b1 : B),
    name = "SELECT" \/ name = "EXAMINE" ->
    session_user (c_phase c) = Some u ->
    bk b (mk_bcall "select_mailbox" m [] [] (name =? "EXAMINE")) = (x, b1) ->
    failure_answer x = true ->
    let '(c', b', o) := conn_step B bk cmd_table cfg c b (CCmd name (AMailbox m)) in
    o_cond o = NO /\ b' = b1 /\ c_phase c' = Authd u.
Proof.
  intros B bk cfg c b name m u x b1 Hn Hu Hb Hx.
  pose proof (select_ok_fail B bk cfg c b name m u Hn Hu) as H.
  destruct (conn_step B bk cmd_table cfg c b (CCmd name (AMailbox m))) as [[c' b'] o].
  destruct H as [_ H]. exact (H x b1 Hb Hx).
Qed.

(* the row the code produced before AUTHENTICATE was gated: with it the gate
   statement is false — the table, not the proof script, carries the tie *)
Definition ungated_authenticate : cmd_entry :=
  mk_entry "AUTHENTICATE" true false false false false "AUTHENTICATE" true true false.

Lemma ungated_row_not_ok : row_ok ungated_authenticate = false.
Proof. reflexivity. Qed.

Lemma ungated_authenticate_runs :
  exists (s : script) (c : conn) (k : cmd),
    c_phase c = Authd [117]%N /\
    let '(c', _, o) := conn_step script script_bk [ungated_authenticate]
                                 (mk_config false true 5 true true None) c s k in
    o_cond o = OK /\ c_phase c' = Authd [118]%N.
Proof.
  exists [("authenticate", AnsIdent [118]%N []); ("authorize", AnsIdent [118]%N []);
          ("new_session", AnsOk false false)].
  exists (mk_conn (mk_view (Authd [117]%N) true false 1) 0).
  exists (CCmd "AUTHENTICATE"
               (AAuth b_PLAIN [mk_cline [65]%N (Some [0;118;0;112]%N) true])).
  vm_compute. auto.
Qed.
