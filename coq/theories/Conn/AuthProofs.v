(* Conn/AuthProofs.v — proofs for C09 (authentication / authorisation soundness
   of the IMAP listener). *)
From Coq Require Import String Lia.
From PV Require Import Base.Prelude Conn.CmdEntry Conn.CmdTable Conn.ConnFSM Conn.ConnSpec
  Conn.ConnFSMProofs Conn.Auth.
Open Scope string_scope.

Definition is_login_handler (h : string) : bool := (h =? "LOGIN") || (h =? "AUTHENTICATE").

(* the rows that can log in are reached under their own name, through the
   gate, and are CommandNonAuth *)
Definition row_auth_ok (e : cmd_entry) : bool :=
  if is_auth_handler (ce_handler e)
  then ce_compound e ||
       ((ce_name e =? ce_handler e) &&
        (negb (is_login_handler (ce_handler e)) || (ce_gated e && ce_nonauth e)))
  else true.
Definition table_auth_ok (t : list cmd_entry) : bool := forallb row_auth_ok t.

Lemma cmd_table_auth_ok : table_auth_ok cmd_table = true.
Proof. vm_compute. reflexivity. Qed.

Definition same_auth (v v' : view) : Prop :=
  session_user (v_phase v') = session_user (v_phase v) /\
  v_mechs v' = v_mechs v /\ v_starttls v' = v_starttls v /\ v_logincaps v' = v_logincaps v.

Lemma same_auth_refl v : same_auth v v.
Proof. repeat split. Qed.

Section Generic.
  Variable B : Type.
  Variable bk : B -> bcall -> answer * B.
  Variable cfg : config.

  Lemma view_on_raise v b a : r_view (on_raise B v b a) = v.
  Proof. destruct a; reflexivity. Qed.

  Lemma view_session_call v b m x y : r_view (session_call B bk v b m x y) = v.
  Proof.
    unfold session_call. destruct (v_phase v); try reflexivity;
      destruct (bk b (call m x y)) as [a b']; destruct a; reflexivity.
  Qed.

  Lemma view_selected_call v b m x y : r_view (selected_call B bk v b m x y) = v.
  Proof.
    unfold selected_call. destruct (has_selected (v_phase v)); [apply view_session_call|reflexivity].
  Qed.

  Lemma set_phase_same_user v p :
    session_user p = session_user (v_phase v) -> same_auth v (set_phase v p).
  Proof. intros H. repeat split. exact H. Qed.

  (* no handler other than LOGIN / AUTHENTICATE / STARTTLS touches who the
     connection is or what it offers *)
  Lemma exec_other_same_auth v b name h a :
    same_auth v (r_view (exec_other B bk cfg v b name h a)).
  Proof.
    unfold exec_other.
    repeat first
      [ rewrite view_session_call | rewrite view_selected_call | rewrite view_on_raise
      | apply same_auth_refl
      | match goal with
        | H : v_phase v = _ |- same_auth v (set_phase v _) =>
            apply set_phase_same_user; rewrite H; reflexivity
        | H : v_phase v = _ |- same_auth v (r_view _) =>
            cbn [r_view with_bye with_lines ret raised crash on_raise];
            apply set_phase_same_user; rewrite H; reflexivity
        end
      | break_match ].
  Qed.
End Generic.

(* ------------------------------------------------------------------ *)
Section LoginBackend.
  Variable verify_secret : bytes -> bytes -> bool.
  Variable prep_ok : bytes -> bool.
  Variable kind : backend_kind.
  Variable db : userdb.
  Variable tbl : list cmd_entry.
  Variable cfg : config.

  Notation bk := (login_bk verify_secret prep_ok kind db).
  Notation valid := (valid_creds verify_secret prep_ok kind db).
  Notation step := (conn_step unit bk tbl cfg).

  Lemma may_assume_nil k : may_assume k [] = false.
  Proof. destruct k; reflexivity. Qed.

  (* ConnectionState._login succeeds only with valid credentials, as authz *)
  Lemma login_calls_valid authc secret authz u b' :
    do_login_calls unit bk tt authc secret authz = (inl u, b') ->
    u = authz /\ valid authc secret authz.
  Proof.
    unfold do_login_calls, login_bk.
    cbn [bc_meth call bc_a bc_b bc_roles].
    change ("authenticate" =? "authenticate") with true. cbn iota.
    unfold check_password.
    destruct (prep_ok authc) eqn:Ep; cbn [andb]; [|discriminate].
    destruct (find_user authc db) as [ua|] eqn:Ef; [|discriminate].
    destruct (us_pw ua) as [h|] eqn:Eh; [|discriminate].
    destruct (verify_secret h secret) eqn:Ev; [|discriminate].
    change ("authorize" =? "authenticate") with false.
    change ("authorize" =? "authorize") with true. cbn iota.
    cbn [bc_meth bc_a bc_b bc_roles].
    destruct (bytes_eqb authc authz || may_assume kind (authenticated_roles kind db authc)) eqn:Ez;
      [|discriminate].
    change ("new_session" =? "authenticate") with false.
    change ("new_session" =? "authorize") with false.
    change ("new_session" =? "new_session") with true. cbn iota.
    destruct (find_user authz db) as [uz|] eqn:Efz; [|discriminate].
    intros H. injection H as H1 _. subst u. split; [reflexivity|].
    exists ua, h. repeat split; auto.
    - apply orb_true_iff in Ez as [Ez|Ez].
      + left. symmetry. now apply bytes_eqb_eq.
      + right. unfold authenticated_roles in Ez. destruct kind.
        * rewrite Ef in Ez. exact Ez.
        * rewrite may_assume_nil in Ez. discriminate.
    - eauto.
  Qed.

  (* what one command can do to the identity of the connection: nothing, or
     (on a connection that is not authenticated and offers mechanisms) a
     login with valid credentials *)
  Definition login_effect (v : view) (k : cmd) (r : res unit) : Prop :=
    (session_user (v_phase (r_view r)) = session_user (v_phase v) /\
     (v_mechs (r_view r) = v_mechs v \/ exists a, k = CCmd "STARTTLS" a)) \/
    (v_phase v = NotAuth /\ v_mechs v = true /\
     exists authc secret authz,
       creds_of k = Some (authc, secret, authz) /\ valid authc secret authz /\
       session_user (v_phase (r_view r)) = Some authz /\
       v_mechs (r_view r) = v_mechs v /\ r_cond r = OK /\ r_bye r = false /\ r_path r = Returned).

  Lemma effect_same v k r : same_auth v (r_view r) -> login_effect v k r.
  Proof. intros (H1 & H2 & _). left. auto. Qed.

  Lemma effect_refl v k b c w bye pth n : login_effect v k (mk_res v b c w bye pth n).
  Proof. left. cbn. auto. Qed.

  Lemma do_authenticate_effect v k authc secret authz :
    v_phase v = NotAuth -> v_mechs v = true ->
    creds_of k = Some (authc, secret, authz) ->
    login_effect v k (do_authenticate unit bk v tt authc secret authz).
  Proof.
    intros Hn Hm Hk. unfold do_authenticate.
    destruct (do_login_calls unit bk tt authc secret authz) as [[u|a] b'] eqn:E.
    - destruct (login_calls_valid _ _ _ _ _ E) as [-> Hv].
      right. split; [exact Hn|]. split; [exact Hm|]. exists authc, secret, authz.
      repeat split; auto. cbn [r_view ret v_phase]. rewrite Hn. reflexivity.
    - apply effect_same. rewrite view_on_raise. apply same_auth_refl.
  Qed.

  Lemma with_lines_effect v k r n : login_effect v k r -> login_effect v k (with_lines unit r n).
  Proof. exact (fun H => H). Qed.

  Lemma nosession_notauth p : has_session p = false -> p <> Closed -> p = NotAuth.
  Proof. destruct p; cbn; congruence. Qed.

  Lemma exec_auth_effect v name a :
    v_phase v = NotAuth \/ name = "STARTTLS" ->
    (name = "LOGIN" \/ name = "AUTHENTICATE" \/ name = "STARTTLS") ->
    login_effect v (CCmd name a) (exec_auth unit bk v tt name a).
  Proof.
    intros Hs Hn. destruct Hn as [-> | [-> | ->]].
    - destruct Hs as [Hs|Hs]; [|discriminate].
      unfold exec_auth. change ("LOGIN" =? "LOGIN") with true. cbn iota.
      destruct a; try apply effect_refl.
      destruct (cap_logindisabled v) eqn:Ed; [apply effect_refl|].
      apply do_authenticate_effect; [exact Hs| |reflexivity].
      unfold cap_logindisabled in Ed. rewrite Hs in Ed. cbn in Ed.
      destruct (v_mechs v); [reflexivity|discriminate].
    - destruct Hs as [Hs|Hs]; [|discriminate].
      unfold exec_auth. change ("AUTHENTICATE" =? "LOGIN") with false.
      change ("AUTHENTICATE" =? "AUTHENTICATE") with true. cbn iota.
      destruct a; try apply effect_refl.
      unfold do_sasl.
      destruct (sasl_exchange (v_mechs v) mech lines) eqn:Ex; try apply effect_refl.
      assert (Hm : v_mechs v = true).
      { unfold sasl_exchange in Ex. destruct (v_mechs v); [reflexivity|discriminate]. }
      apply with_lines_effect, do_authenticate_effect; [exact Hs|exact Hm|].
      cbn [creds_of]. rewrite Hm in Ex. rewrite Ex. reflexivity.
    - left. unfold exec_auth. change ("STARTTLS" =? "LOGIN") with false.
      change ("STARTTLS" =? "AUTHENTICATE") with false. cbn iota.
      destruct (v_starttls v); cbn; eauto.
  Qed.

  Hypothesis Htbl : table_auth_ok tbl = true.

  Lemma table_row name e : lookup_entry name tbl = Some e -> row_auth_ok e = true.
  Proof.
    intros Hl. destruct (lookup_entry_In _ _ _ Hl) as [Hin _].
    unfold table_auth_ok in Htbl. rewrite forallb_forall in Htbl. auto.
  Qed.

  Lemma dispatch_effect v k :
    v_phase v <> Closed -> login_effect v k (dispatch unit bk tbl cfg v tt k).
  Proof.
    intros Hnc. unfold dispatch. destruct k as [|name a]; [apply effect_refl|].
    destruct (lookup_entry name tbl) as [e|] eqn:Hl; [|apply effect_refl].
    pose proof (table_row _ _ Hl) as Hrow.
    destruct (lookup_entry_In _ _ _ Hl) as [_ Hname].
    destruct (ce_compound e) eqn:Hc; [apply effect_refl|].
    (* what the table row says about a handler that can log in / start TLS *)
    assert (Hrow' : is_auth_handler (ce_handler e) = true ->
                    name = ce_handler e /\
                    (is_login_handler (ce_handler e) = true ->
                     ce_gated e = true /\ ce_nonauth e = true)).
    { intros Ha. unfold row_auth_ok in Hrow. rewrite Ha, Hc in Hrow. cbn [orb] in Hrow.
      apply andb_true_iff in Hrow as [Hn Hr]. apply String.eqb_eq in Hn.
      split; [congruence|]. intros Hlg. rewrite Hlg in Hr. cbn [negb orb] in Hr.
      apply andb_true_iff in Hr. exact Hr. }
    assert (Hexec : (is_login_handler (ce_handler e) = true -> v_phase v = NotAuth) ->
                    login_effect v (CCmd name a) (exec unit bk cfg v tt name e a)).
    { intros Hlogin. unfold exec.
      destruct (negb (ce_has_handler e)); [apply effect_refl|].
      destruct (is_auth_handler (ce_handler e)) eqn:Ha.
      - destruct (Hrow' eq_refl) as [Hn _]. rewrite <- Hn in *.
        apply exec_auth_effect.
        + unfold is_auth_handler, is_login_handler in *.
          destruct (name =? "LOGIN") eqn:E1; [left; apply Hlogin; reflexivity|].
          destruct (name =? "AUTHENTICATE") eqn:E2; [left; apply Hlogin; reflexivity|].
          cbn [orb] in Ha. right. now apply String.eqb_eq.
        + unfold is_auth_handler in Ha.
          apply orb_true_iff in Ha as [Ha|Ha]; [apply orb_true_iff in Ha as [Ha|Ha]|];
            apply String.eqb_eq in Ha; auto.
      - apply effect_same, exec_other_same_auth. }
    destruct (ce_gated e) eqn:Hg.
    - destruct (gate (v_phase v) e) as [w|] eqn:Eg; [apply effect_refl|].
      apply Hexec. intros Hlg.
      assert (Ha : is_auth_handler (ce_handler e) = true).
      { unfold is_auth_handler, is_login_handler in *. rewrite Hlg. reflexivity. }
      destruct (Hrow' Ha) as [_ Hr]. destruct (Hr Hlg) as [_ Hna].
      unfold gate in Eg. rewrite Hna in Eg.
      destruct (has_session (v_phase v)) eqn:Hs; [discriminate|].
      now apply nosession_notauth.
    - apply Hexec. intros Hlg.
      assert (Ha : is_auth_handler (ce_handler e) = true).
      { unfold is_auth_handler, is_login_handler in *. rewrite Hlg. reflexivity. }
      destruct (Hrow' Ha) as [_ Hr]. destruct (Hr Hlg) as [Hg' _]. congruence.
  Qed.

  (* -------------------------------------------------------- one step *)
  Definition kept (c c' : conn) (k : cmd) : Prop :=
    (c_phase c' = Closed \/ session_user (c_phase c') = session_user (c_phase c)) /\
    (c_phase c' = Closed \/ c_mechs c' = c_mechs c \/ exists a, k = CCmd "STARTTLS" a).

  Definition logged_in (c c' : conn) (k : cmd) (o : out) : Prop :=
    c_phase c = NotAuth /\ c_mechs c = true /\
    exists authc secret authz,
      creds_of k = Some (authc, secret, authz) /\ valid authc secret authz /\
      session_user (c_phase c') = Some authz /\ o_cond o = OK.

  Lemma finish_effect bad v k (r : res unit) :
    v_phase v <> Closed -> login_effect v k r ->
    let '(c', _, o) := finish unit cfg bad r in
    kept (mk_conn v bad) c' k \/ logged_in (mk_conn v bad) c' k o.
  Proof.
    intros Hnc He. destruct r as [v' b' cd w bye pth ln].
    unfold login_effect in He. cbn [r_view r_b r_cond r_why r_bye r_path r_lines] in He.
    unfold finish. cbn [r_view r_b r_cond r_why r_bye r_path r_lines].
    destruct He as [[Hu Hm] | (Hp & Hmm & authc & secret & authz & Hk & Hv & Hs & Hm & Hc & Hb & Hpt)].
    - destruct pth; [destruct cd|]; repeat break_match;
        left; unfold kept, c_phase, c_mechs; cbn; auto.
    - subst cd bye pth. cbn. right. unfold logged_in, c_phase, c_mechs. cbn.
      repeat split; auto. exists authc, secret, authz. auto.
  Qed.

  Lemma step_effect c k :
    let '(c', _, o) := step c tt k in kept c c' k \/ logged_in c c' k o.
  Proof.
    unfold conn_step. destruct (c_phase c) eqn:Eph.
    4: { left. split; right; [reflexivity | left; reflexivity]. }
    all: assert (Hnc : v_phase (c_view c) <> Closed) by (unfold c_phase in Eph; congruence);
      pose proof (finish_effect (c_bad c) (c_view c) k _ Hnc (dispatch_effect (c_view c) k Hnc)) as Hf;
      destruct c as [v bad]; exact Hf.
  Qed.

  (* ------------------------------------------------------ programs *)
  Notation states := (states_from unit bk tbl cfg).

  Lemma step_closed c k : c_phase c = Closed -> fst (fst (step c tt k)) = c.
  Proof. intros H. unfold conn_step. rewrite H. reflexivity. Qed.

  Lemma closed_forever p : forall c, c_phase c = Closed ->
    forall c', In c' (states c tt p) -> c_phase c' = Closed.
  Proof.
    induction p as [|k p IH]; intros c Hc c' Hin; [destruct Hin|].
    cbn [states_from] in Hin. pose proof (step_closed c k Hc) as Hs.
    destruct (step c tt k) as [[c1 []] o]. cbn in Hs. subst c1.
    destruct Hin as [<-|Hin]; [exact Hc|]. eapply IH; eauto.
  Qed.

  Lemma last_in {A} (l : list A) d : l <> [] -> In (last l d) l.
  Proof.
    induction l as [|x l IH]; [congruence|]. intros _. destruct l as [|y l].
    - left. reflexivity.
    - right. apply IH. discriminate.
  Qed.

  Lemma closed_final p c : c_phase c = Closed ->
    session_user (c_phase (last (states c tt p) c)) = None.
  Proof.
    intros Hc. destruct p as [|k p]; [cbn; rewrite Hc; reflexivity|].
    assert (Hin : In (last (states c tt (k :: p)) c) (states c tt (k :: p))).
    { apply last_in. cbn [states_from]. destruct (step c tt k) as [[? []] ?]. discriminate. }
    rewrite (closed_forever _ _ Hc _ Hin). reflexivity.
  Qed.

  Lemma last_default {A} (l : list A) d d' : l <> [] -> last l d = last l d'.
  Proof.
    induction l as [|x l IH]; [congruence|]. intros _.
    destruct l as [|y l]; [reflexivity|].
    change (last (x :: y :: l) d) with (last (y :: l) d).
    change (last (x :: y :: l) d') with (last (y :: l) d').
    apply IH. discriminate.
  Qed.

  Lemma last_cons {A} (x : A) l d : last (x :: l) d = last l x.
  Proof.
    destruct l as [|y l]; [reflexivity|].
    change (last (x :: y :: l) d) with (last (y :: l) d).
    apply last_default. discriminate.
  Qed.

  (* once authenticated as u the connection is u until it closes *)
  Lemma identity_stable p : forall c u,
    session_user (c_phase c) = Some u ->
    forall u', session_user (c_phase (last (states c tt p) c)) = Some u' ->
    u' = u /\ forall cj, In cj (states c tt p) -> session_user (c_phase cj) = Some u.
  Proof.
    induction p as [|k p IH]; intros c u Hu u' Hl.
    - cbn in Hl. split; [congruence|]. intros cj [].
    - cbn [states_from] in *. pose proof (step_effect c k) as He.
      destruct (step c tt k) as [[c1 []] o].
      rewrite last_cons in Hl.
      destruct He as [[[Hcl|Hs] _] | (Hp & _)].
      + (* closed: the end cannot be authenticated *)
        exfalso.
        destruct p as [|k2 p2]; [cbn in Hl; rewrite Hcl in Hl; discriminate|].
        assert (Hin : In (last (states c1 tt (k2 :: p2)) c1) (states c1 tt (k2 :: p2))).
        { apply last_in. cbn [states_from]. destruct (step c1 tt k2) as [[? []] ?]. discriminate. }
        rewrite (closed_forever _ _ Hcl _ Hin) in Hl. discriminate.
      + rewrite Hu in Hs. destruct (IH c1 u Hs u' Hl) as [-> Hall].
        split; [reflexivity|]. intros cj [<-|Hin]; auto.
      + rewrite Hp in Hu. discriminate.
  Qed.

  (* C09: soundness over every program of every command *)
  Lemma sound_from p : forall c u,
    session_user (c_phase c) = None ->
    session_user (c_phase (last (states c tt p) c)) = Some u ->
    exists i k authc secret,
      nth_error p i = Some k /\ creds_of k = Some (authc, secret, u) /\
      valid authc secret u /\
      (forall j cj, (j < i)%nat -> nth_error (states c tt p) j = Some cj ->
                    session_user (c_phase cj) = None) /\
      (forall j cj, (i <= j)%nat -> nth_error (states c tt p) j = Some cj ->
                    session_user (c_phase cj) = Some u).
  Proof.
    induction p as [|k p IH]; intros c u Hn Hl.
    - cbn in Hl. congruence.
    - cbn [states_from] in *. pose proof (step_effect c k) as He.
      destruct (step c tt k) as [[c1 []] o] eqn:Es.
      rewrite last_cons in Hl.
      destruct He as [[[Hcl|Hs] _] | (Hp & _ & authc & secret & authz & Hk & Hv & Hs & _)].
      + assert (Hn1 : session_user (c_phase c1) = None) by (rewrite Hcl; reflexivity).
        destruct (IH c1 u Hn1 Hl) as (i & k' & a & s & Hnth & Hc & Hvv & Hbefore & Hafter).
        exists (S i), k', a, s. repeat split; auto.
        * intros j cj Hj Hnj. destruct j; cbn in Hnj; [inversion Hnj; subst; exact Hn1|].
          apply (Hbefore j cj); [lia|exact Hnj].
        * intros j cj Hj Hnj. destruct j; [lia|]. cbn in Hnj. apply (Hafter j cj); [lia|exact Hnj].
      + assert (Hn1 : session_user (c_phase c1) = None) by congruence.
        destruct (IH c1 u Hn1 Hl) as (i & k' & a & s & Hnth & Hc & Hvv & Hbefore & Hafter).
        exists (S i), k', a, s. repeat split; auto.
        * intros j cj Hj Hnj. destruct j; cbn in Hnj; [inversion Hnj; subst; exact Hn1|].
          apply (Hbefore j cj); [lia|exact Hnj].
        * intros j cj Hj Hnj. destruct j; [lia|]. cbn in Hnj. apply (Hafter j cj); [lia|exact Hnj].
      + destruct (identity_stable p c1 authz Hs u Hl) as [-> Hall].
        exists 0%nat, k, authc, secret. repeat split; auto.
        * intros j cj Hj. lia.
        * intros j cj _ Hnj. destruct j; cbn in Hnj; [inversion Hnj; subst; exact Hs|].
          apply Hall. eapply nth_error_In; eauto.
  Qed.

  (* a failed, cancelled or malformed attempt leaves the connection
     unauthenticated *)
  Lemma failed_step c k :
    session_user (c_phase c) = None ->
    (forall authc secret authz, creds_of k = Some (authc, secret, authz) ->
                                ~ valid authc secret authz) ->
    session_user (c_phase (fst (fst (step c tt k)))) = None.
  Proof.
    intros Hn Hbad. pose proof (step_effect c k) as He.
    destruct (step c tt k) as [[c1 []] o]. cbn [fst].
    destruct He as [[[Hcl|Hs] _] | (_ & _ & authc & secret & authz & Hk & Hv & _)].
    - rewrite Hcl. reflexivity.
    - congruence.
    - exfalso. eapply Hbad; eauto.
  Qed.

  Definition not_starttls (k : cmd) : Prop := forall a, k <> CCmd "STARTTLS" a.

  (* while no mechanism is offered (LOGINDISABLED is advertised) and no
     STARTTLS is issued, nothing authenticates the connection *)
  Lemma no_mechs_no_auth p : forall c,
    session_user (c_phase c) = None -> c_mechs c = false ->
    Forall not_starttls p ->
    forall cj, In cj (states c tt p) -> session_user (c_phase cj) = None.
  Proof.
    induction p as [|k p IH]; intros c Hn Hm Hp cj Hin; [destruct Hin|].
    cbn [states_from] in Hin. pose proof (step_effect c k) as He.
    destruct (step c tt k) as [[c1 []] o].
    inversion Hp as [|? ? Hk Hp']; subst.
    destruct He as [[Hu Hmm] | (_ & Hmt & _)]; [|congruence].
    destruct Hu as [Hcl|Hs].
    - assert (Hc1 : session_user (c_phase c1) = None) by (rewrite Hcl; reflexivity).
      destruct Hin as [<-|Hin]; [exact Hc1|].
      rewrite (closed_forever p c1 Hcl cj Hin). reflexivity.
    - destruct Hmm as [Hcl | [Hm1 | [a Ha]]].
      + destruct Hin as [<-|Hin]; [congruence|].
        rewrite (closed_forever p c1 Hcl cj Hin). reflexivity.
      + destruct Hin as [<-|Hin]; [congruence|].
        apply (IH c1); [congruence|congruence|exact Hp'|exact Hin].
      + exfalso. exact (Hk a Ha).
  Qed.

End LoginBackend.

(* ================================================================== *)
(* Instances for the generated table and the greeting.                  *)
(* ================================================================== *)
Section Final.
  Variable verify_secret : bytes -> bytes -> bool.
  Variable prep_ok : bytes -> bool.
  Variable kind : backend_kind.
  Variable db : userdb.
  Variable cfg : config.

  Notation bk := (login_bk verify_secret prep_ok kind db).
  Notation valid := (valid_creds verify_secret prep_ok kind db).
  Notation states := (states_from unit bk cmd_table cfg).
  Notation c0 := (fst (fst (conn_init unit bk cfg tt))).

  Lemma init_no_preauth : cf_preauth cfg = None ->
    c_phase c0 = NotAuth /\ c_mechs c0 = (negb (cf_tls cfg) || cf_local cfg).
  Proof. intros H. unfold conn_init. rewrite H. split; reflexivity. Qed.

  Lemma imap_sound (p : list cmd) (u : bytes) :
    cf_preauth cfg = None ->
    session_user (c_phase (last (states c0 tt p) c0)) = Some u ->
    exists i k authc secret,
      nth_error p i = Some k /\ creds_of k = Some (authc, secret, u) /\
      valid authc secret u /\
      (forall j cj, (j < i)%nat -> nth_error (states c0 tt p) j = Some cj ->
                    session_user (c_phase cj) = None) /\
      (forall j cj, (i <= j)%nat -> nth_error (states c0 tt p) j = Some cj ->
                    session_user (c_phase cj) = Some u).
  Proof.
    intros Hp. destruct (init_no_preauth Hp) as [Hph _].
    apply sound_from; [exact cmd_table_auth_ok|]. rewrite Hph. reflexivity.
  Qed.

  Lemma imap_preauth_sound (p : list cmd) (u authc secret authz : bytes) :
    cf_preauth cfg = Some (authc, secret, authz) ->
    session_user (c_phase (last (states c0 tt p) c0)) = Some u ->
    u = authz /\ valid authc secret authz /\
    forall cj, In cj (states c0 tt p) -> session_user (c_phase cj) = Some u.
  Proof.
    intros Hp. unfold conn_init. rewrite Hp.
    destruct (do_login_calls unit bk tt authc secret authz) as [[u'|a] b'] eqn:E.
    - destruct (login_calls_valid _ _ _ _ _ _ _ _ _ E) as [-> Hv]. cbn [fst].
      intros Hl.
      destruct (identity_stable verify_secret prep_ok kind db cmd_table cfg cmd_table_auth_ok p
                  (mk_conn (set_phase (mk_view NotAuth (negb (cf_tls cfg)) (cf_tls cfg) 0) (Authd authz)) 0)
                  authz eq_refl u Hl) as [-> Hall].
      auto.
    - intros Hl. exfalso.
      destruct a; cbn [fst] in Hl;
        rewrite (closed_final verify_secret prep_ok kind db cmd_table cfg) in Hl
          by reflexivity; discriminate.
  Qed.

  Lemma imap_failed_leaves_unauth (c : conn) (k : cmd) :
    session_user (c_phase c) = None ->
    (forall authc secret authz, creds_of k = Some (authc, secret, authz) ->
                                ~ valid authc secret authz) ->
    session_user (c_phase (fst (fst (conn_step unit bk cmd_table cfg c tt k)))) = None.
  Proof. apply failed_step. exact cmd_table_auth_ok. Qed.

  (* a remote peer on a TLS-enabled listener that never issues STARTTLS is
     never authenticated, whatever it sends *)
  Lemma imap_no_tls_no_auth (p : list cmd) :
    cf_preauth cfg = None -> cf_tls cfg = true -> cf_local cfg = false ->
    Forall not_starttls p ->
    forall cj, In cj (states c0 tt p) -> session_user (c_phase cj) = None.
  Proof.
    intros Hp Ht Hl. destruct (init_no_preauth Hp) as [Hph Hm].
    apply no_mechs_no_auth; [exact cmd_table_auth_ok| |].
    - rewrite Hph. reflexivity.
    - rewrite Hm, Ht, Hl. reflexivity.
  Qed.
End Final.

(* LOGIN while LOGINDISABLED is advertised: refused with NO, nothing is
   called, nothing changes — for any backend *)
Lemma login_disabled_step :
  forall (B : Type) (bk : B -> bcall -> answer * B) (cfg : config) (c : conn) (b : B) (u p : bytes),
    c_phase c = NotAuth -> c_mechs c = false ->
    conn_step B bk cmd_table cfg c b (CCmd "LOGIN" (ALogin u p)) =
    (c, b, mk_out NO WCannot false 0).
Proof.
  intros B bk cfg c b u p Hph Hm. unfold conn_step. rewrite Hph.
  unfold dispatch.
  change (lookup_entry "LOGIN" cmd_table) with
    (Some (mk_entry "LOGIN" true false false false false "LOGIN" true false true)).
  cbn [ce_compound ce_gated]. unfold gate. unfold c_phase in Hph. rewrite Hph.
  cbn [has_session has_selected ce_nonauth ce_auth ce_select negb andb].
  unfold exec. cbn [ce_has_handler negb ce_handler].
  change (is_auth_handler "LOGIN") with true. cbn iota.
  unfold exec_auth. change ("LOGIN" =? "LOGIN") with true. cbn iota.
  unfold cap_logindisabled. rewrite Hph. unfold c_mechs in Hm. rewrite Hm.
  cbn. destruct c as [v bad]. reflexivity.
Qed.

(* LOGINDISABLED is advertised exactly when no mechanism is offered to an
   unauthenticated connection; that is the state of a remote peer before TLS *)
Lemma logindisabled_remote :
  forall (B : Type) (bk : B -> bcall -> answer * B) (cfg : config) (b : B),
    cf_preauth cfg = None -> cf_tls cfg = true -> cf_local cfg = false ->
    let c := fst (fst (conn_init B bk cfg b)) in
    c_phase c = NotAuth /\ c_mechs c = false /\ cap_logindisabled (c_view c) = true.
Proof.
  intros B bk cfg b Hp Ht Hl. unfold conn_init. rewrite Hp, Ht, Hl. cbn. auto.
Qed.
