(* Conn/AuthDb.v — the identity database as STATE, and strict decoding of the
   credential octets of LOGIN.

     pymap/backend/dict/__init__.py     Identity.get / set / delete over Login.users_dict
     pymap/backend/maildir/__init__.py  Identity.get / set / delete over the three files
                                        pymap-etc-passwd / pymap-etc-shadow / pymap-etc-group
     pymap/backend/maildir/users.py     _ColonSeparatedValuesFile.set/remove/get,
                                        _GroupFile.merge / remove_user / get_user
     pymap/imap/state.py                ConnectionState.do_login (decode 'surrogateescape';
                                        saslprep then rejects the lone surrogates)

   A history is a list of database operations (Identity.set by an admin or by
   the user itself, Identity.delete) interleaved with commands of a connection;
   every login attempt is decided by [Conn/Auth.v login_bk] over the VIEW of the
   database at that moment.  Definitions only. *)
From Coq Require Import String.
From PV Require Sieve.SieveWire.
From PV Require Import Base.Prelude Conn.CmdEntry Conn.ConnFSM Conn.Auth Conn.SieveAuth.
Notation utf8_valid := SieveWire.utf8_valid.
Open Scope string_scope.

(* ------------------------------------------------ association lists (dict) *)
Section Assoc.
  Variable V : Type.
  Fixpoint aget (k : bytes) (l : list (bytes * V)) : option V :=
    match l with
    | [] => None
    | (k', v) :: r => if bytes_eqb k' k then Some v else aget k r
    end.
  (* d[k] = v : in place when the key exists, appended otherwise *)
  Fixpoint aset (k : bytes) (v : V) (l : list (bytes * V)) : list (bytes * V) :=
    match l with
    | [] => [(k, v)]
    | (k', v') :: r => if bytes_eqb k' k then (k', v) :: r else (k', v') :: aset k v r
    end.
  Fixpoint adel (k : bytes) (l : list (bytes * V)) : list (bytes * V) :=
    match l with
    | [] => []
    | (k', v') :: r => if bytes_eqb k' k then adel k r else (k', v') :: adel k r
    end.
End Assoc.
Arguments aget {V}.
Arguments aset {V}.
Arguments adel {V}.

(* ------------------------------------------------------------ dict backend *)
Definition dictdb := list (bytes * (option bytes * list bytes)).   (* name -> password, roles *)

(* ---------------------------------------------------------- maildir backend *)
Record mdfiles := mk_md {
  md_passwd : list (bytes * bool);          (* name -> (uid field = '0') *)
  md_shadow : list (bytes * bytes);         (* name -> password field *)
  md_group : list (bytes * list bytes)      (* role -> users_list *)
}.

(* Identity.get: "if not password or password[0] in ('*', '!'): password = None" *)
Definition pw_disabled (p : bytes) : bool :=
  match p with
  | [] => true
  | c :: _ => (c =? 42)%N || (c =? 33)%N
  end.

Definition md_pw (f : mdfiles) (n : bytes) : option bytes :=
  match aget n (md_shadow f) with
  | Some p => if pw_disabled p then None else Some p
  | None => None
  end.

(* groups_file.get_user(name): the names of the groups that list the user *)
Definition groups_of (n : bytes) (g : list (bytes * list bytes)) : list bytes :=
  map fst (filter (fun e => mem_bytes n (snd e)) g).

Definition md_roles (f : mdfiles) (n : bytes) (uid0 : bool) : list bytes :=
  ((if uid0 then [r_admin] else []) ++ groups_of n (md_group f))%list.

Definition md_user (f : mdfiles) (n : bytes) (uid0 : bool) : user :=
  mk_user n (md_pw f n) (md_roles f n uid0).

Definition remove_bytes (n : bytes) (l : list bytes) : list bytes :=
  filter (fun x => negb (bytes_eqb x n)) l.

(* _GroupFile.remove_user: the user leaves every group; empty groups vanish *)
Fixpoint g_remove_user (n : bytes) (g : list (bytes * list bytes)) : list (bytes * list bytes) :=
  match g with
  | [] => []
  | (role, us) :: r =>
      if mem_bytes n us then
        match remove_bytes n us with
        | [] => g_remove_user n r
        | us' => (role, us') :: g_remove_user n r
        end
      else (role, us) :: g_remove_user n r
  end.

(* _GroupFile.merge of build_record(role, name) for each role *)
Fixpoint g_add (n : bytes) (roles : list bytes) (g : list (bytes * list bytes))
  : list (bytes * list bytes) :=
  match roles with
  | [] => g
  | role :: r =>
      g_add n r (match aget role g with
                 | None => aset role [n] g
                 | Some us => if mem_bytes n us then g else aset role (us ++ [n])%list g
                 end)
  end.

(* ------------------------------------------------------------------ state *)
Inductive dbstate :=
  | DictDb (d : dictdb)
  | MdDb (f : mdfiles).

Definition kind_of (s : dbstate) : backend_kind :=
  match s with DictDb _ => BDict | MdDb _ => BMaildir end.

(* Identity.get(): None = UserNotFound *)
Definition db_get (s : dbstate) (n : bytes) : option user :=
  match s with
  | DictDb d => match aget n d with
                | Some (pw, roles) => Some (mk_user n pw roles)
                | None => None
                end
  | MdDb f => match aget n (md_passwd f) with
              | Some uid0 => Some (md_user f n uid0)
              | None => None
              end
  end.

(* the database as Conn/Auth.v sees it at one moment *)
Definition view_db (s : dbstate) : userdb :=
  match s with
  | DictDb d => map (fun e => mk_user (fst e) (fst (snd e)) (snd (snd e))) d
  | MdDb f => map (fun e => md_user f (fst e) (snd e)) (md_passwd f)
  end.

Inductive dbop :=
  | OSet (priv : bool) (name : bytes) (pw : option bytes) (roles : list bytes)
      (* Identity(name, roles = {admin} if priv else {}).set(UserMetadata(name, pw, roles)) *)
  | ODelete (name : bytes).

Inductive opres := ROk | RNotAllowed | RNotFound.

Fixpoint subset_bytes (a b : list bytes) : bool :=
  match a with [] => true | x :: r => mem_bytes x b && subset_bytes r b end.
Definition same_set (a b : list bytes) : bool := subset_bytes a b && subset_bytes b a.

Definition star : bytes := [42]%N.

Definition db_apply (s : dbstate) (o : dbop) : dbstate * opres :=
  match s, o with
  | DictDb d, OSet priv n pw roles =>
      (* "if 'admin' not in self._roles and user.roles: raise NotAllowedError" *)
      if negb priv && match roles with [] => false | _ => true end then (s, RNotAllowed)
      else (DictDb (aset n (pw, roles) d), ROk)
  | DictDb d, ODelete n =>
      match aget n d with
      | None => (s, RNotFound)
      | Some _ => (DictDb (adel n d), ROk)
      end
  | MdDb f, OSet priv n pw roles =>
      (* without sudo/admin: the roles must be the existing ones (the
         mailbox_path never changes in the histories considered) *)
      if negb priv && negb (same_set roles (groups_of n (md_group f))) then (s, RNotAllowed)
      else (MdDb (mk_md (aset n false (md_passwd f))
                        (aset n (match pw with Some h => h | None => star end) (md_shadow f))
                        (g_add n roles (g_remove_user n (md_group f)))), ROk)
  | MdDb f, ODelete n =>
      match aget n (md_passwd f) with
      | None => (s, RNotFound)
      | Some _ => (MdDb (mk_md (adel n (md_passwd f)) (adel n (md_shadow f))
                               (g_remove_user n (md_group f))), ROk)
      end
  end.

Definition db_run (s : dbstate) (ops : list dbop) : dbstate :=
  fold_left (fun st o => fst (db_apply st o)) ops s.

(* what makes a password appear for [n]: a successful set with a password *)
Definition gives_pw (n : bytes) (o : dbop) : bool :=
  match o with
  | OSet _ n' (Some _) _ => bytes_eqb n' n
  | _ => false
  end.
Definition creates (n : bytes) (o : dbop) : bool :=
  match o with
  | OSet _ n' _ _ => bytes_eqb n' n
  | _ => false
  end.

(* no secret is stored for n / n does not exist, at this moment *)
Definition no_pw (s : dbstate) (n : bytes) : Prop :=
  forall u, find_user n (view_db s) = Some u -> us_pw u = None.
Definition no_user (s : dbstate) (n : bytes) : Prop := find_user n (view_db s) = None.

(* ------------------------------------------- strict credential decoding *)
(* do_login decodes the astrings with 'surrogateescape'; every octet that is
   not part of a valid UTF-8 sequence becomes a lone surrogate, which saslprep
   prohibits (RFC 3454 C.5): compare_authcid / compare_secret return False.
   pysasl's PLAIN / LOGIN decode strictly.  So: octets that are not UTF-8
   never verify — the model wraps the oracle instead of trusting it. *)
Definition strict_verify (verify_secret : bytes -> bytes -> bool) (h s : bytes) : bool :=
  utf8_valid s && verify_secret h s.
Definition strict_prep (prep_ok : bytes -> bool) (n : bytes) : bool :=
  utf8_valid n && prep_ok n.

(* --------------------------------------------------------------- histories *)
Inductive hstep :=
  | HOp (o : dbop)
  | HCmd (k : cmd).

Section Hist.
  Variable verify_secret : bytes -> bytes -> bool.
  Variable prep_ok : bytes -> bool.
  Variable tbl : list cmd_entry.
  Variable cfg : config.

  Definition bk_at (s : dbstate) :=
    login_bk (strict_verify verify_secret) (strict_prep prep_ok) (kind_of s) (view_db s).

  Definition hist_step (cs : conn * dbstate) (h : hstep) : conn * dbstate :=
    match h with
    | HOp o => (fst cs, fst (db_apply (snd cs) o))
    | HCmd k => (fst (fst (conn_step unit (bk_at (snd cs)) tbl cfg (fst cs) tt k)), snd cs)
    end.

  (* the (connection, database) pairs BEFORE each step, and the final one *)
  Fixpoint hist_before (cs : conn * dbstate) (p : list hstep) : list (conn * dbstate) :=
    match p with
    | [] => []
    | h :: r => cs :: hist_before (hist_step cs h) r
    end.
  Definition hist_final (cs : conn * dbstate) (p : list hstep) : conn * dbstate :=
    fold_left hist_step p cs.

  Definition valid_at (s : dbstate) :=
    valid_creds (strict_verify verify_secret) (strict_prep prep_ok) (kind_of s) (view_db s).
End Hist.
