(* Conn/AuthCheck.v — case checkers for the C09 correspondence run
   (harness/props/C09.py).  Unlike Conn/ConnCheck.v the backend here is the
   MODEL of the login side (Conn/Auth.v [login_bk]) over the user database of
   the case; the secret-verification oracle is a table computed by the
   harness with pysasl (saslprep + the configured hash) for exactly the
   (stored hash, presented secret) pairs of the case. *)
From Coq Require Import String.
From PV Require Import Base.Prelude Conn.CmdEntry Conn.CmdTable Conn.ConnFSM Conn.ConnCheck
  Conn.Auth Conn.SieveAuth.
Open Scope string_scope.

Definition table_verify (t : list (bytes * bytes)) (h s : bytes) : bool :=
  existsb (fun e => bytes_eqb (fst e) h && bytes_eqb (snd e) s) t.
Definition table_prep (bad : list bytes) (n : bytes) : bool := negb (mem_bytes n bad).

Record aenv := mk_aenv {
  ae_kind : backend_kind;
  ae_db : userdb;
  ae_true : list (bytes * bytes);    (* (stored, presented) pairs that verify *)
  ae_prepbad : list bytes            (* names saslprep rejects *)
}.

Definition env_bk (e : aenv) :=
  login_bk (table_verify (ae_true e)) (table_prep (ae_prepbad e)) (ae_kind e) (ae_db e).

(* which call of ConnectionState._login fails: 0 none, 1 authenticate,
   2 authorize, 3 new_session *)
Definition login_stage (e : aenv) (authc secret authz : bytes) : N :=
  match env_bk e tt (call "authenticate" authc secret) with
  | (AnsIdent n roles, _) =>
      match env_bk e tt (mk_bcall "authorize" n authz roles false) with
      | (AnsIdent n' _, _) =>
          match env_bk e tt (call "new_session" n' []) with
          | (AnsOk _ _, _) => 0
          | _ => 3
          end
      | _ => 2
      end
  | _ => 1
  end%N.

Record aobs := mk_aobs {
  ao_cond : cond; ao_why : why; ao_bye : bool; ao_lines : N;
  ao_who : option bytes;      (* identity seen by the code / through the marker mailbox *)
  ao_closed : bool;
  ao_stage : option N         (* failing call of _login when _login was reached *)
}.

Definition opt_bytes_eqb (a b : option bytes) : bool := option_eqb bytes_eqb a b.

Definition stage_ok (e : aenv) (k : cmd) (ob : aobs) : bool :=
  match ao_stage ob, creds_of k with
  | Some n, Some (authc, secret, authz) => (login_stage e authc secret authz =? n)%N
  | Some _, None => false
  | None, _ => true
  end.

Definition aobs_ok (c : conn) (o : out) (ob : aobs) : bool :=
  cond_eqb (o_cond o) (ao_cond ob) && why_eqb (o_why o) (ao_why ob)
  && Bool.eqb (o_bye o) (ao_bye ob) && (o_lines o =? ao_lines ob)%N
  && match c_phase c with
     | Closed => ao_closed ob
     | p => negb (ao_closed ob) && opt_bytes_eqb (session_user p) (ao_who ob)
     end.

Fixpoint chk_asteps (e : aenv) (cfg : config) (c : conn) (l : list (cmd * aobs)) : bool :=
  match l with
  | [] => true
  | (k, ob) :: r =>
      let '(c', _, o) := conn_step unit (env_bk e) cmd_table cfg c tt k in
      aobs_ok c' o ob && stage_ok e k ob && chk_asteps e cfg c' r
  end.

Definition auth_case := (aenv * config * aobs * list (cmd * aobs))%type.
Definition mk_acase (e : aenv) (cfg : config) (g : aobs) (l : list (cmd * aobs)) : auth_case :=
  (e, cfg, g, l).
Definition mk_astep (k : cmd) (ob : aobs) : cmd * aobs := (k, ob).

Definition chk_auth (x : auth_case) : bool :=
  let '(e, cfg, g, l) := x in
  let '(c0, _, o0) := conn_init unit (env_bk e) cfg tt in
  aobs_ok c0 o0 g && chk_asteps e cfg c0 l.

Fixpoint first_abad (e : aenv) (cfg : config) (c : conn) (l : list (cmd * aobs)) (i : nat)
  : option (nat * out * phase) :=
  match l with
  | [] => None
  | (k, ob) :: r =>
      let '(c', _, o) := conn_step unit (env_bk e) cmd_table cfg c tt k in
      if aobs_ok c' o ob && stage_ok e k ob then first_abad e cfg c' r (S i)
      else Some (i, o, c_phase c')
  end.

Definition where_abad (x : auth_case) : option (nat * out * phase) :=
  let '(e, cfg, g, l) := x in
  let '(c0, _, o0) := conn_init unit (env_bk e) cfg tt in
  if aobs_ok c0 o0 g then first_abad e cfg c0 l 1 else Some (0%nat, o0, c_phase c0).

(* ------------------------------------------------------------ ManageSieve *)
Record sobs := mk_sobs {
  sb_cond : scond; sb_lines : N; sb_owner : option bytes;
  sb_mechs : bool; sb_offer_tls : bool; sb_closed : bool
}.

Definition scond_idx (c : scond) : N :=
  match c with SOK => 0 | SNO => 1 | SBYE => 2 | SNONE => 3 end.

Definition sobs_ok (c : sconn) (o : sout) (ob : sobs) : bool :=
  (scond_idx (so_cond o) =? scond_idx (sb_cond ob))%N && (so_lines o =? sb_lines ob)%N
  && Bool.eqb (sv_closed c) (sb_closed ob)
  && (sv_closed c ||
      (opt_bytes_eqb (sv_owner c) (sb_owner ob)
       && (match sv_owner c with Some _ => true | None => Bool.eqb (sv_mechs c) (sb_mechs ob) end)
       && (match sv_owner c with Some _ => true
                            | None => Bool.eqb (sv_offer_tls c) (sb_offer_tls ob) end))).

Fixpoint chk_ssteps (e : aenv) (c : sconn) (l : list (scmd * sobs)) : bool :=
  match l with
  | [] => true
  | (k, ob) :: r =>
      let '(c', _, o) := sieve_step unit (env_bk e) c tt k in
      sobs_ok c' o ob && chk_ssteps e c' r
  end.

Definition sieve_case := (aenv * config * sobs * list (scmd * sobs))%type.
Definition mk_scase (e : aenv) (cfg : config) (g : sobs) (l : list (scmd * sobs)) : sieve_case :=
  (e, cfg, g, l).
Definition mk_sstep (k : scmd) (ob : sobs) : scmd * sobs := (k, ob).

Definition chk_sieve (x : sieve_case) : bool :=
  let '(e, cfg, g, l) := x in
  let '(c0, _, o0) := sieve_init_conn unit (env_bk e) cfg tt in
  sobs_ok c0 o0 g && chk_ssteps e c0 l.

Fixpoint first_sbad (e : aenv) (c : sconn) (l : list (scmd * sobs)) (i : nat)
  : option (nat * sout * sconn) :=
  match l with
  | [] => None
  | (k, ob) :: r =>
      let '(c', _, o) := sieve_step unit (env_bk e) c tt k in
      if sobs_ok c' o ob then first_sbad e c' r (S i) else Some (i, o, c')
  end.

Definition where_sbad (x : sieve_case) : option (nat * sout * sconn) :=
  let '(e, cfg, g, l) := x in
  let '(c0, _, o0) := sieve_init_conn unit (env_bk e) cfg tt in
  if sobs_ok c0 o0 g then first_sbad e c0 l 1 else Some (0%nat, o0, c0).
