(* Conn/ConnFSM.v — executable model of the IMAP connection layer of pymap:
   pymap/imap/__init__.py  IMAPConnection._run_state / authenticate / idle
   pymap/imap/state.py     ConnectionState (do_greeting, check_command /
                           do_command gate, do_authenticate, do_login, _login,
                           do_starttls, do_select, do_close, do_logout, ...)
   Definitions only.  The backend (login object, session) is a parameter: a
   function [bk : B -> bcall -> answer * B]; the command table is a parameter
   too (instantiated with the generated Conn/CmdTable.v). *)
From Coq Require Import String.
From PV Require Import Base.Prelude Conn.CmdEntry.
Open Scope string_scope.

(* ------------------------------------------------------------------ data *)

Record config := mk_config {
  cf_tls : bool;          (* tls_enabled: STARTTLS offered; no SASL mechanisms before it *)
  cf_local : bool;        (* sock_info.from_localhost *)
  cf_bad_limit : N;       (* bad_command_limit; 0 = None = no limit *)
  cf_idle : bool;         (* b'IDLE' in backend_capability *)
  cf_multiappend : bool;  (* b'MULTIAPPEND' in backend_capability *)
  cf_preauth : option (bytes * bytes * bytes)   (* preauth_credentials: authcid, secret, authzid *)
}.

Inductive phase :=
| NotAuth
| Authd (u : bytes)
| Selected (u : bytes) (m : bytes) (ro : bool)
| Closed.

(* the ConnectionState object *)
Record view := mk_view {
  v_phase : phase;
  v_mechs : bool;     (* state.auth offers PLAIN and LOGIN (false: SASLAuth([])) *)
  v_starttls : bool;  (* b'STARTTLS' in state._capability *)
  v_logincaps : N     (* times login_capability was appended to state._capability *)
}.

(* ... plus the local variable bad_commands of IMAPConnection._run_state *)
Record conn := mk_conn {
  c_view : view;
  c_bad : N           (* consecutive BAD completions *)
}.

Definition c_phase (c : conn) : phase := v_phase (c_view c).
Definition c_mechs (c : conn) : bool := v_mechs (c_view c).
Definition c_starttls (c : conn) : bool := v_starttls (c_view c).
Definition c_logincaps (c : conn) : N := v_logincaps (c_view c).

(* one line the client sends when the server asks for a continuation:
   raw bytes (without CRLF), what base64.b64decode makes of it (None =
   binascii.Error), whether the decoded bytes are valid UTF-8 *)
Record cline := mk_cline { cl_raw : bytes; cl_dec : option bytes; cl_utf8 : bool }.

Inductive args :=
| ANone
| AMailbox (m : bytes)
| ARename (src dst : bytes)
| ALogin (u p : bytes)
| AAuth (mech : bytes) (lines : list cline)
| AAppend (m : bytes) (nmsgs : N) (cancelled : bool)
| AIdle (line : bytes).

(* a parsed command line: InvalidCommand, or a built-in command *)
Inductive cmd :=
| CInvalid
| CCmd (name : string) (a : args).

(* backend calls made by the connection layer *)
Record bcall := mk_bcall {
  bc_meth : string;          (* method name of the login / identity / session object *)
  bc_a : bytes;              (* first name argument (authcid, mailbox, ...) *)
  bc_b : bytes;              (* second (secret, authzid, destination) *)
  bc_roles : list bytes;     (* roles of the identity passed to authorize *)
  bc_flag : bool             (* readonly flag of select_mailbox *)
}.

Inductive answer :=
| AnsOk (ro gone : bool)       (* returned; if a SelectedMailbox came back: readonly / deleted *)
| AnsIdent (name : bytes) (roles : list bytes)   (* authenticate / authorize returned an identity *)
| AnsNo                        (* raised a ResponseError (tagged NO) *)
| AnsNotFound                  (* raised MailboxNotFound (a ResponseError: tagged NO) *)
| AnsCannot                    (* raised NotSupportedError, e.g. a name the maildir layout
                                  rejects (tagged NO [CANNOT]) *)
| AnsTimeout                   (* raised TimeoutError *)
| AnsCrash                     (* raised anything else *)
| AnsMismatch.                 (* script backend only: not the call the implementation made *)

(* the backend call failed in a way the connection layer answers with NO *)
Definition failure_answer (a : answer) : bool :=
  match a with
  | AnsNo | AnsNotFound | AnsCannot | AnsTimeout => true
  | _ => false
  end.

Inductive cond := OK | NO | BAD | NOTAG.

Inductive why :=
| WDone | WInvalid | WAlreadyAuth | WMustAuth | WMustSelect | WNotImpl
| WBackendNo | WCannot | WInboxNo | WBadMech | WAuthError | WAppendCancel
| WExpectedDone | WTimeout | WCrash | WLogout | WClosed | WStalled | WGreetBye.

Record out := mk_out {
  o_cond : cond;
  o_why : why;
  o_bye : bool;      (* an untagged BYE is written *)
  o_lines : N        (* continuation lines taken from the client *)
}.

(* ------------------------------------------------------------ small helpers *)

Definition has_session (p : phase) : bool :=
  match p with Authd _ | Selected _ _ _ => true | _ => false end.
Definition has_selected (p : phase) : bool :=
  match p with Selected _ _ _ => true | _ => false end.
Definition session_user (p : phase) : option bytes :=
  match p with Authd u | Selected u _ _ => Some u | _ => None end.

Definition deselect (p : phase) : phase :=
  match p with Selected u _ _ => Authd u | _ => p end.

(* self._session = <session of u>, self._selected untouched *)
Definition set_session (p : phase) (u : bytes) : phase :=
  match p with
  | Selected _ m ro => Selected u m ro
  | Closed => Closed
  | _ => Authd u
  end.

Definition upper_byte (c : N) : N :=
  if (97 <=? c)%N && (c <=? 122)%N then (c - 32)%N else c.
Definition upper_bytes (b : bytes) : bytes := map upper_byte b.

Definition b_INBOX : bytes := [73;78;66;79;88]%N.
Definition b_PLAIN : bytes := [80;76;65;73;78]%N.
Definition b_LOGIN : bytes := [76;79;71;73;78]%N.
Definition b_DONE : bytes := [68;79;78;69]%N.
Definition b_STAR : bytes := [42]%N.

(* pymap.parsing.specials.Mailbox normalises any case of INBOX *)
Definition is_inbox (m : bytes) : bool := bytes_eqb (upper_bytes m) b_INBOX.

(* bytes.rstrip(b'\r\n') *)
Fixpoint rstrip_crlf (b : bytes) : bytes :=
  match b with
  | [] => []
  | c :: r =>
      match rstrip_crlf r with
      | [] => if (c =? 13)%N || (c =? 10)%N then [] else [c]
      | r' => c :: r'
      end
  end.

(* split at NUL bytes: b'a\0b\0c' -> [a; b; c] *)
Fixpoint split_nul (b : bytes) : list bytes :=
  match b with
  | [] => [[]]
  | c :: r =>
      match split_nul r with
      | [] => [[c]]   (* unreachable: split_nul never returns [] *)
      | f :: fs => if (c =? 0)%N then [] :: f :: fs else (c :: f) :: fs
      end
  end.

(* PlainMechanism._pattern: three NUL-separated fields, the second one not
   empty -> (zid, cid, secret) *)
Definition parse_plain (d : bytes) : option (bytes * bytes * bytes) :=
  match split_nul d with
  | [zid; cid; secret] => match cid with [] => None | _ => Some (zid, cid, secret) end
  | _ => None
  end.

Definition call (meth : string) (a b : bytes) : bcall := mk_bcall meth a b [] false.

(* ------------------------------------------------------------------ the step *)
Section Step.
  Variable B : Type.
  Variable bk : B -> bcall -> answer * B.
  Variable tbl : list cmd_entry.
  Variable cfg : config.

  (* which clause of _run_state produced the response: the [else:] branch
     (value returned by the state) or an [except] clause *)
  Inductive path := Returned | Raised.

  Record res := mk_res {
    r_view : view;
    r_b : B;
    r_cond : cond;
    r_why : why;
    r_bye : bool;      (* the response carries an untagged BYE (terminal) *)
    r_path : path;
    r_lines : N
  }.

  Definition set_phase (v : view) (p : phase) : view :=
    mk_view p (v_mechs v) (v_starttls v) (v_logincaps v).

  Definition ret (v : view) (b : B) (k : cond) (w : why) : res :=
    mk_res v b k w false Returned 0.
  Definition raised (v : view) (b : B) (k : cond) (w : why) : res :=
    mk_res v b k w false Raised 0.
  (* an exception that is not a ResponseError: BYE [SERVERBUG], re-raised *)
  Definition crash (v : view) (b : B) : res :=
    mk_res v b NOTAG WCrash true Raised 0.
  Definition with_lines (r : res) (n : N) : res :=
    mk_res (r_view r) (r_b r) (r_cond r) (r_why r) (r_bye r) (r_path r) n.
  Definition with_bye (r : res) (bye : bool) : res :=
    mk_res (r_view r) (r_b r) (r_cond r) (r_why r) (r_bye r || bye) (r_path r) (r_lines r).

  (* how a raising backend call is answered *)
  Definition on_raise (v : view) (b : B) (a : answer) : res :=
    match a with
    | AnsNo | AnsNotFound => raised v b NO WBackendNo
    | AnsCannot => raised v b NO WCannot
    | AnsTimeout => raised v b NO WTimeout
    | _ => crash v b
    end.

  (* ConnectionState.capability contains X *)
  Definition cap_login_part (v : view) : bool :=
    has_session (v_phase v) && (0 <? v_logincaps v)%N.
  Definition cap_idle (v : view) : bool := cap_login_part v && cf_idle cfg.
  Definition cap_multiappend (v : view) : bool := cap_login_part v && cf_multiappend cfg.
  Definition cap_logindisabled (v : view) : bool :=
    negb (has_session (v_phase v)) && negb (v_mechs v).

  (* ConnectionState._login: authenticate, authorize, new_session *)
  Definition do_login_calls (b : B) (authc secret authz : bytes)
    : (bytes + answer) * B :=
    match bk b (call "authenticate" authc secret) with
    | (AnsIdent n roles, b1) =>
        match bk b1 (mk_bcall "authorize" n authz roles false) with
        | (AnsIdent n' _, b2) =>
            match bk b2 (call "new_session" n' []) with
            | (AnsOk _ _, b3) => (inl n', b3)
            | (a, b3) => (inr a, b3)
            end
        | (a, b2) => (inr a, b2)
        end
    | (a, b1) => (inr a, b1)
    end.

  (* ConnectionState.do_authenticate with credentials *)
  Definition do_authenticate (v : view) (b : B) (authc secret authz : bytes) : res :=
    match do_login_calls b authc secret authz with
    | (inl u, b') =>
        ret (mk_view (set_session (v_phase v) u) (v_mechs v) (v_starttls v)
                     (v_logincaps v + 1)) b' OK WDone
    | (inr a, b') => on_raise v b' a
    end.

  (* one client answer inside IMAPConnection.authenticate *)
  Inductive lineres := LCancel | LBad64 | LData (d : bytes) (utf8 : bool).
  Definition read_line (l : cline) : lineres :=
    if bytes_eqb (rstrip_crlf (cl_raw l)) b_STAR then LCancel
    else match cl_dec l with
         | None => LBad64
         | Some d => LData d (cl_utf8 l)
         end.

  (* the SASL exchange of IMAPConnection.authenticate: the credentials the
     mechanism extracts from the client's lines, or how it ends *)
  Inductive sasl :=
  | SNoMech                      (* state.auth.get_server(name) is None *)
  | SStalled (n : N)             (* the client sends nothing more *)
  | SAuthErr (n : N)             (* AuthenticationError: cancel, base64, invalid response,
                                    bytes that are not UTF-8 *)
  | SCreds (authc secret authz : bytes) (n : N).

  Definition sasl_exchange (mechs : bool) (mech : bytes) (lines : list cline) : sasl :=
    if negb mechs then SNoMech
    else if bytes_eqb (upper_bytes mech) b_PLAIN then
      match lines with
      | [] => SStalled 0
      | l1 :: _ =>
          match read_line l1 with
          | LCancel | LBad64 => SAuthErr 1
          | LData d utf8 =>
              match parse_plain d with
              | None => SAuthErr 1
              | Some (zid, cid, secret) =>
                  if negb utf8 then SAuthErr 1
                  else SCreds cid secret (match zid with [] => cid | _ => zid end) 1
              end
          end
      end
    else if bytes_eqb (upper_bytes mech) b_LOGIN then
      match lines with
      | [] => SStalled 0
      | l1 :: rest =>
          match read_line l1 with
          | LCancel | LBad64 => SAuthErr 1
          | LData d1 u1 =>
              match rest with
              | [] => SStalled 1
              | l2 :: _ =>
                  match read_line l2 with
                  | LCancel | LBad64 => SAuthErr 2
                  | LData d2 u2 =>
                      if negb (u1 && u2) then SAuthErr 2 else SCreds d1 d2 d1 2
                  end
              end
          end
      end
    else SNoMech.

  (* IMAPConnection.authenticate + ConnectionState.do_authenticate *)
  Definition do_sasl (v : view) (b : B) (mech : bytes) (lines : list cline) : res :=
    match sasl_exchange (v_mechs v) mech lines with
    | SNoMech => ret v b NO WBadMech
    | SStalled n => with_lines (raised v b NOTAG WStalled) n
    | SAuthErr n => with_lines (raised v b BAD WAuthError) n
    | SCreds authc secret authz n => with_lines (do_authenticate v b authc secret authz) n
    end.

  (* the handlers that may change who the connection is, or what it offers:
     do_login, do_authenticate, do_starttls *)
  Definition exec_auth (v : view) (b : B) (h : string) (a : args) : res :=
    if h =? "LOGIN" then
      match a with
      | ALogin u p =>
          if cap_logindisabled v then raised v b NO WCannot
          else do_authenticate v b u p u
      | _ => crash v b
      end
    else if h =? "AUTHENTICATE" then
      match a with
      | AAuth mech lines => do_sasl v b mech lines
      | _ => crash v b
      end
    else (* STARTTLS *)
      if v_starttls v
      then ret (mk_view (v_phase v) true false (v_logincaps v)) b OK WDone
      else raised v b NO WCannot.

  (* a handler that is one session call; [selected.fork] turns a deleted
     selection into an untagged BYE *)
  Definition session_call (v : view) (b : B) (meth : string) (x y : bytes) : res :=
    match v_phase v with
    | NotAuth | Closed => crash v b            (* self.session raises AttributeError *)
    | _ =>
        match bk b (call meth x y) with
        | (AnsOk _ gone, b') => with_bye (ret v b' OK WDone) (gone && has_selected (v_phase v))
        | (a, b') => on_raise v b' a
        end
    end.

  (* same, for handlers that read self.selected first *)
  Definition selected_call (v : view) (b : B) (meth : string) (x y : bytes) : res :=
    if has_selected (v_phase v) then session_call v b meth x y else crash v b.

  Definition mailbox_arg (a : args) : bytes :=
    match a with
    | AMailbox m => m
    | AAppend m _ _ => m
    | ARename s _ => s
    | _ => []
    end.

  (* every other ConnectionState.do_<handler> *)
  Definition exec_other (v : view) (b : B) (name h : string) (a : args) : res :=
    if (h =? "CAPABILITY") || (h =? "ID") then ret v b OK WDone
    else if h =? "NOOP" then
      if has_selected (v_phase v) then session_call v b "check_mailbox" [] []
      else ret v b OK WDone
    else if h =? "LOGOUT" then
      mk_res v b OK WLogout true Raised 0        (* CloseConnection: BYE, then OK *)
    else if h =? "SELECT" then
      match v_phase v with
      | NotAuth | Closed => crash v b
      | Authd u | Selected u _ _ =>
          let v0 := set_phase v (Authd u) in          (* self._selected = None *)
          let m := mailbox_arg a in
          match bk b (mk_bcall "select_mailbox" m [] [] (name =? "EXAMINE")) with
          | (AnsOk ro gone, b') =>
              with_bye (ret (set_phase v (Selected u m ro)) b' OK WDone) gone
          | (x, b') => on_raise v0 b' x
          end
      end
    else if (h =? "CREATE") || (h =? "DELETE") then
      if is_inbox (mailbox_arg a) then ret v b NO WInboxNo
      else session_call v b (if h =? "CREATE" then "create_mailbox" else "delete_mailbox")
                        (mailbox_arg a) []
    else if h =? "RENAME" then
      match a with
      | ARename s d =>
          if is_inbox d then ret v b NO WInboxNo
          else session_call v b "rename_mailbox" s d
      | _ => crash v b
      end
    else if h =? "STATUS" then session_call v b "get_mailbox" (mailbox_arg a) []
    else if h =? "SUBSCRIBE" then session_call v b "subscribe" (mailbox_arg a) []
    else if h =? "UNSUBSCRIBE" then session_call v b "unsubscribe" (mailbox_arg a) []
    else if h =? "LIST" then session_call v b "list_mailboxes" [] []
    else if h =? "APPEND" then
      match a with
      | AAppend m n cancelled =>
          if (1 <? n)%N && negb (cap_multiappend v) then raised v b NO WCannot
          else if cancelled then ret v b NO WAppendCancel
          else session_call v b "append_messages" m []
      | _ => crash v b
      end
    else if h =? "CHECK" then selected_call v b "check_mailbox" [] []
    else if h =? "CLOSE" then
      match v_phase v with
      | Selected u m ro =>
          let v0 := set_phase v (Authd u) in          (* self._selected = None, first *)
          if ro then ret v0 b OK WDone
          else match bk b (call "expunge_mailbox" [] []) with
               | (AnsOk _ _, b') => ret v0 b' OK WDone
               | (AnsNotFound, b') => ret v0 b' OK WDone    (* suppress(MailboxNotFound) *)
               | (x, b') => on_raise v0 b' x
               end
      | _ => crash v b
      end
    else if h =? "EXPUNGE" then selected_call v b "expunge_mailbox" [] []
    else if h =? "COPY" then selected_call v b "copy_messages" (mailbox_arg a) []
    else if h =? "MOVE" then selected_call v b "move_messages" (mailbox_arg a) []
    else if h =? "FETCH" then selected_call v b "fetch_messages" [] []
    else if h =? "SEARCH" then selected_call v b "search_mailbox" [] []
    else if h =? "STORE" then
      match v_phase v with
      | Selected _ _ true => raised v b NO WBackendNo     (* MailboxReadOnly, before any call *)
      | _ => selected_call v b "update_flags" [] []
      end
    else if h =? "IDLE" then
      if negb (cap_idle v) then raised v b NO WCannot
      else
        match a with
        | AIdle line =>
            (* "+ Idling."; receive_updates -> check_mailbox(wait_on=done) *)
            match bk b (call "check_mailbox" [] []) with
            | (AnsOk _ _, b') =>
                if bytes_eqb (upper_bytes line) b_DONE
                then with_lines (ret v b' OK WDone) 1
                else with_lines (ret v b' BAD WExpectedDone) 1
            | (x, b') => with_lines (on_raise v b' x) 1
            end
        | _ => crash v b
        end
    else ret v b NO WNotImpl.

  Definition is_auth_handler (h : string) : bool :=
    (h =? "LOGIN") || (h =? "AUTHENTICATE") || (h =? "STARTTLS").

  (* ConnectionState.do_<handler> (after the gate) *)
  Definition exec (v : view) (b : B) (name : string) (e : cmd_entry) (a : args) : res :=
    if negb (ce_has_handler e) then ret v b NO WNotImpl
    else if is_auth_handler (ce_handler e) then exec_auth v b (ce_handler e) a
    else exec_other v b name (ce_handler e) a.

  (* ConnectionState.check_command without the InvalidCommand case *)
  Definition gate (p : phase) (e : cmd_entry) : option why :=
    if has_session p && ce_nonauth e then Some WAlreadyAuth
    else if negb (has_session p) && ce_auth e then Some WMustAuth
    else if negb (has_selected p) && ce_select e then Some WMustSelect
    else None.

  Definition dispatch (v : view) (b : B) (k : cmd) : res :=
    match k with
    | CInvalid => ret v b BAD WInvalid
    | CCmd name a =>
        match lookup_entry name tbl with
        | None => ret v b BAD WInvalid
        | Some e =>
            if ce_compound e then ret v b BAD WInvalid
            else if ce_gated e then
              match gate (v_phase v) e with
              | Some w => ret v b BAD w
              | None => exec v b name e a
              end
            else exec v b name e a
        end
    end.

  Definition limit_reached (n : N) : bool :=
    negb (cf_bad_limit cfg =? 0)%N && (cf_bad_limit cfg <=? n)%N.

  (* the tail of the _run_state loop body: bad-command counter, termination *)
  Definition finish (bad : N) (r : res) : conn * B * out :=
    let v := r_view r in
    let o bye := mk_out (r_cond r) (r_why r) bye (r_lines r) in
    match r_path r with
    | Raised =>
        if r_bye r then (mk_conn (set_phase v Closed) bad, r_b r, o true)
        else (mk_conn v bad, r_b r, o false)
    | Returned =>
        match r_cond r with
        | BAD =>
            let n := (bad + 1)%N in
            (* "* BYE Too many errors, disconnecting." is attached to the
               response that reaches the limit *)
            if limit_reached n || r_bye r
            then (mk_conn (set_phase v Closed) n, r_b r, o true)
            else (mk_conn v n, r_b r, o false)
        | _ =>
            if r_bye r then (mk_conn (set_phase v Closed) 0, r_b r, o true)
            else (mk_conn v 0, r_b r, o false)
        end
    end.

  Definition conn_step (c : conn) (b : B) (k : cmd) : conn * B * out :=
    match c_phase c with
    | Closed => (c, b, mk_out NOTAG WClosed false 0)
    | _ => finish (c_bad c) (dispatch (c_view c) b k)
    end.

  (* ConnectionState.__init__ + do_greeting *)
  Definition conn_init (b : B) : conn * B * out :=
    let v0 := mk_view NotAuth (negb (cf_tls cfg)) (cf_tls cfg) 0 in
    match cf_preauth cfg with
    | Some (authc, secret, authz) =>
        match do_login_calls b authc secret authz with
        | (inl u, b') => (mk_conn (set_phase v0 (Authd u)) 0, b', mk_out OK WDone false 0)
        | (inr AnsNo, b') | (inr AnsNotFound, b') | (inr AnsCannot, b') =>
            (mk_conn (set_phase v0 Closed) 0, b', mk_out NOTAG WGreetBye true 0)
        | (inr _, b') => (mk_conn (set_phase v0 Closed) 0, b', mk_out NOTAG WCrash false 0)
        end
    | None =>
        (mk_conn (mk_view NotAuth (negb (cf_tls cfg) || cf_local cfg) (cf_tls cfg) 0) 0, b,
         mk_out OK WDone false 0)
    end.

  Fixpoint run_from (c : conn) (b : B) (p : list cmd) : conn * B * list out :=
    match p with
    | [] => (c, b, [])
    | k :: r =>
        let '(c1, b1, o) := conn_step c b k in
        let '(c2, b2, os) := run_from c1 b1 r in
        (c2, b2, o :: os)
    end.

  Definition run (b : B) (p : list cmd) : conn * B * list out :=
    let '(c0, b0, o0) := conn_init b in
    let '(c1, b1, os) := run_from c0 b0 p in
    (c1, b1, o0 :: os).

End Step.

Arguments mk_res {B}.
Arguments r_view {B}. Arguments r_b {B}. Arguments r_cond {B}. Arguments r_why {B}.
Arguments r_bye {B}. Arguments r_path {B}. Arguments r_lines {B}.

(* ------------------------------------------------- the script backend (checker) *)
(* The correspondence run replays the backend calls the implementation made
   (method name, outcome): the model must ask for exactly these, in order. *)
Definition script := list (string * answer).

Definition script_bk (s : script) (k : bcall) : answer * script :=
  match s with
  | (m, a) :: r => if m =? bc_meth k then (a, r) else (AnsMismatch, [])
  | [] => (AnsMismatch, [])
  end.
