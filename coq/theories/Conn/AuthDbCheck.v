(* Conn/AuthDbCheck.v — case checkers for the C09 history family
   (harness/c09_dbhist.py) and for the UTF-8 validator.

   A case = an initial identity database read from the real backend (dict:
   Login.users_dict; maildir: the three files), then a list of steps, each
   either a database operation performed through Identity.set / delete
   together with what Identity.get() reports afterwards for every name of the
   universe, or one login attempt on a FRESH connection (IMAP or
   ManageSieve) with what the server answered.  The model folds the database
   through the operations and decides every attempt with [bk_at] — the
   database of that moment, strict decoding. *)
From Coq Require Import String.
From PV Require Import Base.Prelude Conn.CmdEntry Conn.CmdTable Conn.ConnFSM Conn.ConnCheck
  Conn.Auth Conn.SieveAuth Conn.AuthCheck Conn.AuthDb.
Open Scope string_scope.

Definition getobs := option (option bytes * list bytes).     (* Identity.get(): None = UserNotFound *)

Inductive hobs :=
  | HDb (o : dbop) (r : opres) (gets : list (bytes * getobs))
  | HImap (k : cmd) (ob : aobs) (probe : aobs)       (* greeting, k, then LIST *)
  | HSieve (k : scmd) (ob : sobs).

Definition opres_eqb (a b : opres) : bool :=
  match a, b with
  | ROk, ROk | RNotAllowed, RNotAllowed | RNotFound, RNotFound => true
  | _, _ => false
  end.

Definition get_ok (s : dbstate) (e : bytes * getobs) : bool :=
  match db_get s (fst e), snd e with
  | None, None => true
  | Some u, Some (pw, roles) => opt_bytes_eqb (us_pw u) pw && same_set (us_roles u) roles
  | _, _ => false
  end.

(* the harness's per-line UTF-8 flag must be what the validator computes *)
Definition cline_utf8_ok (l : cline) : bool :=
  match cl_dec l with
  | Some d => Bool.eqb (cl_utf8 l) (utf8_valid d)
  | None => true
  end.
Definition cmd_utf8_ok (k : cmd) : bool :=
  match k with
  | CCmd _ (AAuth _ lines) => forallb cline_utf8_ok lines
  | _ => true
  end.
Definition scmd_utf8_ok (k : scmd) : bool :=
  match k with
  | SAuthenticate _ i lines =>
      match i with Some l => cline_utf8_ok l | None => true end && forallb cline_utf8_ok lines
  | _ => true
  end.

Record henv := mk_henv {
  he_true : list (bytes * bytes);    (* (stored, presented) pairs that verify (pysasl) *)
  he_prepbad : list bytes;           (* names saslprep rejects *)
  he_cfg : config
}.

Definition he_bk (e : henv) (s : dbstate) :=
  bk_at (table_verify (he_true e)) (table_prep (he_prepbad e)) s.

Definition stage_bk (bk : unit -> bcall -> answer * unit) (authc secret authz : bytes) : N :=
  match bk tt (call "authenticate" authc secret) with
  | (AnsIdent n roles, _) =>
      match bk tt (mk_bcall "authorize" n authz roles false) with
      | (AnsIdent n' _, _) =>
          match bk tt (call "new_session" n' []) with
          | (AnsOk _ _, _) => 0
          | _ => 3
          end
      | _ => 2
      end
  | _ => 1
  end%N.

Definition stage_of (e : henv) (s : dbstate) := stage_bk (he_bk e s).

Definition hstage_ok (e : henv) (s : dbstate) (k : cmd) (ob : aobs) : bool :=
  match ao_stage ob, creds_of k with
  | Some n, Some (authc, secret, authz) => (stage_of e s authc secret authz =? n)%N
  | Some _, None => false
  | None, _ => true
  end.

Definition hstep_ok (e : henv) (s : dbstate) (h : hobs) : bool * dbstate :=
  match h with
  | HDb o r gets =>
      let '(s', r') := db_apply s o in
      (opres_eqb r r' && forallb (get_ok s') gets, s')
  | HImap k ob probe =>
      let '(c0, _, _) := conn_init unit (he_bk e s) (he_cfg e) tt in
      let '(c1, _, o1) := conn_step unit (he_bk e s) cmd_table (he_cfg e) c0 tt k in
      let '(c2, _, o2) := conn_step unit (he_bk e s) cmd_table (he_cfg e) c1 tt (CCmd "LIST" ANone) in
      (cmd_utf8_ok k && aobs_ok c1 o1 ob && hstage_ok e s k ob && aobs_ok c2 o2 probe, s)
  | HSieve k ob =>
      let '(c0, _, _) := sieve_init_conn unit (he_bk e s) (he_cfg e) tt in
      let '(c1, _, o1) := sieve_step unit (he_bk e s) c0 tt k in
      (scmd_utf8_ok k && sobs_ok c1 o1 ob, s)
  end.

Fixpoint chk_hsteps (e : henv) (s : dbstate) (l : list hobs) : bool :=
  match l with
  | [] => true
  | h :: r => let '(ok, s') := hstep_ok e s h in ok && chk_hsteps e s' r
  end.

Definition hist_case := (henv * dbstate * list (bytes * getobs) * list hobs)%type.
Definition mk_hcase (e : henv) (s : dbstate) (g0 : list (bytes * getobs)) (l : list hobs)
  : hist_case := (e, s, g0, l).

Definition chk_hist (x : hist_case) : bool :=
  let '(e, s, g0, l) := x in forallb (get_ok s) g0 && chk_hsteps e s l.

Fixpoint first_hbad (e : henv) (s : dbstate) (l : list hobs) (i : nat) : option (nat * dbstate) :=
  match l with
  | [] => None
  | h :: r => let '(ok, s') := hstep_ok e s h in
              if ok then first_hbad e s' r (S i) else Some (i, s')
  end.
Definition where_hbad (x : hist_case) : option (nat * dbstate) :=
  let '(e, s, g0, l) := x in
  if forallb (get_ok s) g0 then first_hbad e s l 1 else Some (0%nat, s).

(* bytes.decode('utf-8') (strict) succeeds  <->  utf8_valid *)
Definition chk_utf8 (x : bytes * bool) : bool := Bool.eqb (utf8_valid (fst x)) (snd x).

(* ------------------------------------------------------------------------
   The static families of Conn/AuthCheck.v once more, with STRICT decoding:
   the oracle tables of the case are wrapped by [strict_verify]/[strict_prep]
   (octets that are not UTF-8 never verify, whatever the table says) and the
   per-line UTF-8 flags must agree with [utf8_valid].  Used for the
   look-alike credential sequences (harness/c09_lookalike.py). *)
Definition env_bk_strict (e : aenv) :=
  login_bk (strict_verify (table_verify (ae_true e))) (strict_prep (table_prep (ae_prepbad e)))
           (ae_kind e) (ae_db e).

Definition stage_ok_strict (e : aenv) (k : cmd) (ob : aobs) : bool :=
  match ao_stage ob, creds_of k with
  | Some n, Some (authc, secret, authz) => (stage_bk (env_bk_strict e) authc secret authz =? n)%N
  | Some _, None => false
  | None, _ => true
  end.

Fixpoint chk_asteps_strict (e : aenv) (cfg : config) (c : conn) (l : list (cmd * aobs)) : bool :=
  match l with
  | [] => true
  | (k, ob) :: r =>
      let '(c', _, o) := conn_step unit (env_bk_strict e) cmd_table cfg c tt k in
      cmd_utf8_ok k && aobs_ok c' o ob && stage_ok_strict e k ob && chk_asteps_strict e cfg c' r
  end.

Definition chk_auth_strict (x : auth_case) : bool :=
  let '(e, cfg, g, l) := x in
  let '(c0, _, o0) := conn_init unit (env_bk_strict e) cfg tt in
  aobs_ok c0 o0 g && chk_asteps_strict e cfg c0 l.

Fixpoint first_abad_strict (e : aenv) (cfg : config) (c : conn) (l : list (cmd * aobs)) (i : nat)
  : option (nat * out * phase) :=
  match l with
  | [] => None
  | (k, ob) :: r =>
      let '(c', _, o) := conn_step unit (env_bk_strict e) cmd_table cfg c tt k in
      if cmd_utf8_ok k && aobs_ok c' o ob && stage_ok_strict e k ob
      then first_abad_strict e cfg c' r (S i) else Some (i, o, c_phase c')
  end.
Definition where_abad_strict (x : auth_case) : option (nat * out * phase) :=
  let '(e, cfg, g, l) := x in
  let '(c0, _, o0) := conn_init unit (env_bk_strict e) cfg tt in
  if aobs_ok c0 o0 g then first_abad_strict e cfg c0 l 1 else Some (0%nat, o0, c_phase c0).

Fixpoint chk_ssteps_strict (e : aenv) (c : sconn) (l : list (scmd * sobs)) : bool :=
  match l with
  | [] => true
  | (k, ob) :: r =>
      let '(c', _, o) := sieve_step unit (env_bk_strict e) c tt k in
      scmd_utf8_ok k && sobs_ok c' o ob && chk_ssteps_strict e c' r
  end.

Definition chk_sieve_strict (x : sieve_case) : bool :=
  let '(e, cfg, g, l) := x in
  let '(c0, _, o0) := sieve_init_conn unit (env_bk_strict e) cfg tt in
  sobs_ok c0 o0 g && chk_ssteps_strict e c0 l.
