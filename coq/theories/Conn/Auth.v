(* Conn/Auth.v — the login side of the backend, as the IMAP connection layer
   (Conn/ConnFSM.v, ConnectionState._login) calls it:
     pymap/backend/dict/__init__.py     Login.authenticate / authorize, Identity.new_session
     pymap/backend/maildir/__init__.py  Login.authenticate / authorize, Identity.new_session
     pymap/user.py                      Passwords.check_password -> credentials.verify(identity)
                                        -> UserMetadata.compare_authcid / compare_secret
   The secret check itself (pysasl PlainCredentials.verify + saslprep + the
   configured hash) is an oracle: [verify_secret stored presented] and
   [prep_ok name] (saslprep accepts the name; a ValueError makes the
   comparison False).  Definitions only. *)
From Coq Require Import String.
From PV Require Import Base.Prelude Conn.CmdEntry Conn.ConnFSM.
Open Scope string_scope.

Inductive backend_kind := BDict | BMaildir.

Record user := mk_user {
  us_name : bytes;
  us_pw : option bytes;      (* stored password hash; None: none, or disabled ('*', '!', '') *)
  us_roles : list bytes      (* dict: UserMetadata.roles; maildir: group file (+ admin for uid 0) *)
}.

Definition userdb := list user.

Fixpoint find_user (name : bytes) (db : userdb) : option user :=
  match db with
  | [] => None
  | u :: r => if bytes_eqb (us_name u) name then Some u else find_user name r
  end.

Fixpoint mem_bytes (x : bytes) (l : list bytes) : bool :=
  match l with
  | [] => false
  | y :: r => bytes_eqb x y || mem_bytes x r
  end.

Definition r_admin : bytes := [97;100;109;105;110]%N.
Definition r_sudo : bytes := [115;117;100;111]%N.

(* the role test of Login.authorize *)
Definition may_assume (kind : backend_kind) (roles : list bytes) : bool :=
  match kind with
  | BDict => mem_bytes r_admin roles
  | BMaildir => mem_bytes r_sudo roles || mem_bytes r_admin roles
  end.

Section Login.
  Variable verify_secret : bytes -> bytes -> bool.   (* stored hash, presented secret *)
  Variable prep_ok : bytes -> bool.                  (* saslprep(name) does not raise *)
  Variable kind : backend_kind.
  Variable db : userdb.

  (* Passwords.check_password(user, credentials) for PlainCredentials:
     identity.compare_authcid(authcid) and identity.compare_secret(secret);
     an unknown user is UserMetadata(config, authcid) with no password *)
  Definition check_password (authc secret : bytes) : bool :=
    prep_ok authc &&
    match find_user authc db with
    | Some u => match us_pw u with Some h => verify_secret h secret | None => false end
    | None => false
    end.

  (* roles of the identity that Login.authenticate returns.  dict: the set
     given to Identity() is the one later updated with user.roles; maildir:
     Identity() copies the (still empty) set, so password logins carry no
     roles into authorize *)
  Definition authenticated_roles (authc : bytes) : list bytes :=
    match kind with
    | BDict => match find_user authc db with Some u => us_roles u | None => [] end
    | BMaildir => []
    end.

  Definition login_bk (st : unit) (k : bcall) : answer * unit :=
    if bc_meth k =? "authenticate" then
      (if check_password (bc_a k) (bc_b k)
       then AnsIdent (bc_a k) (authenticated_roles (bc_a k))
       else AnsNo, tt)                                       (* InvalidAuth *)
    else if bc_meth k =? "authorize" then
      (if bytes_eqb (bc_a k) (bc_b k) || may_assume kind (bc_roles k)
       then AnsIdent (bc_b k) (bc_roles k)
       else AnsNo, tt)                                       (* AuthorizationFailure *)
    else if bc_meth k =? "new_session" then
      (match find_user (bc_a k) db with
       | Some _ => AnsOk false false
       | None => AnsNo                                       (* UserNotFound *)
       end, tt)
    else (AnsOk false false, tt).                            (* any session call *)

  (* credentials that verify for an existing user, and an identity that this
     user may assume *)
  Definition valid_creds (authc secret authz : bytes) : Prop :=
    exists ua h,
      find_user authc db = Some ua /\ us_pw ua = Some h /\
      verify_secret h secret = true /\ prep_ok authc = true /\
      (authz = authc \/ may_assume kind (us_roles ua) = true) /\
      (exists uz, find_user authz db = Some uz).

End Login.

(* the credentials a command presents (None: it presents none — not a login
   command, or a cancelled / malformed / undecodable exchange, or a mechanism
   that is not offered) *)
Definition creds_of (k : cmd) : option (bytes * bytes * bytes) :=
  match k with
  | CCmd "LOGIN" (ALogin u p) => Some (u, p, u)
  | CCmd "AUTHENTICATE" (AAuth mech lines) =>
      match sasl_exchange true mech lines with
      | SCreds authc secret authz _ => Some (authc, secret, authz)
      | _ => None
      end
  | _ => None
  end.

(* the connection states after each command of a program *)
Section Trace.
  Variable B : Type.
  Variable bk : B -> bcall -> answer * B.
  Variable tbl : list cmd_entry.
  Variable cfg : config.

  Fixpoint states_from (c : conn) (b : B) (p : list cmd) : list conn :=
    match p with
    | [] => []
    | k :: r =>
        let '(c1, b1, _) := conn_step B bk tbl cfg c b k in
        c1 :: states_from c1 b1 r
    end.

  Definition final_from (c : conn) (b : B) (p : list cmd) : conn :=
    fst (fst (run_from B bk tbl cfg c b p)).
End Trace.
