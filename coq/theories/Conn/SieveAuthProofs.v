(* Conn/SieveAuthProofs.v — C09 for the ManageSieve listener. *)
From Coq Require Import String Lia.
From PV Require Import Base.Prelude Conn.CmdEntry Conn.ConnFSM Conn.Auth Conn.SieveAuth.
Open Scope string_scope.

Section SieveSound.
  Variable verify_secret : bytes -> bytes -> bool.
  Variable prep_ok : bytes -> bool.
  Variable kind : backend_kind.
  Variable db : userdb.
  Variable cfg : config.

  Notation bk := (login_bk verify_secret prep_ok kind db).
  Notation step := (sieve_step unit bk).
  Notation states := (sieve_states unit bk).

  (* credentials that verify for an existing user *)
  Definition valid_login (authc secret : bytes) : Prop :=
    exists ua h, find_user authc db = Some ua /\ us_pw ua = Some h /\
                 verify_secret h secret = true /\ prep_ok authc = true.

  Lemma sieve_login_valid authc secret u b' :
    sieve_login unit bk tt authc secret = (inl u, b') ->
    u = authc /\ valid_login authc secret.
  Proof.
    unfold sieve_login, login_bk. cbn [bc_meth call bc_a bc_b bc_roles].
    change ("authenticate" =? "authenticate") with true. cbn iota.
    unfold check_password.
    destruct (prep_ok authc) eqn:Ep; cbn [andb]; [|discriminate].
    destruct (find_user authc db) as [ua|] eqn:Ef; [|discriminate].
    destruct (us_pw ua) as [h|] eqn:Eh; [|discriminate].
    destruct (verify_secret h secret) eqn:Ev; [|discriminate].
    change ("new_session" =? "authenticate") with false.
    change ("new_session" =? "authorize") with false.
    change ("new_session" =? "new_session") with true. cbn iota.
    rewrite Ef. intros H. injection H as H1 _. subst u. split; [reflexivity|].
    exists ua, h. auto.
  Qed.

  (* one step: the owner is kept, or dropped, or (from "nobody") becomes the
     authentication id of valid credentials *)
  Lemma sieve_step_effect c k :
    let '(c', _, o) := step c tt k in
    sv_owner c' = sv_owner c \/ sv_owner c' = None \/
    (sv_owner c = None /\ sv_mechs c = true /\ exists authc secret,
       sieve_creds_of k = Some (authc, secret) /\ valid_login authc secret /\
       sv_owner c' = Some authc /\ so_cond o = SOK).
  Proof.
    unfold sieve_step. destruct (sv_closed c); [left; reflexivity|].
    destruct (sv_owner c) as [ow|] eqn:Eo.
    - destruct k; cbn; first [left; congruence | right; left; reflexivity].
    - destruct k; cbn [so_cond sv_owner]; try (left; cbn; congruence).
      + (* AUTHENTICATE while nobody *)
        destruct (sv_mechs c) eqn:Hm; [|left; cbn; congruence].
        destruct (sieve_exchange true mech initial lines) eqn:Ex; try (left; cbn; congruence).
        destruct (sieve_login unit bk tt authc secret) as [[u|a] b'] eqn:El;
          [|left; cbn; congruence].
        destruct (sieve_login_valid _ _ _ _ El) as [-> Hv].
        right. right. repeat split; auto. exists authc, secret. repeat split; auto.
        cbn [sieve_creds_of]. rewrite Ex. reflexivity.
      + destruct (sv_offer_tls c); [right; left; reflexivity|left; cbn; congruence].
  Qed.

  Lemma sieve_last_cons {A} (x : A) l d : last (x :: l) d = last l x.
  Proof.
    destruct l as [|y l]; [reflexivity|].
    change (last (x :: y :: l) d) with (last (y :: l) d).
    revert y. induction l as [|z l IH]; intros y; [reflexivity|].
    change (last (y :: z :: l) d) with (last (z :: l) d).
    change (last (y :: z :: l) x) with (last (z :: l) x). apply IH.
  Qed.

  (* if the connection ends owned by u then either it was u's all along, or
     some AUTHENTICATE presented credentials that verify for the existing
     user u and the connection has been u's ever since *)
  Lemma sieve_sound_from p : forall c u,
    sv_owner (last (states c tt p) c) = Some u ->
    (sv_owner c = Some u /\ forall cj, In cj (states c tt p) -> sv_owner cj = Some u) \/
    exists i k secret,
      nth_error p i = Some k /\ sieve_creds_of k = Some (u, secret) /\
      valid_login u secret /\
      forall j cj, (i <= j)%nat -> nth_error (states c tt p) j = Some cj -> sv_owner cj = Some u.
  Proof.
    induction p as [|k p IH]; intros c u Hl.
    - left. split; [exact Hl|]. intros cj [].
    - cbn [sieve_states] in *. pose proof (sieve_step_effect c k) as He.
      destruct (step c tt k) as [[c1 []] o].
      rewrite sieve_last_cons in Hl.
      destruct (IH c1 u Hl) as [[Hc1 Hall] | (i & k' & s & Hn & Hc & Hv & Hafter)].
      + destruct He as [Hk | [Hn | (Hn & _ & authc & secret & Hc & Hv & Ho & _)]].
        * left. split; [congruence|]. intros cj [<-|Hin]; auto.
        * congruence.
        * assert (authc = u) by congruence. subst authc.
          right. exists 0%nat, k, secret. repeat split; auto.
          intros j cj _ Hj. destruct j; cbn in Hj; [inversion Hj; subst; exact Hc1|].
          apply Hall. eapply nth_error_In; eauto.
      + right. exists (S i), k', s. repeat split; auto.
        intros j cj Hj Hnj. destruct j; [lia|]. cbn in Hnj.
        apply (Hafter j cj); [lia|exact Hnj].
  Qed.

  (* a failed, cancelled or malformed AUTHENTICATE leaves the owner as it was *)
  Lemma sieve_failed_step c k :
    sv_owner c = None ->
    (forall authc secret, sieve_creds_of k = Some (authc, secret) -> ~ valid_login authc secret) ->
    sv_owner (fst (fst (step c tt k))) = None.
  Proof.
    intros Hn Hbad. pose proof (sieve_step_effect c k) as He.
    destruct (step c tt k) as [[c1 []] o]. cbn [fst].
    destruct He as [Hk | [Hk | (_ & _ & authc & secret & Hc & Hv & _)]]; [congruence|exact Hk|].
    exfalso. eapply Hbad; eauto.
  Qed.

  (* the greeting: nobody, unless preauth credentials verify *)
  Lemma sieve_init_owner u :
    sv_owner (fst (fst (sieve_init_conn unit bk cfg tt))) = Some u ->
    exists authc secret authz, cf_preauth cfg = Some (authc, secret, authz) /\
                               u = authc /\ valid_login authc secret.
  Proof.
    unfold sieve_init_conn. destruct (cf_preauth cfg) as [[[authc secret] authz]|]; [|discriminate].
    destruct (sieve_login unit bk tt authc secret) as [[u'|a] b'] eqn:El; [|discriminate].
    destruct (sieve_login_valid _ _ _ _ El) as [-> Hv]. cbn. intros H. inversion H; subst.
    exists u, secret, authz. auto.
  Qed.
End SieveSound.
