(* Faults/DictFaultsProofs.v — conservation of moved messages, all-or-nothing
   multi-message APPEND, no effect of commands answered NO or BAD. *)
From PV Require Import Base.Prelude Faults.DictFaults.
Local Open Scope N_scope.

(* ---------------------------------------------------------- counting *)
Lemma count_app c a b : count c (a ++ b) = (count c a + count c b)%nat.
Proof. unfold count. rewrite filter_app, app_length. reflexivity. Qed.

Lemma cids_of_cons e s : cids_of (e :: s) = map snd (b_msgs (snd e)) ++ cids_of s.
Proof. reflexivity. Qed.

Lemma set_box_count c s b x xo :
  get_box s b = Some xo ->
  (count c (cids_of (set_box s b x)) + count c (map snd (b_msgs xo)))%nat
  = (count c (cids_of s) + count c (map snd (b_msgs x)))%nat.
Proof.
  induction s as [|[b' y] s IH]; cbn [get_box set_box]; intro H; [discriminate|].
  destruct (b' =? b).
  - injection H as ->. rewrite !cids_of_cons, !count_app. cbn [snd]. lia.
  - specialize (IH H). rewrite !cids_of_cons, !count_app. cbn [snd]. lia.
Qed.

Lemma get_set_same s b x xo : get_box s b = Some xo -> get_box (set_box s b x) b = Some x.
Proof.
  induction s as [|[b' y] s IH]; cbn [get_box set_box]; intro H; [discriminate|].
  destruct (b' =? b) eqn:E; cbn [get_box]; rewrite E; [reflexivity|exact (IH H)].
Qed.

Lemma get_set_other s b x b2 : b2 <> b -> get_box (set_box s b x) b2 = get_box s b2.
Proof.
  intro Hn. induction s as [|[b' y] s IH]; cbn [get_box set_box]; [reflexivity|].
  destruct (b' =? b) eqn:E; cbn [get_box].
  - apply N.eqb_eq in E. subst b'. destruct (N.eqb_spec b b2); [congruence|reflexivity].
  - rewrite IH. reflexivity.
Qed.

Lemma get_set s b x b2 xo : get_box s b = Some xo ->
  get_box (set_box s b x) b2 = if b2 =? b then Some x else get_box s b2.
Proof.
  intro H. destruct (N.eqb_spec b2 b) as [->|Hn].
  - exact (get_set_same _ _ _ _ H).
  - exact (get_set_other _ _ _ _ Hn).
Qed.

(* ------------------------------------------------- well-formed mailboxes *)
Definition wf_mbox (x : mbox) : Prop :=
  NoDup (map fst (b_msgs x)) /\ forall u, In u (map fst (b_msgs x)) -> u <= b_max x.
Definition good (s : store) : Prop := forall b x, get_box s b = Some x -> wf_mbox x.

Lemma find_msg_in l u c : find_msg l u = Some c -> In (u, c) l.
Proof.
  induction l as [|[u' c'] l IH]; cbn [find_msg]; intro H; [discriminate|].
  destruct (N.eqb_spec u' u) as [->|_]; [injection H as ->; left; reflexivity|].
  right. exact (IH H).
Qed.

(* removing the one message with that uid removes exactly its content id *)
Lemma drop_count c l u cid :
  NoDup (map fst l) -> find_msg l u = Some cid ->
  (count c (map snd (drop_msg l u)) + count c [cid])%nat = count c (map snd l).
Proof.
  induction l as [|[u' c'] l IH]; cbn [find_msg map fst]; intros Hnd H; [discriminate|].
  inversion Hnd as [|? ? Hx Hl]; subst.
  unfold drop_msg. cbn [filter fst].
  destruct (N.eqb_spec u' u) as [->|Hn].
  - injection H as ->. cbn [negb].
    assert (E : filter (fun e : N * N => negb (fst e =? u)) l = l).
    { clear - Hx. induction l as [|[a b] l IH]; [reflexivity|]. cbn [filter fst map In] in *.
      destruct (N.eqb_spec a u) as [->|_]; [exfalso; apply Hx; left; reflexivity|].
      cbn [negb]. rewrite IH; [reflexivity|]. intro Hin. apply Hx. right. exact Hin. }
    rewrite E. cbn [map snd]. unfold count. cbn [filter].
    destruct (c =? cid); cbn [length]; [apply Nat.add_1_r|apply Nat.add_0_r].
  - cbn [negb map snd]. fold (drop_msg l u). specialize (IH Hl H).
    unfold count in *. cbn [filter]. destruct (c =? c'); cbn [length];
      [rewrite <- IH; reflexivity|exact IH].
Qed.

Lemma drop_msg_sub l u x : In x (map fst (drop_msg l u)) -> In x (map fst l).
Proof.
  unfold drop_msg. intro H. apply in_map_iff in H as [e [He Hin]].
  apply filter_In in Hin as [Hin _]. apply in_map_iff. exists e. split; assumption.
Qed.

Lemma drop_msg_nodup l u : NoDup (map fst l) -> NoDup (map fst (drop_msg l u)).
Proof.
  unfold drop_msg. induction l as [|[a b] l IH]; cbn [filter map fst]; intro H; [constructor|].
  inversion H as [|? ? Hx Hl]; subst.
  destruct (negb (a =? u)); cbn [map fst]; [|exact (IH Hl)].
  constructor; [|exact (IH Hl)]. intro Hin. apply Hx. exact (drop_msg_sub _ _ _ Hin).
Qed.

Lemma NoDup_app_snoc {A} (l : list A) x : NoDup l -> ~ In x l -> NoDup (l ++ [x]).
Proof.
  induction l as [|y l IH]; cbn [app]; intros H Hx.
  - constructor; [intros []|constructor].
  - inversion H as [|? ? Hy Hl]; subst. constructor.
    + intro Hin. apply in_app_or in Hin as [Hin|[<-|[]]]; [contradiction|].
      apply Hx. left. reflexivity.
    + apply IH; [exact Hl|]. intro Hin. apply Hx. right. exact Hin.
Qed.

(* ------------------------------------------------------- storage calls *)
Lemma st_append_count c s b cid :
  count c (cids_of (fst (st_append s b cid)))
  = match get_box s b with Some _ => (count c (cids_of s) + count c [cid])%nat
                         | None => count c (cids_of s) end.
Proof.
  unfold st_append. destruct (get_box s b) as [x|] eqn:E; cbn [fst]; [|reflexivity].
  pose proof (set_box_count c s b {| b_max := b_max x + 1;
                                     b_msgs := b_msgs x ++ [(b_max x + 1, cid)] |} x E) as H.
  cbn [b_msgs] in H. rewrite map_app, count_app in H. cbn [map snd] in H. lia.
Qed.

Lemma st_append_good s b cid : good s -> good (fst (st_append s b cid)).
Proof.
  intros G. unfold st_append. destruct (get_box s b) as [x|] eqn:E; cbn [fst]; [|exact G].
  intros b2 y Hy. rewrite (get_set _ _ _ _ _ E) in Hy.
  destruct (b2 =? b); [|exact (G _ _ Hy)]. injection Hy as <-.
  destruct (G _ _ E) as [Hnd Hle]. split; cbn [b_msgs b_max].
  - rewrite map_app. cbn [map fst]. apply NoDup_app_snoc; [exact Hnd|].
    intro Hin. specialize (Hle _ Hin). lia.
  - intros u Hu. rewrite map_app in Hu. apply in_app_or in Hu as [Hu|[<-|[]]]; [|cbn [fst]; lia].
    specialize (Hle _ Hu). lia.
Qed.

Lemma st_move_count c s src u dst :
  good s -> get_box s dst <> None ->
  count c (cids_of (st_move s src u dst)) = count c (cids_of s).
Proof.
  intros G Hd. unfold st_move.
  destruct (get_box s src) as [x|] eqn:E; [|reflexivity].
  destruct (find_msg (b_msgs x) u) as [cid|] eqn:F; [|reflexivity].
  set (x' := {| b_max := b_max x; b_msgs := drop_msg (b_msgs x) u |}).
  rewrite st_append_count.
  assert (Hd' : get_box (set_box s src x') dst <> None).
  { rewrite (get_set _ _ _ _ _ E). destruct (dst =? src); [discriminate|exact Hd]. }
  destruct (get_box (set_box s src x') dst); [|contradiction].
  pose proof (set_box_count c s src x' x E) as H1. unfold x' in H1. cbn [b_msgs] in H1.
  destruct (G _ _ E) as [Hnd _].
  pose proof (drop_count c _ _ _ Hnd F) as H2. fold x' in H1. lia.
Qed.

Lemma st_move_good s src u dst : good s -> good (st_move s src u dst).
Proof.
  intros G. unfold st_move.
  destruct (get_box s src) as [x|] eqn:E; [|exact G].
  destruct (find_msg (b_msgs x) u) as [cid|] eqn:F; [|exact G].
  apply st_append_good. intros b2 y Hy. rewrite (get_set _ _ _ _ _ E) in Hy.
  destruct (b2 =? src); [|exact (G _ _ Hy)]. injection Hy as <-.
  destruct (G _ _ E) as [Hnd Hle]. split; cbn [b_msgs b_max].
  - exact (drop_msg_nodup _ _ Hnd).
  - intros v Hv. apply Hle. exact (drop_msg_sub _ _ _ Hv).
Qed.

Lemma st_copy_good s src u dst : good s -> good (st_copy s src u dst).
Proof.
  intros G. unfold st_copy. destruct (get_box s src) as [x|]; [|exact G].
  destruct (find_msg (b_msgs x) u); [|exact G]. apply st_append_good. exact G.
Qed.

Lemma st_delete_good s b uids : good s -> good (st_delete s b uids).
Proof.
  intros G. unfold st_delete. destruct (get_box s b) as [x|] eqn:E; [|exact G].
  intros b2 y Hy. rewrite (get_set _ _ _ _ _ E) in Hy.
  destruct (b2 =? b); [|exact (G _ _ Hy)]. injection Hy as <-.
  destruct (G _ _ E) as [Hnd Hle]. split; cbn [b_msgs b_max].
  - clear - Hnd. induction (b_msgs x) as [|[a c] l IH]; cbn [filter map fst] in *; [constructor|].
    inversion Hnd as [|? ? Hx Hl]; subst.
    destruct (negb (existsb (N.eqb a) uids)); cbn [map fst]; [|exact (IH Hl)].
    constructor; [|exact (IH Hl)]. intro Hin. apply Hx.
    apply in_map_iff in Hin as [e [He Hin]]. apply filter_In in Hin as [Hin _].
    apply in_map_iff. exists e. split; assumption.
  - intros v Hv. apply Hle. apply in_map_iff in Hv as [e [He Hin]].
    apply filter_In in Hin as [Hin _]. apply in_map_iff. exists e. split; assumption.
Qed.

Lemma box_exists_append s b cid b2 :
  get_box s b2 <> None -> get_box (fst (st_append s b cid)) b2 <> None.
Proof.
  unfold st_append. destruct (get_box s b) as [x|] eqn:E; cbn [fst]; [|auto].
  intro H. rewrite (get_set _ _ _ _ _ E). destruct (b2 =? b); [discriminate|exact H].
Qed.

Lemma box_exists_move s src u dst b2 :
  get_box s b2 <> None -> get_box (st_move s src u dst) b2 <> None.
Proof.
  unfold st_move. destruct (get_box s src) as [x|] eqn:E; [|auto].
  destruct (find_msg (b_msgs x) u); [|auto]. intro H. apply box_exists_append.
  rewrite (get_set _ _ _ _ _ E). destruct (b2 =? src); [discriminate|exact H].
Qed.

(* ------------------------------------------------------------- MOVE *)
Lemma move_loop_conserved c s src uids dst fault :
  good s -> get_box s dst <> None ->
  let '(s', tr, _) := copy_loop true s src uids dst fault in
  count c (cids_of s') = count c (cids_of s)
  /\ (forall x, In x tr -> count c (cids_of x) = count c (cids_of s)).
Proof.
  revert s fault. induction uids as [|u r IH]; intros s fault G Hd; cbn [copy_loop].
  - split; [reflexivity|intros x []].
  - destruct (fires fault); [split; [reflexivity|intros x []]|].
    specialize (IH (st_move s src u dst) (tick fault) (st_move_good _ _ _ _ G)
                   (box_exists_move _ _ _ _ _ Hd)).
    destruct (copy_loop true (st_move s src u dst) src r dst (tick fault)) as [[s2 tr] f].
    destruct IH as [H1 H2].
    pose proof (st_move_count c s src u dst G Hd) as Hm.
    split; [congruence|]. intros x [<-|Hx]; [exact Hm|]. rewrite (H2 x Hx). exact Hm.
Qed.

(* at every instant of a MOVE — after each storage call, wherever the fault
   lands, and at the end — every message content exists exactly as often as
   before in the whole store: nothing is lost, nothing is duplicated *)
Theorem move_conserved s src uids dst fault c :
  good s ->
  let r := run_dcmd s (DMove src uids dst) fault in
  forall x, In x (r_store r :: r_trace r) -> count c (cids_of x) = count c (cids_of s).
Proof.
  intros G. cbn [run_dcmd].
  destruct (get_box s src) eqn:Es; [|cbn; intros x [<-|[]]; reflexivity].
  destruct (get_box s dst) eqn:Ed; [|cbn; intros x [<-|[]]; reflexivity].
  assert (Hd : get_box s dst <> None) by (rewrite Ed; discriminate).
  pose proof (move_loop_conserved c s src (known_uids s src uids) dst fault G Hd) as H.
  destruct (copy_loop true s src (known_uids s src uids) dst fault) as [[s' tr] f].
  destruct H as [H1 H2].
  cbn [r_store r_trace]. intros x [<-|Hx]; [exact H1|exact (H2 x Hx)].
Qed.

(* a moved uid is gone from the source once its move has run *)
Lemma st_move_leaves s src u dst :
  good s -> src <> dst -> find_msg (msgs_of (st_move s src u dst) src) u = None.
Proof.
  intros G Hn. unfold st_move, msgs_of.
  destruct (get_box s src) as [x|] eqn:E; [|rewrite E; reflexivity].
  destruct (find_msg (b_msgs x) u) as [cid|] eqn:F; [|rewrite E; exact F].
  set (x' := {| b_max := b_max x; b_msgs := drop_msg (b_msgs x) u |}).
  assert (Hs : get_box (fst (st_append (set_box s src x') dst cid)) src = Some x').
  { unfold st_append. destruct (get_box (set_box s src x') dst) as [y|] eqn:Ey; cbn [fst].
    - rewrite (get_set _ _ _ _ _ Ey). destruct (N.eqb_spec src dst); [contradiction|].
      exact (get_set_same _ _ _ _ E).
    - exact (get_set_same _ _ _ _ E). }
  rewrite Hs. unfold x'. cbn [b_msgs]. unfold drop_msg.
  clear. induction (b_msgs x) as [|[a c] l IH]; cbn [filter find_msg fst]; [reflexivity|].
  destruct (N.eqb_spec a u) as [->|Hn]; cbn [negb]; [exact IH|].
  cbn [find_msg]. destruct (N.eqb_spec a u); [contradiction|exact IH].
Qed.

(* ---------------------------------------------------- multi-message APPEND *)
Lemma msgs_of_append s b cid b2 :
  msgs_of (fst (st_append s b cid)) b2
  = match get_box s b with
    | Some x => if b2 =? b then b_msgs x ++ [(b_max x + 1, cid)] else msgs_of s b2
    | None => msgs_of s b2
    end.
Proof.
  unfold st_append, msgs_of. destruct (get_box s b) as [x|] eqn:E; cbn [fst]; [|reflexivity].
  rewrite (get_set _ _ _ _ _ E). destruct (b2 =? b); reflexivity.
Qed.

Lemma append_loop_shape s b cids fault x :
  get_box s b = Some x ->
  let '(s', _, uids, _) := append_loop s b cids fault in
  exists news,
    (forall b2, msgs_of s' b2 = if b2 =? b then b_msgs x ++ news else msgs_of s b2)
    /\ map fst news = uids
    /\ (forall u, In u uids -> b_max x < u)
    /\ get_box s' b <> None.
Proof.
  revert s x fault. induction cids as [|c r IH]; intros s x fault E; cbn [append_loop].
  - exists []. rewrite app_nil_r. repeat split.
    + intro b2. destruct (N.eqb_spec b2 b) as [->|_]; [unfold msgs_of; rewrite E|]; reflexivity.
    + intros u [].
    + rewrite E. discriminate.
  - destruct (fires fault).
    + exists []. rewrite app_nil_r. repeat split.
      * intro b2. destruct (N.eqb_spec b2 b) as [->|_]; [unfold msgs_of; rewrite E|]; reflexivity.
      * intros u [].
      * rewrite E. discriminate.
    + unfold st_append at 1. rewrite E.
      set (x1 := {| b_max := b_max x + 1; b_msgs := b_msgs x ++ [(b_max x + 1, c)] |}).
      assert (E1 : get_box (set_box s b x1) b = Some x1) by exact (get_set_same _ _ _ _ E).
      specialize (IH (set_box s b x1) x1 (tick fault) E1).
      destruct (append_loop (set_box s b x1) b r (tick fault)) as [[[s2 tr] uids] f].
      destruct IH as [news [Hm [Hu [Hgt Hne]]]].
      exists ((b_max x + 1, c) :: news). repeat split.
      * intro b2. rewrite Hm. destruct (N.eqb_spec b2 b) as [->|Hn].
        -- unfold x1. cbn [b_msgs]. rewrite <- app_assoc. reflexivity.
        -- unfold msgs_of. rewrite (get_set_other _ _ _ _ Hn). reflexivity.
      * cbn [map fst]. rewrite Hu. reflexivity.
      * intros u [<-|Hu']; [lia|]. specialize (Hgt u Hu'). unfold x1 in Hgt. cbn [b_max] in Hgt. lia.
      * exact Hne.
Qed.

Lemma filter_old_new (old news : list (N * N)) uids mx :
  (forall u, In u (map fst old) -> u <= mx) -> map fst news = uids ->
  (forall u, In u uids -> mx < u) ->
  filter (fun e => negb (existsb (N.eqb (fst e)) uids)) (old ++ news) = old.
Proof.
  intros Hold Hn Hgt. rewrite filter_app.
  assert (E1 : filter (fun e => negb (existsb (N.eqb (fst e)) uids)) old = old).
  { clear Hn. induction old as [|[a c] l IH]; [reflexivity|]. cbn [filter fst].
    assert (Ea : existsb (N.eqb a) uids = false).
    { destruct (existsb (N.eqb a) uids) eqn:Ex; [|reflexivity].
      apply existsb_exists in Ex as [u [Hu Hau]]. apply N.eqb_eq in Hau. subst u.
      specialize (Hgt a Hu). specialize (Hold a (or_introl eq_refl)). lia. }
    rewrite Ea. cbn [negb]. rewrite IH; [reflexivity|].
    intros u Hu. apply Hold. right. exact Hu. }
  assert (E2 : filter (fun e => negb (existsb (N.eqb (fst e)) uids)) news = []).
  { assert (Hall : forall e, In e news -> negb (existsb (N.eqb (fst e)) uids) = false).
    { intros e He. apply negb_false_iff. apply existsb_exists. exists (fst e).
      split; [rewrite <- Hn; apply in_map; exact He|apply N.eqb_refl]. }
    clear - Hall. induction news as [|e l IH]; [reflexivity|]. cbn [filter].
    rewrite (Hall e (or_introl eq_refl)). apply IH. intros e' He'. apply Hall. right. exact He'. }
  rewrite E1, E2. apply app_nil_r.
Qed.

(* a multi-message APPEND that does not end in OK leaves every mailbox with
   exactly the messages it had: all-or-nothing *)
Theorem multiappend_all_or_nothing s b cids fault :
  good s ->
  let r := run_dcmd s (DAppend b cids) fault in
  r_resp r <> ROk -> forall b2, msgs_of (r_store r) b2 = msgs_of s b2.
Proof.
  intros G. cbn [run_dcmd].
  destruct (get_box s b) as [x|] eqn:E; [|cbn; reflexivity].
  pose proof (append_loop_shape s b cids fault x E) as H.
  destruct (append_loop s b cids fault) as [[[s1 tr] uids] f].
  destruct H as [news [Hm [Hu [Hgt Hne]]]].
  destruct f; cbn [r_resp r_store]; [|congruence].
  intros _ b2.
  destruct uids as [|u0 ur] eqn:EU.
  - destruct news; [|discriminate]. rewrite Hm, app_nil_r.
    destruct (N.eqb_spec b2 b) as [->|_]; [unfold msgs_of; rewrite E|]; reflexivity.
  - rewrite <- EU in *. unfold st_delete.
    destruct (get_box s1 b) as [y|] eqn:Ey; [|contradiction].
    unfold msgs_of at 1. rewrite (get_set _ _ _ _ _ Ey).
    destruct (N.eqb_spec b2 b) as [->|Hn].
    + cbn [b_msgs]. assert (Ey' : b_msgs y = b_msgs x ++ news).
      { specialize (Hm b). rewrite N.eqb_refl in Hm. unfold msgs_of in Hm.
        rewrite Ey in Hm. exact Hm. }
      rewrite Ey'. destruct (G _ _ E) as [_ Hle].
      rewrite (filter_old_new _ _ _ (b_max x) Hle Hu Hgt).
      unfold msgs_of. rewrite E. reflexivity.
    + specialize (Hm b2). destruct (N.eqb_spec b2 b); [contradiction|].
      unfold msgs_of in Hm. exact Hm.
Qed.

(* the same command without a fault stores all its messages, in order *)
Theorem multiappend_ok_all s b cids x :
  get_box s b = Some x ->
  let r := run_dcmd s (DAppend b cids) None in
  r_resp r = ROk /\ map snd (msgs_of (r_store r) b) = map snd (b_msgs x) ++ cids.
Proof.
  intros E. cbn [run_dcmd]. rewrite E.
  assert (H : forall s x, get_box s b = Some x ->
     let '(s', _, _, f) := append_loop s b cids None in
     f = false /\ map snd (msgs_of s' b) = map snd (b_msgs x) ++ cids).
  { clear. induction cids as [|c r IH]; intros s x E; cbn [append_loop fires].
    - split; [reflexivity|]. unfold msgs_of. rewrite E, app_nil_r. reflexivity.
    - unfold st_append at 1. rewrite E.
      set (x1 := {| b_max := b_max x + 1; b_msgs := b_msgs x ++ [(b_max x + 1, c)] |}).
      specialize (IH (set_box s b x1) x1 (get_set_same _ _ _ _ E)). cbn [tick].
      destruct (append_loop (set_box s b x1) b r None) as [[[s2 tr] uids] f].
      destruct IH as [-> Hm]. split; [reflexivity|]. rewrite Hm. unfold x1. cbn [b_msgs].
      rewrite map_app, <- app_assoc. reflexivity. }
  specialize (H s x E). destruct (append_loop s b cids None) as [[[s1 tr] uids] f].
  destruct H as [-> Hm]. cbn [r_resp r_store]. split; [reflexivity|exact Hm].
Qed.

(* a command answered NO or BAD has changed nothing *)
Theorem no_bad_no_effect s c fault :
  let r := run_dcmd s c fault in
  (r_resp r = RNo \/ r_resp r = RBad) -> r_store r = s /\ r_trace r = [].
Proof.
  destruct c as [b cids|src uids dst|src uids dst|b uids|]; cbn [run_dcmd].
  - destruct (get_box s b); [|cbn; auto].
    destruct (append_loop s b cids fault) as [[[s1 tr] uids] f].
    destruct f; cbn [r_resp]; intros [H|H]; discriminate.
  - destruct (get_box s src), (get_box s dst); try (cbn; auto; fail).
    destruct (copy_loop false s src (known_uids s src uids) dst fault) as [[s1 tr] f].
    destruct f; cbn [r_resp]; intros [H|H]; discriminate.
  - destruct (get_box s src), (get_box s dst); try (cbn; auto; fail).
    destruct (copy_loop true s src (known_uids s src uids) dst fault) as [[s1 tr] f].
    destruct f; cbn [r_resp]; intros [H|H]; discriminate.
  - destruct (get_box s b); [|cbn; auto].
    destruct (fires fault); cbn [r_resp]; intros [H|H]; discriminate.
  - cbn. auto.
Qed.

(* a cancelled connection or a dropped client (which can only land between
   two commands) leaves the store as it is *)
Theorem cancel_drop_no_effect s : step s LCancel = s /\ step s LDrop = s.
Proof. split; reflexivity. Qed.

(* well-formedness (distinct uids, none above the counter) is kept by every
   label, faults included: the theorems above apply in every reachable state *)
Lemma append_loop_good s b cids fault :
  good s -> let '(s', _, _, _) := append_loop s b cids fault in good s'.
Proof.
  revert s fault. induction cids as [|c r IH]; intros s fault G; cbn [append_loop]; [exact G|].
  destruct (fires fault); [exact G|].
  pose proof (st_append_good s b c G) as G1. destruct (st_append s b c) as [s1 uid]. cbn [fst] in G1.
  specialize (IH s1 (tick fault) G1).
  destruct (append_loop s1 b r (tick fault)) as [[[s2 tr] uids] f]. exact IH.
Qed.

Lemma copy_loop_good mv s src uids dst fault :
  good s -> let '(s', _, _) := copy_loop mv s src uids dst fault in good s'.
Proof.
  revert s fault. induction uids as [|u r IH]; intros s fault G; cbn [copy_loop]; [exact G|].
  destruct (fires fault); [exact G|].
  assert (G1 : good (if mv then st_move s src u dst else st_copy s src u dst)).
  { destruct mv; [apply st_move_good|apply st_copy_good]; exact G. }
  specialize (IH _ (tick fault) G1).
  destruct (copy_loop mv (if mv then st_move s src u dst else st_copy s src u dst) src r dst
                      (tick fault)) as [[s2 tr] f]. exact IH.
Qed.

Theorem step_good s l : good s -> good (step s l).
Proof.
  intros G. destruct l as [c fault| |]; cbn [step]; [|exact G|exact G].
  destruct c as [b cids|src uids dst|src uids dst|b uids|]; cbn [run_dcmd].
  - destruct (get_box s b); [|exact G].
    pose proof (append_loop_good s b cids fault G) as H.
    destruct (append_loop s b cids fault) as [[[s1 tr] uids] f].
    destruct f; cbn [r_store]; [|exact H]. destruct uids; [exact H|].
    apply st_delete_good. exact H.
  - destruct (get_box s src), (get_box s dst); try exact G.
    pose proof (copy_loop_good false s src (known_uids s src uids) dst fault G) as H.
    destruct (copy_loop false s src (known_uids s src uids) dst fault) as [[s1 tr] f]. exact H.
  - destruct (get_box s src), (get_box s dst); try exact G.
    pose proof (copy_loop_good true s src (known_uids s src uids) dst fault G) as H.
    destruct (copy_loop true s src (known_uids s src uids) dst fault) as [[s1 tr] f]. exact H.
  - destruct (get_box s b); [|exact G]. destruct (fires fault); [exact G|].
    cbn [r_store]. apply st_delete_good. exact G.
  - exact G.
Qed.

Theorem reachable_good s ls : good s -> good (fold_left step ls s).
Proof. revert s. induction ls as [|l ls IH]; intros s G; [exact G|].
  cbn [fold_left]. apply IH. apply step_good. exact G. Qed.

(* after a MOVE answered OK none of the moved uids is left in the source *)
Lemma find_drop_same l u : find_msg (drop_msg l u) u = None.
Proof.
  unfold drop_msg. induction l as [|[a c] l IH]; cbn [filter find_msg fst]; [reflexivity|].
  destruct (N.eqb_spec a u) as [->|Hn]; cbn [negb]; [exact IH|].
  cbn [find_msg]. destruct (N.eqb_spec a u); [contradiction|exact IH].
Qed.

Lemma find_drop_other l v u : find_msg l u = None -> find_msg (drop_msg l v) u = None.
Proof.
  unfold drop_msg. induction l as [|[a c] l IH]; cbn [filter find_msg fst]; [reflexivity|].
  destruct (N.eqb_spec a u) as [->|Hn]; [discriminate|]. intro H.
  destruct (negb (a =? v)); cbn [find_msg]; [|exact (IH H)].
  destruct (N.eqb_spec a u); [contradiction|exact (IH H)].
Qed.

Lemma drop_absent l v : find_msg l v = None -> drop_msg l v = l.
Proof.
  unfold drop_msg. induction l as [|[a c] l IH]; cbn [filter find_msg fst]; [reflexivity|].
  destruct (N.eqb_spec a v) as [->|Hn]; [discriminate|]. intro H. cbn [negb]. rewrite (IH H).
  reflexivity.
Qed.

Lemma st_move_src s src v dst : src <> dst ->
  msgs_of (st_move s src v dst) src = drop_msg (msgs_of s src) v.
Proof.
  intro Hn. unfold st_move, msgs_of.
  destruct (get_box s src) as [x|] eqn:E; [|rewrite E; reflexivity].
  destruct (find_msg (b_msgs x) v) as [cid|] eqn:F.
  - set (x' := {| b_max := b_max x; b_msgs := drop_msg (b_msgs x) v |}).
    assert (Hs : get_box (fst (st_append (set_box s src x') dst cid)) src = Some x').
    { unfold st_append. destruct (get_box (set_box s src x') dst) as [y|] eqn:Ey; cbn [fst].
      - rewrite (get_set _ _ _ _ _ Ey). destruct (N.eqb_spec src dst); [contradiction|].
        exact (get_set_same _ _ _ _ E).
      - exact (get_set_same _ _ _ _ E). }
    rewrite Hs. reflexivity.
  - rewrite E. symmetry. exact (drop_absent _ _ F).
Qed.

Lemma move_loop_leaves s src uids dst : src <> dst ->
  let '(s', _, _) := copy_loop true s src uids dst None in
  forall u, In u uids \/ find_msg (msgs_of s src) u = None ->
            find_msg (msgs_of s' src) u = None.
Proof.
  intro Hn. revert s. induction uids as [|v r IH]; intro s; cbn [copy_loop fires tick].
  - intros u [[]|H]. exact H.
  - specialize (IH (st_move s src v dst)).
    destruct (copy_loop true (st_move s src v dst) src r dst None) as [[s2 tr] f].
    intros u H. apply IH. rewrite (st_move_src _ _ _ _ Hn).
    destruct H as [[<-|H]|H].
    + right. apply find_drop_same.
    + left. exact H.
    + right. exact (find_drop_other _ _ _ H).
Qed.

Theorem move_ok_leaves_source s src uids dst :
  src <> dst ->
  let r := run_dcmd s (DMove src uids dst) None in
  r_resp r = ROk -> forall u, In u uids -> find_msg (msgs_of (r_store r) src) u = None.
Proof.
  intros Hn. cbn [run_dcmd].
  destruct (get_box s src) as [xs|] eqn:Es; [|cbn; discriminate].
  destruct (get_box s dst) as [xd|] eqn:Ed; [|cbn; discriminate].
  pose proof (move_loop_leaves s src (known_uids s src uids) dst Hn) as H.
  destruct (copy_loop true s src (known_uids s src uids) dst None) as [[s1 tr] f].
  cbn [r_store]. intros _ u Hu. apply H.
  destruct (has_msg s src u) eqn:Hk.
  - left. unfold known_uids. apply filter_In. split; assumption.
  - right. unfold has_msg in Hk. unfold msgs_of. rewrite Es in *.
    destruct (find_msg (b_msgs xs) u); [discriminate|reflexivity].
Qed.

(* ------------------------------------------------------------ examples *)
Definition ex_store : store :=
  [ (1, {| b_max := 104; b_msgs := [(101, 11); (102, 12); (103, 13); (104, 14)] |});
    (2, {| b_max := 100; b_msgs := [] |}) ].

Example ex_store_good : good ex_store.
Proof.
  intros b x H. unfold ex_store in H. cbn [get_box] in H.
  destruct (1 =? b); [injection H as <-|].
  - split; cbn.
    + repeat constructor; cbn; intuition discriminate.
    + intros u [<-|[<-|[<-|[<-|[]]]]]; lia.
  - destruct (2 =? b); [injection H as <-|discriminate]. split; cbn; [constructor|intros u []].
Qed.

(* the fault in the middle of a MOVE of two messages: one is in the
   destination, the other still in the source *)
Example ex_move_fault :
  let r := run_dcmd ex_store (DMove 1 [101; 103] 2) (Some 1%nat) in
  r_resp r = RBye /\ map snd (msgs_of (r_store r) 1) = [12; 13; 14]
  /\ map snd (msgs_of (r_store r) 2) = [11].
Proof. vm_compute. repeat split; reflexivity. Qed.

(* the fault at the third message of a three-message APPEND: nothing stays *)
Example ex_append_fault :
  let r := run_dcmd ex_store (DAppend 2 [21; 22; 23]) (Some 2%nat) in
  r_resp r = RBye /\ msgs_of (r_store r) 2 = [] /\ length (r_trace r) = 3%nat.
Proof. vm_compute. repeat split; reflexivity. Qed.
