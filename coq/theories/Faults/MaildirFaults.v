(* Faults/MaildirFaults.v — a filesystem operation of a maildir command fails
   with an OSError (ENOSPC, EIO, EACCES) while the server keeps running.

   The operation list of every command is MaildirFS/Ops.run_cmd.  When its
   k-th operation raises, the operations before it have been executed and the
   exception travels through the `with` / `try` blocks of the code, which
   perform clean-up operations of their own:

   * stdlib mailbox.Maildir.add: the tmp/ file is removed when writing the
     message or linking it fails; when removing the tmp/ name after the link
     fails the removal is tried once more (the delivered file stays);
   * pymap.concurrent.FileLock.write_lock (io._FileWriteWith.__aexit__ runs it
     in a `finally`): the lock file taken by the interrupted update is removed;
   * MailboxData.append / copy: the file just delivered is removed again when
     its uid-list record could not be written (fix of finding C14-F3);
   * BaseSession.append_messages: the messages of the same APPEND that were
     already stored are deleted again (all-or-nothing; fix 5c81882).

   A temporary file of a control-file rewrite (NamedTemporaryFile,
   delete=False) and a tmp/ file whose utime failed are left behind: scratch
   paths nothing looks at.  The client is answered BYE [SERVERBUG]: OSError is
   not mapped to a tagged response.  FileLock._unlock swallows an OSError of
   the lock file's own removal and the command goes on: that position is not
   modelled ([fault_cmd] answers None there).

   Definitions only; proofs in MaildirFaultsProofs.v. *)
From PV Require Import Base.Prelude Base.Decimal MaildirFS.FS MaildirFS.UidList MaildirFS.Ops.

Inductive fresp := FOk | FNo | FBad | FBye | FNone.
Definition fresp_eqb (a b : fresp) : bool :=
  match a, b with
  | FOk, FOk | FNo, FNo | FBad, FBad | FBye, FBye | FNone, FNone => true
  | _, _ => false
  end.

Definition is_lock (p : path) : bool :=
  match p with PCtl _ CUidlLock | PCtl _ CSubsLock => true | _ => false end.

(* the lock file held after a list of operations: taken and not yet removed *)
Definition lock_step (h : option path) (o : fsop) : option path :=
  match o with
  | OCreat p => if is_lock p then Some p else h
  | OUnlink p => if is_lock p then None else h
  | _ => h
  end.
Definition held_lock (l : list fsop) : option path := fold_left lock_step l None.

(* message files delivered by a list of operations: the one whose uid-list
   record has not been installed yet (pending), and the recorded ones *)
Definition deliv_step (st : option path * list path) (o : fsop) : option path * list path :=
  match o with
  | OLink _ (PMsg g s k i) => (Some (PMsg g s k i), snd st)
  | ORename (PTmp _ _) (PCtl _ CUidl) =>
      match fst st with
      | Some q => (None, snd st ++ [q])
      | None => st
      end
  | _ => st
  end.
Definition delivered (l : list fsop) : option path * list path :=
  fold_left deliv_step l (None, []).

(* what Maildir.add itself undoes when its operation o fails *)
Definition local_cleanup (o : fsop) : list fsop :=
  match o with
  | OWrite (PMsg f STmp k i) _ => [OUnlink (PMsg f STmp k i)]
  | OLink (PMsg f STmp k i) _ => [OUnlink (PMsg f STmp k i)]
  | OUnlink (PMsg f STmp k i) => [OUnlink (PMsg f STmp k i)]
  | _ => []
  end.

Definition in_add (o : fsop) : bool :=
  match o with OUnlink (PMsg _ STmp _ _) => true | _ => false end.

(* the operations performed on the exception path when operation o fails
   after the operations pre; rb: the command is an APPEND still inside its
   message loop (roll-back of the messages stored so far) *)
Definition cleanup (rb : bool) (pre : list fsop) (o : fsop) : list fsop :=
  local_cleanup o
  ++ match held_lock pre with Some p => [OUnlink p] | None => [] end
  ++ match fst (delivered pre) with
     | Some q => if in_add o then [] else [OUnlink q]
     | None => []
     end
  ++ (if rb then map OUnlink (snd (delivered pre)) else []).

Definition unlock_fault (o : fsop) : bool :=
  match o with OUnlink p => is_lock p | _ => false end.

Definition rollback_applies (lay : layout) (m : fs) (sel : selection) (c : cmd) (k : nat) : bool :=
  match c with
  | CAppend f _ =>
      Nat.ltb k (length (o_ops (run_cmd lay m sel c)) - length (tail_ops sel (Some f)))
  | _ => false
  end.

Record foutcome := { f_ops : list fsop; f_resp : fresp }.

(* the k-th operation of a list fails *)
Definition fault_ops (rb : bool) (ops : list fsop) (k : nat) : option (list fsop) :=
  match nth_error ops k with
  | None => None
  | Some o => if unlock_fault o then None
              else Some (firstn k ops ++ cleanup rb (firstn k ops) o)
  end.

(* command c, started in state m, with its k-th operation failing: None when
   the command has no such operation, is refused anyway, or the position is
   the removal of a lock file *)
Definition fault_cmd (lay : layout) (m : fs) (sel : selection) (c : cmd) (k : nat)
  : option foutcome :=
  let o := run_cmd lay m sel c in
  match o_ack o with
  | AOk =>
      match fault_ops (rollback_applies lay m sel c k) (o_ops o) k with
      | Some l => Some {| f_ops := l; f_resp := FBye |}
      | None => None
      end
  | _ => None
  end.

Definition fault_state (lay : layout) (m : fs) (l : list fsop) : fs := fst (apply_ops lay m l).

(* no lock file anywhere *)
Definition no_locks_b (m : fs) : bool := forallb (fun e => negb (is_lock (fst e))) m.

(* the delivered message files of a state, as (path, content) pairs *)
Definition live_files (m : fs) : list (path * node) :=
  filter (fun e => match fst e with
                   | PMsg _ s _ _ => negb (sub_eqb s STmp)
                   | _ => false
                   end) m.

(* ---- the lock-file discipline of an operation list: a lock file is taken
   only when none is held, only the held one is removed, no rename or link
   produces a lock path, directories are renamed only while no lock is held *)
Definition step_ok (h : option path) (o : fsop) : bool :=
  match o with
  | OCreat p => if is_lock p then match h with None => true | Some _ => false end else true
  | OUnlink p => if is_lock p then match h with Some q => path_eqb p q | None => false end
                 else true
  | ORename _ q | OLink _ q => negb (is_lock q)
  | ORenameDir _ _ => match h with None => true | Some _ => false end
  | _ => true
  end.

Fixpoint steps_ok (h : option path) (l : list fsop) : bool :=
  match l with
  | [] => true
  | o :: r => step_ok h o && steps_ok (lock_step h o) r
  end.

Definition brackets (l : list fsop) : bool :=
  steps_ok None l && match held_lock l with None => true | Some _ => false end.

(* ---- the deliveries of an operation list are tracked by [delivered]: a
   message is linked only when the previous one has been recorded, and no
   other operation creates, renames or removes a delivered file *)
Definition is_live (p : path) : bool :=
  match p with PMsg _ s _ _ => negb (sub_eqb s STmp) | _ => false end.

Definition track_ok (st : option path * list path) (o : fsop) : bool :=
  match o with
  | OLink p q => negb (is_live p) && match q with
                                     | PMsg _ _ _ _ => match fst st with None => true | _ => false end
                                     | _ => false
                                     end
  | OUnlink p | OCreat p | OWrite p _ | OMkdir p | ORmdir p | OUtime p => negb (is_live p)
  | ORename p q => negb (is_live p) && negb (is_live q)
  | ORenameDir _ _ => false
  end.

Fixpoint tracked (st : option path * list path) (l : list fsop) : bool :=
  match l with
  | [] => true
  | o :: r => track_ok st o && tracked (deliv_step st o) r
  end.

Definition opens (st : option path * list path) : list path :=
  snd st ++ match fst st with Some q => [q] | None => [] end.

(* ---- a concrete faulted MULTIAPPEND (witnesses, non-vacuity): INBOX holds
   one acknowledged message; APPEND INBOX m2 m3 fails at its k-th operation *)
From PV Require Import MaildirFS.Examples.

Definition exf_m : fs := ex_state ex_first_len.
Definition exf_cmd : cmd := CAppend [] [ex_msg 2%N []; ex_msg 3%N [70%N]].
Definition exf_len : nat := length (o_ops (run_cmd LPlus exf_m None exf_cmd)).

(* the content ids a fresh session is served from INBOX after the fault at k
   (None: position not modelled — the removal of the lock file) *)
Definition exf_view (k : nat) : option (list N) :=
  match fault_cmd LPlus exf_m None exf_cmd k with
  | Some fo => Some (served_cids (recover_folder (fault_state LPlus exf_m (f_ops fo)) []))
  | None => None
  end.
