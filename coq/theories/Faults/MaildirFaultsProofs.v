(* Faults/MaildirFaultsProofs.v — proofs about Faults/MaildirFaults.v: what a
   maildir command leaves behind when one of its filesystem operations fails
   with an OSError and the server keeps running. *)
From PV Require Import Base.Prelude Base.Decimal MaildirFS.FS MaildirFS.UidList MaildirFS.Ops
  MaildirFS.Spec MaildirFS.FSProofs MaildirFS.UidListProofs MaildirFS.DurabilityProofs
  MaildirFS.Legal MaildirFS.LegalProofs MaildirFS.CrashProofs MaildirFS.CommandProofs
  Faults.MaildirFaults.
Local Open Scope N_scope.

(* ------------------------------------------------ the clean-up is legal *)
Definition is_msg (p : path) : bool := match p with PMsg _ _ _ _ => true | _ => false end.

Definition free_unlink (o : fsop) : bool :=
  match o with
  | OUnlink p => is_lock p || is_msg p
  | _ => false
  end.

Lemma free_unlink_legal lay m o : free_unlink o = true -> legal_b lay m o = true.
Proof.
  destruct o as [| | | | | | |p|]; try discriminate. cbn [free_unlink legal_b].
  destruct p as [f|f s|f s k i|f c|f n]; cbn [is_lock is_msg junk orb]; try discriminate.
  - intros _. destruct (live s); reflexivity.
  - destruct c; cbn [orb]; try discriminate; reflexivity.
Qed.

Lemma free_list_legal lay l : forallb free_unlink l = true ->
  forall m, legal_ops_b lay m l = true.
Proof.
  induction l as [|o l IH]; intros H m; [reflexivity|].
  cbn [forallb] in H. apply andb_true_iff in H as [H1 H2].
  cbn [legal_ops_b]. rewrite (free_unlink_legal lay m o H1). cbn [andb].
  destruct (apply_op lay m o); [exact (IH H2 _)|reflexivity].
Qed.

Lemma lock_step_is_lock h o :
  (forall p, h = Some p -> is_lock p = true) ->
  forall p, lock_step h o = Some p -> is_lock p = true.
Proof.
  intros Hh p. destruct o; cbn [lock_step]; try exact (Hh p).
  - destruct (is_lock p0) eqn:E; [|exact (Hh p)]. intro H. injection H as <-. exact E.
  - destruct (is_lock p0); [discriminate|exact (Hh p)].
Qed.

Lemma fold_lock_is_lock l : forall h,
  (forall p, h = Some p -> is_lock p = true) ->
  forall p, fold_left lock_step l h = Some p -> is_lock p = true.
Proof.
  induction l as [|o l IH]; intros h Hh p; cbn [fold_left]; [exact (Hh p)|].
  apply IH. exact (lock_step_is_lock h o Hh).
Qed.

Lemma held_lock_is_lock l p : held_lock l = Some p -> is_lock p = true.
Proof. apply fold_lock_is_lock. intros q E. discriminate E. Qed.

Definition st_msgs (st : option path * list path) : Prop :=
  (forall q, fst st = Some q -> is_msg q = true) /\ forallb is_msg (snd st) = true.

Lemma deliv_step_msgs st o : st_msgs st -> st_msgs (deliv_step st o).
Proof.
  intros [H1 H2]. destruct o as [| | | |p q| |p q| |]; try (split; assumption).
  - destruct p; try (split; assumption). destruct q as [| | |? c0|]; try (split; assumption).
    destruct c0; try (split; assumption). cbn [deliv_step].
    destruct (fst st) as [x|] eqn:E;
      [|split; [intros q0 D; rewrite E in D; discriminate D|exact H2]].
    split; [intros ? D; discriminate D|]. cbn [snd]. rewrite forallb_app, H2. cbn [forallb].
    rewrite (H1 x eq_refl). reflexivity.
  - destruct q; try (split; assumption). cbn [deliv_step]. split; [|exact H2].
    cbn [fst]. intros q0 E. injection E as <-. reflexivity.
Qed.

Lemma fold_deliv_msgs l : forall st, st_msgs st -> st_msgs (fold_left deliv_step l st).
Proof.
  induction l as [|o l IH]; intros st H; [exact H|]. cbn [fold_left].
  apply IH. exact (deliv_step_msgs st o H).
Qed.

Lemma delivered_msgs l : st_msgs (delivered l).
Proof. apply fold_deliv_msgs. split; [intros q E; discriminate E|reflexivity]. Qed.

Lemma msgs_free l : forallb is_msg l = true -> forallb free_unlink (map OUnlink l) = true.
Proof.
  induction l as [|p l IH]; [reflexivity|]. cbn [forallb map free_unlink].
  intro H. apply andb_true_iff in H as [H1 H2]. rewrite H1, orb_true_r. exact (IH H2).
Qed.

Lemma cleanup_free rb pre o : forallb free_unlink (cleanup rb pre o) = true.
Proof.
  unfold cleanup. rewrite !forallb_app.
  destruct (delivered_msgs pre) as [D1 D2].
  repeat (apply andb_true_iff; split).
  - destruct o as [| | |p c|p q| |p q|p|]; try reflexivity;
      destruct p as [|? ?|f s k i|? ?|? ?]; try reflexivity; destruct s; reflexivity.
  - destruct (held_lock pre) as [p|] eqn:E; [|reflexivity].
    cbn [forallb free_unlink]. rewrite (held_lock_is_lock _ _ E). reflexivity.
  - destruct (fst (delivered pre)) as [q|] eqn:E; [|reflexivity].
    destruct (in_add o); [reflexivity|]. cbn [forallb free_unlink].
    rewrite (D1 q eq_refl), orb_true_r. reflexivity.
  - destruct rb; [|reflexivity]. exact (msgs_free _ D2).
Qed.

(* every operation of a faulted command — before the fault and on the
   exception path — is of a legal kind in the state it is applied to *)
Theorem fault_cmd_legal lay m sel c k fo :
  Inv m -> fault_cmd lay m sel c k = Some fo -> legal_ops_b lay m (f_ops fo) = true.
Proof.
  intros I H. unfold fault_cmd in H.
  destruct (o_ack (run_cmd lay m sel c)); try discriminate.
  destruct (fault_ops _ _ k) as [l|] eqn:E; [|discriminate]. injection H as <-. cbn [f_ops].
  unfold fault_ops in E. destruct (nth_error _ k) as [o|]; [|discriminate].
  destruct (unlock_fault o); [discriminate|]. injection E as <-.
  apply legal_ops_b_app.
  - exact (legal_ops_b_crash _ _ _ k (run_cmd_legal lay m sel c I)).
  - intros _. apply free_list_legal. apply cleanup_free.
Qed.

Theorem fault_cmd_inv lay m sel c k fo :
  Inv m -> fault_cmd lay m sel c k = Some fo -> Inv (fault_state lay m (f_ops fo)).
Proof. intros I H. exact (apply_ops_inv _ _ _ I (fault_cmd_legal _ _ _ _ _ _ I H)). Qed.

(* the file of a message that the faulted command does not unlink exists in
   some folder afterwards, and in one only *)
Lemma after_all lay m l : after_crash lay m l (length l) = fault_state lay m l.
Proof. unfold after_crash, crash, fault_state. rewrite firstn_all. reflexivity. Qed.

Theorem fault_file_conserved lay m sel c k fo key :
  Inv m -> fault_cmd lay m sel c k = Some fo ->
  (exists f i cid, file_at m f key i cid) ->
  (forall o, In o (f_ops fo) -> forall s f i, o <> OUnlink (PMsg f s key i) \/ live s = false) ->
  exists f i cid, file_at (fault_state lay m (f_ops fo)) f key i cid.
Proof.
  intros I H E Hno. rewrite <- after_all.
  exact (move_file_conserved lay m _ _ key I (fault_cmd_legal _ _ _ _ _ _ I H) E Hno).
Qed.

Theorem fault_file_once lay m sel c k fo key f i cid f' i' cid' :
  Inv m -> fault_cmd lay m sel c k = Some fo ->
  file_at (fault_state lay m (f_ops fo)) f key i cid ->
  file_at (fault_state lay m (f_ops fo)) f' key i' cid' ->
  f = f' /\ i = i' /\ cid = cid'.
Proof.
  intros I H. rewrite <- after_all.
  exact (move_file_once lay m _ _ key f i cid f' i' cid' I (fault_cmd_legal _ _ _ _ _ _ I H)).
Qed.

(* ------------------------------------------------ the lock file is released *)
(* the only lock file present is the one the operation list holds *)
Definition only_lock (h : option path) (m : fs) : Prop :=
  forall p, is_lock p = true -> lookup m p <> None -> h = Some p.

Lemma is_lock_move lay a b p : is_lock (move_path lay a b p) = is_lock p.
Proof.
  unfold move_path. destruct (moved_folder lay a b (folder_of p)); [|reflexivity].
  destruct p; reflexivity.
Qed.

Lemma lock_not_dir p : is_lock p = true -> is_dir_path p = false.
Proof. destruct p; try discriminate; reflexivity. Qed.

Lemma only_lock_shrink h m m' :
  (forall p, is_lock p = true -> lookup m' p <> None -> lookup m p <> None) ->
  only_lock h m -> only_lock h m'.
Proof. intros H O p Hp Hl. exact (O p Hp (H p Hp Hl)). Qed.

Lemma lock_step_sound lay m o m' h :
  NoDup (map fst m) -> apply_op lay m o = Some m' -> step_ok h o = true ->
  only_lock h m -> only_lock (lock_step h o) m'.
Proof.
  intros Hnd A S O. destruct o as [p0|p0|p0|p0 c|p0 q|a b|p0 q|p0|p0]; cbn [lock_step step_ok] in *.
  - (* mkdir *) apply (only_lock_shrink h m); [|exact O]. intros p Hp Hl.
    cbn [apply_op] in A. destruct (is_dir_path p0) eqn:G; [|discriminate A]. cbn [andb] in A.
    destruct (negb (exists_ m p0) && parent_ok m p0); [|discriminate A]. injection A as <-.
    rewrite lookup_add in Hl. destruct (path_eqb p0 p) eqn:E; [|exact Hl].
    apply path_eqb_eq in E. subst p0. rewrite (lock_not_dir p Hp) in G. discriminate G.
  - (* rmdir *) apply (only_lock_shrink h m); [|exact O]. intros p Hp Hl.
    cbn [apply_op] in A. destruct (lookup m p0) as [[|c]|]; try discriminate A.
    destruct (existsb _ m); [discriminate A|]. injection A as <-.
    rewrite lookup_remove in Hl. destruct (path_eqb p0 p); [congruence|exact Hl].
  - (* creat *)
    cbn [apply_op] in A.
    destruct (negb (is_dir_path p0) && negb (exists_ m p0) && parent_ok m p0); [|discriminate A].
    injection A as <-. destruct (is_lock p0) eqn:L.
    + destruct h; [discriminate S|]. intros p Hp Hl. rewrite lookup_add in Hl.
      destruct (path_eqb p0 p) eqn:E; [apply path_eqb_eq in E; subst; reflexivity|].
      pose proof (O p Hp Hl) as X. discriminate X.
    + apply (only_lock_shrink h m); [|exact O]. intros p Hp Hl. rewrite lookup_add in Hl.
      destruct (path_eqb p0 p) eqn:E; [|exact Hl]. apply path_eqb_eq in E. subst. congruence.
  - (* write *) apply (only_lock_shrink h m); [|exact O]. intros p Hp Hl.
    cbn [apply_op] in A. destruct (lookup m p0) as [[|c']|] eqn:E; try discriminate A.
    injection A as <-. rewrite (lookup_replace _ _ _ _ _ E) in Hl.
    destruct (path_eqb p0 p) eqn:E2; [|exact Hl]. apply path_eqb_eq in E2. subst. congruence.
  - (* rename *) apply (only_lock_shrink h m); [|exact O]. intros p Hp Hl.
    destruct (apply_rename _ _ _ _ _ A) as [c [_ Hr]]. rewrite Hr in Hl.
    destruct (path_eqb q p) eqn:E.
    + apply path_eqb_eq in E. subst. rewrite Hp in S. discriminate S.
    + destruct (path_eqb p0 p); [congruence|exact Hl].
  - (* rename of a directory *)
    destruct h; [discriminate S|]. intros p Hp Hl.
    destruct (lookup m' p) as [n|] eqn:E; [|congruence].
    destruct (renamedir_backward _ _ _ _ _ _ _ Hnd A E) as [p1 [H1 H2]].
    assert (L1 : is_lock p1 = true) by (rewrite <- (is_lock_move lay a b p1), H2; exact Hp).
    assert (X : lookup m p1 <> None) by congruence.
    pose proof (O p1 L1 X) as Y. discriminate Y.
  - (* link *) apply (only_lock_shrink h m); [|exact O]. intros p Hp Hl.
    destruct (apply_link _ _ _ _ _ A) as [c [_ [_ Hr]]]. rewrite Hr in Hl.
    destruct (path_eqb q p) eqn:E; [|exact Hl].
    apply path_eqb_eq in E. subst. rewrite Hp in S. discriminate S.
  - (* unlink *)
    pose proof (apply_unlink _ _ _ _ A) as Hr. destruct (is_lock p0) eqn:L.
    + destruct h as [q0|]; [|discriminate S]. apply path_eqb_eq in S. subst q0.
      intros p Hp Hl. rewrite Hr in Hl. destruct (path_eqb p0 p) eqn:E; [congruence|].
      pose proof (O p Hp Hl) as X. injection X as ->. rewrite path_eqb_refl in E. discriminate E.
    + apply (only_lock_shrink h m); [|exact O]. intros p Hp Hl. rewrite Hr in Hl.
      destruct (path_eqb p0 p); [congruence|exact Hl].
  - (* utime *) cbn [apply_op] in A. destruct (exists_ m p0); [|discriminate A].
    injection A as <-. exact O.
Qed.

Lemma only_lock_run lay l : forall m h,
  Inv m -> legal_ops_b lay m l = true -> steps_ok h l = true -> only_lock h m ->
  snd (apply_ops lay m l) = true ->
  only_lock (fold_left lock_step l h) (fst (apply_ops lay m l)).
Proof.
  induction l as [|o l IH]; intros m h I HL S O A; [exact O|].
  cbn [legal_ops_b steps_ok apply_ops fold_left] in *.
  apply andb_true_iff in HL as [L1 L2]. apply andb_true_iff in S as [S1 S2].
  destruct (apply_op lay m o) as [m1|] eqn:E; [|discriminate A].
  apply IH; try assumption.
  - exact (legal_step_inv _ _ _ _ I (legal_b_sound _ _ _ L1) E).
  - exact (lock_step_sound lay m o m1 h (inv_nodup _ I) E S1 O).
Qed.

Lemma steps_ok_app l1 : forall h l2,
  steps_ok h (l1 ++ l2) = steps_ok h l1 && steps_ok (fold_left lock_step l1 h) l2.
Proof.
  induction l1 as [|o l1 IH]; intros h l2; [reflexivity|].
  cbn [app steps_ok fold_left]. rewrite IH, andb_assoc. reflexivity.
Qed.

Lemma steps_ok_firstn k l h : steps_ok h l = true -> steps_ok h (firstn k l) = true.
Proof.
  intro H. rewrite <- (firstn_skipn k l), steps_ok_app in H.
  apply andb_true_iff in H as [H _]. exact H.
Qed.

(* operations that leave the lock state alone *)
Definition lock_neutral (o : fsop) : bool :=
  match o with OUnlink p => negb (is_lock p) | _ => false end.

Lemma neutral_steps l : forallb lock_neutral l = true ->
  forall h, steps_ok h l = true /\ fold_left lock_step l h = h.
Proof.
  induction l as [|o l IH]; intros H h; [split; reflexivity|].
  cbn [forallb] in H. apply andb_true_iff in H as [H1 H2].
  destruct o as [| | | | | | |p|]; try discriminate H1. cbn [lock_neutral] in H1.
  apply negb_true_iff in H1. cbn [steps_ok step_ok fold_left lock_step]. rewrite H1.
  cbn [andb]. exact (IH H2 h).
Qed.

Lemma msg_not_lock p : is_msg p = true -> is_lock p = false.
Proof. destruct p; try discriminate; reflexivity. Qed.

Lemma msgs_neutral l : forallb is_msg l = true -> forallb lock_neutral (map OUnlink l) = true.
Proof.
  induction l as [|p l IH]; [reflexivity|]. cbn [forallb map lock_neutral].
  intro H. apply andb_true_iff in H as [H1 H2]. rewrite (msg_not_lock p H1). exact (IH H2).
Qed.

Lemma cleanup_releases rb pre o :
  steps_ok (held_lock pre) (cleanup rb pre o) = true
  /\ fold_left lock_step (cleanup rb pre o) (held_lock pre) = None.
Proof.
  unfold cleanup. destruct (delivered_msgs pre) as [D1 D2].
  assert (N1 : forallb lock_neutral (local_cleanup o) = true).
  { destruct o as [| | |p c|p q| |p q|p|]; try reflexivity;
      destruct p as [|? ?|f s k i|? ?|? ?]; try reflexivity; destruct s; reflexivity. }
  assert (N3 : forallb lock_neutral
                 (match fst (delivered pre) with
                  | Some q => if in_add o then [] else [OUnlink q]
                  | None => []
                  end ++ (if rb then map OUnlink (snd (delivered pre)) else [])) = true).
  { rewrite forallb_app. apply andb_true_iff. split.
    - destruct (fst (delivered pre)) as [q|] eqn:E; [|reflexivity].
      destruct (in_add o); [reflexivity|]. cbn [forallb lock_neutral].
      rewrite (msg_not_lock q (D1 q eq_refl)). reflexivity.
    - destruct rb; [|reflexivity]. exact (msgs_neutral _ D2). }
  destruct (neutral_steps _ N1 (held_lock pre)) as [A1 A2].
  rewrite steps_ok_app, fold_left_app, A1, A2. cbn [andb].
  destruct (held_lock pre) as [p|] eqn:E.
  - pose proof (held_lock_is_lock _ _ E) as L.
    cbn [app steps_ok step_ok fold_left lock_step]. rewrite L, path_eqb_refl. cbn [andb].
    exact (neutral_steps _ N3 None).
  - cbn [app]. exact (neutral_steps _ N3 None).
Qed.

(* after a faulted command no lock file is left: the folder is not wedged *)
Theorem fault_lock_released lay m sel c k fo :
  Inv m -> (forall p, is_lock p = true -> lookup m p = None) ->
  steps_ok None (o_ops (run_cmd lay m sel c)) = true ->
  fault_cmd lay m sel c k = Some fo ->
  snd (apply_ops lay m (f_ops fo)) = true ->
  forall p, is_lock p = true -> lookup (fault_state lay m (f_ops fo)) p = None.
Proof.
  intros I N B H A p Hp.
  pose proof (fault_cmd_legal _ _ _ _ _ _ I H) as HL.
  unfold fault_cmd in H. destruct (o_ack (run_cmd lay m sel c)); try discriminate.
  destruct (fault_ops _ _ k) as [l|] eqn:E; [|discriminate]. injection H as <-.
  cbn [f_ops] in *. unfold fault_ops in E. destruct (nth_error _ k) as [o|]; [|discriminate].
  destruct (unlock_fault o); [discriminate|]. injection E as <-.
  set (pre := firstn k (o_ops (run_cmd lay m sel c))) in *.
  set (cl := cleanup _ pre o) in *.
  destruct (cleanup_releases (rollback_applies lay m sel c k) pre o) as [C1 C2]. fold cl in C1, C2.
  assert (S : steps_ok None (pre ++ cl) = true).
  { rewrite steps_ok_app. apply andb_true_iff. split; [exact (steps_ok_firstn k _ _ B)|exact C1]. }
  assert (O0 : only_lock None m).
  { intros q Hq Hl. rewrite (N q Hq) in Hl. congruence. }
  pose proof (only_lock_run lay (pre ++ cl) m None I HL S O0 A) as O.
  rewrite fold_left_app in O. fold (held_lock pre) in O. rewrite C2 in O.
  unfold fault_state. destruct (lookup (fst (apply_ops lay m (pre ++ cl))) p) eqn:X; [|reflexivity].
  assert (Y : lookup (fst (apply_ops lay m (pre ++ cl))) p <> None) by congruence.
  pose proof (O p Hp Y) as Z. discriminate Z.
Qed.

(* ---------------------- every command keeps the lock-file discipline *)
Definition closed (l : list fsop) : Prop :=
  steps_ok None l = true /\ fold_left lock_step l None = None.

Lemma closed_nil : closed [].
Proof. split; reflexivity. Qed.

Lemma closed_app a b : closed a -> closed b -> closed (a ++ b).
Proof.
  intros [A1 A2] [B1 B2]. split.
  - rewrite steps_ok_app, A1, A2. exact B1.
  - rewrite fold_left_app, A2. exact B2.
Qed.

Definition lock_free (o : fsop) : bool :=
  match o with
  | OCreat p | OUnlink p => negb (is_lock p)
  | ORename _ q | OLink _ q => negb (is_lock q)
  | ORenameDir _ _ => false
  | _ => true
  end.

Lemma lock_free_steps l : forallb lock_free l = true ->
  forall h, steps_ok h l = true /\ fold_left lock_step l h = h.
Proof.
  induction l as [|o l IH]; intros H h; [split; reflexivity|].
  cbn [forallb] in H. apply andb_true_iff in H as [H1 H2].
  cbn [steps_ok fold_left].
  assert (E : step_ok h o = true /\ lock_step h o = h).
  { destruct o; cbn [lock_free step_ok lock_step] in *; try (split; reflexivity);
      try (apply negb_true_iff in H1; rewrite H1; split; reflexivity);
      try (split; [exact H1|reflexivity]). discriminate H1. }
  destruct E as [E1 E2]. rewrite E1, E2. exact (IH H2 h).
Qed.

Lemma lock_free_closed l : forallb lock_free l = true -> closed l.
Proof. intro H. exact (lock_free_steps l H None). Qed.

Lemma locked_closed (L : path) x t :
  is_lock L = true -> forallb lock_free x = true -> closed t ->
  closed (OCreat L :: x ++ OUnlink L :: t).
Proof.
  intros HL Hx [T1 T2]. destruct (lock_free_steps x Hx (Some L)) as [X1 X2]. split.
  - cbn [steps_ok step_ok lock_step]. rewrite HL. cbn [andb].
    rewrite steps_ok_app, X1, X2. cbn [andb steps_ok step_ok lock_step].
    rewrite HL, path_eqb_refl. exact T1.
  - cbn [fold_left lock_step]. rewrite HL, fold_left_app, X2. cbn [fold_left lock_step].
    rewrite HL. exact T2.
Qed.

Lemma reset_closed f : closed (reset_ops f).
Proof. exact (locked_closed (PCtl f CUidlLock) [] [] eq_refl eq_refl closed_nil). Qed.

Lemma rewrite_closed f tmp u t : closed t -> closed (locked_rewrite f tmp u ++ t).
Proof.
  intro T. unfold locked_rewrite, lock_op, unlock_op. cbn [app]. rewrite <- app_assoc. cbn [app].
  exact (locked_closed (PCtl f CUidlLock) (rewrite_ops f tmp u) t eq_refl eq_refl T).
Qed.

Lemma add_ops_free f s key info cid : forallb lock_free (add_ops f s key info cid) = true.
Proof. reflexivity. Qed.

Lemma tail_closed sel used : closed (tail_ops sel used).
Proof.
  unfold tail_ops. destruct sel as [[s ro]|]; [|exact closed_nil].
  destruct used as [f|]; [|exact (reset_closed s)].
  destruct (fname_eqb f s); [exact closed_nil|exact (reset_closed s)].
Qed.

Lemma append_closed f s msgs : forall u t, closed t -> closed (append_ops f s u msgs ++ t).
Proof.
  induction msgs as [|a r IH]; intros u t T; [exact T|].
  cbn [append_ops]. rewrite <- !app_assoc.
  apply closed_app; [exact (lock_free_closed _ (add_ops_free _ _ _ _ _))|].
  apply rewrite_closed. exact (IH _ t T).
Qed.

Lemma copy_closed g s us fls uids : forall ug names, closed (copy_ops g s us fls ug uids names).
Proof.
  induction uids as [|uid r IH]; intros ug names; [exact closed_nil|].
  cbn [copy_ops]. destruct (locate us fls uid) as [[rec x]|]; [|exact (IH ug names)].
  destruct names as [|[key tmp] names']; [exact closed_nil|].
  apply closed_app; [exact (lock_free_closed _ (add_ops_free _ _ _ _ _))|].
  apply rewrite_closed. exact (IH _ names').
Qed.

Lemma move_closed f g s fls uids : forall us ug tmps, closed (move_ops f g s us fls ug uids tmps).
Proof.
  induction uids as [|uid r IH]; intros us ug tmps; [exact closed_nil|].
  cbn [move_ops]. destruct (locate us fls uid) as [[rec x]|]; [|exact (IH us ug tmps)].
  destruct tmps as [|tmp1 [|tmp2 tmps']]; try exact closed_nil.
  apply (closed_app [_]); [apply lock_free_closed; reflexivity|].
  apply rewrite_closed. apply rewrite_closed. exact (IH _ _ tmps').
Qed.

Lemma self_move_closed f s fls uids : forall u names, closed (self_move_ops f s u fls uids names).
Proof.
  induction uids as [|uid r IH]; intros u names; [exact closed_nil|].
  cbn [self_move_ops]. destruct (locate u fls uid) as [[rec x]|]; [|exact (IH u names)].
  destruct names as [|key [|tmp names']]; try exact closed_nil.
  apply closed_app; [exact (lock_free_closed _ (add_ops_free _ _ _ _ _))|].
  apply rewrite_closed.
  apply (closed_app [_]); [apply lock_free_closed; reflexivity|]. exact (IH _ names').
Qed.

Lemma flat_free {A} (g : A -> list fsop) l :
  (forall x, forallb lock_free (g x) = true) -> forallb lock_free (flat_map g l) = true.
Proof.
  intro H. induction l as [|x l IH]; [reflexivity|]. cbn [flat_map].
  rewrite forallb_app, (H x). exact IH.
Qed.

Lemma store_free f u fl mode letters uids :
  forallb lock_free (store_ops f u fl mode letters uids) = true.
Proof.
  apply flat_free. intro uid. destruct (locate u fl uid) as [[r x]|]; [|reflexivity].
  cbv zeta. destruct (bytes_eqb (new_info mode letters (m_info x)) (m_info x)); reflexivity.
Qed.

Lemma expunge_free f u fl : forallb lock_free (expunge_ops f u fl) = true.
Proof.
  apply flat_free. intro r. destruct (find_file fl (r_key r)) as [x|]; [|reflexivity].
  destruct (mem_n 84 (flags_of_info (m_info x))); reflexivity.
Qed.

Lemma renames_closed (g : fname -> fname) l : closed (map (fun f => ORenameDir f (g f)) l).
Proof. induction l as [|f l [I1 I2]]; [exact closed_nil|]. split; cbn; assumption. Qed.

Lemma subs_closed x t : forallb lock_free x = true -> closed t ->
  closed ([OCreat (PCtl [] CSubsLock)] ++ x ++ [OUnlink (PCtl [] CSubsLock)] ++ t).
Proof. intros Hx T. cbn [app]. exact (locked_closed (PCtl [] CSubsLock) x t eq_refl Hx T). Qed.

Ltac brk :=
  repeat match goal with
         | |- closed (o_ops (unmodelled _)) => exact closed_nil
         | |- closed (o_ops {| o_ops := _; o_ack := _; o_sel := _ |}) => cbn [o_ops]
         | |- closed (o_ops (if ?b then _ else _)) => destruct b
         | |- closed (o_ops (match ?x with _ => _ end)) => destruct x
         end.

Theorem run_cmd_closed lay m sel c : closed (o_ops (run_cmd lay m sel c)).
Proof.
  destruct c as [f ro order|f msgs|uids mode fl|uids g names|uids g tmps| |tmp| |
                 |f val guid tmp|a b order|n tmp|n tmp]; cbn [run_cmd]; brk;
    try exact closed_nil; try exact (reset_closed _).
  all: try (apply closed_app; [exact (reset_closed _)|]).
  all: try (apply closed_app; [exact (reset_closed _)|]).
  all: try exact (lock_free_closed _ (store_free _ _ _ _ _ _)).
  all: try exact (lock_free_closed _ (expunge_free _ _ _)).
  all: try exact (copy_closed _ _ _ _ _ _ _).
  all: try exact (move_closed _ _ _ _ _ _ _ _).
  all: try exact (self_move_closed _ _ _ _ _ _).
  all: try (apply append_closed; exact (tail_closed _ _)).
  all: try (rewrite <- (app_nil_r (locked_rewrite _ _ _)); apply rewrite_closed; exact closed_nil).
  all: try (apply closed_app; [apply renames_closed|exact (tail_closed _ _)]).
  all: try (apply subs_closed; [reflexivity|exact (tail_closed _ _)]).
  - apply lock_free_closed. apply flat_free. intro k0.
    match goal with |- context [match ?x with _ => _ end] => destruct x end; reflexivity.
  - destruct (u_recs u); [exact (reset_closed f)|].
    rewrite <- (app_nil_r (locked_rewrite _ _ _)). apply rewrite_closed. exact closed_nil.
  - apply closed_app; [apply lock_free_closed; reflexivity|].
    apply rewrite_closed. exact (tail_closed _ _).
  - apply subs_closed; [|exact (tail_closed _ _)].
    destruct (remove_name n (recover_subs m)); [|reflexivity].
    destruct (exists_ m (PCtl [] CSubs)); reflexivity.
Qed.

Theorem run_cmd_brackets lay m sel c : brackets (o_ops (run_cmd lay m sel c)) = true.
Proof.
  destruct (run_cmd_closed lay m sel c) as [H1 H2].
  unfold brackets, held_lock. rewrite H1, H2. reflexivity.
Qed.

Theorem fault_lock_released_all lay m sel c k fo :
  Inv m -> (forall p, is_lock p = true -> lookup m p = None) ->
  fault_cmd lay m sel c k = Some fo ->
  snd (apply_ops lay m (f_ops fo)) = true ->
  forall p, is_lock p = true -> lookup (fault_state lay m (f_ops fo)) p = None.
Proof.
  intros I N. apply (fault_lock_released lay m sel c k fo I N).
  exact (proj1 (run_cmd_closed lay m sel c)).
Qed.

(* ------------------------- a failed APPEND leaves no delivered file behind *)
Lemma tracked_app l1 : forall st l2,
  tracked st (l1 ++ l2) = tracked st l1 && tracked (fold_left deliv_step l1 st) l2.
Proof.
  induction l1 as [|o l1 IH]; intros st l2; [reflexivity|].
  cbn [app tracked fold_left]. rewrite IH, andb_assoc. reflexivity.
Qed.

Lemma tracked_firstn k l st : tracked st l = true -> tracked st (firstn k l) = true.
Proof.
  intro H. rewrite <- (firstn_skipn k l), tracked_app in H.
  apply andb_true_iff in H as [H _]. exact H.
Qed.

(* m0: the state the command started in; mc: the current state *)
Definition live_inv (m0 mc : fs) (st : option path * list path) : Prop :=
  forall q, is_live q = true ->
    (In q (opens st) -> lookup m0 q = None)
    /\ (~ In q (opens st) -> lookup mc q = lookup m0 q).

Lemma live_inv_frame lay m0 mc o mc' st :
  apply_op lay mc o = Some mc' ->
  (forall q, is_live q = true -> ~ mentions o q) ->
  live_inv m0 mc st -> live_inv m0 mc' st.
Proof.
  intros A Hm Hi q Hq. destruct (Hi q Hq) as [H1 H2]. split; [exact H1|].
  intro Hn. rewrite (apply_op_frame _ _ _ _ _ A (Hm q Hq)). exact (H2 Hn).
Qed.

Lemma live_inv_same m0 mc st st' :
  (forall q, In q (opens st') <-> In q (opens st)) ->
  live_inv m0 mc st -> live_inv m0 mc st'.
Proof.
  intros E Hi q Hq. destruct (Hi q Hq) as [H1 H2]. split.
  - intro H. apply H1. apply E. exact H.
  - intro H. apply H2. intro X. apply H. apply E. exact X.
Qed.

Lemma not_live_neq p q : is_live p = false -> is_live q = true -> p <> q.
Proof. intros Hp Hq E. subst. congruence. Qed.

Lemma track_step lay m0 mc o mc' st :
  apply_op lay mc o = Some mc' -> track_ok st o = true ->
  live_inv m0 mc st -> live_inv m0 mc' (deliv_step st o).
Proof.
  intros A T Hi.
  destruct o as [p|p|p|p c|p q0|a b|p q0|p|p]; cbn [track_ok] in T;
    try (apply negb_true_iff in T;
         apply (live_inv_frame lay m0 mc _ mc' st A); [|exact Hi];
         intros q Hq; cbn [mentions]; exact (not_live_neq _ _ T Hq)).
  - (* rename between paths that are not delivered files *)
    apply andb_true_iff in T as [T1 T2]. apply negb_true_iff in T1, T2.
    apply (live_inv_same m0 mc' st).
    + intro q. destruct p; try reflexivity. destruct q0 as [| | |? c0|]; try reflexivity.
      destruct c0; try reflexivity.
      destruct st as [[x|] d]; cbn [deliv_step fst snd opens]; [|reflexivity].
      unfold opens. cbn [fst snd]. rewrite app_nil_r. reflexivity.
    + apply (live_inv_frame lay m0 mc _ mc' st A); [|exact Hi].
      intros q Hq [E|E]; [exact (not_live_neq _ _ T1 Hq E)|exact (not_live_neq _ _ T2 Hq E)].
  - discriminate T.
  - (* link: a delivery *)
    apply andb_true_iff in T as [T1 T2]. apply negb_true_iff in T1.
    destruct q0 as [| |g s k i| |]; try discriminate T2.
    destruct st as [[x|] d]; [discriminate T2|]. cbn [deliv_step fst snd].
    destruct (apply_link _ _ _ _ _ A) as [c [_ [Hn Hr]]].
    intros q Hq. destruct (Hi q Hq) as [H1 H2]. unfold opens in *. cbn [fst snd] in *.
    rewrite app_nil_r in H1, H2. split.
    + intro H. apply in_app_or in H as [H|[<-|[]]]; [exact (H1 H)|].
      destruct (in_dec path_eq_dec (PMsg g s k i) d) as [X|X]; [exact (H1 X)|].
      rewrite <- (H2 X). exact Hn.
    + intro H. rewrite Hr.
      destruct (path_eqb (PMsg g s k i) q) eqn:E.
      * apply path_eqb_eq in E. exfalso. apply H. apply in_or_app. right. left. exact E.
      * apply H2. intro X. apply H. apply in_or_app. left. exact X.
Qed.

Lemma track_run lay m0 l : forall mc st,
  tracked st l = true -> snd (apply_ops lay mc l) = true ->
  live_inv m0 mc st ->
  live_inv m0 (fst (apply_ops lay mc l)) (fold_left deliv_step l st).
Proof.
  induction l as [|o l IH]; intros mc st T A Hi; [exact Hi|].
  cbn [tracked apply_ops fold_left] in *. apply andb_true_iff in T as [T1 T2].
  destruct (apply_op lay mc o) as [m1|] eqn:E; [|discriminate A].
  exact (IH m1 _ T2 A (track_step lay m0 mc o m1 st E T1 Hi)).
Qed.

Lemma unlinks_apply lay ps : forall m1,
  snd (apply_ops lay m1 (map OUnlink ps)) = true ->
  forall q, (In q ps -> lookup (fst (apply_ops lay m1 (map OUnlink ps))) q = None)
            /\ (~ In q ps -> lookup (fst (apply_ops lay m1 (map OUnlink ps))) q = lookup m1 q).
Proof.
  induction ps as [|p ps IH]; intros m1 A q.
  - split; [intros []|reflexivity].
  - cbn [map apply_ops] in *.
    destruct (apply_op lay m1 (OUnlink p)) as [m2|] eqn:E; [|discriminate A].
    pose proof (apply_unlink _ _ _ _ E) as Hr.
    destruct (IH m2 A q) as [I1 I2].
    destruct (in_dec path_eq_dec q ps) as [X|X].
    + split; [intros _; exact (I1 X)|intro Y; exfalso; apply Y; right; exact X].
    + split.
      * intros [Y|Y]; [|contradiction]. subst p. rewrite (I2 X), Hr, path_eqb_refl. reflexivity.
      * intro Y. rewrite (I2 X), Hr. rewrite path_eqb_neq; [reflexivity|].
        intro Z. apply Y. left. exact Z.
Qed.

Definition local_paths (o : fsop) : list path :=
  match o with
  | OWrite (PMsg f STmp k i) _ => [PMsg f STmp k i]
  | OLink (PMsg f STmp k i) _ => [PMsg f STmp k i]
  | OUnlink (PMsg f STmp k i) => [PMsg f STmp k i]
  | _ => []
  end.

Definition cleanup_paths (rb : bool) (pre : list fsop) (o : fsop) : list path :=
  local_paths o
  ++ match held_lock pre with Some p => [p] | None => [] end
  ++ match fst (delivered pre) with
     | Some q => if in_add o then [] else [q]
     | None => []
     end
  ++ (if rb then snd (delivered pre) else []).

Lemma cleanup_as_paths rb pre o : cleanup rb pre o = map OUnlink (cleanup_paths rb pre o).
Proof.
  unfold cleanup, cleanup_paths. rewrite !map_app. f_equal; [|f_equal; [|f_equal]].
  - destruct o as [| | |p c|p q| |p q|p|]; try reflexivity;
      destruct p as [|? ?|f s k i|? ?|? ?]; try reflexivity; destruct s; reflexivity.
  - destruct (held_lock pre); reflexivity.
  - destruct (fst (delivered pre)); [|reflexivity]. destruct (in_add o); reflexivity.
  - destruct rb; reflexivity.
Qed.

Lemma local_paths_not_live o q : In q (local_paths o) -> is_live q = false.
Proof.
  assert (T : forall f k i, In q [PMsg f STmp k i] -> is_live q = false).
  { intros f k i [<-|[]]. reflexivity. }
  destruct o as [p|p|p|p c|p q0|a b|p q0|p|p]; cbn [local_paths];
    try (intro H0; contradiction);
    destruct p as [|? ?|f s k i|? ?|? ?]; try (intro H0; contradiction);
    destruct s; try (intro H0; contradiction); exact (T _ _ _).
Qed.

(* the delivered files the clean-up removes are exactly the tracked ones *)
Lemma cleanup_paths_live pre o q :
  in_add o = false -> is_live q = true ->
  (In q (cleanup_paths true pre o) <-> In q (opens (delivered pre))).
Proof.
  intros Ha Hq. unfold cleanup_paths, opens. rewrite Ha. split.
  - intro H. apply in_app_or in H as [H|H].
    { rewrite (local_paths_not_live o q H) in Hq. discriminate Hq. }
    apply in_app_or in H as [H|H].
    { destruct (held_lock pre) as [p|] eqn:E; [|destruct H]. destruct H as [<-|[]].
      pose proof (held_lock_is_lock _ _ E) as L. destruct p; try discriminate L; discriminate Hq. }
    apply in_or_app. apply in_app_or in H as [H|H]; [right|left; exact H].
    destruct (fst (delivered pre)); exact H.
  - intro H. apply in_or_app. right. apply in_or_app. right.
    apply in_or_app. apply in_app_or in H as [H|H]; [right; exact H|left].
    destruct (fst (delivered pre)); exact H.
Qed.

Lemma tail_tracked sel used d : tracked (None, d) (tail_ops sel used) = true.
Proof.
  unfold tail_ops. destruct sel as [[s ro]|]; [|reflexivity].
  destruct used as [f|]; [destruct (fname_eqb f s)|]; reflexivity.
Qed.

Lemma append_tracked f s msgs : forall u d t,
  (forall d', tracked (None, d') t = true) ->
  tracked (None, d) (append_ops f s u msgs ++ t) = true.
Proof.
  induction msgs as [|a r IH]; intros u d t Ht; [exact (Ht d)|].
  cbn [append_ops]. unfold add_ops, locked_rewrite, rewrite_ops, lock_op, unlock_op.
  cbn [app tracked track_ok deliv_step is_live sub_eqb negb andb fst snd].
  apply IH. exact Ht.
Qed.

Lemma append_cmd_tracked lay m sel f msgs :
  tracked (None, []) (o_ops (run_cmd lay m sel (CAppend f msgs))) = true.
Proof.
  cbn [run_cmd]. destruct (negb (exists_ m (PDir f))); [reflexivity|].
  destruct (ready m f) as [u|]; [|reflexivity].
  destruct (keys_ok m (map a_key msgs) && forallb wf_amsg msgs); [|reflexivity].
  cbn [o_ops]. unfold reset_ops, lock_op, unlock_op.
  cbn [app tracked track_ok deliv_step is_live negb andb fst snd].
  apply append_tracked. intro d'. apply tail_tracked.
Qed.

(* an APPEND (of any number of messages) whose k-th operation fails inside
   its message loop — the failing call not being the removal of a tmp/ name —
   leaves exactly the delivered message files it found: none of its messages
   is in new/ or cur/, so none can be served or adopted later *)
Theorem append_fault_nothing_delivered lay m sel f msgs k fo :
  fault_cmd lay m sel (CAppend f msgs) k = Some fo ->
  rollback_applies lay m sel (CAppend f msgs) k = true ->
  (forall o, nth_error (o_ops (run_cmd lay m sel (CAppend f msgs))) k = Some o ->
             in_add o = false) ->
  snd (apply_ops lay m (f_ops fo)) = true ->
  forall q, is_live q = true -> lookup (fault_state lay m (f_ops fo)) q = lookup m q.
Proof.
  intros H RB HA A q Hq.
  pose proof (append_cmd_tracked lay m sel f msgs) as TR.
  unfold fault_cmd in H. rewrite RB in H. clear RB.
  remember (run_cmd lay m sel (CAppend f msgs)) as oc eqn:Eoc. clear Eoc.
  destruct (o_ack oc); try discriminate.
  unfold fault_ops in H.
  destruct (nth_error (o_ops oc) k) as [o|] eqn:En; [|discriminate].
  destruct (unlock_fault o); [discriminate|]. injection H as <-.
  pose proof (HA o eq_refl) as Ha. clear HA.
  unfold fault_state. cbn [f_ops] in *.
  remember (firstn k (o_ops oc)) as pre eqn:Epre.
  rewrite cleanup_as_paths in *. rewrite apply_ops_app in *.
  destruct (apply_ops lay m pre) as [m1 ok1] eqn:E1.
  destruct ok1; [|discriminate A].
  assert (LI : live_inv m m1 (delivered pre)).
  { pose proof (track_run lay m pre m (None, [])) as R.
    rewrite E1 in R. apply R; [subst pre; exact (tracked_firstn k _ _ TR)|reflexivity|].
    intros q0 _. split; [intros []|reflexivity]. }
  destruct (unlinks_apply lay (cleanup_paths true pre o) m1 A q) as [U1 U2].
  destruct (LI q Hq) as [L1 L2].
  destruct (in_dec path_eq_dec q (opens (delivered pre))) as [X|X].
  - rewrite (U1 (proj2 (cleanup_paths_live pre o q Ha Hq) X)). symmetry. exact (L1 X).
  - rewrite (U2 (fun Y => X (proj1 (cleanup_paths_live pre o q Ha Hq) Y))). exact (L2 X).
Qed.

(* ------------------------------------------------------------ witnesses *)
(* the hypotheses are satisfiable: the example state satisfies the invariant
   and holds no lock file, the faulted two-message APPEND has 22 operations *)
Example exf_hyps : inv_b exf_m = true /\ no_locks_b exf_m = true /\ exf_len = 22%nat.
Proof. repeat split; vm_compute; reflexivity. Qed.

(* what a fresh session is served from INBOX after the fault, for every
   position k: the one message that was there ([1]) — except after a failing
   removal of a tmp/ name (positions 6 and 16), where the message just linked
   stays and is adopted (open finding C14-F4); positions 1, 11, 21 are the
   removals of the lock file (not modelled) *)
Theorem fault_example_views :
  map exf_view (seq 0 22) =
  [Some [1]; None; Some [1]; Some [1]; Some [1]; Some [1]; Some [1; 2]; Some [1]; Some [1];
   Some [1]; Some [1]; None; Some [1]; Some [1]; Some [1]; Some [1]; Some [1; 3]; Some [1];
   Some [1]; Some [1]; Some [1]; None].
Proof. vm_compute. reflexivity. Qed.

(* open finding C14-F4: the fault at position 6 answers BYE, the clean-up
   runs, and yet message 2 is served afterwards *)
Theorem fault_unlink_tmp_witness :
  (match fault_cmd LPlus exf_m None exf_cmd 6 with
   | Some fo => fresp_eqb (f_resp fo) FBye | None => false end) = true
  /\ nth_error (o_ops (run_cmd LPlus exf_m None exf_cmd)) 6
     = Some (OUnlink (PMsg [] STmp [107; 50] []))
  /\ exf_view 6 = Some [1; 2].
Proof. repeat split; vm_compute; reflexivity. Qed.

(* [inv_b] / [no_locks_b] give the hypotheses of the theorems *)
Lemma no_locks_b_sound m : no_locks_b m = true -> forall p, is_lock p = true -> lookup m p = None.
Proof.
  intros H p Hp. destruct (lookup m p) as [n|] eqn:E; [|reflexivity].
  apply lookup_In in E. unfold no_locks_b in H. rewrite forallb_forall in H.
  specialize (H _ E). cbn [fst] in H. rewrite Hp in H. discriminate H.
Qed.
