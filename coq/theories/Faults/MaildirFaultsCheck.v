(* Faults/MaildirFaultsCheck.v — case checker of the fault-injection runs of
   harness/props/C14.py (family maildir_fault): the real maildir backend ran
   the command with its k-th filesystem operation raising; the operations it
   performed (before the fault and on the exception path), its answer, the
   directory it left and what a fresh session is served from it are inside
   the case; the model recomputes them. *)
From PV Require Import Base.Prelude Base.Decimal MaildirFS.FS MaildirFS.UidList MaildirFS.Ops
  MaildirFS.Spec MaildirFS.Legal MaildirFS.Check Faults.MaildirFaults.

(* one faulted run: k, the operations observed after the fault (the prefix
   before it is compared once per command), the answer, the directory left
   behind as its difference to the start state (paths removed or changed,
   entries added or changed), what a fresh session is served *)
Definition fault_obs : Type := nat * list fsop * fresp * list path * fs * odump.

(* all faulted runs of one command from one start state, with the operation
   list of the fault-free run *)
Definition fault_case : Type := layout * fs * selection * cmd * list fsop * list fault_obs.

Definition apply_diff (m : fs) (removed : list path) (added : fs) : fs :=
  filter (fun e => negb (existsb (path_eqb (fst e)) removed)) m ++ added.

Definition chk_fault_one (lay : layout) (m : fs) (sel : selection) (cm : cmd)
           (ob : fault_obs) : bool :=
  let '(k, suffix, resp, removed, added, d) := ob in
  match fault_cmd lay m sel cm k with
  | None => false
  | Some fo =>
      let '(m', ok) := apply_ops lay m (f_ops fo) in
      eqb_list fsop_eqb (f_ops fo) (firstn k (o_ops (run_cmd lay m sel cm)) ++ suffix)
      && fresp_eqb (f_resp fo) resp && ok
      && inv_b m' && legal_ops_b lay m (f_ops fo)
      && no_locks_b m' && fs_same m' (apply_diff m removed added) && chk_dump m' d
  end.

Definition chk_fault (c : fault_case) : bool :=
  let '(lay, m, sel, cm, clean, obs) := c in
  inv_b m && no_locks_b m
  && eqb_list fsop_eqb (o_ops (run_cmd lay m sel cm)) clean
  && forallb (chk_fault_one lay m sel cm) obs.

(* diagnosis: what the model expects after the fault, for the first observation *)
Definition fault_expect (c : fault_case) : option (list fsop) :=
  let '(lay, m, sel, cm, clean, obs) := c in
  match obs with
  | (k, _, _, _, _, _) :: _ =>
      match fault_cmd lay m sel cm k with
      | None => None
      | Some fo => Some (skipn k (f_ops fo))
      end
  | [] => None
  end.
