(* Faults/DictFaults.v — the dict backend's message commands as sequences of
   storage calls, with a fault (an exception raised by the n-th storage call of
   the command) injected at any position.

   pymap/backend/dict/mailbox.py: MailboxData.append / copy / move / delete;
   pymap/backend/session.py: BaseSession.append_messages (message-by-message
   loop, taking the stored messages back when a later one raises),
   copy_messages / move_messages (uid-by-uid loops), expunge_mailbox.
   Under asyncio a command body of the dict backend runs without suspending
   (measured by the harness on every run), so the observable states are the
   states between storage calls of one command at most — and only the
   command's own connection could observe those; other sessions, a
   cancellation or a dropped client see the state between two commands.

   Definitions only. *)
From PV Require Import Base.Prelude.
Local Open Scope N_scope.

Record mbox := { b_max : N; b_msgs : list (N * N) }.      (* (uid, content id) *)
Definition store := list (N * mbox).                      (* mailbox id -> mailbox *)

Fixpoint get_box (s : store) (b : N) : option mbox :=
  match s with
  | [] => None
  | (b', x) :: r => if b' =? b then Some x else get_box r b
  end.

Fixpoint set_box (s : store) (b : N) (x : mbox) : store :=
  match s with
  | [] => []
  | (b', y) :: r => if b' =? b then (b', x) :: r else (b', y) :: set_box r b x
  end.

Fixpoint find_msg (l : list (N * N)) (uid : N) : option N :=
  match l with
  | [] => None
  | (u, c) :: r => if u =? uid then Some c else find_msg r uid
  end.

Definition drop_msg (l : list (N * N)) (uid : N) : list (N * N) :=
  filter (fun e => negb (fst e =? uid)) l.

(* ---- the storage calls (each runs without suspending) *)
(* MailboxData.append: new uid = max + 1 *)
Definition st_append (s : store) (b cid : N) : store * N :=
  match get_box s b with
  | Some x => (set_box s b {| b_max := b_max x + 1;
                              b_msgs := b_msgs x ++ [(b_max x + 1, cid)] |}, b_max x + 1)
  | None => (s, 0)
  end.

(* MailboxData.copy: None when the uid is gone *)
Definition st_copy (s : store) (src uid dst : N) : store :=
  match get_box s src with
  | Some x => match find_msg (b_msgs x) uid with
              | Some cid => fst (st_append s dst cid)
              | None => s
              end
  | None => s
  end.

(* MailboxData.move: pop from the source, then insert into the destination;
   no call that can raise lies between the two mutations *)
Definition st_move (s : store) (src uid dst : N) : store :=
  match get_box s src with
  | Some x => match find_msg (b_msgs x) uid with
              | Some cid =>
                  let s1 := set_box s src {| b_max := b_max x;
                                             b_msgs := drop_msg (b_msgs x) uid |} in
                  fst (st_append s1 dst cid)
              | None => s
              end
  | None => s
  end.

Definition st_delete (s : store) (b : N) (uids : list N) : store :=
  match get_box s b with
  | Some x => set_box s b {| b_max := b_max x;
                             b_msgs := filter (fun e => negb (existsb (N.eqb (fst e)) uids))
                                              (b_msgs x) |}
  | None => s
  end.

(* ---- commands *)
Inductive dcmd :=
| DAppend (b : N) (cids : list N)            (* APPEND with one or more messages *)
| DCopy (src : N) (uids : list N) (dst : N)
| DMove (src : N) (uids : list N) (dst : N)
| DExpunge (b : N) (uids : list N)           (* the \Deleted uids found *)
| DBad.                                      (* a line that does not parse *)

Inductive resp := ROk | RNo | RBad | RBye.
Definition resp_eqb (a b : resp) : bool :=
  match a, b with ROk, ROk | RNo, RNo | RBad, RBad | RBye, RBye => true | _, _ => false end.

(* [fault] = Some n: the (n+1)-th storage call of the command raises instead
   of running.  The loops return the store, the states seen after each
   storage call (what could be observed in between), the uids produced and
   whether the fault fired. *)
Definition tick (fault : option nat) : option nat :=
  match fault with Some (S n) => Some n | other => other end.
Definition fires (fault : option nat) : bool :=
  match fault with Some O => true | _ => false end.

Fixpoint append_loop (s : store) (b : N) (cids : list N) (fault : option nat)
  : store * list store * list N * bool :=
  match cids with
  | [] => (s, [], [], false)
  | c :: r =>
      if fires fault then (s, [], [], true)
      else let '(s1, uid) := st_append s b c in
           let '(s2, tr, uids, f) := append_loop s1 b r (tick fault) in
           (s2, s1 :: tr, uid :: uids, f)
  end.

Definition has_msg (s : store) (b uid : N) : bool :=
  match get_box s b with
  | Some x => match find_msg (b_msgs x) uid with Some _ => true | None => false end
  | None => false
  end.

(* one storage call per uid (a uid that has disappeared meanwhile makes the
   call return None: nothing changes) *)
Fixpoint copy_loop (mv : bool) (s : store) (src : N) (uids : list N) (dst : N)
         (fault : option nat) : store * list store * bool :=
  match uids with
  | [] => (s, [], false)
  | u :: r =>
      if fires fault then (s, [], true)
      else let s1 := if mv then st_move s src u dst else st_copy s src u dst in
           let '(s2, tr, f) := copy_loop mv s1 src r dst (tick fault) in
           (s2, s1 :: tr, f)
  end.

(* the uids of the command that the session knows: those in the source when
   the command starts (the selected view is refreshed between commands only) *)
Definition known_uids (s : store) (src : N) (uids : list N) : list N :=
  filter (has_msg s src) uids.

Record result := { r_store : store; r_trace : list store; r_resp : resp }.

Definition run_dcmd (s : store) (c : dcmd) (fault : option nat) : result :=
  match c with
  | DAppend b cids =>
      match get_box s b with
      | None => {| r_store := s; r_trace := []; r_resp := RNo |}      (* [TRYCREATE] *)
      | Some _ =>
          let '(s1, tr, uids, f) := append_loop s b cids fault in
          if f then
            (* all-or-nothing: the messages stored so far are deleted again,
               then the exception ends the connection *)
            let s2 := match uids with [] => s1 | _ => st_delete s1 b uids end in
            {| r_store := s2; r_trace := tr ++ [s2]; r_resp := RBye |}
          else {| r_store := s1; r_trace := tr; r_resp := ROk |}
      end
  | DCopy src uids dst | DMove src uids dst =>
      let mv := match c with DMove _ _ _ => true | _ => false end in
      match get_box s src, get_box s dst with
      | Some _, Some _ =>
          let '(s1, tr, f) := copy_loop mv s src (known_uids s src uids) dst fault in
          {| r_store := s1; r_trace := tr; r_resp := if f then RBye else ROk |}
      | _, _ => {| r_store := s; r_trace := []; r_resp := RNo |}
      end
  | DExpunge b uids =>
      match get_box s b with
      | None => {| r_store := s; r_trace := []; r_resp := RNo |}
      | Some _ =>
          if fires fault then {| r_store := s; r_trace := []; r_resp := RBye |}
          else let s1 := st_delete s b uids in
               {| r_store := s1; r_trace := [s1]; r_resp := ROk |}
      end
  | DBad => {| r_store := s; r_trace := []; r_resp := RBad |}
  end.

(* ---- connection-level labels: a command, or a cancellation / dropped
   client.  The latter two can only land between commands (no suspension
   inside a command body) and do not touch the store. *)
Inductive label := LCmd (c : dcmd) (fault : option nat) | LCancel | LDrop.

Definition step (s : store) (l : label) : store :=
  match l with
  | LCmd c fault => r_store (run_dcmd s c fault)
  | LCancel | LDrop => s
  end.

(* ---- what the theorems talk about *)
Definition cids_of (s : store) : list N :=
  flat_map (fun e => map snd (b_msgs (snd e))) s.

Definition count (c : N) (l : list N) : nat :=
  length (filter (N.eqb c) l).

Definition msgs_of (s : store) (b : N) : list (N * N) :=
  match get_box s b with Some x => b_msgs x | None => [] end.

(* a store with distinct mailbox ids *)
Fixpoint wf_store (s : store) : bool :=
  match s with
  | [] => true
  | (b, _) :: r => negb (existsb (fun e => fst e =? b) r) && wf_store r
  end.

(* ---- checker of the correspondence run (harness/props/C14.py):
   (store, command, fault, observed response, observed store) *)
Definition mbox_eqb (a b : mbox) : bool :=
  (b_max a =? b_max b)
  && eqb_list (fun x y => (fst x =? fst y) && (snd x =? snd y)) (b_msgs a) (b_msgs b).
Definition store_eqb (a b : store) : bool :=
  eqb_list (fun x y => (fst x =? fst y) && mbox_eqb (snd x) (snd y)) a b.

Definition chk_dict_fault (c : store * dcmd * option nat * resp * store) : bool :=
  let '(s, cmd, fault, r, s') := c in
  let res := run_dcmd s cmd fault in
  resp_eqb (r_resp res) r && store_eqb (r_store res) s'.
