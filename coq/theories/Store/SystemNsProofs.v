(* Store/SystemNsProofs.v — proofs about Store/SystemNs.v (CREATE / DELETE / RENAME under
   selections).  The invariant of the inner system is lifted: every namespace step is an
   inner step (on mailbox identities), a step that leaves the inner system alone, or one
   that drops the acting connection's selection. *)
From PV Require Import Base.Prelude Store.Base Store.BaseProofs Store.Flags Store.ModSeq
     Store.Mailbox Store.MailboxProofs Store.View Store.ViewProofs Store.Compare
     Store.CompareProofs Store.Session Store.SelProofs Store.System Store.SystemProofs
     Store.FlagsTruth Store.ClientFlags Store.SystemNs Wire.SeqSet.
Require Import Lia.

(* ------------------------------------------------------------ invariant *)
Definition NInv (ns : nsys) : Prop :=
  Inv (ns_sys ns) /\ forall s, nmem s (ns_closed ns) = true -> nview ns s = None.

Lemma ninv_empty : NInv ns_empty.
Proof. split; [apply inv_init|]. intros s H; discriminate. Qed.

(* what one step means for the clients; [a] = the acting connection, [fr] = it starts a
   fresh selection *)
Definition Spec (ns : nsys) (a : option N) (fr : bool) (ns' : nsys) (rs : list nresp) : Prop :=
  NInv ns'
  /\ (forall i, a <> Some i -> nview ns' i = nview ns i)
  /\ (forall s, a = Some s ->
        if has_bye rs
        then only_tagged (plain rs) = true /\ nview ns' s = None /\ nmem s (ns_closed ns') = true
        else match nview ns' s with
             | None => True
             | Some V' => exists start,
                 (if fr then start = [] else nview ns s = Some start)
                 /\ client_run_st (start, ndiff V' start) (plain rs) = Some (V', [])
             end)
  /\ (forall i j, (a = Some i -> fr = false) -> attached ns' i = Some j -> attached ns i = Some j).

Definition NSpec (ns : nsys) (l : nlabel) (ns' : nsys) (rs : list nresp) : Prop :=
  Spec ns (nlabel_actor l) (nstarts_fresh ns l) ns' rs.

(* ------------------------------------------------------------- helpers *)
Lemma plain_map_R rs : plain (map R rs) = rs.
Proof. induction rs as [|r rest IH]; cbn; [reflexivity|]. f_equal. exact IH. Qed.
Lemma has_bye_map_R rs : has_bye (map R rs) = false.
Proof. induction rs as [|r rest IH]; cbn; auto. Qed.

Lemma only_tagged_filter rs : only_tagged (filter is_tagged rs) = true.
Proof.
  unfold only_tagged. apply forallb_forall. intros r H. apply filter_In in H. apply H.
Qed.
Lemma only_tagged_run rs : forall st, only_tagged rs = true -> client_run_st st rs = Some st.
Proof.
  induction rs as [|r rest IH]; intros st H; cbn [client_run_st]; [reflexivity|].
  cbn [only_tagged forallb] in H. apply andb_true_iff in H. destruct H as [H1 H2].
  destruct r; try discriminate. destruct st as [cl news]. cbn [client_step]. apply IH. exact H2.
Qed.

Lemma view_attached sy i : view_of sy i = None <-> option_map sel_box (sel_of sy i) = None.
Proof. unfold view_of. destruct (sel_of sy i); cbn; split; intros; congruence. Qed.

Lemma drop_sel_inv sy s : Inv sy -> Inv (drop_sel sy s).
Proof.
  intros [G HS]. split; [exact G|]. cbn [drop_sel sy_sess sy_boxes]. intros i se.
  rewrite aget_aset. destruct (i =? s)%N; [|apply HS].
  intros K; inversion K; subst. exact I.
Qed.
Lemma drop_sel_sel sy s i :
  sel_of (drop_sel sy s) i = if (i =? s)%N then None else sel_of sy i.
Proof.
  unfold sel_of, sess_of, drop_sel. cbn [sy_sess]. rewrite aget_aset.
  destruct (i =? s)%N; reflexivity.
Qed.
Lemma drop_sel_view sy s i :
  view_of (drop_sel sy s) i = if (i =? s)%N then None else view_of sy i.
Proof. unfold view_of. rewrite drop_sel_sel. destruct (i =? s)%N; reflexivity. Qed.

Lemma set_idle_inv' sy s idle : Inv sy -> Inv (set_idle sy s idle).
Proof. apply set_idle_inv. Qed.
Lemma set_idle_view' sy s idle i : view_of (set_idle sy s idle) i = view_of sy i.
Proof. apply set_idle_view. Qed.
Lemma set_idle_sel' sy s idle i : sel_of (set_idle sy s idle) i = sel_of sy i.
Proof. apply set_idle_sel. Qed.

Lemma nmem_nadd s x l : nmem s (nadd x l) = true <-> s = x \/ nmem s l = true.
Proof. rewrite !nmem_In. apply nadd_In. Qed.

(* the actor of an inner step keeps its mailbox unless it SELECTs *)
Lemma step_keeps_box sy l i s1 : Inv sy ->
  (label_actor l = Some i -> starts_fresh sy l = false) ->
  sel_of (fst (step sy l)) i = Some s1 ->
  exists s, sel_of sy i = Some s /\ sel_box s1 = sel_box s.
Proof.
  intros HI Hf H1.
  assert (Other : label_actor l <> Some i -> exists s, sel_of sy i = Some s /\ sel_box s1 = sel_box s).
  { intros Hn. pose proof (step_sel_others sy l i HI Hn) as C. unfold core_of in C. rewrite H1 in C.
    destruct (sel_of sy i) as [s|]; [|discriminate]. exists s. split; auto.
    cbn in C. congruence. }
  pose proof (inv_step sy l HI) as HI'.
  assert (Box : exists b1, aget (sel_box s1) (sy_boxes (fst (step sy l))) = Some b1).
  { pose proof (inv_sess_of _ i HI') as K. unfold SessOK in K.
    unfold sel_of in H1. rewrite H1 in K. destruct K as [[b [Hb _]] _]. eauto. }
  destruct Box as [b1 Hb1].
  assert (Wake : forall a, a = i -> forall s1' b1', sel_of (fst (idle_wake sy a)) a = Some s1' ->
             aget (sel_box s1') (sy_boxes (fst (idle_wake sy a))) = Some b1' ->
             exists s, sel_of sy a = Some s /\ sel_box s1' = sel_box s).
  { intros a _ s1' b1' A B. destruct (wake_flags sy a HI) as [_ W].
    destruct (W s1' b1' A B) as [s [E C]]. exists s. split; auto. apply C. }
  destruct l as [a c|a|a|box fl rc ct|box ro|box]; cbn [label_actor] in *;
    try (apply Other; discriminate).
  - destruct (N.eq_dec a i) as [->|Hn]; [|apply Other; congruence].
    specialize (Hf eq_refl). cbn [step] in *.
    destruct (ss_idle (sess_of sy i)) eqn:Ei.
    + destruct (idle_wake sy i) as [sy' u] eqn:Ew. cbn [fst sy_boxes] in *.
      change (MkSys (sy_boxes sy') (aset i (MkSess (sel_of sy' i) false) (sy_sess sy')))
        with (set_idle sy' i false) in H1.
      rewrite set_idle_sel' in H1.
      apply (Wake i eq_refl s1 b1); rewrite Ew; cbn [fst]; auto.
    + assert (Hc : is_select_cmd c = false).
      { cbn [starts_fresh] in Hf. destruct c; try reflexivity. rewrite Ei in Hf. discriminate. }
      pose proof (command_flags sy i c HI) as CF. rewrite Hc in CF.
      destruct (CF s1 b1 H1 Hb1) as [s [E C]]. exists s. split; auto. apply C.
  - destruct (N.eq_dec a i) as [->|Hn]; [|apply Other; congruence].
    cbn [step] in *. apply (Wake i eq_refl s1 b1); auto.
  - destruct (N.eq_dec a i) as [->|Hn]; [|apply Other; congruence].
    cbn [step] in *. destruct (ss_idle (sess_of sy i)) eqn:Ei.
    + destruct (idle_wake sy i) as [sy' u] eqn:Ew. cbn [fst sy_boxes] in *.
      change (MkSys (sy_boxes sy') (aset i (MkSess (sel_of sy' i) false) (sy_sess sy')))
        with (set_idle sy' i false) in H1.
      rewrite set_idle_sel' in H1.
      apply (Wake i eq_refl s1 b1); rewrite Ew; cbn [fst]; auto.
    + cbn [fst] in H1. eauto.
Qed.

Lemma core_view sy i : view_of sy i = option_map (fun c : N * view => v_sorted (snd c)) (core_of sy i).
Proof. unfold view_of, core_of. destruct (sel_of sy i); reflexivity. Qed.
Lemma core_att sy i : option_map sel_box (sel_of sy i) = option_map (fun c : N * view => fst c) (core_of sy i).
Proof. unfold core_of. destruct (sel_of sy i); reflexivity. Qed.
Lemma sel_core sy sy' i : sel_of sy' i = sel_of sy i -> core_of sy' i = core_of sy i.
Proof. unfold core_of. intros ->. reflexivity. Qed.

(* ------------------------------------------------- the building blocks *)
(* source side: Spec reads the source state only through its views and attachments *)
Lemma spec_src ns0 ns a fr ns' rs :
  (forall i, core_of (ns_sys ns) i = core_of (ns_sys ns0) i) ->
  Spec ns0 a fr ns' rs -> Spec ns a fr ns' rs.
Proof.
  intros E (I & Fr & Cl & Kb).
  assert (Ev : forall i, nview ns i = nview ns0 i) by (intros i; unfold nview; rewrite !core_view, E; auto).
  assert (Ea : forall i, attached ns i = attached ns0 i) by (intros i; unfold attached; rewrite !core_att, E; auto).
  split; [exact I|]. split; [intros i Hi; rewrite Ev; auto|]. split.
  - intros s Hs. specialize (Cl s Hs). destruct (has_bye rs); auto.
    destruct (nview ns' s); auto. destruct Cl as [st [A B]]. exists st. split; auto.
    destruct fr; auto. rewrite Ev. exact A.
  - intros i j Hf H. rewrite Ea. eauto.
Qed.
(* result side: only the inner system and the closed set matter *)
Lemma spec_dst ns a fr ns1 ns2 rs :
  ns_sys ns2 = ns_sys ns1 -> ns_closed ns2 = ns_closed ns1 ->
  Spec ns a fr ns1 rs -> Spec ns a fr ns2 rs.
Proof.
  intros Es Ec ((I1 & I2) & Fr & Cl & Kb). unfold Spec, NInv, nview, attached in *.
  rewrite Es, Ec. split; [split; [exact I1|exact I2]|]. split; [exact Fr|]. split; [exact Cl|exact Kb].
Qed.

Lemma inner_spec ns l : NInv ns ->
  (forall s, label_actor l = Some s -> nmem s (ns_closed ns) = false) ->
  Spec ns (label_actor l) (starts_fresh (ns_sys ns) l) (fst (inner ns l)) (snd (inner ns l)).
Proof.
  intros [HI HC] Hcl. unfold inner.
  pose proof (step_ok (ns_sys ns) l HI) as (I1 & _ & Fr & Cl).
  pose proof (step_keeps_box (ns_sys ns) l) as KB.
  destruct (step (ns_sys ns) l) as [sy' rs] eqn:Es. cbn [fst snd] in *.
  unfold Spec, NInv, nview, attached. cbn [with_sys ns_sys ns_closed].
  rewrite has_bye_map_R, plain_map_R.
  split; [split; [exact I1|]|split; [|split]].
  - intros s Hs. destruct (label_actor l) as [a|] eqn:Ea.
    + destruct (N.eq_dec a s) as [->|Hn].
      * rewrite (Hcl s eq_refl) in Hs. discriminate.
      * rewrite Fr; [apply HC; exact Hs|congruence].
    + rewrite Fr; [apply HC; exact Hs|discriminate].
  - intros i Hi. apply Fr. exact Hi.
  - intros s Hs. apply Cl. exact Hs.
  - intros i j Hf H. destruct (sel_of sy' i) as [s1|] eqn:E1; [|discriminate].
    destruct (KB i s1 HI Hf E1) as [s [E C]]. rewrite E. cbn in *. congruence.
Qed.

(* the state is left alone and the answer is a tagged response / continuation *)
Lemma quiet_spec ns s rs : NInv ns -> only_tagged rs = true \/ rs = [Cont] ->
  Spec ns (Some s) false ns (map R rs).
Proof.
  intros HN Hr. split; [exact HN|]. split; [auto|]. split; [|auto].
  intros s' Hs. inversion Hs; subst s'. rewrite has_bye_map_R, plain_map_R.
  destruct (nview ns s) as [V|] eqn:Ev; auto. exists V. split; auto. rewrite ndiff_self.
  destruct Hr as [Hr | ->]; [apply only_tagged_run; exact Hr|reflexivity].
Qed.

(* same, for a state that differs only in idle flags / ghost fields *)
Lemma quiet_spec' ns ns' s rs : NInv ns -> only_tagged rs = true \/ rs = [Cont] ->
  (forall i, core_of (ns_sys ns') i = core_of (ns_sys ns) i) -> Inv (ns_sys ns') ->
  ns_closed ns' = ns_closed ns ->
  Spec ns (Some s) false ns' (map R rs).
Proof.
  intros [HI HC] Hr E I' Ec.
  assert (Ev : forall i, nview ns' i = nview ns i) by (intros i; unfold nview; rewrite !core_view, E; auto).
  split; [split; [exact I'|]|]. { intros x Hx. rewrite Ev. apply HC. rewrite <- Ec. exact Hx. }
  split; [intros; apply Ev|]. split.
  - intros s' Hs. inversion Hs; subst s'. rewrite has_bye_map_R, plain_map_R, Ev.
    destruct (nview ns s) as [V|] eqn:Ev'; auto. exists V. split; auto. rewrite ndiff_self.
    destruct Hr as [Hr | ->]; [apply only_tagged_run; exact Hr|reflexivity].
  - intros i j _ H. unfold attached in *. rewrite !core_att in *. rewrite E in H. exact H.
Qed.

(* the connection is told BYE and closed *)
Lemma close_spec ns0 ns s rs : NInv ns ->
  (forall i, i <> s -> core_of (ns_sys ns) i = core_of (ns_sys ns0) i) ->
  only_tagged rs = true ->
  Spec ns0 (Some s) false (close_conn ns s) (Bye :: map R rs).
Proof.
  intros [HI HC] E Hr.
  assert (V : forall i, nview (close_conn ns s) i = if (i =? s)%N then None else nview ns i).
  { intros i. unfold nview, close_conn. cbn [ns_sys]. apply drop_sel_view. }
  split; [split|].
  - cbn [close_conn ns_sys]. apply drop_sel_inv, HI.
  - intros x Hx. rewrite V. destruct (x =? s)%N eqn:Ex; auto. cbn [close_conn ns_closed] in Hx.
    apply nmem_nadd in Hx. destruct Hx as [->|Hx]; [rewrite N.eqb_refl in Ex; discriminate|].
    apply HC, Hx.
  - split; [|split].
    + intros i Hi. rewrite V. assert (i <> s) by congruence.
      destruct (i =? s)%N eqn:Ex; [apply N.eqb_eq in Ex; congruence|].
      unfold nview. rewrite !core_view, E; auto.
    + intros s' Hs. inversion Hs; subst s'. cbn [has_bye existsb orb plain flat_map app].
      change (flat_map (fun r => match r with R x => [x] | _ => [] end) (map R rs)) with (plain (map R rs)).
      rewrite plain_map_R. split; [exact Hr|]. split.
      * rewrite V, N.eqb_refl. reflexivity.
      * cbn [close_conn ns_closed]. apply nmem_nadd. auto.
    + intros i j _ H. unfold attached, close_conn in H. cbn [ns_sys] in H. rewrite drop_sel_sel in H.
      destruct (i =? s)%N eqn:Ex; [discriminate|]. apply N.eqb_neq in Ex.
      unfold attached in *. rewrite !core_att in *. rewrite <- E; auto.
Qed.

(* a new mailbox object: no connection is concerned *)
Lemma alloc_facts ns name l : (forall i, label_actor (l i) = None) -> NInv ns ->
  NInv (alloc ns name l) /\ forall i, sel_of (ns_sys (alloc ns name l)) i = sel_of (ns_sys ns) i.
Proof.
  intros Hl [HI HC]. unfold alloc. cbn [ns_sys].
  pose proof (step_ok (ns_sys ns) (l (ns_next ns)) HI) as (I1 & _ & Fr & _).
  assert (S : forall i, sel_of (fst (step (ns_sys ns) (l (ns_next ns)))) i = sel_of (ns_sys ns) i).
  { intros i. pose proof (step_sel_others (ns_sys ns) (l (ns_next ns)) i HI) as C.
    rewrite Hl in C. specialize (C ltac:(discriminate)).
    pose proof (Fr i ltac:(rewrite Hl; discriminate)) as Vw.
    unfold core_of in C. unfold view_of in Vw.
    destruct (sel_of (fst (step (ns_sys ns) (l (ns_next ns)))) i) as [x|] eqn:E1,
             (sel_of (ns_sys ns) i) as [y|] eqn:E2; cbn in *; try discriminate; auto.
    (* both selected: equal? only box and view are known equal; use that step without actor
       does not touch sessions *)
    destruct (l (ns_next ns)) as [a c|a|a|box fl rc ct|box ro|box] eqn:El;
      try (specialize (Hl (ns_next ns)); rewrite El in Hl; discriminate).
    - cbn [step] in E1. destruct (aget box (sy_boxes (ns_sys ns))); cbn [fst] in E1;
        unfold sel_of, sess_of in *; cbn [sy_sess] in E1; congruence.
    - cbn [step] in E1. destruct (aget box (sy_boxes (ns_sys ns))); cbn [fst] in E1;
        unfold sel_of, sess_of in *; cbn [sy_sess] in E1; congruence.
    - cbn [step] in E1. destruct (aget box (sy_boxes (ns_sys ns))); cbn [fst] in E1;
        unfold sel_of, sess_of in *; cbn [sy_sess] in E1; congruence. }
  split; [|exact S]. split; [exact I1|]. cbn [ns_closed]. intros s Hs. unfold nview, view_of. cbn [ns_sys].
  rewrite S. apply (HC s Hs).
Qed.

(* ------------------------------------------------------ the step theorem *)
Lemma closed_noop ns a fr : NInv ns -> (forall s, a = Some s -> nmem s (ns_closed ns) = true) ->
  Spec ns a fr ns [].
Proof.
  intros [HI HC] Ha. split; [split; auto|]. split; [auto|]. split; [|auto].
  intros s Hs. cbn [has_bye existsb]. rewrite (HC s (Ha s Hs)). exact I.
Qed.

Lemma same_noop ns a : NInv ns -> Spec ns a false ns [].
Proof.
  intros HN. split; [exact HN|]. split; [auto|]. split; [|auto].
  intros s Hs. cbn [has_bye existsb plain flat_map].
  destruct (nview ns s) as [V|]; auto. exists V. split; auto. rewrite ndiff_self. reflexivity.
Qed.

Lemma noexists_spec ns s : NInv ns -> Spec ns (Some s) false ns [NoExists].
Proof.
  intros HN. split; [exact HN|]. split; [auto|]. split; [|auto].
  intros s' Hs. cbn [has_bye existsb orb plain flat_map app].
  destruct (nview ns s') as [V|]; auto. exists V. split; auto. rewrite ndiff_self. reflexivity.
Qed.

Lemma say_spec ns s c k : NInv ns -> Spec ns (Some s) false (fst (say ns c k)) (snd (say ns c k)).
Proof. intros HN. cbn [say fst snd]. apply (quiet_spec ns s [Tagged c k] HN). left; reflexivity. Qed.

Lemma select_spec ns s name ro : NInv ns -> nmem s (ns_closed ns) = false ->
  Spec ns (Some s) (negb (ss_idle (sess_of (ns_sys ns) s)))
       (fst (select_cmd ns s name ro)) (snd (select_cmd ns s name ro)).
Proof.
  intros HN Hc. unfold select_cmd.
  pose proof (inner_spec ns (Cmd s (CSelect (rid ns name) ro)) HN) as S.
  cbn [label_actor starts_fresh] in S.
  assert (Hc' : forall s0, Some s = Some s0 -> nmem s0 (ns_closed ns) = false) by (intros s0 K; inversion K; subst; auto).
  specialize (S Hc').
  destruct (inner ns (Cmd s (CSelect (rid ns name) ro))) as [ns' rs]. cbn [fst snd] in *.
  eapply spec_dst; [| |exact S]; reflexivity.
Qed.

Lemma res_fresh sy s f c : starts_fresh sy (Cmd s (res_cmd f c)) = starts_fresh sy (Cmd s c).
Proof. destruct c; reflexivity. Qed.

Lemma idle_not_fresh sy s c : ss_idle (sess_of sy s) = true -> starts_fresh sy (Cmd s c) = false.
Proof. intros H. destruct c; cbn [starts_fresh]; auto. rewrite H. reflexivity. Qed.

Lemma set_idle_core sy s idle i : core_of (set_idle sy s idle) i = core_of sy i.
Proof. apply sel_core, set_idle_sel'. Qed.

Lemma deselect_spec ns s : NInv ns -> nmem s (ns_closed ns) = false ->
  Spec ns (Some s) false (with_sys ns (drop_sel (ns_sys ns) s)) (map R [Tagged OK CNone]).
Proof.
  intros [HI HC] Hc.
  assert (V : forall i, nview (with_sys ns (drop_sel (ns_sys ns) s)) i = if (i =? s)%N then None else nview ns i).
  { intros i. unfold nview. cbn [with_sys ns_sys]. apply drop_sel_view. }
  split; [split|].
  - cbn [with_sys ns_sys]. apply drop_sel_inv, HI.
  - cbn [with_sys ns_closed]. intros x Hx. rewrite V. destruct (x =? s)%N; auto.
  - split; [|split].
    + intros i Hi. rewrite V. destruct (i =? s)%N eqn:Ex; auto. apply N.eqb_eq in Ex; congruence.
    + intros s' Hs. inversion Hs; subst s'. rewrite has_bye_map_R, V, N.eqb_refl. exact I.
    + intros i j _ H. unfold attached in *. cbn [with_sys ns_sys] in H. rewrite drop_sel_sel in H.
      destruct (i =? s)%N; [discriminate|exact H].
Qed.

Lemma idle_dead_end_spec ns s : NInv ns ->
  Spec ns (Some s) false (fst (idle_dead_end ns s)) (snd (idle_dead_end ns s)).
Proof.
  intros HN. unfold idle_dead_end. cbn [fst snd].
  apply (quiet_spec' ns _ s [Tagged NO CNonexistent] HN); [left; reflexivity| | |reflexivity].
  - intros i. cbn [with_idead with_sys ns_sys]. apply set_idle_core.
  - cbn [with_idead with_sys ns_sys]. apply set_idle_inv', HN.
Qed.

Lemma stale_cmd_spec ns s x c : NInv ns -> ss_idle (sess_of (ns_sys ns) s) = false ->
  nmem s (ns_closed ns) = false ->
  Spec ns (Some s) (starts_fresh (ns_sys ns) (Cmd s c)) (fst (stale_cmd ns s x c)) (snd (stale_cmd ns s x c)).
Proof.
  intros HN Hi Hc. pose proof HN as [HI HC].
  assert (Hc' : forall s0, Some s = Some s0 -> nmem s0 (ns_closed ns) = false) by (intros s0 K; inversion K; subst; auto).
  destruct c; cbn [stale_cmd starts_fresh].
  - apply select_spec; auto.
  - (* APPEND *)
    destruct (rid ns box =? sel_box x)%N.
    + apply (inner_spec ns (Cmd s (CAppend (rid ns box) msgs pick)) HN Hc').
    + pose proof (drop_sel_inv (ns_sys ns) s HI) as HD.
      pose proof (inv_step (drop_sel (ns_sys ns) s) (Cmd s (CAppend (rid ns box) msgs pick)) HD) as I1.
      pose proof (step_sel_others (drop_sel (ns_sys ns) s) (Cmd s (CAppend (rid ns box) msgs pick))) as SO.
      destruct (step (drop_sel (ns_sys ns) s) (Cmd s (CAppend (rid ns box) msgs pick))) as [sy' rs].
      cbn [fst] in *.
      destruct (tagged_ok rs); cbn [fst snd].
      * apply close_spec; [| |apply only_tagged_filter].
        -- split; [exact I1|]. cbn [with_sys ns_closed]. intros y Hy. unfold nview. cbn [with_sys ns_sys].
           assert (y <> s) by (intros ->; congruence).
           rewrite core_view, (SO y HD); [|cbn; congruence].
           rewrite <- core_view, drop_sel_view. apply N.eqb_neq in H. rewrite H. apply (HC y Hy).
        -- intros i Hn. cbn [with_sys ns_sys]. rewrite (SO i HD); [|cbn; congruence].
           apply sel_core. rewrite drop_sel_sel. apply N.eqb_neq in Hn. rewrite Hn. reflexivity.
      * apply (quiet_spec ns s (filter is_tagged rs) HN). left. apply only_tagged_filter.
  - (* STORE *) apply say_spec; exact HN.
  - apply say_spec; exact HN.
  - apply say_spec; exact HN.
  - apply say_spec; exact HN.
  - apply say_spec; exact HN.
  - apply say_spec; exact HN.
  - apply say_spec; exact HN.
  - apply say_spec; exact HN.
  - (* LIST..: BYE *)
    apply (close_spec ns ns s [Tagged OK CNone] HN); auto.
  - apply (deselect_spec ns s HN Hc).
  - (* IDLE *)
    apply (quiet_spec' ns _ s [Cont] HN); [right; reflexivity| | |reflexivity].
    + intros i. cbn [with_idead with_sys ns_sys]. apply set_idle_core.
    + cbn [with_idead with_sys ns_sys]. apply set_idle_inv', HI.
Qed.

Lemma ncmd_spec ns s c : NInv ns ->
  Spec ns (Some s) (starts_fresh (ns_sys ns) (Cmd s c)) (fst (ncmd ns s c)) (snd (ncmd ns s c)).
Proof.
  intros HN. unfold ncmd.
  destruct (nmem s (ns_closed ns)) eqn:Hc.
  { apply closed_noop; auto. intros s0 K; inversion K; subst; auto. }
  assert (Hc' : forall s0, Some s = Some s0 -> nmem s0 (ns_closed ns) = false) by (intros s0 K; inversion K; subst; auto).
  destruct (ss_idle (sess_of (ns_sys ns) s)) eqn:Hi.
  { rewrite (idle_not_fresh _ _ c Hi). destruct (nmem s (ns_idead ns)).
    - apply idle_dead_end_spec; auto.
    - pose proof (inner_spec ns (Cmd s c) HN Hc') as S. rewrite (idle_not_fresh _ _ c Hi) in S. exact S. }
  assert (Plain : forall c0, (forall b ro, c0 <> CSelect b ro) ->
            Spec ns (Some s) (starts_fresh (ns_sys ns) (Cmd s c0))
                 (fst (inner ns (Cmd s (res_cmd (rid ns) c0)))) (snd (inner ns (Cmd s (res_cmd (rid ns) c0))))).
  { intros c0 _. rewrite <- (res_fresh (ns_sys ns) s (rid ns) c0).
    apply (inner_spec ns (Cmd s (res_cmd (rid ns) c0)) HN Hc'). }
  assert (Sel : forall b ro, Spec ns (Some s) (starts_fresh (ns_sys ns) (Cmd s (CSelect b ro)))
                                  (fst (select_cmd ns s b ro)) (snd (select_cmd ns s b ro))).
  { intros b ro. cbn [starts_fresh]. apply select_spec; auto. }
  destruct (sel_of (ns_sys ns) s) as [x|] eqn:Ex.
  - destruct (stale ns s).
    + apply stale_cmd_spec; auto.
    + destruct c; try apply Sel; apply Plain; intros; discriminate.
  - destruct c; try apply Sel; apply Plain; intros; discriminate.
Qed.

Lemma after_op_spec ns0 ns s own : NInv ns ->
  (forall i, core_of (ns_sys ns) i = core_of (ns_sys ns0) i) ->
  nmem s (ns_closed ns) = false ->
  Spec ns0 (Some s) false (fst (after_op ns s own)) (snd (after_op ns s own)).
Proof.
  intros HN E Hc. apply (spec_src ns ns0); [intros i; symmetry; apply E|].
  unfold after_op. destruct (sel_of (ns_sys ns) s) as [x|]; [|apply say_spec; exact HN].
  destruct own; [apply say_spec; exact HN|].
  destruct (stale ns s).
  - cbn [fst snd]. apply (close_spec ns ns s [Tagged OK CNone] HN); auto.
  - apply (inner_spec ns (Cmd s CTouch) HN). intros s0 K; inversion K; subst; auto.
Qed.

Lemma with_names_ninv ns nm : NInv ns -> NInv (with_names ns nm).
Proof. intros H. exact H. Qed.

Lemma ns_op_spec ns s l : NInv ns -> nmem s (ns_closed ns) = false ->
  nlabel_actor l = Some s ->
  Spec ns (Some s) false (fst (ns_op ns s l)) (snd (ns_op ns s l)).
Proof.
  intros HN Hc Ha.
  assert (Al : forall ns1 name, NInv ns1 -> (forall i, core_of (ns_sys ns1) i = core_of (ns_sys ns) i) ->
             ns_closed ns1 = ns_closed ns -> forall own,
             Spec ns (Some s) false (fst (after_op (alloc ns1 name (fun i => CreateBox i false)) s own))
                  (snd (after_op (alloc ns1 name (fun i => CreateBox i false)) s own))).
  { intros ns1 name H1 E1 C1 own.
    destruct (alloc_facts ns1 name (fun i => CreateBox i false) (fun _ => eq_refl) H1) as [A1 A2].
    apply after_op_spec; auto.
    - intros i. rewrite <- E1. apply sel_core, A2.
    - unfold alloc. cbn [ns_closed]. rewrite C1. exact Hc. }
  destruct l as [l0|s' name|s' name|s' src dst]; cbn [ns_op].
  - cbn [fst snd]. apply same_noop; auto.
  - destruct (name =? INBOX)%N; [apply say_spec; auto|].
    destruct (bound ns name); [apply noexists_spec; auto|].
    apply (Al ns name HN); auto.
  - destruct (name =? INBOX)%N; [apply say_spec; auto|].
    destruct (negb (bound ns name)); [apply say_spec; auto|].
    apply after_op_spec; auto.
  - destruct (dst =? INBOX)%N; [apply say_spec; auto|].
    destruct (aget src (ns_names ns)) as [i|]; [|apply say_spec; auto].
    destruct (bound ns dst); [apply noexists_spec; auto|].
    destruct (src =? INBOX)%N.
    + apply (Al (with_names ns (aset dst i (ns_names ns))) INBOX); auto.
    + apply after_op_spec; auto.
Qed.

Theorem nstep_spec ns l : NInv ns -> NSpec ns l (fst (nstep ns l)) (snd (nstep ns l)).
Proof.
  intros HN. unfold NSpec.
  assert (Op : forall s l0, nlabel_actor l0 = Some s -> nstarts_fresh ns l0 = false ->
            (forall x, l0 <> NOld x) ->
            Spec ns (Some s) false
                 (fst (if nmem s (ns_closed ns) then (ns, [])
                       else if ss_idle (sess_of (ns_sys ns) s) then ncmd ns s CNoop else ns_op ns s l0))
                 (snd (if nmem s (ns_closed ns) then (ns, [])
                       else if ss_idle (sess_of (ns_sys ns) s) then ncmd ns s CNoop else ns_op ns s l0))).
  { intros s l0 Ha _ _. destruct (nmem s (ns_closed ns)) eqn:Hc.
    - apply closed_noop; auto. intros s0 K; inversion K; subst; auto.
    - destruct (ss_idle (sess_of (ns_sys ns) s)).
      + apply (ncmd_spec ns s CNoop HN).
      + apply ns_op_spec; auto. }
  destruct l as [l0|s name|s name|s src dst]; cbn [nstep nlabel_actor nstarts_fresh];
    try (apply Op; [reflexivity|reflexivity|intros; discriminate]).
  destruct l0 as [s c|s|s|name fl rc ct|name ro|name]; cbn [label_actor].
  - apply ncmd_spec; auto.
  - cbn [starts_fresh]. destruct (nmem s (ns_closed ns)) eqn:Hc; cbn [orb].
    { apply closed_noop; auto. intros s0 K; inversion K; subst; auto. }
    destruct (nmem s (ns_idead ns)); [apply same_noop; auto|].
    pose proof (inner_spec ns (IdleWake s) HN) as S. cbn [label_actor starts_fresh] in S.
    assert (Hc' : forall s0, Some s = Some s0 -> nmem s0 (ns_closed ns) = false) by (intros s0 K; inversion K; subst; auto).
    specialize (S Hc'). destruct (inner ns (IdleWake s)) as [ns' rs]. cbn [fst snd] in *.
    destruct (ss_idle (sess_of (ns_sys ns') s) && stale ns' s); cbn [fst snd]; auto.
  - cbn [starts_fresh]. destruct (nmem s (ns_closed ns)) eqn:Hc.
    { apply closed_noop; auto. intros s0 K; inversion K; subst; auto. }
    destruct (ss_idle (sess_of (ns_sys ns) s) && nmem s (ns_idead ns)).
    + apply idle_dead_end_spec; auto.
    + apply (inner_spec ns (IdleDone s) HN). intros s0 K; inversion K; subst; auto.
  - apply (inner_spec ns (Deliver (rid ns name) fl rc ct) HN). intros s0 K; discriminate.
  - cbn [starts_fresh]. destruct (bound ns name); cbn [fst snd]; [apply same_noop; auto|].
    destruct (alloc_facts ns name (fun i => CreateBox i ro) (fun _ => eq_refl) HN) as [A1 A2].
    apply (spec_src (alloc ns name (fun i => CreateBox i ro)) ns);
      [intros i; symmetry; apply sel_core, A2|]. apply same_noop; auto.
  - cbn [starts_fresh]. destruct (bound ns name); cbn [fst snd]; [apply same_noop; auto|].
    destruct (alloc_facts ns name CreateMaildir (fun _ => eq_refl) HN) as [A1 A2].
    apply (spec_src (alloc ns name CreateMaildir) ns);
      [intros i; symmetry; apply sel_core, A2|]. apply same_noop; auto.
Qed.

Theorem ninv_step ns l : NInv ns -> NInv (fst (nstep ns l)).
Proof. intros H. apply (nstep_spec ns l H). Qed.
Theorem ninv_exec ls : forall ns, NInv ns -> NInv (nexec ns ls).
Proof.
  induction ls as [|l r IH]; intros ns H; [exact H|]. cbn [nexec fold_left]. apply IH, ninv_step, H.
Qed.
Theorem ninv_reachable ls : NInv (nexec ns_empty ls).
Proof. apply ninv_exec, ninv_empty. Qed.

(* ------------------------------------------------ C01: the shadow clients *)
Definition NAgree (ns : nsys) (cls : N -> option (list N)) : Prop := forall i, cls i = nview ns i.

Lemma nshadow_step_ok ns cls l : NInv ns -> NAgree ns cls ->
  exists cls', nshadow_step (ns, cls) l = Some (fst (nstep ns l), cls')
               /\ NAgree (fst (nstep ns l)) cls'.
Proof.
  intros HN Ag. pose proof (nstep_spec ns l HN) as (I1 & Fr & Cl & _).
  unfold nshadow_step. destruct (nstep ns l) as [ns' rs] eqn:Es. cbn [fst snd] in *.
  assert (Upd : forall s v, nlabel_actor l = Some s -> nview ns' s = v -> NAgree ns' (cl_update s v cls)).
  { intros s v Ha Hv i. unfold cl_update. destruct (i =? s)%N eqn:Ei.
    - apply N.eqb_eq in Ei; subst. auto.
    - apply N.eqb_neq in Ei. rewrite Ag. symmetry. apply Fr. congruence. }
  destruct (nlabel_actor l) as [s|] eqn:Ea.
  - specialize (Cl s eq_refl). destruct (has_bye rs).
    + destruct Cl as (C1 & C2 & C3). rewrite C1, C2, C3. cbn [is_some negb andb].
      eexists. split; [reflexivity|]. apply Upd; auto.
    + destruct (nview ns' s) as [V'|] eqn:Ev.
      * destruct Cl as [start [E1 E2]].
        assert (Hst : (if nstarts_fresh ns l then Some [] else cls s) = Some start).
        { destruct (nstarts_fresh ns l); [congruence|]. rewrite Ag. exact E1. }
        rewrite Hst, client_run_eq, E2. cbn [option_map fst].
        eexists. split; [reflexivity|]. apply Upd; auto.
      * eexists. split; [reflexivity|]. apply Upd; auto.
  - exists cls. split; [reflexivity|]. intros i. rewrite Ag. symmetry. apply Fr. discriminate.
Qed.

Theorem nshadow_exec_ok ls : forall ns cls, NInv ns -> NAgree ns cls ->
  exists cls', nshadow_exec (ns, cls) ls = Some (nexec ns ls, cls') /\ NAgree (nexec ns ls) cls'.
Proof.
  induction ls as [|l r IH]; intros ns cls HN Ag.
  - exists cls. split; [reflexivity|exact Ag].
  - destruct (nshadow_step_ok ns cls l HN Ag) as [cls1 [E1 A1]].
    cbn [nshadow_exec]. rewrite E1.
    destruct (IH (fst (nstep ns l)) cls1 (ninv_step ns l HN) A1) as [cls' [E2 A2]].
    exists cls'. split; [exact E2|exact A2].
Qed.

Theorem ns_clients_in_sync ls :
  exists cls, nshadow_exec (ns_empty, fun _ => None) ls = Some (nexec ns_empty ls, cls)
              /\ forall s, cls s = nview (nexec ns_empty ls) s.
Proof. apply nshadow_exec_ok; [apply ninv_empty|intros i; reflexivity]. Qed.

(* a connection that was told BYE has no selection, in every reachable state *)
Theorem ns_closed_no_selection ls s :
  nmem s (ns_closed (nexec ns_empty ls)) = true -> attached (nexec ns_empty ls) s = None.
Proof.
  intros H. destruct (ninv_reachable ls) as [_ HC]. specialize (HC s H).
  unfold nview in HC. apply view_attached in HC. exact HC.
Qed.

(* a connection is never moved to another mailbox object by anything but its own SELECT *)
Theorem ns_never_reattached ls l s j :
  let ns := nexec ns_empty ls in
  (nlabel_actor l = Some s -> nstarts_fresh ns l = false) ->
  attached (fst (nstep ns l)) s = Some j -> attached ns s = Some j.
Proof.
  cbn zeta. intros Hf H. pose proof (nstep_spec _ l (ninv_reachable ls)) as (_ & _ & _ & Kb).
  apply Kb; auto.
Qed.

(* what a stale selection is answered: SELECT/EXAMINE aside (and APPEND into the very object
   it has selected, under its new name — finding C10-F4), every response is BYE, a tagged
   response or the IDLE continuation: no EXPUNGE, EXISTS, RECENT, FETCH or SEARCH data *)
Definition told (r : nresp) : Prop := r = Bye \/ exists t, r = R t /\ tagged_fine t.
Theorem ns_stale_told ns s x c :
  sel_of (ns_sys ns) s = Some x -> stale ns s = true ->
  nmem s (ns_closed ns) = false -> ss_idle (sess_of (ns_sys ns) s) = false ->
  match c with
  | CSelect _ _ => True
  | CAppend name _ _ =>
    rid ns name = sel_box x \/ forall r, In r (snd (nstep ns (NOld (Cmd s c)))) -> told r
  | _ => forall r, In r (snd (nstep ns (NOld (Cmd s c)))) -> told r
  end.
Proof.
  intros Hx Hs Hc Hi.
  assert (T1 : forall cd k r, In r [R (Tagged cd k)] -> told r).
  { intros cd k r [<-|[]]. right. eexists. split; [reflexivity|]. left; eauto. }
  assert (T2 : forall r, In r [Bye; R (Tagged OK CNone)] -> told r).
  { intros r [<-|[<-|[]]]; [left; reflexivity|]. right. eexists. split; [reflexivity|]. left; eauto. }
  assert (T3 : forall rs r, In r (map R (filter is_tagged rs)) -> told r).
  { intros rs r H. apply in_map_iff in H. destruct H as [t [<- Ht]]. apply filter_In in Ht.
    destruct Ht as [_ Ht]. destruct t; try discriminate. right. eexists. split; [reflexivity|].
    left; eauto. }
  cbn [nstep]. unfold ncmd. rewrite Hc, Hi, Hx, Hs.
  destruct c; cbn [stale_cmd say snd]; auto; try (apply T1); try (apply T2).
  - destruct (rid ns box =? sel_box x)%N eqn:E; [left; apply N.eqb_eq; exact E|right].
    destruct (step (drop_sel (ns_sys ns) s) (Cmd s (CAppend (rid ns box) msgs pick))) as [sy' rs].
    destruct (tagged_ok rs); cbn [snd].
    + intros r [<-|H]; [left; reflexivity|apply (T3 rs r H)].
    + apply T3.
  - intros r [<-|[]]. right. eexists. split; [reflexivity|]. right; reflexivity.
Qed.

(* ------------------------------------------------------------------ C02 *)
(* NOOP / CHECK of a connection with a selection: either the selection is stale and the
   answer is NO [NONEXISTENT] with nothing changed, or the connection converges to the
   mailbox object that the name it selected denotes *)
Theorem ns_noop_converges ns s x c : NInv ns ->
  sel_of (ns_sys ns) s = Some x -> nmem s (ns_closed ns) = false ->
  ss_idle (sess_of (ns_sys ns) s) = false -> c = CNoop \/ c = CCheck ->
  if stale ns s
  then nstep ns (NOld (Cmd s c)) = (ns, [R (Tagged NO CNonexistent)])
  else
    let ns' := fst (nstep ns (NOld (Cmd s c))) in
    exists n s' b', aget s (ns_look ns') = Some n /\ aget n (ns_names ns') = Some (sel_box s')
      /\ sel_of (ns_sys ns') s = Some s'
      /\ aget (sel_box s') (sy_boxes (ns_sys ns')) = Some b'
      /\ v_sorted (sel_view s') = mb_uids b'
      /\ v_pending (sel_view s') = []
      /\ (forall u m, mb_alive u b' = Some m -> aget u (v_fkeys (sel_view s')) = Some (m_flags m)).
Proof.
  intros [HI _] Hx Hc Hi Hcc. cbn [nstep]. unfold ncmd. rewrite Hc, Hi, Hx.
  destruct (stale ns s) eqn:Hs.
  - destruct Hcc as [-> | ->]; reflexivity.
  - cbn zeta.
    assert (E : (match c with
                 | CSelect name ro => select_cmd ns s name ro
                 | _ => inner ns (Cmd s (res_cmd (rid ns) c)) end) = inner ns (Cmd s c))
      by (destruct Hcc as [-> | ->]; reflexivity).
    rewrite E. unfold inner.
    destruct (noop_converges (ns_sys ns) s x c HI Hx Hi Hcc) as (s' & b' & A1 & A2 & A3 & A4 & A5 & A6 & A7).
    destruct (step (ns_sys ns) (Cmd s c)) as [sy' rs]. cbn [fst with_sys ns_sys ns_look ns_names] in *.
    unfold stale in Hs. rewrite Hx in Hs.
    destruct (aget s (ns_look ns)) as [n|] eqn:El; [|discriminate].
    destruct (aget n (ns_names ns)) as [i|] eqn:En; [|discriminate].
    apply Bool.negb_false_iff, N.eqb_eq in Hs. subst i.
    exists n, s', b'. rewrite A7. repeat split; auto. rewrite <- A7. exact A2.
Qed.

Theorem ns_converges ls s x c :
  let ns := nexec ns_empty ls in
  sel_of (ns_sys ns) s = Some x -> nmem s (ns_closed ns) = false ->
  ss_idle (sess_of (ns_sys ns) s) = false -> c = CNoop \/ c = CCheck ->
  if stale ns s
  then nstep ns (NOld (Cmd s c)) = (ns, [R (Tagged NO CNonexistent)])
  else
    let ns' := fst (nstep ns (NOld (Cmd s c))) in
    exists n s' b', aget s (ns_look ns') = Some n /\ aget n (ns_names ns') = Some (sel_box s')
      /\ sel_of (ns_sys ns') s = Some s'
      /\ aget (sel_box s') (sy_boxes (ns_sys ns')) = Some b'
      /\ v_sorted (sel_view s') = mb_uids b'
      /\ v_pending (sel_view s') = []
      /\ (forall u m, mb_alive u b' = Some m -> aget u (v_fkeys (sel_view s')) = Some (m_flags m)).
Proof.
  cbn zeta. intros Hx Hc Hi Hcc.
  apply (ns_noop_converges (nexec ns_empty ls) s x c (ninv_reachable ls) Hx Hc Hi Hcc).
Qed.
