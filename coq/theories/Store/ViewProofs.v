(* Store/ViewProofs.v — SynchronizedMessages: _update keeps _sorted strictly
   ascending and _seqs_cache exact although it renumbers only from the lowest
   insertion index; _remove rebuilds both; get_uids/get_all label each message
   with its position. *)
From PV Require Import Base.Prelude Store.Base Store.BaseProofs Store.Flags Store.View
     Store.Compare Store.CompareProofs Wire.SeqSet.
From Coq Require Import Lia ZifyBool.

(* ------------------------------------------------ bisect_right / insert_at *)
Lemma bisect_right_le x l : (bisect_right x l <= length l)%nat.
Proof. induction l as [|y r IH]; cbn [bisect_right length]; [lia|]. destruct (x <? y)%N; lia. Qed.

Lemma insert_at_In {A} i (x y : A) l : In y (insert_at i x l) <-> y = x \/ In y l.
Proof.
  revert l. induction i as [|i IH]; intros l; cbn [insert_at].
  - cbn [In]. intuition.
  - destruct l as [|z r]; cbn [In]; [intuition|]. rewrite IH. intuition.
Qed.
Lemma insert_at_length {A} i (x : A) l : length (insert_at i x l) = S (length l).
Proof.
  revert l. induction i as [|i IH]; intros l; cbn [insert_at length]; auto.
  destruct l; cbn [length]; auto.
Qed.
Lemma insert_at_nth_lt {A} i (x : A) l j :
  (j < i)%nat -> (i <= length l)%nat -> nth_error (insert_at i x l) j = nth_error l j.
Proof.
  revert l j. induction i as [|i IH]; intros l j H1 H2; [lia|].
  destruct l as [|z r]; cbn [length] in H2; [lia|]. cbn [insert_at].
  destruct j; cbn [nth_error]; auto. apply IH; lia.
Qed.

Lemma insert_bisect_ssorted x l :
  ssorted l -> ~ In x l -> ssorted (insert_at (bisect_right x l) x l).
Proof.
  induction l as [|y r IH]; cbn [bisect_right insert_at ssorted].
  - intros _ _. split; auto. intros ? [].
  - intros [H1 H2] Hn. destruct (x <? y)%N eqn:E; cbn [insert_at ssorted].
    + repeat split; auto. intros z [<-|K]; [lia|]. specialize (H1 _ K). lia.
    + split.
      * intros z K. apply insert_at_In in K as [->|K]; [|auto].
        assert (x <> y) by (intros ->; apply Hn; left; auto). lia.
      * apply IH; auto. intros K; apply Hn; right; auto.
Qed.

(* ------------------------------------------------------------- renumber *)
Definition pfx_ok (n : nat) (seqs : list (N * N)) (l : list N) : Prop :=
  forall i u, (i < n)%nat -> nth_error l i = Some u -> aget u seqs = Some (N.of_nat (S i)).

Lemma pfx_ok_all seqs l : pfx_ok (length l) seqs l <-> seqs_ok seqs l.
Proof.
  split; intros H i u; [|intros _; apply H].
  intros K. apply H; auto. apply nth_error_Some. congruence.
Qed.

Lemma renumber_pre suf : forall pre seqs l,
  l = pre ++ suf -> NoDup l -> pfx_ok (length pre) seqs l ->
  seqs_ok (renumber (N.of_nat (length pre) + 1) suf seqs) l.
Proof.
  induction suf as [|x r IH]; intros pre seqs l El ND P.
  - cbn [renumber]. subst l. rewrite app_nil_r in *. apply pfx_ok_all. exact P.
  - cbn [renumber].
    replace (N.of_nat (length pre) + 1 + 1)%N with (N.of_nat (length (pre ++ [x])) + 1)%N
      by (rewrite app_length; cbn [length]; lia).
    apply IH.
    + subst l. rewrite <- app_assoc. reflexivity.
    + exact ND.
    + intros i u Hi Hn. rewrite app_length in Hi. cbn [length] in Hi.
      assert (Hx : nth_error l (length pre) = Some x).
      { subst l. rewrite nth_error_app2 by lia. rewrite Nat.sub_diag. reflexivity. }
      destruct (Nat.eq_dec i (length pre)) as [->|Ne].
      * rewrite Hx in Hn. inversion Hn; subst. rewrite aget_aset_eq. f_equal. lia.
      * rewrite aget_aset_neq.
        -- apply P; auto. lia.
        -- intros ->. rewrite NoDup_nth_error in ND.
           assert (i = length pre); [|lia].
           apply ND; [apply nth_error_Some; congruence|congruence].
Qed.

Lemma renumber_from n seqs l :
  NoDup l -> (n <= length l)%nat -> pfx_ok n seqs l ->
  seqs_ok (renumber (N.of_nat n + 1) (skipn n l) seqs) l.
Proof.
  intros ND Hn P.
  assert (L : length (firstn n l) = n) by (rewrite firstn_length; lia).
  rewrite <- L at 1. apply renumber_pre; auto.
  - symmetry. apply firstn_skipn.
  - rewrite L. exact P.
Qed.

Lemma renumber_all l : NoDup l -> seqs_ok (renumber 1 l []) l.
Proof.
  intros ND. apply (renumber_pre l [] [] l); auto. intros i u Hi. cbn [length] in Hi. lia.
Qed.

(* ---------------------------------------------------------- view_update *)
Definition low_n (low : option nat) (l : list N) : nat :=
  match low with None => length l | Some i => i end.

Definition upd_inv (seqs0 : list (N * N)) (st : view * option nat) : Prop :=
  let '(v, low) := st in
  ssorted (v_sorted v) /\ v_seqs v = seqs0 /\
  (low_n low (v_sorted v) <= length (v_sorted v))%nat /\
  pfx_ok (low_n low (v_sorted v)) seqs0 (v_sorted v).

Lemma view_update1_inv seqs0 st m : upd_inv seqs0 st -> upd_inv seqs0 (view_update1 st m).
Proof.
  destruct st as [v low], m as [u f]. cbn [upd_inv view_update1].
  intros (S & Q & L & P). destruct (nmem u (v_sorted v)) eqn:E; cbn [upd_inv v_sorted v_seqs].
  - auto.
  - apply nmem_false in E.
    pose proof (bisect_right_le u (v_sorted v)) as B.
    assert (Ln : low_n (min_idx low (bisect_right u (v_sorted v)))
                       (insert_at (bisect_right u (v_sorted v)) u (v_sorted v))
                 = Nat.min (low_n low (v_sorted v)) (bisect_right u (v_sorted v))).
    { destruct low; cbn [min_idx low_n]; lia. }
    rewrite Ln. repeat split.
    + apply insert_bisect_ssorted; auto.
    + exact Q.
    + rewrite insert_at_length. lia.
    + intros i w Hi Hn. rewrite insert_at_nth_lt in Hn by lia. apply P; auto. lia.
Qed.

Lemma fold_update1_inv seqs0 msgs : forall st,
  upd_inv seqs0 st -> upd_inv seqs0 (fold_left view_update1 msgs st).
Proof.
  induction msgs as [|m r IH]; intros st H; cbn [fold_left]; auto.
  apply IH, view_update1_inv, H.
Qed.

Lemma fold_update1_sorted_In msgs : forall st u,
  In u (v_sorted (fst (fold_left view_update1 msgs st))) <->
  In u (v_sorted (fst st)) \/ In u (map fst msgs).
Proof.
  induction msgs as [|[w f] r IH]; intros [v low] u; cbn [fold_left map fst In]; [tauto|].
  rewrite IH. cbn [view_update1]. destruct (nmem w (v_sorted v)) eqn:E; cbn [fst v_sorted].
  - apply nmem_In in E. split; [tauto|]. intros [H|[<-|H]]; auto.
  - rewrite insert_at_In. intuition congruence.
Qed.

Lemma fold_update1_other msgs : forall st,
  v_pending (fst (fold_left view_update1 msgs st)) = v_pending (fst st).
Proof.
  induction msgs as [|[w f] r IH]; intros [v low]; cbn [fold_left]; auto.
  rewrite IH. cbn [view_update1]. destruct (nmem w (v_sorted v)); reflexivity.
Qed.

Lemma fold_update1_fkeys_out msgs : forall st u,
  ~ In u (map fst msgs) ->
  aget u (v_fkeys (fst (fold_left view_update1 msgs st))) = aget u (v_fkeys (fst st)).
Proof.
  induction msgs as [|[w f] r IH]; intros [v low] u Hn; cbn [fold_left]; auto.
  cbn [map fst In] in Hn. rewrite IH by tauto. cbn [view_update1].
  destruct (nmem w (v_sorted v)); cbn [fst v_fkeys]; apply aget_aset_neq; intros ->; tauto.
Qed.
Lemma fold_update1_fkeys_in msgs : forall st u f,
  NoDup (map fst msgs) -> In (u, f) msgs ->
  aget u (v_fkeys (fst (fold_left view_update1 msgs st))) = Some f.
Proof.
  induction msgs as [|[w g] r IH]; intros [v low] u f ND Hin; [destruct Hin|].
  cbn [fold_left]. cbn [map fst] in ND. inversion ND; subst. destruct Hin as [H|H].
  - inversion H; subst. rewrite fold_update1_fkeys_out by auto. cbn [view_update1].
    destruct (nmem u (v_sorted v)); cbn [fst v_fkeys]; apply aget_aset_eq.
  - apply IH; auto.
Qed.

Section ViewUpdate.
  Variables (msgs : list (N * flags)) (v : view).
  Hypothesis Hs : ssorted (v_sorted v).
  Hypothesis Hq : seqs_ok (v_seqs v) (v_sorted v).

  Let st := fold_left view_update1 msgs (v, None).

  Lemma st_inv : upd_inv (v_seqs v) st.
  Proof.
    apply fold_update1_inv. cbn [upd_inv low_n]. repeat split; auto.
    apply pfx_ok_all, Hq.
  Qed.

  Lemma vu_sorted_eq : v_sorted (view_update msgs v) = v_sorted (fst st).
  Proof. unfold view_update. fold st. destruct st as [v' [i|]]; reflexivity. Qed.
  Lemma vu_fkeys_eq : v_fkeys (view_update msgs v) = v_fkeys (fst st).
  Proof. unfold view_update. fold st. destruct st as [v' [i|]]; reflexivity. Qed.

  Lemma vu_pending : v_pending (view_update msgs v) = v_pending v.
  Proof.
    unfold view_update. fold st.
    pose proof (fold_update1_other msgs (v, None)) as H. fold st in H. cbn [fst] in H.
    destruct st as [v' [i|]]; cbn [v_pending fst] in *; auto.
  Qed.

  Lemma vu_ssorted : ssorted (v_sorted (view_update msgs v)).
  Proof. rewrite vu_sorted_eq. pose proof st_inv as H. destruct st; apply H. Qed.

  Lemma vu_In u : In u (v_sorted (view_update msgs v)) <-> In u (v_sorted v) \/ In u (map fst msgs).
  Proof. rewrite vu_sorted_eq. unfold st. rewrite fold_update1_sorted_In. reflexivity. Qed.

  Lemma vu_seqs_ok : seqs_ok (v_seqs (view_update msgs v)) (v_sorted (view_update msgs v)).
  Proof.
    pose proof st_inv as H. unfold view_update. fold st. destruct st as [v' [i|]].
    - cbn [upd_inv low_n] in H. destruct H as (S & Q & L & P). cbn [v_seqs v_sorted].
      rewrite Q. replace (N.of_nat i + 1)%N with (N.of_nat i + 1)%N by reflexivity.
      apply renumber_from; auto. apply ssorted_NoDup, S.
    - cbn [upd_inv low_n] in H. destruct H as (S & Q & L & P). rewrite Q. apply pfx_ok_all, P.
  Qed.

  Lemma vu_fkeys_out u : ~ In u (map fst msgs) -> aget u (v_fkeys (view_update msgs v)) = aget u (v_fkeys v).
  Proof. intros H. rewrite vu_fkeys_eq. unfold st. rewrite fold_update1_fkeys_out; auto. Qed.
  Lemma vu_fkeys_in u f : NoDup (map fst msgs) -> In (u, f) msgs ->
    aget u (v_fkeys (view_update msgs v)) = Some f.
  Proof. intros H1 H2. rewrite vu_fkeys_eq. unfold st. apply fold_update1_fkeys_in; auto. Qed.
End ViewUpdate.

(* ---------------------------------------------------------- view_remove *)
Lemma aget_filter_keys {V} (p : N -> bool) (l : list (N * V)) k :
  p k = true -> aget k (filter (fun kv => p (fst kv)) l) = aget k l.
Proof.
  intros Hp. induction l as [|[k' v'] r IH]; cbn [filter aget fst]; auto.
  destruct (p k') eqn:E; cbn [aget].
  - destruct (k =? k')%N; auto.
  - destruct (k =? k')%N eqn:E2; auto. apply N.eqb_eq in E2; subst. congruence.
Qed.

Lemma existsb_false_filter (gone l : list N) :
  existsb (fun u => nmem u l) gone = false -> filter (fun u => negb (nmem u gone)) l = l.
Proof.
  intros H. apply filter_all. intros x Hx. apply negb_true_iff, nmem_false. intros K.
  assert (existsb (fun u => nmem u l) gone = true); [|congruence].
  apply existsb_exists. exists x. split; auto. apply nmem_In, Hx.
Qed.

Section ViewRemove.
  Variables (uids : list N) (v : view).
  Hypothesis Hs : ssorted (v_sorted v).
  Hypothesis Hq : seqs_ok (v_seqs v) (v_sorted v).

  Let gone := uids ++ v_pending v.

  Lemma vr_sorted : v_sorted (view_remove uids false v)
                    = filter (fun u => negb (nmem u gone)) (v_sorted v).
  Proof.
    unfold view_remove. fold gone. destruct (existsb _ gone) eqn:E; cbn [v_sorted]; auto.
    symmetry. apply existsb_false_filter, E.
  Qed.
  Lemma vr_In u : In u (v_sorted (view_remove uids false v)) <->
                  In u (v_sorted v) /\ ~ In u uids /\ ~ In u (v_pending v).
  Proof.
    rewrite vr_sorted, filter_In, negb_true_iff, nmem_false. unfold gone. rewrite in_app_iff. tauto.
  Qed.
  Lemma vr_ssorted : ssorted (v_sorted (view_remove uids false v)).
  Proof. rewrite vr_sorted. apply ssorted_filter, Hs. Qed.
  Lemma vr_seqs_ok : seqs_ok (v_seqs (view_remove uids false v)) (v_sorted (view_remove uids false v)).
  Proof.
    unfold view_remove. fold gone. destruct (existsb _ gone) eqn:E; cbn [v_seqs v_sorted]; auto.
    apply renumber_all, ssorted_NoDup, ssorted_filter, Hs.
  Qed.
  Lemma vr_pending : v_pending (view_remove uids false v) = [].
  Proof. unfold view_remove. destruct (existsb _ _); reflexivity. Qed.
  Lemma vr_fkeys u : ~ In u uids -> ~ In u (v_pending v) ->
    aget u (v_fkeys (view_remove uids false v)) = aget u (v_fkeys v).
  Proof.
    intros H1 H2. unfold view_remove. fold gone. destruct (existsb _ gone); cbn [v_fkeys]; auto.
    apply (aget_filter_keys (fun k => negb (nmem k gone))).
    apply negb_true_iff, nmem_false. unfold gone. rewrite in_app_iff. tauto.
  Qed.

  (* pending = True: only _pending_remove grows *)
  Lemma vrp_same : v_sorted (view_remove uids true v) = v_sorted v
                   /\ v_seqs (view_remove uids true v) = v_seqs v
                   /\ v_fkeys (view_remove uids true v) = v_fkeys v.
  Proof. unfold view_remove. cbn. auto. Qed.
  Lemma vrp_pending u : In u (v_pending (view_remove uids true v)) <-> In u (v_pending v) \/ In u uids.
  Proof. unfold view_remove. cbn [v_pending]. apply nunion_In. Qed.
End ViewRemove.

(* ---------------------------------------------------------- view_select *)
Lemma enumerate_from_spec {A} (l : list A) : forall k n x,
  In (n, x) (enumerate_from k l) <->
  exists i, nth_error l i = Some x /\ n = (k + N.of_nat i)%N.
Proof.
  induction l as [|y r IH]; intros k n x; cbn [enumerate_from In].
  - split; [tauto|]. intros [i [H _]]. destruct i; discriminate.
  - rewrite IH. split.
    + intros [H|[i [H1 H2]]].
      * inversion H; subst. exists 0%nat. split; [reflexivity|lia].
      * exists (S i). split; [exact H1|lia].
    + intros [[|i] [H1 H2]]; cbn [nth_error] in H1.
      * inversion H1; subst. left. f_equal. lia.
      * right. exists i. split; [auto|lia].
Qed.

Lemma view_select_spec sset by_uid v n u :
  In (n, u) (view_select sset by_uid v) ->
  (n <> 0)%N /\ nth_error (v_sorted v) (N.to_nat n - 1) = Some u.
Proof.
  unfold view_select. intros H.
  assert (K : In (n, u) (enumerate_from 1 (v_sorted v))).
  { destruct by_uid; apply filter_In in H; apply H. }
  apply enumerate_from_spec in K as [i [K1 K2]]. split; [lia|].
  replace (N.to_nat n - 1)%nat with i by lia. exact K1.
Qed.

Lemma enumerate_from_snd {A} (l : list A) k : map snd (enumerate_from k l) = l.
Proof. revert k. induction l as [|x r IH]; intros k; cbn [enumerate_from map snd]; f_equal; auto. Qed.

Lemma NoDup_map_filter {A B} (g : A -> B) (p : A -> bool) l :
  NoDup (map g l) -> NoDup (map g (filter p l)).
Proof.
  induction l as [|x r IH]; cbn [map filter]; auto. intros ND. inversion ND; subst.
  destruct (p x); cbn [map]; auto. constructor; auto.
  intros K. apply H1. apply in_map_iff in K as [y [K1 K2]]. apply filter_In in K2 as [K2 _].
  apply in_map_iff. exists y; auto.
Qed.

Lemma view_select_NoDup sset by_uid v :
  NoDup (v_sorted v) -> NoDup (map snd (view_select sset by_uid v)).
Proof.
  intros ND. unfold view_select.
  destruct by_uid; apply NoDup_map_filter; rewrite enumerate_from_snd; exact ND.
Qed.
Lemma view_select_In sset by_uid v n u :
  In (n, u) (view_select sset by_uid v) -> In u (v_sorted v).
Proof. intros H. apply view_select_spec in H as [_ H]. eapply nth_error_In, H. Qed.

(* ---------------------------------------- _flags_key_map has one entry per uid *)
Lemma fold_update1_knd msgs : forall st,
  NoDup (akeys (v_fkeys (fst st))) ->
  NoDup (akeys (v_fkeys (fst (fold_left view_update1 msgs st)))).
Proof.
  induction msgs as [|[w f] r IH]; intros [v low] H; cbn [fold_left]; auto.
  apply IH. cbn [view_update1]. destruct (nmem w (v_sorted v)); cbn [fst v_fkeys];
    apply akeys_aset_NoDup, H.
Qed.
Lemma vu_knd msgs v : NoDup (akeys (v_fkeys v)) -> NoDup (akeys (v_fkeys (view_update msgs v))).
Proof.
  intros H. pose proof (fold_update1_knd msgs (v, None) H) as K. unfold view_update.
  destruct (fold_left view_update1 msgs (v, None)) as [v' [i|]]; exact K.
Qed.
Lemma vr_knd uids p v : NoDup (akeys (v_fkeys v)) -> NoDup (akeys (v_fkeys (view_remove uids p v))).
Proof.
  intros H. unfold view_remove. destruct p; [exact H|].
  destruct (existsb _ _); cbn [v_fkeys]; [|exact H].
  unfold akeys. apply NoDup_map_filter. exact H.
Qed.
