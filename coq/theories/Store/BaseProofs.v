(* Store/BaseProofs.v — lemmas about Store/Base.v (assoc lists, N-sets,
   strictly ascending lists). *)
From PV Require Import Base.Prelude Store.Base.
From Coq Require Import Lia ZifyBool.

(* ------------------------------------------------------------------ nmem *)
Lemma nmem_In x l : nmem x l = true <-> In x l.
Proof.
  induction l as [|y r IH]; cbn [nmem In]; [split; [discriminate|tauto]|].
  rewrite orb_true_iff, IH, N.eqb_eq. split; intros [H|H]; auto.
Qed.
Lemma nmem_false x l : nmem x l = false <-> ~ In x l.
Proof. rewrite <- nmem_In. destruct (nmem x l); split; congruence. Qed.

Lemma nadd_In x y l : In y (nadd x l) <-> y = x \/ In y l.
Proof.
  unfold nadd. destruct (nmem x l) eqn:E.
  - apply nmem_In in E. split; [auto|]. intros [->|H]; auto.
  - rewrite in_app_iff. cbn [In]. intuition.
Qed.

Lemma nunion_In a b y : In y (nunion a b) <-> In y a \/ In y b.
Proof.
  unfold nunion. revert a. induction b as [|x r IH]; intros a; cbn [fold_left In].
  - tauto.
  - rewrite IH, nadd_In. split; intros H; intuition subst; auto.
Qed.

Lemma ndel_In x y l : In y (ndel x l) <-> In y l /\ y <> x.
Proof.
  induction l as [|z r IH]; cbn [ndel In]; [tauto|].
  destruct (x =? z)%N eqn:E.
  - apply N.eqb_eq in E; subst z. rewrite IH. split; [tauto|]. intros [[H|H] N]; [congruence|tauto].
  - apply N.eqb_neq in E. cbn [In]. rewrite IH. split.
    + intros [H|[H N]]; [subst; split; [auto|congruence]|tauto].
    + intros [[H|H] N]; auto.
Qed.

Lemma ndiff_In a b y : In y (ndiff a b) <-> In y a /\ ~ In y b.
Proof. unfold ndiff. rewrite filter_In, negb_true_iff, nmem_false. tauto. Qed.
Lemma ninter_In a b y : In y (ninter a b) <-> In y a /\ In y b.
Proof. unfold ninter. rewrite filter_In, nmem_In. tauto. Qed.

Lemma nadd_NoDup x l : NoDup l -> NoDup (nadd x l).
Proof.
  intros H. unfold nadd. destruct (nmem x l) eqn:E; [exact H|].
  apply nmem_false in E.
  induction l as [|y r IH]; cbn [app].
  - constructor; [intros []|constructor].
  - inversion H; subst. constructor.
    + rewrite in_app_iff. cbn [In]. intros [K|[K|[]]]; [auto|]. apply E. left; auto.
    + apply IH; auto. intros K; apply E; right; auto.
Qed.
Lemma nunion_NoDup a b : NoDup a -> NoDup (nunion a b).
Proof.
  unfold nunion. revert a. induction b as [|x r IH]; intros a H; cbn [fold_left]; auto.
  apply IH, nadd_NoDup, H.
Qed.

(* ----------------------------------------------------------------- assoc *)
Section AssocLemmas.
  Context {V : Type}.
  Implicit Types l : list (N * V).

  Lemma aget_aset_eq k v l : aget k (aset k v l) = Some v.
  Proof.
    induction l as [|[k' v'] r IH]; cbn [aset aget]; [rewrite N.eqb_refl; auto|].
    destruct (k =? k')%N eqn:E; cbn [aget]; rewrite ?N.eqb_refl, ?E; auto.
  Qed.
  Lemma aget_aset_neq k k' v l : k <> k' -> aget k (aset k' v l) = aget k l.
  Proof.
    intros N. induction l as [|[k2 v2] r IH]; cbn [aset aget].
    - destruct (k =? k')%N eqn:E; [apply N.eqb_eq in E; congruence|auto].
    - destruct (k' =? k2)%N eqn:E; cbn [aget].
      + apply N.eqb_eq in E; subst k2.
        destruct (k =? k')%N eqn:E2; [apply N.eqb_eq in E2; congruence|auto].
      + destruct (k =? k2)%N; auto.
  Qed.
  Lemma aget_aset k k' v l :
    aget k (aset k' v l) = if (k =? k')%N then Some v else aget k l.
  Proof.
    destruct (k =? k')%N eqn:E.
    - apply N.eqb_eq in E; subst; apply aget_aset_eq.
    - apply N.eqb_neq in E. apply aget_aset_neq; auto.
  Qed.

  Lemma aget_In_keys k l : aget k l <> None <-> In k (akeys l).
  Proof.
    unfold akeys. induction l as [|[k' v'] r IH]; cbn [aget map In fst]; [tauto|].
    destruct (k =? k')%N eqn:E.
    - apply N.eqb_eq in E; subst. split; [auto|congruence].
    - apply N.eqb_neq in E. rewrite IH. split; [auto|]. intros [H|H]; [congruence|auto].
  Qed.
  Lemma aget_Some_In k v l : aget k l = Some v -> In (k, v) l.
  Proof.
    induction l as [|[k' v'] r IH]; cbn [aget]; [discriminate|].
    destruct (k =? k')%N eqn:E; intros H.
    - apply N.eqb_eq in E; subst. inversion H; subst. left; auto.
    - right; auto.
  Qed.
  Lemma In_aget_NoDup k v l : NoDup (akeys l) -> In (k, v) l -> aget k l = Some v.
  Proof.
    unfold akeys. induction l as [|[k' v'] r IH]; cbn [map fst aget In]; [tauto|].
    intros ND [H|H].
    - inversion H; subst. rewrite N.eqb_refl; auto.
    - inversion ND; subst. destruct (k =? k')%N eqn:E.
      + apply N.eqb_eq in E; subst. exfalso. apply H2. apply in_map_iff. exists (k', v); auto.
      + auto.
  Qed.

  Lemma akeys_aset k v l :
    akeys (aset k v l) = if nmem k (akeys l) then akeys l else akeys l ++ [k].
  Proof.
    unfold akeys. induction l as [|[k' v'] r IH]; cbn [aset map fst nmem app]; auto.
    destruct (k =? k')%N eqn:E; cbn [map fst orb].
    - apply N.eqb_eq in E; subst; auto.
    - rewrite IH. destruct (nmem k (map fst r)); auto.
  Qed.
  Lemma akeys_aset_In k v l x : In x (akeys (aset k v l)) <-> x = k \/ In x (akeys l).
  Proof.
    rewrite akeys_aset. destruct (nmem k (akeys l)) eqn:E.
    - apply nmem_In in E. split; [auto|]. intros [->|H]; auto.
    - rewrite in_app_iff. cbn [In]. split; intros H; intuition.
  Qed.
  Lemma akeys_aset_NoDup k v l : NoDup (akeys l) -> NoDup (akeys (aset k v l)).
  Proof.
    intros H. rewrite akeys_aset. destruct (nmem k (akeys l)) eqn:E; auto.
    apply nmem_false in E. change (akeys l ++ [k]) with (akeys l ++ [k]).
    assert (G : NoDup (nadd k (akeys l))) by (apply nadd_NoDup; auto).
    unfold nadd in G. apply nmem_false in E. rewrite E in G. exact G.
  Qed.

  Lemma aget_adel_eq k l : NoDup (akeys l) -> aget k (adel k l) = None.
  Proof.
    unfold akeys. induction l as [|[k' v'] r IH]; cbn [adel aget map fst]; auto.
    intros ND. inversion ND; subst. destruct (k =? k')%N eqn:E.
    - apply N.eqb_eq in E; subst k'.
      destruct (aget k r) eqn:G; auto. exfalso. apply H1.
      apply (proj1 (aget_In_keys k r)). congruence.
    - cbn [aget]. rewrite E. auto.
  Qed.
  Lemma aget_adel_neq k k' l : k <> k' -> aget k (adel k' l) = aget k l.
  Proof.
    intros N. induction l as [|[k2 v2] r IH]; cbn [adel aget]; auto.
    destruct (k' =? k2)%N eqn:E; cbn [aget].
    - apply N.eqb_eq in E; subst k2.
      destruct (k =? k')%N eqn:E2; [apply N.eqb_eq in E2; congruence|auto].
    - destruct (k =? k2)%N; auto.
  Qed.
  Lemma akeys_adel_In k l x : In x (akeys (adel k l)) -> In x (akeys l).
  Proof.
    unfold akeys. induction l as [|[k' v'] r IH]; cbn [adel map fst In]; auto.
    destruct (k =? k')%N; cbn [map fst In]; intuition.
  Qed.
  Lemma akeys_adel_NoDup k l : NoDup (akeys l) -> NoDup (akeys (adel k l)).
  Proof.
    unfold akeys. induction l as [|[k' v'] r IH]; cbn [adel map fst]; auto.
    intros ND; inversion ND; subst. destruct (k =? k')%N; cbn [map fst]; auto.
    constructor; auto. intros K. apply H1. apply (akeys_adel_In k r), K.
  Qed.
End AssocLemmas.

(* ------------------------------------------------ strictly ascending lists *)
Fixpoint ssorted (l : list N) : Prop :=
  match l with
  | [] => True
  | x :: r => (forall y, In y r -> (x < y)%N) /\ ssorted r
  end.

Lemma ssorted_NoDup l : ssorted l -> NoDup l.
Proof.
  induction l as [|x r IH]; cbn [ssorted]; intros H; constructor.
  - intros K. destruct H as [H _]. specialize (H _ K). lia.
  - apply IH, H.
Qed.
Lemma ssorted_app a b :
  ssorted (a ++ b) <-> ssorted a /\ ssorted b /\ (forall x y, In x a -> In y b -> (x < y)%N).
Proof.
  induction a as [|x r IH]; cbn [app ssorted].
  - split; [intros H; repeat split; auto; intros ? ? []|tauto].
  - rewrite IH. split.
    + intros [H1 [H2 [H3 H4]]]. repeat split; auto.
      * intros y K. apply H1, in_or_app; auto.
      * intros a0 y [<-|K] K2; [apply H1, in_or_app; auto|auto].
    + intros [[H1 H2] [H3 H4]]. repeat split; auto.
      * intros y K. apply in_app_or in K as [K|K]; [auto|apply H4; [left|]; auto].
      * intros a0 y K K2. apply H4; [right|]; auto.
Qed.
Lemma ssorted_filter f l : ssorted l -> ssorted (filter f l).
Proof.
  induction l as [|x r IH]; cbn [filter ssorted]; auto.
  intros [H1 H2]. destruct (f x); cbn [ssorted]; auto. split; auto.
  intros y K. apply filter_In in K as [K _]. auto.
Qed.
(* two strictly ascending lists with the same elements are equal *)
Lemma ssorted_ext a b : ssorted a -> ssorted b -> (forall x, In x a <-> In x b) -> a = b.
Proof.
  revert b. induction a as [|x r IH]; intros [|y s] Ha Hb E.
  - reflexivity.
  - exfalso. apply (proj2 (E y)). left; auto.
  - exfalso. apply (proj1 (E x)). left; auto.
  - cbn [ssorted] in Ha, Hb. destruct Ha as [Ha1 Ha2], Hb as [Hb1 Hb2].
    assert (x = y).
    { destruct (proj1 (E x) (or_introl eq_refl)) as [K|K]; [auto|].
      destruct (proj2 (E y) (or_introl eq_refl)) as [K2|K2]; [auto|].
      specialize (Hb1 _ K). specialize (Ha1 _ K2). lia. }
    subst y. f_equal. apply IH; auto. intros z. split; intros K.
    + destruct (proj1 (E z) (or_intror K)) as [K2|K2]; auto. subst z.
      specialize (Ha1 _ K). lia.
    + destruct (proj2 (E z) (or_intror K)) as [K2|K2]; auto. subst z.
      specialize (Hb1 _ K). lia.
Qed.

Lemma ninsert_In x y l : In y (ninsert x l) <-> y = x \/ In y l.
Proof.
  induction l as [|z r IH]; cbn [ninsert In]; [intuition|].
  destruct (x <? z)%N; [cbn [In]; intuition|].
  destruct (x =? z)%N eqn:E.
  - apply N.eqb_eq in E; subst. cbn [In]. intuition.
  - cbn [In]. rewrite IH. intuition.
Qed.
Lemma ninsert_ssorted x l : ssorted l -> ssorted (ninsert x l).
Proof.
  induction l as [|z r IH]; cbn [ninsert ssorted].
  - intros _. split; auto. intros ? [].
  - intros [H1 H2]. destruct (x <? z)%N eqn:E1.
    + cbn [ssorted]. repeat split; auto. intros y [<-|K]; [lia|]. specialize (H1 _ K). lia.
    + destruct (x =? z)%N eqn:E2; [cbn [ssorted]; auto|].
      cbn [ssorted]. split; [|auto]. intros y K. apply ninsert_In in K as [->|K]; [lia|auto].
Qed.
Lemma nsort_In x l : In x (nsort l) <-> In x l.
Proof.
  unfold nsort. induction l as [|y r IH]; cbn [fold_right In]; [tauto|].
  rewrite ninsert_In, IH. intuition.
Qed.
Lemma nsort_ssorted l : ssorted (nsort l).
Proof.
  unfold nsort. induction l as [|y r IH]; cbn [fold_right]; [exact I|]. apply ninsert_ssorted, IH.
Qed.
Lemma nsort_id l : ssorted l -> nsort l = l.
Proof.
  intros H. apply ssorted_ext; auto using nsort_ssorted. intros; apply nsort_In.
Qed.

Lemma N_of_len_app {A} (a b : list A) : N_of_len (a ++ b) = (N_of_len a + N_of_len b)%N.
Proof. unfold N_of_len. rewrite app_length. lia. Qed.
