(* Store/MailboxProofs.v — dict MailboxData: the invariant [BoxInv] tying
   _messages to the modification log, its preservation by every operation,
   and the relation [BoxLe b b'] ("b' is a later state of b") that carries
   exactly what a session's synchronisation state needs to survive other
   sessions' operations. *)
From PV Require Import Base.Prelude Store.Base Store.BaseProofs Store.Flags Store.ModSeq
     Store.ModSeqProofs Store.Mailbox.
From Coq Require Import Lia ZifyBool.

(* ------------------------------------------------------- message lists *)
Lemma find_msg_Some u l m : find_msg u l = Some m -> m_uid m = u /\ In m l.
Proof.
  induction l as [|x r IH]; cbn [find_msg]; [discriminate|].
  destruct (m_uid x =? u)%N eqn:E.
  - intros H; inversion H; subst. apply N.eqb_eq in E. split; [auto|left; auto].
  - intros H. apply IH in H as [H1 H2]. split; [auto|right; auto].
Qed.
Lemma find_msg_In u l : In u (map m_uid l) <-> find_msg u l <> None.
Proof.
  induction l as [|x r IH]; cbn [map In find_msg]; [tauto|].
  destruct (m_uid x =? u)%N eqn:E.
  - apply N.eqb_eq in E. split; [congruence|auto].
  - apply N.eqb_neq in E. rewrite IH. split; [intros [H|H]; [congruence|auto]|auto].
Qed.
Lemma find_msg_None u l : ~ In u (map m_uid l) <-> find_msg u l = None.
Proof.
  rewrite find_msg_In. destruct (find_msg u l); split; intros H; try congruence; try reflexivity.
  exfalso; apply H; congruence.
Qed.

Lemma find_msg_app u a b :
  find_msg u (a ++ b) = match find_msg u a with Some m => Some m | None => find_msg u b end.
Proof.
  induction a as [|x r IH]; cbn [app find_msg]; auto. destruct (m_uid x =? u)%N; auto.
Qed.

Lemma find_msg_filter u p l :
  find_msg u (filter (fun m => p (m_uid m)) l) = if p u then find_msg u l else None.
Proof.
  induction l as [|x r IH]; cbn [filter find_msg]; [destruct (p u); auto|].
  destruct (p (m_uid x)) eqn:Px; cbn [find_msg]; destruct (m_uid x =? u)%N eqn:E.
  - apply N.eqb_eq in E; subst. rewrite Px. reflexivity.
  - exact IH.
  - apply N.eqb_eq in E; subst. rewrite Px in IH. rewrite Px. exact IH.
  - exact IH.
Qed.
Lemma map_uid_filter p l :
  map m_uid (filter (fun m => p (m_uid m)) l) = filter p (map m_uid l).
Proof.
  induction l as [|x r IH]; cbn [filter map]; auto.
  destruct (p (m_uid x)); cbn [map]; rewrite IH; reflexivity.
Qed.

Lemma replace_msg_uids m' l : map m_uid (replace_msg m' l) = map m_uid l.
Proof.
  induction l as [|x r IH]; cbn [replace_msg map]; auto.
  destruct (m_uid x =? m_uid m')%N eqn:E; cbn [map]; [apply N.eqb_eq in E; congruence|].
  rewrite IH; reflexivity.
Qed.
Lemma find_replace_msg u m' l :
  find_msg u (replace_msg m' l) =
  if (u =? m_uid m')%N then (match find_msg u l with Some _ => Some m' | None => None end)
  else find_msg u l.
Proof.
  induction l as [|x r IH]; cbn [replace_msg find_msg]; [destruct (u =? m_uid m')%N; auto|].
  destruct (m_uid x =? m_uid m')%N eqn:E; cbn [find_msg].
  - apply N.eqb_eq in E. destruct (u =? m_uid m')%N eqn:E2.
    + apply N.eqb_eq in E2. subst u. rewrite N.eqb_refl. rewrite <- E, N.eqb_refl. reflexivity.
    + rewrite E. rewrite N.eqb_sym, E2. rewrite N.eqb_sym in E2.
      destruct (m_uid m' =? u)%N eqn:E3; [congruence|reflexivity].
  - destruct (m_uid x =? u)%N eqn:E2.
    + apply N.eqb_eq in E2. subst u. rewrite E. reflexivity.
    + exact IH.
Qed.

Lemma remove_msg_filter u l : NoDup (map m_uid l) ->
  remove_msg u l = filter (fun m => negb (m_uid m =? u)%N) l.
Proof.
  induction l as [|x r IH]; cbn [remove_msg filter map]; auto. intros ND; inversion ND; subst.
  destruct (m_uid x =? u)%N eqn:E; cbn [negb].
  - apply N.eqb_eq in E. symmetry.
    assert (G : forall y, In y r -> negb (m_uid y =? u)%N = true).
    { intros y Hy. apply negb_true_iff, N.eqb_neq. intros K. apply H1. rewrite E, <- K.
      apply in_map, Hy. }
    clear -G. induction r as [|y r IH]; cbn [filter]; auto.
    rewrite (G y (or_introl eq_refl)). f_equal. apply IH. intros; apply G; right; auto.
  - f_equal. apply IH, H2.
Qed.

(* ------------------------------------------------------------- BoxInv *)
Definition known (b : mbox) (u : N) : Prop := log_last (mb_log b) u <> None.

Record BoxInv (b : mbox) : Prop := MkBoxInv {
  bi_log : LogInv (mb_log b);
  bi_sorted : ssorted (mb_uids b);
  bi_alive : forall u, In u (mb_uids b) <-> exists q, log_last (mb_log b) u = Some (q, true);
  bi_dead : forall u, In u (map m_uid (mb_dead b)) <-> exists q, log_last (mb_log b) u = Some (q, false);
  bi_range : forall u, known b u -> (uid_base (mb_md b) < u <= mb_max_uid b)%N;
  bi_base : (uid_base (mb_md b) <= mb_max_uid b)%N }.

Lemma BoxInv_new md ro : BoxInv (mb_new md ro).
Proof.
  constructor; cbn; try exact LogInv_empty; auto.
  - intros u; split; [tauto|]. intros [q H]. discriminate.
  - intros u; split; [tauto|]. intros [q H]. discriminate.
  - intros u H. exfalso. apply H. reflexivity.
  - lia.
Qed.

Lemma mb_alive_In b u : In u (mb_uids b) <-> mb_alive u b <> None.
Proof. unfold mb_uids, mb_alive. apply find_msg_In. Qed.

Lemma known_cases b u : BoxInv b -> known b u -> In u (mb_uids b) \/ In u (map m_uid (mb_dead b)).
Proof.
  intros I K. unfold known in K. destruct (log_last (mb_log b) u) as [[q [|]]|] eqn:E; [| |congruence].
  - left. apply (bi_alive _ I). eauto.
  - right. apply (bi_dead _ I). eauto.
Qed.
Lemma alive_known b u : BoxInv b -> In u (mb_uids b) -> known b u.
Proof. intros I H. apply (bi_alive _ I) in H as [q H]. unfold known. congruence. Qed.
Lemma alive_not_dead b u : BoxInv b -> In u (mb_uids b) -> ~ In u (map m_uid (mb_dead b)).
Proof.
  intros I H K. apply (bi_alive _ I) in H as [q H]. apply (bi_dead _ I) in K as [q' K]. congruence.
Qed.

Lemma mb_get_known b u cf : BoxInv b -> known b u -> (mb_md b = true -> cf <> None) ->
  exists m ex, mb_get u cf b = Some (m, ex) /\ m_uid m = u.
Proof.
  intros I K Hcf. pose proof (bi_range _ I u K) as R. unfold mb_get.
  destruct (mb_md b) eqn:Md.
  { destruct (mb_alive u b) as [m|] eqn:A.
    - exists m, false. split; auto. apply find_msg_Some in A. apply A.
    - destruct cf as [f|]; [|exfalso; apply Hcf; auto]. eexists; eexists. split; reflexivity. }
  destruct ((u <? 1)%N || (mb_max_uid b <? u)%N) eqn:E; [unfold uid_base, DICT_UID_BASE in R; lia|].
  destruct (known_cases b u I K) as [H|H].
  - apply mb_alive_In in H. destruct (mb_alive u b) as [m|] eqn:A; [|congruence].
    exists m, false. split; auto. apply find_msg_Some in A. apply A.
  - destruct (mb_alive u b) as [m|] eqn:A.
    + exists m, false. split; auto. apply find_msg_Some in A. apply A.
    + apply find_msg_In in H. destruct (find_msg u (mb_dead b)) as [m|] eqn:D; [|congruence].
      exists m, true. split; auto. apply find_msg_Some in D. apply D.
Qed.

(* ---------------------------------------------------------------- BoxLe *)
Record BoxLe (b b' : mbox) : Prop := MkBoxLe {
  le_high : (ms_highest (mb_log b) <= ms_highest (mb_log b'))%N;
  le_last : forall u q k, log_last (mb_log b') u = Some (q, k) ->
                          log_last (mb_log b) u = Some (q, k) \/ (ms_highest (mb_log b) < q)%N;
  le_known : forall u, known b u -> known b' u;
  le_alive : forall u, In u (mb_uids b') -> In u (mb_uids b) \/ (mb_max_uid b < u)%N;
  le_flags : forall u m m', mb_alive u b = Some m -> mb_alive u b' = Some m' ->
                            log_last (mb_log b') u = log_last (mb_log b) u -> m_flags m' = m_flags m;
  le_max : (mb_max_uid b <= mb_max_uid b')%N;
  le_ro : mb_readonly b' = mb_readonly b;
  le_md : mb_md b' = mb_md b }.

Lemma BoxLe_refl b : BoxLe b b.
Proof.
  constructor; auto; try lia. intros u m m' H1 H2 _. congruence.
Qed.

Lemma BoxLe_trans b1 b2 b3 : BoxInv b1 -> BoxInv b2 -> BoxLe b1 b2 -> BoxLe b2 b3 -> BoxLe b1 b3.
Proof.
  intros I1 I2 A B. constructor.
  - pose proof (le_high _ _ A). pose proof (le_high _ _ B). lia.
  - intros u q k H. destruct (le_last _ _ B u q k H) as [K|K].
    + apply (le_last _ _ A), K.
    + right. pose proof (le_high _ _ A). lia.
  - intros u H. apply (le_known _ _ B), (le_known _ _ A), H.
  - intros u H. destruct (le_alive _ _ B u H) as [K|K].
    + apply (le_alive _ _ A), K.
    + right. pose proof (le_max _ _ A). lia.
  - intros u m m' H1 H3 E.
    destruct (log_last (mb_log b1) u) as [[q k]|] eqn:L1.
    + (* the record of u is the same in b1 and b3, hence also in b2 *)
      assert (L2 : log_last (mb_log b2) u = Some (q, k)).
      { destruct (le_last _ _ B u q k E) as [K|K]; auto.
        pose proof (log_last_le _ _ _ _ (bi_log _ I1) L1). pose proof (le_high _ _ A). lia. }
      assert (A2 : In u (mb_uids b2)).
      { apply (bi_alive _ I2).
        assert (In u (mb_uids b1)) by (apply mb_alive_In; congruence).
        apply (bi_alive _ I1) in H as [q0 H]. rewrite L1 in H. inversion H; subst. eauto. }
      apply mb_alive_In in A2. destruct (mb_alive u b2) as [m2|] eqn:M2; [|congruence].
      rewrite (le_flags _ _ B u m2 m' M2 H3) by congruence.
      apply (le_flags _ _ A u m m2 H1 M2). congruence.
    + exfalso. assert (In u (mb_uids b1)) by (apply mb_alive_In; congruence).
      apply (bi_alive _ I1) in H as [q0 H]. congruence.
  - pose proof (le_max _ _ A). pose proof (le_max _ _ B). lia.
  - rewrite (le_ro _ _ B). apply (le_ro _ _ A).
  - rewrite (le_md _ _ B). apply (le_md _ _ A).
Qed.

(* ------------------------------------------------------------ operations *)
Lemma fresh_unknown b u : BoxInv b -> (mb_max_uid b < u)%N -> log_last (mb_log b) u = None.
Proof.
  intros I H. destruct (log_last (mb_log b) u) eqn:E; auto.
  assert (K : known b u) by (unfold known; congruence). apply (bi_range _ I) in K. lia.
Qed.

Lemma mb_append_inv fl r c b : BoxInv b ->
  let b' := fst (mb_append fl r c b) in
  BoxInv b' /\ BoxLe b b' /\ snd (mb_append fl r c b) = (mb_max_uid b + 1)%N
  /\ In (mb_max_uid b + 1)%N (mb_uids b').
Proof.
  intros I. cbn zeta. unfold mb_append. cbn [fst snd].
  set (u' := (mb_max_uid b + 1)%N).
  assert (NDu : NoDup [u']) by (constructor; [intros []|constructor]).
  destruct (ms_set_spec true [u'] (mb_log b) (bi_log _ I) NDu) as (LI & LH & Lin & Lout).
  fold (ms_update [u'] (mb_log b)) in LI, LH, Lin, Lout.
  assert (Fr : log_last (mb_log b) u' = None) by (apply fresh_unknown; auto; lia).
  assert (Lu : log_last (ms_update [u'] (mb_log b)) u' = Some ((ms_highest (mb_log b) + 1)%N, true))
    by (apply Lin; left; reflexivity).
  assert (Lo : forall u, u <> u' -> log_last (ms_update [u'] (mb_log b)) u = log_last (mb_log b) u).
  { intros u Hu. apply Lout. intros [K|[]]. congruence. }
  assert (Uids : mb_uids (MkBox (mb_md b) (mb_readonly b) u' (mb_msgs b ++ [MkMsg u' (storable (mb_md b) fl) r c]) (mb_dead b)
                                (ms_update [u'] (mb_log b))) = mb_uids b ++ [u']).
  { unfold mb_uids. cbn [mb_msgs]. rewrite map_app. reflexivity. }
  pose proof (bi_base _ I) as Base.
  split; [|split; [|split; [reflexivity|rewrite Uids; apply in_or_app; right; left; reflexivity]]].
  - constructor; cbn [mb_log mb_dead mb_max_uid mb_md]; auto.
    + rewrite Uids. apply ssorted_app. repeat split; [apply (bi_sorted _ I)|intros ? []|].
      intros x y Hx [<-|[]]. apply (alive_known _ _ I), (bi_range _ I) in Hx. lia.
    + intros u. rewrite Uids, in_app_iff. cbn [In]. destruct (N.eq_dec u u') as [->|Ne].
      * split; [eauto|auto].
      * rewrite (Lo u Ne), (bi_alive _ I). split; [intros [H|[H|[]]]; [auto|congruence]|auto].
    + intros u. destruct (N.eq_dec u u') as [->|Ne].
      * split.
        -- intros H. apply (bi_dead _ I) in H as [q H]. congruence.
        -- intros [q H]. congruence.
      * rewrite (Lo u Ne). apply (bi_dead _ I).
    + intros u K. unfold known in K. cbn [mb_log] in K. destruct (N.eq_dec u u') as [->|Ne].
      * unfold u'. lia.
      * rewrite (Lo u Ne) in K. apply (bi_range _ I) in K. lia.
    + lia.
  - constructor; cbn [mb_log mb_max_uid mb_readonly mb_md]; auto; try lia.
    + intros u q k H. destruct (N.eq_dec u u') as [->|Ne].
      * right. rewrite Lu in H. inversion H; subst. lia.
      * left. rewrite (Lo u Ne) in H. exact H.
    + intros u K. unfold known in *. cbn [mb_log]. destruct (N.eq_dec u u') as [->|Ne]; [congruence|].
      rewrite (Lo u Ne). exact K.
    + intros u. rewrite Uids, in_app_iff. cbn [In]. intros [H|[<-|[]]]; [auto|right; unfold u'; lia].
    + intros u m m' H1 H2 _. unfold mb_alive in *. cbn [mb_msgs] in H2.
      rewrite find_msg_app, H1 in H2. congruence.
Qed.

Lemma mb_get_cases u cf b m ex : mb_get u cf b = Some (m, ex) ->
  m_uid m = u /\ (ex = false -> mb_alive u b = Some m) /\ (ex = true -> mb_alive u b = None).
Proof.
  unfold mb_get. destruct (mb_md b).
  - destruct (mb_alive u b) as [x|] eqn:A.
    + intros H; injection H as H1 H2; subst x ex. split; [apply (find_msg_Some _ _ _ A)|].
      split; [auto|discriminate].
    + destruct cf as [f|]; [|discriminate]. intros H; injection H as H1 H2; subst m ex.
      split; [reflexivity|]. split; [discriminate|auto].
  - destruct ((u <? 1)%N || (mb_max_uid b <? u)%N); [discriminate|].
    destruct (mb_alive u b) as [x|] eqn:A.
    + intros H; injection H as H1 H2; subst x ex. split; [apply (find_msg_Some _ _ _ A)|].
      split; [auto|discriminate].
    + destruct (find_msg u (mb_dead b)) as [d|] eqn:D; [|discriminate].
      intros H; injection H as H1 H2; subst d ex. split; [apply (find_msg_Some _ _ _ D)|].
      split; [discriminate|auto].
Qed.

Lemma mb_update_inv u cf op fl b b' m ex : BoxInv b ->
  mb_update u cf op fl b = Some (b', m, ex) ->
  BoxInv b' /\ BoxLe b b' /\ m_uid m = u /\ (ex = true -> b' = b) /\
  (ex = false -> In u (mb_uids b)).
Proof.
  intros I. unfold mb_update. destruct (mb_get u cf b) as [[m0 [|]]|] eqn:G; [| |discriminate].
  - intros H. injection H as Hb Hm He. subst b' ex m. cbn [m_uid].
    destruct (mb_get_cases _ _ _ _ _ G) as (D & _ & _).
    split; [exact I|]. split; [apply BoxLe_refl|]. split; [exact D|]. split; [auto|discriminate].
  - intros H. injection H as Hb Hm He. subst b' ex m. cbn [m_uid].
    assert (A : mb_alive u b = Some m0) by (apply (mb_get_cases _ _ _ _ _ G); reflexivity).
    pose proof (find_msg_Some _ _ _ A) as [Mu _].
    assert (Au : In u (mb_uids b)) by (apply mb_alive_In; congruence).
    assert (NDu : NoDup [u]) by (constructor; [intros []|constructor]).
    destruct (ms_set_spec true [u] (mb_log b) (bi_log _ I) NDu) as (LI & LH & Lin & Lout).
    fold (ms_update [u] (mb_log b)) in LI, LH, Lin, Lout.
    assert (Lu : log_last (ms_update [u] (mb_log b)) u = Some ((ms_highest (mb_log b) + 1)%N, true))
      by (apply Lin; left; reflexivity).
    assert (Lo : forall v, v <> u -> log_last (ms_update [u] (mb_log b)) v = log_last (mb_log b) v).
    { intros v Hv. apply Lout. intros [K|[]]. congruence. }
    set (m' := MkMsg (m_uid m0) (storable (mb_md b) (flagop_apply op (m_flags m0) fl)) (m_recent m0) (m_content m0)).
    assert (Uids : mb_uids (MkBox (mb_md b) (mb_readonly b) (mb_max_uid b) (replace_msg m' (mb_msgs b))
                                  (mb_dead b) (ms_update [u] (mb_log b))) = mb_uids b).
    { unfold mb_uids. cbn [mb_msgs]. apply replace_msg_uids. }
    split; [|split; [|split; [exact Mu|split; [discriminate|auto]]]].
    + constructor; cbn [mb_log mb_dead mb_max_uid mb_md]; auto.
      * rewrite Uids. apply (bi_sorted _ I).
      * intros v. rewrite Uids. destruct (N.eq_dec v u) as [->|Ne].
        -- split; [eauto|auto].
        -- rewrite (Lo v Ne). apply (bi_alive _ I).
      * intros v. destruct (N.eq_dec v u) as [->|Ne].
        -- split.
           ++ intros H. exfalso. eapply alive_not_dead; eauto.
           ++ intros [q H]. congruence.
        -- rewrite (Lo v Ne). apply (bi_dead _ I).
      * intros v K. unfold known in K. cbn [mb_log] in K. destruct (N.eq_dec v u) as [->|Ne].
        -- apply (bi_range _ I), alive_known; auto.
        -- rewrite (Lo v Ne) in K. apply (bi_range _ I), K.
      * apply (bi_base _ I).
    + constructor; cbn [mb_log mb_max_uid mb_readonly mb_md]; auto; try lia.
      * intros v q k H. destruct (N.eq_dec v u) as [->|Ne].
        -- right. rewrite Lu in H. inversion H; subst. lia.
        -- left. rewrite (Lo v Ne) in H. exact H.
      * intros v K. unfold known in *. cbn [mb_log]. destruct (N.eq_dec v u) as [->|Ne]; [congruence|].
        rewrite (Lo v Ne). exact K.
      * intros v. rewrite Uids. auto.
      * intros v m1 m2 H1 H2 E. cbn [mb_log] in E. destruct (N.eq_dec v u) as [->|Ne].
        -- rewrite Lu in E. symmetry in E. apply log_last_le in E; [lia|apply (bi_log _ I)].
        -- unfold mb_alive in *. cbn [mb_msgs] in H2. rewrite find_replace_msg in H2.
           unfold m' in H2. cbn [m_uid] in H2. rewrite Mu in H2.
           destruct (v =? u)%N eqn:E2; [apply N.eqb_eq in E2; congruence|]. congruence.
Qed.

Lemma mb_delete_inv uids b : BoxInv b -> NoDup uids -> (forall u, In u uids -> known b u) ->
  let b' := mb_delete uids b in
  BoxInv b' /\ BoxLe b b' /\ (forall u, In u (mb_uids b') <-> In u (mb_uids b) /\ ~ In u uids).
Proof.
  intros I ND Kn. cbn zeta. unfold mb_delete.
  destruct (ms_set_spec false uids (mb_log b) (bi_log _ I) ND) as (LI & LH & Lin & Lout).
  fold (ms_expunge uids (mb_log b)) in LI, LH, Lin, Lout.
  set (keepf := fun u => negb (nmem u uids)).
  assert (Uids : forall u, In u (mb_uids (MkBox (mb_md b) (mb_readonly b) (mb_max_uid b)
                   (filter (fun m => negb (nmem (m_uid m) uids)) (mb_msgs b))
                   (filter (fun m => nmem (m_uid m) uids) (mb_msgs b) ++ mb_dead b)
                   (ms_expunge uids (mb_log b)))) <-> In u (mb_uids b) /\ ~ In u uids).
  { intros u. unfold mb_uids. cbn [mb_msgs].
    rewrite (map_uid_filter keepf). rewrite filter_In. unfold keepf.
    rewrite negb_true_iff, nmem_false. tauto. }
  split; [|split; [|exact Uids]].
  - constructor; cbn [mb_log mb_dead mb_max_uid mb_md]; auto.
    + unfold mb_uids. cbn [mb_msgs]. rewrite (map_uid_filter keepf).
      apply ssorted_filter, (bi_sorted _ I).
    + intros u. rewrite Uids. destruct (nmem u uids) eqn:E.
      * apply nmem_In in E. split; [tauto|]. intros [q H]. rewrite (Lin u E) in H. discriminate.
      * apply nmem_false in E. rewrite (Lout u E), (bi_alive _ I). tauto.
    + intros u. rewrite map_app, in_app_iff.
      rewrite (map_uid_filter (fun u => nmem u uids)), filter_In, nmem_In.
      destruct (nmem u uids) eqn:E.
      * apply nmem_In in E. split; [eauto|]. intros _.
        destruct (known_cases _ _ I (Kn u E)); [left|right]; auto.
      * apply nmem_false in E. rewrite (Lout u E), <- (bi_dead _ I). tauto.
    + intros u K. unfold known in K. cbn [mb_log] in K. destruct (nmem u uids) eqn:E.
      * apply nmem_In in E. apply (bi_range _ I), Kn, E.
      * apply nmem_false in E. rewrite (Lout u E) in K. apply (bi_range _ I), K.
    + apply (bi_base _ I).
  - constructor; cbn [mb_log mb_max_uid mb_readonly mb_md]; auto; try lia.
    + intros u q k H. destruct (nmem u uids) eqn:E.
      * apply nmem_In in E. right. rewrite (Lin u E) in H. inversion H; subst. lia.
      * apply nmem_false in E. left. rewrite (Lout u E) in H. exact H.
    + intros u K. unfold known in *. cbn [mb_log]. destruct (nmem u uids) eqn:E.
      * apply nmem_In in E. rewrite (Lin u E). discriminate.
      * apply nmem_false in E. rewrite (Lout u E). exact K.
    + intros u H. apply Uids in H. tauto.
    + intros u m m' H1 H2 _. unfold mb_alive in *. cbn [mb_msgs] in H2.
      rewrite (find_msg_filter u keepf) in H2. destruct (keepf u); [congruence|discriminate].
Qed.

Lemma nmem_single x u : nmem x [u] = (x =? u)%N.
Proof. cbn [nmem]. apply orb_false_r. Qed.

Lemma filter_single u l m : NoDup (map m_uid l) -> find_msg u l = Some m ->
  filter (fun x => nmem (m_uid x) [u]) l = [m].
Proof.
  induction l as [|x r IH]; cbn [map find_msg filter]; [discriminate|]. intros ND H.
  inversion ND; subst. rewrite nmem_single. destruct (m_uid x =? u)%N eqn:E.
  - inversion H; subst. f_equal. apply N.eqb_eq in E. subst u.
    assert (G : forall y, In y r -> nmem (m_uid y) [m_uid m] = false).
    { intros y Hy. rewrite nmem_single. apply N.eqb_neq. intros K. apply H2.
      rewrite <- K. apply in_map, Hy. }
    clear -G. induction r as [|y r IH]; cbn [filter]; auto.
    rewrite (G y (or_introl eq_refl)). apply IH. intros; apply G; right; auto.
  - apply IH; auto.
Qed.

Lemma mb_pop_delete u b b' m : BoxInv b -> mb_pop u b = Some (b', m) ->
  b' = mb_delete [u] b /\ mb_alive u b = Some m.
Proof.
  intros I. unfold mb_pop. destruct (mb_alive u b) as [m0|] eqn:A; [|discriminate].
  intros H; inversion H; subst; clear H. split; auto. unfold mb_delete. f_equal.
  - assert (ND : NoDup (map m_uid (mb_msgs b))) by (apply ssorted_NoDup, (bi_sorted _ I)).
    rewrite remove_msg_filter by auto. apply filter_ext. intros x. rewrite nmem_single.
    reflexivity.
  - assert (ND : NoDup (map m_uid (mb_msgs b))) by (apply ssorted_NoDup, (bi_sorted _ I)).
    rewrite (filter_single u _ m ND A). reflexivity.
Qed.

Lemma mb_claim_inv b : BoxInv b ->
  let b' := fst (mb_claim_recent b) in
  BoxInv b' /\ BoxLe b b' /\ mb_uids b' = mb_uids b
  /\ (forall u, In u (snd (mb_claim_recent b)) -> In u (mb_uids b)).
Proof.
  intros I. cbn zeta. unfold mb_claim_recent. cbn [fst snd].
  set (uids := map m_uid (filter m_recent (mb_msgs b))).
  assert (Sub : forall u, In u uids -> In u (mb_uids b)).
  { intros u H. unfold uids in H. apply in_map_iff in H as [x [H1 H2]].
    apply filter_In in H2 as [H2 _]. unfold mb_uids. apply in_map_iff. eauto. }
  assert (ND : NoDup uids).
  { unfold uids. pose proof (ssorted_NoDup _ (bi_sorted _ I)) as N0. unfold mb_uids in N0.
    clear -N0. induction (mb_msgs b) as [|x r IH]; cbn [filter map]; [constructor|].
    cbn [map] in N0. inversion N0; subst. destruct (m_recent x); cbn [map]; auto.
    constructor; auto. intros K. apply H1. apply in_map_iff in K as [y [K1 K2]].
    apply filter_In in K2 as [K2 _]. apply in_map_iff. eauto. }
  destruct (ms_set_spec true uids (mb_log b) (bi_log _ I) ND) as (LI & LH & Lin & Lout).
  fold (ms_update uids (mb_log b)) in LI, LH, Lin, Lout.
  assert (Uids : mb_uids (MkBox (mb_md b) (mb_readonly b) (mb_max_uid b)
                   (map (fun m => MkMsg (m_uid m) (m_flags m) false (m_content m)) (mb_msgs b))
                   (mb_dead b) (ms_update uids (mb_log b))) = mb_uids b).
  { unfold mb_uids. cbn [mb_msgs]. rewrite map_map. reflexivity. }
  split; [|split; [|split; [exact Uids|exact Sub]]].
  - constructor; cbn [mb_log mb_dead mb_max_uid mb_md]; auto.
    + rewrite Uids. apply (bi_sorted _ I).
    + intros u. rewrite Uids. destruct (nmem u uids) eqn:E.
      * apply nmem_In in E. split; [rewrite (Lin u E); eauto|auto].
      * apply nmem_false in E. rewrite (Lout u E). apply (bi_alive _ I).
    + intros u. destruct (nmem u uids) eqn:E.
      * apply nmem_In in E. split.
        -- intros H. exfalso. eapply alive_not_dead; eauto.
        -- intros [q H]. rewrite (Lin u E) in H. discriminate.
      * apply nmem_false in E. rewrite (Lout u E). apply (bi_dead _ I).
    + intros u K. unfold known in K. cbn [mb_log] in K. destruct (nmem u uids) eqn:E.
      * apply nmem_In in E. apply (bi_range _ I), alive_known; auto.
      * apply nmem_false in E. rewrite (Lout u E) in K. apply (bi_range _ I), K.
    + apply (bi_base _ I).
  - constructor; cbn [mb_log mb_max_uid mb_readonly mb_md]; auto; try lia.
    + intros u q k H. destruct (nmem u uids) eqn:E.
      * apply nmem_In in E. right. rewrite (Lin u E) in H. inversion H; subst. lia.
      * apply nmem_false in E. left. rewrite (Lout u E) in H. exact H.
    + intros u K. unfold known in *. cbn [mb_log]. destruct (nmem u uids) eqn:E.
      * apply nmem_In in E. rewrite (Lin u E). discriminate.
      * apply nmem_false in E. rewrite (Lout u E). exact K.
    + intros u. rewrite Uids. auto.
    + intros u m m' H1 H2 _. unfold mb_alive in *. cbn [mb_msgs] in H2.
      revert H1 H2. clear. induction (mb_msgs b) as [|x r IH]; cbn [map find_msg m_uid]; [discriminate|].
      destruct (m_uid x =? u)%N; auto. intros A B; inversion A; inversion B; subst. reflexivity.
Qed.
