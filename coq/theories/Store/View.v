(* Store/View.v — model of pymap/selected.py:SynchronizedMessages.
   Definitions only (lemmas: Store/ViewProofs.v).

   view = { v_sorted   : _sorted (ascending uids; _uids is the same set and is not
                          kept separately: the two are only changed together);
            v_seqs     : _seqs_cache (uid -> sequence number);
            v_fkeys    : _flags_key_map (uid -> permanent flags last seen by _update;
                          _flags_key_set is the set of its entries);
            v_pending  : _pending_remove }
   _cache is not stored: in the dict backend it holds the mailbox's own Message
   objects, so reading it is Mailbox.mb_cached (aliasing made explicit).
   API
     view_empty
     view_update msgs v           _update(messages); msgs = [(uid, permanent flags)]
     view_remove uids pending v   _remove(uids, pending)
     view_exists v, view_max_uid v
     view_select sset by_uid v    get_uids / get_all: [(seq, uid)] for a sequence set
     view_seq_of uid v            _seqs_cache[uid] (option: KeyError = None)
   _update inserts with bisect_right and renumbers _seqs_cache only from the
   lowest insertion index; _remove(pending=False) also flushes _pending_remove
   and rebuilds _sorted/_seqs_cache only if something was removed. *)
From PV Require Import Base.Prelude Store.Base Store.Flags Wire.SeqSet.

Record view := MkView {
  v_sorted : list N;
  v_seqs : list (N * N);
  v_fkeys : list (N * flags);
  v_pending : list N }.

Definition view_empty : view := MkView [] [] [] [].

(* bisect_right(sorted, uid) *)
Fixpoint bisect_right (x : N) (l : list N) : nat :=
  match l with
  | [] => O
  | y :: r => if (x <? y)%N then O else S (bisect_right x r)
  end.
Fixpoint insert_at {A} (i : nat) (x : A) (l : list A) : list A :=
  match i, l with
  | O, _ => x :: l
  | S i', y :: r => y :: insert_at i' x r
  | S _, [] => [x]
  end.

(* for seq, uid in enumerate(l, start): seqs[uid] = seq *)
Fixpoint renumber (start : N) (l : list N) (seqs : list (N * N)) : list (N * N) :=
  match l with
  | [] => seqs
  | u :: r => renumber (start + 1)%N r (aset u start seqs)
  end.

Definition min_idx (a : option nat) (i : nat) : option nat :=
  match a with None => Some i | Some j => Some (Nat.min j i) end.

Definition view_update1 (st : view * option nat) (m : N * flags) : view * option nat :=
  let '(v, low) := st in
  let '(u, f) := m in
  if nmem u (v_sorted v)
  then (MkView (v_sorted v) (v_seqs v) (aset u f (v_fkeys v)) (v_pending v), low)
  else let idx := bisect_right u (v_sorted v) in
       (MkView (insert_at idx u (v_sorted v)) (v_seqs v) (aset u f (v_fkeys v)) (v_pending v),
        min_idx low idx).

Definition view_update (msgs : list (N * flags)) (v : view) : view :=
  let '(v', low) := fold_left view_update1 msgs (v, None) in
  match low with
  | None => v'
  | Some i =>
    MkView (v_sorted v')
           (renumber (N.of_nat i + 1)%N (skipn i (v_sorted v')) (v_seqs v'))
           (v_fkeys v') (v_pending v')
  end.

Definition view_remove (uids : list N) (pending : bool) (v : view) : view :=
  if pending
  then MkView (v_sorted v) (v_seqs v) (v_fkeys v) (nunion (v_pending v) uids)
  else
    let gone := uids ++ v_pending v in
    let any_removed := existsb (fun u => nmem u (v_sorted v)) gone in
    if any_removed
    then let sorted' := filter (fun u => negb (nmem u gone)) (v_sorted v) in
         MkView sorted' (renumber 1 sorted' [])
                (filter (fun kv => negb (nmem (fst kv) gone)) (v_fkeys v)) []
    else MkView (v_sorted v) (v_seqs v) (v_fkeys v) [].

Definition view_exists (v : view) : N := N_of_len (v_sorted v).
Definition view_max_uid (v : view) : N := last (v_sorted v) 0%N.
Definition view_seq_of (uid : N) (v : view) : option N := aget uid (v_seqs v).

Fixpoint enumerate_from {A} (i : N) (l : list A) : list (N * A) :=
  match l with [] => [] | x :: r => (i, x) :: enumerate_from (i + 1)%N r end.

(* get_uids / get_all *)
Definition view_select (sset : seqset) (by_uid : bool) (v : view) : list (N * N) :=
  if by_uid
  then let all := seq_iter (view_max_uid v) sset in
       filter (fun su => nmem (snd su) all) (enumerate_from 1 (v_sorted v))
  else let all := seq_iter (view_exists v) sset in
       filter (fun su => nmem (fst su) all) (enumerate_from 1 (v_sorted v)).
