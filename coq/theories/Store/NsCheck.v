(* Store/NsCheck.v — boolean checkers for the namespace traces (harness/store_ns.py):
   a case = set-up labels (NOld (CreateBox name ro) / NOld (Deliver ..)) and steps; each step
   carries the nlabel and what was observed on the real dict server after it: the canonical
   responses written to the acting connection (BYE included), for every connection the
   identity of the mailbox object it has selected and the state of the selection, every
   reachable mailbox by identity, the complete name -> identity map, and the connections the
   server has closed.  chk_ns replays the labels with SystemNs.nstep and compares after
   every step. *)
From PV Require Import Base.Prelude Store.Base Store.Flags Store.ModSeq Store.Mailbox
     Store.View Store.Compare Store.Session Store.System Store.StoreCheck Store.SystemNs
     Wire.SeqSet.

Definition nresp_eqb (a b : nresp) : bool :=
  match a, b with
  | R x, R y => resp_eqb x y
  | Bye, Bye | NoExists, NoExists => true
  | _, _ => false
  end.

Record nobs := MkNObs {
  no_out : list nresp;
  no_sels : list (N * option (N * sel_obs));   (* connection: (mailbox id, selection) *)
  no_boxes : list (N * box_obs);               (* mailbox id: mailbox *)
  no_names : list (N * N);                     (* name: mailbox id, complete *)
  no_closed : list N }.                        (* connections closed by the server, ascending *)

Definition chk_nsels (ns : nsys) (l : list (N * option (N * sel_obs))) : bool :=
  forallb (fun so : N * option (N * sel_obs) =>
             match sel_of (ns_sys ns) (fst so), snd so with
             | None, None => true
             | Some x, Some (i, o) => (sel_box x =? i)%N && sel_obs_eqb (sel_obs_of x) o
             | _, _ => false
             end) l.
Definition chk_names (ns : nsys) (l : list (N * N)) : bool :=
  (length l =? length (ns_names ns))%nat
  && forallb (fun ni : N * N => match aget (fst ni) (ns_names ns) with
                                | Some i => (i =? snd ni)%N
                                | None => false end) l.
Definition chk_closed (ns : nsys) (l : list N) : bool := nlist_eqb (nsort (ns_closed ns)) l.

Definition chk_nstep (ns : nsys) (lo : nlabel * nobs) : nsys * bool :=
  let '(l, o) := lo in
  let '(ns', out) := nstep ns l in
  (ns', nlabel_ok ns l && eqb_list nresp_eqb out (no_out o)
        && chk_nsels ns' (no_sels o) && chk_boxes (ns_sys ns') (no_boxes o)
        && chk_names ns' (no_names o) && chk_closed ns' (no_closed o)).

Definition ns_case : Type := list nlabel * list (nlabel * nobs).

Fixpoint chk_nsteps (ns : nsys) (l : list (nlabel * nobs)) : bool :=
  match l with
  | [] => true
  | lo :: r => let '(ns', ok) := chk_nstep ns lo in ok && chk_nsteps ns' r
  end.
Definition chk_ns (c : ns_case) : bool := chk_nsteps (nexec ns_empty (fst c)) (snd c).

Fixpoint nfirst_bad_from (i : nat) (ns : nsys) (l : list (nlabel * nobs)) : option nat :=
  match l with
  | [] => None
  | lo :: r => let '(ns', ok) := chk_nstep ns lo in
               if ok then nfirst_bad_from (S i) ns' r else Some i
  end.
Definition nfirst_bad (c : ns_case) : option nat := nfirst_bad_from 0 (nexec ns_empty (fst c)) (snd c).

Definition nmodel_state (c : ns_case) (n : nat) : nsys :=
  nexec (nexec ns_empty (fst c)) (map fst (firstn n (snd c))).
(* which comparison fails at step n: (label_ok, responses, selections, mailboxes, names, closed) *)
Definition ndiag (c : ns_case) (n : nat) : bool * bool * bool * bool * bool * bool :=
  let ns := nmodel_state c n in
  match nth_error (snd c) n with
  | None => (true, true, true, true, true, true)
  | Some (l, o) =>
    let '(ns', out) := nstep ns l in
    (nlabel_ok ns l, eqb_list nresp_eqb out (no_out o), chk_nsels ns' (no_sels o),
     chk_boxes (ns_sys ns') (no_boxes o), chk_names ns' (no_names o), chk_closed ns' (no_closed o))
  end.
Definition nmodel_out (c : ns_case) (n : nat)
  : list nresp * list (N * option (N * sel_obs)) * list (N * N) * list N :=
  let ns := nmodel_state c n in
  match nth_error (snd c) n with
  | None => ([], [], [], [])
  | Some (l, o) =>
    let '(ns', out) := nstep ns l in
    (out, map (fun so => (fst so, option_map (fun x => (sel_box x, sel_obs_of x))
                                             (sel_of (ns_sys ns') (fst so)))) (no_sels o),
     ns_names ns', ns_closed ns')
  end.
