(* Store/ModSeqProofs.v — _ModSequenceMapping: well-formedness invariant
   [LogInv], the abstract reading [log_last] (uid -> (mod-seq, is-update) of its
   last record), the effect of update()/expunge() on it, and what
   find_updated returns in those terms. *)
From PV Require Import Base.Prelude Store.Base Store.BaseProofs Store.ModSeq.
From Coq Require Import Lia ZifyBool.

Definition rec_of (data : list (N * list N)) (q : N) : list N :=
  match aget q data with Some s => s | None => [] end.

(* which record mentions uid last: (mod-seq, true = update record / false = expunge record) *)
Definition log_last (log : mslog) (u : N) : option (N * bool) :=
  match aget u (ms_uids log) with
  | None => None
  | Some q =>
    if nmem u (rec_of (ms_updates log) q) then Some (q, true)
    else if nmem u (rec_of (ms_expunges log) q) then Some (q, false)
         else None
  end.

Record LogInv (log : mslog) : Prop := MkLogInv {
  li_sorted : ssorted (ms_order log);
  li_le : forall q, In q (ms_order log) -> (q <= ms_highest log)%N;
  li_keys_u : forall q, aget q (ms_updates log) <> None -> In q (ms_order log);
  li_keys_e : forall q, aget q (ms_expunges log) <> None -> In q (ms_order log);
  li_nd_u : NoDup (akeys (ms_updates log));
  li_nd_e : NoDup (akeys (ms_expunges log));
  li_rec : forall u q, In u (rec_of (ms_updates log) q) \/ In u (rec_of (ms_expunges log) q) ->
                       aget u (ms_uids log) = Some q;
  li_map : forall u q, aget u (ms_uids log) = Some q ->
                       In u (rec_of (ms_updates log) q) \/ In u (rec_of (ms_expunges log) q);
  li_disj : forall q, aget q (ms_updates log) = None \/ aget q (ms_expunges log) = None }.

Lemma LogInv_empty : LogInv ms_empty.
Proof.
  constructor; cbn; try tauto; try constructor; try discriminate; intros; try tauto.
Qed.

(* --------------------------------------------------------------- rec_of *)
Lemma rec_of_aset data p s q : rec_of (aset p s data) q = if (q =? p)%N then s else rec_of data q.
Proof. unfold rec_of. rewrite aget_aset. destruct (q =? p)%N; reflexivity. Qed.
Lemma rec_of_adel data p q :
  NoDup (akeys data) -> rec_of (adel p data) q = if (q =? p)%N then [] else rec_of data q.
Proof.
  intros ND. unfold rec_of. destruct (q =? p)%N eqn:E.
  - apply N.eqb_eq in E; subst. rewrite aget_adel_eq; auto.
  - apply N.eqb_neq in E. rewrite aget_adel_neq; auto.
Qed.

Lemma remove_first_In x y l : In y (remove_first x l) -> In y l.
Proof.
  induction l as [|z r IH]; cbn [remove_first In]; auto.
  destruct (x =? z)%N; cbn [In]; intuition.
Qed.
Lemma remove_first_In_neq x y l : y <> x -> In y l -> In y (remove_first x l).
Proof.
  intros N. induction l as [|z r IH]; cbn [remove_first In]; auto.
  destruct (x =? z)%N eqn:E; cbn [In].
  - apply N.eqb_eq in E; subst. intros [H|H]; [congruence|auto].
  - intuition.
Qed.
Lemma remove_first_ssorted x l : ssorted l -> ssorted (remove_first x l).
Proof.
  induction l as [|z r IH]; cbn [remove_first ssorted]; auto.
  intros [H1 H2]. destruct (x =? z)%N; cbn [ssorted]; auto. split; auto.
  intros y K. apply H1, (remove_first_In x), K.
Qed.

(* _remove_prev, semantically *)
Lemma remove_prev_spec x p data order data' order' :
  ms_remove_prev x p data order = (data', order') -> NoDup (akeys data) ->
  (forall q, rec_of data' q = if (q =? p)%N then ndel x (rec_of data p) else rec_of data q)
  /\ NoDup (akeys data')
  /\ (forall q, aget q data' <> None -> aget q data <> None)
  /\ ((order' = order)
      \/ (order' = remove_first p order /\ aget p data' = None /\ aget p data <> None))
  /\ (aget p data = None -> data' = data /\ order' = order).
Proof.
  unfold ms_remove_prev. intros H ND. destruct (aget p data) as [s|] eqn:G.
  - destruct (ndel x s) as [|a t] eqn:D; inversion H; subst; clear H.
    + split; [|split; [|split; [|split]]].
      * intros q. rewrite rec_of_adel by auto. unfold rec_of at 2. rewrite G, D. reflexivity.
      * apply akeys_adel_NoDup, ND.
      * intros q K. destruct (N.eq_dec q p) as [->|Ne]; [congruence|].
        rewrite aget_adel_neq in K; auto.
      * right. split; [reflexivity|]. split; [apply aget_adel_eq, ND|congruence].
      * discriminate.
    + split; [|split; [|split; [|split]]].
      * intros q. rewrite rec_of_aset. unfold rec_of at 2. rewrite G, D. reflexivity.
      * apply akeys_aset_NoDup, ND.
      * intros q K. rewrite aget_aset in K. destruct (q =? p)%N eqn:E; auto.
        apply N.eqb_eq in E; subst. congruence.
      * left; reflexivity.
      * discriminate.
  - inversion H; subst; clear H. split; [|split; [|split; [|split]]]; auto.
    intros q. destruct (q =? p)%N eqn:E; auto. apply N.eqb_eq in E; subst.
    unfold rec_of. rewrite G. reflexivity.
Qed.

(* ------------------------------------------------------- the loop of _set *)
(* state of the `for uid in uids` loop; q' = the new mod-seq, rem = uids not yet
   visited, log0 = the log before _set *)
Record LoopInv (which : bool) (log0 : mslog) (all rem : list N) (log : mslog) : Prop := MkLoop {
  lo_high : ms_highest log = (ms_highest log0 + 1)%N;
  lo_sorted : ssorted (ms_order log);
  lo_le : forall q, In q (ms_order log) -> (q <= ms_highest log)%N;
  lo_keys_u : forall q, aget q (ms_updates log) <> None -> In q (ms_order log);
  lo_keys_e : forall q, aget q (ms_expunges log) <> None -> In q (ms_order log);
  lo_nd_u : NoDup (akeys (ms_updates log));
  lo_nd_e : NoDup (akeys (ms_expunges log));
  lo_disj : forall q, aget q (ms_updates log) = None \/ aget q (ms_expunges log) = None;
  lo_rec : forall u q, In u (rec_of (ms_updates log) q) \/ In u (rec_of (ms_expunges log) q) ->
                       aget u (ms_uids log) = Some q \/ (q = ms_highest log /\ In u rem);
  lo_map : forall u q, aget u (ms_uids log) = Some q ->
                       In u (rec_of (ms_updates log) q) \/ In u (rec_of (ms_expunges log) q);
  lo_old : forall u q, In u rem -> aget u (ms_uids log) = Some q -> (q < ms_highest log)%N;
  lo_new : forall u, In u all ->
                     In u (rec_of (if which then ms_updates log else ms_expunges log) (ms_highest log));
  lo_new_only : forall u, In u (rec_of (ms_updates log) (ms_highest log))
                          \/ In u (rec_of (ms_expunges log) (ms_highest log)) -> In u all;
  lo_kind : rec_of (if which then ms_expunges log else ms_updates log) (ms_highest log) = [];
  (* frame: uids outside `all` are untouched *)
  lo_frame_map : forall u, ~ In u all -> aget u (ms_uids log) = aget u (ms_uids log0);
  lo_frame_u : forall u q, ~ In u all ->
                           (In u (rec_of (ms_updates log) q) <-> In u (rec_of (ms_updates log0) q));
  lo_frame_e : forall u q, ~ In u all ->
                           (In u (rec_of (ms_expunges log) q) <-> In u (rec_of (ms_expunges log0) q)) }.

Lemma keys_le log q : LogInv log ->
  aget q (ms_updates log) <> None \/ aget q (ms_expunges log) <> None -> (q <= ms_highest log)%N.
Proof. intros I [H|H]; apply (li_le _ I); [apply (li_keys_u _ I)|apply (li_keys_e _ I)]; auto. Qed.

Lemma rec_of_nonempty data q u : In u (rec_of data q) -> aget q data <> None.
Proof. unfold rec_of. destruct (aget q data); [congruence|intros []]. Qed.

Lemma loop_init (which : bool) (uids : list N) (log : mslog) :
  LogInv log ->
  let q := (ms_highest log + 1)%N in
  let rs := nunion [] uids in
  let log1 : mslog := if which
              then MkLog q (ms_uids log) (aset q rs (ms_updates log)) (ms_expunges log)
                         (ms_order log ++ [q])
              else MkLog q (ms_uids log) (ms_updates log) (aset q rs (ms_expunges log))
                         (ms_order log ++ [q]) in
  LoopInv which log uids uids log1.
Proof.
  intros I q rs log1.
  assert (Fu : aget q (ms_updates log) = None).
  { destruct (aget q (ms_updates log)) eqn:E; auto.
    assert (q <= ms_highest log)%N by (apply keys_le; auto; left; congruence). lia. }
  assert (Fe : aget q (ms_expunges log) = None).
  { destruct (aget q (ms_expunges log)) eqn:E; auto.
    assert (q <= ms_highest log)%N by (apply keys_le; auto; right; congruence). lia. }
  assert (Ord : ssorted (ms_order log ++ [q])).
  { apply ssorted_app. repeat split; [apply (li_sorted _ I)|intros ? []|].
    intros x y Hx [<-|[]]. pose proof (li_le _ I _ Hx). lia. }
  assert (Rs : forall u, In u rs <-> In u uids).
  { intros u. unfold rs. rewrite nunion_In. cbn [In]. tauto. }
  assert (Old : forall u p, aget u (ms_uids log) = Some p -> (p < q)%N).
  { intros u p H. destruct (li_map _ I _ _ H) as [K|K]; apply rec_of_nonempty in K;
      [assert (p <= ms_highest log)%N by (apply keys_le; auto)
      |assert (p <= ms_highest log)%N by (apply keys_le; auto)]; lia. }
  assert (Hle : forall q0, In q0 (ms_order log ++ [q]) -> (q0 <= q)%N).
  { intros q0 Hq. apply in_app_or in Hq as [Hq|[<-|[]]]; [pose proof (li_le _ I _ Hq)|]; lia. }
  assert (Hold : forall q0, In q0 (ms_order log) -> In q0 (ms_order log ++ [q])).
  { intros q0 Hq. apply in_or_app; left; exact Hq. }
  assert (Hq : In q (ms_order log ++ [q])) by (apply in_or_app; right; left; reflexivity).
  assert (Ru : rec_of (ms_updates log) q = []) by (unfold rec_of; rewrite Fu; reflexivity).
  assert (Re : rec_of (ms_expunges log) q = []) by (unfold rec_of; rewrite Fe; reflexivity).
  destruct which; subst log1; constructor;
    cbn [ms_highest ms_order ms_updates ms_expunges ms_uids].
  - reflexivity.
  - exact Ord.
  - exact Hle.
  - intros q0 K. rewrite aget_aset in K. destruct (q0 =? q)%N eqn:E.
    + apply N.eqb_eq in E; subst; exact Hq.
    + apply Hold, (li_keys_u _ I), K.
  - intros q0 K. apply Hold, (li_keys_e _ I), K.
  - apply akeys_aset_NoDup, (li_nd_u _ I).
  - apply (li_nd_e _ I).
  - intros q0. rewrite aget_aset. destruct (q0 =? q)%N eqn:E.
    + apply N.eqb_eq in E; subst. right; exact Fe.
    + apply (li_disj _ I).
  - intros u q0. rewrite rec_of_aset. destruct (q0 =? q)%N eqn:E.
    + apply N.eqb_eq in E; subst q0. rewrite Re. intros [H|[]].
      right. split; [reflexivity|apply Rs, H].
    + intros H. left. apply (li_rec _ I), H.
  - intros u q0 H. rewrite rec_of_aset. destruct (q0 =? q)%N eqn:E.
    + apply N.eqb_eq in E; subst q0. apply Old in H. lia.
    + apply (li_map _ I), H.
  - intros u q0 _ H. apply Old in H. exact H.
  - intros u H. rewrite rec_of_aset, N.eqb_refl. apply Rs, H.
  - intros u. rewrite rec_of_aset, N.eqb_refl, Re. intros [H|[]]. apply Rs, H.
  - exact Re.
  - reflexivity.
  - intros u q0 Hn. rewrite rec_of_aset. destruct (q0 =? q)%N eqn:E; [|tauto].
    apply N.eqb_eq in E; subst q0. rewrite Ru, Rs. cbn [In]. tauto.
  - tauto.
  - reflexivity.
  - exact Ord.
  - exact Hle.
  - intros q0 K. apply Hold, (li_keys_u _ I), K.
  - intros q0 K. rewrite aget_aset in K. destruct (q0 =? q)%N eqn:E.
    + apply N.eqb_eq in E; subst; exact Hq.
    + apply Hold, (li_keys_e _ I), K.
  - apply (li_nd_u _ I).
  - apply akeys_aset_NoDup, (li_nd_e _ I).
  - intros q0. rewrite aget_aset. destruct (q0 =? q)%N eqn:E.
    + apply N.eqb_eq in E; subst. left; exact Fu.
    + apply (li_disj _ I).
  - intros u q0. rewrite rec_of_aset. destruct (q0 =? q)%N eqn:E.
    + apply N.eqb_eq in E; subst q0. rewrite Ru. intros [[]|H].
      right. split; [reflexivity|apply Rs, H].
    + intros H. left. apply (li_rec _ I), H.
  - intros u q0 H. rewrite rec_of_aset. destruct (q0 =? q)%N eqn:E.
    + apply N.eqb_eq in E; subst q0. apply Old in H. lia.
    + apply (li_map _ I), H.
  - intros u q0 _ H. apply Old in H. exact H.
  - intros u H. rewrite rec_of_aset, N.eqb_refl. apply Rs, H.
  - intros u. rewrite rec_of_aset, N.eqb_refl, Ru. intros [[]|H]. apply Rs, H.
  - exact Ru.
  - reflexivity.
  - tauto.
  - intros u q0 Hn. rewrite rec_of_aset. destruct (q0 =? q)%N eqn:E; [|tauto].
    apply N.eqb_eq in E; subst q0. rewrite Re, Rs. cbn [In]. tauto.
Qed.

Lemma loop_step which log0 all x rem log :
  LoopInv which log0 all (x :: rem) log -> NoDup (x :: rem) -> In x all ->
  LoopInv which log0 all rem (ms_set_one log x).
Proof.
  intros L ND Hx. inversion ND as [|? ? Hxr NDr]; subst.
  set (h := ms_highest log).
  unfold ms_set_one. fold h. destruct (aget x (ms_uids log)) as [p|] eqn:Px.
  - (* a previous record exists *)
    assert (Pl : (p < h)%N) by (apply (lo_old _ _ _ _ _ L x p); [left; reflexivity|exact Px]).
    destruct (ms_remove_prev x p (ms_updates log) (ms_order log)) as [upd' ord1] eqn:R1.
    destruct (ms_remove_prev x p (ms_expunges log) ord1) as [exp' ord2] eqn:R2.
    pose proof (remove_prev_spec _ _ _ _ _ _ R1 (lo_nd_u _ _ _ _ _ L)) as (F1 & F3 & F5 & S1 & I1).
    pose proof (remove_prev_spec _ _ _ _ _ _ R2 (lo_nd_e _ _ _ _ _ L)) as (F2 & F4 & F6 & S2 & I2).
    assert (F7 : ssorted ord2).
    { assert (ssorted ord1).
      { destruct S1 as [->|[-> _]]; [|apply remove_first_ssorted]; apply (lo_sorted _ _ _ _ _ L). }
      destruct S2 as [->|[-> _]]; [|apply remove_first_ssorted]; auto. }
    assert (F8 : forall q, In q ord2 -> In q (ms_order log)).
    { intros q K. assert (In q ord1).
      { destruct S2 as [->|[-> _]]; [auto|eapply remove_first_In, K]. }
      destruct S1 as [->|[-> _]]; [auto|eapply remove_first_In; eauto]. }
    assert (F9 : forall q, aget q upd' <> None -> In q ord2).
    { intros q K. pose proof (lo_keys_u _ _ _ _ _ L q (F5 q K)) as Ko.
      destruct (lo_disj _ _ _ _ _ L p) as [D|D].
      - destruct (I1 D) as [-> ->]. destruct S2 as [->|[-> [_ E]]]; [auto|].
        apply remove_first_In_neq; auto. intros ->. congruence.
      - destruct (I2 D) as [-> ->]. destruct S1 as [->|[-> [E _]]]; [auto|].
        apply remove_first_In_neq; auto. intros ->. congruence. }
    assert (F10 : forall q, aget q exp' <> None -> In q ord2).
    { intros q K. pose proof (lo_keys_e _ _ _ _ _ L q (F6 q K)) as Ko.
      destruct (lo_disj _ _ _ _ _ L p) as [D|D].
      - destruct (I1 D) as [-> ->]. destruct S2 as [->|[-> [E _]]]; [auto|].
        apply remove_first_In_neq; auto. intros ->. congruence.
      - destruct (I2 D) as [-> ->]. destruct S1 as [->|[-> [_ E]]]; [auto|].
        apply remove_first_In_neq; auto. intros ->. congruence. }
    assert (Hh : forall q, (q =? p)%N = true -> q <> h) by (intros q E; apply N.eqb_eq in E; lia).
    assert (Fh1 : rec_of upd' h = rec_of (ms_updates log) h).
    { rewrite F1. destruct (h =? p)%N eqn:E; [apply N.eqb_eq in E; lia|reflexivity]. }
    assert (Fh2 : rec_of exp' h = rec_of (ms_expunges log) h).
    { rewrite F2. destruct (h =? p)%N eqn:E; [apply N.eqb_eq in E; lia|reflexivity]. }
    constructor; cbn [ms_highest ms_order ms_updates ms_expunges ms_uids].
    + apply (lo_high _ _ _ _ _ L).
    + exact F7.
    + intros q K. apply (lo_le _ _ _ _ _ L), F8, K.
    + exact F9.
    + exact F10.
    + exact F3.
    + exact F4.
    + intros q. destruct (lo_disj _ _ _ _ _ L q) as [D|D]; [left|right].
      * destruct (aget q upd') eqn:E; auto. exfalso. apply (F5 q); congruence.
      * destruct (aget q exp') eqn:E; auto. exfalso. apply (F6 q); congruence.
    + intros u q. rewrite F1, F2. destruct (q =? p)%N eqn:E.
      * apply N.eqb_eq in E; subst q. rewrite !ndel_In. intros K.
        assert (Ku : u <> x) by (destruct K as [[_ K]|[_ K]]; exact K).
        assert (K' : In u (rec_of (ms_updates log) p) \/ In u (rec_of (ms_expunges log) p)) by tauto.
        destruct (lo_rec _ _ _ _ _ L u p K') as [M|[M _]]; [|fold h in M; lia].
        left. rewrite aget_aset_neq; auto.
      * intros K. destruct (lo_rec _ _ _ _ _ L u q K) as [M|[M1 M2]].
        -- destruct (N.eq_dec u x) as [->|Ne].
           ++ rewrite Px in M. inversion M; subst. rewrite N.eqb_refl in E. discriminate.
           ++ left. rewrite aget_aset_neq; auto.
        -- destruct M2 as [<-|M2].
           ++ left. rewrite aget_aset_eq. f_equal. exact (eq_sym M1).
           ++ right. split; auto.
    + intros u q. rewrite aget_aset. destruct (u =? x)%N eqn:E.
      * apply N.eqb_eq in E; subst u. intros K; inversion K; subst q.
        rewrite Fh1, Fh2. pose proof (lo_new _ _ _ _ _ L x Hx) as Kn. fold h in Kn.
        destruct which; [left|right]; exact Kn.
      * apply N.eqb_neq in E. intros K. rewrite F1, F2.
        destruct (lo_map _ _ _ _ _ L u q K) as [M|M]; [left|right];
          (destruct (q =? p)%N eqn:E2; [apply N.eqb_eq in E2; subst q; apply ndel_In; split; auto|auto]).
    + intros u q Hu. assert (u <> x) by (intros ->; auto). rewrite aget_aset_neq by auto.
      apply (lo_old _ _ _ _ _ L). right; exact Hu.
    + intros u Hu. pose proof (lo_new _ _ _ _ _ L u Hu) as K. fold h in K.
      destruct which; [rewrite Fh1|rewrite Fh2]; exact K.
    + intros u. rewrite Fh1, Fh2. apply (lo_new_only _ _ _ _ _ L).
    + pose proof (lo_kind _ _ _ _ _ L) as K. fold h in K.
      destruct which; [rewrite Fh2|rewrite Fh1]; exact K.
    + intros u Hn. assert (u <> x) by (intros ->; auto). rewrite aget_aset_neq by auto.
      apply (lo_frame_map _ _ _ _ _ L), Hn.
    + intros u q Hn. assert (u <> x) by (intros ->; auto).
      rewrite <- (lo_frame_u _ _ _ _ _ L u q Hn). rewrite F1.
      destruct (q =? p)%N eqn:E; [|tauto]. apply N.eqb_eq in E; subst q. rewrite ndel_In. tauto.
    + intros u q Hn. assert (u <> x) by (intros ->; auto).
      rewrite <- (lo_frame_e _ _ _ _ _ L u q Hn). rewrite F2.
      destruct (q =? p)%N eqn:E; [|tauto]. apply N.eqb_eq in E; subst q. rewrite ndel_In. tauto.
  - (* first record of this uid *)
    constructor; cbn [ms_highest ms_order ms_updates ms_expunges ms_uids];
      try solve [apply L].
    + intros u q K. destruct (lo_rec _ _ _ _ _ L u q K) as [M|[M1 M2]].
      * left. rewrite aget_aset_neq; auto. intros ->. congruence.
      * destruct M2 as [<-|M2].
        -- left. rewrite aget_aset_eq. f_equal. exact (eq_sym M1).
        -- right; split; auto.
    + intros u q. rewrite aget_aset. destruct (u =? x)%N eqn:E.
      * apply N.eqb_eq in E; subst u. intros K; inversion K; subst q.
        pose proof (lo_new _ _ _ _ _ L x Hx) as Kn. fold h in Kn.
        destruct which; [left|right]; exact Kn.
      * apply (lo_map _ _ _ _ _ L).
    + intros u q Hu. assert (u <> x) by (intros ->; auto). rewrite aget_aset_neq by auto.
      apply (lo_old _ _ _ _ _ L). right; exact Hu.
    + intros u Hn. assert (u <> x) by (intros ->; auto). rewrite aget_aset_neq by auto.
      apply (lo_frame_map _ _ _ _ _ L), Hn.
Qed.

Lemma loop_fold which log0 all rem : forall log,
  LoopInv which log0 all rem log -> NoDup rem -> incl rem all ->
  LoopInv which log0 all [] (fold_left ms_set_one rem log).
Proof.
  induction rem as [|x r IH]; intros log L ND Hi; cbn [fold_left]; auto.
  apply IH.
  - apply loop_step; auto. apply Hi. left; reflexivity.
  - inversion ND; auto.
  - intros y Hy. apply Hi. right; exact Hy.
Qed.

Lemma loop_final which log0 all log : LoopInv which log0 all [] log -> LogInv log.
Proof.
  intros L. constructor; try solve [apply L].
  intros u q K. destruct (lo_rec _ _ _ _ _ L u q K) as [M|[_ []]]. exact M.
Qed.

(* --------------------------------------------------- log_last, abstractly *)
Lemma log_last_true log u q : LogInv log ->
  (log_last log u = Some (q, true) <-> In u (rec_of (ms_updates log) q)).
Proof.
  intros I. unfold log_last. split.
  - destruct (aget u (ms_uids log)) as [p|]; [|discriminate].
    destruct (nmem u (rec_of (ms_updates log) p)) eqn:E.
    + intros H; inversion H; subst. apply nmem_In, E.
    + destruct (nmem u (rec_of (ms_expunges log) p)); discriminate.
  - intros H. rewrite (li_rec _ I u q (or_introl H)).
    apply nmem_In in H. rewrite H. reflexivity.
Qed.
Lemma log_last_false log u q : LogInv log ->
  (log_last log u = Some (q, false) <-> In u (rec_of (ms_expunges log) q)).
Proof.
  intros I. unfold log_last. split.
  - destruct (aget u (ms_uids log)) as [p|]; [|discriminate].
    destruct (nmem u (rec_of (ms_updates log) p)) eqn:E; [discriminate|].
    destruct (nmem u (rec_of (ms_expunges log) p)) eqn:E2; [|discriminate].
    intros H; inversion H; subst. apply nmem_In, E2.
  - intros H. rewrite (li_rec _ I u q (or_intror H)).
    destruct (nmem u (rec_of (ms_updates log) q)) eqn:E.
    + apply nmem_In in E. exfalso.
      destruct (li_disj _ I q) as [D|D]; [apply rec_of_nonempty in E|apply rec_of_nonempty in H];
        congruence.
    + apply nmem_In in H. rewrite H. reflexivity.
Qed.
Lemma log_last_le log u q k : LogInv log -> log_last log u = Some (q, k) -> (q <= ms_highest log)%N.
Proof.
  intros I H. destruct k.
  - apply log_last_true in H; auto. apply rec_of_nonempty in H. apply keys_le; auto.
  - apply log_last_false in H; auto. apply rec_of_nonempty in H. apply keys_le; auto.
Qed.

Lemma log_last_ext log log' u : LogInv log -> LogInv log' ->
  (forall q, In u (rec_of (ms_updates log') q) <-> In u (rec_of (ms_updates log) q)) ->
  (forall q, In u (rec_of (ms_expunges log') q) <-> In u (rec_of (ms_expunges log) q)) ->
  log_last log' u = log_last log u.
Proof.
  intros I I' Hu He.
  destruct (log_last log u) as [[q k]|] eqn:E.
  - destruct k.
    + apply log_last_true; auto. apply Hu. apply log_last_true in E; auto.
    + apply log_last_false; auto. apply He. apply log_last_false in E; auto.
  - destruct (log_last log' u) as [[q k]|] eqn:E'; auto. exfalso. destruct k.
    + apply log_last_true in E'; auto. apply Hu in E'. apply log_last_true in E'; auto. congruence.
    + apply log_last_false in E'; auto. apply He in E'. apply log_last_false in E'; auto. congruence.
Qed.

(* update()/expunge() *)
Theorem ms_set_spec which uids log :
  LogInv log -> NoDup uids ->
  let log' := ms_set which uids log in
  LogInv log'
  /\ ms_highest log' = (ms_highest log + 1)%N
  /\ (forall u, In u uids -> log_last log' u = Some ((ms_highest log + 1)%N, which))
  /\ (forall u, ~ In u uids -> log_last log' u = log_last log u).
Proof.
  intros I ND. cbn zeta. unfold ms_set.
  pose proof (loop_init which uids log I) as L0. cbn zeta in L0.
  match goal with |- context [fold_left ms_set_one uids ?l1] => set (log1 := l1) in * end.
  assert (L : LoopInv which log uids [] (fold_left ms_set_one uids log1)).
  { apply loop_fold; auto. intros y Hy; exact Hy. }
  pose proof (loop_final _ _ _ _ L) as I'.
  split; [exact I'|]. split; [apply (lo_high _ _ _ _ _ L)|]. split.
  - intros u Hu. pose proof (lo_new _ _ _ _ _ L u Hu) as K. rewrite (lo_high _ _ _ _ _ L) in K.
    destruct which; [apply log_last_true|apply log_last_false]; auto.
  - intros u Hn. apply log_last_ext; auto; intros q.
    + apply (lo_frame_u _ _ _ _ _ L); auto.
    + apply (lo_frame_e _ _ _ _ _ L); auto.
Qed.

(* -------------------------------------------------------- find_updated *)
Lemma drop_lt_In m l q : ssorted l -> (In q (drop_lt m l) <-> In q l /\ (m <= q)%N).
Proof.
  induction l as [|x r IH]; cbn [drop_lt In ssorted]; [tauto|].
  intros [H1 H2]. destruct (x <? m)%N eqn:E.
  - rewrite IH by auto. split; [tauto|]. intros [[->|K] Hm]; [lia|auto].
  - cbn [In]. split.
    + intros [->|K]; [split; [auto|lia]|]. split; [auto|]. specialize (H1 _ K). lia.
    + tauto.
Qed.

Lemma ms_collect_In data qs : forall acc u,
  In u (fold_left (fun acc q => match aget q data with Some s => nunion acc s | None => acc end) qs acc)
  <-> In u acc \/ exists q, In q qs /\ In u (rec_of data q).
Proof.
  induction qs as [|q r IH]; intros acc u; cbn [fold_left In].
  - split; [auto|]. intros [H|[q [[] _]]]; auto.
  - rewrite IH. unfold rec_of at 2. split.
    + intros [H|[q0 [H1 H2]]].
      * destruct (aget q data) as [s|] eqn:E; [apply nunion_In in H as [H|H]|]; auto.
        right. exists q. split; auto. unfold rec_of. rewrite E. exact H.
      * right. exists q0. auto.
    + intros [H|[q0 [[<-|H1] H2]]].
      * left. destruct (aget q data); [apply nunion_In|]; auto.
      * left. unfold rec_of in H2. destruct (aget q data); [apply nunion_In; auto|destruct H2].
      * right. exists q0; auto.
Qed.

Theorem find_updated_spec m log u : LogInv log ->
  (In u (fst (ms_find_updated m log)) <-> exists q, log_last log u = Some (q, true) /\ (m <= q)%N)
  /\ (In u (snd (ms_find_updated m log)) <-> exists q, log_last log u = Some (q, false) /\ (m <= q)%N).
Proof.
  intros I. unfold ms_find_updated. cbn [fst snd]. rewrite !nsort_In. unfold ms_collect.
  rewrite !ms_collect_In. cbn [In]. split; split.
  - intros [[]|[q [H1 H2]]]. apply drop_lt_In in H1 as [_ H1]; [|apply (li_sorted _ I)].
    exists q. split; auto. apply log_last_true; auto.
  - intros [q [H1 H2]]. right. exists q. apply log_last_true in H1; auto. split; auto.
    apply drop_lt_In; [apply (li_sorted _ I)|]. split; auto.
    apply (li_keys_u _ I), (rec_of_nonempty _ _ _ H1).
  - intros [[]|[q [H1 H2]]]. apply drop_lt_In in H1 as [_ H1]; [|apply (li_sorted _ I)].
    exists q. split; auto. apply log_last_false; auto.
  - intros [q [H1 H2]]. right. exists q. apply log_last_false in H1; auto. split; auto.
    apply drop_lt_In; [apply (li_sorted _ I)|]. split; auto.
    apply (li_keys_e _ I), (rec_of_nonempty _ _ _ H1).
Qed.

Lemma find_updated_sorted m log :
  ssorted (fst (ms_find_updated m log)) /\ ssorted (snd (ms_find_updated m log)).
Proof. unfold ms_find_updated. cbn [fst snd]. split; apply nsort_ssorted. Qed.

Lemma order_sorted which uids log : LogInv log -> NoDup uids -> ssorted (ms_order (ms_set which uids log)).
Proof. intros I ND. apply (li_sorted _ (proj1 (ms_set_spec which uids log I ND))). Qed.
