(* Store/StoreExamples.v — concrete traces evaluated inside Coq: non-vacuity of
   the C01/C02 theorems, the refutation witness for the unguarded update()
   (finding C02-F1), and the pure statement that _compare reports every
   unsilenced flag change. *)
From PV Require Import Base.Prelude Store.Base Store.BaseProofs Store.Flags Store.ModSeq
     Store.ModSeqProofs Store.Mailbox Store.MailboxProofs Store.View Store.ViewProofs
     Store.Compare Store.CompareProofs Store.Session Store.SelProofs Store.System
     Store.SystemProofs Wire.SeqSet.
From Coq Require Import Lia.

Local Open Scope N_scope.

(* the demo account: INBOX with 4 messages *)
Definition demo_setup : list label :=
  [CreateBox 1 false; Deliver 1 [5] false 1; Deliver 1 [1; 5] false 2; Deliver 1 [4] false 3;
   Deliver 1 [] true 4; CreateBox 2 false].

(* three sessions; 2 expunges UID 101 and appends, 3 fetches without UID (EXPUNGE
   hidden), 1 moves the last message away, everybody catches up with NOOP *)
Definition demo_trace : list label :=
  demo_setup ++
  [Cmd 1 (CSelect 1 false); Cmd 2 (CSelect 1 false); Cmd 3 (CSelect 1 false);
   Cmd 2 (CStore [SOne (SNum 1)] false FAdd [2] false);
   Cmd 2 (CExpunge None);
   Cmd 2 (CAppend 1 [([5], 7)] (Some 2));
   Cmd 3 (CFetch [SRange (SNum 1) SMax] false true false);
   Cmd 1 (CMove [SOne SMax] false 2 None);
   Cmd 3 CNoop; Cmd 1 CNoop; Cmd 2 CNoop].

Example demo_views :
  let sy := exec sys_empty demo_trace in
  view_of sy 1 = Some [102; 103; 105] /\ view_of sy 2 = Some [102; 103; 105]
  /\ view_of sy 3 = Some [102; 103; 105]
  /\ option_map mb_uids (aget 1 (sy_boxes sy)) = Some [102; 103; 105].
Proof. vm_compute. repeat split. Qed.

(* the answer to session 3's NOOP: the expunge of UID 101 it was not allowed to
   see during its FETCH (and was queued in _pending_remove), and the MOVE of UID 104 *)
Example demo_noop_answer :
  snd (step (exec sys_empty (firstn 14 demo_trace)) (Cmd 3 CNoop))
  = [Expunge 4; Expunge 1; Tagged OK CNone].
Proof. vm_compute. reflexivity. Qed.

Example demo_shadow :
  match shadow_exec (sys_empty, fun _ => None) demo_trace with
  | Some (_, cls) => cls 1 = Some [102; 103; 105] /\ cls 3 = Some [102; 103; 105]
  | None => False
  end.
Proof. vm_compute. split; reflexivity. Qed.

(* the same programme on a maildir mailbox (uids from 1, full rescan instead of the log;
   session 3's STORE on the already expunged message works on its own cached copy) *)
Definition md_trace : list label :=
  [CreateMaildir 1; Deliver 1 [5] true 1; Deliver 1 [1; 5] true 2; Deliver 1 [4] true 3;
   Deliver 1 [] true 4; CreateMaildir 2;
   Cmd 1 (CSelect 1 false); Cmd 2 (CSelect 1 false); Cmd 3 (CSelect 1 false);
   Cmd 2 (CStore [SOne (SNum 1)] false FAdd [2] false);
   Cmd 2 (CExpunge None);
   Cmd 2 (CAppend 1 [([5], 7)] (Some 2));
   Cmd 3 (CStore [SOne (SNum 1)] false FAdd [4] false);
   Cmd 3 (CFetch [SRange (SNum 1) SMax] false true false);
   Cmd 1 (CMove [SOne SMax] false 2 None);
   Cmd 3 CNoop; Cmd 1 CNoop; Cmd 2 CNoop].

Example md_views :
  let sy := exec sys_empty md_trace in
  view_of sy 1 = Some [2; 3; 5] /\ view_of sy 2 = Some [2; 3; 5] /\ view_of sy 3 = Some [2; 3; 5]
  /\ option_map mb_uids (aget 1 (sy_boxes sy)) = Some [2; 3; 5]
  /\ match shadow_exec (sys_empty, fun _ => None) md_trace with
     | Some (_, cls) => cls 3 = Some [2; 3; 5]
     | None => False
     end.
Proof. vm_compute. repeat split. Qed.

(* hypotheses of compare_sync are satisfiable by a non-trivial pair *)
Example compare_example :
  compare_uids [101; 102; 104; 107] [(101, 1); (102, 2); (104, 3); (107, 4)] [102; 107; 108; 110] false
  = [Expunge 3; Expunge 1; Exists 4].
Proof. vm_compute. reflexivity. Qed.

(* ------------------------------------------------------------------------
   C02-F1: update() as it was before fix 5ba4819.  Message 101 is appended and
   expunged; an update of the expunged uid then turns its expunge record into
   an update record: find_updated no longer reports the expunge. *)
Definition f1_box : mbox :=
  mb_delete [101] (fst (mb_append [] false 1 (mb_new false false))).

Example f1_before : snd (ms_find_updated 1 (mb_log f1_box)) = [101].
Proof. vm_compute. reflexivity. Qed.

Lemma unguarded_update_refuted :
  exists b u, BoxInv b /\ known b u /\ ~ In u (mb_uids b)
    /\ In u (snd (ms_find_updated 1 (mb_log b)))
    /\ exists b' m, mb_update_unguarded u FAdd [5] b = Some (b', m, true)
         /\ ~ In u (snd (ms_find_updated 1 (mb_log b')))
         /\ ~ In u (mb_uids b')
         /\ ~ BoxInv b'.
Proof.
  exists f1_box, 101.
  assert (I0 : BoxInv (fst (mb_append [] false 1 (mb_new false false)))).
  { apply (mb_append_inv [] false 1 (mb_new false false)), BoxInv_new. }
  assert (I1 : BoxInv f1_box).
  { unfold f1_box. apply mb_delete_inv; auto.
    - constructor; [intros []|constructor].
    - intros u [<-|[]]. unfold known. vm_compute. discriminate. }
  split; [exact I1|]. split; [unfold known; vm_compute; discriminate|].
  split; [vm_compute; tauto|]. split; [vm_compute; auto|].
  eexists. eexists. split; [vm_compute; reflexivity|].
  split; [vm_compute; tauto|]. split; [vm_compute; tauto|].
  intros I'. assert (H : In 101 (mb_uids
     (with_log f1_box (ms_update [101] (mb_log f1_box))))).
  { apply (bi_alive _ I'). exists 3. vm_compute. reflexivity. }
  vm_compute in H. exact H.
Qed.

(* ------------------------------------------------------------------------
   statements over all reachable states (from sys_empty), as used by Props *)
Lemma reachable_inv ls : Inv (exec sys_empty ls).
Proof. apply inv_exec, inv_init. Qed.

Lemma update_keeps_numbering msgs v :
  ssorted (v_sorted v) -> seqs_ok (v_seqs v) (v_sorted v) ->
  ssorted (v_sorted (view_update msgs v))
  /\ seqs_ok (v_seqs (view_update msgs v)) (v_sorted (view_update msgs v)).
Proof. intros H1 H2. split; [apply vu_ssorted|apply vu_seqs_ok]; assumption. Qed.
Lemma remove_keeps_numbering uids v :
  ssorted (v_sorted v) -> seqs_ok (v_seqs v) (v_sorted v) ->
  ssorted (v_sorted (view_remove uids false v))
  /\ seqs_ok (v_seqs (view_remove uids false v)) (v_sorted (view_remove uids false v)).
Proof. intros H1 H2. split; [apply vr_ssorted|apply vr_seqs_ok]; assumption. Qed.

Lemma clients_in_sync ls :
  exists cls, shadow_exec (sys_empty, fun _ => None) ls = Some (exec sys_empty ls, cls)
              /\ forall s, cls s = view_of (exec sys_empty ls) s.
Proof. apply shadow_exec_ok; [exact inv_init|exact agree_empty]. Qed.

Lemma numbers_in_range ls l s start :
  let sy := exec sys_empty ls in
  label_actor l = Some s ->
  (if starts_fresh sy l then start = [] else view_of sy s = Some start) ->
  view_of (fst (step sy l)) s <> None ->
  numbers_ok (N_of_len start) (snd (step sy l)).
Proof. cbn zeta. apply step_numbers_ok, reachable_inv. Qed.

Lemma reachable_nonuid_no_expunge ls s c :
  let sy := exec sys_empty ls in
  ss_idle (sess_of sy s) = false -> nonuid_data c = true ->
  no_exp (snd (step sy (Cmd s c))).
Proof. cbn zeta. apply nonuid_no_expunge, reachable_inv. Qed.

Lemma boxes_wellformed ls n b : aget n (sy_boxes (exec sys_empty ls)) = Some b -> BoxInv b.
Proof. apply (reachable_inv ls). Qed.

Lemma reachable_expunge_sticky ls ls' n b u q :
  let sy := exec sys_empty ls in
  aget n (sy_boxes sy) = Some b -> log_last (mb_log b) u = Some (q, false) ->
  exists b' q', aget n (sy_boxes (exec sy ls')) = Some b'
                /\ log_last (mb_log b') u = Some (q', false) /\ (q <= q')%N.
Proof.
  cbn zeta. intros Hb L. pose proof (reachable_inv ls) as HI.
  destruct (exec_evolves ls' _ HI) as [G' Le]. destruct (Le n b Hb) as [b' [Hb' Le']].
  destruct (expunge_sticky b b' u q (proj1 HI _ _ Hb) (G' _ _ Hb') Le' L) as [q' [A B]].
  exists b', q'. auto.
Qed.

Lemma reachable_converges ls me s c :
  let sy := exec sys_empty ls in
  sel_of sy me = Some s -> ss_idle (sess_of sy me) = false -> c = CNoop \/ c = CCheck ->
  let sy' := fst (step sy (Cmd me c)) in
  exists s' b', sel_of sy' me = Some s' /\ aget (sel_box s') (sy_boxes sy') = Some b'
    /\ sy_boxes sy' = sy_boxes sy
    /\ v_sorted (sel_view s') = mb_uids b'
    /\ v_pending (sel_view s') = []
    /\ (forall u m, mb_alive u b' = Some m -> aget u (v_fkeys (sel_view s')) = Some (m_flags m)).
Proof.
  cbn zeta. intros Hs Idle Hc.
  destruct (noop_converges _ me s c (reachable_inv ls) Hs Idle Hc) as (s' & b' & A & B & C & D & E & F & _).
  exists s', b'. auto 10.
Qed.

(* the maildir backend, spelled out: the statements over all label sequences include the
   sequences that create maildir mailboxes; for a session selected on one of them NOOP/CHECK is
   the full rescan (no modification log is read) and ends with the list and the flags the
   files hold *)
Lemma maildir_clients_in_sync boxes ls :
  let ls' := map CreateMaildir boxes ++ ls in
  exists cls, shadow_exec (sys_empty, fun _ => None) ls' = Some (exec sys_empty ls', cls)
              /\ forall s, cls s = view_of (exec sys_empty ls') s.
Proof. cbn zeta. apply clients_in_sync. Qed.

Lemma maildir_converges ls me s b c :
  let sy := exec sys_empty ls in
  sel_of sy me = Some s -> aget (sel_box s) (sy_boxes sy) = Some b -> mb_md b = true ->
  ss_idle (sess_of sy me) = false -> c = CNoop \/ c = CCheck ->
  let sy' := fst (step sy (Cmd me c)) in
  exists s', sel_of sy' me = Some s' /\ aget (sel_box s') (sy_boxes sy') = Some b
    /\ v_sorted (sel_view s') = mb_uids b
    /\ v_pending (sel_view s') = []
    /\ (forall u m, mb_alive u b = Some m -> aget u (v_fkeys (sel_view s')) = Some (m_flags m)).
Proof.
  cbn zeta. intros Hs Hb _ Idle Hc.
  destruct (noop_converges _ me s c (reachable_inv ls) Hs Idle Hc) as (s' & b' & A & B & C & D & E & F & Bx).
  rewrite C, Bx, Hb in B. injection B as <-. exists s'. rewrite C, Bx. auto 10.
Qed.

Lemma reachable_no_false_expunge ls me s :
  let sy := exec sys_empty ls in
  sel_of sy me = Some s ->
  exists b, aget (sel_box s) (sy_boxes sy) = Some b
    /\ (mb_md b = false -> exists mq, sel_modseq s = Some mq
          /\ (forall u q, log_last (mb_log b) u = Some (q, true) -> (q <= mq)%N ->
                          In u (v_sorted (sel_view s))))
    /\ (forall u, In u (v_pending (sel_view s)) -> ~ In u (mb_uids b))
    /\ (forall u, In u (v_sorted (sel_view s)) -> known b u).
Proof.
  cbn zeta. intros Hs.
  pose proof (inv_sess_of _ me (reachable_inv ls)) as H.
  unfold SessOK in H. unfold sel_of in Hs. rewrite Hs in H. destruct H as [[b [Hb S]] _].
  exists b. split; [exact Hb|]. split; [|split].
  - intros Md. destruct (si_mq _ _ S Md) as (mq & Hm & _ & H3 & _).
    exists mq. split; [exact Hm|]. intros u q L Hq. apply (H3 u q L Hq).
  - intros u Hu. apply (si_pending _ _ S u Hu).
  - apply (si_known _ _ S).
Qed.
