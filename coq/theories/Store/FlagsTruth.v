(* Store/FlagsTruth.v — every FETCH response a command writes carries the flags
   that are stored for that message when the command ends (C02, flags clause). *)
From PV Require Import Base.Prelude Store.Base Store.BaseProofs Store.Flags Store.ModSeq
     Store.ModSeqProofs Store.Mailbox Store.MailboxProofs Store.View Store.ViewProofs
     Store.Compare Store.CompareProofs Store.Session Store.SelProofs Store.System
     Store.SystemProofs Wire.SeqSet.
From Coq Require Import Lia ZifyBool.

Definition fetch_truthful (b : mbox) (recent : list N) (r : resp) : Prop :=
  match r with
  | Fetch _ u fl _ => forall m, mb_alive u b = Some m -> fl = with_recent (nmem u recent) (m_flags m)
  | _ => True
  end.

(* update()/get() of one message leave every other message as it is *)
Lemma mb_update_frame u cf op fl b b' m ex v :
  mb_update u cf op fl b = Some (b', m, ex) -> v <> u -> mb_alive v b' = mb_alive v b.
Proof.
  unfold mb_update. destruct (mb_get u cf b) as [[m0 [|]]|] eqn:G; [| |discriminate].
  - intros H Hv; injection H as Hb Hm He. subst b'. reflexivity.
  - intros H Hv. injection H as Hb Hm He. subst b'. unfold mb_alive. cbn [mb_msgs].
    rewrite find_replace_msg. cbn [m_uid].
    destruct (mb_get_cases _ _ _ _ _ G) as (Mu & _ & _).
    rewrite Mu. destruct (v =? u)%N eqn:E; [apply N.eqb_eq in E; congruence|reflexivity].
Qed.

Lemma mb_update_result u cf op fl b b' m ex :
  mb_update u cf op fl b = Some (b', m, ex) ->
  (ex = false -> mb_alive u b' = Some m) /\ (ex = true -> mb_alive u b' = None /\ b' = b).
Proof.
  unfold mb_update. destruct (mb_get u cf b) as [[m0 [|]]|] eqn:G; [| |discriminate].
  - intros H; injection H as Hb Hm He. subst b' m ex. split; [discriminate|]. intros _. split; auto.
    apply (mb_get_cases _ _ _ _ _ G); reflexivity.
  - intros H; injection H as Hb Hm He. subst b' m ex. split; [|discriminate]. intros _.
    unfold mb_alive. cbn [mb_msgs]. rewrite find_replace_msg. cbn [m_uid].
    destruct (mb_get_cases _ _ _ _ _ G) as (Mu & A & _). specialize (A eq_refl).
    rewrite Mu, N.eqb_refl. unfold mb_alive in A. rewrite A. reflexivity.
Qed.

(* an operation of the message loops, with what it tells about the message *)
Definition op_exact (op : N -> mbox -> option (mbox * msg * bool)) : Prop :=
  forall u b b' m ex, op u b = Some (b', m, ex) ->
    (forall v, v <> u -> mb_alive v b' = mb_alive v b)
    /\ m_uid m = u
    /\ (ex = false -> mb_alive u b' = Some m)
    /\ (ex = true -> mb_alive u b' = None).

Lemma op_get_exact v : op_exact (op_get v).
Proof.
  intros u b b' m ex H. unfold op_get in H.
  destruct (mb_get u (aget u (v_fkeys v)) b) as [[m0 e0]|] eqn:G; [|discriminate].
  injection H as Hb Hm He. subst b' m0 e0. split; [auto|].
  destruct (mb_get_cases _ _ _ _ _ G) as (Mu & A & D). auto.
Qed.
Lemma op_update_exact v o fl : op_exact (op_update v o fl).
Proof.
  intros u b b' m ex H. unfold op_update in H.
  split; [intros w Hw; eapply mb_update_frame; eauto|].
  destruct (mb_update_result _ _ _ _ _ _ _ _ H) as [A B]. split.
    unfold mb_update in H. destruct (mb_get u (aget u (v_fkeys v)) b) as [[m0 e0]|] eqn:G; [|discriminate].
    destruct (mb_get_cases _ _ _ _ _ G) as (Mu & _ & _).
    destruct e0; injection H as Hb Hm He; subst m; exact Mu.
  - split; auto. intros E. apply B, E.
Qed.

(* what the loop returns is what the mailbox holds afterwards *)
Definition entries_ok (b : mbox) (l : list (N * msg * bool)) : Prop :=
  forall seq m ex, In (seq, m, ex) l ->
    if ex then mb_alive (m_uid m) b = None else mb_alive (m_uid m) b = Some m.

Lemma fold_none {A B} (f : option A -> B -> option A) l :
  (forall x, f None x = None) -> fold_left f l None = None.
Proof. intros H. induction l as [|x r IH]; cbn [fold_left]; auto. rewrite H. exact IH. Qed.

Lemma msg_loop_exact op : op_exact op -> forall targets b acc b' out,
  NoDup (map snd targets) ->
  (forall x, In x acc -> ~ In (m_uid (snd (fst x))) (map snd targets)) ->
  entries_ok b acc ->
  fold_left (fun (st : option (mbox * list (N * msg * bool))) (su : N * N) =>
               match st with
               | None => None
               | Some (b, acc) =>
                 match op (snd su) b with
                 | None => None
                 | Some (b', m, ex) => Some (b', acc ++ [(fst su, m, ex)])
                 end
               end) targets (Some (b, acc)) = Some (b', out) ->
  entries_ok b' out.
Proof.
  intros Hop. induction targets as [|[seq u] rest IH]; intros b acc b' out ND Dis Ok F; cbn [fold_left] in F.
  - inversion F; subst. exact Ok.
  - cbn [snd fst] in F. destruct (op u b) as [[[b1 m] ex]|] eqn:E.
    + destruct (Hop _ _ _ _ _ E) as (Fr & Mu & Ha & Hd).
      cbn [map snd] in ND. apply NoDup_cons_iff in ND as [Hnu ND'].
      apply (IH b1 (acc ++ [(seq, m, ex)]) b' out ND'); auto.
      * intros x Hx. apply in_app_or in Hx as [Hx|[<-|[]]].
        -- intros K. apply (Dis x Hx). cbn [map snd]. right; exact K.
        -- cbn [fst snd]. rewrite Mu. exact Hnu.
      * intros seq0 m0 ex0 Hin. apply in_app_or in Hin as [Hin|[Hin|[]]].
        -- specialize (Ok _ _ _ Hin).
           assert (Ne : m_uid m0 <> u).
           { intros Eq. apply (Dis _ Hin). cbn [fst snd map]. left. auto. }
           rewrite (Fr _ Ne). exact Ok.
        -- injection Hin as E1 E2 E3. subst seq0 m0 ex0. rewrite Mu. destruct ex; auto.
    + rewrite fold_none in F; [discriminate|]. intros x. reflexivity.
Qed.

(* ----------------------------------------------------- labels and merging *)
Definition Labelled (V : list N) (r : resp) : Prop :=
  match r with
  | Fetch seq u _ _ => (seq <> 0)%N /\ nth_error V (N.to_nat seq - 1) = Some u
  | _ => True
  end.

Lemma merge_fetch_truthful b rc V seq u fl sh : forall l l',
  merge_fetch (Fetch seq u fl sh) l = Some l' ->
  Labelled V (Fetch seq u fl sh) -> fetch_truthful b rc (Fetch seq u fl sh) ->
  Forall (Labelled V) l -> Forall (fetch_truthful b rc) l ->
  Forall (Labelled V) l' /\ Forall (fetch_truthful b rc) l'.
Proof.
  induction l as [|x rest IH]; intros l' M Lr Tr Ll Tl; [discriminate|].
  inversion Ll as [|? ? Lx Ll']; subst. inversion Tl as [|? ? Tx Tl']; subst.
  assert (Generic : forall l'', merge_fetch (Fetch seq u fl sh) rest = Some l'' ->
                                Forall (Labelled V) (x :: l'') /\ Forall (fetch_truthful b rc) (x :: l'')).
  { intros l'' M'. destruct (IH l'' M' Lr Tr Ll' Tl') as [A B]. split; constructor; auto. }
  destruct x; cbn [merge_fetch] in M;
    try (destruct (merge_fetch (Fetch seq u fl sh) rest) as [l''|] eqn:M'; cbn [option_map] in M;
         [inversion M; subst; apply Generic; reflexivity|discriminate]).
  destruct (seq =? seq0)%N eqn:Es.
  - apply N.eqb_eq in Es; subst seq0. inversion M; subst; clear M.
    cbn [Labelled] in Lr, Lx. destruct Lr as [Z Hu], Lx as [_ Hu'].
    assert (uid = u) by congruence. subst uid.
    split; constructor; auto.
    + cbn [Labelled]. destruct sh; auto.
    + cbn [fetch_truthful] in *. destruct sh; exact Tr.
  - destruct (merge_fetch (Fetch seq u fl sh) rest) as [l''|] eqn:M'; cbn [option_map] in M;
      [inversion M; subst; apply Generic; reflexivity|discriminate].
Qed.

Lemma add_untagged_truthful b rc V rs : forall l,
  Forall (Labelled V) l -> Forall (fetch_truthful b rc) l ->
  Forall (Labelled V) rs -> Forall (fetch_truthful b rc) rs ->
  Forall (fetch_truthful b rc) (add_untagged l rs).
Proof.
  unfold add_untagged. induction rs as [|r rest IH]; intros l Ll Tl Lr Tr; cbn [fold_left]; auto.
  inversion Lr as [|? ? Lr1 Lr']; subst. inversion Tr as [|? ? Tr1 Tr']; subst.
  assert (Plain : Forall (Labelled V) (l ++ [r]) /\ Forall (fetch_truthful b rc) (l ++ [r])).
  { split; apply Forall_app; split; auto. }
  assert (Step : Forall (Labelled V) (add_untagged1 l r) /\ Forall (fetch_truthful b rc) (add_untagged1 l r)).
  { destruct r as [n|n|n|seq uid fl sh|bu ids|c|n|n| |c k|]; cbn [add_untagged1]; auto.
    destruct (merge_fetch (Fetch seq uid fl sh) l) as [l'|] eqn:M; auto.
    eapply merge_fetch_truthful; eauto. }
  destruct Step as [A B]. apply IH; auto.
Qed.

Lemma labelled_prefix V t r : Labelled V r -> Labelled (V ++ t) r.
Proof.
  destruct r; cbn [Labelled]; auto. intros [Z H]. split; auto.
  rewrite nth_error_app1; auto. apply nth_error_Some. congruence.
Qed.

(* the FETCH updates produced by fork() *)
Lemma fork_truthful b wu s :
  (forall u m, mb_alive u b = Some m -> In u (v_sorted (sel_view s)) ->
               aget u (v_fkeys (sel_view s)) = Some (m_flags m)) ->
  SelInv b s ->
  Forall (fetch_truthful b (sel_recent s)) (snd (fork (cached_of b (sel_view s)) wu s)).
Proof.
  intros Hfresh S. unfold fork. cbn [snd]. destruct (sel_prev s) as [fz|]; [|constructor].
  unfold compare. apply Forall_app. split; [|apply Forall_app; split].
  - unfold compare_uids. apply Forall_app. split.
    + destruct (sel_hide s); [constructor|]. apply Forall_forall. intros r Hr.
      apply in_map_iff in Hr as [u [<- _]]. destruct (aget u (fz_seqs fz)); exact I.
    + match goal with |- Forall _ (match ?x with _ => _ end) => destruct x end; repeat constructor.
  - match goal with |- Forall _ (if ?x then _ else _) => destruct x end; repeat constructor.
  - apply Forall_forall. intros r Hr. apply in_map_iff in Hr as [u [<- Hu]].
    destruct (aget u (fz_seqs (freeze s))); [|exact I].
    destruct (cached_of b (sel_view s) u) as [f|] eqn:C; [|exact I].
    cbn [fetch_truthful]. intros m A. unfold cached_of in C. destruct (mb_md b).
    + (* maildir: the cached copy is the synchronized snapshot *)
      apply (proj1 (nsort_In _ _)) in Hu.
      assert (Hv : In u (v_sorted (sel_view s))).
      { apply in_app_or in Hu as [Hu|Hu].
        - apply ndiff_In in Hu as [Hu _]. cbn [freeze fz_recent] in Hu. apply ninter_In in Hu. apply Hu.
        - apply in_map_iff in Hu as [[u' f'] [E Hu]]. cbn [fst] in E. subst u'.
          apply filter_In in Hu as [Hu _]. cbn [freeze fz_flags] in Hu. apply (si_kdom _ _ S).
          apply aget_In_keys. unfold akeys. apply in_map_iff. exists (u, f'). auto. }
      rewrite (Hfresh u m A Hv) in C. inversion C; subst. reflexivity.
    + unfold mb_cached in C. rewrite A in C. cbn [option_map] in C. inversion C; subst. reflexivity.
Qed.

(* the FETCH updates of fork() are numbered by the view *)
Lemma fork_labelled b wu s : SelInv b s ->
  Forall (Labelled (v_sorted (sel_view s))) (snd (fork (cached_of b (sel_view s)) wu s)).
Proof.
  intros S. unfold fork. cbn [snd]. destruct (sel_prev s) as [fz|]; [|constructor].
  unfold compare. apply Forall_app. split; [|apply Forall_app; split].
  - unfold compare_uids. apply Forall_app. split.
    + destruct (sel_hide s); [constructor|]. apply Forall_forall. intros r Hr.
      apply in_map_iff in Hr as [u [<- _]]. destruct (aget u (fz_seqs fz)); exact I.
    + match goal with |- Forall _ (match ?x with _ => _ end) => destruct x end; repeat constructor.
  - match goal with |- Forall _ (if ?x then _ else _) => destruct x end; repeat constructor.
  - apply Forall_forall. intros r Hr. apply in_map_iff in Hr as [u [<- Hu]].
    apply (proj1 (nsort_In _ _)) in Hu.
    assert (Hv : In u (v_sorted (sel_view s))).
    { apply in_app_or in Hu as [Hu|Hu].
      - apply ndiff_In in Hu as [Hu _]. cbn [freeze fz_recent] in Hu. apply ninter_In in Hu. apply Hu.
      - apply in_map_iff in Hu as [[u' f] [E Hu]]. cbn [fst] in E. subst u'.
        apply filter_In in Hu as [Hu _]. cbn [freeze fz_flags] in Hu. apply (si_kdom _ _ S).
        apply aget_In_keys. unfold akeys. apply in_map_iff. exists (u, f). auto. }
    destruct (seqs_ok_pos _ _ u (si_seqs _ _ S) Hv) as (n & Hn & Nz & Hnth).
    cbn [freeze fz_seqs]. rewrite Hn. destruct (cached_of b (sel_view s) u); [|exact I].
    cbn [Labelled]. auto.
Qed.

Lemma own_static_labelled V own : OwnStatic V own -> Forall (Labelled V) own.
Proof.
  intros H. apply Forall_forall. intros r Hr. destruct (H r Hr) as [_ St].
  destruct r; cbn [Labelled]; auto. apply (fetch_step V [] seq uid fl show_uid), St.
Qed.

(* ------------------------------------------ the commands' own FETCH responses *)
Definition is_fetch (r : resp) : bool := match r with Fetch _ _ _ _ => true | _ => false end.

Lemma no_fetch_truthful b rc l : (forall r, In r l -> is_fetch r = false) -> Forall (fetch_truthful b rc) l.
Proof.
  intros H. apply Forall_forall. intros r Hr. specialize (H r Hr). destruct r; try exact I. discriminate.
Qed.

Lemma entries_truthful b rc (msgs : list (N * msg * bool)) seq m ex sh :
  entries_ok b msgs -> In (seq, m, ex) msgs ->
  fetch_truthful b rc (Fetch seq (m_uid m) (with_recent (nmem (m_uid m) rc) (m_flags m)) sh).
Proof.
  intros Ok Hin. cbn [fetch_truthful]. intros m0 A. specialize (Ok _ _ _ Hin).
  destruct ex; [congruence|]. rewrite Ok in A. inversion A; subst. reflexivity.
Qed.

Lemma do_fetch_truthful bs s sset by_uid want_uid set_seen s' b' :
  Good bs -> SelOK bs s ->
  let o := do_fetch bs s sset by_uid want_uid set_seen in
  o_sel o = Some s' -> aget (sel_box s) (o_boxes o) = Some b' ->
  Forall (fetch_truthful b' (sel_recent s')) (o_untagged o).
Proof.
  intros G [b [Hb S]]. cbn zeta. unfold do_fetch. rewrite Hb.
  set (s0 := if by_uid then s else with_hide s).
  assert (V0 : sel_view s0 = sel_view s) by (unfold s0; destruct by_uid; reflexivity).
  rewrite V0.
  set (opf := if negb (sel_readonly s0) && set_seen
              then op_update (sel_view s) FAdd [F_SEEN] else op_get (sel_view s)).
  assert (Hex : op_exact opf).
  { unfold opf. destruct (negb (sel_readonly s0) && set_seen); [apply op_update_exact|apply op_get_exact]. }
  fold opf. destruct (msg_loop opf (view_select sset by_uid (sel_view s)) b) as [[b1 msgs]|] eqn:L;
    [|cbn; discriminate].
  cbn [o_sel o_boxes o_untagged]. rewrite aget_aset_eq. intros Es Eb. inversion Es; inversion Eb; subst.
  assert (Ok : entries_ok b' msgs).
  { unfold msg_loop in L.
    apply (msg_loop_exact opf Hex (view_select sset by_uid (sel_view s)) b [] b' msgs);
      [apply view_select_NoDup, ssorted_NoDup, (si_sorted _ _ S)|intros x []|intros ? ? ? []|exact L]. }
  apply Forall_forall. intros r Hr. apply in_map_iff in Hr as [[[seq m] ex] [<- Hm]].
  eapply entries_truthful; eauto.
Qed.

Lemma do_store_truthful bs s sset by_uid op fl silent s' b' :
  Good bs -> SelOK bs s ->
  let o := do_store bs s sset by_uid op fl silent in
  o_fork o = true -> o_sel o = Some s' -> aget (sel_box s) (o_boxes o) = Some b' ->
  Forall (fetch_truthful b' (sel_recent s')) (o_untagged o).
Proof.
  intros G [b [Hb S]]. cbn zeta. unfold do_store.
  destruct (sel_readonly s); [cbn; discriminate|]. rewrite Hb.
  set (s0 := if by_uid then s else with_hide s).
  assert (V0 : sel_view s0 = sel_view s) by (unfold s0; destruct by_uid; reflexivity).
  rewrite V0.
  destruct (msg_loop (op_update (sel_view s) op (perm_intersect (fs_of fl)))
                     (view_select sset by_uid (sel_view s)) b) as [[b1 msgs]|] eqn:L;
    [|cbn; discriminate].
  cbn [o_sel o_boxes o_untagged o_fork]. rewrite aget_aset_eq. intros _ Es Eb.
  inversion Es; inversion Eb; subst.
  assert (Ok : entries_ok b' msgs).
  { unfold msg_loop in L.
    apply (msg_loop_exact _ (op_update_exact (sel_view s) op (perm_intersect (fs_of fl)))
                          (view_select sset by_uid (sel_view s)) b [] b' msgs);
      [apply view_select_NoDup, ssorted_NoDup, (si_sorted _ _ S)|intros x []|intros ? ? ? []|exact L]. }
  apply Forall_forall. intros r Hr. apply in_flat_map in Hr as [[[seq m] ex] [Hm Hr]].
  destruct (negb ex && silent); [destruct Hr|]. destruct Hr as [<-|[]].
  eapply entries_truthful; eauto.
Qed.

Ltac crack :=
  repeat match goal with
         | |- context [match ?x with _ => _ end] => destruct x
         end.
Ltac no_fetch_list :=
  cbn [o_untagged app In]; intros r Hr;
  repeat (destruct Hr as [<-|Hr]; [reflexivity|]); try (destruct Hr).

Lemma finish_no_fetch bs s unt code wu g :
  (forall r, In r unt -> is_fetch r = false) ->
  forall r, In r (o_untagged (finish bs s unt code wu g)) -> is_fetch r = false.
Proof. intros H. unfold finish, server_bug. destruct (aget (sel_box s) bs); cbn [o_untagged]; auto. intros r []. Qed.

Lemma body_no_fetch me bs sel c :
  match c with CStore _ _ _ _ _ | CFetch _ _ _ _ => False | _ => True end ->
  forall r, In r (o_untagged (body me bs sel c)) -> is_fetch r = false.
Proof.
  intros Hc. destruct c; try destruct Hc; cbn [body].
  - (* SELECT *) unfold do_select, refuse. crack; no_fetch_list.
  - (* APPEND *)
    unfold do_append, refuse. destruct (aget box bs); [|no_fetch_list]. destruct (mb_readonly m); [no_fetch_list|].
    match goal with |- context [fold_left ?f msgs ?i] => destruct (fold_left f msgs i) as [[[d' cur'] grants] uids] end.
    destruct cur'; [apply finish_no_fetch; intros r []|no_fetch_list].
  - (* EXPUNGE *)
    destruct sel as [s|]; [|unfold refuse; no_fetch_list].
    unfold do_expunge, refuse, server_bug. crack; no_fetch_list.
  - (* COPY *)
    destruct sel as [s|]; [|unfold refuse; no_fetch_list].
    unfold do_copy, do_copy_move, refuse, server_bug.
    destruct (false && sel_readonly s); [no_fetch_list|].
    destruct (aget box bs); [|no_fetch_list]. destruct (mb_readonly m); [no_fetch_list|].
    match goal with |- context [fold_left ?f ?t ?i] => destruct (fold_left f t i) as [[[[bs' [s'|]] grants] pairs]|] end;
      [apply finish_no_fetch; intros r []|no_fetch_list|no_fetch_list].
  - (* MOVE *)
    destruct sel as [s|]; [|unfold refuse; no_fetch_list].
    unfold do_move, do_copy_move, refuse, server_bug.
    destruct (true && sel_readonly s); [no_fetch_list|].
    destruct (aget box bs); [|no_fetch_list]. destruct (mb_readonly m); [no_fetch_list|].
    match goal with |- context [fold_left ?f ?t ?i] => destruct (fold_left f t i) as [[[[bs' [s'|]] grants] pairs]|] end;
      [apply finish_no_fetch; intros r [<-|[]]; reflexivity|no_fetch_list|no_fetch_list].
  - (* SEARCH *)
    destruct sel as [s|]; [|unfold refuse; no_fetch_list].
    unfold do_search, server_bug. cbv zeta. destruct (aget (sel_box s) bs); [|no_fetch_list].
    destruct (match sskey with Some k => k | None => (all_set, false) end) as [pre pre_uid].
    match goal with |- context [msg_loop ?o ?t ?b] => destruct (msg_loop o t b) as [[b1 msgs]|] end;
      no_fetch_list.
  - (* NOOP *) unfold do_noop. destruct sel; [apply finish_no_fetch; intros r []|no_fetch_list].
  - (* CHECK *) destruct sel as [s|]; [|unfold refuse; no_fetch_list]. unfold do_check. apply finish_no_fetch. intros r [].
  - (* touch *) unfold do_touch, do_noop. destruct sel; [apply finish_no_fetch; intros r []|no_fetch_list].
  - (* CLOSE *) destruct sel as [s|]; [|unfold refuse; no_fetch_list]. unfold do_close. destruct (sel_readonly s); no_fetch_list.
  - (* IDLE *) destruct sel as [s|]; [|unfold refuse]; no_fetch_list.
Qed.

(* ------------------------------------------------------------ assembling *)
Lemma grants_sel_box gs : forall ss i se,
  aget i (fold_left apply_grant gs ss) = Some se ->
  exists se0, aget i ss = Some se0
              /\ option_map sel_box (ss_sel se) = option_map sel_box (ss_sel se0).
Proof.
  induction gs as [|g rest IH]; intros ss i se H; cbn [fold_left] in H; [eauto|].
  destruct (IH _ _ _ H) as [se1 [H1 E1]]. unfold apply_grant in H1.
  destruct (aget (fst g) ss) as [[[s|] idle]|] eqn:Eg; eauto.
  rewrite aget_aset in H1. destruct (i =? fst g)%N eqn:Ei; eauto.
  apply N.eqb_eq in Ei; subst i. inversion H1; subst se1. exists (MkSess (Some s) idle).
  split; auto.
Qed.

Lemma tagged_truthful b rc r : tagged_fine r -> fetch_truthful b rc r.
Proof. intros [[c [k ->]] | ->]; exact I. Qed.

Theorem command_fetch_truthful sy me c : Inv sy ->
  forall s1 b1, sel_of (fst (do_command sy me c)) me = Some s1 ->
  aget (sel_box s1) (sy_boxes (fst (do_command sy me c))) = Some b1 ->
  exists rc, Forall (fetch_truthful b1 rc) (snd (do_command sy me c)).
Proof.
  intros HI. pose proof HI as [G HS]. unfold do_command.
  pose proof (inv_sess_of sy me HI) as Hse.
  set (se := sess_of sy me) in *. set (bs := sy_boxes sy) in *.
  assert (Hsel : forall s, ss_sel se = Some s -> SelOK bs s).
  { intros s E. unfold SessOK in Hse. rewrite E in Hse. apply Hse. }
  pose proof (body_br me bs (ss_sel se) c G Hsel) as B.
  set (o := body me bs (ss_sel se) c) in *.
  (* the selection of `me` in the final state has the box of the forked selection *)
  assert (Final : forall sel' (untagged : list resp) s1,
             sel_of (fst (MkSys (o_boxes o)
                                (fold_left apply_grant (o_grants o)
                                   (aset me (MkSess sel' match c, o_tagged o with CIdle, Cont => true | _, _ => false end)
                                         (sy_sess sy))),
                          untagged ++ [o_tagged o])) me = Some s1 ->
             exists s2, sel' = Some s2 /\ sel_box s1 = sel_box s2).
  { intros sel' untagged s1. cbn [fst]. unfold sel_of, sess_of. cbn [sy_sess].
    destruct (aget me (fold_left apply_grant (o_grants o) _)) as [se1|] eqn:E1; [|discriminate].
    destruct (grants_sel_box _ _ _ _ E1) as [se0 [E0 Eb]]. rewrite aget_aset_eq in E0.
    inversion E0; subst se0. cbn [ss_sel] in Eb. intros Hs. rewrite Hs in Eb. cbn [option_map] in Eb.
    destruct sel' as [s2|]; [|discriminate]. inversion Eb. eauto. }
  destruct (o_fork o) eqn:F.
  - destruct (br_fork _ _ _ _ B F) as [s' [E Cases]]. rewrite E.
    destruct Cases as [(s & Es & Hc & R & Hh)|(Hc & b0 & Hb0 & S0 & P0 & H0 & Si0 & V0 & Run0)].
    + destruct (rd_ok _ _ _ _ R) as [b' [Hb' S']].
      unfold fork_in. rewrite Hb'.
      unfold SessOK in Hse. rewrite Es in Hse. destruct Hse as [[bq [Hbq Sq]] [fz (Q1 & Q2 & Q3 & Q4 & Q5 & Q6)]].
      assert (Hprev : sel_prev s' = Some fz) by (rewrite (rd_prev _ _ _ _ R); exact Q1).
      assert (Hq : seqs_ok (fz_seqs fz) (v_sorted (sel_view s))) by (rewrite Q3; apply Sq).
      pose proof (fork_ok b' s' (o_with_uid o) (v_sorted (sel_view s)) fz
                    (proj1 (br_ev _ _ _ _ B) _ _ Hb') S' Hprev Q2 Hq (si_sorted _ _ Sq)
                    (rd_hide _ _ _ _ R) (rd_new _ _ _ _ R)) as FK. cbn zeta in FK.
      pose proof (fork_truthful b' (o_with_uid o) s' (fun u m A Hu => rd_flags _ _ _ _ R b' u m Hb' A Hu) S') as FT.
      pose proof (fork_labelled b' (o_with_uid o) s' S') as FL.
      destruct (fork (cached_of b' (sel_view s')) (o_with_uid o) s') as [s'' unt] eqn:EF. cbn [fst snd] in FK, FT, FL.
      destruct FK as (Run & S'' & Qt & Vw & Bx & Rc & Ro & Nx).
      intros s1 b1 Hs1 Hb1. destruct (Final (Some s'') _ s1 Hs1) as [s2 [E2 Eb2]].
      inversion E2; subst s2. cbn [fst sy_boxes] in Hb1. rewrite Eb2, Bx, Hb' in Hb1. inversion Hb1; subst b1.
      exists (sel_recent s'). cbn [snd].
      (* the command's own FETCH responses *)
      assert (Own : Forall (fetch_truthful b' (sel_recent s')) (o_untagged o)).
      { destruct c; try (apply no_fetch_truthful; apply (body_no_fetch me bs (ss_sel se)); exact I).
        - assert (Eo : o = do_store bs s sset by_uid op fl silent) by (unfold o; rewrite Es; reflexivity).
          rewrite Eo in *.
          apply (do_store_truthful bs s sset by_uid op fl silent s' b' G (Hsel s Es)); auto.
          rewrite <- (rd_box _ _ _ _ R). exact Hb'.
        - assert (Eo : o = do_fetch bs s sset by_uid want_uid set_seen) by (unfold o; rewrite Es; reflexivity).
          rewrite Eo in *.
          apply (do_fetch_truthful bs s sset by_uid want_uid set_seen s' b' G (Hsel s Es)); auto.
          rewrite <- (rd_box _ _ _ _ R). exact Hb'. }
      apply Forall_app. split; [|constructor; [apply tagged_truthful, B|constructor]].
      destruct (existsb is_expunge unt) eqn:Ex.
      * apply Forall_app. split; auto.
      * (* merged: the view only grew, both parts are numbered by the new view *)
        assert (Nu : no_exp unt) by (apply existsb_expunge_false, Ex).
        destruct (grow_run unt _ _ Nu Run) as [t Et]. cbn [fst] in Et.
        apply (add_untagged_truthful b' (sel_recent s') (v_sorted (sel_view s'))); auto.
        rewrite Et. apply Forall_impl with (P := Labelled (v_sorted (sel_view s))).
        -- intros r. apply labelled_prefix.
        -- apply own_static_labelled, R.
    + (* SELECT: no FETCH at all *)
      unfold fork_in. rewrite Hb0. unfold fork. rewrite P0. cbn [fst snd].
      intros s1 b1 Hs1 Hb1. exists []. cbn [existsb]. unfold add_untagged. cbn [fold_left].
      apply Forall_app. split; [|constructor; [apply tagged_truthful, B|constructor]].
      destruct c; try discriminate. apply no_fetch_truthful.
      apply (body_no_fetch me bs (ss_sel se) (CSelect box readonly)). exact I.
  - destruct (br_nofork _ _ _ _ B F) as [Hsel' Hun].
    assert (Shape : match o_sel o, false with
                    | Some s, true => let '(s', u) := fork_in (o_boxes o) s (o_with_uid o) in (Some s', u)
                    | x, _ => (x, [])
                    end = (o_sel o, @nil resp)) by (destruct (o_sel o); reflexivity).
    rewrite Shape, Hun. cbn [existsb add_untagged fold_left app snd].
    intros s1 b1 _ _. exists []. constructor; [apply tagged_truthful, B|constructor].
Qed.

Lemma reachable_fetch_truthful ls me c :
  let sy := exec sys_empty ls in
  ss_idle (sess_of sy me) = false ->
  forall s1 b1, sel_of (fst (step sy (Cmd me c))) me = Some s1 ->
  aget (sel_box s1) (sy_boxes (fst (step sy (Cmd me c)))) = Some b1 ->
  exists rc, Forall (fetch_truthful b1 rc) (snd (step sy (Cmd me c))).
Proof.
  cbn zeta. intros Idle. cbn [step]. rewrite Idle. apply command_fetch_truthful.
  apply inv_exec, inv_init.
Qed.
