(* Store/Compare.v — model of pymap/selected.py: _Frozen, SelectedMailbox
   (fields, add_updates, silence, fork, _compare) and of the untagged/tagged
   responses the store commands produce.  Definitions only
   (lemmas: Store/CompareProofs.v).

   resp — canonical responses (what harness/store_env.py parses lines into)
     Expunge n | Exists n | Recent n
     Fetch seq uid flags show_uid   `* seq FETCH (FLAGS (flags) [UID uid])`; [uid] is always
                                    carried (ghost when show_uid = false) so that theorems can
                                    talk about which message a label denotes
     Search by_uid ids              `* SEARCH ids`   (ids are (number shown, uid); the number
                                    shown is the uid iff by_uid)
     OkCode code                    `* OK [code] ...` (MOVE's COPYUID line)
     UidNext n | Unseen n           SELECT's informational lines
     Cont                           `+ Idling.`
     Tagged cond code               the tagged completion
     Bug                            KeyError/IndexError inside the server (-> BYE [SERVERBUG])
   frozen   = _Frozen (uids as the ascending list, seqs_cache, flags = _flags_key_map
              entries, recent = recent_uids & uids)
   selected = SelectedMailbox: sel_box (lookup name), sel_readonly, sel_modseq,
              sel_hide (_hide_expunged), sel_silenced (_silenced_flags), sel_prev,
              sel_view (shared by all forks), sel_recent (SessionFlags._recent,
              shared by all forks)
   API
     sel_new box readonly          SelectedMailbox(...) as built by select_mailbox
     add_updates msgs expunged s   SelectedMailbox.add_updates
     silence targets fl op s       SelectedMailbox.silence; targets = [(uid, flags in
                                   _flags_key_map)] for the addressed messages (since fix
                                   258cff1 the flags the session last synchronized, not the
                                   live flags of the aliased cached message)
     freeze s                      _Frozen(s)
     compare_uids buids bseqs auids hide   EXPUNGE + EXISTS part of _compare (pure core of C01)
     compare cached before after hide silenced recent with_uid   _compare
     fork cached with_uid s        fork(command) -> (copy, untagged)
   [cached : N -> option flags] reads the permanent flags of the session's cached
   message object (Mailbox.mb_cached through the selected mailbox). *)
From PV Require Import Base.Prelude Store.Base Store.Flags Store.View.

Inductive cond := OK | NO | BAD.
Inductive rcode :=
| CNone | CExpungeIssued | CReadWrite | CReadOnly | CTryCreate | CNonexistent
| CAppendUid (uids : list N)
| CCopyUid (pairs : list (N * N)).

Inductive resp :=
| Expunge (n : N)
| Exists (n : N)
| Recent (n : N)
| Fetch (seq uid : N) (fl : flags) (show_uid : bool)
| Search (by_uid : bool) (ids : list (N * N))
| OkCode (c : rcode)
| UidNext (n : N)
| Unseen (n : N)
| Cont
| Tagged (c : cond) (code : rcode)
| Bug.

Record frozen := MkFrozen {
  fz_uids : list N;
  fz_seqs : list (N * N);
  fz_flags : list (N * flags);
  fz_recent : list N }.

Record selected := MkSel {
  sel_box : N;
  sel_readonly : bool;
  sel_modseq : option N;
  sel_hide : bool;
  sel_silenced : list (N * flags);
  sel_prev : option frozen;
  sel_view : view;
  sel_recent : list N }.

Definition sel_new (box : N) (readonly : bool) : selected :=
  MkSel box readonly None false [] None view_empty [].

Definition add_updates (msgs : list (N * flags)) (expunged : list N) (s : selected) : selected :=
  let v := view_remove expunged (sel_hide s) (view_update msgs (sel_view s)) in
  MkSel (sel_box s) (sel_readonly s) (sel_modseq s) (sel_hide s) (sel_silenced s) (sel_prev s) v
        (if sel_hide s then sel_recent s else ndiff (sel_recent s) expunged).

Definition uf_eqb : N * flags -> N * flags -> bool := pair_eqb N.eqb fs_eqb.
Definition uf_mem (x : N * flags) (l : list (N * flags)) : bool := existsb (uf_eqb x) l.

(* silence(): targets are the addressed messages with their _flags_key_map flags *)
Definition silence (targets : list (N * flags)) (fl : flags) (op : flagop) (s : selected) : selected :=
  let pset := perm_intersect fl in
  let add acc t :=
      let '(u, cur) := t in
      let upd := flagop_apply op cur pset in
      if fs_eqb cur upd then acc
      else if uf_mem (u, upd) acc then acc else acc ++ [(u, upd)] in
  MkSel (sel_box s) (sel_readonly s) (sel_modseq s) (sel_hide s)
        (fold_left add targets (sel_silenced s)) (sel_prev s) (sel_view s) (sel_recent s).

Definition freeze (s : selected) : frozen :=
  let v := sel_view s in
  MkFrozen (v_sorted v) (v_seqs v) (v_fkeys v) (ninter (sel_recent s) (v_sorted v)).

(* the EXPUNGE/EXISTS part of _compare *)
Definition compare_uids (buids : list N) (bseqs : list (N * N)) (auids : list N) (hide : bool)
  : list resp :=
  let expunged := ndiff buids auids in
  let new := ndiff auids buids in
  (if hide then []
   else map (fun u => match aget u bseqs with Some n => Expunge n | None => Bug end)
            (rev expunged))
  ++ (match new with [] => [] | _ => [Exists (N_of_len auids)] end).

Definition compare (cached : N -> option flags) (before after : frozen) (hide : bool)
           (silenced : list (N * flags)) (recent : list N) (with_uid : bool) : list resp :=
  let new_recent := ndiff (fz_recent after) (fz_recent before) in
  let new_flags := filter (fun kf => negb (uf_mem kf (fz_flags before)) && negb (uf_mem kf silenced))
                          (fz_flags after) in
  let fetch_uids := nsort (new_recent ++ map fst new_flags) in
  compare_uids (fz_uids before) (fz_seqs before) (fz_uids after) hide
  ++ (if (length (fz_recent after) =? length (fz_recent before))%nat then []
      else [Recent (N_of_len (fz_recent after))])
  ++ map (fun u => match aget u (fz_seqs after), cached u with
                   | Some n, Some f => Fetch n u (with_recent (nmem u recent) f) with_uid
                   | _, _ => Bug
                   end) fetch_uids.

Definition fork (cached : N -> option flags) (with_uid : bool) (s : selected)
  : selected * list resp :=
  let fz := freeze s in
  let copy := MkSel (sel_box s) (sel_readonly s) (sel_modseq s) false [] (Some fz)
                    (sel_view s) (sel_recent s) in
  (copy, match sel_prev s with
         | None => []
         | Some before => compare cached before fz (sel_hide s) (sel_silenced s)
                                  (sel_recent s) with_uid
         end).
