(* Store/ModSeq.v — model of pymap/backend/dict/mailbox.py:_ModSequenceMapping,
   field by field.  Definitions only (lemmas: Store/ModSeqProofs.v).

   State  mslog = { ms_highest; ms_uids : uid -> mod-seq of its last record;
                    ms_updates, ms_expunges : mod-seq -> set of uids;
                    ms_order : the list _mod_seqs_order }
   API
     ms_empty
     ms_update uids log      _ModSequenceMapping.update(uids)   (= _set(uids, _updates))
     ms_expunge uids log     _ModSequenceMapping.expunge(uids)  (= _set(uids, _expunges))
     ms_find_updated m log   find_updated(m) = (updated, expunged), each ascending
   Reading notes that matter:
   - _set always appends a record for the new mod-seq, also for an empty uid list;
   - the previous record of a uid is removed from BOTH maps (an update after an
     expunge erases the expunge record — callers must not do that, see
     Store/Mailbox.v mb_update);
   - find_updated uses bisect_left: records AT m are returned again;
     _mod_seqs_order is ascending (ModSeqProofs.order_sorted), so bisect_left is
     the number of leading elements < m, which is how it is written here. *)
From PV Require Import Base.Prelude Store.Base.

Record mslog := MkLog {
  ms_highest : N;
  ms_uids : list (N * N);
  ms_updates : list (N * list N);
  ms_expunges : list (N * list N);
  ms_order : list N }.

Definition ms_empty : mslog := MkLog 0 [] [] [] [].

(* _remove_prev(uid, prev_mod_seq, data) acting on (data, _mod_seqs_order) *)
Definition ms_remove_prev (uid prev : N) (data : list (N * list N)) (order : list N)
  : list (N * list N) * list N :=
  match aget prev data with
  | None => (data, order)
  | Some s =>
    match ndel uid s with
    | [] => (adel prev data, remove_first prev order)
    | s' => (aset prev s' data, order)
    end
  end.

(* one iteration of the `for uid in uids` loop of _set; the new mod-seq is ms_highest *)
Definition ms_set_one (log : mslog) (uid : N) : mslog :=
  let q := ms_highest log in
  let prev := aget uid (ms_uids log) in
  let uids' := aset uid q (ms_uids log) in
  match prev with
  | None => MkLog q uids' (ms_updates log) (ms_expunges log) (ms_order log)
  | Some p =>
    let '(upd, ord1) := ms_remove_prev uid p (ms_updates log) (ms_order log) in
    let '(exp, ord2) := ms_remove_prev uid p (ms_expunges log) ord1 in
    MkLog q uids' upd exp ord2
  end.

(* _set(uids, data); which = true: data is _updates, false: _expunges *)
Definition ms_set (which : bool) (uids : list N) (log : mslog) : mslog :=
  let q := (ms_highest log + 1)%N in
  let rec_set := nunion [] uids in
  let log1 :=
    if which
    then MkLog q (ms_uids log) (aset q rec_set (ms_updates log)) (ms_expunges log)
               (ms_order log ++ [q])
    else MkLog q (ms_uids log) (ms_updates log) (aset q rec_set (ms_expunges log))
               (ms_order log ++ [q]) in
  fold_left ms_set_one uids log1.

Definition ms_update := ms_set true.
Definition ms_expunge := ms_set false.

Fixpoint drop_lt (m : N) (l : list N) : list N :=
  match l with
  | [] => []
  | q :: r => if (q <? m)%N then drop_lt m r else l
  end.

Definition ms_collect (data : list (N * list N)) (qs : list N) : list N :=
  fold_left (fun acc q => match aget q data with Some s => nunion acc s | None => acc end) qs [].

Definition ms_find_updated (m : N) (log : mslog) : list N * list N :=
  let qs := drop_lt m (ms_order log) in
  (nsort (ms_collect (ms_updates log) qs), nsort (ms_collect (ms_expunges log) qs)).
