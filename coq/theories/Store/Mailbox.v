(* Store/Mailbox.v — model of pymap/backend/dict/mailbox.py: Message, MailboxData.
   Definitions only (lemmas: Store/MailboxProofs.v).

   msg  = { m_uid; m_flags (permanent flags); m_recent (the stored \Recent bit);
            m_content (opaque identity of the bytes, for C03/C10 users) }
   mbox = { mb_md (which backend); mb_readonly; mb_max_uid; mb_msgs (the dict _messages,
            insertion order = ascending uid; maildir: the uidlist records whose file exists);
            mb_dead; mb_log }
   A maildir mailbox (mb_md = true; pymap/backend/maildir/mailbox.py) is the same record:
   uids start at 1, next_uid = mb_max_uid + 1, only system flags can be stored, get()/update()
   of a message whose file is gone work on the session's own cached copy.  It has no
   modification log and no shared orphans: mb_log and mb_dead are still maintained for it, as
   ghost state that no maildir operation reads (they let one mailbox invariant serve both
   backends).
   mb_dead: the dict backend shares its Message objects with every session's
   cache (SynchronizedMessages._cache).  A message removed from _messages lives
   on in those caches with the flags it had when it was removed and is never
   mutated again (get() copies it before update() touches it).  The model
   keeps these orphans in [mb_dead] and lets session caches read through
   ([mb_cached]) — this is the aliasing, made explicit.
   API (names follow MailboxData)
     mb_new md readonly                  MailboxData() (+ the demo loader's _readonly)
     mb_alive uid b / mb_is_alive        _messages.get(uid)
     mb_cached uid b                     what a session's _cache[uid] reads now
     mb_append fl recent content b       append -> (b', uid)
     mb_copy_from m recent b             the destination half of copy/move -> (b', uid)
     mb_pop uid b                        the source half of move -> option (b', m)
     mb_get uid cf b                     get(uid, cached) -> option (m, expunged?)  (None = IndexError/TypeError)
     mb_update uid cf op fl b            update(uid, cached, fl, op) -> option (b', m, expunged?)
     mb_delete uids b                    delete(uids)
     mb_claim_recent b                   claim_recent -> (b', claimed uids)
     mb_uids b                           ascending list of existing uids
     snap_exists / snap_recent / snap_first_unseen / snap_next_uid   (snapshot())
   update() on a message that is no longer in _messages changes only the
   throw-away copy and writes no log record (fix 5ba4819, finding C02-F1; the
   unguarded variant [mb_update_unguarded] is kept for the refutation theorem
   C02_unguarded_update_refuted). *)
From PV Require Import Base.Prelude Store.Base Store.Flags Store.ModSeq.

Record msg := MkMsg { m_uid : N; m_flags : flags; m_recent : bool; m_content : N }.

Record mbox := MkBox {
  mb_md : bool;          (* true: a mailbox of the maildir backend *)
  mb_readonly : bool;
  mb_max_uid : N;
  mb_msgs : list msg;
  mb_dead : list msg;
  mb_log : mslog }.

Definition DICT_UID_BASE : N := 100.   (* dict MailboxData._max_uid = 100 *)
(* uids start above the base: 101.. in the dict backend, 1.. in a fresh dovecot-uidlist *)
Definition uid_base (md : bool) : N := if md then 0%N else DICT_UID_BASE.

Definition mb_new (md readonly : bool) : mbox := MkBox md readonly (uid_base md) [] [] ms_empty.

(* flags a mailbox can store: maildir keeps only what MaildirFlags.to_maildir can
   encode in the file name (system flags; no dovecot-keywords file is configured) *)
Definition storable (md : bool) (fl : flags) : flags := if md then perm_intersect fl else fl.

Fixpoint find_msg (uid : N) (l : list msg) : option msg :=
  match l with
  | [] => None
  | m :: r => if (m_uid m =? uid)%N then Some m else find_msg uid r
  end.
Fixpoint remove_msg (uid : N) (l : list msg) : list msg :=
  match l with
  | [] => []
  | m :: r => if (m_uid m =? uid)%N then r else m :: remove_msg uid r
  end.
Fixpoint replace_msg (m' : msg) (l : list msg) : list msg :=
  match l with
  | [] => []
  | m :: r => if (m_uid m =? m_uid m')%N then m' :: r else m :: replace_msg m' r
  end.

Definition mb_alive (uid : N) (b : mbox) : option msg := find_msg uid (mb_msgs b).
Definition mb_is_alive (uid : N) (b : mbox) : bool :=
  match mb_alive uid b with Some _ => true | None => false end.
Definition mb_uids (b : mbox) : list N := map m_uid (mb_msgs b).

(* the object a session cache holds for uid, as it reads now *)
Definition mb_cached (uid : N) (b : mbox) : option msg :=
  match mb_alive uid b with
  | Some m => Some m
  | None => find_msg uid (mb_dead b)
  end.

Definition with_log (b : mbox) (log : mslog) : mbox :=
  MkBox (mb_md b) (mb_readonly b) (mb_max_uid b) (mb_msgs b) (mb_dead b) log.

Definition mb_append (fl : flags) (recent : bool) (content : N) (b : mbox) : mbox * N :=
  let uid := (mb_max_uid b + 1)%N in
  (MkBox (mb_md b) (mb_readonly b) uid
         (mb_msgs b ++ [MkMsg uid (storable (mb_md b) fl) recent content]) (mb_dead b)
         (ms_update [uid] (mb_log b)), uid).

Definition mb_copy_from (m : msg) (recent : bool) (b : mbox) : mbox * N :=
  mb_append (m_flags m) recent (m_content m) b.

Definition mb_pop (uid : N) (b : mbox) : option (mbox * msg) :=
  match mb_alive uid b with
  | None => None
  | Some m =>
    Some (MkBox (mb_md b) (mb_readonly b) (mb_max_uid b) (remove_msg uid (mb_msgs b)) (m :: mb_dead b)
                (ms_expunge [uid] (mb_log b)), m)
  end.

(* get(uid, cached_msg); [cf] = the permanent flags of the session's cached message.
   dict: IndexError outside 1.._max_uid; a removed message is the aliased orphan.
   maildir: no uidlist record or no file -> Message.copy_expunged(cached_msg), i.e. the
   session's own snapshot. *)
Definition mb_get (uid : N) (cf : option flags) (b : mbox) : option (msg * bool) :=
  if mb_md b
  then match mb_alive uid b with
       | Some m => Some (m, false)
       | None => match cf with
                 | Some f => Some (MkMsg uid f false 0, true)
                 | None => None
                 end
       end
  else
  if (uid <? 1)%N || (mb_max_uid b <? uid)%N then None
  else match mb_alive uid b with
       | Some m => Some (m, false)
       | None => match find_msg uid (mb_dead b) with
                 | Some m => Some (m, true)
                 | None => None
                 end
       end.

Definition mb_update (uid : N) (cf : option flags) (op : flagop) (fl : flags) (b : mbox)
  : option (mbox * msg * bool) :=
  match mb_get uid cf b with
  | None => None
  | Some (m, true) =>
    Some (b, MkMsg (m_uid m) (flagop_apply op (m_flags m) fl) (m_recent m) (m_content m), true)
  | Some (m, false) =>
    let m' := MkMsg (m_uid m) (storable (mb_md b) (flagop_apply op (m_flags m) fl))
                    (m_recent m) (m_content m) in
    Some (MkBox (mb_md b) (mb_readonly b) (mb_max_uid b) (replace_msg m' (mb_msgs b)) (mb_dead b)
                (ms_update [uid] (mb_log b)), m', false)
  end.

(* update() as it was before fix 5ba4819: also logs an update for an expunged uid *)
Definition mb_update_unguarded (uid : N) (op : flagop) (fl : flags) (b : mbox)
  : option (mbox * msg * bool) :=
  match mb_update uid None op fl b with
  | Some (b', m, true) => Some (with_log b' (ms_update [uid] (mb_log b')), m, true)
  | r => r
  end.

Definition mb_delete (uids : list N) (b : mbox) : mbox :=
  let gone := filter (fun m => nmem (m_uid m) uids) (mb_msgs b) in
  MkBox (mb_md b) (mb_readonly b) (mb_max_uid b)
        (filter (fun m => negb (nmem (m_uid m) uids)) (mb_msgs b))
        (gone ++ mb_dead b)
        (ms_expunge uids (mb_log b)).

Definition mb_claim_recent (b : mbox) : mbox * list N :=
  let uids := map m_uid (filter m_recent (mb_msgs b)) in
  (MkBox (mb_md b) (mb_readonly b) (mb_max_uid b)
         (map (fun m => MkMsg (m_uid m) (m_flags m) false (m_content m)) (mb_msgs b))
         (mb_dead b) (ms_update uids (mb_log b)), uids).

Definition snap_exists (b : mbox) : N := N_of_len (mb_msgs b).
Definition snap_recent (b : mbox) : N := N_of_len (filter m_recent (mb_msgs b)).
Fixpoint first_unseen_from (i : N) (l : list msg) : option N :=
  match l with
  | [] => None
  | m :: r => if fs_mem F_SEEN (m_flags m) then first_unseen_from (i + 1)%N r else Some i
  end.
Definition snap_first_unseen (b : mbox) : option N := first_unseen_from 1 (mb_msgs b).
Definition snap_next_uid (b : mbox) : N := (mb_max_uid b + 1)%N.
