(* Store/SystemProofs.v — the system invariant over all reachable states of any
   number of sessions, and what every command body leaves behind. *)
From PV Require Import Base.Prelude Store.Base Store.BaseProofs Store.Flags Store.ModSeq
     Store.ModSeqProofs Store.Mailbox Store.MailboxProofs Store.View Store.ViewProofs
     Store.Compare Store.CompareProofs Store.Session Store.SelProofs Store.System Wire.SeqSet.
From Coq Require Import Lia ZifyBool.

(* ------------------------------------------------------------ mailboxes *)
Definition Good (bs : boxes) : Prop := forall n b, aget n bs = Some b -> BoxInv b.
Definition BoxesLe (bs bs' : boxes) : Prop :=
  forall n b, aget n bs = Some b -> exists b', aget n bs' = Some b' /\ BoxLe b b'.
Definition Evolves (bs bs' : boxes) : Prop := Good bs' /\ BoxesLe bs bs'.

Lemma evolves_refl bs : Good bs -> Evolves bs bs.
Proof. intros G. split; auto. intros n b H. exists b. split; auto. apply BoxLe_refl. Qed.

Lemma evolves_trans bs bs1 bs2 : Good bs -> Evolves bs bs1 -> Evolves bs1 bs2 -> Evolves bs bs2.
Proof.
  intros G [G1 L1] [G2 L2]. split; auto. intros n b H.
  destruct (L1 n b H) as [b1 [H1 Le1]]. destruct (L2 n b1 H1) as [b2 [H2 Le2]].
  exists b2. split; auto.
  apply (BoxLe_trans b b1 b2); [apply (G _ _ H)|apply (G1 _ _ H1)|auto|auto].
Qed.

Lemma evolves_set bs n b b' : Good bs -> aget n bs = Some b -> BoxInv b' -> BoxLe b b' ->
  Evolves bs (aset n b' bs).
Proof.
  intros G H I Le. split.
  - intros k x Hk. rewrite aget_aset in Hk. destruct (k =? n)%N; [inversion Hk; subst; auto|eauto].
  - intros k x Hk. rewrite aget_aset. destruct (k =? n)%N eqn:E.
    + apply N.eqb_eq in E; subst k. rewrite H in Hk. inversion Hk; subst. eauto.
    + exists x. split; auto. apply BoxLe_refl.
Qed.

Definition SelOK (bs : boxes) (s : selected) : Prop :=
  exists b, aget (sel_box s) bs = Some b /\ SelInv b s.

Lemma selok_evolves bs bs' s : Good bs -> Evolves bs bs' -> SelOK bs s -> SelOK bs' s.
Proof.
  intros G [G' L] [b [H S]]. destruct (L _ _ H) as [b' [H' Le]].
  exists b'. split; auto. apply (sel_stable b b'); auto; [apply (G _ _ H)|apply (G' _ _ H')].
Qed.

(* what fork() leaves: the snapshot equals the view, nothing hidden or silenced *)
Definition Quiet (s : selected) : Prop :=
  exists fz, sel_prev s = Some fz /\ fz_uids fz = v_sorted (sel_view s)
             /\ fz_seqs fz = v_seqs (sel_view s) /\ fz_flags fz = v_fkeys (sel_view s)
             /\ sel_hide s = false /\ sel_silenced s = [].

(* -------------------------------------------------------------- msg_loop *)
(* [v] is the view whose _flags_key_map supplies the cached message of a uid *)
Definition op_ok (v : view) (op : N -> mbox -> option (mbox * msg * bool)) : Prop :=
  forall u b, BoxInv b -> known b u -> aget u (v_fkeys v) <> None ->
    exists b' m ex, op u b = Some (b', m, ex) /\ BoxInv b' /\ BoxLe b b' /\ m_uid m = u.

Lemma op_get_ok v : op_ok v (op_get v).
Proof.
  intros u b I K Hk. destruct (mb_get_known b u (aget u (v_fkeys v)) I K (fun _ => Hk)) as (m & ex & G & Mu).
  exists b, m, ex. unfold op_get. rewrite G.
  split; [reflexivity|split; [exact I|split; [apply BoxLe_refl|exact Mu]]].
Qed.
Lemma op_update_ok v o fl : op_ok v (op_update v o fl).
Proof.
  intros u b I K Hk. destruct (mb_get_known b u (aget u (v_fkeys v)) I K (fun _ => Hk)) as (m0 & ex0 & G & Mu).
  unfold op_update. destruct (mb_update u (aget u (v_fkeys v)) o fl b) as [[[b' m] ex]|] eqn:E.
  - destruct (mb_update_inv _ _ _ _ _ _ _ _ I E) as (I' & Le & Mu' & _). exists b', m, ex. auto.
  - unfold mb_update in E. rewrite G in E. destruct ex0; discriminate.
Qed.

Lemma msg_loop_ok v op targets : op_ok v op -> forall b acc,
  BoxInv b -> (forall su, In su targets -> known b (snd su) /\ aget (snd su) (v_fkeys v) <> None) ->
  exists b' msgs,
    fold_left (fun (st : option (mbox * list (N * msg * bool))) (su : N * N) =>
                 match st with
                 | None => None
                 | Some (b, acc) =>
                   match op (snd su) b with
                   | None => None
                   | Some (b', m, ex) => Some (b', acc ++ [(fst su, m, ex)])
                   end
                 end) targets (Some (b, acc)) = Some (b', acc ++ msgs)
    /\ BoxInv b' /\ BoxLe b b'
    /\ map (fun x : N * msg * bool => (fst (fst x), m_uid (snd (fst x)))) msgs = targets.
Proof.
  intros Hop. induction targets as [|[seq u] rest IH]; intros b acc I K; cbn [fold_left].
  - exists b, []. rewrite app_nil_r.
    split; [reflexivity|split; [exact I|split; [apply BoxLe_refl|reflexivity]]].
  - destruct (K (seq, u) (or_introl eq_refl)) as [Ku Kk]. cbn [snd] in Ku, Kk.
    destruct (Hop u b I Ku Kk) as (b1 & m & ex & E & I1 & Le1 & Mu).
    cbn [snd fst]. rewrite E.
    destruct (IH b1 (acc ++ [(seq, m, ex)]) I1) as (b' & msgs & F & I' & Le' & Mp).
    { intros su Hsu. destruct (K su (or_intror Hsu)) as [A B]. split; [apply (le_known _ _ Le1), A|exact B]. }
    exists b', ((seq, m, ex) :: msgs). rewrite F, <- app_assoc. cbn [app].
    split; [reflexivity|split; [exact I'|split]].
    + apply (BoxLe_trans b b1 b'); auto.
    + cbn [map fst snd]. rewrite Mu, Mp. reflexivity.
Qed.

Lemma msg_loop_spec v op targets b : op_ok v op -> BoxInv b ->
  (forall su, In su targets -> known b (snd su) /\ aget (snd su) (v_fkeys v) <> None) ->
  exists b' msgs, msg_loop op targets b = Some (b', msgs) /\ BoxInv b' /\ BoxLe b b'
    /\ map (fun x : N * msg * bool => (fst (fst x), m_uid (snd (fst x)))) msgs = targets.
Proof.
  intros Hop I K. destruct (msg_loop_ok v op targets Hop b [] I K) as (b' & msgs & F & R).
  exists b', msgs. split; auto.
Qed.

(* ------------------------------------------------------------------ fork *)
Lemma cached_known b s u : BoxInv b -> SelInv b s -> In u (v_sorted (sel_view s)) ->
  cached_of b (sel_view s) u <> None.
Proof.
  intros I S Hu. pose proof (si_known _ _ S u Hu) as K. unfold cached_of.
  destruct (mb_md b); [apply (si_fkeys _ _ S u Hu)|].
  unfold mb_cached. destruct (known_cases b u I K) as [A|D].
  - apply mb_alive_In in A. destruct (mb_alive u b); [discriminate|congruence].
  - destruct (mb_alive u b); [discriminate|]. apply find_msg_In in D.
    destruct (find_msg u (mb_dead b)); [discriminate|congruence].
Qed.

Lemma seqs_ok_pos seqs l u : seqs_ok seqs l -> In u l ->
  exists n, aget u seqs = Some n /\ (n <> 0)%N /\ nth_error l (N.to_nat n - 1) = Some u.
Proof.
  intros Q H. apply In_nth_error in H as [i Hi]. exists (N.of_nat (S i)).
  split; [apply Q, Hi|]. split; [lia|]. replace (N.to_nat (N.of_nat (S i)) - 1)%nat with i by lia.
  exact Hi.
Qed.

Lemma existsb_expunge_false l : existsb is_expunge l = false -> no_exp l.
Proof.
  intros H n K. assert (existsb is_expunge l = true); [|congruence].
  apply existsb_exists. exists (Expunge n). split; auto.
Qed.

Section Fork.
  Variables (b : mbox) (s : selected) (with_uid : bool) (start : list N) (fz : frozen).
  Hypothesis IB : BoxInv b.
  Hypothesis S : SelInv b s.
  Hypothesis Hprev : sel_prev s = Some fz.
  Hypothesis Hfz : fz_uids fz = start.
  Hypothesis Hq : seqs_ok (fz_seqs fz) start.
  Hypothesis Hss : ssorted start.
  Let V := v_sorted (sel_view s).
  Hypothesis Hhide : sel_hide s = true -> incl start V.
  Hypothesis Hnew : forall u v, In u V -> ~ In u start -> In v start -> (v < u)%N.

  Lemma fork_ok :
    let s' := fst (fork (cached_of b (sel_view s)) with_uid s) in
    let unt := snd (fork (cached_of b (sel_view s)) with_uid s) in
    client_run_st (start, ndiff V start) unt = Some (V, [])
    /\ SelInv b s' /\ Quiet s' /\ sel_view s' = sel_view s /\ sel_box s' = sel_box s
    /\ sel_recent s' = sel_recent s /\ sel_readonly s' = sel_readonly s
    /\ (sel_hide s = true -> no_exp unt).
  Proof.
    cbn zeta. unfold fork. rewrite Hprev. cbn [fst snd].
    split; [|split; [|split; [|split; [|split; [|split; [|split]]]]]]; try reflexivity.
    - unfold compare. rewrite Hfz. cbn [freeze fz_uids fz_seqs fz_flags fz_recent]. fold V.
      rewrite client_run_st_app.
      rewrite (compare_run_st start V (fz_seqs fz) (sel_hide s) Hss (si_sorted _ _ S) Hq Hnew Hhide).
      apply static_run. intros r Hr. apply in_app_or in Hr as [Hr|Hr].
      + destruct (length (ninter (sel_recent s) V) =? length (fz_recent fz))%nat; [destruct Hr|].
        destruct Hr as [<-|[]]. split; reflexivity.
      + apply in_map_iff in Hr as [u [Hr Hu]]. apply (proj1 (nsort_In _ _)) in Hu.
        assert (Hv : In u V).
        { apply in_app_or in Hu as [Hu|Hu].
          - apply ndiff_In in Hu as [Hu _]. apply ninter_In in Hu. apply Hu.
          - apply in_map_iff in Hu as [[u' f] [E Hu]]. cbn [fst] in E. subst u'.
            apply filter_In in Hu as [Hu _]. apply (si_kdom _ _ S).
            apply aget_In_keys. unfold akeys. apply in_map_iff. exists (u, f). auto. }
        destruct (seqs_ok_pos _ _ u (si_seqs _ _ S) Hv) as (n & Hn & Nz & Hnth).
        fold V in Hn. rewrite Hn in Hr.
        pose proof (cached_known b s u IB S Hv) as Hc.
        destruct (cached_of b (sel_view s) u) as [f|]; [|congruence]. subst r.
        split; [reflexivity|]. apply fetch_step. auto.
    - apply (SelInv_ext b s); auto.
    - exists (freeze s). cbn. auto 10.
    - intros Hh n K. unfold compare in K. rewrite Hh in K.
      apply in_app_or in K as [K|K].
      + unfold compare_uids in K. cbn [app] in K.
        destruct (ndiff (fz_uids (freeze s)) (fz_uids fz)); [destruct K|].
        destruct K as [K|[]]. discriminate.
      + apply in_app_or in K as [K|K].
        * destruct (_ =? _)%nat; [destruct K|]. destruct K as [K|[]]. discriminate.
        * apply in_map_iff in K as [u [K _]].
          destruct (aget u (fz_seqs (freeze s))); [|discriminate].
          destruct (cached_of b (sel_view s) u); discriminate.
  Qed.
End Fork.

(* ------------------------------------------------- outcome of a command *)
Definition OwnStatic (V : list N) (own : list resp) : Prop :=
  forall r, In r own -> is_static r = true /\ forall news, client_step (V, news) r = Some (V, news).

Definition SameCore (s s0 : selected) : Prop :=
  sel_view s0 = sel_view s /\ sel_modseq s0 = sel_modseq s /\ sel_prev s0 = sel_prev s
  /\ sel_box s0 = sel_box s /\ sel_readonly s0 = sel_readonly s.

Lemma SameCore_refl s : SameCore s s.
Proof. repeat split. Qed.
Lemma SameCore_hide s s0 : SameCore s s0 -> SameCore s (with_hide s0).
Proof. intros (A & B & C & D & E). repeat split; auto. Qed.
Lemma SameCore_recent s s0 r : SameCore s s0 -> SameCore s (with_recent_set s0 r).
Proof. intros (A & B & C & D & E). repeat split; auto. Qed.
Lemma SameCore_silence s s0 t fl op : SameCore s s0 -> SameCore s (silence t fl op s0).
Proof. intros (A & B & C & D & E). repeat split; auto. Qed.

(* the selection a finished command hands to fork(), relative to the selection
   [s] the command started with *)
Record Ready (s s' : selected) (bs' : boxes) (own : list resp) : Prop := MkReady {
  rd_box : sel_box s' = sel_box s;
  rd_ro : sel_readonly s' = sel_readonly s;
  rd_ok : SelOK bs' s';
  rd_prev : sel_prev s' = sel_prev s;
  rd_hide : sel_hide s' = true -> incl (v_sorted (sel_view s)) (v_sorted (sel_view s'));
  rd_new : forall u v, In u (v_sorted (sel_view s')) -> ~ In u (v_sorted (sel_view s)) ->
                       In v (v_sorted (sel_view s)) -> (v < u)%N;
  rd_own : OwnStatic (v_sorted (sel_view s)) own;
  rd_conv : sel_hide s' = false -> forall b', aget (sel_box s') bs' = Some b' ->
            (forall u, In u (v_sorted (sel_view s')) <-> In u (mb_uids b'))
            /\ v_pending (sel_view s') = [];
  rd_flags : forall b' u m, aget (sel_box s') bs' = Some b' -> mb_alive u b' = Some m ->
             In u (v_sorted (sel_view s')) -> aget u (v_fkeys (sel_view s')) = Some (m_flags m) }.

Lemma ready_after_sync bs bs' s s0 b' own :
  Good bs -> SelOK bs s -> Evolves bs bs' -> SameCore s s0 ->
  aget (sel_box s) bs' = Some b' -> OwnStatic (v_sorted (sel_view s)) own ->
  Ready s (sync b' s0) bs' own /\ sel_hide (sync b' s0) = sel_hide s0
  /\ sel_silenced (sync b' s0) = sel_silenced s0.
Proof.
  intros G OK Ev (Cv & Cm & Cp & Cb & Cr) Hb Own.
  destruct (selok_evolves bs bs' s G Ev OK) as [b1 [Hb1 S1]]. rewrite Hb in Hb1. inversion Hb1; subst b1.
  assert (S0 : SelInv b' s0) by (apply (SelInv_ext b' s); auto).
  assert (IB : BoxInv b') by (apply (proj1 Ev _ _ Hb)).
  destruct (sync_facts b' s0 IB S0) as (F1 & F2 & F3 & F4 & F5 & F6 & F7 & F8 & F9 & F10 & F11 & F12).
  rewrite Cv in *. split; [|split; auto].
  constructor; auto; try congruence.
  - exists b'. split; [rewrite F8, Cb; exact Hb|exact F1].
  - intros Hh. apply F2. congruence.
  - intros Hh b2 Hb2. rewrite F8, Cb, Hb in Hb2. inversion Hb2; subst b2. apply F4. congruence.
  - intros b2 u m Hb2. rewrite F8, Cb, Hb in Hb2. inversion Hb2; subst b2. apply F5.
Qed.

(* what every command body guarantees when it starts from selection [sel] *)
Definition tagged_fine (r : resp) : Prop := (exists c k, r = Tagged c k) \/ r = Cont.

Record BodySpec (bs : boxes) (s : selected) (o : outcome) : Prop := MkBodySpec {
  bsp_evolves : Evolves bs (o_boxes o);
  bsp_tagged : tagged_fine (o_tagged o);
  bsp_fork : o_fork o = true -> exists s', o_sel o = Some s' /\ Ready s s' (o_boxes o) (o_untagged o);
  bsp_nofork : o_fork o = false ->
               (o_sel o = Some s \/ o_sel o = None) /\ o_untagged o = [] }.

Lemma refuse_spec bs s c k : Good bs -> BodySpec bs s (refuse bs (Some s) c k).
Proof.
  intros G. constructor; cbn.
  - apply evolves_refl, G.
  - left; eauto.
  - discriminate.
  - auto.
Qed.

Lemma finish_spec bs bs' s s0 own code wu grants :
  Good bs -> SelOK bs s -> Evolves bs bs' -> SameCore s s0 ->
  OwnStatic (v_sorted (sel_view s)) own ->
  BodySpec bs s (finish bs' s0 own code wu grants)
  /\ (forall s', o_sel (finish bs' s0 own code wu grants) = Some s' ->
                 sel_hide s' = sel_hide s0 /\ sel_silenced s' = sel_silenced s0).
Proof.
  intros G OK Ev SC Own. unfold finish.
  destruct (selok_evolves bs bs' s G Ev OK) as [b' [Hb' _]].
  destruct SC as (Cv & Cm & Cp & Cb & Cr). rewrite Cb, Hb'.
  destruct (ready_after_sync bs bs' s s0 b' own G OK Ev) as (R & Hh & Hs); auto.
  { repeat split; auto. }
  split.
  - constructor; cbn; auto.
    + left; eauto.
    + intros _. eauto.
    + discriminate.
  - cbn. intros s' E. inversion E; subst. auto.
Qed.

(* ------------------------------------------------------- simple commands *)
Lemma own_nil V : OwnStatic V [].
Proof. intros r []. Qed.

Lemma do_noop_spec bs s : Good bs -> SelOK bs s -> BodySpec bs s (do_noop bs (Some s)).
Proof.
  intros G OK. apply finish_spec; auto using evolves_refl, SameCore_refl, own_nil.
Qed.
Lemma do_check_spec bs s : Good bs -> SelOK bs s -> BodySpec bs s (do_check bs s).
Proof.
  intros G OK. apply finish_spec; auto using evolves_refl, SameCore_refl, own_nil.
Qed.

(* targets of a sequence set are messages of the view, labelled with their position *)
Lemma targets_known bs s b sset by_uid : aget (sel_box s) bs = Some b -> SelInv b s ->
  forall su, In su (view_select sset by_uid (sel_view s)) ->
             known b (snd su) /\ aget (snd su) (v_fkeys (sel_view s)) <> None.
Proof.
  intros _ S [n u] H. cbn [snd]. apply view_select_In in H.
  split; [apply (si_known _ _ S), H|apply (si_fkeys _ _ S), H].
Qed.

Lemma msgs_target (msgs : list (N * msg * bool)) targets seq m ex :
  map (fun x : N * msg * bool => (fst (fst x), m_uid (snd (fst x)))) msgs = targets ->
  In (seq, m, ex) msgs -> In (seq, m_uid m) targets.
Proof.
  intros <- H. apply in_map_iff. exists (seq, m, ex). split; auto.
Qed.

Lemma fetch_static s sset by_uid seq u fl sh :
  In (seq, u) (view_select sset by_uid (sel_view s)) ->
  is_static (Fetch seq u fl sh) = true /\
  forall news, client_step (v_sorted (sel_view s), news) (Fetch seq u fl sh)
               = Some (v_sorted (sel_view s), news).
Proof.
  intros H. split; [reflexivity|]. intros news. apply fetch_step. eapply view_select_spec, H.
Qed.

Lemma do_store_spec bs s sset by_uid op fl silent :
  Good bs -> SelOK bs s ->
  let o := do_store bs s sset by_uid op fl silent in
  BodySpec bs s o /\ (o_fork o = true -> by_uid = false ->
                      forall s', o_sel o = Some s' -> sel_hide s' = true).
Proof.
  intros G OK. cbn zeta. unfold do_store.
  destruct (sel_readonly s); [split; [apply refuse_spec, G|discriminate]|].
  destruct OK as [b [Hb S]]. rewrite Hb.
  set (s0 := if by_uid then s else with_hide s).
  assert (V0 : sel_view s0 = sel_view s) by (unfold s0; destruct by_uid; reflexivity).
  rewrite V0.
  set (targets := view_select sset by_uid (sel_view s)).
  set (s1 := if silent then silence (keyed_targets (sel_view s) targets) (fs_of fl) op s0 else s0).
  assert (SC : SameCore s s1).
  { unfold s1, s0. destruct silent, by_uid; auto using SameCore_refl, SameCore_hide, SameCore_silence. }
  destruct (msg_loop_spec (sel_view s) (op_update (sel_view s) op (perm_intersect (fs_of fl))) targets b
              (op_update_ok _ _ _) (G _ _ Hb) (targets_known bs s b sset by_uid Hb S))
    as (b' & msgs & L & I' & Le & Mp).
  rewrite L.
  assert (Ev : Evolves bs (aset (sel_box s) b' bs)) by (apply (evolves_set bs _ b b'); auto).
  assert (Hb' : aget (sel_box s) (aset (sel_box s) b' bs) = Some b') by apply aget_aset_eq.
  match goal with |- context [MkOut _ _ true ?u _ _ _] => set (unt := u) end.
  assert (Own : OwnStatic (v_sorted (sel_view s)) unt).
  { intros r Hr. unfold unt in Hr. apply in_flat_map in Hr as [[[seq m] ex] [Hm Hr]].
    destruct (negb ex && silent); [destruct Hr|]. destruct Hr as [<-|[]].
    apply (fetch_static s sset by_uid). eapply msgs_target; eauto. }
  destruct (ready_after_sync bs _ s s1 b' unt G (ex_intro _ b (conj Hb S)) Ev SC Hb' Own)
    as (R & Hh & _).
  split.
  - constructor; cbn; auto.
    + left; eauto.
    + intros _. eauto.
    + discriminate.
  - cbn. intros _ -> s' E. inversion E; subst. rewrite Hh. unfold s1, s0.
    destruct silent; reflexivity.
Qed.

Lemma do_fetch_spec bs s sset by_uid want_uid set_seen :
  Good bs -> SelOK bs s ->
  let o := do_fetch bs s sset by_uid want_uid set_seen in
  BodySpec bs s o /\ (o_fork o = true -> by_uid = false ->
                      forall s', o_sel o = Some s' -> sel_hide s' = true).
Proof.
  intros G OK. cbn zeta. unfold do_fetch. destruct OK as [b [Hb S]]. rewrite Hb.
  set (s0 := if by_uid then s else with_hide s).
  assert (V0 : sel_view s0 = sel_view s) by (unfold s0; destruct by_uid; reflexivity).
  rewrite V0.
  set (targets := view_select sset by_uid (sel_view s)).
  assert (SC : SameCore s s0).
  { unfold s0. destruct by_uid; auto using SameCore_refl, SameCore_hide. }
  set (opf := if negb (sel_readonly s0) && set_seen
              then op_update (sel_view s) FAdd [F_SEEN] else op_get (sel_view s)).
  assert (Hop : op_ok (sel_view s) opf).
  { unfold opf. destruct (negb (sel_readonly s0) && set_seen); [apply op_update_ok|apply op_get_ok]. }
  destruct (msg_loop_spec (sel_view s) opf targets b Hop (G _ _ Hb) (targets_known bs s b sset by_uid Hb S))
    as (b' & msgs & L & I' & Le & Mp).
  fold opf. rewrite L.
  assert (Ev : Evolves bs (aset (sel_box s) b' bs)) by (apply (evolves_set bs _ b b'); auto).
  assert (Hb' : aget (sel_box s) (aset (sel_box s) b' bs) = Some b') by apply aget_aset_eq.
  match goal with |- context [MkOut _ _ true ?u _ _ _] => set (unt := u) end.
  assert (Own : OwnStatic (v_sorted (sel_view s)) unt).
  { intros r Hr. unfold unt in Hr. apply in_map_iff in Hr as [[[seq m] ex] [Hr Hm]]. subst r.
    apply (fetch_static s sset by_uid). eapply msgs_target; eauto. }
  destruct (ready_after_sync bs _ s s0 b' unt G (ex_intro _ b (conj Hb S)) Ev SC Hb' Own)
    as (R & Hh & _).
  split.
  - constructor; cbn; auto.
    + left; eauto.
    + intros _. eauto.
    + discriminate.
  - cbn. intros _ -> s' E. inversion E; subst. rewrite Hh. reflexivity.
Qed.

Lemma do_search_spec bs s by_uid sskey fkeys :
  Good bs -> SelOK bs s ->
  let o := do_search bs s by_uid sskey fkeys in
  BodySpec bs s o /\ (o_fork o = true -> by_uid = false ->
                      forall s', o_sel o = Some s' -> sel_hide s' = true).
Proof.
  intros G OK. cbn zeta. unfold do_search. destruct OK as [b [Hb S]]. rewrite Hb.
  set (s0 := if by_uid then s else with_hide s).
  assert (V0 : sel_view s0 = sel_view s) by (unfold s0; destruct by_uid; reflexivity).
  rewrite V0.
  assert (SC : SameCore s s0).
  { unfold s0. destruct by_uid; auto using SameCore_refl, SameCore_hide. }
  destruct (match sskey with Some k => k | None => (all_set, false) end) as [pre pre_uid] eqn:Ek.
  destruct (msg_loop_spec (sel_view s) (op_get (sel_view s)) (view_select pre pre_uid (sel_view s)) b (op_get_ok _) (G _ _ Hb)
              (targets_known bs s b pre pre_uid Hb S)) as (b' & msgs & L & I' & Le & Mp).
  rewrite L.
  match goal with |- context [MkOut _ _ true [Search by_uid ?i] _ _ _] => set (ids := i) end.
  assert (Own : OwnStatic (v_sorted (sel_view s)) [Search by_uid ids]).
  { intros r [<-|[]]. split; [reflexivity|]. intros news. cbn [client_step].
    destruct by_uid; [reflexivity|].
    match goal with |- (if ?c then _ else _) = _ => assert (Hc : c = true); [|rewrite Hc; reflexivity] end.
    apply forallb_forall. intros [n u] Hi. unfold ids in Hi.
    apply in_map_iff in Hi as [[[seq m] ex] [E Hi]]. inversion E; subst n u.
    apply filter_In in Hi as [Hi _].
    assert (Ht : In (seq, m_uid m) (view_select pre pre_uid (sel_view s))) by (eapply msgs_target; eauto).
    apply view_select_spec in Ht as [Nz Hn]. cbn [fst snd]. rewrite Hn, N.eqb_refl.
    destruct (seq =? 0)%N eqn:Z; [lia|reflexivity]. }
  destruct (ready_after_sync bs bs s s0 b [Search by_uid ids] G (ex_intro _ b (conj Hb S))
              (evolves_refl bs G) SC Hb Own) as (R & Hh & _).
  split.
  - constructor; cbn; auto.
    + apply evolves_refl, G.
    + left; eauto.
    + intros _. eauto.
    + discriminate.
  - cbn. intros _ -> s' E. inversion E; subst. rewrite Hh. reflexivity.
Qed.

Lemma find_deleted_spec bs s b us :
  aget (sel_box s) bs = Some b -> BoxInv b -> SelInv b s ->
  exists uids, find_deleted b s us = Some uids /\ NoDup uids /\ forall u, In u uids -> known b u.
Proof.
  intros Hb I S. unfold find_deleted.
  destruct (msg_loop_spec (sel_view s) (op_get (sel_view s)) (view_select us true (sel_view s)) b (op_get_ok _) I
              (targets_known bs s b us true Hb S)) as (b' & msgs & L & _ & _ & Mp).
  rewrite L. eexists. split; [reflexivity|].
  assert (Mu : map (fun x : N * msg * bool => m_uid (snd (fst x))) msgs
               = map snd (view_select us true (sel_view s))).
  { rewrite <- Mp, map_map. reflexivity. }
  split.
  - apply NoDup_map_filter. rewrite Mu. apply view_select_NoDup, ssorted_NoDup, (si_sorted _ _ S).
  - intros u Hu. apply in_map_iff in Hu as [x [E Hx]]. apply filter_In in Hx as [Hx _].
    assert (Ht : In u (map snd (view_select us true (sel_view s)))).
    { rewrite <- Mu. apply in_map_iff. eauto. }
    apply in_map_iff in Ht as [[n u'] [E' Ht]]. cbn [snd] in E'. subst u'.
    apply (si_known _ _ S). eapply view_select_In, Ht.
Qed.

Lemma do_expunge_spec bs s us : Good bs -> SelOK bs s -> BodySpec bs s (do_expunge bs s us).
Proof.
  intros G OK. unfold do_expunge.
  destruct (sel_readonly s); [apply refuse_spec, G|].
  destruct OK as [b [Hb S]]. rewrite Hb.
  destruct (find_deleted_spec bs s b (match us with Some u => u | None => all_set end) Hb (G _ _ Hb) S)
    as (uids & F & ND & Kn).
  rewrite F.
  destruct (mb_delete_inv uids b (G _ _ Hb) ND Kn) as (I' & Le & _).
  assert (Ev : Evolves bs (aset (sel_box s) (mb_delete uids b) bs))
    by (apply (evolves_set bs _ b); auto).
  assert (Hb' : aget (sel_box s) (aset (sel_box s) (mb_delete uids b) bs) = Some (mb_delete uids b))
    by apply aget_aset_eq.
  destruct (ready_after_sync bs _ s s _ [] G (ex_intro _ b (conj Hb S)) Ev (SameCore_refl s) Hb'
              (own_nil _)) as (R & _).
  constructor; cbn; auto.
  - left; eauto.
  - intros _. eauto.
  - discriminate.
Qed.

Lemma do_close_spec bs s : Good bs -> SelOK bs s ->
  let o := do_close bs s in
  Evolves bs (o_boxes o) /\ tagged_fine (o_tagged o) /\ o_sel o = None /\ o_fork o = false
  /\ o_untagged o = [] /\ o_grants o = [].
Proof.
  intros G Hok. cbn zeta. unfold do_close. destruct (sel_readonly s).
  - cbn. split; [apply evolves_refl, G|]. split; [left; eauto|auto].
  - destruct (do_expunge_spec bs s None G Hok) as [Ev Tg _ _].
    cbn. split; [exact Ev|]. split; [|auto].
    destruct Tg as [[c [k ->]] | ->]; [destruct c; left; eauto|right; reflexivity].
Qed.

(* ---------------------------------------------------------------- APPEND *)
Definition sel_track (sel cur : option selected) : Prop :=
  match sel with
  | None => cur = None
  | Some s => exists s0, cur = Some s0 /\ SameCore s s0
  end.

Lemma grant_track me pick uid sel cur grants :
  sel_track sel cur -> sel_track sel (fst (grant me pick uid cur grants)).
Proof.
  unfold grant. destruct pick as [p|]; [|auto]. destruct (p =? me)%N; [|auto]. cbn [fst].
  destruct sel as [s|]; cbn [sel_track].
  - intros [s0 [-> SC]]. cbn [option_map]. eexists. split; [reflexivity|]. apply SameCore_recent, SC.
  - intros ->. reflexivity.
Qed.

Lemma append_loop me pick (sel : option selected) msgs : forall dest d cur grants uids,
  BoxInv d -> BoxLe dest d -> BoxInv dest -> sel_track sel cur ->
  let step := fun (st : mbox * option selected * list (N * N) * list N) (fc : flags * N) =>
      let '(d, sel, grants, uids) := st in
      let '(d', uid) := mb_append (fs_diff (fs_of (fst fc)) [F_RECENT])
                                  (negb (is_some pick)) (snd fc) d in
      let '(sel', grants') := grant me pick uid sel grants in
      (d', sel', grants', uids ++ [uid]) in
  let '(d', cur', _, _) := fold_left step msgs (d, cur, grants, uids) in
  BoxInv d' /\ BoxLe dest d' /\ sel_track sel cur'.
Proof.
  induction msgs as [|fc rest IH]; intros dest d cur grants uids Id Le Idest Tr; cbn zeta; cbn [fold_left].
  - auto.
  - destruct (mb_append (fs_diff (fs_of (fst fc)) [F_RECENT]) (negb (is_some pick)) (snd fc) d)
      as [d1 uid] eqn:A.
    pose proof (mb_append_inv (fs_diff (fs_of (fst fc)) [F_RECENT]) (negb (is_some pick)) (snd fc) d Id)
      as (I1 & Le1 & _). rewrite A in I1, Le1. cbn [fst] in I1, Le1.
    destruct (grant me pick uid cur grants) as [cur1 grants1] eqn:Gr.
    pose proof (grant_track me pick uid sel cur grants Tr) as Tr1. rewrite Gr in Tr1. cbn [fst] in Tr1.
    apply IH; auto. apply (BoxLe_trans dest d d1); auto.
Qed.

Lemma do_append_spec me bs sel name msgs pick :
  Good bs -> (forall s, sel = Some s -> SelOK bs s) ->
  let o := do_append me bs sel name msgs pick in
  Evolves bs (o_boxes o) /\ tagged_fine (o_tagged o) /\
  match sel with
  | Some s => BodySpec bs s o
  | None => o_sel o = None /\ o_fork o = false /\ o_untagged o = []
  end.
Proof.
  intros G Hs. cbn zeta. unfold do_append.
  assert (Refuse : forall c k, Evolves bs (o_boxes (refuse bs sel c k))
                               /\ tagged_fine (o_tagged (refuse bs sel c k))
                               /\ match sel with
                                  | Some s => BodySpec bs s (refuse bs sel c k)
                                  | None => o_sel (refuse bs sel c k) = None
                                            /\ o_fork (refuse bs sel c k) = false
                                            /\ o_untagged (refuse bs sel c k) = [] end).
  { intros c k. split; [apply evolves_refl, G|]. split; [left; cbn; eauto|].
    destruct sel as [s|]; [apply refuse_spec, G|cbn; auto]. }
  destruct (aget name bs) as [dest|] eqn:Hd; [|apply Refuse].
  destruct (mb_readonly dest); [apply Refuse|].
  assert (Tr0 : sel_track sel sel).
  { destruct sel as [s|]; cbn; [eexists; split; [reflexivity|apply SameCore_refl]|reflexivity]. }
  pose proof (append_loop me pick sel msgs dest dest sel [] [] (G _ _ Hd) (BoxLe_refl dest) (G _ _ Hd) Tr0)
    as L. cbn zeta in L.
  match goal with |- context [fold_left ?f msgs ?i] => destruct (fold_left f msgs i) as [[[d' cur'] grants] uids] end.
  destruct L as (Id' & Le' & Tr').
  assert (Ev : Evolves bs (aset name d' bs)) by (apply (evolves_set bs name dest d'); auto).
  destruct sel as [s|]; cbn [sel_track] in Tr'.
  - destruct Tr' as [s0 [-> SC]].
    destruct (finish_spec bs (aset name d' bs) s s0 [] (CAppendUid uids) false grants G
                (Hs s eq_refl) Ev SC (own_nil _)) as [B _].
    split; [apply B|]. split; [apply B|exact B].
  - subst cur'. cbn. split; [exact Ev|]. split; [left; eauto|auto].
Qed.

(* ------------------------------------------------------------ COPY, MOVE *)
Lemma evolves_keys bs bs' n : Evolves bs bs' -> aget n bs <> None -> aget n bs' <> None.
Proof.
  intros [_ L] H. destruct (aget n bs) as [b|] eqn:E; [|congruence].
  destruct (L _ _ E) as [b' [H' _]]. congruence.
Qed.

Lemma do_copy_move_spec mv me bs s sset by_uid name pick :
  Good bs -> SelOK bs s -> BodySpec bs s (do_copy_move mv me bs s sset by_uid name pick).
Proof.
  intros G OKs. unfold do_copy_move.
  destruct (mv && sel_readonly s); [apply refuse_spec, G|].
  destruct (aget name bs) as [dest0|] eqn:Hd; [|apply refuse_spec, G].
  destruct (mb_readonly dest0); [apply refuse_spec, G|].
  match goal with |- context [fold_left ?f ?t ?i] => set (step := f); set (targets := t) end.
  assert (Hsrc : aget (sel_box s) bs <> None) by (destruct OKs as [b [H _]]; congruence).
  assert (Hname : aget name bs <> None) by congruence.
  assert (Loop : forall ts bs0 s0 grants pairs,
             Evolves bs bs0 -> SameCore s s0 ->
             exists bs1 s1 grants1 pairs1,
               fold_left step ts (Some (bs0, Some s0, grants, pairs)) = Some (bs1, Some s1, grants1, pairs1)
               /\ Evolves bs bs1 /\ SameCore s s1).
  { induction ts as [|[seq uid] rest IH]; intros bs0 s0 grants pairs Ev0 SC0; cbn [fold_left].
    - eauto 10.
    - unfold step at 2. cbn [snd].
      pose proof (evolves_keys bs bs0 _ Ev0 Hsrc) as Ks.
      destruct (aget (sel_box s) bs0) as [src|] eqn:Es; [|congruence].
      assert (Isrc : BoxInv src) by (apply (proj1 Ev0 _ _ Es)).
      (* the message taken from the source, if it still exists *)
      assert (Taken : forall bs1 m,
                 Evolves bs bs1 ->
                 exists bs2 s2 g2 p2,
                   match aget name bs1 with
                   | None => None
                   | Some dest =>
                     let '(dest', duid) := mb_copy_from m (negb (is_some pick)) dest in
                     let '(sel', grants') := grant me pick duid (Some s0) grants in
                     Some (aset name dest' bs1, sel', grants', pairs ++ [(uid, duid)])
                   end = Some (bs2, Some s2, g2, p2) /\ Evolves bs bs2 /\ SameCore s s2).
      { intros bs1 m Ev1. pose proof (evolves_keys bs bs1 _ Ev1 Hname) as Kn.
        destruct (aget name bs1) as [dest|] eqn:En; [|congruence].
        assert (Idest : BoxInv dest) by (apply (proj1 Ev1 _ _ En)).
        unfold mb_copy_from.
        destruct (mb_append (m_flags m) (negb (is_some pick)) (m_content m) dest) as [dest' duid] eqn:A.
        pose proof (mb_append_inv (m_flags m) (negb (is_some pick)) (m_content m) dest Idest)
          as (I1 & Le1 & _). rewrite A in I1, Le1. cbn [fst] in I1, Le1.
        pose proof (grant_track me pick duid (Some s) (Some s0) grants
                      (ex_intro _ s0 (conj eq_refl SC0))) as Tr.
        destruct (grant me pick duid (Some s0) grants) as [sel' grants'] eqn:Gr. cbn [fst] in Tr.
        destruct Tr as [s2 [-> SC2]].
        exists (aset name dest' bs1), s2, grants', (pairs ++ [(uid, duid)]).
        split; [reflexivity|]. split; [|exact SC2].
        apply (evolves_trans bs bs1); auto. apply (evolves_set bs1 name dest dest'); auto.
        apply Ev1. }
      destruct mv.
      + destruct (mb_pop uid src) as [[src' m]|] eqn:Pop.
        * destruct (mb_pop_delete uid src src' m Isrc Pop) as [-> Al].
          assert (Kn : forall u, In u [uid] -> known src u).
          { intros u [<-|[]]. apply alive_known; auto. apply mb_alive_In. congruence. }
          assert (NDu : NoDup [uid]) by (constructor; [intros []|constructor]).
          destruct (mb_delete_inv [uid] src Isrc NDu Kn) as (I1 & Le1 & _).
          assert (Ev1 : Evolves bs (aset (sel_box s) (mb_delete [uid] src) bs0)).
          { apply (evolves_trans bs bs0); auto. apply (evolves_set bs0 _ src); auto. apply Ev0. }
          destruct (Taken _ m Ev1) as (bs2 & s2 & g2 & p2 & E2 & Ev2 & SC2).
          rewrite E2. apply IH; auto.
        * apply IH; auto.
      + destruct (mb_alive uid src) as [m|] eqn:Al.
        * destruct (Taken bs0 m Ev0) as (bs2 & s2 & g2 & p2 & E2 & Ev2 & SC2).
          rewrite E2. apply IH; auto.
        * apply IH; auto. }
  destruct (Loop targets bs s [] [] (evolves_refl bs G) (SameCore_refl s))
    as (bs1 & s1 & g1 & p1 & E1 & Ev1 & SC1).
  rewrite E1.
  destruct mv.
  - assert (Own : OwnStatic (v_sorted (sel_view s))
                            [OkCode match p1 with [] => CNone | _ :: _ => CCopyUid p1 end]).
    { intros r [<-|[]]. split; reflexivity. }
    apply (finish_spec bs bs1 s s1 _ CNone by_uid g1 G OKs Ev1 SC1 Own).
  - apply (finish_spec bs bs1 s s1 [] _ by_uid g1 G OKs Ev1 SC1 (own_nil _)).
Qed.

(* ---------------------------------------------------------------- SELECT *)
Lemma do_select_spec bs name ro : Good bs ->
  let o := do_select bs name ro in
  Evolves bs (o_boxes o) /\ tagged_fine (o_tagged o) /\ o_grants o = [] /\
  ((o_sel o = None /\ o_fork o = false /\ o_untagged o = [])
   \/ (o_fork o = true /\ exists s2 b1,
         o_sel o = Some s2 /\ aget (sel_box s2) (o_boxes o) = Some b1
         /\ SelInv b1 s2 /\ sel_prev s2 = None /\ sel_hide s2 = false /\ sel_silenced s2 = []
         /\ v_sorted (sel_view s2) = mb_uids b1
         /\ client_run_st ([], v_sorted (sel_view s2)) (o_untagged o)
            = Some (v_sorted (sel_view s2), []))).
Proof.
  intros G. cbn zeta. unfold do_select. destruct (aget name bs) as [b|] eqn:Hb.
  - set (ro' := ro || mb_readonly b).
    assert (Hc : exists b1 claimed, (if ro' then (b, []) else mb_claim_recent b) = (b1, claimed)
                                    /\ BoxInv b1 /\ BoxLe b b1).
    { destruct ro'.
      - exists b, []. split; [reflexivity|]. split; [apply (G _ _ Hb)|apply BoxLe_refl].
      - destruct (mb_claim_inv b (G _ _ Hb)) as (I1 & Le1 & _).
        exists (fst (mb_claim_recent b)), (snd (mb_claim_recent b)).
        split; [destruct (mb_claim_recent b); reflexivity|auto]. }
    destruct Hc as (b1 & claimed & Ec & I1 & Le1). rewrite Ec.
    set (s1 := with_recent_set (sel_new name ro') claimed).
    destruct (sync_first b1 s1 I1 eq_refl eq_refl eq_refl)
      as (S2 & V2 & H2 & B2 & R2 & P2 & Si2 & Rc2).
    cbn [o_boxes o_tagged o_sel o_fork o_untagged o_grants].
    split; [apply (evolves_set bs name b b1); auto|]. split; [left; eauto|]. split; [reflexivity|].
    right. split; [reflexivity|]. exists (sync b1 s1), b1.
    split; [reflexivity|]. split; [rewrite B2; cbn; apply aget_aset_eq|].
    split; [exact S2|]. split; [rewrite P2; reflexivity|]. split; [exact H2|].
    split; [rewrite Si2; reflexivity|]. split; [exact V2|].
    (* the client reads EXISTS n and holds the n messages *)
    set (V := v_sorted (sel_view (sync b1 s1))).
    cbn [app client_run_st client_step]. unfold view_exists. fold V.
    assert (E0 : N_of_len (@nil N) = 0%N) by reflexivity. rewrite !E0.
    destruct (N_of_len V <? 0)%N eqn:C; [lia|].
    replace (N.to_nat (N_of_len V - 0)) with (length V) by (unfold N_of_len; lia).
    rewrite Nat.ltb_irrefl, firstn_all, skipn_all.
    destruct (snap_first_unseen b1); reflexivity.
  - cbn. split; [apply evolves_refl, G|]. split; [left; eauto|]. split; [reflexivity|]. left. auto.
Qed.

(* ----------------------------------------------------- every command body *)
Definition is_select_cmd (c : cmd) : bool := match c with CSelect _ _ => true | _ => false end.
Definition nonuid_data (c : cmd) : bool :=
  match c with
  | CFetch _ false _ _ | CStore _ false _ _ _ | CSearch false _ _ => true
  | _ => false
  end.

Record BR (bs : boxes) (sel : option selected) (c : cmd) (o : outcome) : Prop := MkBR {
  br_ev : Evolves bs (o_boxes o);
  br_tag : tagged_fine (o_tagged o);
  br_nofork : o_fork o = false -> (o_sel o = sel \/ o_sel o = None) /\ o_untagged o = [];
  br_nofork_sel : o_fork o = false -> is_select_cmd c = true -> o_sel o = None;
  br_fork : o_fork o = true -> exists s', o_sel o = Some s' /\
    ((exists s, sel = Some s /\ is_select_cmd c = false /\ Ready s s' (o_boxes o) (o_untagged o)
                /\ (nonuid_data c = true -> sel_hide s' = true))
     \/ (is_select_cmd c = true /\ exists b1,
           aget (sel_box s') (o_boxes o) = Some b1 /\ SelInv b1 s' /\ sel_prev s' = None
           /\ sel_hide s' = false /\ sel_silenced s' = []
           /\ v_sorted (sel_view s') = mb_uids b1
           /\ client_run_st ([], v_sorted (sel_view s')) (o_untagged o)
              = Some (v_sorted (sel_view s'), []))) }.

Lemma br_of_spec bs s c o :
  is_select_cmd c = false -> BodySpec bs s o ->
  (nonuid_data c = true -> o_fork o = true -> forall s', o_sel o = Some s' -> sel_hide s' = true) ->
  BR bs (Some s) c o.
Proof.
  intros Hc [Ev Tg Fk Nf] Hh. constructor; auto.
  { intros _ K. congruence. }
  intros F. destruct (Fk F) as [s' [E R]]. exists s'. split; auto. left. exists s.
  split; [reflexivity|]. split; [exact Hc|]. split; [exact R|]. intros Hn. apply (Hh Hn F s' E).
Qed.

Lemma br_refuse bs sel c k cd : Good bs -> is_select_cmd c = false -> BR bs sel c (refuse bs sel cd k).
Proof.
  intros G Hc. constructor; cbn; auto using evolves_refl.
  - left; eauto.
  - congruence.
  - discriminate.
Qed.

Lemma body_br me bs sel c :
  Good bs -> (forall s, sel = Some s -> SelOK bs s) -> BR bs sel c (body me bs sel c).
Proof.
  intros G Hs.
  assert (Plain : forall o, Evolves bs (o_boxes o) -> tagged_fine (o_tagged o) ->
                            o_fork o = false -> (o_sel o = sel \/ o_sel o = None) ->
                            o_untagged o = [] -> (is_select_cmd c = true -> o_sel o = None) ->
                            BR bs sel c o).
  { intros o Ev Tg F A U Sc. constructor; auto. rewrite F; discriminate. }
  destruct c; cbn [body].
  - (* SELECT *)
    destruct (do_select_spec bs box readonly G) as (Ev & Tg & _ & [(A & B & C)|(F & s2 & b1 & R)]).
    + apply Plain; auto.
    + constructor; auto.
      * rewrite F; discriminate.
      * rewrite F; discriminate.
      * intros _. exists s2. destruct R as (E & R). split; auto. right. split; [reflexivity|].
        exists b1. exact R.
  - (* APPEND *)
    destruct (do_append_spec me bs sel box msgs pick G Hs) as (Ev & Tg & R).
    destruct sel as [s|].
    + apply br_of_spec; auto. discriminate.
    + destruct R as (A & B & C). apply Plain; auto; discriminate.
  - (* STORE *)
    destruct sel as [s|]; [|apply br_refuse; [exact G|reflexivity]].
    destruct (do_store_spec bs s sset by_uid op fl silent G (Hs s eq_refl)) as [B H].
    apply br_of_spec; auto. cbn [nonuid_data]. destruct by_uid; [discriminate|]. intros _ F. apply H; auto.
  - (* EXPUNGE *)
    destruct sel as [s|]; [|apply br_refuse; [exact G|reflexivity]].
    apply br_of_spec; auto; [apply do_expunge_spec; auto|discriminate].
  - (* COPY *)
    destruct sel as [s|]; [|apply br_refuse; [exact G|reflexivity]].
    apply br_of_spec; auto; [apply do_copy_move_spec; auto|discriminate].
  - (* MOVE *)
    destruct sel as [s|]; [|apply br_refuse; [exact G|reflexivity]].
    apply br_of_spec; auto; [apply do_copy_move_spec; auto|discriminate].
  - (* FETCH *)
    destruct sel as [s|]; [|apply br_refuse; [exact G|reflexivity]].
    destruct (do_fetch_spec bs s sset by_uid want_uid set_seen G (Hs s eq_refl)) as [B H].
    apply br_of_spec; auto. cbn [nonuid_data]. destruct by_uid; [discriminate|]. intros _ F. apply H; auto.
  - (* SEARCH *)
    destruct sel as [s|]; [|apply br_refuse; [exact G|reflexivity]].
    destruct (do_search_spec bs s by_uid sskey fkeys G (Hs s eq_refl)) as [B H].
    apply br_of_spec; auto. cbn [nonuid_data]. destruct by_uid; [discriminate|]. intros _ F. apply H; auto.
  - (* NOOP *)
    destruct sel as [s|].
    + apply br_of_spec; auto; [apply do_noop_spec; auto|discriminate].
    + apply Plain; cbn; auto using evolves_refl; try discriminate. left; eauto.
  - (* CHECK *)
    destruct sel as [s|]; [|apply br_refuse; [exact G|reflexivity]].
    apply br_of_spec; auto; [apply do_check_spec; auto|discriminate].
  - (* other commands that only load updates *)
    destruct sel as [s|].
    + apply br_of_spec; auto; [apply do_noop_spec; auto|discriminate].
    + apply Plain; cbn; auto using evolves_refl; try discriminate. left; eauto.
  - (* CLOSE *)
    destruct sel as [s|]; [|apply br_refuse; [exact G|reflexivity]].
    destruct (do_close_spec bs s G (Hs s eq_refl)) as (Ev & Tg & A & B & C & D).
    apply Plain; auto; discriminate.
  - (* IDLE *)
    destruct sel as [s|]; [|apply br_refuse; [exact G|reflexivity]].
    apply Plain; cbn; auto using evolves_refl; try discriminate. right; reflexivity.
Qed.

(* ------------------------------------------------------ system invariant *)
Definition SessOK (bs : boxes) (se : session) : Prop :=
  match ss_sel se with
  | None => True
  | Some s => SelOK bs s /\ Quiet s
  end.

Definition Inv (sy : sys) : Prop :=
  Good (sy_boxes sy) /\ forall i se, aget i (sy_sess sy) = Some se -> SessOK (sy_boxes sy) se.

Lemma inv_init : Inv sys_empty.
Proof. split; intros ? ? H; discriminate. Qed.

Lemma inv_sess_of sy i : Inv sy -> SessOK (sy_boxes sy) (sess_of sy i).
Proof.
  intros [_ H]. unfold sess_of. destruct (aget i (sy_sess sy)) eqn:E; [eapply H; eauto|exact I].
Qed.

Lemma sessok_evolves bs bs' se : Good bs -> Evolves bs bs' -> SessOK bs se -> SessOK bs' se.
Proof.
  unfold SessOK. destruct (ss_sel se); auto. intros G Ev [A B]. split; auto.
  eapply selok_evolves; eauto.
Qed.

Lemma selok_recent bs s r : SelOK bs s -> SelOK bs (with_recent_set s r).
Proof. intros [b [H S]]. exists b. split; auto. apply (SelInv_ext b s); auto. Qed.
Lemma quiet_recent s r : Quiet s -> Quiet (with_recent_set s r).
Proof. intros [fz H]. exists fz. exact H. Qed.

Lemma apply_grants_ok bs gs : forall ss,
  (forall i se, aget i ss = Some se -> SessOK bs se) ->
  (forall i se, aget i (fold_left apply_grant gs ss) = Some se -> SessOK bs se)
  /\ (forall i, option_map (fun se => option_map (fun x => sel_view x) (ss_sel se))
                           (aget i (fold_left apply_grant gs ss))
                = option_map (fun se => option_map (fun x => sel_view x) (ss_sel se)) (aget i ss))
  /\ (forall i, option_map ss_idle (aget i (fold_left apply_grant gs ss))
                = option_map ss_idle (aget i ss)).
Proof.
  induction gs as [|g rest IH]; intros ss H; cbn [fold_left]; [auto|].
  assert (Step : (forall i se, aget i (apply_grant ss g) = Some se -> SessOK bs se)
                 /\ (forall i, option_map (fun se => option_map (fun x => sel_view x) (ss_sel se))
                                          (aget i (apply_grant ss g))
                               = option_map (fun se => option_map (fun x => sel_view x) (ss_sel se)) (aget i ss))
                 /\ (forall i, option_map ss_idle (aget i (apply_grant ss g)) = option_map ss_idle (aget i ss))).
  { unfold apply_grant. destruct (aget (fst g) ss) as [[[s|] idle]|] eqn:E; auto.
    split; [|split].
    - intros i se. rewrite aget_aset. destruct (i =? fst g)%N eqn:Ei; [|apply H].
      intros K; inversion K; subst. pose proof (H _ _ E) as [A B]. cbn in A, B. split; cbn.
      + apply selok_recent, A.
      + apply quiet_recent, B.
    - intros i. rewrite aget_aset. destruct (i =? fst g)%N eqn:Ei; [|reflexivity].
      apply N.eqb_eq in Ei; subst. rewrite E. reflexivity.
    - intros i. rewrite aget_aset. destruct (i =? fst g)%N eqn:Ei; [|reflexivity].
      apply N.eqb_eq in Ei; subst. rewrite E. reflexivity. }
  destruct Step as (S1 & S2 & S3). destruct (IH _ S1) as (I1 & I2 & I3).
  split; [exact I1|]. split; intros i; [rewrite I2; apply S2|rewrite I3; apply S3].
Qed.

Definition view_in (ss : list (N * session)) (i : N) : option (list N) :=
  match aget i ss with
  | Some se => option_map (fun x => v_sorted (sel_view x)) (ss_sel se)
  | None => None
  end.
Lemma view_of_eq sy i : view_of sy i = view_in (sy_sess sy) i.
Proof.
  unfold view_of, sel_of, sess_of, view_in. destruct (aget i (sy_sess sy)); reflexivity.
Qed.
Lemma view_in_grants gs ss i : view_in (fold_left apply_grant gs ss) i = view_in ss i.
Proof.
  revert ss. induction gs as [|g rest IH]; intros ss; cbn [fold_left]; auto.
  rewrite IH. unfold view_in, apply_grant.
  destruct (aget (fst g) ss) as [[[s|] idle]|] eqn:E; auto.
  rewrite aget_aset. destruct (i =? fst g)%N eqn:Ei; auto.
  apply N.eqb_eq in Ei; subst. rewrite E. reflexivity.
Qed.

Lemma finalize_ok bs bs' ss me se' grants :
  Good bs -> Evolves bs bs' ->
  (forall i se, aget i ss = Some se -> SessOK bs se) -> SessOK bs' se' ->
  let sy' := MkSys bs' (fold_left apply_grant grants (aset me se' ss)) in
  Inv sy'
  /\ (forall i, i <> me -> view_in (sy_sess sy') i = view_in ss i)
  /\ view_in (sy_sess sy') me = option_map (fun x => v_sorted (sel_view x)) (ss_sel se').
Proof.
  intros G Ev H Hme. cbn zeta. cbn [sy_sess sy_boxes].
  assert (H1 : forall i se, aget i (aset me se' ss) = Some se -> SessOK bs' se).
  { intros i se. rewrite aget_aset. destruct (i =? me)%N.
    - intros K; inversion K; subst; auto.
    - intros K. eapply sessok_evolves; eauto. }
  destruct (apply_grants_ok bs' grants _ H1) as (A & _).
  split; [split; [apply Ev|exact A]|]. split.
  - intros i Hi. rewrite view_in_grants. unfold view_in. rewrite aget_aset_neq; auto.
  - rewrite view_in_grants. unfold view_in. rewrite aget_aset_eq. reflexivity.
Qed.

Lemma own_static_run V own news : OwnStatic V own -> client_run_st (V, news) own = Some (V, news).
Proof.
  intros H. apply static_run. intros r Hr. destruct (H r Hr) as [A B]. split; auto.
Qed.
Lemma own_static_no_exp V own : OwnStatic V own -> no_exp own.
Proof. intros H n K. destruct (H _ K) as [A _]. discriminate. Qed.

Lemma tagged_static r st : tagged_fine r -> client_step st r = Some st.
Proof. destruct st. intros [[c [k ->]] | ->]; reflexivity. Qed.

(* the untagged responses of one command, as the client reads them *)
Lemma command_client V V' own unt tg :
  OwnStatic V own -> tagged_fine tg ->
  client_run_st (V, ndiff V' V) unt = Some (V', []) ->
  client_run_st (V, ndiff V' V)
                ((if existsb is_expunge unt then own ++ unt else add_untagged own unt) ++ [tg])
  = Some (V', []).
Proof.
  intros Own Tg Run.
  assert (Plain : client_run_st (V, ndiff V' V) (own ++ unt ++ [tg]) = Some (V', [])).
  { rewrite client_run_st_app, (own_static_run V own _ Own), client_run_st_app, Run.
    cbn [client_run_st]. rewrite (tagged_static tg _ Tg). reflexivity. }
  destruct (existsb is_expunge unt) eqn:E.
  - rewrite <- app_assoc. exact Plain.
  - apply add_untagged_run; auto.
    + eapply own_static_no_exp; eauto.
    + apply existsb_expunge_false, E.
Qed.

Lemma filter_none {A} (f : A -> bool) l : (forall x, In x l -> f x = false) -> filter f l = [].
Proof.
  induction l as [|y r IH]; intros H; cbn [filter]; auto.
  rewrite (H y (or_introl eq_refl)). apply IH. intros; apply H; right; auto.
Qed.
Lemma ndiff_self l : ndiff l l = [].
Proof. unfold ndiff. apply filter_none. intros x Hx. apply negb_false_iff, nmem_In, Hx. Qed.

Lemma add_untagged1_no_exp l r : no_exp l -> (forall n, r <> Expunge n) -> no_exp (add_untagged1 l r).
Proof.
  intros Hl Hr.
  assert (Plain : no_exp (l ++ [r])).
  { intros n K. apply in_app_or in K as [K|[K|[]]]; [eapply Hl; eauto|eapply Hr; eauto]. }
  destruct r as [n|n|n|seq uid fl sh|bu ids|c|n|n| |c k|]; cbn [add_untagged1]; auto.
  destruct (merge_fetch (Fetch seq uid fl sh) l) as [l'|] eqn:M; auto.
  eapply merge_fetch_no_exp; eauto.
Qed.
Lemma add_untagged_no_exp rs : forall l, no_exp l -> no_exp rs -> no_exp (add_untagged l rs).
Proof.
  unfold add_untagged. induction rs as [|r rest IH]; intros l Hl Hr; cbn [fold_left]; auto.
  apply IH.
  - apply add_untagged1_no_exp; auto. intros n ->. apply (Hr n). left; reflexivity.
  - intros n K. apply (Hr n). right; exact K.
Qed.

Definition sess_view (se : session) : option (list N) :=
  option_map (fun x => v_sorted (sel_view x)) (ss_sel se).

Theorem do_command_ok sy me c : Inv sy ->
  let sy' := fst (do_command sy me c) in
  let rs := snd (do_command sy me c) in
  Inv sy'
  /\ Evolves (sy_boxes sy) (sy_boxes sy')
  /\ (forall i, i <> me -> view_of sy' i = view_of sy i)
  /\ match view_of sy' me with
     | None => True
     | Some V' =>
       exists start, (if is_select_cmd c then start = [] else view_of sy me = Some start)
                     /\ client_run_st (start, ndiff V' start) rs = Some (V', [])
     end
  /\ (nonuid_data c = true -> no_exp rs).
Proof.
  intros HI. pose proof HI as [G HS]. cbn zeta. unfold do_command.
  pose proof (inv_sess_of sy me HI) as Hse.
  set (se := sess_of sy me) in *. set (bs := sy_boxes sy) in *.
  assert (Hsel : forall s, ss_sel se = Some s -> SelOK bs s).
  { intros s E. unfold SessOK in Hse. rewrite E in Hse. apply Hse. }
  pose proof (body_br me bs (ss_sel se) c G Hsel) as B.
  set (o := body me bs (ss_sel se) c) in *.
  assert (Vme : view_of sy me = sess_view se) by reflexivity.
  destruct (o_fork o) eqn:F.
  - (* the body returned updates: fork *)
    destruct (br_fork _ _ _ _ B F) as [s' [E Cases]]. rewrite E.
    destruct Cases as [(s & Es & Hc & R & Hh)|(Hc & b1 & Hb1 & S1 & P1 & H1 & Si1 & V1 & Run1)].
    + (* an existing selection *)
      destruct (rd_ok _ _ _ _ R) as [b' [Hb' S']].
      unfold fork_in. rewrite Hb'.
      unfold SessOK in Hse. rewrite Es in Hse. destruct Hse as [[b0 [Hb0 S0]] [fz (Q1 & Q2 & Q3 & Q4 & Q5 & Q6)]].
      assert (Hprev : sel_prev s' = Some fz) by (rewrite (rd_prev _ _ _ _ R); exact Q1).
      assert (Hq : seqs_ok (fz_seqs fz) (v_sorted (sel_view s))) by (rewrite Q3; apply S0).
      pose proof (fork_ok b' s' (o_with_uid o) (v_sorted (sel_view s)) fz
                    (proj1 (br_ev _ _ _ _ B) _ _ Hb') S' Hprev Q2 Hq (si_sorted _ _ S0)
                    (rd_hide _ _ _ _ R) (rd_new _ _ _ _ R)) as FK.
      cbn zeta in FK.
      destruct (fork (cached_of b' (sel_view s')) (o_with_uid o) s') as [s'' unt] eqn:EF. cbn [fst snd] in FK.
      destruct FK as (Run & S'' & Qt & Vw & Bx & Rc & Ro & Nx).
      set (se' := MkSess (Some s'') match c, o_tagged o with CIdle, Cont => true | _, _ => false end).
      assert (Hme : SessOK (o_boxes o) se').
      { unfold SessOK, se'. cbn [ss_sel]. split; auto. exists b'. rewrite Bx. split; auto. }
      destruct (finalize_ok bs (o_boxes o) (sy_sess sy) me se' (o_grants o) G (br_ev _ _ _ _ B) HS Hme)
        as (I' & Fr & Vm).
      cbn [fst snd]. split; [exact I'|]. split; [apply B|]. split.
      * intros i Hi. rewrite !view_of_eq. apply Fr, Hi.
      * rewrite view_of_eq, Vm. unfold se'. cbn [ss_sel option_map]. rewrite Vw. split.
        -- exists (v_sorted (sel_view s)). rewrite Hc. split; [rewrite Vme; unfold sess_view; rewrite Es; reflexivity|].
           apply command_client; auto. apply R. apply B.
        -- intros Hn. specialize (Hh Hn).
           assert (Nu : no_exp unt) by (apply Nx, Hh).
           assert (No : no_exp (o_untagged o)) by (eapply own_static_no_exp, R).
           intros n K. apply in_app_or in K as [K|[K|[]]].
           ++ destruct (existsb is_expunge unt) eqn:Ex.
              ** apply in_app_or in K as [K|K]; [eapply No; eauto|eapply Nu; eauto].
              ** eapply (add_untagged_no_exp unt); eauto.
           ++ destruct (br_tag _ _ _ _ B) as [[cd [k Et]]|Et]; rewrite Et in K; discriminate.
    + (* SELECT *)
      unfold fork_in. rewrite Hb1. unfold fork. rewrite P1. cbn [fst snd].
      set (s'' := MkSel (sel_box s') (sel_readonly s') (sel_modseq s') false [] (Some (freeze s'))
                        (sel_view s') (sel_recent s')).
      set (se' := MkSess (Some s'') match c, o_tagged o with CIdle, Cont => true | _, _ => false end).
      assert (Hme : SessOK (o_boxes o) se').
      { unfold SessOK, se'. cbn [ss_sel]. split.
        - exists b1. split; [exact Hb1|]. apply (SelInv_ext b1 s'); auto.
        - exists (freeze s'). cbn. auto 10. }
      destruct (finalize_ok bs (o_boxes o) (sy_sess sy) me se' (o_grants o) G (br_ev _ _ _ _ B) HS Hme)
        as (I' & Fr & Vm).
      split; [exact I'|]. split; [apply B|]. split.
      * intros i Hi. rewrite !view_of_eq. apply Fr, Hi.
      * rewrite view_of_eq, Vm. unfold se'. cbn [ss_sel option_map s'' sel_view]. split.
        -- exists []. rewrite Hc. split; [reflexivity|]. cbn [existsb].
           unfold add_untagged. cbn [fold_left].
           assert (Nd : ndiff (v_sorted (sel_view s')) [] = v_sorted (sel_view s')).
           { unfold ndiff. apply filter_all. intros; reflexivity. }
           rewrite Nd, client_run_st_app, Run1. cbn [client_run_st].
           rewrite (tagged_static _ _ (br_tag _ _ _ _ B)). reflexivity.
        -- destruct c; try discriminate.
  - (* no updates returned *)
    destruct (br_nofork _ _ _ _ B F) as [Hsel' Hun].
    assert (Shape : match o_sel o, false with
                    | Some s, true => let '(s', u) := fork_in (o_boxes o) s (o_with_uid o) in (Some s', u)
                    | x, _ => (x, [])
                    end = (o_sel o, @nil resp)) by (destruct (o_sel o); reflexivity).
    rewrite Shape. rewrite Hun. cbn [existsb add_untagged fold_left app fst snd].
    set (se' := MkSess (o_sel o) match c, o_tagged o with CIdle, Cont => true | _, _ => false end).
    assert (Hme : SessOK (o_boxes o) se').
    { unfold SessOK, se'. cbn [ss_sel]. destruct Hsel' as [Hs'|Hs']; rewrite Hs'; [|exact I].
      eapply sessok_evolves in Hse; [exact Hse|exact G|apply B]. }
    destruct (finalize_ok bs (o_boxes o) (sy_sess sy) me se' (o_grants o) G (br_ev _ _ _ _ B) HS Hme)
      as (I' & Fr & Vm).
    split; [exact I'|]. split; [apply B|]. split; [|split].
    + intros i Hi. rewrite !view_of_eq. apply Fr, Hi.
    + rewrite view_of_eq, Vm. unfold se'. cbn [ss_sel].
      destruct (o_sel o) as [s1|] eqn:Eo; cbn [option_map]; [|exact I].
      destruct Hsel' as [Hs'|Hs']; [|discriminate].
      assert (Nsel : is_select_cmd c = false).
      { destruct (is_select_cmd c) eqn:Ec; auto.
        pose proof (br_nofork_sel _ _ _ _ B F Ec). congruence. }
      exists (v_sorted (sel_view s1)). rewrite Nsel.
      split; [rewrite Vme; unfold sess_view; rewrite <- Hs'; reflexivity|].
      rewrite ndiff_self. cbn [client_run_st].
      rewrite (tagged_static _ _ (br_tag _ _ _ _ B)). reflexivity.
    + intros _ n [K|[]]. destruct (br_tag _ _ _ _ B) as [[cd [k Et]]|Et]; rewrite Et in K; discriminate.
Qed.

(* -------------------------------------------------------------- IDLE wake *)
Definition WakeSpec (sy : sys) (me : N) (sy' : sys) (rs : list resp) : Prop :=
  Inv sy' /\ Evolves (sy_boxes sy) (sy_boxes sy')
  /\ (forall i, i <> me -> view_of sy' i = view_of sy i)
  /\ (forall i, i <> me -> sess_of sy' i = sess_of sy i)
  /\ ss_idle (sess_of sy' me) = ss_idle (sess_of sy me)
  /\ match view_of sy' me with
     | None => view_of sy me = None
     | Some V' => exists start, view_of sy me = Some start
                                /\ client_run_st (start, ndiff V' start) rs = Some (V', [])
     end
  /\ (forall r, In r rs -> is_static r = true \/ (exists n, r = Expunge n) \/ exists n, r = Exists n).

Lemma wake_triv sy me : Inv sy -> WakeSpec sy me sy [].
Proof.
  intros HI. split; [exact HI|]. split; [apply evolves_refl, HI|]. split; [auto|]. split; [auto|].
  split; [reflexivity|]. split; [|intros r []].
  destruct (view_of sy me) as [V|]; auto. exists V. split; auto. rewrite ndiff_self. reflexivity.
Qed.

Lemma idle_wake_ok sy me : Inv sy -> WakeSpec sy me (fst (idle_wake sy me)) (snd (idle_wake sy me)).
Proof.
  intros HI. pose proof HI as [G HS]. unfold idle_wake.
  pose proof (inv_sess_of sy me HI) as Hse.
  destruct (sess_of sy me) as [[s|] [|]] eqn:Ese; try (apply wake_triv, HI).
  unfold WakeSpec.
  unfold SessOK in Hse. cbn [ss_sel] in Hse.
  destruct Hse as [[b [Hb S0]] [fz (Q1 & Q2 & Q3 & Q4 & Q5 & Q6)]].
  rewrite Hb.
  destruct (ready_after_sync (sy_boxes sy) (sy_boxes sy) s s b [] G (ex_intro _ b (conj Hb S0))
              (evolves_refl _ G) (SameCore_refl s) Hb (own_nil _)) as (R & Hh & _).
  destruct (rd_ok _ _ _ _ R) as [b' [Hb' S']].
  assert (b' = b) by (rewrite (rd_box _ _ _ _ R), Hb in Hb'; congruence). subst b'.
  assert (Hprev : sel_prev (sync b s) = Some fz) by (rewrite (rd_prev _ _ _ _ R); exact Q1).
  assert (Hq : seqs_ok (fz_seqs fz) (v_sorted (sel_view s))) by (rewrite Q3; apply S0).
  pose proof (fork_ok b (sync b s) false (v_sorted (sel_view s)) fz (G _ _ Hb) S' Hprev Q2 Hq
                (si_sorted _ _ S0) (rd_hide _ _ _ _ R) (rd_new _ _ _ _ R)) as FK.
  cbn zeta in FK.
  destruct (fork (cached_of b (sel_view (sync b s))) false (sync b s)) as [s'' unt] eqn:EF. cbn [fst snd] in FK.
  destruct FK as (Run & S'' & Qt & Vw & Bx & Rc & Ro & Nx).
  set (se' := MkSess (Some s'') true).
  assert (Hme : SessOK (sy_boxes sy) se').
  { unfold SessOK, se'. cbn [ss_sel]. split; auto. exists b. rewrite Bx, (rd_box _ _ _ _ R). auto. }
  destruct (finalize_ok (sy_boxes sy) (sy_boxes sy) (sy_sess sy) me se' [] G (evolves_refl _ G) HS Hme)
    as (I' & Fr & Vm). cbn [fold_left] in I', Fr, Vm.
  cbn [fst snd]. split; [exact I'|]. split; [apply evolves_refl, G|]. split; [|split; [|split; [|split]]].
  - intros i Hi. rewrite !view_of_eq. apply Fr, Hi.
  - intros i Hi. unfold sess_of. cbn [sy_sess]. rewrite aget_aset_neq; auto.
  - unfold sess_of. cbn [sy_sess]. rewrite aget_aset_eq. fold (sess_of sy me). rewrite Ese. reflexivity.
  - rewrite view_of_eq, Vm. unfold se'. cbn [ss_sel option_map]. rewrite Vw.
    exists (v_sorted (sel_view s)). split; [|exact Run].
    unfold view_of, sel_of. rewrite Ese. reflexivity.
  - intros r Hr. pose proof EF as EF'. unfold fork in EF'. rewrite Hprev in EF'.
    inversion EF'; subst unt. unfold compare in Hr.
    apply in_app_or in Hr as [Hr|Hr].
    + unfold compare_uids in Hr. apply in_app_or in Hr as [Hr|Hr].
      * destruct (sel_hide (sync b s)); [destruct Hr|]. apply in_map_iff in Hr as [u [Hr _]].
        destruct (aget u (fz_seqs fz)); [right; left; eauto|left; subst; reflexivity].
      * match type of Hr with In _ (match ?x with _ => _ end) => destruct x end; [destruct Hr|].
        destruct Hr as [<-|[]]. right; right; eauto.
    + left. apply in_app_or in Hr as [Hr|Hr].
      * match type of Hr with In _ (if ?x then _ else _) => destruct x end; [destruct Hr|].
        destruct Hr as [<-|[]]. reflexivity.
      * apply in_map_iff in Hr as [u [Hr _]].
        destruct (aget u _); [destruct (cached_of b _ u)|]; subst; reflexivity.
Qed.

(* ------------------------------------------------------------- every label *)
Definition StepSpec (sy : sys) (l : label) (sy' : sys) (rs : list resp) : Prop :=
  Inv sy' /\ Evolves (sy_boxes sy) (sy_boxes sy')
  /\ (forall i, label_actor l <> Some i -> view_of sy' i = view_of sy i)
  /\ (forall s, label_actor l = Some s ->
        match view_of sy' s with
        | None => True
        | Some V' => exists start,
            (if starts_fresh sy l then start = [] else view_of sy s = Some start)
            /\ client_run_st (start, ndiff V' start) rs = Some (V', [])
        end).

Lemma set_idle_inv sy s idle :
  Inv sy -> Inv (MkSys (sy_boxes sy) (aset s (MkSess (sel_of sy s) idle) (sy_sess sy))).
Proof.
  intros HI. pose proof HI as [G HS]. split; [exact G|]. cbn [sy_sess sy_boxes].
  intros i se. rewrite aget_aset. destruct (i =? s)%N; [|apply HS].
  intros K; inversion K; subst. pose proof (inv_sess_of sy s HI) as H.
  unfold SessOK in *. cbn [ss_sel]. exact H.
Qed.
Lemma set_idle_view sy s idle i :
  view_of (MkSys (sy_boxes sy) (aset s (MkSess (sel_of sy s) idle) (sy_sess sy))) i = view_of sy i.
Proof.
  unfold view_of, sel_of, sess_of. cbn [sy_sess]. rewrite aget_aset.
  destruct (i =? s)%N eqn:E; auto. apply N.eqb_eq in E; subst. reflexivity.
Qed.

Lemma aget_app_new {V} (l : list (N * V)) k v n :
  aget n (l ++ [(k, v)]) = match aget n l with Some x => Some x | None => if (n =? k)%N then Some v else None end.
Proof.
  induction l as [|[k' v'] r IH]; cbn [app aget]; auto. destruct (n =? k')%N; auto.
Qed.

Theorem step_ok sy l : Inv sy -> StepSpec sy l (fst (step sy l)) (snd (step sy l)).
Proof.
  intros HI. pose proof HI as [G HS]. destruct l as [s c|s|s|name fl recent content|name ro|name]; cbn [step].
  - (* Cmd *)
    destruct (ss_idle (sess_of sy s)) eqn:Idle.
    + pose proof (idle_wake_ok sy s HI) as (I1 & Ev1 & Fr1 & _ & _ & Cl1 & _).
      destruct (idle_wake sy s) as [sy1 u] eqn:Ew. cbn [fst snd] in *.
      split; [apply set_idle_inv, I1|]. split; [exact Ev1|]. split.
      * intros i Hi. rewrite set_idle_view. apply Fr1. cbn [label_actor] in Hi. congruence.
      * intros s0 Hs0. cbn [label_actor] in Hs0. inversion Hs0; subst s0. rewrite set_idle_view.
        destruct (view_of sy1 s) as [V'|]; auto. destruct Cl1 as [start [E1 E2]].
        exists start. split.
        -- unfold starts_fresh. rewrite Idle. destruct c; cbn [negb]; exact E1.
        -- rewrite client_run_st_app, E2. reflexivity.
    + pose proof (do_command_ok sy s c HI) as (I1 & Ev1 & Fr1 & Cl1 & _). cbn zeta in *.
      split; [exact I1|]. split; [exact Ev1|]. split.
      * intros i Hi. apply Fr1. cbn [label_actor] in Hi. congruence.
      * intros s0 Hs0. cbn [label_actor] in Hs0. inversion Hs0; subst s0.
        destruct (view_of (fst (do_command sy s c)) s) as [V'|]; auto.
        destruct Cl1 as [start [E1 E2]]. exists start. split; auto.
        unfold starts_fresh. rewrite Idle. destruct c; cbn [negb is_select_cmd] in *; exact E1.
  - (* IdleWake *)
    pose proof (idle_wake_ok sy s HI) as (I1 & Ev1 & Fr1 & _ & _ & Cl1 & _).
    split; [exact I1|]. split; [exact Ev1|]. split.
    + intros i Hi. apply Fr1. cbn [label_actor] in Hi. congruence.
    + intros s0 Hs0. cbn [label_actor] in Hs0. inversion Hs0; subst s0.
      destruct (view_of (fst (idle_wake sy s)) s) as [V'|]; auto.
  - (* IdleDone *)
    destruct (ss_idle (sess_of sy s)) eqn:Idle.
    + pose proof (idle_wake_ok sy s HI) as (I1 & Ev1 & Fr1 & _ & _ & Cl1 & _).
      destruct (idle_wake sy s) as [sy1 u] eqn:Ew. cbn [fst snd] in *.
      split; [apply set_idle_inv, I1|]. split; [exact Ev1|]. split.
      * intros i Hi. rewrite set_idle_view. apply Fr1. cbn [label_actor] in Hi. congruence.
      * intros s0 Hs0. cbn [label_actor] in Hs0. inversion Hs0; subst s0. rewrite set_idle_view.
        destruct (view_of sy1 s) as [V'|]; auto. destruct Cl1 as [start [E1 E2]].
        exists start. split; [exact E1|]. rewrite client_run_st_app, E2. reflexivity.
    + cbn [fst snd]. split; [exact HI|]. split; [apply evolves_refl, G|]. split; [auto|].
      intros s0 Hs0. cbn [label_actor] in Hs0. inversion Hs0; subst s0.
      destruct (view_of sy s) as [V|] eqn:Ev; auto. exists V. split; [reflexivity|].
      rewrite ndiff_self. reflexivity.
  - (* Deliver *)
    destruct (aget name (sy_boxes sy)) as [b|] eqn:Hb; cbn [fst snd].
    + destruct (mb_append_inv (fs_diff (fs_of fl) [F_RECENT]) recent content b (G _ _ Hb)) as (I1 & Le1 & _).
      assert (Ev : Evolves (sy_boxes sy)
                     (aset name (fst (mb_append (fs_diff (fs_of fl) [F_RECENT]) recent content b)) (sy_boxes sy)))
        by (apply (evolves_set _ name b); auto).
      split; [|split; [exact Ev|split; [auto|intros s0 Hs0; discriminate]]].
      split; [apply Ev|]. cbn [sy_sess sy_boxes]. intros i se Hi.
      eapply sessok_evolves; eauto.
    + split; [exact HI|]. split; [apply evolves_refl, G|]. split; [auto|intros s0 Hs0; discriminate].
  - (* CreateBox *)
    destruct (aget name (sy_boxes sy)) as [b|] eqn:Hb; cbn [fst snd].
    + split; [exact HI|]. split; [apply evolves_refl, G|]. split; [auto|intros s0 Hs0; discriminate].
    + assert (Ev : Evolves (sy_boxes sy) (sy_boxes sy ++ [(name, mb_new false ro)])).
      { split.
        - intros n b. rewrite aget_app_new. destruct (aget n (sy_boxes sy)) eqn:E.
          + intros K; inversion K; subst. eapply G; eauto.
          + destruct (n =? name)%N; [|discriminate]. intros K; inversion K; subst. apply BoxInv_new.
        - intros n b E. exists b. rewrite aget_app_new, E. split; auto. apply BoxLe_refl. }
      split; [|split; [exact Ev|split; [auto|intros s0 Hs0; discriminate]]].
      split; [apply Ev|]. cbn [sy_sess sy_boxes]. intros i se Hi. eapply sessok_evolves; eauto.
  - (* CreateMaildir *)
    destruct (aget name (sy_boxes sy)) as [b|] eqn:Hb; cbn [fst snd].
    + split; [exact HI|]. split; [apply evolves_refl, G|]. split; [auto|intros s0 Hs0; discriminate].
    + assert (Ev : Evolves (sy_boxes sy) (sy_boxes sy ++ [(name, mb_new true false)])).
      { split.
        - intros n b. rewrite aget_app_new. destruct (aget n (sy_boxes sy)) eqn:E.
          + intros K; inversion K; subst. eapply G; eauto.
          + destruct (n =? name)%N; [|discriminate]. intros K; inversion K; subst. apply BoxInv_new.
        - intros n b E. exists b. rewrite aget_app_new, E. split; auto. apply BoxLe_refl. }
      split; [|split; [exact Ev|split; [auto|intros s0 Hs0; discriminate]]].
      split; [apply Ev|]. cbn [sy_sess sy_boxes]. intros i se Hi. eapply sessok_evolves; eauto.
Qed.

Theorem inv_step sy l : Inv sy -> Inv (fst (step sy l)).
Proof. intros H. apply (step_ok sy l H). Qed.

Theorem inv_exec ls : forall sy, Inv sy -> Inv (exec sy ls).
Proof.
  unfold exec. induction ls as [|l r IH]; intros sy H; cbn [fold_left]; auto.
  apply IH, inv_step, H.
Qed.

(* ------------------------------------------------ C01: the shadow clients *)
Definition Agree (sy : sys) (cls : N -> option (list N)) : Prop := forall i, cls i = view_of sy i.

Lemma shadow_step_ok sy cls l : Inv sy -> Agree sy cls ->
  exists cls', shadow_step (sy, cls) l = Some (fst (step sy l), cls')
               /\ Agree (fst (step sy l)) cls'.
Proof.
  intros HI Ag. pose proof (step_ok sy l HI) as (I1 & _ & Fr & Cl).
  unfold shadow_step. destruct (step sy l) as [sy' rs] eqn:Es. cbn [fst snd] in *.
  destruct (label_actor l) as [s|] eqn:Ea.
  - specialize (Cl s eq_refl).
    destruct (view_of sy' s) as [V'|] eqn:Ev.
    + destruct Cl as [start [E1 E2]].
      assert (Hst : (if starts_fresh sy l then Some [] else cls s) = Some start).
      { destruct (starts_fresh sy l); [congruence|]. rewrite Ag. exact E1. }
      rewrite Hst, client_run_eq, E2. cbn [option_map fst].
      eexists. split; [reflexivity|]. intros i. unfold cl_update. destruct (i =? s)%N eqn:Ei.
      * apply N.eqb_eq in Ei; subst. congruence.
      * apply N.eqb_neq in Ei. rewrite Ag. symmetry. apply Fr. congruence.
    + eexists. split; [reflexivity|]. intros i. unfold cl_update. destruct (i =? s)%N eqn:Ei.
      * apply N.eqb_eq in Ei; subst. congruence.
      * apply N.eqb_neq in Ei. rewrite Ag. symmetry. apply Fr. congruence.
  - exists cls. split; [reflexivity|]. intros i. rewrite Ag. symmetry. apply Fr. discriminate.
Qed.

Theorem shadow_exec_ok ls : forall sy cls, Inv sy -> Agree sy cls ->
  exists cls', shadow_exec (sy, cls) ls = Some (exec sy ls, cls') /\ Agree (exec sy ls) cls'.
Proof.
  induction ls as [|l r IH]; intros sy cls HI Ag.
  - exists cls. split; [reflexivity|exact Ag].
  - destruct (shadow_step_ok sy cls l HI Ag) as [cls1 [E1 A1]].
    cbn [shadow_exec]. rewrite E1.
    destruct (IH (fst (step sy l)) cls1 (inv_step sy l HI) A1) as [cls' [E2 A2]].
    exists cls'. split; [exact E2|exact A2].
Qed.

Lemma agree_empty : Agree sys_empty (fun _ => None).
Proof. intros i. reflexivity. Qed.

(* the numeric clauses for the responses of one step *)
Theorem step_numbers_ok sy l s start : Inv sy -> label_actor l = Some s ->
  (if starts_fresh sy l then start = [] else view_of sy s = Some start) ->
  view_of (fst (step sy l)) s <> None ->
  numbers_ok (N_of_len start) (snd (step sy l)).
Proof.
  intros HI Ha Hs Hv. pose proof (step_ok sy l HI) as (_ & _ & _ & Cl). specialize (Cl s Ha).
  destruct (view_of (fst (step sy l)) s) as [V'|]; [|congruence].
  destruct Cl as [start' [E1 E2]].
  assert (start' = start) by (destruct (starts_fresh sy l); congruence). subst start'.
  eapply client_run_st_numbers_ok, E2.
Qed.

Theorem nonuid_no_expunge sy s c : Inv sy -> ss_idle (sess_of sy s) = false ->
  nonuid_data c = true -> no_exp (snd (step sy (Cmd s c))).
Proof.
  intros HI Idle Hn. cbn [step]. rewrite Idle. apply (do_command_ok sy s c HI), Hn.
Qed.

(* ---------------------------------------------------------------- C02 *)
Theorem noop_converges sy me s c : Inv sy -> sel_of sy me = Some s -> ss_idle (sess_of sy me) = false ->
  c = CNoop \/ c = CCheck ->
  let sy' := fst (step sy (Cmd me c)) in
  exists s' b', sel_of sy' me = Some s' /\ aget (sel_box s') (sy_boxes sy') = Some b'
    /\ sy_boxes sy' = sy_boxes sy
    /\ v_sorted (sel_view s') = mb_uids b'
    /\ v_pending (sel_view s') = []
    /\ (forall u m, mb_alive u b' = Some m -> aget u (v_fkeys (sel_view s')) = Some (m_flags m))
    /\ sel_box s' = sel_box s.
Proof.
  intros HI Hs Idle Hc. pose proof HI as [G HS]. cbn zeta. cbn [step]. rewrite Idle.
  unfold do_command. unfold sel_of in Hs. rewrite Hs.
  assert (Eb : body me (sy_boxes sy) (Some s) c = finish (sy_boxes sy) s [] CNone false [])
    by (destruct Hc as [-> | ->]; reflexivity).
  rewrite Eb. assert (Ei : match c, Tagged OK CNone with CIdle, Cont => true | _, _ => false end = false)
    by (destruct Hc as [-> | ->]; reflexivity).
  unfold finish.
  pose proof (inv_sess_of sy me HI) as Hse. unfold SessOK in Hse. rewrite Hs in Hse.
  destruct Hse as [[b [Hb S0]] [fz (Q1 & Q2 & Q3 & Q4 & Q5 & Q6)]].
  rewrite Hb. cbn [o_sel o_fork o_boxes o_with_uid o_grants o_untagged o_tagged fold_left].
  destruct (sync_facts b s (G _ _ Hb) S0) as (F1 & F2 & F3 & F4 & F5 & F6 & F7 & F8 & _).
  unfold fork_in. rewrite F8, Hb.
  destruct (fork (cached_of b (sel_view (sync b s))) false (sync b s)) as [s'' unt] eqn:EF.
  assert (Vw : sel_view s'' = sel_view (sync b s) /\ sel_box s'' = sel_box s).
  { unfold fork in EF. inversion EF; subst. cbn. split; [reflexivity|exact F8]. }
  destruct Vw as [Vw Bx].
  exists s'', b. cbn [fst sy_boxes sy_sess]. unfold sel_of, sess_of. cbn [sy_sess].
  rewrite aget_aset_eq. cbn [ss_sel]. split; [reflexivity|]. split; [rewrite Bx; exact Hb|].
  split; [reflexivity|]. rewrite Vw.
  assert (Hh : sel_hide s = false) by exact Q5. destruct (F4 Hh) as [Conv Pend].
  split; [|split; [exact Pend|split; [|exact Bx]]].
  - apply ssorted_ext; [apply F1|apply (bi_sorted _ (G _ _ Hb))|exact Conv].
  - intros u m A. apply F5; auto. apply Conv, mb_alive_In. congruence.
Qed.

Theorem log_complete log m u q k : LogInv log -> log_last log u = Some (q, k) -> (m <= q)%N ->
  In u (fst (ms_find_updated m log)) \/ In u (snd (ms_find_updated m log)).
Proof.
  intros I L Hq. destruct (find_updated_spec m log u I) as [A B]. destruct k; [left; apply A|right; apply B]; eauto.
Qed.

Theorem expunge_sticky b b' u q : BoxInv b -> BoxInv b' -> BoxLe b b' ->
  log_last (mb_log b) u = Some (q, false) ->
  exists q', log_last (mb_log b') u = Some (q', false) /\ (q <= q')%N.
Proof.
  intros I I' Le L.
  assert (K : known b u) by (unfold known; congruence).
  pose proof (le_known _ _ Le u K) as K'. unfold known in K'.
  destruct (log_last (mb_log b') u) as [[q' k']|] eqn:L'; [|congruence].
  destruct k'.
  - exfalso. assert (A' : In u (mb_uids b')) by (apply (bi_alive _ I'); eauto).
    destruct (le_alive _ _ Le u A') as [A|A].
    + apply (bi_alive _ I) in A as [q0 A]. congruence.
    + apply (bi_range _ I) in K. lia.
  - exists q'. split; auto. destruct (le_last _ _ Le u q' false L') as [E|E].
    + rewrite L in E. inversion E; subst. lia.
    + pose proof (log_last_le _ _ _ _ (bi_log _ I) L). lia.
Qed.

Lemma exec_evolves ls : forall sy, Inv sy -> Evolves (sy_boxes sy) (sy_boxes (exec sy ls)).
Proof.
  unfold exec. induction ls as [|l r IH]; intros sy HI; cbn [fold_left].
  - apply evolves_refl, HI.
  - apply (evolves_trans _ (sy_boxes (fst (step sy l)))); [apply HI|apply (step_ok sy l HI)|].
    apply IH, inv_step, HI.
Qed.
