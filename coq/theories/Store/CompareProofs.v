(* Store/CompareProofs.v — the pure core of C01: what a client makes of the
   EXPUNGE/EXISTS responses that SelectedMailbox._compare produces. *)
From PV Require Import Base.Prelude Store.Base Store.BaseProofs Store.Flags Store.View
     Store.Compare Store.Session Store.System.
From Coq Require Import Lia ZifyBool.

(* _seqs_cache numbers the list: the i-th uid (from 0) has sequence number i+1 *)
Definition seqs_ok (seqs : list (N * N)) (l : list N) : Prop :=
  forall i u, nth_error l i = Some u -> aget u seqs = Some (N.of_nat (S i)).

(* the numeric clauses of C01 over a response list, [count] = current size *)
Fixpoint numbers_ok (count : N) (rs : list resp) : Prop :=
  match rs with
  | [] => True
  | Expunge n :: r => (1 <= n <= count)%N /\ numbers_ok (count - 1) r
  | Exists n :: r => (count <= n)%N /\ numbers_ok n r
  | _ :: r => numbers_ok count r
  end.
Definition no_expunge (rs : list resp) : Prop := forall n, ~ In (Expunge n) rs.

Lemma remove_nth_app {A} (pre : list A) x t :
  remove_nth (length pre) (pre ++ x :: t) = Some (pre ++ t).
Proof.
  induction pre as [|y r IH]; cbn [length app remove_nth]; auto. rewrite IH. reflexivity.
Qed.
Lemma remove_nth_length {A} n (l l' : list A) :
  remove_nth n l = Some l' -> (n < length l)%nat /\ length l = S (length l').
Proof.
  revert l l'. induction n as [|k IH]; intros [|x r] l'; cbn [remove_nth length]; try discriminate.
  - intros H; inversion H; subst. lia.
  - destruct (remove_nth k r) eqn:E; cbn [option_map]; [|discriminate].
    intros H; inversion H; subst. apply IH in E. cbn [length]. lia.
Qed.

(* the client as a state machine over (messages, identities still to be announced) *)
Fixpoint client_run_st (st : list N * list N) (rs : list resp) : option (list N * list N) :=
  match rs with
  | [] => Some st
  | r :: rest => match client_step st r with
                 | None => None
                 | Some st' => client_run_st st' rest
                 end
  end.

Lemma client_run_eq rs : forall cl news,
  client_run cl rs news = option_map fst (client_run_st (cl, news) rs).
Proof.
  induction rs as [|r rest IH]; intros cl news; cbn [client_run client_run_st]; auto.
  destruct (client_step (cl, news) r) as [[cl' news']|]; auto.
Qed.

Lemma client_run_st_app a : forall st b,
  client_run_st st (a ++ b) = match client_run_st st a with
                              | Some st' => client_run_st st' b
                              | None => None end.
Proof.
  induction a as [|r rest IH]; intros st b; cbn [app client_run_st]; auto.
  destruct (client_step st r); auto.
Qed.

(* EXPUNGE numbers sent in descending order of position delete exactly the
   messages that are not kept, and every number is in range *)
Lemma run_expunges (pos : N -> N) (keep : N -> bool) :
  forall l pre news,
    (forall i u, nth_error (pre ++ l) i = Some u -> pos u = N.of_nat (S i)) ->
    client_run_st (pre ++ l, news)
                  (map (fun u => Expunge (pos u)) (rev (filter (fun u => negb (keep u)) l)))
    = Some (pre ++ filter keep l, news).
Proof.
  induction l as [|x r IH]; intros pre news Hpos.
  - cbn [filter rev map client_run_st]. reflexivity.
  - assert (Hpos' : forall i u, nth_error ((pre ++ [x]) ++ r) i = Some u -> pos u = N.of_nat (S i)).
    { intros i u. rewrite <- app_assoc. cbn [app]. apply Hpos. }
    cbn [filter]. destruct (keep x) eqn:K; cbn [negb].
    + specialize (IH (pre ++ [x]) news Hpos'). rewrite <- !app_assoc in IH. cbn [app] in IH.
      exact IH.
    + cbn [rev]. rewrite map_app, client_run_st_app.
      specialize (IH (pre ++ [x]) news Hpos').
      rewrite <- app_assoc in IH. cbn [app] in IH. rewrite IH.
      assert (Px : pos x = N.of_nat (S (length pre))).
      { apply Hpos. rewrite nth_error_app2 by lia. rewrite Nat.sub_diag. reflexivity. }
      cbn [map client_run_st client_step]. rewrite Px.
      destruct (N.of_nat (S (length pre)) =? 0)%N eqn:Z; [lia|].
      replace (N.to_nat (N.of_nat (S (length pre))) - 1)%nat with (length pre) by lia.
      rewrite <- app_assoc. cbn [app]. rewrite remove_nth_app. cbn [option_map]. reflexivity.
Qed.

Lemma ndiff_nil_incl a b : ndiff a b = [] -> incl a b.
Proof.
  intros H x Hx. destruct (nmem x b) eqn:E; [apply nmem_In, E|].
  assert (K : In x (ndiff a b)) by (apply ndiff_In; split; [auto|apply nmem_false, E]).
  rewrite H in K. destruct K.
Qed.

Lemma filter_all {A} (f : A -> bool) l : (forall x, In x l -> f x = true) -> filter f l = l.
Proof.
  induction l as [|x r IH]; cbn [filter]; auto. intros H.
  rewrite (H x (or_introl eq_refl)). f_equal. apply IH. intros; apply H; right; auto.
Qed.

Lemma client_run_st_numbers_ok rs : forall cl news st',
  client_run_st (cl, news) rs = Some st' -> numbers_ok (N_of_len cl) rs.
Proof.
  induction rs as [|r rs IH]; intros cl news st' H; [exact I|].
  cbn [client_run_st] in H. destruct (client_step (cl, news) r) as [[cl1 news1]|] eqn:E; [|discriminate].
  specialize (IH _ _ _ H).
  destruct r; cbn [client_step] in E; cbn [numbers_ok];
    try (inversion E; subst; exact IH).
  - (* Expunge *)
    destruct (n =? 0)%N eqn:Z; [discriminate|].
    destruct (remove_nth (N.to_nat n - 1) cl) as [c|] eqn:R; cbn [option_map] in E; [|discriminate].
    inversion E; subst. apply remove_nth_length in R as [R1 R2].
    split; [unfold N_of_len; lia|].
    replace (N_of_len cl - 1)%N with (N_of_len cl1) by (unfold N_of_len; lia). exact IH.
  - (* Exists *)
    destruct (n <? N_of_len cl)%N eqn:C; [discriminate|].
    destruct (length news <? N.to_nat (n - N_of_len cl))%nat eqn:C2; [discriminate|].
    inversion E; subst. split; [lia|].
    replace n with (N_of_len (cl ++ firstn (N.to_nat (n - N_of_len cl)) news)); [exact IH|].
    unfold N_of_len in *. rewrite app_length, firstn_length. lia.
  - (* Fetch *)
    destruct (seq =? 0)%N; [discriminate|].
    destruct (nth_error cl (N.to_nat seq - 1)) as [u|]; [|discriminate].
    destruct (u =? uid)%N; [|discriminate]. inversion E; subst. exact IH.
  - (* Search *)
    destruct by_uid; [inversion E; subst; exact IH|].
    destruct (forallb _ ids); [|discriminate]. inversion E; subst. exact IH.
Qed.

Lemma client_run_numbers_ok rs cl news cl' :
  client_run cl rs news = Some cl' -> numbers_ok (N_of_len cl) rs.
Proof.
  rewrite client_run_eq. destruct (client_run_st (cl, news) rs) as [st'|] eqn:E; [|discriminate].
  intros _. eapply client_run_st_numbers_ok, E.
Qed.

Section CompareSync.
  Variables (before after : list N) (bseqs : list (N * N)) (hide : bool).
  Hypothesis Hsb : ssorted before.
  Hypothesis Hsa : ssorted after.
  Hypothesis Hseq : seqs_ok bseqs before.
  Hypothesis Hnew : forall u v, In u after -> ~ In u before -> In v before -> (v < u)%N.
  Hypothesis Hhide : hide = true -> incl before after.

  Let keep := fun u => nmem u after.
  Let kept := filter keep before.
  Let new := ndiff after before.

  Lemma after_split : after = kept ++ new.
  Proof.
    apply ssorted_ext; auto.
    - apply ssorted_app. repeat split.
      + apply ssorted_filter, Hsb.
      + apply ssorted_filter, Hsa.
      + intros x y Hx Hy. apply filter_In in Hx as [Hx _]. apply ndiff_In in Hy as [Hy1 Hy2].
        apply Hnew; auto.
    - intros x. rewrite in_app_iff. unfold kept, new, keep. rewrite filter_In, nmem_In, ndiff_In.
      split; [|tauto]. intros H. destruct (nmem x before) eqn:E.
      + apply nmem_In in E. auto.
      + apply nmem_false in E. auto.
  Qed.

  Lemma compare_run_st :
    client_run_st (before, new) (compare_uids before bseqs after hide) = Some (after, []).
  Proof.
    unfold compare_uids. fold new.
    assert (Hex : client_run_st (kept, new)
                    (match new with [] => [] | _ :: _ => [Exists (N_of_len after)] end)
                  = Some (after, [])).
    { pose proof after_split as S. destruct new as [|n0 nr] eqn:En.
      - cbn [client_run_st]. rewrite S, app_nil_r. reflexivity.
      - cbn [client_run_st client_step].
        assert (L : N_of_len after = (N_of_len kept + N_of_len (n0 :: nr))%N)
          by (rewrite S at 1; apply N_of_len_app).
        destruct (N_of_len after <? N_of_len kept)%N eqn:C; [lia|].
        replace (N.to_nat (N_of_len after - N_of_len kept)) with (length (n0 :: nr))
          by (unfold N_of_len in *; lia).
        rewrite Nat.ltb_irrefl, firstn_all, skipn_all. rewrite S. reflexivity. }
    rewrite client_run_st_app.
    destruct hide eqn:Hh.
    - cbn [client_run_st]. assert (K : kept = before).
      { apply filter_all. intros x Hx. apply nmem_In, (Hhide eq_refl), Hx. }
      rewrite <- K at 1. exact Hex.
    - set (pos := fun u => match aget u bseqs with Some n => n | None => 0%N end).
      assert (M : map (fun u => match aget u bseqs with Some n => Expunge n | None => Bug end)
                      (rev (ndiff before after))
                  = map (fun u => Expunge (pos u)) (rev (filter (fun u => negb (keep u)) before))).
      { apply map_ext_in. intros u Hu. apply in_rev in Hu. apply ndiff_In in Hu as [Hu _].
        apply In_nth_error in Hu as [i Hi]. unfold pos. rewrite (Hseq _ _ Hi). reflexivity. }
      rewrite M.
      pose proof (run_expunges pos keep before [] new) as RE. cbn [app] in RE. rewrite RE.
      + exact Hex.
      + intros i u Hi. unfold pos. rewrite (Hseq _ _ Hi). reflexivity.
  Qed.

  Lemma compare_run :
    client_run before (compare_uids before bseqs after hide) new = Some after.
  Proof. rewrite client_run_eq, compare_run_st. reflexivity. Qed.

  Lemma compare_no_expunge_when_hidden :
    hide = true -> no_expunge (compare_uids before bseqs after hide).
  Proof.
    intros -> n H. unfold compare_uids in H. cbn [app] in H.
    destruct (ndiff after before); [destruct H|]. destruct H as [H|[]]. discriminate.
  Qed.

  Theorem compare_sync_core :
    let rs := compare_uids before bseqs after hide in
    client_run before rs (ndiff after before) = Some after
    /\ numbers_ok (N_of_len before) rs
    /\ (hide = true -> no_expunge rs).
  Proof.
    cbn zeta. split; [exact compare_run|]. split.
    - eapply client_run_numbers_ok, compare_run.
    - exact compare_no_expunge_when_hidden.
  Qed.
End CompareSync.

(* ------------------------------------------------------------------------
   Responses that do not change the client's message list, and FETCH merging
   (CommandResponse.add_untagged) *)
Definition is_static (r : resp) : bool :=
  match r with Expunge _ | Exists _ => false | _ => true end.
Definition no_exp (l : list resp) : Prop := forall n, ~ In (Expunge n) l.

Lemma static_step st r st' : is_static r = true -> client_step st r = Some st' -> st' = st.
Proof.
  destruct st as [cl news]. destruct r; cbn [is_static client_step]; try discriminate;
    try (intros _ H; inversion H; reflexivity).
  - intros _. destruct (seq =? 0)%N; [discriminate|].
    destruct (nth_error cl (N.to_nat seq - 1)) as [u|]; [|discriminate].
    destruct (u =? uid)%N; [|discriminate]. intros H; inversion H; reflexivity.
  - intros _. destruct by_uid; [intros H; inversion H; reflexivity|].
    destruct (forallb _ ids); [|discriminate]. intros H; inversion H; reflexivity.
Qed.

Lemma static_run rs : forall st,
  (forall r, In r rs -> is_static r = true /\ client_step st r = Some st) ->
  client_run_st st rs = Some st.
Proof.
  induction rs as [|r rest IH]; intros st H; cbn [client_run_st]; auto.
  destruct (H r (or_introl eq_refl)) as [_ E]. rewrite E. apply IH.
  intros r0 H0. apply H. right; exact H0.
Qed.

(* the label check of a FETCH depends only on the messages *)
Lemma fetch_step cl news seq uid fl sh :
  client_step (cl, news) (Fetch seq uid fl sh) = Some (cl, news) <->
  (seq <> 0)%N /\ nth_error cl (N.to_nat seq - 1) = Some uid.
Proof.
  cbn [client_step]. destruct (seq =? 0)%N eqn:Z.
  - split; [discriminate|]. intros [H _]. lia.
  - destruct (nth_error cl (N.to_nat seq - 1)) as [u|].
    + destruct (u =? uid)%N eqn:E.
      * apply N.eqb_eq in E; subst. split; [split; [lia|auto]|auto].
      * apply N.eqb_neq in E. split; [discriminate|]. intros [_ H]. congruence.
    + split; [discriminate|]. intros [_ H]. discriminate.
Qed.

(* without EXPUNGE the client's list only grows at the end *)
Lemma grow_step st r st' : (forall n, r <> Expunge n) -> client_step st r = Some st' ->
  exists t, fst st' = fst st ++ t.
Proof.
  intros Hne H. destruct (is_static r) eqn:S.
  - apply static_step in H; auto. subst. exists []. rewrite app_nil_r. reflexivity.
  - destruct r; try discriminate.
    + exfalso. eapply Hne; reflexivity.
    + destruct st as [cl news]. cbn [client_step] in H.
      destruct (n <? N_of_len cl)%N; [discriminate|].
      destruct (length news <? N.to_nat (n - N_of_len cl))%nat; [discriminate|].
      inversion H; subst. cbn [fst]. eauto.
Qed.
Lemma grow_run rs : forall st st', no_exp rs -> client_run_st st rs = Some st' ->
  exists t, fst st' = fst st ++ t.
Proof.
  induction rs as [|r rest IH]; intros st st' Hn H; cbn [client_run_st] in H.
  - inversion H; subst. exists []. rewrite app_nil_r. reflexivity.
  - destruct (client_step st r) as [st1|] eqn:E; [|discriminate].
    apply grow_step in E as [t1 E1]; [|intros n ->; apply (Hn n); left; reflexivity].
    apply IH in H as [t2 E2]; [|intros n K; apply (Hn n); right; exact K].
    exists (t1 ++ t2). rewrite E2, E1, app_assoc. reflexivity.
Qed.

Lemma merge_fetch_run seq u fl show k : forall l l' st st',
  merge_fetch (Fetch seq u fl show) l = Some l' -> no_exp l ->
  client_run_st st (l ++ Fetch seq u fl show :: k) = Some st' ->
  client_run_st st (l' ++ k) = Some st'.
Proof.
  induction l as [|x rest IH]; intros l' st st' M Hn H; [discriminate|].
  assert (Hn' : no_exp rest) by (intros n K; apply (Hn n); right; exact K).
  cbn [app client_run_st] in H. destruct (client_step st x) as [st1|] eqn:E1; [|discriminate].
  assert (Generic : forall l'', merge_fetch (Fetch seq u fl show) rest = Some l'' ->
                                client_run_st st ((x :: l'') ++ k) = Some st').
  { intros l'' M'. cbn [app client_run_st]. rewrite E1. eapply IH; eauto. }
  destruct x; cbn [merge_fetch] in M;
    try (destruct (merge_fetch (Fetch seq u fl show) rest) as [l''|] eqn:M'; cbn [option_map] in M;
         [inversion M; subst; apply Generic; reflexivity|discriminate]).
  destruct (seq =? seq0)%N eqn:Es.
  - apply N.eqb_eq in Es; subst seq0. inversion M; subst; clear M.
    destruct st as [cl news].
    assert (S1 : st1 = (cl, news)) by (eapply static_step; eauto; reflexivity). subst st1.
    apply fetch_step in E1 as [Z Hu'].
    (* split the run at the merged response *)
    rewrite client_run_st_app in H.
    destruct (client_run_st (cl, news) rest) as [st2|] eqn:R2; [|discriminate].
    cbn [client_run_st] in H.
    destruct (client_step st2 (Fetch seq u fl show)) as [st3|] eqn:E3; [|discriminate].
    assert (S3 : st3 = st2) by (eapply static_step; eauto; reflexivity). subst st3.
    destruct st2 as [cl2 news2]. apply fetch_step in E3 as [_ Hu].
    destruct (grow_run rest _ _ Hn' R2) as [t Et]. cbn [fst] in Et. subst cl2.
    assert (Huu : u = uid).
    { rewrite nth_error_app1 in Hu; [congruence|]. apply nth_error_Some. congruence. }
    subst uid. cbn [app client_run_st].
    assert (E : client_step (cl, news) (Fetch seq (if show then u else u) fl (show || show_uid))
                = Some (cl, news)) by (apply fetch_step; destruct show; auto).
    rewrite E, client_run_st_app, R2. exact H.
  - destruct (merge_fetch (Fetch seq u fl show) rest) as [l''|] eqn:M'; cbn [option_map] in M;
      [inversion M; subst; apply Generic; reflexivity|discriminate].
Qed.

Lemma merge_fetch_no_exp seq u fl show : forall l l',
  merge_fetch (Fetch seq u fl show) l = Some l' -> no_exp l -> no_exp l'.
Proof.
  induction l as [|x rest IH]; intros l' M Hn; [discriminate|].
  assert (Hn' : no_exp rest) by (intros n K; apply (Hn n); right; exact K).
  assert (Hx : forall n, x <> Expunge n) by (intros n ->; apply (Hn n); left; reflexivity).
  assert (Generic : forall l'', merge_fetch (Fetch seq u fl show) rest = Some l'' ->
                                no_exp (x :: l'')).
  { intros l'' M' n [K|K]; [eapply Hx; eauto|eapply IH; eauto]. }
  destruct x; cbn [merge_fetch] in M;
    try (destruct (merge_fetch (Fetch seq u fl show) rest) as [l''|] eqn:M'; cbn [option_map] in M;
         [inversion M; subst; apply Generic; reflexivity|discriminate]).
  destruct (seq =? seq0)%N.
  - inversion M; subst. intros n [K|K]; [discriminate|eapply Hn'; eauto].
  - destruct (merge_fetch (Fetch seq u fl show) rest) as [l''|] eqn:M'; cbn [option_map] in M;
      [inversion M; subst; apply Generic; reflexivity|discriminate].
Qed.

Lemma add_untagged1_run l r k st st' :
  no_exp l -> (forall n, r <> Expunge n) ->
  client_run_st st (l ++ r :: k) = Some st' ->
  client_run_st st (add_untagged1 l r ++ k) = Some st' /\ no_exp (add_untagged1 l r).
Proof.
  intros Hn Hr H.
  assert (Plain : client_run_st st ((l ++ [r]) ++ k) = Some st' /\ no_exp (l ++ [r])).
  { rewrite <- app_assoc. cbn [app]. split; auto.
    intros n K. apply in_app_or in K as [K|[K|[]]]; [eapply Hn; eauto|eapply Hr; eauto]. }
  destruct r; cbn [add_untagged1]; auto.
  destruct (merge_fetch (Fetch seq uid fl show_uid) l) as [l'|] eqn:M; auto.
  split; [eapply merge_fetch_run; eauto|eapply merge_fetch_no_exp; eauto].
Qed.

Lemma add_untagged_run rs : forall l k st st',
  no_exp l -> no_exp rs ->
  client_run_st st (l ++ rs ++ k) = Some st' ->
  client_run_st st (add_untagged l rs ++ k) = Some st'.
Proof.
  unfold add_untagged. induction rs as [|r rest IH]; intros l k st st' Hl Hr H; cbn [fold_left app] in *.
  - exact H.
  - assert (Hr1 : forall n, r <> Expunge n) by (intros n ->; apply (Hr n); left; reflexivity).
    assert (Hr2 : no_exp rest) by (intros n K; apply (Hr n); right; exact K).
    destruct (add_untagged1_run l r (rest ++ k) st st' Hl Hr1 H) as [H1 H2].
    apply IH; auto.
Qed.

(* ------------------------------------------------------------------------
   _compare announces every flag change that was not silenced *)
Lemma compare_reports_flags cached before after hide silenced recent with_uid u f :
  In (u, f) (fz_flags after) -> uf_mem (u, f) (fz_flags before) = false ->
  uf_mem (u, f) silenced = false ->
  exists r, In r (compare cached before after hide silenced recent with_uid)
            /\ (r = Bug \/ exists n fl sh, r = Fetch n u fl sh).
Proof.
  intros Hin Hb Hs. unfold compare.
  set (new_flags := filter (fun kf => negb (uf_mem kf (fz_flags before)) && negb (uf_mem kf silenced))
                           (fz_flags after)).
  assert (Hu : In u (nsort (ndiff (fz_recent after) (fz_recent before) ++ map fst new_flags))).
  { apply nsort_In, in_or_app. right. apply in_map_iff. exists (u, f). split; auto.
    apply filter_In. split; auto. rewrite Hb, Hs. reflexivity. }
  eexists. split.
  - apply in_or_app. right. apply in_or_app. right. apply in_map_iff. exists u. split; [reflexivity|exact Hu].
  - destruct (aget u (fz_seqs after)); [destruct (cached u)|]; eauto 6.
Qed.

