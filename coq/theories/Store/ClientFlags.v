(* Store/ClientFlags.v — the flags a client believes (System.cfs_exec): the flag list of
   the last FETCH it read for a message, and its own arithmetic for its STORE.SILENT
   commands, always agree (as sets, \Recent aside) with the flags the session has
   synchronized (_flags_key_map) for every message that exists — hence, after NOOP at a
   quiescent point, with the stored flags. *)
From PV Require Import Base.Prelude Store.Base Store.BaseProofs Store.Flags Store.ModSeq
     Store.ModSeqProofs Store.Mailbox Store.MailboxProofs Store.View Store.ViewProofs
     Store.Compare Store.CompareProofs Store.Session Store.SelProofs Store.System
     Store.SystemProofs Store.FlagsTruth Wire.SeqSet.
From Coq Require Import Lia ZifyBool.

(* ------------------------------------------------------------ flag sets *)
Lemma fs_of_In x l : In x (fs_of l) <-> In x l.
Proof. apply nsort_In. Qed.
Lemma fs_union_In x a b : In x (fs_union a b) <-> In x a \/ In x b.
Proof. unfold fs_union. rewrite nsort_In, in_app_iff. reflexivity. Qed.
Lemma fs_diff_In x a b : In x (fs_diff a b) <-> In x a /\ ~ In x b.
Proof. unfold fs_diff. rewrite nsort_In, ndiff_In. reflexivity. Qed.
Lemma fs_inter_In x a b : In x (fs_inter a b) <-> In x a /\ In x b.
Proof. unfold fs_inter. rewrite nsort_In, ninter_In. reflexivity. Qed.
Lemma perm_intersect_In x f : In x (perm_intersect f) <-> In x perm_defined /\ In x f.
Proof. apply fs_inter_In. Qed.
Lemma flagop_apply_In x op cur X :
  In x (flagop_apply op cur X) <->
  match op with
  | FAdd => In x cur \/ In x X
  | FDelete => In x cur /\ ~ In x X
  | FReplace => In x X
  end.
Proof. destruct op; cbn [flagop_apply]; [apply fs_of_In|apply fs_union_In|apply fs_diff_In]. Qed.
Lemma with_recent_In x r f : x <> F_RECENT -> (In x (with_recent r f) <-> In x f).
Proof.
  intros Hx. destruct r; cbn [with_recent]; [|reflexivity]. rewrite fs_union_In. cbn [In].
  split; [intros [H|[H|[]]]; [auto|congruence]|auto].
Qed.
Lemma storable_In x md f : In x (storable md f) <-> In x f /\ (md = true -> In x perm_defined).
Proof.
  destruct md; cbn [storable].
  - rewrite perm_intersect_In. tauto.
  - split; [intros H; split; [auto|discriminate]|tauto].
Qed.
Lemma perm_no_recent : ~ In F_RECENT perm_defined.
Proof. cbn. intros [H|[H|[H|[H|[H|[]]]]]]; discriminate. Qed.

Lemma fl_equiv_refl f : fl_equiv f f.
Proof. intros x _. reflexivity. Qed.
Lemma fl_equiv_sym f g : fl_equiv f g -> fl_equiv g f.
Proof. intros H x Hx. symmetry. apply H, Hx. Qed.
Lemma fl_equiv_trans f g h : fl_equiv f g -> fl_equiv g h -> fl_equiv f h.
Proof. intros A B x Hx. rewrite (A x Hx). apply B, Hx. Qed.
Lemma fl_equiv_with_recent r f : fl_equiv (with_recent r f) f.
Proof. intros x Hx. apply with_recent_In, Hx. Qed.
Lemma fl_equiv_apply op f g X : fl_equiv f g -> fl_equiv (flagop_apply op f X) (flagop_apply op g X).
Proof.
  intros H x Hx. rewrite !flagop_apply_In. destruct op; rewrite ?(H x Hx); reflexivity.
Qed.

(* if the stored result of applying the operation equals k, then applying it to k changes
   nothing: a client that believed k and silently applied its own STORE still believes k *)
Lemma op_fixpoint md op old X k :
  (forall x, In x X -> In x perm_defined) ->
  (forall x, In x (storable md (flagop_apply op old X)) <-> In x k) ->
  fl_equiv (flagop_apply op k X) k.
Proof.
  intros HX H x _. rewrite flagop_apply_In. destruct op.
  - (* replace *) rewrite <- H, storable_In, flagop_apply_In. split; [intros K; split; auto|tauto].
  - (* add *) split; [|auto]. intros [K|K]; auto.
    apply H. rewrite storable_In, flagop_apply_In. split; auto.
  - (* delete *) split; [tauto|]. intros K. split; auto.
    apply H in K. rewrite storable_In, flagop_apply_In in K. tauto.
Qed.

(* ------------------------------------------------------- cf_run, cf_silent *)
Definition has_fetch (u : N) (rs : list resp) : Prop :=
  exists seq fl sh, In (Fetch seq u fl sh) rs.

Lemma has_fetch_cons r rest u :
  has_fetch u (r :: rest) <-> (exists seq fl sh, r = Fetch seq u fl sh) \/ has_fetch u rest.
Proof.
  unfold has_fetch. split.
  - intros (a & b & c & [E|E]); [left; eauto|right; eauto].
  - intros [(a & b & c & ->)|(a & b & c & E)]; [exists a, b, c; left; reflexivity|exists a, b, c; right; exact E].
Qed.

Lemma cf_run_spec rs : forall cf u f,
  aget u (cf_run cf rs) = Some f ->
  (exists seq sh, In (Fetch seq u f sh) rs) \/ (~ has_fetch u rs /\ aget u cf = Some f).
Proof.
  unfold cf_run. induction rs as [|r rest IH]; intros cf u f H; cbn [fold_left] in H.
  - right. split; [intros (a & b & c & []) |exact H].
  - destruct (IH _ _ _ H) as [(seq & sh & K)|[Hn K]].
    + left. exists seq, sh. right; exact K.
    + assert (Other : (forall a b c, r <> Fetch a u b c) -> aget u (cf_step cf r) = aget u cf ->
                      (exists seq sh, In (Fetch seq u f sh) (r :: rest)) \/
                      (~ has_fetch u (r :: rest) /\ aget u cf = Some f)).
      { intros Hr E. right. split; [|congruence]. rewrite has_fetch_cons.
        intros [(a & b & c & ->)|K2]; [eapply Hr; reflexivity|auto]. }
      destruct r; try (apply Other; [intros; discriminate|reflexivity]).
      cbn [cf_step] in K. rewrite aget_aset in K. destruct (u =? uid)%N eqn:E.
      * apply N.eqb_eq in E; subst uid. inversion K; subst fl. left. exists seq, show_uid. left; reflexivity.
      * apply Other.
        -- intros a b c E2. inversion E2; subst. rewrite N.eqb_refl in E. discriminate.
        -- cbn [cf_step]. rewrite aget_aset, E. reflexivity.
Qed.
Lemma cf_run_dom rs : forall cf u, aget u (cf_run cf rs) <> None -> has_fetch u rs \/ aget u cf <> None.
Proof.
  intros cf u H. destruct (aget u (cf_run cf rs)) as [f|] eqn:E; [|congruence].
  destruct (cf_run_spec rs cf u f E) as [(seq & sh & K)|[_ K]]; [left; exists seq, f, sh; exact K|right; congruence].
Qed.

Lemma cf_silent_fold op X ts : forall cf u, NoDup ts ->
  aget u (fold_left (fun cf u => match aget u cf with
                                 | Some f => aset u (flagop_apply op f X) cf
                                 | None => cf end) ts cf)
  = if nmem u ts then option_map (fun f => flagop_apply op f X) (aget u cf) else aget u cf.
Proof.
  induction ts as [|t rest IH]; intros cf u ND; cbn [fold_left nmem]; [reflexivity|].
  inversion ND as [|? ? Hn ND']; subst. rewrite IH by auto.
  destruct (u =? t)%N eqn:E; cbn [orb].
  - apply N.eqb_eq in E; subst t. assert (nmem u rest = false) as -> by (apply nmem_false, Hn).
    destruct (aget u cf) as [f|] eqn:A; [rewrite aget_aset_eq; reflexivity|rewrite A; reflexivity].
  - apply N.eqb_neq in E.
    assert (Same : aget u (match aget t cf with
                            | Some f => aset t (flagop_apply op f X) cf | None => cf end) = aget u cf).
    { destruct (aget t cf); [apply aget_aset_neq, E|reflexivity]. }
    rewrite Same. reflexivity.
Qed.

(* ------------------------------------- FETCH responses survive the merging *)
Lemma merge_fetch_has V seq w fl sh u : forall l l',
  merge_fetch (Fetch seq w fl sh) l = Some l' ->
  Labelled V (Fetch seq w fl sh) -> Forall (Labelled V) l ->
  (has_fetch u l \/ u = w) -> has_fetch u l'.
Proof.
  induction l as [|x rest IH]; intros l' M Lr Ll H; [discriminate|].
  inversion Ll as [|? ? Lx Ll']; subst.
  assert (Generic : forall l'', merge_fetch (Fetch seq w fl sh) rest = Some l'' ->
                                has_fetch u (x :: l'')).
  { intros l'' M'. apply has_fetch_cons. destruct H as [H|H].
    - apply has_fetch_cons in H as [H|H]; [left; exact H|right; eapply IH; eauto].
    - right. eapply IH; eauto. }
  destruct x; cbn [merge_fetch] in M;
    try (destruct (merge_fetch (Fetch seq w fl sh) rest) as [l''|] eqn:M'; cbn [option_map] in M;
         [inversion M; subst; apply Generic; reflexivity|discriminate]).
  destruct (seq =? seq0)%N eqn:Es.
  - apply N.eqb_eq in Es; subst seq0. inversion M; subst; clear M.
    cbn [Labelled] in Lr, Lx. destruct Lr as [Z Hw], Lx as [_ Hw'].
    assert (uid = w) by congruence. subst uid.
    apply has_fetch_cons. destruct H as [H|H].
    + apply has_fetch_cons in H as [(a & b0 & c & E)|H]; [|right; exact H].
      inversion E; subst. left. destruct sh; eauto.
    + subst u. left. destruct sh; eauto.
  - destruct (merge_fetch (Fetch seq w fl sh) rest) as [l''|] eqn:M'; cbn [option_map] in M;
      [inversion M; subst; apply Generic; reflexivity|discriminate].
Qed.

Lemma has_fetch_app u a b : has_fetch u (a ++ b) <-> has_fetch u a \/ has_fetch u b.
Proof.
  unfold has_fetch. split.
  - intros (x & y & z & H). apply in_app_or in H as [H|H]; [left|right]; eauto.
  - intros [(x & y & z & H)|(x & y & z & H)]; exists x, y, z; apply in_or_app; auto.
Qed.

Lemma add_untagged_has V u rs : forall l,
  Forall (Labelled V) l -> Forall (Labelled V) rs ->
  has_fetch u (l ++ rs) -> has_fetch u (add_untagged l rs).
Proof.
  unfold add_untagged. induction rs as [|r rest IH]; intros l Ll Lr H; cbn [fold_left].
  - rewrite app_nil_r in H. exact H.
  - inversion Lr as [|? ? Lr1 Lr']; subst.
    assert (Step : Forall (Labelled V) (add_untagged1 l r) /\ (has_fetch u (l ++ [r]) -> has_fetch u (add_untagged1 l r))).
    { assert (Plain : Forall (Labelled V) (l ++ [r])) by (apply Forall_app; split; auto).
      destruct r as [n|n|n|seq uid fl sh|bu ids|c|n|n| |c k|]; cbn [add_untagged1]; auto.
      destruct (merge_fetch (Fetch seq uid fl sh) l) as [l'|] eqn:M; auto. split.
      - eapply (merge_fetch_truthful (mb_new false false) [] V); eauto.
        + exact (fun _ H => match H with end) || (cbn; intros m A; discriminate A).
        + apply Forall_forall. intros x _. destruct x; cbn; auto. intros m A. discriminate A.
      - intros K. apply has_fetch_app in K. eapply merge_fetch_has; eauto.
        destruct K as [K|K]; [left; exact K|right].
        apply has_fetch_cons in K as [(a & b0 & c & E)|(a & b0 & c & [])]. inversion E; reflexivity. }
    destruct Step as [A B]. apply IH; auto.
    apply has_fetch_app. replace (l ++ r :: rest) with ((l ++ [r]) ++ rest) in H
      by (rewrite <- app_assoc; reflexivity).
    apply has_fetch_app in H as [H|H]; auto.
Qed.

(* ------------------------------------------- when fork() sends no FETCH *)
Lemma fs_eqb_eq a b : fs_eqb a b = true -> a = b.
Proof. unfold fs_eqb, nlist_eqb. apply eqb_list_true_iff. intros; apply N.eqb_eq. Qed.
Lemma uf_mem_In x l : uf_mem x l = true -> In x l.
Proof.
  unfold uf_mem. intros H. apply existsb_exists in H as [[u f] [H1 H2]].
  destruct x as [u' f']. unfold uf_eqb, pair_eqb in H2. cbn [fst snd] in H2.
  apply andb_true_iff in H2 as [A B]. apply N.eqb_eq in A. apply fs_eqb_eq in B. subst. exact H1.
Qed.

Lemma fork_no_fetch cached s wu fz u k' :
  sel_prev s = Some fz -> NoDup (akeys (fz_flags fz)) ->
  aget u (v_fkeys (sel_view s)) = Some k' ->
  ~ has_fetch u (snd (fork cached wu s)) -> ~ In Bug (snd (fork cached wu s)) ->
  aget u (fz_flags fz) = Some k' \/ In (u, k') (sel_silenced s).
Proof.
  intros Hp ND Hk Hn Hb. unfold fork in Hn, Hb. rewrite Hp in Hn, Hb. cbn [snd] in Hn, Hb.
  destruct (uf_mem (u, k') (fz_flags fz)) eqn:E1.
  - left. apply In_aget_NoDup; auto. apply uf_mem_In, E1.
  - destruct (uf_mem (u, k') (sel_silenced s)) eqn:E2; [right; apply uf_mem_In, E2|].
    exfalso.
    destruct (compare_reports_flags cached fz (freeze s) (sel_hide s) (sel_silenced s) (sel_recent s) wu u k')
      as (r & Hr & [->|(n & fl & sh & ->)]); auto.
    + cbn [freeze fz_flags]. apply aget_Some_In, Hk.
    + apply Hn. exists n, fl, sh. exact Hr.
Qed.

Lemma run_no_bug rs : forall st st', client_run_st st rs = Some st' -> ~ In Bug rs.
Proof.
  induction rs as [|r rest IH]; intros st st' H; [intros []|].
  cbn [client_run_st] in H. destruct (client_step st r) as [st1|] eqn:E; [|discriminate].
  intros [K|K]; [subst r; destruct st; discriminate|eapply IH; eauto].
Qed.

(* ------------------------------------- the silenced flags a command leaves *)
(* (u, x) was silenced by this very command: it is a STORE.SILENT addressing u, and x is
   the operation applied to the flags the session had synchronized *)
Definition SilOK (c : cmd) (V : list N) (K : list (N * flags)) (u : N) (x : flags) : Prop :=
  exists sset by_uid op fl, c = CStore sset by_uid op fl true
    /\ In u (client_targets V sset by_uid)
    /\ exists cur, aget u K = Some cur /\ x = flagop_apply op cur (perm_intersect (fs_of fl)).

Lemma sync_silenced b s : sel_silenced (sync b s) = sel_silenced s.
Proof.
  unfold sync. destruct (mb_md b); [reflexivity|].
  destruct (sel_modseq s); [destruct (ms_find_updated _ _)|]; reflexivity.
Qed.
Lemma finish_silenced bs s0 unt code wu g s' :
  o_sel (finish bs s0 unt code wu g) = Some s' -> sel_silenced s' = sel_silenced s0.
Proof.
  unfold finish, server_bug. destruct (aget (sel_box s0) bs); cbn [o_sel]; [|discriminate].
  intros H; inversion H; subst. apply sync_silenced.
Qed.

Lemma view_select_client sset by_uid v :
  view_select sset by_uid v = view_select sset by_uid (MkView (v_sorted v) [] [] []).
Proof. destruct v. reflexivity. Qed.

Lemma silence_In targets fl op s0 u x :
  In (u, x) (sel_silenced (silence targets fl op s0)) ->
  In (u, x) (sel_silenced s0) \/
  exists cur, In (u, cur) targets /\ x = flagop_apply op cur (perm_intersect fl).
Proof.
  unfold silence. cbn [sel_silenced]. generalize (sel_silenced s0) as acc.
  induction targets as [|[w cur] rest IH]; intros acc H; cbn [fold_left] in H; [left; exact H|].
  apply IH in H as [H|(c & H1 & H2)].
  - destruct (fs_eqb cur (flagop_apply op cur (perm_intersect fl))); [left; exact H|].
    destruct (uf_mem _ acc); [left; exact H|].
    apply in_app_or in H as [H|[H|[]]]; [left; exact H|]. inversion H; subst.
    right. exists cur. split; [left; reflexivity|reflexivity].
  - right. exists c. split; [right; exact H1|exact H2].
Qed.

Lemma keyed_targets_In v targets u cur :
  In (u, cur) (keyed_targets v targets) -> In u (map snd targets) /\ aget u (v_fkeys v) = Some cur.
Proof.
  unfold keyed_targets. intros H. apply in_flat_map in H as [[n w] [H1 H2]]. cbn [snd] in H2.
  destruct (aget w (v_fkeys v)) as [f|] eqn:E; [|destruct H2]. destruct H2 as [H2|[]].
  inversion H2; subst. split; [apply in_map_iff; exists (n, u); auto|exact E].
Qed.

Lemma grant_sil me pick uid sel g :
  option_map sel_silenced (fst (grant me pick uid sel g)) = option_map sel_silenced sel.
Proof.
  unfold grant. destruct pick as [p|]; [|reflexivity]. destruct (p =? me)%N; [|reflexivity].
  destruct sel; reflexivity.
Qed.

Lemma append_sil me pick msgs : forall d sel g us,
  let step := fun (st : mbox * option selected * list (N * N) * list N) (fc : flags * N) =>
      let '(d, sel, grants, uids) := st in
      let '(d', uid) := mb_append (fs_diff (fs_of (fst fc)) [F_RECENT])
                                  (negb (is_some pick)) (snd fc) d in
      let '(sel', grants') := grant me pick uid sel grants in
      (d', sel', grants', uids ++ [uid]) in
  option_map sel_silenced (snd (fst (fst (fold_left step msgs (d, sel, g, us)))))
  = option_map sel_silenced sel.
Proof.
  induction msgs as [|fc rest IH]; intros d sel g us; cbn zeta; cbn [fold_left]; [reflexivity|].
  destruct (mb_append (fs_diff (fs_of (fst fc)) [F_RECENT]) (negb (is_some pick)) (snd fc) d) as [d1 uid].
  pose proof (grant_sil me pick uid sel g) as Gs.
  destruct (grant me pick uid sel g) as [sel1 g1]. cbn [fst] in Gs.
  cbn zeta in IH. rewrite IH. exact Gs.
Qed.

Definition sil_of (st : option (boxes * option selected * list (N * N) * list (N * N))) : option (list (N * flags)) :=
  match st with Some (_, sel, _, _) => option_map sel_silenced sel | None => None end.

Lemma copy_move_sil mv me bs s sset by_uid name pick s' :
  o_fork (do_copy_move mv me bs s sset by_uid name pick) = true ->
  o_sel (do_copy_move mv me bs s sset by_uid name pick) = Some s' ->
  sel_silenced s' = sel_silenced s.
Proof.
  unfold do_copy_move, refuse, server_bug.
  destruct (mv && sel_readonly s); [discriminate|].
  destruct (aget name bs) as [dest0|]; [|discriminate].
  destruct (mb_readonly dest0); [discriminate|].
  match goal with |- context [fold_left ?f ?t ?i] => set (step := f); set (targets := t) end.
  assert (Step : forall st su, step st su = None \/ sil_of (step st su) = sil_of st).
  { intros [[[[bsa sela] ga] pa]|] su; [|left; reflexivity]. unfold step.
    destruct (aget (sel_box s) bsa) as [src|]; [|left; reflexivity].
    assert (Taken : forall bs1 m,
               match aget name bs1 with
               | None => None
               | Some dest =>
                 let '(dest', duid) := mb_copy_from m (negb (is_some pick)) dest in
                 let '(sel', grants') := grant me pick duid sela ga in
                 Some (aset name dest' bs1, sel', grants', pa ++ [(snd su, duid)])
               end = None
               \/ sil_of match aget name bs1 with
               | None => None
               | Some dest =>
                 let '(dest', duid) := mb_copy_from m (negb (is_some pick)) dest in
                 let '(sel', grants') := grant me pick duid sela ga in
                 Some (aset name dest' bs1, sel', grants', pa ++ [(snd su, duid)])
               end = option_map sel_silenced sela).
    { intros bs1 m. destruct (aget name bs1) as [dest|]; [|left; reflexivity].
      destruct (mb_copy_from m (negb (is_some pick)) dest) as [dest' duid].
      pose proof (grant_sil me pick duid sela ga) as Gs.
      destruct (grant me pick duid sela ga) as [sel' g']. right. exact Gs. }
    destruct mv.
    - destruct (mb_pop (snd su) src) as [[src' m]|]; [apply Taken|right; reflexivity].
    - destruct (mb_alive (snd su) src) as [m|]; [apply Taken|right; reflexivity]. }
  assert (Loop : forall ts st X, fold_left step ts st = Some X -> sil_of (Some X) = sil_of st).
  { induction ts as [|su rest IH]; intros st X H; cbn [fold_left] in H; [subst; reflexivity|].
    destruct (Step st su) as [K|K].
    - rewrite K in H. rewrite fold_none in H; [discriminate|]. intros x. reflexivity.
    - rewrite <- K. apply IH, H. }
  destruct (fold_left step targets (Some (bs, Some s, [], []))) as [[[[bs' [s1|]] grants] pairs]|] eqn:E;
    try discriminate.
  apply Loop in E. cbn [sil_of option_map] in E. injection E as E'.
  intros _ H. destruct mv; rewrite (finish_silenced _ _ _ _ _ _ _ H); exact E'.
Qed.

Lemma body_silenced me bs s c s' :
  sel_silenced s = [] ->
  o_fork (body me bs (Some s) c) = true -> o_sel (body me bs (Some s) c) = Some s' ->
  is_select_cmd c = false ->
  forall u x, In (u, x) (sel_silenced s') ->
    SilOK c (v_sorted (sel_view s)) (v_fkeys (sel_view s)) u x
    /\ exists k, o_tagged (body me bs (Some s) c) = Tagged OK k.
Proof.
  intros Hs F E Hc u x Hin.
  assert (Nil : sel_silenced s' = [] -> SilOK c (v_sorted (sel_view s)) (v_fkeys (sel_view s)) u x
    /\ exists k, o_tagged (body me bs (Some s) c) = Tagged OK k).
  { intros K. rewrite K in Hin. destruct Hin. }
  destruct c; try discriminate; cbn [body] in *.
  - (* APPEND *)
    apply Nil. unfold do_append, refuse in E, F. destruct (aget box bs) as [dest|]; [|discriminate].
    destruct (mb_readonly dest); [discriminate|].
    pose proof (append_sil me pick msgs dest (Some s) [] []) as A. cbn zeta in A.
    match type of E with context [fold_left ?f msgs ?i] =>
      destruct (fold_left f msgs i) as [[[d' cur'] grants] uids] end.
    cbn [fst snd option_map] in A. destruct cur' as [s0|]; [|discriminate].
    inversion A as [A']. rewrite (finish_silenced _ _ _ _ _ _ _ E). rewrite A'. exact Hs.
  - (* STORE *)
    unfold do_store, refuse, server_bug in *.
    destruct (sel_readonly s); [discriminate|]. destruct (aget (sel_box s) bs) as [b|]; [|discriminate].
    set (s0 := if by_uid then s else with_hide s) in *.
    assert (V0 : sel_view s0 = sel_view s) by (unfold s0; destruct by_uid; reflexivity).
    assert (S0 : sel_silenced s0 = []) by (unfold s0; destruct by_uid; exact Hs).
    rewrite V0 in *.
    destruct (msg_loop _ _ b) as [[b' msgs]|]; [|discriminate].
    cbn [o_sel o_tagged] in *. inversion E; subst s'; clear E.
    rewrite sync_silenced in Hin. split; [|eauto].
    destruct silent; [|rewrite S0 in Hin; destruct Hin].
    apply silence_In in Hin as [Hin|(cur & Hin & Hx)]; [rewrite S0 in Hin; destruct Hin|].
    apply keyed_targets_In in Hin as [Ht Hk].
    exists sset, by_uid, op, fl. split; [reflexivity|]. split.
    + unfold client_targets. rewrite (view_select_client sset by_uid (sel_view s)) in Ht. exact Ht.
    + exists cur. split; [exact Hk|exact Hx].
  - (* EXPUNGE *)
    apply Nil. unfold do_expunge, refuse, server_bug in E, F.
    destruct (sel_readonly s); [discriminate|]. destruct (aget (sel_box s) bs) as [b|]; [|discriminate].
    destruct (find_deleted _ _ _); [|discriminate]. cbn [o_sel] in E. inversion E; subst.
    rewrite sync_silenced. exact Hs.
  - (* COPY *) apply Nil. rewrite (copy_move_sil false me bs s sset by_uid box pick s' F E). exact Hs.
  - (* MOVE *) apply Nil. rewrite (copy_move_sil true me bs s sset by_uid box pick s' F E). exact Hs.
  - (* FETCH *)
    apply Nil. unfold do_fetch, server_bug in E, F. destruct (aget (sel_box s) bs) as [b|]; [|discriminate].
    destruct (msg_loop _ _ b) as [[b' msgs]|]; [|discriminate]. cbn [o_sel] in E. inversion E; subst.
    rewrite sync_silenced. destruct by_uid; exact Hs.
  - (* SEARCH *)
    apply Nil. unfold do_search, server_bug in E, F. cbv zeta in E, F.
    destruct (aget (sel_box s) bs) as [b|]; [|discriminate].
    destruct (match sskey with Some k => k | None => (all_set, false) end) as [pre pre_uid].
    destruct (msg_loop _ _ b) as [[b' msgs]|]; [|discriminate]. cbn [o_sel] in E. inversion E; subst.
    rewrite sync_silenced. destruct by_uid; exact Hs.
  - apply Nil. unfold do_noop in E. rewrite (finish_silenced _ _ _ _ _ _ _ E). exact Hs.
  - apply Nil. unfold do_check in E. rewrite (finish_silenced _ _ _ _ _ _ _ E). exact Hs.
  - apply Nil. unfold do_touch, do_noop in E. rewrite (finish_silenced _ _ _ _ _ _ _ E). exact Hs.
  - unfold do_close in F. destruct (sel_readonly s); discriminate.
Qed.

(* --------------------------------------------- what a STORE leaves stored *)
Lemma msg_loop_all (P : msg -> Prop) op :
  (forall u b b' m, op u b = Some (b', m, false) -> P m) ->
  forall targets b acc b' out,
  (forall seq m, In (seq, m, false) acc -> P m) ->
  fold_left (fun (st : option (mbox * list (N * msg * bool))) (su : N * N) =>
               match st with
               | None => None
               | Some (b, acc) =>
                 match op (snd su) b with
                 | None => None
                 | Some (b', m, ex) => Some (b', acc ++ [(fst su, m, ex)])
                 end
               end) targets (Some (b, acc)) = Some (b', out) ->
  forall seq m, In (seq, m, false) out -> P m.
Proof.
  intros Hop. induction targets as [|[sq u] rest IH]; intros b acc b' out Hacc F; cbn [fold_left] in F.
  - inversion F; subst. exact Hacc.
  - cbn [snd fst] in F. destruct (op u b) as [[[b1 m] ex]|] eqn:E.
    + apply (IH b1 (acc ++ [(sq, m, ex)]) b' out); auto.
      intros seq0 m0 Hin. apply in_app_or in Hin as [Hin|[Hin|[]]]; [eapply Hacc; eauto|].
      injection Hin as E1 E2 E3. subst. eapply Hop; eauto.
    + rewrite fold_none in F; [discriminate|]. intros x. reflexivity.
Qed.

Lemma do_store_stored bs s sset by_uid op fl silent b' :
  Good bs -> SelOK bs s ->
  o_fork (do_store bs s sset by_uid op fl silent) = true ->
  aget (sel_box s) (o_boxes (do_store bs s sset by_uid op fl silent)) = Some b' ->
  forall u m, In u (client_targets (v_sorted (sel_view s)) sset by_uid) -> mb_alive u b' = Some m ->
  exists old md, m_flags m = storable md (flagop_apply op old (perm_intersect (fs_of fl))).
Proof.
  intros G [b [Hb S]]. unfold do_store.
  destruct (sel_readonly s); [cbn; discriminate|]. rewrite Hb.
  set (s0 := if by_uid then s else with_hide s).
  assert (V0 : sel_view s0 = sel_view s) by (unfold s0; destruct by_uid; reflexivity).
  rewrite V0.
  destruct (msg_loop_spec (sel_view s) (op_update (sel_view s) op (perm_intersect (fs_of fl)))
              (view_select sset by_uid (sel_view s)) b
              (op_update_ok _ _ _) (G _ _ Hb) (targets_known bs s b sset by_uid Hb S))
    as (b1 & msgs & L & I' & Le & Mp).
  rewrite L. cbn [o_boxes o_fork]. rewrite aget_aset_eq. intros _ Eb. inversion Eb; subst b1.
  intros u m Hu A.
  assert (Ok : entries_ok b' msgs).
  { unfold msg_loop in L.
    apply (msg_loop_exact _ (op_update_exact (sel_view s) op (perm_intersect (fs_of fl)))
                          (view_select sset by_uid (sel_view s)) b [] b' msgs);
      [apply view_select_NoDup, ssorted_NoDup, (si_sorted _ _ S)|intros x []|intros ? ? ? []|exact L]. }
  assert (All : forall seq m0, In (seq, m0, false) msgs ->
            exists old md, m_flags m0 = storable md (flagop_apply op old (perm_intersect (fs_of fl)))).
  { unfold msg_loop in L.
    apply (msg_loop_all _ (op_update (sel_view s) op (perm_intersect (fs_of fl))))
      with (targets := view_select sset by_uid (sel_view s)) (b := b) (acc := []) (b' := b');
      [|intros ? ? []|exact L].
    intros w bx by0 mx Hx. unfold op_update, mb_update in Hx.
    destruct (mb_get w _ bx) as [[m1 [|]]|]; [discriminate| |discriminate].
    injection Hx as _ Hm. subst mx. cbn [m_flags]. eauto. }
  unfold client_targets in Hu. rewrite <- (view_select_client sset by_uid (sel_view s)) in Hu.
  rewrite <- Mp in Hu. rewrite map_map in Hu. cbn [snd] in Hu.
  apply in_map_iff in Hu as [[[seq m0] ex] [Eu Hin]]. cbn [fst snd] in Eu.
  pose proof (Ok _ _ _ Hin) as O. rewrite Eu in O. destruct ex; [congruence|].
  assert (m0 = m) by congruence. subst m0. eapply All; eauto.
Qed.

Lemma store_nofork_not_ok bs s sset by_uid op fl silent :
  o_fork (do_store bs s sset by_uid op fl silent) = false ->
  forall k, o_tagged (do_store bs s sset by_uid op fl silent) <> Tagged OK k.
Proof.
  unfold do_store, refuse, server_bug. destruct (sel_readonly s); [cbn; discriminate|].
  destruct (aget (sel_box s) bs); [|cbn; discriminate].
  destruct (msg_loop _ _ _) as [[b' msgs]|]; cbn; discriminate.
Qed.

Lemma add_untagged_labelled V rs : forall l,
  Forall (Labelled V) l -> Forall (Labelled V) rs -> Forall (Labelled V) (add_untagged l rs).
Proof.
  unfold add_untagged. induction rs as [|r rest IH]; intros l Ll Lr; cbn [fold_left]; auto.
  inversion Lr as [|? ? Lr1 Lr']; subst. apply IH; auto.
  assert (Plain : Forall (Labelled V) (l ++ [r])) by (apply Forall_app; split; auto).
  destruct r as [n|n|n|seq uid fl sh|bu ids|c|n|n| |c k|]; cbn [add_untagged1]; auto.
  destruct (merge_fetch (Fetch seq uid fl sh) l) as [l'|] eqn:M; auto.
  eapply (merge_fetch_truthful (mb_new false false) [] V); eauto.
  - cbn. intros m A. discriminate A.
  - apply Forall_forall. intros x _. destruct x; cbn; auto. intros m A. discriminate A.
Qed.

Lemma labelled_has V u rs : Forall (Labelled V) rs -> has_fetch u rs -> In u V.
Proof.
  intros L (seq & fl & sh & H). rewrite Forall_forall in L. apply L in H. cbn in H.
  destruct H as [_ H]. eapply nth_error_In, H.
Qed.

(* ------------------------------------------- sessions other than the actor *)
Definition core_in (ss : list (N * session)) (i : N) : option (N * view) :=
  match aget i ss with
  | Some se => option_map (fun x => (sel_box x, sel_view x)) (ss_sel se)
  | None => None
  end.
Definition core_of (sy : sys) (i : N) : option (N * view) :=
  option_map (fun x => (sel_box x, sel_view x)) (sel_of sy i).
Lemma core_of_eq sy i : core_of sy i = core_in (sy_sess sy) i.
Proof. unfold core_of, sel_of, sess_of, core_in. destruct (aget i (sy_sess sy)); reflexivity. Qed.
Lemma core_in_grants gs ss i : core_in (fold_left apply_grant gs ss) i = core_in ss i.
Proof.
  revert ss. induction gs as [|g rest IH]; intros ss; cbn [fold_left]; auto.
  rewrite IH. unfold core_in, apply_grant.
  destruct (aget (fst g) ss) as [[[s|] idle]|] eqn:E; auto.
  rewrite aget_aset. destruct (i =? fst g)%N eqn:Ei; auto.
  apply N.eqb_eq in Ei; subst. rewrite E. reflexivity.
Qed.

(* ------------------------------------ one command, seen from the flag side *)
Record CmdFlags (c : cmd) (s s1 : selected) (b1 : mbox) (rs : list resp) : Prop := MkCmdFlags {
  cfl_box : sel_box s1 = sel_box s;
  (* a FETCH response carries the flags the session has synchronized *)
  cfl_fetch : forall seq u fl sh m, In (Fetch seq u fl sh) rs -> In u (v_sorted (sel_view s1)) ->
      mb_alive u b1 = Some m -> exists k, aget u (v_fkeys (sel_view s1)) = Some k /\ fl_equiv fl k;
  (* no FETCH for u: its synchronized flags did not change, or the command silenced them *)
  cfl_quiet : forall u k', aget u (v_fkeys (sel_view s1)) = Some k' -> ~ has_fetch u rs ->
      aget u (v_fkeys (sel_view s)) = Some k'
      \/ (SilOK c (v_sorted (sel_view s)) (v_fkeys (sel_view s)) u k' /\ tagged_ok rs = true);
  cfl_gone : forall u, In u (v_sorted (sel_view s)) -> ~ In u (v_sorted (sel_view s1)) ->
      mb_alive u b1 = None;
  cfl_lab : forall u, has_fetch u rs -> In u (v_sorted (sel_view s)) \/ In u (v_sorted (sel_view s1));
  cfl_store : forall sset by_uid op fl silent, c = CStore sset by_uid op fl silent ->
      tagged_ok rs = true ->
      forall u k1, In u (client_targets (v_sorted (sel_view s)) sset by_uid) ->
        In u (v_sorted (sel_view s1)) -> mb_alive u b1 <> None ->
        aget u (v_fkeys (sel_view s1)) = Some k1 ->
        exists old md, k1 = storable md (flagop_apply op old (perm_intersect (fs_of fl))) }.

Lemma tagged_fine_not_fetch r : tagged_fine r -> forall a b c d, r <> Fetch a b c d.
Proof. intros [[c [k ->]]| ->]; discriminate. Qed.
Lemma tagged_ok_app a b : tagged_ok (a ++ b) = tagged_ok a || tagged_ok b.
Proof. apply existsb_app. Qed.

Lemma CmdFlags_ext c s s1 s2 b rs : sel_box s1 = sel_box s2 -> sel_view s1 = sel_view s2 ->
  CmdFlags c s s2 b rs -> CmdFlags c s s1 b rs.
Proof. intros Eb Ev [A B C D E F]. constructor; rewrite ?Eb, ?Ev; auto. Qed.

Theorem command_flags sy me c : Inv sy ->
  if is_select_cmd c then forall u, ~ has_fetch u (snd (do_command sy me c))
  else forall s1 b1, sel_of (fst (do_command sy me c)) me = Some s1 ->
       aget (sel_box s1) (sy_boxes (fst (do_command sy me c))) = Some b1 ->
       exists s, sel_of sy me = Some s /\ CmdFlags c s s1 b1 (snd (do_command sy me c)).
Proof.
  intros HI. pose proof HI as [G HS]. unfold do_command.
  pose proof (inv_sess_of sy me HI) as Hse.
  assert (Ese : sel_of sy me = ss_sel (sess_of sy me)) by reflexivity.
  set (se := sess_of sy me) in *. set (bs := sy_boxes sy) in *.
  assert (Hsel : forall s, ss_sel se = Some s -> SelOK bs s).
  { intros s E. unfold SessOK in Hse. rewrite E in Hse. apply Hse. }
  pose proof (body_br me bs (ss_sel se) c G Hsel) as B.
  set (o := body me bs (ss_sel se) c) in *.
  assert (Final : forall sel' (untagged : list resp) s1,
             sel_of (fst (MkSys (o_boxes o)
                                (fold_left apply_grant (o_grants o)
                                   (aset me (MkSess sel' match c, o_tagged o with CIdle, Cont => true | _, _ => false end)
                                         (sy_sess sy))),
                          untagged ++ [o_tagged o])) me = Some s1 ->
             exists s2, sel' = Some s2 /\ sel_box s1 = sel_box s2 /\ sel_view s1 = sel_view s2).
  { intros sel' untagged s1 Hs. cbn [fst] in Hs.
    match type of Hs with sel_of ?sy1 me = _ => pose proof (core_of_eq sy1 me) as Ec end.
    unfold core_of in Ec. rewrite Hs in Ec. cbn [sy_sess option_map] in Ec.
    rewrite core_in_grants in Ec. unfold core_in in Ec. rewrite aget_aset_eq in Ec. cbn [ss_sel] in Ec.
    destruct sel' as [s2|]; [|discriminate]. cbn [option_map] in Ec. injection Ec as E1 E2. eauto. }
  destruct (o_fork o) eqn:F.
  - destruct (br_fork _ _ _ _ B F) as [s' [E Cases]]. rewrite E.
    destruct Cases as [(s & Es & Hc & R & Hh)|(Hc & b0 & Hb0 & S0 & P0 & H0 & Si0 & V0 & Run0)]; rewrite Hc.
    + destruct (rd_ok _ _ _ _ R) as [b' [Hb' S']].
      unfold fork_in. rewrite Hb'.
      unfold SessOK in Hse. rewrite Es in Hse. destruct Hse as [[bq [Hbq Sq]] [fz (Q1 & Q2 & Q3 & Q4 & Q5 & Q6)]].
      assert (Hprev : sel_prev s' = Some fz) by (rewrite (rd_prev _ _ _ _ R); exact Q1).
      assert (Hq : seqs_ok (fz_seqs fz) (v_sorted (sel_view s))) by (rewrite Q3; apply Sq).
      pose proof (fork_ok b' s' (o_with_uid o) (v_sorted (sel_view s)) fz
                    (proj1 (br_ev _ _ _ _ B) _ _ Hb') S' Hprev Q2 Hq (si_sorted _ _ Sq)
                    (rd_hide _ _ _ _ R) (rd_new _ _ _ _ R)) as FK. cbn zeta in FK.
      pose proof (fork_truthful b' (o_with_uid o) s' (fun u m A Hu => rd_flags _ _ _ _ R b' u m Hb' A Hu) S') as FT.
      pose proof (fork_labelled b' (o_with_uid o) s' S') as FL.
      assert (NF : forall u k', aget u (v_fkeys (sel_view s')) = Some k' ->
                 ~ has_fetch u (snd (fork (cached_of b' (sel_view s')) (o_with_uid o) s')) ->
                 ~ In Bug (snd (fork (cached_of b' (sel_view s')) (o_with_uid o) s')) ->
                 aget u (fz_flags fz) = Some k' \/ In (u, k') (sel_silenced s')).
      { intros u k'. apply fork_no_fetch; auto. rewrite Q4. apply Sq. }
      destruct (fork (cached_of b' (sel_view s')) (o_with_uid o) s') as [s'' unt] eqn:EF. cbn [fst snd] in FK, FT, FL, NF.
      destruct FK as (Run & S'' & Qt & Vw & Bx & Rc & Ro & Nx).
      intros s1 b1 Hs1 Hb1. destruct (Final (Some s'') _ s1 Hs1) as [s2 [E2 [Eb2 Ev2]]].
      inversion E2; subst s2. cbn [fst sy_boxes] in Hb1. rewrite Eb2, Bx, Hb' in Hb1. inversion Hb1; subst b1.
      exists s. split; [rewrite Ese; exact Es|].
      assert (Own : Forall (fetch_truthful b' (sel_recent s')) (o_untagged o)).
      { destruct c; try (apply no_fetch_truthful; apply (body_no_fetch me bs (ss_sel se)); exact I).
        - assert (Eo : o = do_store bs s sset by_uid op fl silent) by (unfold o; rewrite Es; reflexivity).
          rewrite Eo in *.
          apply (do_store_truthful bs s sset by_uid op fl silent s' b' G (Hsel s Es)); auto.
          rewrite <- (rd_box _ _ _ _ R). exact Hb'.
        - assert (Eo : o = do_fetch bs s sset by_uid want_uid set_seen) by (unfold o; rewrite Es; reflexivity).
          rewrite Eo in *.
          apply (do_fetch_truthful bs s sset by_uid want_uid set_seen s' b' G (Hsel s Es)); auto.
          rewrite <- (rd_box _ _ _ _ R). exact Hb'. }
      assert (LOwn : Forall (Labelled (v_sorted (sel_view s))) (o_untagged o)) by (apply own_static_labelled, R).
      set (mid := if existsb is_expunge unt then o_untagged o ++ unt else add_untagged (o_untagged o) unt).
      (* the three facts about the untagged part *)
      assert (Mid : Forall (fetch_truthful b' (sel_recent s')) mid
                    /\ (forall u, has_fetch u unt -> has_fetch u mid)
                    /\ (forall u, has_fetch u mid -> In u (v_sorted (sel_view s)) \/ In u (v_sorted (sel_view s')))).
      { unfold mid. destruct (existsb is_expunge unt) eqn:Ex.
        - split; [apply Forall_app; split; auto|]. split.
          + intros u H. apply has_fetch_app. right; exact H.
          + intros u H. apply has_fetch_app in H as [H|H]; [left|right]; eapply labelled_has; eauto.
        - assert (Nu : no_exp unt) by (apply existsb_expunge_false, Ex).
          destruct (grow_run unt _ _ Nu Run) as [t Et]. cbn [fst] in Et.
          assert (LOwn' : Forall (Labelled (v_sorted (sel_view s'))) (o_untagged o)).
          { rewrite Et. apply Forall_impl with (P := Labelled (v_sorted (sel_view s))); auto.
            intros r. apply labelled_prefix. }
          split; [apply (add_untagged_truthful b' (sel_recent s') (v_sorted (sel_view s'))); auto|]. split.
          + intros u H. apply (add_untagged_has (v_sorted (sel_view s'))); auto.
            apply has_fetch_app. right; exact H.
          + intros u H. right. eapply labelled_has; [|exact H]. apply add_untagged_labelled; auto. }
      destruct Mid as (MT & MH & ML).
      assert (TagNF : forall u, ~ has_fetch u [o_tagged o]).
      { intros u (a & b0 & c0 & [K|[]]). eapply tagged_fine_not_fetch; [apply B|exact K]. }
      fold mid. cbn [snd].
      apply (CmdFlags_ext c s s1 s'); [rewrite Eb2; exact Bx|rewrite Ev2; exact Vw|].
      constructor.
      * apply R.
      * intros seq u fl0 sh m Hin Hu A. exists (m_flags m). split; [apply (rd_flags _ _ _ _ R b'); auto|].
        assert (TF : fetch_truthful b' (sel_recent s') (Fetch seq u fl0 sh)).
        { apply in_app_or in Hin as [Hin|[Hin|[]]].
          - rewrite Forall_forall in MT. apply MT, Hin.
          - exfalso. eapply tagged_fine_not_fetch; [apply B|exact Hin]. }
        cbn in TF. rewrite (TF m A). apply fl_equiv_with_recent.
      * intros u k' Hk Hn.
        assert (Hn1 : ~ has_fetch u unt).
        { intros K. apply Hn, has_fetch_app. left. apply MH, K. }
        destruct (NF u k' Hk Hn1 (run_no_bug _ _ _ Run)) as [K|K]; [left; rewrite <- Q4; exact K|].
        right. assert (Eo : o = body me bs (Some s) c) by (unfold o; rewrite Es; reflexivity).
        rewrite Eo in F, E.
        destruct (body_silenced me bs s c s' Q6 F E Hc u k' K) as [SO [k Tk]].
        split; [exact SO|]. rewrite tagged_ok_app. rewrite Eo, Tk. cbn. apply orb_true_r.
      * intros u Hu Hn. destruct (sel_hide s') eqn:Hd.
        -- exfalso. apply Hn, (rd_hide _ _ _ _ R Hd), Hu.
        -- destruct (rd_conv _ _ _ _ R Hd b' Hb') as [Cv _].
           destruct (mb_alive u b') eqn:A; [|reflexivity]. exfalso. apply Hn, Cv, mb_alive_In. congruence.
      * intros u H. apply has_fetch_app in H as [H|H]; [apply ML, H|destruct (TagNF u H)].
      * intros sset by_uid op fl0 silent Ec Tok u k1 Hu Hv Ha Hk.
        destruct (mb_alive u b') as [m|] eqn:A; [|congruence].
        assert (Eo : o = do_store bs s sset by_uid op fl0 silent) by (unfold o; rewrite Es, Ec; reflexivity).
        pose proof (rd_flags _ _ _ _ R b' u m Hb' A Hv) as RF.
        rewrite Eo in F, Hb'.
        rewrite (rd_box _ _ _ _ R) in Hb'.
        destruct (do_store_stored bs s sset by_uid op fl0 silent b' G (Hsel s Es) F Hb' u m Hu A) as (old & md & Em).
        exists old, md. rewrite <- Em. congruence.
    + (* SELECT: no FETCH at all *)
      unfold fork_in. rewrite Hb0. unfold fork. rewrite P0. cbn [fst snd existsb].
      unfold add_untagged. cbn [fold_left]. intros u H. apply has_fetch_app in H as [(a & b1 & c1 & H)|H].
      * destruct c; try discriminate.
        pose proof (body_no_fetch me bs (ss_sel se) (CSelect box readonly) I _ H) as K. discriminate K.
      * destruct H as (a & b1 & c1 & [K|[]]). eapply tagged_fine_not_fetch; [apply B|exact K].
  - destruct (br_nofork _ _ _ _ B F) as [Hsel' Hun].
    assert (Shape : match o_sel o, false with
                    | Some s, true => let '(s', u) := fork_in (o_boxes o) s (o_with_uid o) in (Some s', u)
                    | x, _ => (x, [])
                    end = (o_sel o, @nil resp)) by (destruct (o_sel o); reflexivity).
    rewrite Shape, Hun. cbn [existsb add_untagged fold_left app snd].
    assert (TagNF : forall u, ~ has_fetch u [o_tagged o]).
    { intros u (a & b0 & c0 & [K|[]]). eapply tagged_fine_not_fetch; [apply B|exact K]. }
    destruct (is_select_cmd c) eqn:Hc; [exact TagNF|].
    intros s1 b1 Hs1 Hb1. destruct (Final (o_sel o) [] s1 Hs1) as [s2 [E2 [Eb2 Ev2]]].
    destruct Hsel' as [Hs'|Hs']; [|congruence]. rewrite E2 in Hs'.
    exists s2. split; [rewrite Ese; auto|].
    apply (CmdFlags_ext c s2 s1 s2); auto.
    constructor; auto.
    + intros seq u fl0 sh m [K|[]]. exfalso. eapply tagged_fine_not_fetch; [apply B|exact K].
    + intros u Hu Hn. contradiction.
    + intros u H. destruct (TagNF u H).
    + intros sset by_uid op fl0 silent Ec Tok. exfalso.
      assert (Eo : o = do_store bs s2 sset by_uid op fl0 silent) by (unfold o; rewrite <- Hs', Ec; reflexivity).
      rewrite Eo in F, Tok. cbn [tagged_ok existsb] in Tok.
      destruct (o_tagged (do_store bs s2 sset by_uid op fl0 silent)) as [| | | | | | | | |cd k|] eqn:Et; try discriminate.
      destruct cd; try discriminate. eapply store_nofork_not_ok; eauto.
Qed.

(* ------------------------------------------------------ an IDLE wake-up *)
Lemma fork_no_tagged cached wu s : tagged_ok (snd (fork cached wu s)) = false.
Proof.
  unfold tagged_ok. destruct (existsb _ _) eqn:E; [|reflexivity]. exfalso.
  apply existsb_exists in E as [r [Hr Tr]]. unfold fork in Hr. cbn [snd] in Hr.
  destruct (sel_prev s) as [fz|]; [|destruct Hr]. unfold compare in Hr.
  apply in_app_or in Hr as [Hr|Hr].
  - unfold compare_uids in Hr. apply in_app_or in Hr as [Hr|Hr].
    + destruct (sel_hide s); [destruct Hr|]. apply in_map_iff in Hr as [u [Hr _]].
      destruct (aget u (fz_seqs fz)); subst; discriminate.
    + match type of Hr with In _ (match ?x with _ => _ end) => destruct x end; [destruct Hr|].
      destruct Hr as [<-|[]]. discriminate.
  - apply in_app_or in Hr as [Hr|Hr].
    + match type of Hr with In _ (if ?x then _ else _) => destruct x end; [destruct Hr|].
      destruct Hr as [<-|[]]. discriminate.
    + apply in_map_iff in Hr as [u [Hr _]].
      destruct (aget u _); [destruct (cached u)|]; subst; discriminate.
Qed.

Lemma CmdFlags_triv c s b : CmdFlags c s s b [].
Proof.
  constructor; auto.
  - intros ? ? ? ? ? [].
  - intros u Hu Hn; contradiction.
  - intros u (a & b0 & c0 & []).
  - intros; discriminate.
Qed.

Theorem wake_flags sy me : Inv sy ->
  tagged_ok (snd (idle_wake sy me)) = false /\
  forall s1 b1, sel_of (fst (idle_wake sy me)) me = Some s1 ->
  aget (sel_box s1) (sy_boxes (fst (idle_wake sy me))) = Some b1 ->
  exists s, sel_of sy me = Some s /\ CmdFlags CNoop s s1 b1 (snd (idle_wake sy me)).
Proof.
  intros HI. pose proof HI as [G HS]. unfold idle_wake.
  pose proof (inv_sess_of sy me HI) as Hse.
  assert (Triv : tagged_ok (snd (sy, @nil resp)) = false /\
            forall s1 b1, sel_of (fst (sy, @nil resp)) me = Some s1 ->
            aget (sel_box s1) (sy_boxes (fst (sy, @nil resp))) = Some b1 ->
            exists s, sel_of sy me = Some s /\ CmdFlags CNoop s s1 b1 (snd (sy, @nil resp))).
  { split; [reflexivity|]. cbn [fst snd]. intros s1 b1 H1 H2. exists s1. split; auto. apply CmdFlags_triv. }
  assert (Ese0 : sel_of sy me = ss_sel (sess_of sy me)) by reflexivity.
  destruct (sess_of sy me) as [[s|] [|]] eqn:Ese; try exact Triv. clear Triv.
  unfold SessOK in Hse. cbn [ss_sel] in Hse, Ese0.
  destruct Hse as [[b [Hb S0]] [fz (Q1 & Q2 & Q3 & Q4 & Q5 & Q6)]].
  rewrite Hb.
  destruct (ready_after_sync (sy_boxes sy) (sy_boxes sy) s s b [] G (ex_intro _ b (conj Hb S0))
              (evolves_refl _ G) (SameCore_refl s) Hb (own_nil _)) as (R & Hh & Hsil).
  destruct (rd_ok _ _ _ _ R) as [b' [Hb' S']].
  assert (b' = b) by (rewrite (rd_box _ _ _ _ R), Hb in Hb'; congruence). subst b'.
  assert (Hprev : sel_prev (sync b s) = Some fz) by (rewrite (rd_prev _ _ _ _ R); exact Q1).
  assert (Hq : seqs_ok (fz_seqs fz) (v_sorted (sel_view s))) by (rewrite Q3; apply S0).
  pose proof (fork_ok b (sync b s) false (v_sorted (sel_view s)) fz (G _ _ Hb) S' Hprev Q2 Hq
                (si_sorted _ _ S0) (rd_hide _ _ _ _ R) (rd_new _ _ _ _ R)) as FK.
  cbn zeta in FK.
  pose proof (fork_truthful b false (sync b s) (fun u m A Hu => rd_flags _ _ _ _ R b u m Hb' A Hu) S') as FT.
  pose proof (fork_labelled b false (sync b s) S') as FL.
  pose proof (fork_no_tagged (cached_of b (sel_view (sync b s))) false (sync b s)) as NT.
  assert (NF : forall u k', aget u (v_fkeys (sel_view (sync b s))) = Some k' ->
             ~ has_fetch u (snd (fork (cached_of b (sel_view (sync b s))) false (sync b s))) ->
             ~ In Bug (snd (fork (cached_of b (sel_view (sync b s))) false (sync b s))) ->
             aget u (fz_flags fz) = Some k' \/ In (u, k') (sel_silenced (sync b s))).
  { intros u k'. apply fork_no_fetch; auto. rewrite Q4. apply S0. }
  destruct (fork (cached_of b (sel_view (sync b s))) false (sync b s)) as [s'' unt] eqn:EF.
  cbn [fst snd] in FK, FT, FL, NT, NF |- *.
  destruct FK as (Run & S'' & Qt & Vw & Bx & Rc & Ro & Nx).
  split; [exact NT|].
  intros s1 b1 Hs1 Hb1. unfold sel_of, sess_of in Hs1. cbn [sy_sess] in Hs1. rewrite aget_aset_eq in Hs1.
  cbn [ss_sel] in Hs1. injection Hs1 as <-. cbn [sy_boxes] in Hb1.
  rewrite Bx, (rd_box _ _ _ _ R), Hb in Hb1. injection Hb1 as <-.
  exists s. split; [exact Ese0|].
  apply (CmdFlags_ext CNoop s s'' (sync b s)); auto.
  constructor.
  - apply R.
  - intros seq u fl0 sh m Hin Hu A. exists (m_flags m). split; [apply (rd_flags _ _ _ _ R b); auto|].
    rewrite Forall_forall in FT. pose proof (FT _ Hin) as TF. cbn in TF. rewrite (TF m A).
    apply fl_equiv_with_recent.
  - intros u k' Hk Hn. left.
    destruct (NF u k' Hk Hn (run_no_bug _ _ _ Run)) as [K|K]; [rewrite <- Q4; exact K|].
    rewrite Hsil, Q6 in K. destruct K.
  - intros u Hu Hn. destruct (sel_hide (sync b s)) eqn:Hd.
    + exfalso. apply Hn, (rd_hide _ _ _ _ R Hd), Hu.
    + destruct (rd_conv _ _ _ _ R Hd b Hb') as [Cv _].
      destruct (mb_alive u b) eqn:A; [|reflexivity]. exfalso. apply Hn, Cv, mb_alive_In. congruence.
  - intros u H. right. eapply labelled_has; eauto.
  - intros; discriminate.
Qed.

(* ------------------------------------------------- the belief invariant *)
(* CF1: for a message of the view that exists, the client's flags equal (as a set, \Recent
        aside) the flags the session has synchronized;
   CF2: what the client remembers about messages no longer in its view concerns messages
        that are gone for good *)
Definition CFOk (b : mbox) (s : selected) (cf : cflags) : Prop :=
  (forall u f, aget u cf = Some f -> In u (v_sorted (sel_view s)) -> mb_alive u b <> None ->
               exists k, aget u (v_fkeys (sel_view s)) = Some k /\ fl_equiv f k)
  /\ (forall u f, aget u cf = Some f -> ~ In u (v_sorted (sel_view s)) ->
                  known b u /\ mb_alive u b = None).

Definition CFInv (sy : sys) (cfs : N -> cflags) : Prop :=
  forall i, match sel_of sy i with
            | None => cfs i = []
            | Some s => forall b, aget (sel_box s) (sy_boxes sy) = Some b -> CFOk b s (cfs i)
            end.

Lemma alive_back b b' u : BoxInv b -> BoxLe b b' -> known b u -> mb_alive u b' <> None -> mb_alive u b <> None.
Proof.
  intros I Le K A. apply mb_alive_In. apply mb_alive_In in A.
  destruct (le_alive _ _ Le u A) as [H|H]; auto. pose proof (bi_range _ I u K). lia.
Qed.

Lemma cfok_frame b b' s s' cf : BoxInv b -> BoxLe b b' -> SelInv b s ->
  sel_view s' = sel_view s -> CFOk b s cf -> CFOk b' s' cf.
Proof.
  intros I Le S Ev [C1 C2]. unfold CFOk. rewrite Ev. split.
  - intros u f Hf Hu A. apply (C1 u f Hf Hu). eapply alive_back; eauto. apply (si_known _ _ S), Hu.
  - intros u f Hf Hn. destruct (C2 u f Hf Hn) as [K D]. split; [apply (le_known _ _ Le), K|].
    destruct (mb_alive u b') eqn:A; [|reflexivity]. exfalso.
    assert (A0 : mb_alive u b <> None) by (eapply alive_back; eauto; congruence). congruence.
Qed.

Definition cf_pre (cl : list N) (cf : cflags) (c : cmd) (rs : list resp) : cflags :=
  match c with
  | CStore sset by_uid op fl true => if tagged_ok rs then cf_silent cl cf sset by_uid op fl else cf
  | _ => cf
  end.

Lemma client_targets_In V sset by_uid u : In u (client_targets V sset by_uid) -> In u V.
Proof.
  unfold client_targets. intros H. apply in_map_iff in H as [[n w] [E H]]. cbn [snd] in E. subst w.
  apply view_select_In in H. exact H.
Qed.

Lemma cf_pre_spec V cf c rs u f0 : NoDup V -> aget u (cf_pre V cf c rs) = Some f0 ->
  (aget u cf = Some f0 /\
   forall sset by_uid op fl, c = CStore sset by_uid op fl true -> tagged_ok rs = true ->
                             ~ In u (client_targets V sset by_uid))
  \/ (exists sset by_uid op fl f, c = CStore sset by_uid op fl true /\ tagged_ok rs = true
        /\ In u (client_targets V sset by_uid) /\ aget u cf = Some f
        /\ f0 = flagop_apply op f (perm_intersect (fs_of fl))).
Proof.
  intros ND H.
  assert (Plain : (forall sset by_uid op fl, c = CStore sset by_uid op fl true -> tagged_ok rs = true -> False) ->
                  aget u cf = Some f0 -> (aget u cf = Some f0 /\
   forall sset by_uid op fl, c = CStore sset by_uid op fl true -> tagged_ok rs = true ->
                             ~ In u (client_targets V sset by_uid))
  \/ (exists sset by_uid op fl f, c = CStore sset by_uid op fl true /\ tagged_ok rs = true
        /\ In u (client_targets V sset by_uid) /\ aget u cf = Some f
        /\ f0 = flagop_apply op f (perm_intersect (fs_of fl)))).
  { intros No A. left. split; auto. intros ? ? ? ? E T. destruct (No _ _ _ _ E T). }
  destruct c; try (apply Plain; [intros; discriminate|exact H]).
  destruct silent; [|apply Plain; [intros; discriminate|exact H]].
  cbn [cf_pre] in H. destruct (tagged_ok rs) eqn:T; [|apply Plain; [intros; discriminate|exact H]].
  unfold cf_silent in H. rewrite cf_silent_fold in H.
  2:{ unfold client_targets. apply (view_select_NoDup sset by_uid (MkView V [] [] [])). exact ND. }
  destruct (nmem u (client_targets V sset by_uid)) eqn:M.
  - right. destruct (aget u cf) as [f|] eqn:A; [|discriminate]. cbn [option_map] in H. injection H as <-.
    exists sset, by_uid, op, fl, f. split; [reflexivity|]. split; [reflexivity|].
    split; [apply nmem_In, M|]. split; reflexivity.
  - left. split; [exact H|]. intros ? ? ? ? E _. injection E as <- <- <- <-. apply nmem_false, M.
Qed.

Lemma cf_pre_dom V cf c rs u : NoDup V -> aget u (cf_pre V cf c rs) <> None -> aget u cf <> None.
Proof.
  intros ND H. destruct (aget u (cf_pre V cf c rs)) as [f0|] eqn:E; [|congruence].
  destruct (cf_pre_spec V cf c rs u f0 ND E) as [[A _]|(? & ? & ? & ? & f & _ & _ & _ & A & _)]; congruence.
Qed.

Lemma cfok_step c s s1 b b1 rs cf :
  BoxInv b -> BoxLe b b1 -> SelInv b s -> SelInv b1 s1 -> CmdFlags c s s1 b1 rs ->
  CFOk b s cf -> CFOk b1 s1 (cf_run (cf_pre (v_sorted (sel_view s)) cf c rs) rs).
Proof.
  intros I Le S S1 CF [C1 C2].
  assert (ND : NoDup (v_sorted (sel_view s))) by (apply ssorted_NoDup, S).
  split.
  - intros u f' Hf Hu A.
    destruct (cf_run_spec _ _ _ _ Hf) as [(seq & sh & Hin)|[Hn H0]].
    + destruct (mb_alive u b1) as [m|] eqn:Am; [|congruence].
      apply (cfl_fetch _ _ _ _ _ CF seq u f' sh m Hin Hu Am).
    + destruct (aget u (v_fkeys (sel_view s1))) as [k'|] eqn:Hk; [|destruct (si_fkeys _ _ S1 u Hu Hk)].
      exists k'. split; [reflexivity|].
      assert (Old : In u (v_sorted (sel_view s)) -> forall f, aget u cf = Some f ->
                    exists k, aget u (v_fkeys (sel_view s)) = Some k /\ fl_equiv f k).
      { intros Hv f Af. apply (C1 u f Af Hv). eapply alive_back; eauto. apply (si_known _ _ S), Hv. }
      destruct (cfl_quiet _ _ _ _ _ CF u k' Hk Hn) as [Q|[(sset & by_uid & op & fl & Ec & Ht & cur & Hcur & Ek) Tok]].
      * assert (Hv : In u (v_sorted (sel_view s))) by (apply (si_kdom _ _ S); congruence).
        destruct (cf_pre_spec _ _ _ _ _ _ ND H0) as [[Af _]|(sset & by_uid & op & fl & f & Ec & Tok & Ht & Af & Ef)].
        -- destruct (Old Hv f' Af) as (k & Ek & Eq). assert (k = k') by congruence. subst k. exact Eq.
        -- destruct (Old Hv f Af) as (k & Ek & Eq). assert (k = k') by congruence. subst k.
           destruct (cfl_store _ _ _ _ _ CF sset by_uid op fl true Ec Tok u k' Ht Hu A Hk) as (old & md & Es).
           subst f'. eapply fl_equiv_trans; [apply fl_equiv_apply, Eq|].
           apply (op_fixpoint md op old).
           ++ intros x Hx. apply perm_intersect_In in Hx. apply Hx.
           ++ intros x. rewrite <- Es. reflexivity.
      * assert (Hv : In u (v_sorted (sel_view s))) by (eapply client_targets_In, Ht).
        destruct (cf_pre_spec _ _ _ _ _ _ ND H0) as [[Af No]|(sset' & by_uid' & op' & fl' & f & Ec' & _ & _ & Af & Ef)].
        -- destruct (No _ _ _ _ Ec Tok Ht).
        -- rewrite Ec in Ec'. injection Ec' as <- <- <- <-.
           destruct (Old Hv f Af) as (k & Ek' & Eq). assert (k = cur) by congruence. subst k.
           subst f' k'. apply fl_equiv_apply, Eq.
  - intros u f' Hf Hn.
    assert (FromV : In u (v_sorted (sel_view s)) -> known b1 u /\ mb_alive u b1 = None).
    { intros Hv. split; [apply (le_known _ _ Le), (si_known _ _ S), Hv|apply (cfl_gone _ _ _ _ _ CF u Hv Hn)]. }
    destruct (cf_run_dom rs (cf_pre (v_sorted (sel_view s)) cf c rs) u) as [H|H]; [congruence| |].
    + destruct (cfl_lab _ _ _ _ _ CF u H) as [Hv|Hv]; [apply FromV, Hv|contradiction].
    + apply cf_pre_dom in H; auto.
      destruct (in_dec N.eq_dec u (v_sorted (sel_view s))) as [Hv|Hv]; [apply FromV, Hv|].
      destruct (aget u cf) as [f|] eqn:Af; [|congruence].
      destruct (C2 u f Af Hv) as [K D]. split; [apply (le_known _ _ Le), K|].
      destruct (mb_alive u b1) eqn:A; [|reflexivity]. exfalso.
      assert (A0 : mb_alive u b <> None) by (eapply alive_back; eauto; congruence). congruence.
Qed.

(* ---------------------------------------------------- every label, all sessions *)
Lemma set_idle_sel sy s idle i :
  sel_of (MkSys (sy_boxes sy) (aset s (MkSess (sel_of sy s) idle) (sy_sess sy))) i = sel_of sy i.
Proof.
  unfold sel_of, sess_of. cbn [sy_sess]. rewrite aget_aset.
  destruct (i =? s)%N eqn:E; auto. apply N.eqb_eq in E; subst. reflexivity.
Qed.

Lemma step_sel_others sy l i : Inv sy -> label_actor l <> Some i ->
  core_of (fst (step sy l)) i = core_of sy i.
Proof.
  intros HI Hl.
  assert (Wake : forall a, a <> i -> core_of (fst (idle_wake sy a)) i = core_of sy i).
  { intros a Ha. destruct (idle_wake_ok sy a HI) as (_ & _ & _ & Se & _).
    unfold core_of, sel_of. rewrite Se; auto. }
  destruct l as [a c|a|a|box fl rc ct|box ro|box]; cbn [step label_actor] in *.
  - assert (Ha : a <> i) by congruence.
    destruct (ss_idle (sess_of sy a)).
    + specialize (Wake a Ha). destruct (idle_wake sy a) as [sy' u]. cbn [fst] in *.
      unfold core_of. rewrite set_idle_sel. exact Wake.
    + unfold do_command.
      match goal with |- context [let '(sel', untagged) := ?X in _] => destruct X as [sel' unt] end.
      cbn [fst]. rewrite !core_of_eq. cbn [sy_sess]. rewrite core_in_grants. unfold core_in.
      rewrite aget_aset_neq; auto.
  - apply Wake. congruence.
  - assert (Ha : a <> i) by congruence.
    destruct (ss_idle (sess_of sy a)); [|reflexivity].
    specialize (Wake a Ha). destruct (idle_wake sy a) as [sy' u]. cbn [fst] in *.
    unfold core_of. rewrite set_idle_sel. exact Wake.
  - destruct (aget box (sy_boxes sy)); reflexivity.
  - destruct (aget box (sy_boxes sy)); reflexivity.
  - destruct (aget box (sy_boxes sy)); reflexivity.
Qed.

Lemma cfinv_others sy sy' cfs (cf' : cflags) i :
  Inv sy -> Evolves (sy_boxes sy) (sy_boxes sy') -> CFInv sy cfs ->
  core_of sy' i = core_of sy i -> cf' = cfs i ->
  match sel_of sy' i with
  | None => cf' = []
  | Some s => forall b, aget (sel_box s) (sy_boxes sy') = Some b -> CFOk b s cf'
  end.
Proof.
  intros HI [G' Le] C Ec ->. specialize (C i). pose proof (inv_sess_of sy i HI) as Hse.
  unfold core_of in Ec. unfold SessOK in Hse. fold (sel_of sy i) in Hse.
  destruct (sel_of sy' i) as [s'|], (sel_of sy i) as [s|]; cbn [option_map] in Ec; try discriminate; auto.
  injection Ec as Eb Ev. destruct Hse as [[b [Hb S]] _].
  intros b1 Hb1. destruct (Le _ _ Hb) as [b' [Hb' Leb]]. rewrite Eb, Hb' in Hb1. injection Hb1 as <-.
  apply (cfok_frame b b' s s'); auto. apply (proj1 HI _ _ Hb).
Qed.

Lemma actor_cmd sy sy' cfs a c s s1 b1 rs :
  Inv sy -> Inv sy' -> Evolves (sy_boxes sy) (sy_boxes sy') -> CFInv sy cfs ->
  sel_of sy a = Some s -> sel_of sy' a = Some s1 -> aget (sel_box s1) (sy_boxes sy') = Some b1 ->
  CmdFlags c s s1 b1 rs ->
  CFOk b1 s1 (cf_run (cf_pre (v_sorted (sel_view s)) (cfs a) c rs) rs).
Proof.
  intros HI HI' [G' Le] C Es Es1 Hb1 CF.
  specialize (C a). rewrite Es in C.
  pose proof (inv_sess_of sy a HI) as Hse. unfold SessOK in Hse. fold (sel_of sy a) in Hse. rewrite Es in Hse.
  pose proof (inv_sess_of sy' a HI') as Hse'. unfold SessOK in Hse'. fold (sel_of sy' a) in Hse'. rewrite Es1 in Hse'.
  destruct Hse as [[b [Hb S]] _]. destruct Hse' as [[b1' [Hb1' S1]] _].
  rewrite Hb1 in Hb1'. injection Hb1' as <-.
  destruct (Le _ _ Hb) as [b' [Hb' Leb]]. rewrite <- (cfl_box _ _ _ _ _ CF), Hb1 in Hb'. injection Hb' as <-.
  apply (cfok_step c s s1 b b1); auto. apply (proj1 HI _ _ Hb).
Qed.

Lemma CmdFlags_app_tag s s1 b rs t : (forall a b0 c d, t <> Fetch a b0 c d) ->
  CmdFlags CNoop s s1 b rs -> CmdFlags CNoop s s1 b (rs ++ [t]).
Proof.
  intros Ht [A B C D E F].
  assert (HF : forall u, has_fetch u (rs ++ [t]) -> has_fetch u rs).
  { intros u H. apply has_fetch_app in H as [H|(x & y & z & [K|[]])]; auto. destruct (Ht _ _ _ _ K). }
  constructor; auto.
  - intros seq u fl sh m Hin. apply in_app_or in Hin as [Hin|[K|[]]]; [eapply B; eauto|destruct (Ht _ _ _ _ K)].
  - intros u k' Hk Hn. left. destruct (C u k' Hk) as [K|[(? & ? & ? & ? & K & _) _]]; auto; [|discriminate].
    intros H. apply Hn, has_fetch_app. left; exact H.
  - intros; discriminate.
Qed.

Lemma cf_label_plain cl cf l rs :
  (forall a sset by_uid op fl, l = Cmd a (CStore sset by_uid op fl true) -> tagged_ok rs = false) ->
  cf_label cl cf l rs = cf_run cf rs.
Proof.
  intros H. unfold cf_label. destruct l as [a c| | | | |]; try reflexivity.
  destruct c; try reflexivity. destruct silent; try reflexivity.
  rewrite (H _ _ _ _ _ eq_refl). reflexivity.
Qed.
Lemma cf_label_cmd cl cf a c rs : cf_label cl cf (Cmd a c) rs = cf_run (cf_pre cl cf c rs) rs.
Proof. destruct c; reflexivity. Qed.

Lemma cfok_nofetch b s rs : (forall u, ~ has_fetch u rs) -> CFOk b s (cf_run [] rs).
Proof.
  intros H. split; intros u f Hf; exfalso;
    (destruct (cf_run_spec _ _ _ _ Hf) as [(seq & sh & K)|[_ K]]; [apply (H u); exists seq, f, sh; exact K|discriminate]).
Qed.

(* the responses of a wake-up followed by one tagged line *)
Lemma wake_then sy a t : Inv sy -> (forall x y z w, t <> Fetch x y z w) ->
  forall s1 b1, sel_of (fst (idle_wake sy a)) a = Some s1 ->
  aget (sel_box s1) (sy_boxes (fst (idle_wake sy a))) = Some b1 ->
  exists s, sel_of sy a = Some s /\ CmdFlags CNoop s s1 b1 (snd (idle_wake sy a) ++ [t]).
Proof.
  intros HI Ht s1 b1 H1 H2. destruct (wake_flags sy a HI) as [_ W].
  destruct (W s1 b1 H1 H2) as [s [Es CF]]. exists s. split; auto. apply CmdFlags_app_tag; auto.
Qed.

Lemma actor_ok sy cfs l a : Inv sy -> CFInv sy cfs -> label_actor l = Some a ->
  forall s1 b1, sel_of (fst (step sy l)) a = Some s1 ->
  aget (sel_box s1) (sy_boxes (fst (step sy l))) = Some b1 ->
  CFOk b1 s1 (cf_label (match view_of sy a with Some v => v | None => [] end)
                       (if starts_fresh sy l then [] else cfs a) l (snd (step sy l))).
Proof.
  intros HI C La s1 b1 Hs1 Hb1.
  destruct (step_ok sy l HI) as (HI' & Ev & _).
  assert (Go : forall c cf rs, (exists s, sel_of sy a = Some s /\ CmdFlags c s s1 b1 rs) ->
             cf = cfs a ->
             CFOk b1 s1 (cf_run (cf_pre (match view_of sy a with Some v => v | None => [] end) cf c rs) rs)).
  { intros c cf rs [s [Es CF]] ->. unfold view_of. rewrite Es. cbn [option_map].
    apply (actor_cmd sy (fst (step sy l)) cfs a c s s1 b1 rs); auto. }
  assert (Idle : forall t c0, (forall x y z w, t <> Fetch x y z w) ->
             forall sy' u, idle_wake sy a = (sy', u) ->
             sel_of sy' a = Some s1 -> aget (sel_box s1) (sy_boxes sy') = Some b1 ->
             (forall a0 sset by_uid op fl, c0 = Cmd a0 (CStore sset by_uid op fl true) -> tagged_ok (u ++ [t]) = false) ->
             CFOk b1 s1 (cf_label (match view_of sy a with Some v => v | None => [] end) (cfs a) c0 (u ++ [t]))).
  { intros t c0 Ht sy' u EW H1 H2 Hp. rewrite cf_label_plain by exact Hp.
    pose proof (wake_then sy a t HI Ht s1 b1) as W. rewrite EW in W. cbn [fst snd] in W.
    apply (Go CNoop (cfs a) (u ++ [t]) (W H1 H2) eq_refl). }
  destruct l as [a0 c|a0|a0|box fl rc ct|box ro|box]; cbn [label_actor] in La; try discriminate;
    injection La as ->; cbn [step starts_fresh] in *.
  - destruct (ss_idle (sess_of sy a)) eqn:Id.
    + assert (Fr : (match c with CSelect _ _ => negb true | _ => false end) = false) by (destruct c; reflexivity).
      rewrite Fr. destruct (wake_flags sy a HI) as [NT _].
      destruct (idle_wake sy a) as [sy' u] eqn:EW. cbn [fst snd sy_boxes] in *.
      rewrite set_idle_sel in Hs1.
      apply (Idle (Tagged BAD CNone) (Cmd a c)) with (sy' := sy'); auto; [intros; discriminate|].
      intros. rewrite tagged_ok_app, NT. reflexivity.
    + pose proof (command_flags sy a c HI) as CFl. destruct (is_select_cmd c) eqn:Hc.
      * destruct c; try discriminate. cbn [negb]. rewrite cf_label_plain by (intros; discriminate).
        apply cfok_nofetch, CFl.
      * assert (Fr : (match c with CSelect _ _ => negb false | _ => false end) = false) by (destruct c; try reflexivity; discriminate).
        rewrite Fr, cf_label_cmd. apply Go; auto.
  - destruct (idle_wake sy a) as [sy' u] eqn:EW. cbn [fst snd] in *.
    rewrite cf_label_plain by (intros; discriminate).
    pose proof (wake_flags sy a HI) as [_ W]. rewrite EW in W. cbn [fst snd] in W.
    apply (Go CNoop (cfs a) u (W s1 b1 Hs1 Hb1) eq_refl).
  - destruct (ss_idle (sess_of sy a)) eqn:Id.
    + destruct (idle_wake sy a) as [sy' u] eqn:EW. cbn [fst snd sy_boxes] in *.
      rewrite set_idle_sel in Hs1.
      apply (Idle (Tagged OK CNone) (IdleDone a)) with (sy' := sy'); auto; intros; discriminate.
    + cbn [fst snd] in *. rewrite cf_label_plain by (intros; discriminate).
      apply (Go CNoop (cfs a) []); auto. exists s1. split; auto. apply CmdFlags_triv.
Qed.

Lemma cfs_step_fst sy cfs l : fst (cfs_step (sy, cfs) l) = fst (step sy l).
Proof.
  unfold cfs_step. destruct (step sy l) as [sy' rs]. reflexivity.
Qed.

Theorem cfs_step_inv sy cfs l : Inv sy -> CFInv sy cfs ->
  Inv (fst (cfs_step (sy, cfs) l)) /\ CFInv (fst (cfs_step (sy, cfs) l)) (snd (cfs_step (sy, cfs) l)).
Proof.
  intros HI C. rewrite cfs_step_fst. destruct (step_ok sy l HI) as (HI' & Ev & _).
  split; [exact HI'|].
  pose proof (actor_ok sy cfs l) as AO. pose proof (fun i => step_sel_others sy l i HI) as SO.
  unfold cfs_step. destruct (step sy l) as [sy' rs]. cbn [fst snd] in *. unfold cfs_next.
  destruct (label_actor l) as [a|] eqn:La.
  - assert (Others : forall i (cf' : cflags), i <> a -> cf' = cfs i ->
              match sel_of sy' i with
              | None => cf' = []
              | Some s => forall b, aget (sel_box s) (sy_boxes sy') = Some b -> CFOk b s cf'
              end).
    { intros i cf' Hi E. apply (cfinv_others sy sy' cfs cf' i); auto. apply SO. congruence. }
    destruct (view_of sy' a) as [v'|] eqn:Va; cbn [snd]; intros i; destruct (i =? a)%N eqn:Ei.
    + apply N.eqb_eq in Ei; subst i. destruct (sel_of sy' a) as [s1|] eqn:Es1.
      * intros b1 Hb1. apply (AO a HI C eq_refl s1 b1 Es1 Hb1).
      * unfold view_of in Va. rewrite Es1 in Va. discriminate.
    + apply Others; [apply N.eqb_neq, Ei|reflexivity].
    + apply N.eqb_eq in Ei; subst i. unfold view_of in Va.
      destruct (sel_of sy' a); [discriminate|reflexivity].
    + apply Others; [apply N.eqb_neq, Ei|reflexivity].
  - cbn [snd]. intros i. apply (cfinv_others sy sy' cfs (cfs i) i); auto. apply SO. discriminate.
Qed.

Theorem cfs_exec_inv ls : forall sy cfs, Inv sy -> CFInv sy cfs ->
  Inv (fst (cfs_exec (sy, cfs) ls)) /\ CFInv (fst (cfs_exec (sy, cfs) ls)) (snd (cfs_exec (sy, cfs) ls)).
Proof.
  unfold cfs_exec. induction ls as [|l rest IH]; intros sy cfs HI C; cbn [fold_left]; [auto|].
  destruct (cfs_step_inv sy cfs l HI C) as [HI1 C1].
  destruct (cfs_step (sy, cfs) l) as [sy1 cfs1]. apply IH; auto.
Qed.

Lemma cfinv_init : CFInv sys_empty (fun _ => []).
Proof. intros i. reflexivity. Qed.
Lemma cfs_start_inv ls :
  Inv (fst (cfs_exec cfs_start ls)) /\ CFInv (fst (cfs_exec cfs_start ls)) (snd (cfs_exec cfs_start ls)).
Proof. apply (cfs_exec_inv ls sys_empty (fun _ => []) inv_init cfinv_init). Qed.

Lemma cfs_exec_fst ls : forall sy cfs, fst (cfs_exec (sy, cfs) ls) = exec sy ls.
Proof.
  unfold cfs_exec, exec. induction ls as [|l rest IH]; intros sy cfs; cbn [fold_left]; [reflexivity|].
  pose proof (cfs_step_fst sy cfs l) as E. destruct (cfs_step (sy, cfs) l) as [sy1 cfs1].
  cbn [fst] in E. rewrite IH, E. reflexivity.
Qed.

(* for every history of any number of sessions: what each client believes about the flags
   of a message that exists is what its session has synchronized *)
Theorem client_flags_sound ls me s b u f :
  let st := cfs_exec cfs_start ls in
  sel_of (fst st) me = Some s -> aget (sel_box s) (sy_boxes (fst st)) = Some b ->
  aget u (snd st me) = Some f -> In u (v_sorted (sel_view s)) -> mb_alive u b <> None ->
  exists k, aget u (v_fkeys (sel_view s)) = Some k /\ fl_equiv f k.
Proof.
  cbn zeta. intros Hs Hb Hf Hu A.
  destruct (cfs_start_inv ls) as [_ C].
  specialize (C me). rewrite Hs in C. destruct (C b Hb) as [C1 _]. eauto.
Qed.

(* ... hence after NOOP (or CHECK) the client's flags of every message equal the stored
   flags: as sets, \Recent aside (which is per session and not stored) *)
Theorem client_flags_converge ls me c :
  let st := cfs_exec cfs_start ls in
  sel_of (fst st) me <> None -> ss_idle (sess_of (fst st) me) = false ->
  c = CNoop \/ c = CCheck ->
  let st' := cfs_step st (Cmd me c) in
  exists s' b', sel_of (fst st') me = Some s' /\ aget (sel_box s') (sy_boxes (fst st')) = Some b'
    /\ v_sorted (sel_view s') = mb_uids b'
    /\ forall u m f, mb_alive u b' = Some m -> aget u (snd st' me) = Some f -> fl_equiv f (m_flags m).
Proof.
  cbn zeta. intros Hs Idle Hc.
  destruct (cfs_start_inv ls) as [HI C].
  destruct (cfs_exec cfs_start ls) as [sy cfs] eqn:E. cbn [fst snd] in *.
  destruct (sel_of sy me) as [s|] eqn:Es; [|congruence].
  destruct (noop_converges sy me s c HI Es Idle Hc) as (s' & b' & Hs' & Hb' & _ & Vw & _ & Fk & _).
  destruct (cfs_step_inv sy cfs (Cmd me c) HI C) as [_ C'].
  rewrite cfs_step_fst in *. exists s', b'. split; [exact Hs'|]. split; [exact Hb'|]. split; [exact Vw|].
  intros u m f A Hf. specialize (C' me). rewrite Hs' in C'. destruct (C' b' Hb') as [C1 _].
  destruct (C1 u f Hf) as (k & Ek & Eq).
  - rewrite Vw. apply mb_alive_In. congruence.
  - congruence.
  - rewrite (Fk u m A) in Ek. injection Ek as <-. exact Eq.
Qed.
