(* Store/SystemNs.v — the multi-session store model with a mailbox *namespace*:
   CREATE, DELETE and RENAME issued by any connection on any mailbox, including mailboxes
   that connections (the issuing one too) have selected.  A layer on top of Store/System.v,
   which is left untouched.  Definitions only.

   The inner system (System.sys) is reused with its [boxes] keyed by *mailbox identity*
   (the dict backend's MailboxData object / ObjectId; `sel_box` = SelectedMailbox.mailbox_id);
   the layer adds the names:

   nsys = { ns_sys    the inner system: mailbox objects by id, connections
            ns_names  name -> id   (dict MailboxSet: _inbox and _set); name 1 = INBOX
            ns_next   the next fresh id (ids are never reused)
            ns_look   connection -> SelectedMailbox.lookup: the name it selected
            ns_closed connections that have been sent BYE (the server closed them)
            ns_idead  idling connections whose updates task has died with MailboxNotFound }
   nlabel = NOld l                the labels of System.v, mailbox *names* in place of boxes
          | NCreate s name | NDelete s name | NRename s src dst       issued by connection s
   nresp  = R r (a response of the inner model) | Bye (`* BYE Selected mailbox no longer
            exists.`) | NoExists (tagged NO [ALREADYEXISTS])
   stale ns s   the name connection s selected no longer denotes the mailbox it selected
                (BaseSession._get_selected raises MailboxNotFound): deleted, renamed away,
                deleted and created again, or INBOX renamed (fix 36fbaaf).  Derived, not
                stored: renaming the mailbox back makes the selection live again.
   nstep : nsys -> nlabel -> nsys * list nresp
     what pymap answers on a stale selection (pymap/backend/session.py, imap/state.py):
       NOOP CHECK FETCH SEARCH COPY            NO [NONEXISTENT], nothing changes
       STORE EXPUNGE MOVE                      NO [READ-ONLY] if examined, else NO [NONEXISTENT]
       LIST.. CREATE DELETE RENAME (load_updates only)   set_deleted(): * BYE, tagged OK, closed
       APPEND of a mailbox that is not the selected object   message stored, * BYE, OK [APPENDUID]
       APPEND of the selected object under its new name       synchronised as ever (finding C10-F4)
       CLOSE                                   OK, deselected, nothing expunged
       SELECT/EXAMINE                          as ever (the old selection is dropped first)
       IDLE                                    + Idling, the updates task dies at once; DONE: NO
       RENAME INBOX x by a connection that selected INBOX    OK, stale from the next command on
   Shadow clients: nshadow_step / nshadow_exec — as System.shadow_step; a BYE must come with
   nothing but the tagged response and leaves the connection without selection. *)
From PV Require Import Base.Prelude Store.Base Store.Flags Store.ModSeq Store.Mailbox
     Store.View Store.Compare Store.Session Store.System Wire.SeqSet.

Inductive nresp := R (r : resp) | Bye | NoExists.

Inductive nlabel :=
| NOld (l : label)
| NCreate (s : N) (name : N)
| NDelete (s : N) (name : N)
| NRename (s : N) (src dst : N).

Record nsys := MkNs {
  ns_sys : sys;
  ns_names : list (N * N);
  ns_next : N;
  ns_look : list (N * N);
  ns_closed : list N;
  ns_idead : list N }.

Definition ns_empty : nsys := MkNs sys_empty [] 1 [] [] [].
Definition INBOX : N := 1.

Definition with_sys (ns : nsys) (sy : sys) : nsys :=
  MkNs sy (ns_names ns) (ns_next ns) (ns_look ns) (ns_closed ns) (ns_idead ns).
Definition with_names (ns : nsys) (nm : list (N * N)) : nsys :=
  MkNs (ns_sys ns) nm (ns_next ns) (ns_look ns) (ns_closed ns) (ns_idead ns).
Definition with_idead (ns : nsys) (d : list N) : nsys :=
  MkNs (ns_sys ns) (ns_names ns) (ns_next ns) (ns_look ns) (ns_closed ns) d.

(* the id a name denotes; 0 is never allocated: "no such mailbox" *)
Definition rid (ns : nsys) (name : N) : N :=
  match aget name (ns_names ns) with Some i => i | None => 0 end.

Definition res_cmd (nm : N -> N) (c : cmd) : cmd :=
  match c with
  | CSelect b ro => CSelect (nm b) ro
  | CAppend b m p => CAppend (nm b) m p
  | CCopy ss u b p => CCopy ss u (nm b) p
  | CMove ss u b p => CMove ss u (nm b) p
  | c => c
  end.

(* BaseSession._get_selected raises MailboxNotFound *)
Definition stale (ns : nsys) (s : N) : bool :=
  match sel_of (ns_sys ns) s with
  | None => false
  | Some x =>
    match aget s (ns_look ns) with
    | Some n => negb (match aget n (ns_names ns) with
                      | Some i => (i =? sel_box x)%N
                      | None => false end)
    | None => true
    end
  end.

(* do_disconnect / _deselect *)
Definition drop_sel (sy : sys) (s : N) : sys :=
  MkSys (sy_boxes sy) (aset s sess_new (sy_sess sy)).
Definition set_idle (sy : sys) (s : N) (idle : bool) : sys :=
  MkSys (sy_boxes sy) (aset s (MkSess (sel_of sy s) idle) (sy_sess sy)).
Definition close_conn (ns : nsys) (s : N) : nsys :=
  MkNs (drop_sel (ns_sys ns) s) (ns_names ns) (ns_next ns) (ns_look ns)
       (nadd s (ns_closed ns)) (ndel s (ns_idead ns)).

Definition is_tagged (r : resp) : bool := match r with Tagged _ _ => true | _ => false end.

Definition inner (ns : nsys) (l : label) : nsys * list nresp :=
  let '(sy', rs) := step (ns_sys ns) l in (with_sys ns sy', map R rs).
Definition say (ns : nsys) (c : cond) (k : rcode) : nsys * list nresp := (ns, [R (Tagged c k)]).

Definition select_cmd (ns : nsys) (s name : N) (ro : bool) : nsys * list nresp :=
  let '(ns', rs) := inner ns (Cmd s (CSelect (rid ns name) ro)) in
  (MkNs (ns_sys ns') (ns_names ns') (ns_next ns') (aset s name (ns_look ns')) (ns_closed ns')
        (ns_idead ns'), rs).

(* a command of a connection whose selection [x] is stale (not idling, not closed) *)
Definition stale_cmd (ns : nsys) (s : N) (x : selected) (c : cmd) : nsys * list nresp :=
  match c with
  | CSelect name ro => select_cmd ns s name ro
  | CAppend name msgs pick =>
    let i := rid ns name in
    if (i =? sel_box x)%N
    then inner ns (Cmd s (CAppend i msgs pick))      (* _load_updates compares ids only *)
    else
      let '(sy', rs) := step (drop_sel (ns_sys ns) s) (Cmd s (CAppend i msgs pick)) in
      (* (the connection has no selection in that step: rs is the tagged response alone) *)
      if tagged_ok rs then (close_conn (with_sys ns sy') s, Bye :: map R (filter is_tagged rs))
      else (ns, map R (filter is_tagged rs))
  | CNoop | CCheck | CFetch _ _ _ _ | CSearch _ _ _ | CCopy _ _ _ _ => say ns NO CNonexistent
  | CStore _ _ _ _ _ | CExpunge _ | CMove _ _ _ _ =>
    say ns NO (if sel_readonly x then CReadOnly else CNonexistent)
  | CTouch => (close_conn ns s, [Bye; R (Tagged OK CNone)])
  | CClose => (with_sys ns (drop_sel (ns_sys ns) s), [R (Tagged OK CNone)])
  | CIdle => (with_idead (with_sys ns (set_idle (ns_sys ns) s true)) (nadd s (ns_idead ns)),
              [R Cont])
  end.

(* the end of an IDLE whose updates task has died: NO [NONEXISTENT] *)
Definition idle_dead_end (ns : nsys) (s : N) : nsys * list nresp :=
  (with_idead (with_sys ns (set_idle (ns_sys ns) s false)) (ndel s (ns_idead ns)),
   [R (Tagged NO CNonexistent)]).

Definition ncmd (ns : nsys) (s : N) (c : cmd) : nsys * list nresp :=
  if nmem s (ns_closed ns) then (ns, [])
  else if ss_idle (sess_of (ns_sys ns) s)
  then if nmem s (ns_idead ns) then idle_dead_end ns s
       else inner ns (Cmd s c)                        (* last wake-up, BAD *)
  else
    match sel_of (ns_sys ns) s with
    | Some x =>
      if stale ns s then stale_cmd ns s x c
      else match c with
           | CSelect name ro => select_cmd ns s name ro
           | _ => inner ns (Cmd s (res_cmd (rid ns) c))
           end
    | None =>
      match c with
      | CSelect name ro => select_cmd ns s name ro
      | _ => inner ns (Cmd s (res_cmd (rid ns) c))
      end
    end.

(* a new mailbox object under [name] *)
Definition alloc (ns : nsys) (name : N) (l : N -> label) : nsys :=
  MkNs (fst (step (ns_sys ns) (l (ns_next ns)))) (aset name (ns_next ns) (ns_names ns))
       (ns_next ns + 1) (ns_look ns) (ns_closed ns) (ns_idead ns).

(* BaseSession._load_updates(selected, None) after a namespace command that succeeded *)
Definition after_op (ns : nsys) (s : N) (own_inbox_rename : bool) : nsys * list nresp :=
  match sel_of (ns_sys ns) s with
  | None => say ns OK CNone
  | Some _ =>
    if own_inbox_rename then say ns OK CNone
    else if stale ns s then (close_conn ns s, [Bye; R (Tagged OK CNone)])
    else inner ns (Cmd s CTouch)
  end.

Definition bound (ns : nsys) (name : N) : bool := is_some (aget name (ns_names ns)).

Definition ns_op (ns : nsys) (s : N) (l : nlabel) : nsys * list nresp :=
  match l with
  | NCreate _ name =>
    if (name =? INBOX)%N then say ns NO CNone
    else if bound ns name then (ns, [NoExists])
    else after_op (alloc ns name (fun i => CreateBox i false)) s false
  | NDelete _ name =>
    if (name =? INBOX)%N then say ns NO CNone
    else if negb (bound ns name) then say ns NO CNonexistent
    else after_op (with_names ns (adel name (ns_names ns))) s false
  | NRename _ src dst =>
    if (dst =? INBOX)%N then say ns NO CNone
    else match aget src (ns_names ns) with
         | None => say ns NO CNonexistent
         | Some i =>
           if bound ns dst then (ns, [NoExists])
           else if (src =? INBOX)%N
           then (* the messages move with the object; a fresh INBOX stays behind *)
             after_op (alloc (with_names ns (aset dst i (ns_names ns))) INBOX
                             (fun j => CreateBox j false)) s
                      (match aget s (ns_look ns) with Some n => (n =? INBOX)%N | None => false end)
           else after_op (with_names ns (aset dst i (adel src (ns_names ns)))) s false
         end
  | NOld _ => (ns, [])
  end.

Definition nstep (ns : nsys) (l : nlabel) : nsys * list nresp :=
  match l with
  | NOld (Cmd s c) => ncmd ns s c
  | NOld (IdleWake s) =>
    if nmem s (ns_closed ns) || nmem s (ns_idead ns) then (ns, [])
    else let '(ns', rs) := inner ns (IdleWake s) in
         (* the updates task looks the selection up again before it waits *)
         if ss_idle (sess_of (ns_sys ns') s) && stale ns' s
         then (with_idead ns' (nadd s (ns_idead ns')), rs) else (ns', rs)
  | NOld (IdleDone s) =>
    if nmem s (ns_closed ns) then (ns, [])
    else if ss_idle (sess_of (ns_sys ns) s) && nmem s (ns_idead ns) then idle_dead_end ns s
    else inner ns (IdleDone s)
  | NOld (Deliver name fl recent content) => inner ns (Deliver (rid ns name) fl recent content)
  | NOld (CreateBox name ro) =>
    if bound ns name then (ns, []) else (alloc ns name (fun i => CreateBox i ro), [])
  | NOld (CreateMaildir name) =>
    if bound ns name then (ns, []) else (alloc ns name CreateMaildir, [])
  | NCreate s _ | NDelete s _ | NRename s _ _ =>
    if nmem s (ns_closed ns) then (ns, [])
    else if ss_idle (sess_of (ns_sys ns) s) then ncmd ns s CNoop   (* a line that is not DONE *)
    else ns_op ns s l
  end.

Fixpoint nrun (ns : nsys) (ls : list nlabel) : nsys * list (list nresp) :=
  match ls with
  | [] => (ns, [])
  | l :: r => let '(ns1, out) := nstep ns l in
              let '(ns2, outs) := nrun ns1 r in (ns2, out :: outs)
  end.
Definition nexec (ns : nsys) (ls : list nlabel) : nsys :=
  fold_left (fun s l => fst (nstep s l)) ls ns.

(* the oracle of the label (which connection _pick_selected gave \Recent to) is possible *)
Definition nlabel_ok (ns : nsys) (l : nlabel) : bool :=
  match l with
  | NOld (Cmd s c) =>
    if nmem s (ns_closed ns) || ss_idle (sess_of (ns_sys ns) s) then true
    else
      let c' := res_cmd (rid ns) c in
      match sel_of (ns_sys ns) s with
      | Some x =>
        if stale ns s
        then match c with
             | CAppend name _ _ =>
               if (rid ns name =? sel_box x)%N then label_ok (ns_sys ns) (Cmd s c')
               else label_ok (drop_sel (ns_sys ns) s) (Cmd s c')
             | _ => true
             end
        else label_ok (ns_sys ns) (Cmd s c')
      | None => label_ok (ns_sys ns) (Cmd s c')
      end
  | NOld (IdleWake s) | NOld (IdleDone s) =>
    nmem s (ns_closed ns) || ss_idle (sess_of (ns_sys ns) s)
  | _ => true
  end.

(* ------------------------------------------------------- shadow clients *)
Definition plain (rs : list nresp) : list resp :=
  flat_map (fun r => match r with R x => [x] | _ => [] end) rs.
Definition has_bye (rs : list nresp) : bool :=
  existsb (fun r => match r with Bye => true | _ => false end) rs.
Definition only_tagged (rs : list resp) : bool := forallb is_tagged rs.

Definition nlabel_actor (l : nlabel) : option N :=
  match l with
  | NOld l => label_actor l
  | NCreate s _ | NDelete s _ | NRename s _ _ => Some s
  end.
Definition nstarts_fresh (ns : nsys) (l : nlabel) : bool :=
  match l with NOld l => starts_fresh (ns_sys ns) l | _ => false end.
Definition nview (ns : nsys) (s : N) : option (list N) := view_of (ns_sys ns) s.

(* one step of the system together with the clients of all connections.  None = a client
   could not follow: a response it cannot apply, or a BYE that is accompanied by message
   data or leaves the server with a selection for the connection *)
Definition nshadow_step (st : nsys * (N -> option (list N))) (l : nlabel)
  : option (nsys * (N -> option (list N))) :=
  let '(ns, cls) := st in
  let '(ns', rs) := nstep ns l in
  match nlabel_actor l with
  | None => Some (ns', cls)
  | Some s =>
    if has_bye rs
    then if only_tagged (plain rs) && negb (is_some (nview ns' s)) && nmem s (ns_closed ns')
         then Some (ns', cl_update s None cls) else None
    else
      match nview ns' s with
      | None => Some (ns', cl_update s None cls)
      | Some v' =>
        match (if nstarts_fresh ns l then Some [] else cls s) with
        | None => None
        | Some cl =>
          match client_run cl (plain rs) (ndiff v' cl) with
          | Some cl' => Some (ns', cl_update s (Some cl') cls)
          | None => None
          end
        end
      end
  end.
Fixpoint nshadow_exec (st : nsys * (N -> option (list N))) (ls : list nlabel)
  : option (nsys * (N -> option (list N))) :=
  match ls with
  | [] => Some st
  | l :: r => match nshadow_step st l with Some st' => nshadow_exec st' r | None => None end
  end.

(* the mailbox object a connection is attached to *)
Definition attached (ns : nsys) (s : N) : option N := option_map sel_box (sel_of (ns_sys ns) s).
(* a SELECT/EXAMINE that is really executed *)
Definition is_select_of (ns : nsys) (s : N) (l : nlabel) : bool :=
  match l with
  | NOld (Cmd s' (CSelect _ _)) => (s' =? s)%N
  | _ => false
  end.
