(* Store/Flags.v — model of pymap/flags.py (FlagOp, PermanentFlags, SessionFlags)
   for the store model.  Definitions only.

   A flag is a number; a flag set is an ascending duplicate-free [list N]
   (canonical: two equal sets are equal lists), built with [fs_of].
     1 \Answered  2 \Deleted  3 \Draft  4 \Flagged  5 \Seen  6 \Recent
     >= 10 keywords (the harness numbers the keywords it uses).
   API
     fs_of l                      frozenset(l) in canonical form
     fs_mem / fs_union / fs_diff / fs_inter / fs_eqb
     flagop = FReplace | FAdd | FDelete ; flagop_apply op cur operand  (FlagOp.apply)
     perm_defined                 MailboxDataInterface.permanent_flags (system flags minus \Recent)
     perm_intersect other         PermanentFlags.intersect (no wildcard is defined by the
                                  dict and maildir backends)
     with_recent is_recent f      BaseMessage.get_flags: permanent | ({\Recent} if recent)
   Session flags: both backends define session_flags = {\Recent}; SessionFlags
   removes \Recent from `defined`, so SessionFlags._flags stays empty for ever and
   only the recent set is modelled (Store/Compare.v, field sel_recent). *)
From PV Require Import Base.Prelude Store.Base.

Definition flag := N.
Definition flags := list N.

Definition F_ANSWERED : N := 1.
Definition F_DELETED : N := 2.
Definition F_DRAFT : N := 3.
Definition F_FLAGGED : N := 4.
Definition F_SEEN : N := 5.
Definition F_RECENT : N := 6.

Definition fs_of (l : list N) : flags := nsort l.
Definition fs_mem (f : N) (s : flags) : bool := nmem f s.
Definition fs_union (a b : flags) : flags := nsort (a ++ b).
Definition fs_diff (a b : flags) : flags := nsort (ndiff a b).
Definition fs_inter (a b : flags) : flags := nsort (ninter a b).
Definition fs_eqb (a b : flags) : bool := nlist_eqb a b.

Inductive flagop := FReplace | FAdd | FDelete.

Definition flagop_apply (op : flagop) (cur operand : flags) : flags :=
  match op with
  | FAdd => fs_union cur operand
  | FDelete => fs_diff cur operand
  | FReplace => fs_of operand
  end.

Definition perm_defined : flags := [F_ANSWERED; F_DELETED; F_DRAFT; F_FLAGGED; F_SEEN].
Definition perm_intersect (other : flags) : flags := fs_inter perm_defined other.

Definition with_recent (is_recent : bool) (f : flags) : flags :=
  if is_recent then fs_union f [F_RECENT] else f.
