(* Store/Base.v — utilities shared by the Store component (definitions only).

   API
   - association lists keyed by N (Python dict with insertion order):
       aget k l : option V          d.get(k)
       aset k v l                   d[k] = v   (existing key keeps its position, new key appended)
       adel k l                     d.pop(k, None)
       akeys l                      list(d)
   - finite sets of N as duplicate-free lists (Python set/frozenset of int):
       nmem x l : bool, nadd x l, ndel x l, nunion a b, ndiff a b, ninter a b,
       nsort l (ascending, duplicates removed: the canonical form used
       whenever a set is observed), remove_first x l (list.remove)
   - ninsert x l: insertion into an ascending list (bisect + insert)
   - index arithmetic: N_of_len l = N.of_nat (length l).
   Lemmas about these live in Store/BaseProofs.v. *)
From PV Require Import Base.Prelude.

Section Assoc.
  Context {V : Type}.
  Fixpoint aget (k : N) (l : list (N * V)) : option V :=
    match l with
    | [] => None
    | (k', v) :: r => if (k =? k')%N then Some v else aget k r
    end.
  Fixpoint aset (k : N) (v : V) (l : list (N * V)) : list (N * V) :=
    match l with
    | [] => [(k, v)]
    | (k', v') :: r => if (k =? k')%N then (k, v) :: r else (k', v') :: aset k v r
    end.
  Fixpoint adel (k : N) (l : list (N * V)) : list (N * V) :=
    match l with
    | [] => []
    | (k', v') :: r => if (k =? k')%N then r else (k', v') :: adel k r
    end.
  Definition akeys (l : list (N * V)) : list N := map fst l.
End Assoc.

Fixpoint nmem (x : N) (l : list N) : bool :=
  match l with [] => false | y :: r => (x =? y)%N || nmem x r end.
Definition nadd (x : N) (l : list N) : list N := if nmem x l then l else l ++ [x].
Fixpoint ndel (x : N) (l : list N) : list N :=
  match l with [] => [] | y :: r => if (x =? y)%N then ndel x r else y :: ndel x r end.
Definition nunion (a b : list N) : list N := fold_left (fun acc x => nadd x acc) b a.
Definition ndiff (a b : list N) : list N := filter (fun x => negb (nmem x b)) a.
Definition ninter (a b : list N) : list N := filter (fun x => nmem x b) a.
Fixpoint remove_first (x : N) (l : list N) : list N :=
  match l with [] => [] | y :: r => if (x =? y)%N then r else y :: remove_first x r end.

(* ascending insertion; an element already present is not inserted again *)
Fixpoint ninsert (x : N) (l : list N) : list N :=
  match l with
  | [] => [x]
  | y :: r => if (x <? y)%N then x :: l else if (x =? y)%N then l else y :: ninsert x r
  end.
Definition nsort (l : list N) : list N := fold_right ninsert [] l.

Definition N_of_len {A} (l : list A) : N := N.of_nat (length l).

Definition nlist_eqb : list N -> list N -> bool := eqb_list N.eqb.
Definition pair_eqb {A B} (ea : A -> A -> bool) (eb : B -> B -> bool) (x y : A * B) : bool :=
  ea (fst x) (fst y) && eb (snd x) (snd y).
