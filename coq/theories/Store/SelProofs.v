(* Store/SelProofs.v — the synchronisation state of one selected mailbox
   ([SelInv]): what update_selected (Session.sync) establishes, and why it
   survives every operation any session performs on the mailbox ([BoxLe]). *)
From PV Require Import Base.Prelude Store.Base Store.BaseProofs Store.Flags Store.ModSeq
     Store.ModSeqProofs Store.Mailbox Store.MailboxProofs Store.View Store.ViewProofs
     Store.Compare Store.CompareProofs Store.Session.
From Coq Require Import Lia ZifyBool.

Section SelInvDef.
  Variables (b : mbox) (s : selected).
  Let V := v_sorted (sel_view s).
  Let K := v_fkeys (sel_view s).
  Let P := v_pending (sel_view s).

  (* dict backend only (the maildir sync is a full rescan and needs no such bookkeeping):
     mq = the log position consumed; records up to mq have been applied:
     - a message whose last record is an update at q <= mq is in the view with
       exactly its current flags,
     - a message whose last record is an expunge at q <= mq is gone from the
       view or waits in _pending_remove *)
  Record SelInv : Prop := MkSelInv {
    si_sorted : ssorted V;
    si_seqs : seqs_ok (v_seqs (sel_view s)) V;
    si_mq : mb_md b = false ->
        exists mq, sel_modseq s = Some mq /\ (mq <= ms_highest (mb_log b))%N
        /\ (forall u q, log_last (mb_log b) u = Some (q, true) -> (q <= mq)%N ->
               In u V /\ forall m, mb_alive u b = Some m -> aget u K = Some (m_flags m))
        /\ (forall u q, log_last (mb_log b) u = Some (q, false) -> (q <= mq)%N ->
               ~ In u V \/ In u P);
    si_known : forall u, In u V -> known b u;
    si_pending : forall u, In u P -> known b u /\ ~ In u (mb_uids b);
    si_larger : forall u, In u (mb_uids b) -> ~ In u V -> forall v, In v V -> (v < u)%N;
    si_kdom : forall u, aget u K <> None -> In u V;
    si_fkeys : forall u, In u V -> aget u K <> None;
    si_knd : NoDup (akeys K) }.
End SelInvDef.

(* other sessions' (and the own) operations on the mailbox do not disturb it *)
Lemma sel_stable b b' s : BoxInv b -> BoxInv b' -> BoxLe b b' -> SelInv b s -> SelInv b' s.
Proof.
  intros I I' Le S.
  constructor; try apply S.
  - intros Md'. rewrite (le_md _ _ Le) in Md'.
    destruct (si_mq _ _ S Md') as (mq & Hm & Hle & H3 & H4).
    exists mq. split; [exact Hm|]. split; [pose proof (le_high _ _ Le); lia|]. split.
    + intros u q L Hq. destruct (le_last _ _ Le u q true L) as [L0|L0]; [|lia].
      destruct (H3 u q L0 Hq) as [Hin Hf]. split; auto. intros m' A'.
      assert (Au : In u (mb_uids b)) by (apply (bi_alive _ I); eauto).
      apply mb_alive_In in Au. destruct (mb_alive u b) as [m|] eqn:A; [|congruence].
      rewrite (le_flags _ _ Le u m m' A A') by congruence. apply Hf; reflexivity.
    + intros u q L Hq. destruct (le_last _ _ Le u q false L) as [L0|L0]; [|lia].
      apply (H4 u q L0 Hq).
  - intros u Hu. apply (le_known _ _ Le), (si_known _ _ S), Hu.
  - intros u Hu. destruct (si_pending _ _ S u Hu) as [Kn Na]. split.
    + apply (le_known _ _ Le), Kn.
    + intros A'. destruct (le_alive _ _ Le u A') as [A|A]; [auto|].
      apply (bi_range _ I) in Kn. lia.
  - intros u A' Hn v Hv. destruct (le_alive _ _ Le u A') as [A|A].
    + apply (si_larger _ _ S u A Hn v Hv).
    + pose proof (bi_range _ I v (si_known _ _ S v Hv)). lia.
Qed.

(* fields of SelInv only mention the view and the modseq *)
Lemma SelInv_ext b s s' : sel_view s' = sel_view s -> sel_modseq s' = sel_modseq s ->
  SelInv b s -> SelInv b s'.
Proof.
  intros Ev Em S. destruct S as [A B C D E F G H I0].
  constructor; rewrite ?Ev, ?Em; auto.
Qed.

(* ------------------------------------------------------------------ sync *)
Lemma alive_msgs_spec b U u f :
  In (u, f) (flat_map (fun u => match mb_alive u b with Some x => [(u, m_flags x)] | None => [] end) U)
  <-> In u U /\ exists m, mb_alive u b = Some m /\ f = m_flags m.
Proof.
  rewrite in_flat_map. split.
  - intros [x [H1 H2]]. destruct (mb_alive x b) as [m|] eqn:A; [|destruct H2].
    destruct H2 as [H2|[]]. inversion H2; subst. eauto.
  - intros [H1 [m [H2 H3]]]. exists u. rewrite H2. split; auto. left. congruence.
Qed.
Lemma alive_msgs_keys b U : NoDup U ->
  NoDup (map fst (flat_map (fun u => match mb_alive u b with Some x => [(u, m_flags x)] | None => [] end) U)).
Proof.
  induction U as [|x r IH]; cbn [flat_map map]; [constructor|]. intros ND; inversion ND; subst.
  destruct (mb_alive x b); cbn [app map fst]; auto. constructor; auto.
  intros K. apply in_map_iff in K as [[u f] [K1 K2]]. cbn [fst] in K1. subst u.
  apply alive_msgs_spec in K2 as [K2 _]. auto.
Qed.
Lemma alive_msgs_fst b U u :
  In u (map fst (flat_map (fun u => match mb_alive u b with Some x => [(u, m_flags x)] | None => [] end) U))
  <-> In u U /\ mb_alive u b <> None.
Proof.
  rewrite in_map_iff. split.
  - intros [[u' f] [H1 H2]]. cbn [fst] in H1; subst u'. apply alive_msgs_spec in H2 as [H2 [m [H3 _]]].
    split; auto. congruence.
  - intros [H1 H2]. destruct (mb_alive u b) as [m|] eqn:A; [|congruence].
    exists (u, m_flags m). split; auto. apply alive_msgs_spec. eauto.
Qed.

Lemma vu_kdom msgs v u : aget u (v_fkeys (view_update msgs v)) <> None ->
  In u (map fst msgs) \/ aget u (v_fkeys v) <> None.
Proof.
  intros H. destruct (in_dec N.eq_dec u (map fst msgs)) as [Hi|Hn]; auto.
  right. assert (E : v_fkeys (view_update msgs v) = v_fkeys (fst (fold_left view_update1 msgs (v, None)))).
  { unfold view_update. destruct (fold_left view_update1 msgs (v, None)) as [v' [i|]]; reflexivity. }
  rewrite E, fold_update1_fkeys_out in H; auto.
Qed.

Lemma aget_filter_keys_inv {V} (p : N -> bool) (l : list (N * V)) k :
  aget k (filter (fun kv => p (fst kv)) l) <> None -> p k = true /\ aget k l <> None.
Proof.
  induction l as [|[k' v'] r IH]; cbn [filter aget fst]; [tauto|].
  destruct (p k') eqn:E; cbn [aget].
  - destruct (k =? k')%N eqn:E2.
    + apply N.eqb_eq in E2; subst. intros _. split; [auto|congruence].
    + exact IH.
  - intros H. apply IH in H as [H1 H2]. split; auto.
    destruct (k =? k')%N eqn:E2; [congruence|auto].
Qed.

Section Sync.
  Variables (b : mbox) (s : selected).
  Hypothesis IB : BoxInv b.
  Hypothesis S : SelInv b s.
  Hypothesis Md : mb_md b = false.

  Let V := v_sorted (sel_view s).
  Let s' := sync b s.
  Let V' := v_sorted (sel_view s').

  Lemma sync_facts_dict :
    SelInv b s'
    /\ (sel_hide s = true -> incl V V')
    /\ (forall u v, In u V' -> ~ In u V -> In v V -> (v < u)%N)
    /\ (sel_hide s = false -> (forall u, In u V' <-> In u (mb_uids b)) /\ v_pending (sel_view s') = [])
    /\ (forall u m, mb_alive u b = Some m -> In u V' -> aget u (v_fkeys (sel_view s')) = Some (m_flags m))
    /\ (mb_md b = false -> sel_modseq s' = Some (ms_highest (mb_log b)))
    /\ sel_hide s' = sel_hide s /\ sel_box s' = sel_box s /\ sel_readonly s' = sel_readonly s
    /\ sel_prev s' = sel_prev s /\ sel_silenced s' = sel_silenced s
    /\ (forall u, In u (sel_recent s') -> In u (sel_recent s)).
  Proof.
    destruct (si_mq _ _ S Md) as (mq & Hm & Hle & H3 & H4).
    pose proof (bi_log _ IB) as LI.
    unfold V', s' in *. unfold sync. rewrite Md, Hm.
    destruct (ms_find_updated mq (mb_log b)) as [U E] eqn:FU.
    pose proof (find_updated_spec mq (mb_log b)) as Spec.
    assert (SU : forall u, In u U <-> exists q, log_last (mb_log b) u = Some (q, true) /\ (mq <= q)%N).
    { intros u. destruct (Spec u LI) as [A _]. rewrite FU in A. exact A. }
    assert (SE : forall u, In u E <-> exists q, log_last (mb_log b) u = Some (q, false) /\ (mq <= q)%N).
    { intros u. destruct (Spec u LI) as [_ A]. rewrite FU in A. exact A. }
    assert (NDU : NoDup U).
    { pose proof (find_updated_sorted mq (mb_log b)) as [A _]. rewrite FU in A. apply ssorted_NoDup, A. }
    set (msgs := flat_map (fun u => match mb_alive u b with Some x => [(u, m_flags x)] | None => [] end) U).
    assert (Ualive : forall u, In u U -> In u (mb_uids b)).
    { intros u Hu. apply SU in Hu as [q [Hq _]]. apply (bi_alive _ IB). eauto. }
    assert (Mfst : forall u, In u (map fst msgs) <-> In u U).
    { intros u. unfold msgs. rewrite alive_msgs_fst. split; [tauto|]. intros H. split; auto.
      apply mb_alive_In, Ualive, H. }
    assert (Ealive : forall u, In u E -> known b u /\ ~ In u (mb_uids b)).
    { intros u Hu. apply SE in Hu as [q [Hq _]]. split; [unfold known; congruence|].
      intros A. apply (bi_alive _ IB) in A as [q' A]. congruence. }
    unfold add_updates, with_modseq.
    cbn [sel_view sel_hide sel_modseq sel_box sel_readonly sel_prev sel_silenced sel_recent].
    set (v0 := sel_view s).
    set (v1 := view_update msgs v0).
    assert (S1 : ssorted (v_sorted v1)) by (apply vu_ssorted; apply S).
    assert (Q1 : seqs_ok (v_seqs v1) (v_sorted v1)) by (apply vu_seqs_ok; apply S).
    assert (In1 : forall u, In u (v_sorted v1) <-> In u V \/ In u U).
    { intros u. unfold v1. rewrite vu_In by apply S. rewrite Mfst. reflexivity. }
    assert (P1 : v_pending v1 = v_pending v0) by (apply vu_pending).
    assert (K1in : forall u m, In u U -> mb_alive u b = Some m -> aget u (v_fkeys v1) = Some (m_flags m)).
    { intros u m Hu A. apply vu_fkeys_in; [apply alive_msgs_keys, NDU|].
      apply alive_msgs_spec. eauto. }
    assert (K1out : forall u, ~ In u U -> aget u (v_fkeys v1) = aget u (v_fkeys v0)).
    { intros u Hn. apply vu_fkeys_out. rewrite Mfst. exact Hn. }
    assert (K1dom : forall u, aget u (v_fkeys v1) <> None -> In u (v_sorted v1)).
    { intros u H. apply In1. apply vu_kdom in H as [H|H]; [right; apply Mfst, H|left; apply (si_kdom _ _ S), H]. }
    (* every existing message is in v1 with its current flags *)
    assert (Fresh : forall u m, mb_alive u b = Some m ->
                                In u (v_sorted v1) /\ aget u (v_fkeys v1) = Some (m_flags m)).
    { intros u m A. assert (Au : In u (mb_uids b)) by (apply mb_alive_In; congruence).
      apply (bi_alive _ IB) in Au as [q Lq].
      destruct (N.le_gt_cases mq q) as [C|C].
      - assert (Hu : In u U) by (apply SU; eauto). split; [apply In1; auto|apply K1in; auto].
      - destruct (H3 u q Lq ltac:(lia)) as [Hin Hf]. split; [apply In1; auto|].
        rewrite K1out; [apply Hf, A|]. intros Hu. apply SU in Hu as [q' [Lq' C']].
        rewrite Lq in Lq'. inversion Lq'; subst. lia. }
    destruct (sel_hide s) eqn:Hh.
    - (* EXPUNGE forbidden: removals are queued *)
      destruct (vrp_same E v1) as (Es & Eq & Ek).
      split; [|split; [|split; [|split; [discriminate|split; [|repeat split; auto]]]]].
      + constructor; cbn [sel_view sel_modseq]; rewrite ?Es, ?Eq, ?Ek; auto.
        * intros _. exists (ms_highest (mb_log b)). split; [reflexivity|]. split; [lia|]. split.
          -- intros u q L _. assert (Au : In u (mb_uids b)) by (apply (bi_alive _ IB); eauto).
             apply mb_alive_In in Au. destruct (mb_alive u b) as [m|] eqn:A; [|congruence].
             destruct (Fresh u m A) as [F1 F2]. split; auto. intros m' A'. congruence.
          -- intros u q L _. destruct (N.le_gt_cases mq q) as [C|C].
             ++ right. apply vrp_pending. right. apply SE. eauto.
             ++ destruct (H4 u q L ltac:(lia)) as [Hn|Hp].
                ** destruct (in_dec N.eq_dec u U) as [Hu|Hu].
                   --- apply SU in Hu as [q' [Lq' _]]. congruence.
                   --- left. rewrite In1. tauto.
                ** right. apply vrp_pending. left. rewrite P1. exact Hp.
        * intros u Hu. apply In1 in Hu as [Hu|Hu]; [apply (si_known _ _ S), Hu|].
          apply alive_known; auto.
        * intros u Hu. apply vrp_pending in Hu as [Hu|Hu]; [rewrite P1 in Hu; apply (si_pending _ _ S), Hu|].
          apply Ealive, Hu.
        * intros u A Hn. exfalso. apply Hn. apply mb_alive_In in A.
          destruct (mb_alive u b) as [m|] eqn:Am; [|congruence]. apply (Fresh u m Am).
        * intros u Hu. destruct (in_dec N.eq_dec u U) as [HU|HU].
          -- pose proof (Ualive u HU) as Au. apply mb_alive_In in Au.
             destruct (mb_alive u b) as [m|] eqn:Am; [|congruence]. rewrite (K1in u m HU Am). discriminate.
          -- rewrite (K1out u HU). apply (si_fkeys _ _ S). apply In1 in Hu. tauto.
        * apply vu_knd, (si_knd _ _ S).
      + intros _ u Hu. rewrite Es. apply In1. left; exact Hu.
      + rewrite Es. intros u v Hu Hn Hv. apply In1 in Hu as [Hu|Hu]; [tauto|].
        apply (si_larger _ _ S u (Ualive u Hu) Hn v Hv).
      + rewrite Es, Ek. intros u m A _. apply (Fresh u m A).
    - (* removals applied, _pending_remove flushed *)
      set (v2 := view_remove E false v1).
      assert (In2 : forall u, In u (v_sorted v2) <-> In u (v_sorted v1) /\ ~ In u E /\ ~ In u (v_pending v1)).
      { intros u. apply vr_In. }
      assert (Conv : forall u, In u (v_sorted v2) <-> In u (mb_uids b)).
      { intros u. rewrite In2. split.
        - intros (H1 & H2 & H3'). apply In1 in H1 as [H1|H1]; [|apply Ualive, H1].
          destruct (known_cases b u IB (si_known _ _ S u H1)) as [A|D]; auto. exfalso.
          apply (bi_dead _ IB) in D as [q Lq]. destruct (N.le_gt_cases mq q) as [C|C].
          + apply H2, SE. eauto.
          + destruct (H4 u q Lq ltac:(lia)) as [Hn|Hp]; [auto|]. apply H3'. rewrite P1. exact Hp.
        - intros A. apply mb_alive_In in A. destruct (mb_alive u b) as [m|] eqn:Am; [|congruence].
          destruct (Fresh u m Am) as [F1 _]. split; auto.
          assert (Au : In u (mb_uids b)) by (apply mb_alive_In; congruence). split.
          + intros Hu. apply Ealive in Hu as [_ Hu]. auto.
          + rewrite P1. intros Hu. apply (si_pending _ _ S) in Hu as [_ Hu]. auto. }
      assert (K2 : forall u, In u (mb_uids b) -> aget u (v_fkeys v2) = aget u (v_fkeys v1)).
      { intros u A. apply vr_fkeys.
        - intros Hu. apply Ealive in Hu as [_ Hu]. auto.
        - rewrite P1. intros Hu. apply (si_pending _ _ S) in Hu as [_ Hu]. auto. }
      split; [|split; [discriminate|split; [|split; [|split; [|repeat split; auto]]]]].
      + constructor; cbn [sel_view sel_modseq]; fold v2.
        * apply vr_ssorted, S1.
        * apply vr_seqs_ok; auto.
        * intros _. exists (ms_highest (mb_log b)). split; [reflexivity|]. split; [lia|]. split.
          -- intros u q L _. assert (Au : In u (mb_uids b)) by (apply (bi_alive _ IB); eauto).
             split; [apply Conv, Au|]. intros m A. rewrite (K2 u Au). apply (Fresh u m A).
          -- intros u q L _. left. rewrite Conv. intros A. apply (bi_alive _ IB) in A as [q' A]. congruence.
        * intros u Hu. apply alive_known; auto. apply Conv, Hu.
        * intros u Hu. unfold v2 in Hu. rewrite vr_pending in Hu. destruct Hu.
        * intros u A Hn. exfalso. apply Hn, Conv, A.
        * intros u H. unfold v2, view_remove in H.
          destruct (existsb (fun u0 => nmem u0 (v_sorted v1)) (E ++ v_pending v1)) eqn:Ex;
            cbn [v_fkeys] in H.
          -- apply (aget_filter_keys_inv (fun k => negb (nmem k (E ++ v_pending v1)))) in H as [H1 H2].
             apply In2. apply negb_true_iff, nmem_false in H1. rewrite in_app_iff in H1.
             split; [apply K1dom, H2|tauto].
          -- apply K1dom in H. apply In2. split; auto.
             assert (Hn : ~ In u (E ++ v_pending v1)).
             { intros Hg. assert (existsb (fun u0 => nmem u0 (v_sorted v1)) (E ++ v_pending v1) = true); [|congruence].
               apply existsb_exists. exists u. split; auto. apply nmem_In, H. }
             rewrite in_app_iff in Hn. tauto.
        * intros u Hu. apply Conv in Hu. pose proof Hu as Au. apply mb_alive_In in Au.
          destruct (mb_alive u b) as [m|] eqn:Am; [|congruence].
          rewrite (K2 u Hu), (proj2 (Fresh u m Am)). discriminate.
        * apply vr_knd, vu_knd, (si_knd _ _ S).
      + intros u v Hu Hn Hv. fold v2 in Hu. apply Conv in Hu. apply (si_larger _ _ S u Hu Hn v Hv).
      + intros _. fold v2. split; [exact Conv|apply vr_pending].
      + fold v2. intros u m A Hu. assert (Au : In u (mb_uids b)) by (apply Conv, Hu).
        rewrite (K2 u Au). apply (Fresh u m A).
      + intros u Hu. apply ndiff_In in Hu. tauto.
  Qed.
End Sync.

(* maildir: update_selected rescans and calls set_messages *)
Section SyncMd.
  Variables (b : mbox) (s : selected).
  Hypothesis IB : BoxInv b.
  Hypothesis S : SelInv b s.
  Hypothesis Md : mb_md b = true.

  Let V := v_sorted (sel_view s).
  Let s' := sync b s.
  Let V' := v_sorted (sel_view s').

  Lemma sync_facts_md :
    SelInv b s'
    /\ (sel_hide s = true -> incl V V')
    /\ (forall u v, In u V' -> ~ In u V -> In v V -> (v < u)%N)
    /\ (sel_hide s = false -> (forall u, In u V' <-> In u (mb_uids b)) /\ v_pending (sel_view s') = [])
    /\ (forall u m, mb_alive u b = Some m -> In u V' -> aget u (v_fkeys (sel_view s')) = Some (m_flags m))
    /\ (mb_md b = false -> sel_modseq s' = Some (ms_highest (mb_log b)))
    /\ sel_hide s' = sel_hide s /\ sel_box s' = sel_box s /\ sel_readonly s' = sel_readonly s
    /\ sel_prev s' = sel_prev s /\ sel_silenced s' = sel_silenced s
    /\ (forall u, In u (sel_recent s') -> In u (sel_recent s)).
  Proof.
    unfold V', s' in *. unfold sync. rewrite Md.
    set (msgs := map (fun m => (m_uid m, m_flags m)) (mb_msgs b)).
    set (E := ndiff (v_sorted (sel_view s)) (mb_uids b)).
    assert (Mfst : map fst msgs = mb_uids b).
    { unfold msgs, mb_uids. rewrite map_map. reflexivity. }
    assert (SE : forall u, In u E <-> In u V /\ ~ In u (mb_uids b)).
    { intros u. unfold E. apply ndiff_In. }
    unfold add_updates.
    cbn [sel_view sel_hide sel_modseq sel_box sel_readonly sel_prev sel_silenced sel_recent].
    set (v0 := sel_view s).
    set (v1 := view_update msgs v0).
    assert (S1 : ssorted (v_sorted v1)) by (apply vu_ssorted; apply S).
    assert (Q1 : seqs_ok (v_seqs v1) (v_sorted v1)) by (apply vu_seqs_ok; apply S).
    assert (In1 : forall u, In u (v_sorted v1) <-> In u V \/ In u (mb_uids b)).
    { intros u. unfold v1. rewrite vu_In by apply S. rewrite Mfst. reflexivity. }
    assert (P1 : v_pending v1 = v_pending v0) by (apply vu_pending).
    assert (Fresh : forall u m, mb_alive u b = Some m ->
                                In u (v_sorted v1) /\ aget u (v_fkeys v1) = Some (m_flags m)).
    { intros u m A. assert (Au : In u (mb_uids b)) by (apply mb_alive_In; congruence).
      split; [apply In1; auto|]. apply vu_fkeys_in.
      - rewrite Mfst. apply ssorted_NoDup, (bi_sorted _ IB).
      - unfold msgs. apply find_msg_Some in A as [A1 A2]. apply in_map_iff. exists m. split; auto.
        rewrite A1. reflexivity. }
    assert (K1dom : forall u, aget u (v_fkeys v1) <> None -> In u (v_sorted v1)).
    { intros u H. apply In1. apply vu_kdom in H as [H|H]; [right; rewrite <- Mfst; exact H|left; apply (si_kdom _ _ S), H]. }
    assert (K1all : forall u, In u (v_sorted v1) -> aget u (v_fkeys v1) <> None).
    { intros u Hu. destruct (in_dec N.eq_dec u (mb_uids b)) as [A|A].
      - apply mb_alive_In in A. destruct (mb_alive u b) as [m|] eqn:Am; [|congruence].
        rewrite (proj2 (Fresh u m Am)). discriminate.
      - unfold v1. rewrite vu_fkeys_out by (rewrite Mfst; exact A).
        apply (si_fkeys _ _ S). apply In1 in Hu. tauto. }
    assert (Mq : mb_md b = false -> False) by (rewrite Md; discriminate).
    destruct (sel_hide s) eqn:Hh.
    - destruct (vrp_same E v1) as (Es & Eq & Ek).
      split; [|split; [|split; [|split; [discriminate|split; [|split; [intros K; first [discriminate K | destruct (Mq K)]|repeat split; auto]]]]]].
      + constructor; cbn [sel_view sel_modseq]; rewrite ?Es, ?Eq, ?Ek; auto.
        * intros K; first [discriminate K | destruct (Mq K)].
        * intros u Hu. apply In1 in Hu as [Hu|Hu]; [apply (si_known _ _ S), Hu|apply alive_known; auto].
        * intros u Hu. apply vrp_pending in Hu as [Hu|Hu]; [rewrite P1 in Hu; apply (si_pending _ _ S), Hu|].
          apply SE in Hu as [Hv Hn]. split; [apply (si_known _ _ S), Hv|exact Hn].
        * intros u A Hn. exfalso. apply Hn, In1. auto.
        * apply vu_knd, (si_knd _ _ S).
      + intros _ u Hu. rewrite Es. apply In1. left; exact Hu.
      + rewrite Es. intros u v Hu Hn Hv. apply In1 in Hu as [Hu|Hu]; [tauto|].
        apply (si_larger _ _ S u Hu Hn v Hv).
      + rewrite Es, Ek. intros u m A _. apply (Fresh u m A).
    - set (v2 := view_remove E false v1).
      assert (In2 : forall u, In u (v_sorted v2) <-> In u (v_sorted v1) /\ ~ In u E /\ ~ In u (v_pending v1)).
      { intros u. apply vr_In. }
      assert (Conv : forall u, In u (v_sorted v2) <-> In u (mb_uids b)).
      { intros u. rewrite In2. split.
        - intros (H1 & H2 & H3). apply In1 in H1 as [H1|H1]; auto.
          destruct (in_dec N.eq_dec u (mb_uids b)) as [A|A]; auto. exfalso. apply H2, SE. auto.
        - intros A. split; [apply In1; auto|]. split.
          + intros Hu. apply SE in Hu. tauto.
          + rewrite P1. intros Hu. apply (si_pending _ _ S) in Hu as [_ Hu]. auto. }
      assert (K2 : forall u, In u (mb_uids b) -> aget u (v_fkeys v2) = aget u (v_fkeys v1)).
      { intros u A. apply vr_fkeys.
        - intros Hu. apply SE in Hu. tauto.
        - rewrite P1. intros Hu. apply (si_pending _ _ S) in Hu as [_ Hu]. auto. }
      split; [|split; [discriminate|split; [|split; [|split; [|split; [intros K; first [discriminate K | destruct (Mq K)]|repeat split; auto]]]]]].
      + constructor; cbn [sel_view sel_modseq]; fold v2.
        * apply vr_ssorted, S1.
        * apply vr_seqs_ok; auto.
        * intros K; first [discriminate K | destruct (Mq K)].
        * intros u Hu. apply alive_known; auto. apply Conv, Hu.
        * intros u Hu. unfold v2 in Hu. rewrite vr_pending in Hu. destruct Hu.
        * intros u A Hn. exfalso. apply Hn, Conv, A.
        * intros u H. unfold v2, view_remove in H.
          destruct (existsb (fun u0 => nmem u0 (v_sorted v1)) (E ++ v_pending v1)) eqn:Ex;
            cbn [v_fkeys] in H.
          -- apply (aget_filter_keys_inv (fun k => negb (nmem k (E ++ v_pending v1)))) in H as [H1 H2].
             apply In2. apply negb_true_iff, nmem_false in H1. rewrite in_app_iff in H1.
             split; [apply K1dom, H2|tauto].
          -- apply K1dom in H. apply In2. split; auto.
             assert (Hn : ~ In u (E ++ v_pending v1)).
             { intros Hg. assert (existsb (fun u0 => nmem u0 (v_sorted v1)) (E ++ v_pending v1) = true); [|congruence].
               apply existsb_exists. exists u. split; auto. apply nmem_In, H. }
             rewrite in_app_iff in Hn. tauto.
        * intros u Hu. apply Conv in Hu. pose proof Hu as Au. apply mb_alive_In in Au.
          destruct (mb_alive u b) as [m|] eqn:Am; [|congruence].
          rewrite (K2 u Hu), (proj2 (Fresh u m Am)). discriminate.
        * apply vr_knd, vu_knd, (si_knd _ _ S).
      + intros u v Hu Hn Hv. fold v2 in Hu. apply Conv in Hu. apply (si_larger _ _ S u Hu Hn v Hv).
      + intros _. fold v2. split; [exact Conv|apply vr_pending].
      + fold v2. intros u m A Hu. assert (Au : In u (mb_uids b)) by (apply Conv, Hu).
        rewrite (K2 u Au). apply (Fresh u m A).
      + intros u Hu. apply ndiff_In in Hu. tauto.
  Qed.
End SyncMd.

Lemma sync_facts b s : BoxInv b -> SelInv b s ->
  let s' := sync b s in
  let V := v_sorted (sel_view s) in
  let V' := v_sorted (sel_view s') in
  SelInv b s'
  /\ (sel_hide s = true -> incl V V')
  /\ (forall u v, In u V' -> ~ In u V -> In v V -> (v < u)%N)
  /\ (sel_hide s = false -> (forall u, In u V' <-> In u (mb_uids b)) /\ v_pending (sel_view s') = [])
  /\ (forall u m, mb_alive u b = Some m -> In u V' -> aget u (v_fkeys (sel_view s')) = Some (m_flags m))
  /\ (mb_md b = false -> sel_modseq s' = Some (ms_highest (mb_log b)))
  /\ sel_hide s' = sel_hide s /\ sel_box s' = sel_box s /\ sel_readonly s' = sel_readonly s
  /\ sel_prev s' = sel_prev s /\ sel_silenced s' = sel_silenced s
  /\ (forall u, In u (sel_recent s') -> In u (sel_recent s)).
Proof.
  intros IB S. pose proof (sync_facts_md b s IB S) as A. pose proof (sync_facts_dict b s IB S) as B.
  cbn zeta. destruct (mb_md b); [apply A|apply B]; reflexivity.
Qed.

(* the first update_selected of a fresh SelectedMailbox loads everything *)
Lemma sync_first b s : BoxInv b ->
  sel_modseq s = None -> sel_view s = view_empty -> sel_hide s = false ->
  let s' := sync b s in
  SelInv b s' /\ v_sorted (sel_view s') = mb_uids b
  /\ sel_hide s' = false /\ sel_box s' = sel_box s /\ sel_readonly s' = sel_readonly s
  /\ sel_prev s' = sel_prev s /\ sel_silenced s' = sel_silenced s /\ sel_recent s' = sel_recent s.
Proof.
  intros IB Hm Hv Hh. cbn zeta. unfold sync. rewrite Hm, Hv.
  assert (E0 : ndiff (v_sorted view_empty) (mb_uids b) = []) by reflexivity. rewrite E0.
  assert (Same : forall s0, sel_view s0 = view_empty -> sel_hide s0 = false ->
            (mb_md b = false -> sel_modseq s0 = Some (ms_highest (mb_log b))) ->
            sel_box s0 = sel_box s -> sel_readonly s0 = sel_readonly s -> sel_prev s0 = sel_prev s ->
            sel_silenced s0 = sel_silenced s -> sel_recent s0 = sel_recent s ->
            let s' := add_updates (map (fun m => (m_uid m, m_flags m)) (mb_msgs b)) [] s0 in
            SelInv b s' /\ v_sorted (sel_view s') = mb_uids b
            /\ sel_hide s' = false /\ sel_box s' = sel_box s /\ sel_readonly s' = sel_readonly s
            /\ sel_prev s' = sel_prev s /\ sel_silenced s' = sel_silenced s /\ sel_recent s' = sel_recent s);
    [|destruct (mb_md b) eqn:Md; [apply Same; auto; discriminate|apply Same; auto]].
  clear Hm Hv Hh. intros s0 Hv Hh Hmq Hb Hr Hp Hsi Hrc. cbn zeta. unfold add_updates.
  cbn [sel_view sel_hide sel_modseq sel_box sel_readonly sel_prev sel_silenced sel_recent].
  rewrite Hv, Hh.
  set (msgs := map (fun m => (m_uid m, m_flags m)) (mb_msgs b)).
  assert (Mfst : map fst msgs = mb_uids b).
  { unfold msgs, mb_uids. rewrite map_map. reflexivity. }
  assert (Se : ssorted (v_sorted view_empty)) by exact I.
  assert (Qe : seqs_ok (v_seqs view_empty) (v_sorted view_empty)).
  { intros i u H. destruct i; discriminate. }
  set (v1 := view_update msgs view_empty).
  assert (S1 : ssorted (v_sorted v1)) by (apply vu_ssorted; auto).
  assert (Q1 : seqs_ok (v_seqs v1) (v_sorted v1)) by (apply vu_seqs_ok; auto).
  assert (In1 : forall u, In u (v_sorted v1) <-> In u (mb_uids b)).
  { intros u. unfold v1. rewrite vu_In by auto. rewrite Mfst. cbn. tauto. }
  assert (P1 : v_pending v1 = []) by (unfold v1; rewrite vu_pending; reflexivity).
  assert (V2 : view_remove [] false v1 = MkView (v_sorted v1) (v_seqs v1) (v_fkeys v1) []).
  { unfold view_remove. rewrite P1. cbn [app existsb]. reflexivity. }
  rewrite V2. cbn [app].
  assert (Eq1 : v_sorted v1 = mb_uids b).
  { apply ssorted_ext; auto. apply (bi_sorted _ IB). }
  assert (Kin : forall u m, mb_alive u b = Some m -> aget u (v_fkeys v1) = Some (m_flags m)).
  { intros u m A. apply vu_fkeys_in.
    - rewrite Mfst. apply ssorted_NoDup, (bi_sorted _ IB).
    - unfold msgs. apply find_msg_Some in A as [A1 A2]. apply in_map_iff. exists m. split; auto.
      rewrite A1. reflexivity. }
  split; [|repeat split; auto].
  - constructor; cbn [sel_view sel_modseq v_sorted v_seqs v_fkeys v_pending]; auto.
    + intros Md. exists (ms_highest (mb_log b)). split; [apply Hmq, Md|]. split; [lia|]. split.
      * intros u q L _. split; [apply In1, (bi_alive _ IB); eauto|apply Kin].
      * intros u q L _. left. rewrite In1. intros A. apply (bi_alive _ IB) in A as [q' A]. congruence.
    + intros u Hu. apply alive_known; auto. apply In1, Hu.
    + intros u [].
    + intros u A Hn. exfalso. apply Hn, In1, A.
    + intros u H. apply vu_kdom in H as [H|H]; [apply In1; rewrite <- Mfst; exact H|].
      exfalso. apply H. reflexivity.
    + intros u Hu. apply In1 in Hu. apply mb_alive_In in Hu.
      destruct (mb_alive u b) as [m|] eqn:Am; [|congruence]. rewrite (Kin u m Am). discriminate.
    + apply vu_knd. constructor.
  - rewrite Hrc. unfold ndiff. apply filter_all. intros; reflexivity.
Qed.
