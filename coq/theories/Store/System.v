(* Store/System.v — any number of connections over one set of mailboxes (dict backend:
   CreateBox, maildir backend: CreateMaildir).
   Definitions only.

   sys     = { sy_boxes : boxes; sy_sess : session id -> session }
   session = { ss_sel : option selected (ConnectionState._selected);
               ss_idle : bool (between `+ Idling.` and DONE) }
             a session id that is not in sy_sess is a logged-in connection with
             nothing selected.
   cmd     = the commands of Store/Session.v plus CIdle
   label   = Cmd s c          connection s executes command c (one atomic step: in the
                              dict backend under asyncio a command body runs without
                              suspending; CHECK suspends once before it touches anything)
           | IdleWake s       the idling connection s is woken (update_selected + fork + write)
           | IdleDone s       DONE: last wake-up, then the tagged OK
           | Deliver box fl recent content   a message stored without any connection
                              (MailboxData.append as used by the demo loader / delivery)
           | CreateBox box readonly          MailboxSet.add_mailbox (+ the loader's _readonly)
           | CreateMaildir box               a mailbox of the maildir backend (uids from 1)
   API
     sys_empty
     step : sys -> label -> sys * list resp     responses written to connection s
     run  : sys -> list label -> sys * list (list resp)
     label_ok : sys -> label -> bool            the oracle in the label (pick) is one the code
                                                can produce in this state
     sess_of sy s, sel_of sy s, view_of sy s    accessors
   do_command: gate (selected-state commands without a selection -> BAD), body, then
   fork and CommandResponse.add_untagged (FETCH responses with an equal sequence
   number are merged) — [add_untagged].
   Shadow client (the reader of connection s, RFC 3501 7.4.1/7.3.1):
     client_step  cl r      apply one response to the client's list of messages
     client_run   cl rs news  apply a response list; [news] supplies the identities
                            (uids) of messages announced by EXISTS; None = the
                            client cannot follow (EXPUNGE out of range, EXISTS
                            shrinking, a label that names another message)
   What the clients believe about flags:
     cflags                 uid -> flags: the last FETCH read for the message, or the client's
                            own arithmetic after a successful STORE.SILENT (cf_silent)
     cf_label cl cf l rs    the belief of the acting connection after label l answered rs
     cfs_next, cfs_step, cfs_exec, cfs_start   all connections along a label sequence
     fl_equiv               equal as sets, \Recent aside *)
From PV Require Import Base.Prelude Store.Base Store.Flags Store.ModSeq Store.Mailbox
     Store.View Store.Compare Store.Session Wire.SeqSet.

Record session := MkSess { ss_sel : option selected; ss_idle : bool }.
Definition sess_new : session := MkSess None false.

Record sys := MkSys { sy_boxes : boxes; sy_sess : list (N * session) }.
Definition sys_empty : sys := MkSys [] [].

Definition sess_of (sy : sys) (s : N) : session :=
  match aget s (sy_sess sy) with Some x => x | None => sess_new end.
Definition sel_of (sy : sys) (s : N) : option selected := ss_sel (sess_of sy s).
Definition view_of (sy : sys) (s : N) : option (list N) :=
  option_map (fun x => v_sorted (sel_view x)) (sel_of sy s).

Inductive cmd :=
| CSelect (box : N) (readonly : bool)
| CAppend (box : N) (msgs : list (flags * N)) (pick : option N)
| CStore (sset : seqset) (by_uid : bool) (op : flagop) (fl : flags) (silent : bool)
| CExpunge (uid_set : option seqset)
| CCopy (sset : seqset) (by_uid : bool) (box : N) (pick : option N)
| CMove (sset : seqset) (by_uid : bool) (box : N) (pick : option N)
| CFetch (sset : seqset) (by_uid want_uid set_seen : bool)
| CSearch (by_uid : bool) (sskey : option (seqset * bool)) (fkeys : list (N * bool))
| CNoop
| CCheck
| CTouch
| CClose
| CIdle.

Inductive label :=
| Cmd (s : N) (c : cmd)
| IdleWake (s : N)
| IdleDone (s : N)
| Deliver (box : N) (fl : flags) (recent : bool) (content : N)
| CreateBox (box : N) (readonly : bool)
| CreateMaildir (box : N).

(* CommandResponse.add_untagged: FETCH responses merge by sequence number
   (dict union, the later response wins per attribute) *)
Fixpoint merge_fetch (r : resp) (l : list resp) : option (list resp) :=
  match r, l with
  | Fetch seq uid fl show, Fetch seq' uid' fl' show' :: rest =>
    if (seq =? seq')%N
    then Some (Fetch seq (if show then uid else uid') fl (show || show') :: rest)
    else option_map (cons (Fetch seq' uid' fl' show')) (merge_fetch r rest)
  | _, x :: rest => option_map (cons x) (merge_fetch r rest)
  | _, [] => None
  end.
Definition add_untagged1 (l : list resp) (r : resp) : list resp :=
  match r with
  | Fetch _ _ _ _ => match merge_fetch r l with Some l' => l' | None => l ++ [r] end
  | _ => l ++ [r]
  end.
Definition add_untagged (l rs : list resp) : list resp := fold_left add_untagged1 rs l.

Definition is_expunge (r : resp) : bool := match r with Expunge _ => true | _ => false end.

Definition needs_selected (c : cmd) : bool :=
  match c with
  | CSelect _ _ | CAppend _ _ _ | CNoop | CTouch => false
  | _ => true
  end.

Definition body (me : N) (bs : boxes) (sel : option selected) (c : cmd) : outcome :=
  match c, sel with
  | CSelect name ro, _ => do_select bs name ro
  | CAppend name msgs pick, _ => do_append me bs sel name msgs pick
  | CNoop, _ => do_noop bs sel
  | CTouch, _ => do_touch bs sel
  | CStore sset u op fl silent, Some s => do_store bs s sset u op fl silent
  | CExpunge us, Some s => do_expunge bs s us
  | CCopy sset u name pick, Some s => do_copy me bs s sset u name pick
  | CMove sset u name pick, Some s => do_move me bs s sset u name pick
  | CFetch sset u w seen, Some s => do_fetch bs s sset u w seen
  | CSearch u k f, Some s => do_search bs s u k f
  | CCheck, Some s => do_check bs s
  | CClose, Some s => do_close bs s
  | CIdle, Some s => MkOut bs sel false [] Cont false []
  | _, None => refuse bs None BAD CNone
  end.

(* SessionFlags.add_recent on the connection _pick_selected chose *)
Definition apply_grant (ss : list (N * session)) (g : N * N) : list (N * session) :=
  match aget (fst g) ss with
  | Some (MkSess (Some s) idle) =>
    aset (fst g) (MkSess (Some (with_recent_set s (nadd (snd g) (sel_recent s)))) idle) ss
  | _ => ss
  end.

(* fork the selected mailbox of a finished command against its box *)
Definition fork_in (bs : boxes) (s : selected) (with_uid : bool) : selected * list resp :=
  match aget (sel_box s) bs with
  | Some b => fork (cached_of b (sel_view s)) with_uid s
  | None => (s, [Bug])
  end.

Definition do_command (sy : sys) (me : N) (c : cmd) : sys * list resp :=
  let se := sess_of sy me in
  let o := body me (sy_boxes sy) (ss_sel se) c in
  let '(sel', untagged) :=
      match o_sel o, o_fork o with
      | Some s, true => let '(s', u) := fork_in (o_boxes o) s (o_with_uid o) in (Some s', u)
      | x, _ => (x, [])
      end in
  let idle' := match c, o_tagged o with CIdle, Cont => true | _, _ => false end in
  let ss1 := aset me (MkSess sel' idle') (sy_sess sy) in
  (* FETCH updates that follow EXPUNGE responses are not mergeable (fix a63f6b3) *)
  let all_untagged := if existsb is_expunge untagged then o_untagged o ++ untagged
                      else add_untagged (o_untagged o) untagged in
  (MkSys (o_boxes o) (fold_left apply_grant (o_grants o) ss1), all_untagged ++ [o_tagged o]).

(* receive_updates: check_mailbox (update_selected) + fork, untagged only *)
Definition idle_wake (sy : sys) (me : N) : sys * list resp :=
  match sess_of sy me with
  | MkSess (Some s) true =>
    match aget (sel_box s) (sy_boxes sy) with
    | None => (sy, [Bug])
    | Some b =>
      let '(s', u) := fork (cached_of b (sel_view (sync b s))) false (sync b s) in
      (MkSys (sy_boxes sy) (aset me (MkSess (Some s') true) (sy_sess sy)), u)
    end
  | _ => (sy, [])
  end.

Definition step (sy : sys) (l : label) : sys * list resp :=
  match l with
  | Cmd s c =>
    if ss_idle (sess_of sy s)
    then (* a line other than DONE while idling: last wake-up, BAD, idling ends *)
      let '(sy', u) := idle_wake sy s in
      (MkSys (sy_boxes sy') (aset s (MkSess (sel_of sy' s) false) (sy_sess sy')),
       u ++ [Tagged BAD CNone])
    else do_command sy s c
  | IdleWake s => idle_wake sy s
  | IdleDone s =>
    if ss_idle (sess_of sy s)
    then let '(sy', u) := idle_wake sy s in
         (MkSys (sy_boxes sy') (aset s (MkSess (sel_of sy' s) false) (sy_sess sy')),
          u ++ [Tagged OK CNone])
    else (sy, [])
  | Deliver name fl recent content =>
    match aget name (sy_boxes sy) with
    | None => (sy, [])
    | Some b => (MkSys (aset name (fst (mb_append (fs_diff (fs_of fl) [F_RECENT]) recent content b)) (sy_boxes sy))
                       (sy_sess sy), [])
    end
  | CreateBox name ro =>
    match aget name (sy_boxes sy) with
    | Some _ => (sy, [])
    | None => (MkSys (sy_boxes sy ++ [(name, mb_new false ro)]) (sy_sess sy), [])
    end
  | CreateMaildir name =>
    match aget name (sy_boxes sy) with
    | Some _ => (sy, [])
    | None => (MkSys (sy_boxes sy ++ [(name, mb_new true false)]) (sy_sess sy), [])
    end
  end.

Fixpoint run (sy : sys) (ls : list label) : sys * list (list resp) :=
  match ls with
  | [] => (sy, [])
  | l :: r => let '(sy1, out) := step sy l in
              let '(sy2, outs) := run sy1 r in (sy2, out :: outs)
  end.
Definition exec (sy : sys) (ls : list label) : sys := fold_left (fun s l => fst (step s l)) ls sy.

(* which picks BaseSession._pick_selected can return *)
Definition rw_selected_on (sy : sys) (name : N) (s : N) : bool :=
  match sel_of sy s with
  | Some x => (sel_box x =? name)%N && negb (sel_readonly x)
  | None => false
  end.
Definition pick_ok (sy : sys) (me : N) (name : N) (pick : option N) : bool :=
  if rw_selected_on sy name me
  then match pick with Some p => (p =? me)%N | None => false end
  else
    let md := match aget name (sy_boxes sy) with Some b => mb_md b | None => false end in
    if md
    then (* maildir: every session has its own MailboxSet, hence its own SelectedSet *)
         match pick with None => true | Some _ => false end
    else match pick with
         | Some p => rw_selected_on sy name p
         | None => negb (existsb (fun ks => rw_selected_on sy name (fst ks)) (sy_sess sy))
         end.
Definition label_ok (sy : sys) (l : label) : bool :=
  match l with
  | Cmd s (CAppend name _ pick) | Cmd s (CCopy _ _ name pick) | Cmd s (CMove _ _ name pick) =>
    pick_ok sy s name pick
  | IdleWake s | IdleDone s => ss_idle (sess_of sy s)
  | _ => true
  end.

(* ------------------------------------------------------- shadow client *)
Fixpoint remove_nth {A} (n : nat) (l : list A) : option (list A) :=
  match n, l with
  | O, _ :: r => Some r
  | S k, x :: r => option_map (cons x) (remove_nth k r)
  | _, [] => None
  end.

(* one response; [news] = identities still to be announced by EXISTS *)
Definition client_step (st : list N * list N) (r : resp) : option (list N * list N) :=
  let '(cl, news) := st in
  match r with
  | Expunge n =>
    if (n =? 0)%N then None
    else option_map (fun cl' => (cl', news)) (remove_nth (N.to_nat n - 1) cl)
  | Exists n =>
    let have := N_of_len cl in
    if (n <? have)%N then None
    else let k := N.to_nat (n - have) in
         if (length news <? k)%nat then None
         else Some (cl ++ firstn k news, skipn k news)
  | Fetch seq uid _ _ =>
    if (seq =? 0)%N then None
    else match nth_error cl (N.to_nat seq - 1) with
         | Some u => if (u =? uid)%N then Some st else None
         | None => None
         end
  | Search false ids =>
    if forallb (fun su : N * N =>
                  negb (fst su =? 0)%N &&
                  match nth_error cl (N.to_nat (fst su) - 1) with
                  | Some u => (u =? snd su)%N
                  | None => false end) ids
    then Some st else None
  | Bug => None
  | _ => Some st
  end.
Fixpoint client_run (cl : list N) (rs : list resp) (news : list N) : option (list N) :=
  match rs with
  | [] => Some cl
  | r :: rest =>
    match client_step (cl, news) r with
    | None => None
    | Some (cl', news') => client_run cl' rest news'
    end
  end.

(* ------------------------------------------- the shadow clients of a trace *)
Definition label_actor (l : label) : option N :=
  match l with Cmd s _ | IdleWake s | IdleDone s => Some s | _ => None end.
(* a SELECT/EXAMINE that is really executed (not swallowed by a pending IDLE) *)
Definition starts_fresh (sy : sys) (l : label) : bool :=
  match l with
  | Cmd s (CSelect _ _) => negb (ss_idle (sess_of sy s))
  | _ => false
  end.
Definition cl_update (s : N) (v : option (list N)) (f : N -> option (list N)) : N -> option (list N) :=
  fun i => if (i =? s)%N then v else f i.

(* one step of the system together with the clients of all connections:
   None = some client could not follow its connection's responses *)
Definition shadow_step (st : sys * (N -> option (list N))) (l : label)
  : option (sys * (N -> option (list N))) :=
  let '(sy, cls) := st in
  let '(sy', rs) := step sy l in
  match label_actor l with
  | None => Some (sy', cls)
  | Some s =>
    match view_of sy' s with
    | None => Some (sy', cl_update s None cls)      (* nothing selected (any more) *)
    | Some v' =>
      match (if starts_fresh sy l then Some [] else cls s) with
      | None => None
      | Some cl =>
        match client_run cl rs (ndiff v' cl) with
        | Some cl' => Some (sy', cl_update s (Some cl') cls)
        | None => None
        end
      end
    end
  end.
Fixpoint shadow_exec (st : sys * (N -> option (list N))) (ls : list label)
  : option (sys * (N -> option (list N))) :=
  match ls with
  | [] => Some st
  | l :: r => match shadow_step st l with Some st' => shadow_exec st' r | None => None end
  end.

(* ------------------------------------- what a client believes about flags *)
(* uid -> the flag list of the last FETCH response the client read for that message
   (the uid is the identity C01 shows the sequence number denotes); after a successful
   STORE.SILENT of its own the client computes the new value itself *)
Definition cflags := list (N * flags).
Definition cf_step (cf : cflags) (r : resp) : cflags :=
  match r with Fetch _ u fl _ => aset u fl cf | _ => cf end.
Definition cf_run (cf : cflags) (rs : list resp) : cflags := fold_left cf_step rs cf.
(* the messages a sequence set addresses, computed from the client's own list *)
Definition client_targets (cl : list N) (sset : seqset) (by_uid : bool) : list N :=
  map snd (view_select sset by_uid (MkView cl [] [] [])).
Definition cf_silent (cl : list N) (cf : cflags) (sset : seqset) (by_uid : bool) (op : flagop)
           (fl : flags) : cflags :=
  fold_left (fun cf u => match aget u cf with
                         | Some f => aset u (flagop_apply op f (perm_intersect (fs_of fl))) cf
                         | None => cf end)
            (client_targets cl sset by_uid) cf.
Definition tagged_ok (rs : list resp) : bool :=
  existsb (fun r => match r with Tagged OK _ => true | _ => false end) rs.
Definition cf_label (cl : list N) (cf : cflags) (l : label) (rs : list resp) : cflags :=
  let cf0 := match l with
             | Cmd _ (CStore sset by_uid op fl true) =>
               if tagged_ok rs then cf_silent cl cf sset by_uid op fl else cf
             | _ => cf
             end in
  cf_run cf0 rs.

(* all connections: [cfs s] = the belief of connection s; the client's message list is the
   server's view (C01_clients_in_sync) *)
Definition cfs_next (sy : sys) (l : label) (sy' : sys) (rs : list resp) (cfs : N -> cflags)
  : N -> cflags :=
  match label_actor l with
  | None => cfs
  | Some s =>
    match view_of sy' s with
    | None => fun i => if (i =? s)%N then [] else cfs i
    | Some _ =>
      let cf := if starts_fresh sy l then [] else cfs s in
      let cl := match view_of sy s with Some v => v | None => [] end in
      fun i => if (i =? s)%N then cf_label cl cf l rs else cfs i
    end
  end.
Definition cfs_step (st : sys * (N -> cflags)) (l : label) : sys * (N -> cflags) :=
  let '(sy, cfs) := st in
  let '(sy', rs) := step sy l in
  (sy', cfs_next sy l sy' rs cfs).
Definition cfs_exec (st : sys * (N -> cflags)) (ls : list label) : sys * (N -> cflags) :=
  fold_left cfs_step ls st.

(* the start: no mailbox, no session, no client knows anything *)
Definition cfs_start : sys * (N -> cflags) := (sys_empty, fun _ => []).

(* equal as sets, \Recent aside *)
Definition fl_equiv (f g : flags) : Prop := forall x, x <> F_RECENT -> (In x f <-> In x g).
