(* Store/NsExamples.v — a kernel-evaluated namespace trace (non-vacuity of the SystemNs
   theorems): four connections, RENAME INBOX while three of them have it selected, DELETE of
   a mailbox by the connection that has it examined, CREATE by a connection whose selection
   is stale. *)
From PV Require Import Base.Prelude Store.Base Store.Flags Store.ModSeq Store.Mailbox
     Store.View Store.Compare Store.Session Store.System Store.SystemNs Wire.SeqSet.
Local Open Scope N_scope.

Definition ns_demo : list nlabel :=
  [NOld (CreateBox 1 false); NOld (Deliver 1 [] false 1); NOld (Deliver 1 [5] false 2);
   NOld (Deliver 1 [] true 3); NOld (CreateBox 2 false); NOld (Deliver 2 [5] false 4);
   NOld (Cmd 1 (CSelect 1 false)); NOld (Cmd 2 (CSelect 1 false)); NOld (Cmd 3 (CSelect 2 true));
   NOld (Cmd 4 (CSelect 1 true));
   NRename 2 1 4;                                    (* connection 2: RENAME INBOX Box4 -> OK *)
   NOld (Cmd 1 CNoop);                               (* NO [NONEXISTENT] *)
   NOld (Cmd 1 (CFetch [SRange (SNum 1) SMax] false true false));   (* NO [NONEXISTENT] *)
   NOld (Cmd 2 (CStore [SOne (SNum 1)] false FAdd [2] true));       (* NO [NONEXISTENT] *)
   NOld (Cmd 1 CTouch);                              (* LIST: BYE, OK *)
   NDelete 3 2;                                      (* DELETE Sent by its examiner: BYE, OK *)
   NCreate 2 2;                                      (* CREATE Sent by a stale connection: BYE, OK *)
   NOld (Cmd 4 CClose);                              (* OK *)
   NOld (Cmd 4 (CSelect 1 false));                   (* the fresh INBOX: 0 EXISTS *)
   NOld (Cmd 4 CNoop);
   NOld (Cmd 5 (CSelect 4 false));                   (* Box4: the three messages *)
   NOld (Cmd 5 CNoop)].

Lemma ns_demo_ok :
  let ns := nexec ns_empty ns_demo in
  ns_names ns = [(1, 3); (4, 1); (2, 4)] /\ ns_closed ns = [1; 3; 2]
  /\ map (attached ns) [1; 2; 3; 4; 5] = [None; None; None; Some 3; Some 1]
  /\ skipn 10 (snd (nrun ns_empty ns_demo))
     = [[R (Tagged OK CNone)]; [R (Tagged NO CNonexistent)]; [R (Tagged NO CNonexistent)];
        [R (Tagged NO CNonexistent)]; [Bye; R (Tagged OK CNone)]; [Bye; R (Tagged OK CNone)];
        [Bye; R (Tagged OK CNone)]; [R (Tagged OK CNone)];
        [R (Exists 0); R (Recent 0); R (UidNext 101); R (Tagged OK CReadWrite)];
        [R (Tagged OK CNone)];
        [R (Exists 3); R (Recent 0); R (UidNext 104); R (Unseen 1); R (Tagged OK CReadWrite)];
        [R (Tagged OK CNone)]]
  /\ match nshadow_exec (ns_empty, fun _ => None) ns_demo with
     | Some (_, cls) => map cls [1; 2; 3; 4; 5] = [None; None; None; Some []; Some [101; 102; 103]]
     | None => False
     end.
Proof. vm_compute. repeat split; reflexivity. Qed.
