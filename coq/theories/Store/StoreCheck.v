(* Store/StoreCheck.v — boolean checkers for the correspondence runs of C01/C02
   (harness/store_env.py writes the cases).  A case is a prefix of set-up
   labels (CreateBox/Deliver) and a list of steps; each step carries the label
   and what was observed on the real server after it: the canonical responses
   written to that connection and, glass-box, the state of every selected
   connection and of every mailbox.  The checker replays the labels on the
   model (System.step) and compares after every step.

     chk_trace c = true  iff  every label is admissible (label_ok), the model
                              reproduces every observation, and the model's client
                              (System.cfs_step) believes what the harness' shadow client does
     first_bad c          index of the first step that differs (for reports)
     model_out c          the model's responses, for diagnosis *)
From PV Require Import Base.Prelude Store.Base Store.Flags Store.ModSeq Store.Mailbox
     Store.View Store.Compare Store.Session Store.System Wire.SeqSet.

Definition opt_eqb {A} (e : A -> A -> bool) (a b : option A) : bool := option_eqb e a b.

Definition rcode_eqb (a b : rcode) : bool :=
  match a, b with
  | CNone, CNone | CExpungeIssued, CExpungeIssued | CReadWrite, CReadWrite
  | CReadOnly, CReadOnly | CTryCreate, CTryCreate | CNonexistent, CNonexistent => true
  | CAppendUid x, CAppendUid y => nlist_eqb x y
  | CCopyUid x, CCopyUid y => eqb_list (pair_eqb N.eqb N.eqb) x y
  | _, _ => false
  end.
Definition cond_eqb (a b : cond) : bool :=
  match a, b with OK, OK | NO, NO | BAD, BAD => true | _, _ => false end.

(* the uid of a FETCH is compared only when it is shown *)
Definition resp_eqb (a b : resp) : bool :=
  match a, b with
  | Expunge x, Expunge y | Exists x, Exists y | Recent x, Recent y
  | UidNext x, UidNext y | Unseen x, Unseen y => (x =? y)%N
  | Fetch s u f sh, Fetch s' u' f' sh' =>
    (s =? s')%N && fs_eqb f f' && Bool.eqb sh sh' && (negb sh || (u =? u')%N)
  | Search bu ids, Search bu' ids' =>
    Bool.eqb bu bu' && nlist_eqb (map fst ids) (map fst ids')
  | OkCode c, OkCode c' => rcode_eqb c c'
  | Cont, Cont => true
  | Tagged c k, Tagged c' k' => cond_eqb c c' && rcode_eqb k k'
  | Bug, Bug => true
  | _, _ => false
  end.

(* observed state of one selected connection:
   (_sorted, _pending_remove sorted, SessionFlags._recent sorted, mod_sequence,
    _hide_expunged, optionally (_seqs_cache sorted by uid, _flags_key_map sorted by uid));
   the optional part is written at the first and last step of a case and every
   few steps in between (case files must stay small: Coq needs about 1 ms per token) *)
Definition sel_obs : Type :=
  list N * list N * list N * option N * bool * option (list (N * N) * list (N * flags)).

Fixpoint asort {V} (l : list (N * V)) : list (N * V) :=
  let fix ins (kv : N * V) (l : list (N * V)) :=
      match l with
      | [] => [kv]
      | x :: r => if (fst kv <? fst x)%N then kv :: l else x :: ins kv r
      end in
  match l with [] => [] | kv :: r => ins kv (asort r) end.

Definition sel_obs_of (s : selected) : sel_obs :=
  let v := sel_view s in
  (v_sorted v, nsort (v_pending v), nsort (sel_recent s), sel_modseq s, sel_hide s,
   Some (asort (v_seqs v), asort (v_fkeys v))).

Definition nn_eqb := eqb_list (pair_eqb N.eqb N.eqb).
Definition nf_eqb := eqb_list (pair_eqb N.eqb fs_eqb).
Definition nl_eqb := eqb_list (pair_eqb N.eqb nlist_eqb).

(* a = the model's, b = the observation (its optional part may be absent) *)
Definition sel_obs_eqb (a b : sel_obs) : bool :=
  let '(s1, p1, r1, m1, h1, x1) := a in
  let '(s2, p2, r2, m2, h2, x2) := b in
  nlist_eqb s1 s2 && nlist_eqb p1 p2 && nlist_eqb r1 r2
  && opt_eqb N.eqb m1 m2 && Bool.eqb h1 h2
  && match x2, x1 with
     | None, _ => true
     | Some (q2, k2), Some (q1, k1) => nn_eqb q1 q2 && nf_eqb k1 k2
     | Some _, None => false
     end.

(* observed mailbox: (_max_uid (maildir: next_uid - 1), [(uid, flags, recent)] in dict order
   (maildir: uidlist order, recent = the file is in new/), optionally highest (dict only),
   optionally the log (dict only): (_uids sorted, _updates sorted (sets sorted), _expunges
   likewise, _mod_seqs_order)) *)
Definition log_obs : Type := list (N * N) * list (N * list N) * list (N * list N) * list N.
Definition box_obs : Type := N * list (N * flags * bool) * option N * option log_obs.

Definition box_obs_of (b : mbox) : box_obs :=
  let lg := mb_log b in
  (mb_max_uid b, map (fun m => (m_uid m, m_flags m, m_recent m)) (mb_msgs b),
   Some (ms_highest lg),
   Some (asort (ms_uids lg),
         asort (map (fun kv => (fst kv, nsort (snd kv))) (ms_updates lg)),
         asort (map (fun kv => (fst kv, nsort (snd kv))) (ms_expunges lg)),
         ms_order lg)).

Definition msg_obs_eqb (a b : N * flags * bool) : bool :=
  let '(u, f, r) := a in let '(u', f', r') := b in (u =? u')%N && fs_eqb f f' && Bool.eqb r r'.

Definition box_obs_eqb (a b : box_obs) : bool :=
  let '(mx, ms, h, lg) := a in
  let '(mx', ms', h', lg') := b in
  (mx =? mx')%N && eqb_list msg_obs_eqb ms ms'
  && match h', h with
     | None, _ => true
     | Some x', Some x => (x =? x')%N
     | Some _, None => false
     end
  && match lg', lg with
     | None, _ => true
     | Some (u', up', ex', o'), Some (u, up, ex, o) =>
       nn_eqb u u' && nl_eqb up up' && nl_eqb ex ex' && nlist_eqb o o'
     | Some _, None => false
     end.

Record step_obs := MkObs {
  ob_out : list resp;                  (* responses written to the acting connection *)
  ob_sels : list (N * option sel_obs); (* every connection of the trace: its selection *)
  ob_boxes : list (N * box_obs);       (* every mailbox *)
  ob_bel : list (N * list (N * flags)) }.
    (* what the harness' shadow client of a connection believes: [(uid, flags without \Recent)]
       for the messages of its view whose flags it has been told *)

Definition chk_sels (sy : sys) (l : list (N * option sel_obs)) : bool :=
  forallb (fun so : N * option sel_obs =>
             opt_eqb sel_obs_eqb (option_map sel_obs_of (sel_of sy (fst so))) (snd so)) l.
Definition chk_boxes (sy : sys) (l : list (N * box_obs)) : bool :=
  forallb (fun bo : N * box_obs =>
             match aget (fst bo) (sy_boxes sy) with
             | Some b => box_obs_eqb (box_obs_of b) (snd bo)
             | None => false end) l.
(* the model's client (System.cfs_step) holds the same flags as the harness' shadow client *)
Definition norec (f : flags) : flags := fs_diff (fs_of f) [F_RECENT].
Definition chk_bel (cfs : N -> cflags) (l : list (N * list (N * flags))) : bool :=
  forallb (fun so : N * list (N * flags) =>
             forallb (fun uf : N * flags =>
                        match aget (fst uf) (cfs (fst so)) with
                        | Some f => fs_eqb (norec f) (norec (snd uf))
                        | None => false end) (snd so)) l.

Definition cstate : Type := sys * (N -> cflags).

Definition chk_step (st : cstate) (lo : label * step_obs) : cstate * bool :=
  let '(sy, cfs) := st in
  let '(l, o) := lo in
  let '(sy', out) := step sy l in
  let cfs' := cfs_next sy l sy' out cfs in
  ((sy', cfs'), label_ok sy l && eqb_list resp_eqb out (ob_out o)
        && chk_sels sy' (ob_sels o) && chk_boxes sy' (ob_boxes o) && chk_bel cfs' (ob_bel o)).

Definition trace_case : Type := list label * list (label * step_obs).

Fixpoint chk_steps (st : cstate) (l : list (label * step_obs)) : bool :=
  match l with
  | [] => true
  | lo :: r => let '(st', ok) := chk_step st lo in ok && chk_steps st' r
  end.
Definition chk_trace (c : trace_case) : bool := chk_steps (cfs_exec cfs_start (fst c)) (snd c).

Fixpoint first_bad_from (i : nat) (st : cstate) (l : list (label * step_obs)) : option nat :=
  match l with
  | [] => None
  | lo :: r => let '(st', ok) := chk_step st lo in
               if ok then first_bad_from (S i) st' r else Some i
  end.
Definition first_bad (c : trace_case) : option nat := first_bad_from 0 (cfs_exec cfs_start (fst c)) (snd c).

(* diagnosis: what the model answers and holds after the first n steps *)
Definition model_cstate (c : trace_case) (n : nat) : cstate :=
  cfs_exec (cfs_exec cfs_start (fst c)) (map fst (firstn n (snd c))).
Definition model_state (c : trace_case) (n : nat) : sys := fst (model_cstate c n).
Definition model_out (c : trace_case) (n : nat)
  : list resp * list (N * option sel_obs) * list (N * box_obs) * list (N * list (N * flags)) :=
  let '(sy, cfs) := model_cstate c n in
  match nth_error (snd c) n with
  | None => ([], [], [], [])
  | Some (l, o) =>
    let '(sy', out) := step sy l in
    let cfs' := cfs_next sy l sy' out cfs in
    (out, map (fun so => (fst so, option_map sel_obs_of (sel_of sy' (fst so)))) (ob_sels o),
     map (fun kb => (fst kb, box_obs_of (snd kb))) (sy_boxes sy'),
     map (fun so => (fst so, map (fun uf => (fst uf, norec (snd uf))) (cfs' (fst so)))) (ob_bel o))
  end.

(* which comparison fails at step n: (label_ok, responses, selections, mailboxes, beliefs) *)
Definition diag (c : trace_case) (n : nat) : bool * bool * bool * bool * bool :=
  let '(sy, cfs) := model_cstate c n in
  match nth_error (snd c) n with
  | None => (true, true, true, true, true)
  | Some (l, o) =>
    let '(sy', out) := step sy l in
    (label_ok sy l, eqb_list resp_eqb out (ob_out o), chk_sels sy' (ob_sels o),
     chk_boxes sy' (ob_boxes o), chk_bel (cfs_next sy l sy' out cfs) (ob_bel o))
  end.
