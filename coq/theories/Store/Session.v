(* Store/Session.v — model of pymap/backend/session.py:BaseSession (message
   commands) composed with pymap/imap/state.py:ConnectionState.do_* for one
   connection, over the dict and the maildir backend.  Definitions only.

   boxes   = mailbox name -> mbox (MailboxSet; creation/deletion/rename are not modelled)
   outcome = what one command body leaves behind, before do_command forks:
     o_boxes     the mailboxes
     o_sel       the connection's ConnectionState._selected after the body
     o_fork      the body returned `updates` (do_command will fork o_sel)
     o_untagged  the body's own untagged responses, in order
     o_tagged    Tagged cond code  (or Bug)
     o_with_uid  getattr(command, 'uid', False), passed to fork
     o_grants    [(session, uid)]: SessionFlags.add_recent performed on ANOTHER
                 connection's selected mailbox (the one _pick_selected chose)
   Commands (all take [me], the own session id, [bs], and [sel : option selected]):
     do_select name readonly
     do_append name msgs pick            msgs = [(flags, content)]
     do_store sset by_uid op fl silent
     do_expunge uid_set                  None = EXPUNGE, Some s = UID EXPUNGE s
     do_copy / do_move sset by_uid name pick
     do_fetch sset by_uid want_uid set_seen
     do_search by_uid sskey fkeys        sskey = optional (sequence set, is-uid-set) key,
                                         fkeys = [(flag, expected)] conjunction
     do_noop, do_check, do_touch (any command that only runs _load_updates: LIST, STATUS other, ...)
     do_close
   [pick] is the observed result of BaseSession._pick_selected: which session's
   selected mailbox received \Recent (None: nobody, the message is stored recent).
   Which session WeakSet iteration picks is not determined by the model;
   System.label_ok says which picks are possible.
   sync b s = MailboxData.update_selected(s): dict consumes the modification log, maildir
   rescans (mb_md b).  cached_of b v u = the flags of the session's cached message. *)
From PV Require Import Base.Prelude Store.Base Store.Flags Store.ModSeq Store.Mailbox
     Store.View Store.Compare Wire.SeqSet.

Definition boxes := list (N * mbox).

(* the permanent flags of the session's cached message object (_cache[uid]):
   dict: the mailbox's own (aliased) object; maildir: the session's snapshot, taken together
   with its _flags_key_map entry, so the two always agree *)
Definition cached_of (b : mbox) (v : view) (u : N) : option flags :=
  if mb_md b then aget u (v_fkeys v) else option_map m_flags (mb_cached u b).

Definition with_modseq (s : selected) (m : option N) : selected :=
  MkSel (sel_box s) (sel_readonly s) m (sel_hide s) (sel_silenced s) (sel_prev s) (sel_view s)
        (sel_recent s).
Definition with_hide (s : selected) : selected :=
  MkSel (sel_box s) (sel_readonly s) (sel_modseq s) true (sel_silenced s) (sel_prev s) (sel_view s)
        (sel_recent s).
Definition with_recent_set (s : selected) (r : list N) : selected :=
  MkSel (sel_box s) (sel_readonly s) (sel_modseq s) (sel_hide s) (sel_silenced s) (sel_prev s)
        (sel_view s) r.

(* MailboxData.update_selected.
   dict: consume the modification log from the session's mod_sequence.
   maildir: rescan (messages()) and SelectedMailbox.set_messages: every existing message is
   passed to _update, expunged = the uids of the view that no longer exist. *)
Definition sync (b : mbox) (s : selected) : selected :=
  let all := map (fun m => (m_uid m, m_flags m)) (mb_msgs b) in
  if mb_md b
  then add_updates all (ndiff (v_sorted (sel_view s)) (mb_uids b)) s
  else
  let s1 := with_modseq s (Some (ms_highest (mb_log b))) in
  match sel_modseq s with
  | None => add_updates all [] s1
  | Some m =>
    let '(upd, exp) := ms_find_updated m (mb_log b) in
    add_updates (flat_map (fun u => match mb_alive u b with
                                    | Some x => [(u, m_flags x)]
                                    | None => [] end) upd) exp s1
  end.

Record outcome := MkOut {
  o_boxes : boxes;
  o_sel : option selected;
  o_fork : bool;
  o_untagged : list resp;
  o_tagged : resp;
  o_with_uid : bool;
  o_grants : list (N * N) }.

Definition refuse (bs : boxes) (sel : option selected) (c : cond) (code : rcode) : outcome :=
  MkOut bs sel false [] (Tagged c code) false [].
Definition server_bug (bs : boxes) : outcome := MkOut bs None false [] Bug false [].

(* load updates for the selected mailbox and answer OK *)
Definition finish (bs : boxes) (s : selected) (unt : list resp) (code : rcode) (with_uid : bool)
           (grants : list (N * N)) : outcome :=
  match aget (sel_box s) bs with
  | None => server_bug bs
  | Some b => MkOut bs (Some (sync b s)) true unt (Tagged OK code) with_uid grants
  end.

Definition all_set : seqset := [SRange (SNum 1) SMax].

(* the `for seq, cached_msg in selected.messages.get_all(sequence_set)` loops:
   [op uid b] = the per-message backend call (get or update), which returns the
   message object and whether it is an expunged copy; None = it raised *)
Definition msg_loop (op : N -> mbox -> option (mbox * msg * bool)) (targets : list (N * N))
           (b : mbox) : option (mbox * list (N * msg * bool)) :=
  fold_left (fun (st : option (mbox * list (N * msg * bool))) (su : N * N) =>
               match st with
               | None => None
               | Some (b, acc) =>
                 match op (snd su) b with
                 | None => None
                 | Some (b', m, ex) => Some (b', acc ++ [(fst su, m, ex)])
                 end
               end) targets (Some (b, [])).
(* the per-message calls, closed over the view that supplies the cached message *)
Definition op_get (v : view) (uid : N) (b : mbox) : option (mbox * msg * bool) :=
  match mb_get uid (aget uid (v_fkeys v)) b with Some (m, ex) => Some (b, m, ex) | None => None end.
Definition op_update (v : view) (op : flagop) (fl : flags) (uid : N) (b : mbox)
  : option (mbox * msg * bool) := mb_update uid (aget uid (v_fkeys v)) op fl b.

(* ---------------------------------------------------------------- SELECT *)
Definition do_select (bs : boxes) (name : N) (readonly : bool) : outcome :=
  match aget name bs with
  | None => refuse bs None NO CNonexistent
  | Some b =>
    let ro := readonly || mb_readonly b in
    let s0 := sel_new name ro in
    let '(b1, claimed) := if ro then (b, []) else mb_claim_recent b in
    let s1 := with_recent_set s0 claimed in
    let s2 := sync b1 s1 in
    let nrecent := if ro then snap_recent b1 else N_of_len (sel_recent s2) in
    MkOut (aset name b1 bs) (Some s2) true
          ([Exists (view_exists (sel_view s2)); Recent nrecent; UidNext (snap_next_uid b1)]
           ++ match snap_first_unseen b1 with Some k => [Unseen k] | None => [] end)
          (Tagged OK (if ro then CReadOnly else CReadWrite)) false []
  end.

(* -------------------------------------------------- recipient of \Recent *)
(* returns (own selected with the uid added if the pick is me, grants) *)
Definition grant (me : N) (pick : option N) (uid : N) (sel : option selected)
           (grants : list (N * N)) : option selected * list (N * N) :=
  match pick with
  | None => (sel, grants)
  | Some p =>
    if (p =? me)%N
    then (option_map (fun s => with_recent_set s (nadd uid (sel_recent s))) sel, grants)
    else (sel, grants ++ [(p, uid)])
  end.
Definition is_some {A} (o : option A) : bool := match o with Some _ => true | None => false end.

(* ---------------------------------------------------------------- APPEND *)
Definition do_append (me : N) (bs : boxes) (sel : option selected) (name : N)
           (msgs : list (flags * N)) (pick : option N) : outcome :=
  match aget name bs with
  | None => refuse bs sel NO CTryCreate
  | Some dest =>
    if mb_readonly dest then refuse bs sel NO CReadOnly
    else
      let step st (fc : flags * N) :=
          let '(d, sel, grants, uids) := st in
          let '(d', uid) := mb_append (fs_diff (fs_of (fst fc)) [F_RECENT])
                                      (negb (is_some pick)) (snd fc) d in
          let '(sel', grants') := grant me pick uid sel grants in
          (d', sel', grants', uids ++ [uid]) in
      let '(dest', sel', grants, uids) := fold_left step msgs (dest, sel, [], []) in
      let bs' := aset name dest' bs in
      match sel' with
      | None => MkOut bs' None false [] (Tagged OK (CAppendUid uids)) false grants
      | Some s => finish bs' s [] (CAppendUid uids) false grants
      end
  end.

(* ----------------------------------------------------------------- STORE *)
Definition keyed_targets (v : view) (targets : list (N * N)) : list (N * flags) :=
  flat_map (fun su => match aget (snd su) (v_fkeys v) with Some f => [(snd su, f)] | None => [] end)
           targets.

Definition do_store (bs : boxes) (s : selected) (sset : seqset) (by_uid : bool) (op : flagop)
           (fl : flags) (silent : bool) : outcome :=
  if sel_readonly s then refuse bs (Some s) NO CReadOnly
  else
  match aget (sel_box s) bs with
  | None => server_bug bs
  | Some b =>
    let s0 := if by_uid then s else with_hide s in
    let targets := view_select sset by_uid (sel_view s0) in
    let s1 := if silent then silence (keyed_targets (sel_view s0) targets) (fs_of fl) op s0 else s0 in
      let pset := perm_intersect (fs_of fl) in
      match msg_loop (op_update (sel_view s) op pset) targets b with
      | None => server_bug bs
      | Some (b', msgs) =>
        let s2 := sync b' s1 in
        let any_ex := existsb (fun x => snd x) msgs in
        let unt := flat_map (fun x : N * msg * bool =>
                               let '(seq, m, ex) := x in
                               if negb ex && silent then []
                               else [Fetch seq (m_uid m)
                                           (with_recent (nmem (m_uid m) (sel_recent s2)) (m_flags m))
                                           by_uid]) msgs in
        MkOut (aset (sel_box s) b' bs) (Some s2) true unt
              (Tagged OK (if any_ex then CExpungeIssued else CNone)) by_uid []
      end
  end.

(* --------------------------------------------------------------- EXPUNGE *)
Definition find_deleted (b : mbox) (s : selected) (uid_set : seqset) : option (list N) :=
  match msg_loop (op_get (sel_view s)) (view_select uid_set true (sel_view s)) b with
  | None => None
  | Some (_, msgs) =>
    Some (map (fun x : N * msg * bool => m_uid (snd (fst x)))
              (filter (fun x : N * msg * bool =>
                         let m := snd (fst x) in
                         fs_mem F_DELETED (with_recent (nmem (m_uid m) (sel_recent s)) (m_flags m)))
                      msgs))
  end.

Definition do_expunge (bs : boxes) (s : selected) (uid_set : option seqset) : outcome :=
  if sel_readonly s then refuse bs (Some s) NO CReadOnly
  else match aget (sel_box s) bs with
       | None => server_bug bs
       | Some b =>
         match find_deleted b s (match uid_set with Some u => u | None => all_set end) with
         | None => server_bug bs
         | Some uids =>
           let b' := mb_delete uids b in
           MkOut (aset (sel_box s) b' bs) (Some (sync b' s)) true [] (Tagged OK CNone)
                 (is_some uid_set) []
         end
       end.

Definition do_close (bs : boxes) (s : selected) : outcome :=
  if sel_readonly s then MkOut bs None false [] (Tagged OK CNone) false []
  else
    let o := do_expunge bs s None in
    MkOut (o_boxes o) None false []
          (match o_tagged o with Tagged OK _ => Tagged OK CNone | t => t end) false [].

(* ------------------------------------------------------------ COPY, MOVE *)
Definition do_copy_move (move : bool) (me : N) (bs : boxes) (s : selected) (sset : seqset)
           (by_uid : bool) (name : N) (pick : option N) : outcome :=
  if move && sel_readonly s then refuse bs (Some s) NO CReadOnly
  else
  match aget name bs with
  | None => refuse bs (Some s) NO CTryCreate
  | Some dest0 =>
    if mb_readonly dest0 then refuse bs (Some s) NO CReadOnly
    else
      let recent := negb (is_some pick) in
      let step (st : option (boxes * option selected * list (N * N) * list (N * N))) (su : N * N) :=
          match st with
          | None => None
          | Some (bs, sel, grants, pairs) =>
            let uid := snd su in
            match aget (sel_box s) bs with
            | None => None
            | Some src =>
              let taken := if move
                           then match mb_pop uid src with
                                | Some (src', m) => Some (aset (sel_box s) src' bs, m)
                                | None => None end
                           else match mb_alive uid src with
                                | Some m => Some (bs, m)
                                | None => None end in
              match taken with
              | None => Some (bs, sel, grants, pairs)
              | Some (bs1, m) =>
                match aget name bs1 with
                | None => None
                | Some dest =>
                  let '(dest', duid) := mb_copy_from m recent dest in
                  let '(sel', grants') := grant me pick duid sel grants in
                  Some (aset name dest' bs1, sel', grants', pairs ++ [(uid, duid)])
                end
              end
            end
          end in
      match fold_left step (view_select sset by_uid (sel_view s)) (Some (bs, Some s, [], [])) with
      | Some (bs', Some s', grants, pairs) =>
        let code := match pairs with [] => CNone | _ => CCopyUid pairs end in
        if move then finish bs' s' [OkCode code] CNone by_uid grants
        else finish bs' s' [] code by_uid grants
      | _ => server_bug bs
      end
  end.
Definition do_copy := do_copy_move false.
Definition do_move := do_copy_move true.

(* ----------------------------------------------------------------- FETCH *)
Definition do_fetch (bs : boxes) (s : selected) (sset : seqset) (by_uid want_uid set_seen : bool)
  : outcome :=
  match aget (sel_box s) bs with
  | None => server_bug bs
  | Some b =>
    let s0 := if by_uid then s else with_hide s in
    let seen := negb (sel_readonly s0) && set_seen in
    match msg_loop (if seen then op_update (sel_view s) FAdd [F_SEEN] else op_get (sel_view s))
                   (view_select sset by_uid (sel_view s0)) b with
    | None => server_bug bs
    | Some (b', msgs) =>
      let s1 := sync b' s0 in
      let any_ex := existsb (fun x => snd x) msgs in
      (* FLAGS are computed when the response is written: after the whole body *)
      let unt := map (fun x : N * msg * bool =>
                        let '(seq, m, _) := x in
                        Fetch seq (m_uid m)
                              (with_recent (nmem (m_uid m) (sel_recent s1)) (m_flags m))
                              (by_uid || want_uid)) msgs in
      MkOut (aset (sel_box s) b' bs) (Some s1) true unt
            (Tagged OK (if any_ex then CExpungeIssued else CNone)) by_uid []
    end
  end.

(* ---------------------------------------------------------------- SEARCH *)
Definition do_search (bs : boxes) (s : selected) (by_uid : bool)
           (sskey : option (seqset * bool)) (fkeys : list (N * bool)) : outcome :=
  match aget (sel_box s) bs with
  | None => server_bug bs
  | Some b =>
    let s0 := if by_uid then s else with_hide s in
    let v := sel_view s0 in
    let '(pre, pre_uid) := match sskey with Some k => k | None => (all_set, false) end in
    let flat := match sskey with
                | Some (ss, true) => seq_iter (view_max_uid v) ss
                | Some (ss, false) => seq_iter (view_exists v) ss
                | None => [] end in
    let matches (x : N * msg * bool) : bool :=
        let '(seq, m, _) := x in
        let fl := with_recent (nmem (m_uid m) (sel_recent s0)) (m_flags m) in
        let ok_set := match sskey with
                      | Some (_, true) => nmem (m_uid m) flat
                      | Some (_, false) => nmem seq flat
                      | None => true end in
        ok_set && forallb (fun fe : N * bool => Bool.eqb (fs_mem (fst fe) fl) (snd fe)) fkeys in
    match msg_loop (op_get v) (view_select pre pre_uid v) b with
    | None => server_bug bs
    | Some (_, msgs) =>
      let hits := filter matches msgs in
      let ids := map (fun x : N * msg * bool =>
                        let '(seq, m, _) := x in ((if by_uid then m_uid m else seq), m_uid m)) hits in
      let any_ex := existsb (fun x : N * msg * bool => snd x) hits in
      MkOut bs (Some (sync b s0)) true [Search by_uid ids]
            (Tagged OK (if any_ex then CExpungeIssued else CNone)) by_uid []
    end
  end.

(* ------------------------------------------------- NOOP / CHECK / others *)
Definition do_noop (bs : boxes) (sel : option selected) : outcome :=
  match sel with
  | None => MkOut bs None false [] (Tagged OK CNone) false []
  | Some s => finish bs s [] CNone false []
  end.
Definition do_check (bs : boxes) (s : selected) : outcome := finish bs s [] CNone false [].
Definition do_touch := do_noop.
