(* Search/Model.v — model of pymap/search.py (SearchParams, SearchCriteria.of,
   the criteria classes and their matches()), of
   SynchronizedMessages.get_all / MailboxDataInterface.find (the sequence_set
   pre-filter) and of SessionInterface.search_mailbox + ConnectionState.do_search
   (which ids are reported).  Definitions only.

   Correspondence of names:
     crit            the SearchCriteria object tree built eagerly by [crit_of]
     crit_of         SearchCriteria.of (disabled check, inverse, dispatch on name;
                     a filter of the wrong Python type -> TypeError = Exc 2)
     matches         <criteria>.matches(msg_seq, msg, loaded_msg)
     sequence_set    SearchCriteriaSet.sequence_set: the first top-level
                     SequenceSetSearchCriteria in the iteration order of the
                     frozenset of keys — an order the model does not know, so it is
                     the parameter [choice] and every theorem holds for all choices
     find            SynchronizedMessages.get_all
     search_model    search_mailbox + the id list of do_search *)
From PV Require Import Base.Prelude Wire.SeqSet Search.Text Search.Keys Search.Msg
     Search.KeyRow Search.KeyTable.

Record params := mkParams { max_seq : N; max_uid : N }.
Definition params_of (v : view) : params := mkParams (v_exists v) (v_maxuid v).


Inductive crit :=
| CAll
| CSet (l : list crit)                                  (* SearchCriteriaSet *)
| CInv (c : crit)                                       (* InverseSearchCriteria *)
| COr (a b : crit)
| CSeq (uid : bool) (s : seqset) (flat : list N)        (* SequenceSetSearchCriteria *)
| CEmailId (id : bytes) | CThreadId (id : bytes)
| CHasFlag (f : bytes) (expected : bool)
| CNew
| CDate (d : date) (op : dop)
| CHdrDate (d : date) (op : dop)
| CSize (n : N) (op : sop)
| CEnv (h : hfield) (value : str)
| CHeader (name : bytes) (value : str)
| CBody (value : bytes) (with_header : bool).

Definition mem_name (n : kname) (l : list kname) : bool := existsb (kname_eqb n) l.

(* The if/elif chain of SearchCriteria.of, read from the GENERATED dispatch
   table (Search/KeyTable.v): key name -> criteria class with its constant
   constructor arguments.  [build_crit] is the constructor call: it takes the
   filter of the key through the typed accessor (filter_datetime, filter_int,
   ...; a filter of another Python type -> TypeError). *)
Definition row_crit (n : kname) : option critk :=
  option_map d_crit (find_drow dispatch_table n).

Definition build_crit (p : params) (ck : critk) (f : afilt) : result crit :=
  match ck with
  | CkAll => Ok CAll
  | CkSeq => match f with
             | FSeq uid s => Ok (CSeq uid s (seq_iter (if uid then max_uid p else max_seq p) s))
             | _ => Exc EXC_TYPE end
  | CkKeySet | CkOr => Exc EXC_TYPE        (* filter is not a frozenlist / a pair of keys *)
  | CkEmailId => match f with FObj id => Ok (CEmailId id) | _ => Exc EXC_TYPE end
  | CkThreadId => match f with FObj id => Ok (CThreadId id) | _ => Exc EXC_TYPE end
  | CkFlag fl e => Ok (CHasFlag (flag_bytes fl) e)
  | CkKeyword e => match f with FFlag x => Ok (CHasFlag x e) | _ => Exc EXC_TYPE end
  | CkNew => Ok CNew
  | CkDate op => match f with FDate d => Ok (CDate d op) | _ => Exc EXC_TYPE end
  | CkHdrDate op => match f with FDate d => Ok (CHdrDate d op) | _ => Exc EXC_TYPE end
  | CkSize op => match f with FInt k => Ok (CSize k op) | _ => Exc EXC_TYPE end
  | CkEnv h => match f with FStr s => Ok (CEnv h s) | _ => Exc EXC_TYPE end
  | CkHeader => match f with
                | FHdr name value => bind (encode_ascii name) (fun nb => Ok (CHeader nb value))
                | _ => Exc EXC_TYPE end
  | CkBody wh => match f with FStr s => Ok (CBody (utf8_encode s) wh) | _ => Exc EXC_TYPE end
  end.

(* a name without a row falls off the chain: raise SearchNotAllowed(key) *)
Definition crit_atom (p : params) (n : kname) (f : afilt) : result crit :=
  match row_crit n with
  | Some ck => build_crit p ck f
  | None => Exc EXC_NOTALLOWED
  end.

(* key.inverse -> InverseSearchCriteria(key.not_inverse): the same dispatch
   on the same name and filter, wrapped *)
Definition wrap_inv (inv : bool) (r : result crit) : result crit :=
  bind r (fun c => Ok (if inv then CInv c else c)).

Fixpoint crit_of (dis : list kname) (p : params) (k : skey) : result crit :=
  match k with
  | SKAtom n f inv =>
    if mem_name n dis then Exc EXC_NOTALLOWED else wrap_inv inv (crit_atom p n f)
  | SKSet l inv =>
    if mem_name NKEYSET dis then Exc EXC_NOTALLOWED else
    match row_crit NKEYSET with
    | Some CkKeySet =>
    wrap_inv inv
      (bind ((fix go (l : list skey) : result (list crit) :=
                match l with
                | [] => Ok []
                | x :: r => bind (crit_of dis p x) (fun c =>
                            bind (go r) (fun cs => Ok (c :: cs)))
                end) l)
            (fun cs => Ok (CSet cs)))
    | _ => Exc EXC_NOTALLOWED      (* KEYSET not dispatched to SearchCriteriaSet *)
    end
  | SKOr a b inv =>
    if mem_name NOR dis then Exc EXC_NOTALLOWED else
    match row_crit NOR with
    | Some CkOr =>
    wrap_inv inv (bind (crit_of dis p a) (fun ca =>
                  bind (crit_of dis p b) (fun cb => Ok (COr ca cb))))
    | _ => Exc EXC_NOTALLOWED
    end
  end.

Fixpoint crits_of (dis : list kname) (p : params) (l : list skey) : result (list crit) :=
  match l with
  | [] => Ok []
  | x :: r => bind (crit_of dis p x) (fun c =>
              bind (crits_of dis p r) (fun cs => Ok (c :: cs)))
  end.

(* ---- matches *)
Definition date_cmp (a b : date) : comparison :=      (* datetime.date ordering *)
  let '(y1, m1, d1) := a in let '(y2, m2, d2) := b in
  match (y1 ?= y2)%N with
  | Eq => match (m1 ?= m2)%N with Eq => (d1 ?= d2)%N | c => c end
  | c => c
  end.
Definition date_op (op : dop) (msg_date when : date) : bool :=
  match op, date_cmp msg_date when with
  | DLt, Lt => true
  | DEq, Eq => true
  | DGe, Eq | DGe, Gt => true
  | _, _ => false
  end.

(* LoadedMessage.get_header(name): parsed[name] lower-cases the name and looks
   it up in the map keyed by the stripped, lower-cased written field names *)
Definition get_header (name : bytes) (m : msg) : list str :=
  map snd (filter (fun h => bytes_eqb (header_key (fst h)) (lower name)) (m_headers m)).

(* BaseLoadedMessage.contains(value, header=...) *)
Fixpoint contains_parts (needle : bytes) (with_header : bool) (first : bool)
         (ps : list part) : bool :=
  match ps with
  | [] => false
  | p :: r =>
    if (with_header || negb first) && contains_ci needle (p_header p) then true
    else if p_text p && contains_ci needle (p_body p) then true
    else contains_parts needle with_header false r
  end.

Fixpoint matches (c : crit) (m : msg) : bool :=
  match c with
  | CAll => true
  | CSet l => forallb (fun c' => matches c' m) l           (* all(...) *)
  | CInv c' => negb (matches c' m)
  | COr a b => matches a m || matches b m
  | CSeq uid _ flat => existsb (N.eqb (if uid then m_uid m else m_seq m)) flat
  | CEmailId id => bytes_eqb id (m_emailid m)
  | CThreadId id => bytes_eqb id (m_threadid m)
  | CHasFlag f expected =>
    let h := has_flag f m in (h && expected) || (negb expected && negb h)
  | CNew => has_flag (flag_bytes FRecent) m && negb (has_flag (flag_bytes FSeen) m)
  | CDate d op => date_op op (m_idate m) d
  | CHdrDate d op => match m_sdate m with None => false | Some s => date_op op s d end
  | CSize n SzLt => (m_size m <? n)%N
  | CSize n SzGt => (n <? m_size m)%N
  | CEnv HSubject value =>                      (* envelope.subject: first Subject line *)
    match get_header (field_bytes HSubject) m with
    | [] => false
    | s :: _ => contains_ci value s
    end
  | CEnv h value => existsb (contains_ci value) (get_header (field_bytes h) m)
  | CHeader name value => existsb (contains_ci value) (get_header name m)
  | CBody value wh => contains_parts value wh true (m_parts m)
  end.

(* ---- the pre-filter and the search *)
Fixpoint seq_crits (cs : list crit) : list (bool * seqset) :=
  match cs with
  | [] => []
  | CSeq uid s _ :: r => (uid, s) :: seq_crits r
  | _ :: r => seq_crits r
  end.

(* SearchCriteriaSet.sequence_set; None = SequenceSet.all() *)
Definition sequence_set (choice : nat) (cs : list crit) : option (bool * seqset) :=
  match seq_crits cs with
  | [] => None
  | l => nth_error l (Nat.modulo choice (length l))
  end.

Definition mem_N (n : N) (l : list N) : bool := existsb (N.eqb n) l.

(* SynchronizedMessages.get_all over the view *)
Definition find (pre : option (bool * seqset)) (v : view) : list msg :=
  match pre with
  | None => filter (fun m => mem_N (m_seq m) (nrange 1 (v_exists v))) v
  | Some (true, s) => filter (fun m => mem_N (m_uid m) (seq_iter (v_maxuid v) s)) v
  | Some (false, s) => filter (fun m => mem_N (m_seq m) (seq_iter (v_exists v) s)) v
  end.

Definition search_crits (choice : nat) (uidcmd : bool) (cs : list crit) (v : view) : list N :=
  map (if uidcmd then m_uid else m_seq)
      (filter (fun m => forallb (fun c => matches c m) cs) (find (sequence_set choice cs) v)).

Definition search_model (dis : list kname) (choice : nat) (uidcmd : bool)
           (prog : list skey) (v : view) : result (list N) :=
  bind (crits_of dis (params_of v) prog) (fun cs => Ok (search_crits choice uidcmd cs v)).

(* one key on one message: of() then matches() *)
Definition model_matches (k : skey) (m : msg) (v : view) : result bool :=
  bind (crit_of [] (params_of v) k) (fun c => Ok (matches c m)).

(* ---- what a search needs to load: SearchKey.requirement, a FetchRequirement
   flag set (METADATA = 1, HEADER = 2, BODY = 4, CONTENT = 6), reduced with |
   over the keys of the command by search_mailbox.  The dict backend ignores
   it; the maildir backend's load_content returns no content at all when
   neither HEADER nor BODY is asked for, and then get_header is [], get_size is
   0, the envelope is empty and contains() is False ([strip]). *)
Definition REQ_NONE : N := 0.  Definition REQ_METADATA : N := 1.
Definition REQ_HEADER : N := 2.  Definition REQ_CONTENT : N := 6.

(* per key name from the GENERATED table; a name the table does not know
   takes the final else of the property: METADATA *)
Definition atom_requirement (n : kname) : N :=
  match find_drow dispatch_table n with
  | Some r => d_req r
  | None => REQ_METADATA
  end.

Fixpoint requirement (k : skey) : N :=
  match k with
  | SKAtom n _ _ => atom_requirement n
  | SKSet l _ =>
    N.lor (atom_requirement NKEYSET)
          (fold_right (fun x acc => N.lor (requirement x) acc) REQ_NONE l)
  | SKOr a b _ => N.lor (atom_requirement NOR) (N.lor (requirement a) (requirement b))
  end.

Definition requirement_of (prog : list skey) : N :=
  fold_right (fun x acc => N.lor (requirement x) acc) REQ_NONE prog.

Definition content_loaded (always : bool) (req : N) : bool :=
  always || negb (N.land req REQ_CONTENT =? 0)%N.

Definition strip (m : msg) : msg :=
  mkMsg (m_uid m) (m_seq m) (m_flags m) 0 (m_idate m) None None [] [] (m_emailid m) (m_threadid m).

(* search_mailbox on a backend that loads content always (dict) or only on
   request (maildir) *)
Definition search_backend (always : bool) (dis : list kname) (choice : nat) (uidcmd : bool)
           (prog : list skey) (v : view) : result (list N) :=
  let see := if content_loaded always (requirement_of prog) then (fun m => m) else strip in
  bind (crits_of dis (params_of v) prog) (fun cs =>
    Ok (map (if uidcmd then m_uid else m_seq)
            (filter (fun m => forallb (fun c => matches c (see m)) cs)
                    (find (sequence_set choice cs) v)))).
