(* Search/Msg.v — the message records and the view a SEARCH runs over.
   A record carries what the implementation holds for one message of the
   session's view, observed through the probe
       FETCH 1:* (UID FLAGS INTERNALDATE RFC822.SIZE EMAILID THREADID BODY.PEEK[])
   - m_flags   : the FLAGS list as the session sees it (permanent flags union
                 session flags, i.e. including \Recent), canonical spelling;
   - m_idate   : date part of INTERNALDATE as held (its own zone);
   - m_rawdate : source value (after the colon, unfolded) of the first Date:
                 field, None if there is none;
   - m_sdate   : date part of the parsed Date: header, None if absent/invalid:
                 observed, and required by [wf_msg] to be what the model of the
                 stdlib date parser (Search/SentDate.v) computes from m_rawdate
                 wherever that model applies (ORACLE only in its unmodelled
                 corners);
   - m_headers : (field name AS WRITTEN, decoded value) in order of
                 occurrence (ORACLE: email header registry decoding of the value;
                 the name is stripped and case-folded by the model);
   - m_parts   : MessageContent.walk(): for the message itself and then every
                 nested MIME part: raw header octets, "main type is text",
                 raw body octets (ORACLE: pymap's MIME splitter).
   The oracles are data: the theorems hold for every value of these fields.
   Definitions only. *)
From PV Require Import Base.Prelude Wire.SeqSet Search.Text Search.Keys Search.SentDate.

Record part := mkPart { p_header : bytes; p_text : bool; p_body : bytes }.

Record msg := mkMsg {
  m_uid : N; m_seq : N; m_flags : list bytes; m_size : N;
  m_idate : date; m_rawdate : option str; m_sdate : option date;
  m_headers : list (bytes * str);
  m_parts : list part;
  m_emailid : bytes; m_threadid : bytes }.

Definition view := list msg.         (* ascending sequence number *)

(* SearchParams: max_seq = selected.messages.exists, max_uid = _sorted[-1] or 0 *)
Definition v_exists (v : view) : N := N.of_nat (length v).
Definition v_maxuid (v : view) : N := last (map m_uid v) 0%N.

(* "\Answered" ... as Flag._value spells them *)
Definition BSL : N := 92.
Definition flag_bytes (f : sysflag) : bytes :=
  BSL :: match f with
         | FAnswered => [65;110;115;119;101;114;101;100]
         | FDeleted => [68;101;108;101;116;101;100]
         | FDraft => [68;114;97;102;116]
         | FFlagged => [70;108;97;103;103;101;100]
         | FSeen => [83;101;101;110]
         | FRecent => [82;101;99;101;110;116]
         end%N.

(* "bcc" "cc" "from" "subject" "to" *)
Definition field_bytes (h : hfield) : bytes :=
  match h with
  | HBcc => [98;99;99] | HCc => [99;99] | HFrom => [102;114;111;109]
  | HSubject => [115;117;98;106;101;99;116] | HTo => [116;111]
  end%N.

Definition has_flag (f : bytes) (m : msg) : bool := existsb (bytes_eqb f) (m_flags m).

(* bytes.strip(): MessageHeader._find_folded keys the header map by
   data[start:colon].strip().lower() *)
Definition is_bws (c : N) : bool := ((c =? 32) || ((9 <=? c) && (c <=? 13)))%N.
Fixpoint lstrip_ws (s : bytes) : bytes :=
  match s with c :: r => if is_bws c then lstrip_ws r else s | [] => [] end.
Definition strip_ws (s : bytes) : bytes := rev (lstrip_ws (rev (lstrip_ws s))).
Definition header_key (written : bytes) : bytes := lower (strip_ws written).

(* the observed sent date is the one the date-parser model computes from the
   source value, wherever the model applies; the view numbers its messages
   1..n with strictly ascending UIDs *)
Definition sdate_ok (m : msg) : bool :=
  match m_rawdate m with
  | None => match m_sdate m with None => true | Some _ => false end
  | Some v => match parse_sent_date v, m_sdate m with
              | SdUnmodelled, _ => true
              | SdSome d, Some o => date_eqb d o
              | SdNone, None => true
              | _, _ => false
              end
  end.
Definition wf_msg (m : msg) : bool := sdate_ok m.

Fixpoint seqs_from (i : N) (v : view) : bool :=
  match v with
  | [] => true
  | m :: r => (m_seq m =? i)%N && seqs_from (i + 1) r
  end.
Fixpoint uids_asc (lo : N) (v : view) : bool :=
  match v with
  | [] => true
  | m :: r => (lo <? m_uid m)%N && uids_asc (m_uid m) r
  end.
Definition wf_view (v : view) : bool :=
  seqs_from 1 v && uids_asc 0 v && forallb wf_msg v.
