(* Search/SearchProofs.v — the model of pymap/search.py computes RFC 3501's
   SEARCH semantics: proofs for Props/C13.v. *)
From PV Require Import Base.Prelude Wire.SeqSet Wire.SeqSetProofs
     Search.Text Search.Keys Search.Msg Search.Spec Search.Model Search.TextProofs
     Search.KeyRow Search.KeyTable Search.Grammar.
From Coq Require Import Lia ZifyBool.

(* ------------------------------------------ obligations on the generated tables *)
(* the two recursive keys are dispatched to SearchCriteriaSet / OrSearchCriteria *)
Lemma row_keyset : row_crit NKEYSET = Some CkKeySet.
Proof. reflexivity. Qed.
Lemma row_or : row_crit NOR = Some CkOr.
Proof. reflexivity. Qed.

(* ------------------------------------------------------------ induction *)
Definition atomic (k : key) : Prop :=
  match k with KNot _ | KOr _ _ | KAnd _ => False | _ => True end.

Lemma key_ind' (P : key -> Prop) :
  (forall k, atomic k -> P k) ->
  (forall k, P k -> P (KNot k)) ->
  (forall a b, P a -> P b -> P (KOr a b)) ->
  (forall ks, Forall P ks -> P (KAnd ks)) ->
  forall k, P k.
Proof.
  intros HA HN HO HL. fix IH 1. intros k.
  destruct k; try (apply HA; exact I).
  - apply HN, IH.
  - apply HO; apply IH.
  - apply HL. induction ks as [|x r IHr]; constructor; [apply IH|exact IHr].
Qed.

(* ------------------------------------------------- messages of a view *)
Lemma seqs_from_bound i v m : seqs_from i v = true -> In m v ->
  (i <= m_seq m /\ m_seq m < i + N.of_nat (length v))%N.
Proof.
  revert i; induction v as [|x r IH]; intros i H Hin; [destruct Hin|].
  cbn [seqs_from] in H. apply andb_true_iff in H as [H1 H2]. apply N.eqb_eq in H1.
  cbn [length]. destruct Hin as [<-|Hin]; [lia|].
  specialize (IH _ H2 Hin). lia.
Qed.

Lemma uids_asc_bound lo v d m : uids_asc lo v = true -> In m v ->
  (lo < m_uid m /\ m_uid m <= last (map m_uid v) d)%N.
Proof.
  revert lo m; induction v as [|x r IH]; intros lo m H Hin; [destruct Hin|].
  cbn [uids_asc] in H. apply andb_true_iff in H as [H1 H2]. apply N.ltb_lt in H1.
  destruct r as [|y r'].
  - destruct Hin as [<-|[]]. cbn. lia.
  - assert (Hy : In y (y :: r')) by (left; reflexivity).
    pose proof (IH _ _ H2 Hy) as [Hy1 Hy2].
    change (last (map m_uid (x :: y :: r')) d) with (last (map m_uid (y :: r')) d).
    destruct Hin as [<-|Hin]; [lia|].
    destruct (IH _ _ H2 Hin) as [G1 G2]. lia.
Qed.

Lemma in_view_seq v m : wf_view v = true -> In m v -> (m_seq m <= v_exists v)%N.
Proof.
  unfold wf_view. rewrite !andb_true_iff. intros [[H _] _] Hin.
  pose proof (seqs_from_bound _ _ _ H Hin). unfold v_exists. lia.
Qed.

Lemma in_view_seq_pos v m : wf_view v = true -> In m v -> (1 <= m_seq m)%N.
Proof.
  unfold wf_view. rewrite !andb_true_iff. intros [[H _] _] Hin.
  pose proof (seqs_from_bound _ _ _ H Hin). lia.
Qed.

Lemma in_view_uid v m : wf_view v = true -> In m v -> (m_uid m <= v_maxuid v)%N.
Proof.
  unfold wf_view. rewrite !andb_true_iff. intros [[_ H] _] Hin.
  apply (uids_asc_bound _ _ 0%N _ H Hin).
Qed.

Lemma in_view_wf v m : wf_view v = true -> In m v -> wf_msg m = true.
Proof.
  unfold wf_view. rewrite !andb_true_iff. intros [_ H] Hin.
  rewrite forallb_forall in H. apply H, Hin.
Qed.

(* ------------------------------------------------------------- headers *)
Lemma header_filter_ci name m :
  filter (fun h => bytes_eqb (header_key (fst h)) (lower name)) (m_headers m) =
  filter (fun h => ci_eqb (strip_ws (fst h)) name) (m_headers m).
Proof. reflexivity. Qed.

Lemma get_header_has name value m :
  existsb (contains_ci value) (get_header name m) = header_has name value m.
Proof.
  unfold get_header, header_has. rewrite header_filter_ci.
  induction (m_headers m) as [|[hn hv] r IH]; [reflexivity|].
  cbn [filter existsb fst snd]. destruct (ci_eqb (strip_ws hn) name); cbn [map existsb andb fst snd].
  - rewrite IH. reflexivity.
  - exact IH.
Qed.

Lemma get_header_first name m :
  match get_header name m with [] => None | s :: _ => Some s end = first_header name m.
Proof.
  unfold get_header, first_header. rewrite header_filter_ci.
  destruct (filter _ _); reflexivity.
Qed.

(* ---------------------------------------------------------- BODY / TEXT *)
Definition part_hit (needle : bytes) (p : part) : bool :=
  contains_ci needle (p_header p) || (p_text p && contains_ci needle (p_body p)).

Lemma contains_parts_rest needle wh ps :
  contains_parts needle wh false ps = existsb (part_hit needle) ps.
Proof.
  induction ps as [|p r IH]; [reflexivity|]. cbn [contains_parts existsb]. unfold part_hit at 1.
  rewrite IH. rewrite orb_true_r. cbn [andb].
  destruct (contains_ci needle (p_header p)); [reflexivity|].
  destruct (p_text p && contains_ci needle (p_body p)); reflexivity.
Qed.

Lemma existsb_part_hit needle ps :
  existsb (part_hit needle) ps =
  existsb (fun p => p_text p && contains_ci needle (p_body p)) ps
  || existsb (fun p => contains_ci needle (p_header p)) ps.
Proof.
  induction ps as [|p r IH]; [reflexivity|]. cbn [existsb]. rewrite IH. unfold part_hit.
  destruct (contains_ci needle (p_header p)), (p_text p && contains_ci needle (p_body p)),
    (existsb (fun p0 => p_text p0 && contains_ci needle (p_body p0)) r); reflexivity.
Qed.

Lemma contains_body needle m :
  contains_parts needle false true (m_parts m) = in_msg_body needle m.
Proof.
  unfold in_msg_body. destruct (m_parts m) as [|p r]; [reflexivity|].
  cbn [contains_parts tl existsb orb negb andb]. rewrite contains_parts_rest, existsb_part_hit.
  destruct (p_text p && contains_ci needle (p_body p)); reflexivity.
Qed.

Lemma contains_text needle m :
  contains_parts needle true true (m_parts m) = in_msg_header needle m || in_msg_body needle m.
Proof.
  unfold in_msg_header, in_msg_body. destruct (m_parts m) as [|p r]; [reflexivity|].
  cbn [contains_parts tl existsb orb negb andb]. rewrite contains_parts_rest, existsb_part_hit.
  destruct (contains_ci needle (p_header p)); [reflexivity|].
  destruct (p_text p && contains_ci needle (p_body p)); reflexivity.
Qed.

(* --------------------------------------------------- NOT = inverse flip *)
Lemma not_inverse_invol k : not_inverse (not_inverse k) = k.
Proof. destruct k; cbn; rewrite negb_involutive; reflexivity. Qed.

Lemma wrap_inv_flip inv r c :
  wrap_inv inv r = Ok c ->
  exists c', wrap_inv (negb inv) r = Ok c' /\ forall m, matches c' m = negb (matches c m).
Proof.
  destruct r as [c0| | |]; cbn; try discriminate. intros E. injection E as <-.
  destruct inv; cbn.
  - exists c0. split; [reflexivity|]. intros m. rewrite negb_involutive. reflexivity.
  - exists (CInv c0). split; reflexivity.
Qed.

Lemma crit_of_not_inverse dis p k c :
  crit_of dis p k = Ok c ->
  exists c', crit_of dis p (not_inverse k) = Ok c' /\ forall m, matches c' m = negb (matches c m).
Proof.
  destruct k as [n f inv|l inv|a b inv]; cbn [crit_of not_inverse].
  - destruct (mem_name n dis); [discriminate|]. apply wrap_inv_flip.
  - destruct (mem_name NKEYSET dis); [discriminate|]. rewrite row_keyset. apply wrap_inv_flip.
  - destruct (mem_name NOR dis); [discriminate|]. rewrite row_or. apply wrap_inv_flip.
Qed.

(* ------------------------------------------------- list of keys = KEYSET *)
Lemma crit_of_set dis p l inv :
  crit_of dis p (SKSet l inv) =
  if mem_name NKEYSET dis then Exc EXC_NOTALLOWED
  else wrap_inv inv (bind (crits_of dis p l) (fun cs => Ok (CSet cs))).
Proof.
  cbn [crit_of]. destruct (mem_name NKEYSET dis); [reflexivity|]. rewrite row_keyset. f_equal. f_equal.
  induction l as [|x r IH]; [reflexivity|]. cbn [crits_of]. rewrite IH. reflexivity.
Qed.

(* a key agrees when, on every well-formed view, of() succeeds and the
   criteria object decides exactly what the RFC evaluator decides *)
Definition agrees (k : key) : Prop :=
  forall v, wf_view v = true -> wf_key k = true ->
  exists c, crit_of [] (params_of v) (compile k) = Ok c /\
            forall m, In m v -> matches c m = eval_spec k m v.

Lemma crits_agree ks : Forall agrees ks ->
  forall v, wf_view v = true -> forallb wf_key ks = true ->
  exists cs, crits_of [] (params_of v) (map compile ks) = Ok cs /\
             forall m, In m v ->
               forallb (fun c => matches c m) cs = forallb (fun k => eval_spec k m v) ks.
Proof.
  induction 1 as [|k r Hk _ IH]; intros v Hv Hwf.
  - exists []. split; [reflexivity|]. reflexivity.
  - cbn [forallb] in Hwf. apply andb_true_iff in Hwf as [W1 W2].
    destruct (Hk v Hv W1) as (c & E & M). destruct (IH v Hv W2) as (cs & Es & Ms).
    exists (c :: cs). split.
    + cbn [map crits_of]. rewrite E. cbn [bind]. rewrite Es. reflexivity.
    + intros m Hm. cbn [forallb]. rewrite (M m Hm), (Ms m Hm). reflexivity.
Qed.

Lemma atomic_agrees k : atomic k -> agrees k.
Proof.
  intros A v Hv Hwf.
  destruct k; try destruct A;
    try (eexists; split; [reflexivity|]; intros m Hm; cbn [matches eval_spec]).
  - (* ALL *) reflexivity.
  - (* flag set *)
    destruct f; (eexists; split; [reflexivity|]; intros m Hm; cbn [matches eval_spec];
      destruct (has_flag _ m); reflexivity).
  - (* flag unset *)
    destruct f; (eexists; split; [reflexivity|]; intros m Hm; cbn [matches eval_spec];
      destruct (has_flag _ m); reflexivity).
  - (* NEW *) reflexivity.
  - (* KEYWORD *) destruct (has_flag f m); reflexivity.
  - (* UNKEYWORD *) destruct (has_flag f m); reflexivity.
  - apply date_op_lt.
  - apply date_op_eq.
  - apply date_op_ge.
  - destruct (m_sdate m); [apply date_op_lt|reflexivity].
  - destruct (m_sdate m); [apply date_op_eq|reflexivity].
  - destruct (m_sdate m); [apply date_op_ge|reflexivity].
  - (* LARGER *) reflexivity.
  - (* SMALLER *) reflexivity.
  - (* HEADER *)
    cbn [wf_key] in Hwf. exists (CHeader name value). split.
    + cbn [compile crit_of mem_name existsb].
      change (crit_atom (params_of v) NHEADER (FHdr name value))
        with (bind (encode_ascii name) (fun nb => Ok (CHeader nb value))).
      unfold encode_ascii. rewrite Hwf. reflexivity.
    + intros m Hm. cbn [matches eval_spec]. apply get_header_has.
  - (* BCC CC FROM SUBJECT TO *)
    destruct h; (eexists; split; [reflexivity|]; intros m Hm; cbn [matches eval_spec]);
      try apply get_header_has.
    rewrite <- get_header_first. destruct (get_header (field_bytes HSubject) m); reflexivity.
  - (* BODY *) apply contains_body.
  - (* TEXT *) apply contains_text.
  - (* UID set *)
    cbn [params_of max_uid]. fold (mem_N (m_uid m) (seq_iter (v_maxuid v) s)).
    apply set_has_iter, (in_view_uid _ _ Hv Hm).
  - (* sequence set *)
    cbn [params_of max_seq]. fold (mem_N (m_seq m) (seq_iter (v_exists v) s)).
    apply set_has_iter, (in_view_seq _ _ Hv Hm).
  - reflexivity.
  - reflexivity.
Qed.

Theorem all_keys_agree : forall k, agrees k.
Proof.
  apply key_ind'.
  - exact atomic_agrees.
  - intros k IH v Hv Hwf. cbn [wf_key] in Hwf. destruct (IH v Hv Hwf) as (c & E & M).
    cbn [compile]. destruct (crit_of_not_inverse _ _ _ _ E) as (c' & E' & M').
    exists c'. split; [exact E'|]. intros m Hm. cbn [eval_spec]. rewrite M', (M m Hm). reflexivity.
  - intros a b IHa IHb v Hv Hwf. cbn [wf_key] in Hwf. apply andb_true_iff in Hwf as [Wa Wb].
    destruct (IHa v Hv Wa) as (ca & Ea & Ma). destruct (IHb v Hv Wb) as (cb & Eb & Mb).
    exists (COr ca cb). split.
    + cbn [compile crit_of mem_name existsb]. rewrite Ea, Eb. reflexivity.
    + intros m Hm. cbn [matches eval_spec]. rewrite (Ma m Hm), (Mb m Hm). reflexivity.
  - intros ks IH v Hv Hwf. cbn [wf_key] in Hwf.
    assert (Hwf' : forallb wf_key ks = true) by (destruct ks; [discriminate|exact Hwf]).
    destruct (crits_agree ks IH v Hv Hwf') as (cs & E & M).
    exists (CSet cs). split.
    + cbn [compile]. rewrite crit_of_set. cbn [mem_name existsb]. rewrite E. reflexivity.
    + intros m Hm. cbn [matches eval_spec]. apply M, Hm.
Qed.

(* C13, single key / single message form *)
Theorem model_matches_spec k m v :
  wf_view v = true -> In m v -> wf_key k = true ->
  model_matches (compile k) m v = Ok (eval_spec k m v).
Proof.
  intros Hv Hm Hwf. destruct (all_keys_agree k v Hv Hwf) as (c & E & M).
  unfold model_matches. rewrite E. cbn [bind]. rewrite (M m Hm). reflexivity.
Qed.

(* ------------------------------------------------------- the pre-filter *)
(* every top-level SequenceSetSearchCriteria carries the flattening of its
   own set against the view's maxima *)
Lemma build_crit_cseq p ck f uid s flat :
  build_crit p ck f = Ok (CSeq uid s flat) ->
  flat = seq_iter (if uid then max_uid p else max_seq p) s.
Proof.
  destruct ck, f; cbn; try discriminate;
    try (intros E; injection E as <- <- <-; reflexivity).
  destruct (encode_ascii name); cbn; discriminate.
Qed.

Lemma crit_of_cseq dis p k uid s flat :
  crit_of dis p k = Ok (CSeq uid s flat) ->
  flat = seq_iter (if uid then max_uid p else max_seq p) s.
Proof.
  destruct k as [n f inv|l inv|a b inv]; cbn [crit_of].
  - destruct (mem_name n dis); [discriminate|].
    destruct inv.
    + unfold wrap_inv. destruct (crit_atom p n f); cbn; intros E; discriminate E || inversion E.
    + unfold wrap_inv, crit_atom. destruct (row_crit n) as [ck|]; [|discriminate].
      destruct (build_crit p ck f) as [c| | |] eqn:E; cbn; try discriminate.
      intros H. injection H as ->. apply (build_crit_cseq _ _ _ _ _ _ E).
  - destruct (mem_name NKEYSET dis); [discriminate|]. rewrite row_keyset. unfold wrap_inv.
    match goal with |- bind (bind ?x _) _ = _ -> _ => destruct x end; cbn; try discriminate.
    destruct inv; discriminate.
  - destruct (mem_name NOR dis); [discriminate|]. rewrite row_or. unfold wrap_inv.
    destruct (crit_of dis p a); cbn; try discriminate.
    destruct (crit_of dis p b); cbn; try discriminate. destruct inv; discriminate.
Qed.

Lemma crits_of_cseq dis p prog cs uid s :
  crits_of dis p prog = Ok cs -> In (uid, s) (seq_crits cs) ->
  In (CSeq uid s (seq_iter (if uid then max_uid p else max_seq p) s)) cs.
Proof.
  revert cs; induction prog as [|k r IH]; intros cs E Hin.
  - injection E as <-. destruct Hin.
  - cbn [crits_of] in E. destruct (crit_of dis p k) as [c| | |] eqn:Ek; try discriminate.
    cbn [bind] in E. destruct (crits_of dis p r) as [cs'| | |] eqn:Er; try discriminate.
    injection E as <-. specialize (IH cs' eq_refl).
    destruct c; cbn [seq_crits] in Hin; try (right; apply IH; exact Hin).
    destruct Hin as [Hx|Hin]; [|right; apply IH; exact Hin].
    injection Hx as -> ->. left. f_equal. apply (crit_of_cseq _ _ _ _ _ _ Ek).
Qed.

Lemma sequence_set_in choice cs x :
  sequence_set choice cs = Some x -> In x (seq_crits cs).
Proof.
  unfold sequence_set. destruct (seq_crits cs) as [|y l] eqn:E; [discriminate|].
  intros H. apply nth_error_In in H. exact H.
Qed.

Lemma filter_filter_imp {A} (P Q : A -> bool) l :
  (forall x, In x l -> P x = true -> Q x = true) ->
  filter P (filter Q l) = filter P l.
Proof.
  induction l as [|x r IH]; intros H; [reflexivity|]. cbn [filter].
  destruct (Q x) eqn:EQ; cbn [filter].
  - rewrite IH; [reflexivity|]. intros y Hy. apply H. right; exact Hy.
  - destruct (P x) eqn:EP.
    + rewrite (H x (or_introl eq_refl) EP) in EQ. discriminate.
    + apply IH. intros y Hy. apply H. right; exact Hy.
Qed.

Lemma filter_all_true {A} (Q : A -> bool) l :
  (forall x, In x l -> Q x = true) -> filter Q l = l.
Proof.
  induction l as [|x r IH]; intros H; [reflexivity|]. cbn [filter].
  rewrite (H x (or_introl eq_refl)). f_equal. apply IH. intros y Hy. apply H. right; exact Hy.
Qed.

Lemma find_all v : wf_view v = true -> find None v = v.
Proof.
  intros Hv. unfold find. apply filter_all_true. intros m Hm.
  apply mem_N_In, in_nrange.
  pose proof (in_view_seq _ _ Hv Hm). pose proof (in_view_seq_pos _ _ Hv Hm). lia.
Qed.

(* the sequence_set pre-filter never changes the result, whichever of the
   top-level sequence-set criteria the set iteration order puts first *)
Theorem prefilter_sound dis prog v cs choice :
  wf_view v = true ->
  crits_of dis (params_of v) prog = Ok cs ->
  filter (fun m => forallb (fun c => matches c m) cs) (find (sequence_set choice cs) v) =
  filter (fun m => forallb (fun c => matches c m) cs) v.
Proof.
  intros Hv E. destruct (sequence_set choice cs) as [[uid s]|] eqn:Es.
  - apply sequence_set_in in Es. pose proof (crits_of_cseq _ _ _ _ _ _ E Es) as Hin.
    cbn [params_of max_uid max_seq] in Hin.
    destruct uid; unfold find; apply filter_filter_imp; intros m Hm Hall;
      rewrite forallb_forall in Hall; apply (Hall _ Hin).
  - rewrite (find_all _ Hv). reflexivity.
Qed.

(* --------------------------------------------- C13, whole-command form *)
Theorem search_model_spec choice uid prog v :
  wf_view v = true -> forallb wf_key prog = true ->
  search_model [] choice uid (map compile prog) v = Ok (spec_search uid prog v).
Proof.
  intros Hv Hwf.
  assert (HF : Forall agrees prog) by (apply Forall_forall; intros k _; apply all_keys_agree).
  destruct (crits_agree prog HF v Hv Hwf) as (cs & E & M).
  unfold search_model. rewrite E. cbn [bind]. f_equal. unfold search_crits, spec_search.
  rewrite (prefilter_sound _ _ _ _ choice Hv E). f_equal.
  apply filter_ext_in. intros m Hm. apply M, Hm.
Qed.

(* the frozenset of keys: neither the iteration order nor duplicates matter *)
Theorem conj_order_irrelevant cs1 cs2 m :
  (forall c, In c cs1 <-> In c cs2) ->
  forallb (fun c => matches c m) cs1 = forallb (fun c => matches c m) cs2.
Proof.
  intros H. apply eq_true_iff_eq. rewrite !forallb_forall.
  split; intros G c Hc; apply G, H, Hc.
Qed.

Theorem spec_order_irrelevant uid p1 p2 v :
  (forall k, In k p1 <-> In k p2) -> spec_search uid p1 v = spec_search uid p2 v.
Proof.
  intros H. unfold spec_search. f_equal. apply filter_ext. intros m. unfold sat.
  apply eq_true_iff_eq. rewrite !forallb_forall. split; intros G k Hk; apply G, H, Hk.
Qed.

(* ------------------------------------------------- UID SEARCH vs SEARCH *)
(* the UID of the message numbered n in the view *)
Definition uid_at (v : view) (n : N) : option N :=
  option_map m_uid (List.find (fun m => (m_seq m =? n)%N) v).

Lemma seqs_from_find i v m : seqs_from i v = true -> In m v ->
  List.find (fun x => (m_seq x =? m_seq m)%N) v = Some m.
Proof.
  revert i; induction v as [|x r IH]; intros i H Hin; [destruct Hin|].
  cbn [seqs_from] in H. apply andb_true_iff in H as [H1 H2]. apply N.eqb_eq in H1.
  cbn [List.find]. destruct Hin as [<-|Hin]; [rewrite N.eqb_refl; reflexivity|].
  pose proof (seqs_from_bound _ _ _ H2 Hin) as [B _].
  destruct (m_seq x =? m_seq m)%N eqn:E; [apply N.eqb_eq in E; lia|].
  apply (IH _ H2 Hin).
Qed.

Lemma uid_at_in v m : wf_view v = true -> In m v -> uid_at v (m_seq m) = Some (m_uid m).
Proof.
  unfold wf_view. rewrite !andb_true_iff. intros [[H _] _] Hin.
  unfold uid_at. rewrite (seqs_from_find _ _ _ H Hin). reflexivity.
Qed.

Theorem uid_vs_seq choice prog v :
  wf_view v = true -> forallb wf_key prog = true ->
  exists rs ru,
    search_model [] choice false (map compile prog) v = Ok rs /\
    search_model [] choice true (map compile prog) v = Ok ru /\
    Forall2 (fun s u => uid_at v s = Some u) rs ru.
Proof.
  intros Hv Hwf. exists (spec_search false prog v), (spec_search true prog v).
  split; [apply search_model_spec; assumption|].
  split; [apply search_model_spec; assumption|].
  unfold spec_search.
  assert (G : forall l, incl l v ->
            Forall2 (fun s u => uid_at v s = Some u) (map m_seq l) (map m_uid l)).
  { induction l as [|m r IH]; intros Hi; [constructor|]. cbn [map]. constructor.
    - apply uid_at_in; [exact Hv|]. apply Hi. left; reflexivity.
    - apply IH. intros x Hx. apply Hi. right; exact Hx. }
  apply G. intros m Hm. apply filter_In in Hm as [Hm _]. exact Hm.
Qed.

(* ... and the correspondence is one-to-one: distinct numbers, distinct UIDs *)
Lemma uids_asc_distinct lo v m1 m2 : uids_asc lo v = true ->
  In m1 v -> In m2 v -> m_uid m1 = m_uid m2 -> forall i, seqs_from i v = true -> m_seq m1 = m_seq m2.
Proof.
  revert lo; induction v as [|x r IH]; intros lo H H1 H2 E i S; [destruct H1|].
  cbn [uids_asc] in H. apply andb_true_iff in H as [Ha Hb].
  cbn [seqs_from] in S. apply andb_true_iff in S as [Sa Sb].
  destruct H1 as [<-|H1], H2 as [<-|H2]; try reflexivity.
  - pose proof (uids_asc_bound _ _ 0%N _ Hb H2). lia.
  - pose proof (uids_asc_bound _ _ 0%N _ Hb H1). lia.
  - apply (IH _ Hb H1 H2 E _ Sb).
Qed.

Theorem uid_at_injective v m1 m2 : wf_view v = true -> In m1 v -> In m2 v ->
  uid_at v (m_seq m1) = uid_at v (m_seq m2) -> m_seq m1 = m_seq m2.
Proof.
  intros Hv H1 H2. rewrite (uid_at_in _ _ Hv H1), (uid_at_in _ _ Hv H2). intros E.
  injection E as E. revert Hv. unfold wf_view. rewrite !andb_true_iff. intros [[S U] _].
  apply (uids_asc_distinct _ _ _ _ U H1 H2 E _ S).
Qed.

(* --------------------------------------- logically equivalent programs *)
Theorem equivalent_programs choice uid p1 p2 v :
  wf_view v = true -> forallb wf_key p1 = true -> forallb wf_key p2 = true ->
  (forall m, In m v -> sat p1 v m = sat p2 v m) ->
  search_model [] choice uid (map compile p1) v = search_model [] choice uid (map compile p2) v.
Proof.
  intros Hv W1 W2 H. rewrite !search_model_spec by assumption. f_equal.
  unfold spec_search. f_equal. apply filter_ext_in. exact H.
Qed.

Section Laws.
  Variables (choice : nat) (uid : bool) (v : view) (rest : list key).
  Hypothesis Hv : wf_view v = true.
  Hypothesis Hrest : forallb wf_key rest = true.

  Let run (p : list key) := search_model [] choice uid (map compile (p ++ rest)) v.

  Lemma law p1 p2 :
    forallb wf_key p1 = true -> forallb wf_key p2 = true ->
    (forall m, forallb (fun k => eval_spec k m v) p1 = forallb (fun k => eval_spec k m v) p2) ->
    run p1 = run p2.
  Proof.
    intros W1 W2 H. unfold run. apply equivalent_programs; try exact Hv.
    - rewrite forallb_app, W1, Hrest. reflexivity.
    - rewrite forallb_app, W2, Hrest. reflexivity.
    - intros m _. unfold sat. rewrite !forallb_app, H. reflexivity.
  Qed.

  Theorem not_not k : wf_key k = true -> run [KNot (KNot k)] = run [k].
  Proof.
    intros W. apply law; cbn [forallb wf_key]; try (rewrite W; reflexivity).
    intros m. cbn [forallb eval_spec]. rewrite negb_involutive. reflexivity.
  Qed.

  (* the same with the parenthesised spelling NOT (NOT k) *)
  Theorem not_not_paren k : wf_key k = true -> run [KNot (KAnd [KNot k])] = run [k].
  Proof.
    intros W. apply law; cbn [forallb wf_key]; try (rewrite W; reflexivity).
    intros m. cbn [forallb eval_spec]. rewrite !andb_true_r, negb_involutive. reflexivity.
  Qed.

  Theorem or_comm a b : wf_key a = true -> wf_key b = true -> run [KOr a b] = run [KOr b a].
  Proof.
    intros Wa Wb. apply law; cbn [forallb wf_key]; try (rewrite Wa, Wb; reflexivity).
    intros m. cbn [forallb eval_spec]. rewrite orb_comm. reflexivity.
  Qed.

  Theorem and_assoc a b c : wf_key a = true -> wf_key b = true -> wf_key c = true ->
    run [KAnd [a; KAnd [b; c]]] = run [KAnd [KAnd [a; b]; c]] /\
    run [KAnd [a; KAnd [b; c]]] = run [a; b; c].
  Proof.
    intros Wa Wb Wc. split; (apply law; cbn [forallb wf_key]; try (rewrite Wa, Wb, Wc; reflexivity));
      intros m; cbn [forallb eval_spec];
      destruct (eval_spec a m v), (eval_spec b m v), (eval_spec c m v); reflexivity.
  Qed.

  Theorem demorgan a b : wf_key a = true -> wf_key b = true ->
    run [KNot (KOr a b)] = run [KNot a; KNot b] /\
    run [KNot (KAnd [a; b])] = run [KOr (KNot a) (KNot b)].
  Proof.
    intros Wa Wb. split; (apply law; cbn [forallb wf_key]; try (rewrite Wa, Wb; reflexivity));
      intros m; cbn [forallb eval_spec];
      destruct (eval_spec a m v), (eval_spec b m v); reflexivity.
  Qed.
End Laws.

(* NOT NOT k is represented by the very same parser value as k *)
Theorem compile_not_not k : compile (KNot (KNot k)) = compile k.
Proof. cbn [compile]. apply not_inverse_invol. Qed.

(* the boolean membership test of Spec.v is RFC 3501's meaning of a set
   (Wire/SeqSet.v [denotes]) for every number in use *)
Theorem set_has_denotes mx s n : (n <= mx)%N -> (set_has mx s n = true <-> denotes mx s n).
Proof. intros H. rewrite <- (set_has_iter _ _ _ H), mem_N_In. apply flatten_spec. Qed.

(* a disabled key anywhere in the program refuses the whole command *)
Lemma crit_of_disabled_atom dis p n f inv :
  mem_name n dis = true -> crit_of dis p (SKAtom n f inv) = Exc EXC_NOTALLOWED.
Proof. intros H. cbn [crit_of]. rewrite H. reflexivity. Qed.

(* ---- the hypotheses are satisfiable by a non-trivial value *)
Definition ex_msg (uid seq : N) (fl : list bytes) (d : date) : msg :=
  mkMsg uid seq fl 100 d None None
        [([83;117;98;106;101;99;116;32]%N, [72;105]%N)]
        [mkPart [83;117;98;106;101;99;116;58;32;72;105;13;10;13;10]%N true [98;111;100;121]%N]
        [] [].
Definition ex_view : view :=
  [ ex_msg 101 1 [flag_bytes FSeen] (2019, 1, 1)%N;
    ex_msg 105 2 [] (2019, 1, 2)%N;
    ex_msg 109 3 [flag_bytes FRecent] (2019, 1, 2)%N ].
Definition ex_prog : list key :=
  [ KOr (KSeq [SOne (SNum 1)]) (KNot (KAnd [KSet FRecent; KUid [SRange (SNum 105) SMax]]));
    KField HSubject [104]%N; KNot (KBody [72;105]%N); KSince (2019, 1, 1)%N ].

Example ex_hyps : wf_view ex_view = true /\ forallb wf_key ex_prog = true.
Proof. split; vm_compute; reflexivity. Qed.

Example ex_search :
  search_model [] 0 false (map compile ex_prog) ex_view = Ok [1; 2]%N /\
  search_model [] 0 true (map compile ex_prog) ex_view = Ok [101; 105]%N.
Proof. split; vm_compute; reflexivity. Qed.

(* ------------------------------------- SearchKey.requirement is sufficient *)
Lemma requirement_not_inverse k : requirement (not_inverse k) = requirement k.
Proof. destruct k; reflexivity. Qed.

Lemma land_lor_zero a b c :
  N.land (N.lor a b) c = 0%N -> N.land a c = 0%N /\ N.land b c = 0%N.
Proof. rewrite N.land_lor_distr_l. apply N.lor_eq_0_iff. Qed.

(* a key whose requirement asks for neither HEADER nor BODY builds criteria
   that never look at the message content *)
Definition content_free (k : key) : Prop :=
  forall dis p c, crit_of dis p (compile k) = Ok c ->
  N.land (requirement (compile k)) REQ_CONTENT = 0%N ->
  forall m, matches c (strip m) = matches c m.

Lemma crits_content_free ks : Forall content_free ks ->
  forall dis p cs, crits_of dis p (map compile ks) = Ok cs ->
  N.land (requirement_of (map compile ks)) REQ_CONTENT = 0%N ->
  forall m, forallb (fun c => matches c (strip m)) cs = forallb (fun c => matches c m) cs.
Proof.
  induction 1 as [|k r Hk _ IH]; intros dis p cs E R m.
  - injection E as <-. reflexivity.
  - cbn [map crits_of] in E. destruct (crit_of dis p (compile k)) as [c| | |] eqn:Ek; try discriminate.
    cbn [bind] in E. destruct (crits_of dis p (map compile r)) as [cs'| | |] eqn:Er; try discriminate.
    injection E as <-. cbn [map requirement_of fold_right] in R.
    apply land_lor_zero in R as [R1 R2]. cbn [forallb].
    rewrite (Hk _ _ _ Ek R1 m), (IH _ _ _ Er R2 m). reflexivity.
Qed.

Theorem requirement_sufficient : forall k, content_free k.
Proof.
  apply key_ind'.
  - intros k A dis p c E R m.
    destruct k; try destruct A; cbn [compile crit_of] in E;
      destruct (mem_name _ dis); try discriminate E;
      try (destruct f); try (destruct h);
      cbn in E; cbn in R; try discriminate R;
      try (injection E as <-; reflexivity).
  - intros k IH dis p c' E R m. cbn [compile] in E, R. rewrite requirement_not_inverse in R.
    destruct (crit_of_not_inverse _ _ _ _ E) as (c & Ec & M).
    rewrite not_inverse_invol in Ec.
    assert (G : forall x, matches c' x = negb (matches c x)).
    { intros x. rewrite (M x), negb_involutive. reflexivity. }
    rewrite !G, (IH _ _ _ Ec R m). reflexivity.
  - intros a b IHa IHb dis p c E R m. cbn [compile crit_of] in E.
    destruct (mem_name NOR dis); [discriminate|]. rewrite row_or in E.
    destruct (crit_of dis p (compile a)) as [ca| | |] eqn:Ea; try discriminate.
    destruct (crit_of dis p (compile b)) as [cb| | |] eqn:Eb; try discriminate.
    cbn in E. injection E as <-. cbn [compile requirement] in R.
    apply land_lor_zero in R as [_ R]. apply land_lor_zero in R as [Ra Rb]. cbn [matches].
    rewrite (IHa _ _ _ Ea Ra m), (IHb _ _ _ Eb Rb m). reflexivity.
  - intros ks IH dis p c E R m. cbn [compile] in E. rewrite crit_of_set in E.
    destruct (mem_name NKEYSET dis); [discriminate|].
    destruct (crits_of dis p (map compile ks)) as [cs| | |] eqn:Es; try discriminate.
    cbn in E. injection E as <-. cbn [matches].
    cbn [compile requirement] in R. apply land_lor_zero in R as [_ R].
    apply (crits_content_free ks IH _ _ _ Es R m).
Qed.

(* whether the backend loads the content always (dict) or only when the
   reduced requirement asks for it (maildir) does not change the result *)
Theorem search_backend_irrelevant always dis choice uid prog v :
  search_backend always dis choice uid (map compile prog) v =
  search_model dis choice uid (map compile prog) v.
Proof.
  unfold search_backend, search_model, search_crits.
  destruct (content_loaded always (requirement_of (map compile prog))) eqn:L; [reflexivity|].
  destruct (crits_of dis (params_of v) (map compile prog)) as [cs| | |] eqn:E; try reflexivity.
  cbn [bind]. do 2 f_equal. apply filter_ext. intros m.
  unfold content_loaded in L. apply orb_false_iff in L as [_ L].
  apply negb_false_iff, N.eqb_eq in L.
  assert (HF : Forall content_free prog) by (apply Forall_forall; intros k _; apply requirement_sufficient).
  apply (crits_content_free prog HF _ _ _ E L m).
Qed.

(* ------------------------------- the generated grammar table vs the RFC keys *)
(* every RFC key that starts with a keyword is in SearchKey.parse's table with
   the argument shape the RFC gives it, and the branch constructs the key name
   [compile] uses *)
Theorem grammar_has_key k w sh : key_word k = Some (w, sh) ->
  find_grow grammar_table w = Some (mk_grow w sh (skey_name (compile k))).
Proof.
  destruct k; try destruct f; try destruct h; cbn [key_word set_word unset_word field_word];
    intros E; try discriminate E; injection E as <- <-; reflexivity.
Qed.

(* ... and the filter [compile] attaches has that shape *)
Theorem compile_filter_shape k w sh : key_word k = Some (w, sh) ->
  match compile k with
  | SKAtom _ f _ => shape_of_filter f = Some sh
  | SKOr _ _ _ => sh = ShOr
  | SKSet _ _ => False
  end.
Proof.
  destruct k; try destruct f; try destruct h; cbn [key_word]; intros E; try discriminate E;
    injection E as <- <-; reflexivity.
Qed.

(* the parser accepts no keyword outside the RFC keys; every key name has one
   dispatch row; no key is disabled by default; and the prefix of
   SearchKey.parse consumes NOT repeatedly, reads a bare set as sequence
   numbers even inside UID SEARCH and refuses "()" *)
Theorem tables_closed :
  grammar_only_rfc = true /\ dispatch_complete = true /\ default_disabled = [] /\
  not_repeats = true /\ bare_set_uid = false /\ keyset_nonempty = true.
Proof. repeat split; vm_compute; reflexivity. Qed.

(* an empty KEYSET would match everything (all([]) is True): it is the parser
   (keyset_nonempty) that keeps it out *)
Lemma empty_keyset_matches_all m : matches (CSet []) m = true.
Proof. reflexivity. Qed.
