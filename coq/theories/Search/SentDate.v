(* Search/SentDate.v — model of the date that SENTBEFORE/SENTON/SENTSINCE see:
   email.headerregistry.DateHeader.parse -> email.utils.parsedate_to_datetime
   -> email._parseaddr._parsedate_tz -> datetime.datetime(...), then .date()
   (pymap/search.py HeaderDateSearchCriteria; after /repo ef586d5 an
   unparsable Date: is "no date", not an exception).  Input: the source value of
   the Date: field (after the colon, unfolded), as a list of code points.
   Result: [SdSome d] the calendar date written in the header (its own zone:
   the zone only has to be in range), [SdNone] no date, [SdUnmodelled] a
   corner of the stdlib parser this model does not follow (RFC 850 dates,
   '.'-separated times, signs/underscores/non-ASCII digits in numbers,
   non-ASCII white space) — there the observed value stays oracle data.
   Definitions only. *)
From PV Require Import Base.Prelude Search.Text Search.Keys.

Inductive sd := SdSome (d : date) | SdNone | SdUnmodelled.

Definition is_ws (c : N) : bool :=
  ((c =? 32) || ((9 <=? c) && (c <=? 13)) || ((28 <=? c) && (c <=? 31)))%N.
Definition is_dig (c : N) : bool := ((48 <=? c) && (c <=? 57))%N.

(* str.split() on ASCII white space *)
Fixpoint split_ws_aux (s : str) (cur : str) (acc : list str) : list str :=
  match s with
  | [] => rev (match cur with [] => acc | _ => rev cur :: acc end)
  | c :: r => if is_ws c then split_ws_aux r [] (match cur with [] => acc | _ => rev cur :: acc end)
              else split_ws_aux r (c :: cur) acc
  end.
Definition split_ws (s : str) : list str := split_ws_aux s [] [].

(* str.split(sep) for a one-character separator *)
Fixpoint split_on_aux (sep : N) (s cur : str) (acc : list str) : list str :=
  match s with
  | [] => rev (rev cur :: acc)
  | c :: r => if (c =? sep)%N then split_on_aux sep r [] (rev cur :: acc)
              else split_on_aux sep r (c :: cur) acc
  end.
Definition split_on (sep : N) (s : str) : list str := split_on_aux sep s [] [].

Definition str_eqb : str -> str -> bool := eqb_list N.eqb.
Definition last_is (c : N) (s : str) : bool :=
  match rev s with x :: _ => (x =? c)%N | [] => false end.
Definition drop_last (s : str) : str := rev (tl (rev s)).
Fixpoint find_char (c : N) (s : str) (i : nat) : option nat :=
  match s with [] => None | x :: r => if (x =? c)%N then Some i else find_char c r (S i) end.
Fixpoint rfind_char (c : N) (s : str) (i : nat) (best : option nat) : option nat :=
  match s with [] => best
             | x :: r => rfind_char c r (S i) (if (x =? c)%N then Some i else best) end.

Definition COMMA : N := 44. Definition COLON : N := 58. Definition DOT : N := 46.
Definition PLUS : N := 43. Definition MINUS : N := 45. Definition UNDERSCORE : N := 95.

(* _monthnames (index, 0-based) and _daynames; names as lower-case ASCII *)
Definition month_names : list str :=
  [ [106;97;110]; [102;101;98]; [109;97;114]; [97;112;114]; [109;97;121]; [106;117;110];
    [106;117;108]; [97;117;103]; [115;101;112]; [111;99;116]; [110;111;118]; [100;101;99];
    [106;97;110;117;97;114;121]; [102;101;98;114;117;97;114;121]; [109;97;114;99;104];
    [97;112;114;105;108]; [109;97;121]; [106;117;110;101]; [106;117;108;121];
    [97;117;103;117;115;116]; [115;101;112;116;101;109;98;101;114]; [111;99;116;111;98;101;114];
    [110;111;118;101;109;98;101;114]; [100;101;99;101;109;98;101;114] ]%N.
Definition day_names : list str :=
  [ [109;111;110]; [116;117;101]; [119;101;100]; [116;104;117]; [102;114;105]; [115;97;116];
    [115;117;110] ]%N.
Fixpoint index_of (x : str) (l : list str) (i : N) : option N :=
  match l with [] => None | y :: r => if str_eqb x y then Some i else index_of x r (i + 1)%N end.

(* _timezones, keys upper-case: value in +-HHMM *)
Definition zone_names : list (str * Z) :=
  [ ([85;84]%N, (0)%Z);
    ([85;84;67]%N, (0)%Z);
    ([71;77;84]%N, (0)%Z);
    ([90]%N, (0)%Z);
    ([65;83;84]%N, (-400)%Z);
    ([65;68;84]%N, (-300)%Z);
    ([69;83;84]%N, (-500)%Z);
    ([69;68;84]%N, (-400)%Z);
    ([67;83;84]%N, (-600)%Z);
    ([67;68;84]%N, (-500)%Z);
    ([77;83;84]%N, (-700)%Z);
    ([77;68;84]%N, (-600)%Z);
    ([80;83;84]%N, (-800)%Z);
    ([80;68;84]%N, (-700)%Z) ].
Fixpoint zone_of (x : str) (l : list (str * Z)) : option Z :=
  match l with [] => None | (k, v) :: r => if str_eqb x k then Some v else zone_of x r end.

Definition upper_c (c : N) : N := if ((97 <=? c) && (c <=? 122))%N then (c - 32)%N else c.
Definition all_ascii (s : str) : bool := forallb (fun c => c <? 128)%N s.

(* int(s): IOk for a plain run of ASCII digits; IBad (ValueError) when a
   character can never be part of an int literal; IUnk otherwise (signs,
   underscores, non-ASCII digits) *)
Inductive ires := IOk (n : N) | IBad | IUnk.
Definition digits_val (s : str) : N := fold_left (fun a c => (a * 10 + (c - 48))%N) s 0%N.
Definition int_tok (s : str) : ires :=
  match s with
  | [] => IBad
  | _ => if forallb is_dig s then IOk (digits_val s)
         else if forallb (fun c => is_dig c || (c =? PLUS) || (c =? MINUS) || (c =? UNDERSCORE)
                                   || negb (c <? 128))%N s then IUnk
         else IBad
  end.
(* int(tz) with one leading sign *)
Inductive zres := ZOk (z : Z) | ZBad | ZUnk.
Definition int_signed (s : str) : zres :=
  match s with
  | c :: r =>
    if ((c =? PLUS) || (c =? MINUS))%N then
      match int_tok r with
      | IOk n => ZOk (if (c =? MINUS)%N then (- Z.of_N n)%Z else Z.of_N n)
      | IBad => ZBad
      | IUnk => ZUnk
      end
    else match int_tok s with IOk n => ZOk (Z.of_N n) | IBad => ZBad | IUnk => ZUnk end
  | [] => ZBad
  end.

Definition is_leap (y : N) : bool :=
  ((y mod 4 =? 0) && (negb (y mod 100 =? 0) || (y mod 400 =? 0)))%N.
Definition days_in_month (y m : N) : N :=
  match m with
  | 2 => if is_leap y then 29 else 28
  | 4 | 6 | 9 | 11 => 30
  | _ => 31
  end%N.

(* datetime.datetime(yy, mm, dd, hh, mi, ss[, tzinfo=timezone(timedelta(seconds=tz))]) *)
Definition datetime_ok (yy mm dd hh mi ss : N) (tz : option Z) : bool :=
  ((1 <=? yy) && (yy <=? 9999) && (1 <=? mm) && (mm <=? 12) && (1 <=? dd)
   && (dd <=? days_in_month yy mm) && (hh <? 24) && (mi <? 60) && (ss <? 60))%N
  && match tz with None => true | Some z => (Z.abs z <? 86400)%Z end.

(* the tail of _parsedate_tz once the five fields are known *)
Definition finish (dd mm yy tm tz : str) : sd :=
  match dd, mm, yy with
  | [], _, _ | _, [], _ | _, _, [] => SdNone
  | _, _, _ =>
    let mm := lower mm in
    let '(dd, mm, mi) :=
        match index_of mm month_names 0 with
        | Some i => (dd, mm, Some i)
        | None => (mm, lower dd, index_of (lower dd) month_names 0)
        end in
    match mi with
    | None => SdNone
    | Some i =>
      let mon := (if 12 <=? i then i + 1 - 12 else i + 1)%N in
      let dd := if last_is COMMA dd then drop_last dd else dd in
      let '(yy, tm) := match find_char COLON yy 0 with
                       | Some (S _) => (tm, yy)
                       | _ => (yy, tm) end in
      match yy, tm with
      | [], _ | _, [] => SdUnmodelled          (* IndexError paths of the original *)
      | _, _ =>
        let yy1 := if last_is COMMA yy then drop_last yy else yy in
        match yy1 with
        | [] => SdNone
        | y0 :: _ =>
          if negb (y0 <? 128)%N then SdUnmodelled else
          let '(yy2, tz) := if is_dig y0 then (yy1, tz) else (tz, yy1) in
          let tm := if last_is COMMA tm then drop_last tm else tm in
          match tm with
          | [] => SdUnmodelled
          | _ =>
          let parts := split_on COLON tm in
          let fields :=
              match parts with
              | [h; m] => Some (h, m, [48]%N)
              | [h; m; s] => Some (h, m, s)
              | _ => None
              end in
          match fields with
          | None => match parts with
                    | [one] => if existsb (N.eqb DOT) one then SdUnmodelled else SdNone
                    | _ => SdNone end
          | Some (h, m, s) =>
            match int_tok yy2, int_tok dd, int_tok h, int_tok m, int_tok s with
            | IOk y, IOk d, IOk hh, IOk mi', IOk ss =>
              let y := (if y <? 100 then (if 68 <? y then y + 1900 else y + 2000) else y)%N in
              if negb (all_ascii tz) then SdUnmodelled else
              let tzu := map upper_c tz in
              let off : option (option Z) :=        (* None = unmodelled *)
                  match zone_of tzu zone_names with
                  | Some z => Some (Some z)
                  | None =>
                    match int_signed tzu with
                    | ZOk z => if (z =? 0)%Z && match tzu with c :: _ => (c =? MINUS)%N | [] => false end
                               then Some None else Some (Some z)
                    | ZBad => Some None
                    | ZUnk => None
                    end
                  end in
              match off with
              | None => SdUnmodelled
              | Some o =>
                let secs := option_map (fun z => let a := Z.abs z in
                                                  (Z.sgn z * ((a / 100) * 3600 + (a mod 100) * 60))%Z) o in
                if datetime_ok y mon d hh mi' ss secs then SdSome (y, mon, d) else SdNone
              end
            | IBad, _, _, _, _ => SdNone
            | IOk _, IBad, _, _, _ => SdNone
            | IOk _, IOk _, IBad, _, _ => SdNone
            | IOk _, IOk _, IOk _, IBad, _ => SdNone
            | IOk _, IOk _, IOk _, IOk _, IBad => SdNone
            | _, _, _, _, _ => SdUnmodelled
            end
          end
          end
        end
      end
    end
  end.

Definition nth_str (l : list str) (i : nat) : str := nth i l [].

Definition parse_sent_date (value : str) : sd :=
  if negb (all_ascii value) then SdUnmodelled else
  match split_ws value with
  | [] => SdNone
  | d0 :: rest =>
    let data :=
        if last_is COMMA d0 || match index_of (lower d0) day_names 0 with Some _ => true | None => false end
        then rest
        else match rfind_char COMMA d0 0 None with
             | Some i => skipn (S i) d0 :: rest
             | None => d0 :: rest
             end in
    match data with
    | [_; _; _] => (* RFC 850 form when the first token has two '-' *)
      match data with
      | a :: _ => if Nat.eqb (length (split_on MINUS a)) 3 then SdUnmodelled else SdNone
      | [] => SdNone
      end
    | [a; b; c; s] =>
      let i := match find_char PLUS s 0 with Some i => Some i | None => find_char MINUS s 0 end in
      match i with
      | Some (S k) => finish a b c (firstn (S k) s) (skipn (S k) s)
      | _ => finish a b c s []
      end
    | a :: b :: c :: t :: z :: _ => finish a b c t z
    | _ => SdNone
    end
  end.
