(* Search/Spec.v — what RFC 3501 §6.4.4 says each search key tests, as a
   boolean evaluator over a message record and the view it belongs to.
   Written from the RFC text (quoted), not from pymap.  Definitions only. *)
From PV Require Import Base.Prelude Wire.SeqSet Search.Text Search.Keys Search.Msg.

(* sequence-set membership, RFC 3501 §9 seq-range: "*" is the largest number
   in use; "the order of the two values is not significant" *)
Definition elem_has (mx n : N) (e : selem) : bool :=
  match e with
  | SOne i => (n =? idx_val mx i)%N
  | SRange a b =>
    let x := idx_val mx a in let y := idx_val mx b in
    ((N.min x y <=? n) && (n <=? N.max x y))%N
  end.
Definition set_has (mx : N) (s : seqset) (n : N) : bool := existsb (elem_has mx n) s.

(* dates "disregarding time and timezone" *)
Definition date_ltb (a b : date) : bool :=
  let '(y1, m1, d1) := a in let '(y2, m2, d2) := b in
  ((y1 <? y2) || ((y1 =? y2) && ((m1 <? m2) || ((m1 =? m2) && (d1 <? d2)))))%N.

(* header field names are case-insensitive and white space before the colon
   is not part of the name (RFC 2822); the value test is
   "contains the specified string ... If the string to search is zero-length,
   this matches all messages that have a header line with the specified
   field-name regardless of the contents" *)
Definition header_has (name : bytes) (value : str) (m : msg) : bool :=
  existsb (fun h => ci_eqb (strip_ws (fst h)) name && contains_ci value (snd h)) (m_headers m).

(* the envelope's subject is that of the first Subject: line *)
Definition first_header (name : bytes) (m : msg) : option str :=
  match filter (fun h => ci_eqb (strip_ws (fst h)) name) (m_headers m) with
  | [] => None
  | h :: _ => Some (snd h)
  end.

(* BODY: "the body of the message" — every octet after the message header:
   the text bodies and the MIME part headers, not the message header itself.
   TEXT: "the header or body of the message". *)
Definition in_msg_header (needle : bytes) (m : msg) : bool :=
  match m_parts m with
  | [] => false
  | p :: _ => contains_ci needle (p_header p)
  end.
Definition in_msg_body (needle : bytes) (m : msg) : bool :=
  existsb (fun p => p_text p && contains_ci needle (p_body p)) (m_parts m)
  || existsb (fun p => contains_ci needle (p_header p)) (tl (m_parts m)).

Fixpoint eval_spec (k : key) (m : msg) (v : view) : bool :=
  match k with
  | KAll => true
  | KSet f => has_flag (flag_bytes f) m
  | KUnset f => negb (has_flag (flag_bytes f) m)
  (* NEW: "have the \Recent flag set but not the \Seen flag" *)
  | KNew => has_flag (flag_bytes FRecent) m && negb (has_flag (flag_bytes FSeen) m)
  | KKeyword f => has_flag f m
  | KUnkeyword f => negb (has_flag f m)
  (* BEFORE "earlier than", ON "within", SINCE "within or later than" *)
  | KBefore d => date_ltb (m_idate m) d
  | KOn d => date_eqb (m_idate m) d
  | KSince d => date_eqb (m_idate m) d || date_ltb d (m_idate m)
  | KSentBefore d => match m_sdate m with Some s => date_ltb s d | None => false end
  | KSentOn d => match m_sdate m with Some s => date_eqb s d | None => false end
  | KSentSince d => match m_sdate m with Some s => date_eqb s d || date_ltb d s | None => false end
  (* LARGER "size larger than", SMALLER "size smaller than" *)
  | KLarger n => (n <? m_size m)%N
  | KSmaller n => (m_size m <? n)%N
  | KHeader name value => header_has name value m
  | KField HSubject value =>
    match first_header (field_bytes HSubject) m with
    | Some s => contains_ci value s
    | None => false
    end
  | KField h value => header_has (field_bytes h) value m
  | KBody s => in_msg_body (utf8_encode s) m
  | KText s => in_msg_header (utf8_encode s) m || in_msg_body (utf8_encode s) m
  | KUid s => set_has (v_maxuid v) s (m_uid m)
  | KSeq s => set_has (v_exists v) s (m_seq m)
  | KEmailId id => bytes_eqb id (m_emailid m)
  | KThreadId id => bytes_eqb id (m_threadid m)
  | KNot k' => negb (eval_spec k' m v)
  | KOr a b => eval_spec a m v || eval_spec b m v
  | KAnd ks => forallb (fun k' => eval_spec k' m v) ks
  end.

(* a program (the key list of a SEARCH command) is the conjunction of its
   keys; the result lists every message of the view that satisfies it, as
   sequence numbers or, for UID SEARCH, as UIDs *)
Definition sat (prog : list key) (v : view) (m : msg) : bool :=
  forallb (fun k => eval_spec k m v) prog.
Definition spec_search (uid : bool) (prog : list key) (v : view) : list N :=
  map (if uid then m_uid else m_seq) (filter (sat prog v) v).
