(* Search/Grammar.v — how each RFC 3501 search key is spelled on the wire
   (keyword and argument shape), to be compared with the GENERATED
   grammar_table of SearchKey.parse (Search/KeyTable.v).  Definitions only. *)
From Coq Require Import String.
From PV Require Import Base.Prelude Wire.SeqSet Search.Text Search.Keys Search.KeyRow
     Search.KeyTable.
Open Scope string_scope.

Definition set_word (f : sysflag) : string :=
  match f with FAnswered => "ANSWERED" | FDeleted => "DELETED" | FDraft => "DRAFT"
             | FFlagged => "FLAGGED" | FSeen => "SEEN" | FRecent => "RECENT" end.
Definition unset_word (f : sysflag) : string :=
  match f with FAnswered => "UNANSWERED" | FDeleted => "UNDELETED" | FDraft => "UNDRAFT"
             | FFlagged => "UNFLAGGED" | FSeen => "UNSEEN" | FRecent => "OLD" end.
Definition field_word (h : hfield) : string :=
  match h with HBcc => "BCC" | HCc => "CC" | HFrom => "FROM" | HSubject => "SUBJECT" | HTo => "TO" end.

(* keyword and argument shape of a key that starts with a keyword; None for
   the three forms without one: a bare sequence set, NOT (a prefix) and a
   parenthesised list *)
Definition key_word (k : key) : option (string * shape) :=
  match k with
  | KAll => Some ("ALL", ShNone)
  | KSet f => Some (set_word f, ShNone)
  | KUnset f => Some (unset_word f, ShNone)
  | KNew => Some ("NEW", ShNone)
  | KKeyword _ => Some ("KEYWORD", ShKeyword)
  | KUnkeyword _ => Some ("UNKEYWORD", ShKeyword)
  | KBefore _ => Some ("BEFORE", ShDate) | KOn _ => Some ("ON", ShDate)
  | KSince _ => Some ("SINCE", ShDate)
  | KSentBefore _ => Some ("SENTBEFORE", ShDate) | KSentOn _ => Some ("SENTON", ShDate)
  | KSentSince _ => Some ("SENTSINCE", ShDate)
  | KLarger _ => Some ("LARGER", ShInt) | KSmaller _ => Some ("SMALLER", ShInt)
  | KHeader _ _ => Some ("HEADER", ShHdr)
  | KField h _ => Some (field_word h, ShStr)
  | KBody _ => Some ("BODY", ShStr) | KText _ => Some ("TEXT", ShStr)
  | KUid _ => Some ("UID", ShUidSet)
  | KEmailId _ => Some ("EMAILID", ShObj) | KThreadId _ => Some ("THREADID", ShObj)
  | KOr _ _ => Some ("OR", ShOr)
  | KSeq _ | KNot _ | KAnd _ => None
  end.

Definition skey_name (k : skey) : kname :=
  match k with SKAtom n _ _ => n | SKSet _ _ => NKEYSET | SKOr _ _ _ => NOR end.

(* the filter a key of that shape carries, as the parser builds it *)
Definition shape_of_filter (f : afilt) : option shape :=
  match f with
  | FNone => Some ShNone | FStr _ => Some ShStr | FHdr _ _ => Some ShHdr | FObj _ => Some ShObj
  | FDate _ => Some ShDate | FFlag _ => Some ShKeyword | FInt _ => Some ShInt
  | FSeq true _ => Some ShUidSet | FSeq false _ => None
  end.

(* one key per keyword of the RFC grammar (plus RFC 8474) *)
Definition sample_keys : list key :=
  let d := (2000, 1, 1)%N in
  [ KAll; KNew; KKeyword []; KUnkeyword []; KBefore d; KOn d; KSince d; KSentBefore d; KSentOn d;
    KSentSince d; KLarger 0; KSmaller 0; KHeader [] []; KBody []; KText []; KUid []; KEmailId [];
    KThreadId []; KOr KAll KAll ]
  ++ map KSet [FAnswered; FDeleted; FDraft; FFlagged; FSeen; FRecent]
  ++ map KUnset [FAnswered; FDeleted; FDraft; FFlagged; FSeen; FRecent]
  ++ map (fun h => KField h []) [HBcc; HCc; HFrom; HSubject; HTo].

Definition all_knames : list kname :=
  [ NSEQSET; NKEYSET; NALL; NOR; NEMAILID; NTHREADID; NANSWERED; NUNANSWERED; NDELETED; NUNDELETED;
    NDRAFT; NUNDRAFT; NFLAGGED; NUNFLAGGED; NRECENT; NOLD; NSEEN; NUNSEEN; NKEYWORD; NUNKEYWORD;
    NNEW; NBEFORE; NON; NSINCE; NSENTBEFORE; NSENTON; NSENTSINCE; NSMALLER; NLARGER; NBCC; NCC;
    NFROM; NSUBJECT; NTO; NHEADER; NBODY; NTEXT ].

(* every keyword of the parser's table is the keyword of an RFC key *)
Definition grammar_only_rfc : bool :=
  forallb (fun r => existsb (fun k => match key_word k with
                                      | Some (w, _) => String.eqb w (g_word r)
                                      | None => false end) sample_keys) grammar_table.

(* every key name has exactly one dispatch row *)
Definition dispatch_complete : bool :=
  forallb (fun n => match find_drow dispatch_table n with Some _ => true | None => false end)
          all_knames
  && Nat.eqb (length dispatch_table) (length all_knames).
